import json, os, re, subprocess, sys, time

LEVEL = "exploration"
RULE = ("one evaluation = one (scheme, position, precision) encoder call or one (scheme, string) decoder call judged against the exact-rational "
        "reference model; positions come from a directed catalogue (poles, +-180, +-540, 1e9, subnormals, OSGB range ends) x all precisions incl. "
        "out-of-range ones, from cell edges k*w of every scheme and precision at {edge-1..3 ulp, edge, edge+1..3 ulp} (also edges of coarser "
        "precisions, longitudes shifted by multiples of 360), from the SW corners returned by the library's own decoder, and from structured random "
        "draws; strings are exhaustive low-precision code spaces, random deep codes, 12 deterministic mutation classes of valid codes and coverage-"
        "guided libFuzzer inputs; distinct = distinct hash of (class, scheme, inputs, precision); trivial = NaN-marker cases and oracle self-tests")
ASSUMPTIONS = [
    "GMP integer arithmetic on the exact binary value of each double is exact; MPFR rounds the exact rational centre/corner correctly",
    "alphabets, letter orders and digit orders of the four schemes are as transcribed from the public specifications into oracle/ref_codes.hpp (checked against published worked examples at start-up)",
    "documented leniencies are taken from the library's documentation: precision clamping (OSGB throws), geohash longer than 18 characters is truncated, INV/NAN/IN prefixes are the NaN marker, white space is allowed inside OSGB grid references",
    "infinite longitudes are outside the property (not real numbers) and are not generated",
    "OSGB::Forward accuracy is only checked to 1 mm against the Ordnance Survey series (annex C of the OS guide) inside Great Britain, plus Reverse(Forward) round trip to 20 nm; projection accuracy proper belongs to C06",
]
EXHAUSTIVE_SUBSPACES = [
    "all 33 825 Geohash strings of length <= 3 (alternating case)",
    "all 728 x 576 GARS 5-character codes over 3-digit bands {001..720, 000, 721, 722, 730, 799, 800, 900, 999} x all 24^2 letter pairs",
    "thorough tier: all GARS 6-character codes (digits 0-9 in position 6) and 7-character codes (quadrant 1-4, keypad 0-9) under every valid 30' cell (12.96 M strings)",
    "all 26^2 Georef two-letter strings, and all 26^2 degree-letter pairs under each of the 288 valid tiles (194 688 four-letter codes)",
    "all 26^2 OSGB two-letter strings and all 100 one-digit-pair codes under each of the 625 valid squares",
]
RUNS = [
    dict(harness="harness/C18.cpp", flavour="o2", scale={"quick": 1.0, "thorough": 1.0}),
    dict(harness="harness/C18.cpp", flavour="asan", scale={"quick": 0.1, "thorough": 0.05}, extra_args=["--limit-s", "600"]),
]
MANIFEST = dict(
    technique="runtime oracle monitor (exact-rational reference model of the four code schemes evaluated next to every encoder/decoder call), law monitors (prefix, re-encode, containment, case-insensitivity), exception monitor; ASan+UBSan build of the same workload; libFuzzer targets with a semantic oracle",
    text=("Every Geohash/GARS/Georef/OSGB encoder call is compared with the code of the cell that exactly (GMP arithmetic on the binary value of the "
          "double) contains the position, at all precisions, with directed workloads at the poles, the antimeridian and one to three ulps either side of "
          "cell edges of every precision; every decoder call is compared with the correctly rounded exact centre/SW corner and precision, re-encoded, "
          "re-spelled in other letter case; low-precision code spaces are enumerated completely; malformed strings (12 mutation classes + coverage-guided "
          "fuzzing) must be rejected with GeographicErr exactly when the reference says they are not codes; NaN <-> INVALID. Held = no monitor fired on the "
          "executions observed."),
    note="Trusts GMP/MPFR and the transcription of the public scheme definitions in oracle/ref_codes.hpp (self-tested against published examples and, for Geohash, against a second bisection formulation at every start).",
    design_ref="DESIGN.md#c18")

SCHEMES = ["geohash", "gars", "georef", "osgb"]
SEEDS = {
    "geohash": ["", "u4pruydqqvj", "ezs42", "EZS42", "zzzzzzzzzzzzzzzzzz", "0000000000000000000000", "invalid", "nan", "s000"],
    "gars": ["001AA", "720QZ", "006AG39", "006ag3", "361HN49", "INVALID", "721AA", "001RA"],
    "georef": ["NG", "NGAA", "GJPJ3517", "gjpj35171710", "AAAA0000000000000000000000", "MKPG12041205", "INVALID", "ABCD5", "GJPJ6017"],
    "osgb": ["SV", "TG5140913177", "tg 51409 13177", "NN166712", "HP0000000000000000000000", "INVALID", "IN", "SI00", "AA99"],
}


def _seed_corpus(d, scheme):
    os.makedirs(d, exist_ok=True)
    for i, s in enumerate(SEEDS[scheme]):
        with open(os.path.join(d, "s%02d" % i), "wb") as f:
            f.write(b"\x00" + s.encode())
    import struct
    pts = [(10.40744, 57.64911, 11), (180.0, 90.0, 5), (-180.0, -90.0, 2), (0.0, 0.0, 0)] if scheme != "osgb" else \
          [(651409.903, 313177.270, 5), (0.0, 0.0, 11), (-1e6, -5e5, 0), (1499999.5, 1999999.5, 8)]
    for i, (u, v, p) in enumerate(pts):
        with open(os.path.join(d, "f%02d" % i), "wb") as f:
            f.write(b"\x03" + struct.pack("<ddb", u, v, p))


def extra(res, tier, seed, workdir):
    """libFuzzer target per scheme, clang 'fuzz' flavour (ASan+UBSan), fixed number of runs and fixed seed."""
    sys.path.insert(0, os.path.join(os.path.dirname(os.path.dirname(os.path.abspath(__file__))), "lib"))
    import vbuild, driver
    runs = {"quick": 250000, "thorough": 5000000}[tier]
    procs = {}
    t0 = time.time()
    for sc in SCHEMES:
        exe = vbuild.harness("fuzz/C18_%s.cpp" % sc, "fuzz")
        wd = os.path.join(workdir, "fuzz_" + sc)
        corpus = os.path.join(wd, "corpus")
        _seed_corpus(corpus, sc)
        env = dict(os.environ)
        env.update(driver.SAN_ENV)
        env["C18_FUZZ_LOG"] = os.path.join(wd, "viol.jsonl")
        err = open(os.path.join(wd, "stderr.txt"), "wb")
        cmd = [exe, "-runs=%d" % runs, "-seed=%d" % seed, "-max_len=48", "-len_control=0", "-print_final_stats=1",
               "-artifact_prefix=" + wd + "/", "-timeout=20", corpus]
        procs[sc] = (subprocess.Popen(cmd, stdout=subprocess.DEVNULL, stderr=err, env=env, cwd=wd), err, wd, cmd)
    fz = {}
    for sc, (p, err, wd, cmd) in procs.items():
        try:
            rc = p.wait(timeout={"quick": 1500, "thorough": 4 * 3600}[tier])
        except subprocess.TimeoutExpired:
            p.kill(); p.wait()
            res.inconclusive.append("fuzz %s: wall-clock watchdog fired" % sc)
            rc = None
        err.close()
        txt = open(os.path.join(wd, "stderr.txt"), errors="replace").read()
        label = "C18_%s.fuzz" % sc
        src = "fuzz/C18_%s.cpp" % sc
        st = {}
        sp = os.path.join(wd, "viol.jsonl.stat")
        if os.path.exists(sp):
            try:
                st = json.load(open(sp))
            except Exception:
                st = {}
        m = re.search(r"stat::number_of_executed_units:\s*(\d+)", txt)
        execs = int(m.group(1)) if m else st.get("execs", 0)
        cov = re.findall(r"cov: (\d+) ft: (\d+)", txt)
        fz[sc] = dict(execs=execs, exit=rc, cov_edges=int(cov[-1][0]) if cov else None, features=int(cov[-1][1]) if cov else None,
                      classes=st.get("classes", {}), observed_max=st.get("obs", {}), violation_keys=st.get("violkeys", {}))
        res.evals += st.get("execs", 0)
        res.cases += st.get("execs", 0)
        for k, v in st.get("classes", {}).items():
            res.classes[k] = res.classes.get(k, 0) + v
        for k, v in st.get("violkeys", {}).items():
            res.violcounts[k] = max(res.violcounts.get(k, 0), v)
        vp = os.path.join(wd, "viol.jsonl")
        if os.path.exists(vp):
            for line in open(vp, errors="replace"):
                try:
                    r = json.loads(line)
                except Exception:
                    continue
                n = res.violcounts.get(r["key"], 0)
                res.add_viol(dict(key=r["key"], **{"class": r["class"]}, run=label, section="fuzz_replay", idx=SCHEMES.index(sc), seed=seed,
                                  flavour="o2", harness="harness/C18.cpp",
                                  detail=dict(r["detail"], input_hex=r["input_hex"], found_by=src,
                                              replay="C18_REPLAY_HEX=%s bin/check C18 --replay <this file>" % r["input_hex"])))
                res.violcounts[r["key"]] = max(n, res.violcounts.get(r["key"], 0))
        if rc not in (0, None):
            key = driver._san_key(txt)
            if key is None and "C18" not in txt and "libFuzzer: timeout" in txt:
                key = "hang@fuzz/" + sc
            if key is None:
                key = "crash:fuzz-exit%s@%s" % (rc, sc)
            art = [f for f in os.listdir(wd) if f.startswith(("crash-", "timeout-", "oom-", "leak-"))]
            hexin = open(os.path.join(wd, art[0]), "rb").read().hex() if art else ""
            res.add_viol(dict(key=key, **{"class": "fuzz/%s/sanitizer-or-crash" % sc}, run=label, section="fuzz_replay", idx=SCHEMES.index(sc),
                              seed=seed, flavour="asan", harness="harness/C18.cpp",
                              detail=dict(exit=rc, input_hex=hexin, found_by=src, report=txt[-3000:],
                                          replay="C18_REPLAY_HEX=%s bin/check C18 --replay <this file>" % hexin)))
        if rc == 0 and execs < runs // 2:
            res.inconclusive.append("fuzz %s executed only %d of %d runs" % (sc, execs, runs))
    res.extra["fuzz"] = fz
    res.runs.append(dict(run="C18_*.fuzz", flavour="fuzz", runs_each=runs, wall_s=round(time.time() - t0, 1)))
    driver.log("[C18] libFuzzer x4: %d runs each, %.0fs" % (runs, time.time() - t0))
