"""C10 — text formatting and parsing (DMS, Utility::str/val/fract/nummatch, GeoCoords strings,
command-line tools' line contract)."""
import os, re, random, shutil, subprocess, sys, time, hashlib, json

LEVEL = "exploration"
RULE = ("encode sections: one case = (value, trailing component, precision 0..20, indicator flag, separator), value from a "
        "class-labelled generator (carry x.99..95 at every precision in degrees/minutes/seconds, k/60, k/3600, decimal ties, "
        "+-0, +-90, +-180, ~360, tiny, huge, inf, nan, random); str/val: one (value, precision); geocoords: one (position, "
        "representation, precision -7..13) parsed back by GeoCoords::Reset; grammar: one generated documented input form with "
        "its exact rational value; mutate: one mutated string judged by the independent recogniser; distinct = distinct hash "
        "of (class, inputs / text); trivial = non-finite values, unmutated strings and the fixed documentation examples; "
        "fuzz: libFuzzer executions (counted, not hashed); cli: one script per case")
ASSUMPTIONS = ["GMP rationals / MPFR correctly rounded decimal->binary conversion are exact",
               "the documented grammar as transcribed in oracle/ref_dms.hpp (from DMS.hpp, Utility.hpp, GeoCoords.hpp, UTMUPS.hpp doc comments); "
               "forms the documentation is silent about (':' mixed with d ' \", nan/inf with trailing zeros, over/underflowing numbers, "
               "ignorable space nested inside another symbol) are GREY = never judged for accept/reject",
               "'a few units of round-off' = 4 ulp of the value (+1 ulp per integer digit beyond the 15th, +1 ulp per addition in a sum)",
               "an azimuth printed as 360 is tolerated only as the rounding carry of an angle within half a unit below 360 (lead decision)",
               "longitudes returned by GeoCoords::Reset(string) are compared modulo 360 (lead decision)"]
RUNS = [
    dict(harness="harness/C10.cpp", flavour="o2", scale={"quick": 1.0, "thorough": 1.0}),
    dict(harness="harness/C10.cpp", flavour="asan", scale={"quick": 0.1, "thorough": 0.05}, extra_args=["--limit-s", "600"]),
]
MANIFEST = dict(
    technique="runtime oracle monitors (exact rational half-unit test, independent reader of the output format, independent recogniser "
              "of the documented input grammar) next to every formatter/parser call; ASan+UBSan build of the same workload; "
              "coverage-guided mutation (libFuzzer) with the same in-target semantic oracle; history monitor on the command-line tools",
    text="Every formatter output (DMS::Encode over all trailing components, precisions 0..20, indicator flags, separators; Utility::str; "
         "GeoCoords Geo/DMS/UTMUPS/MGRS/Alt representations at all precisions) is read back both by an independent exact reader and by the "
         "library's own parser and must agree with the original to half a unit of the last printed digit with the same sign, hemisphere "
         "and zone, with minutes/seconds < 60 and azimuths in [0,360]; generated documented input forms must parse to their exact value; "
         "mutated and fuzzed strings must be accepted iff the independent recogniser of the documented grammar accepts them, with the same "
         "value, and only GeographicErr may escape; GeoConvert/GeodSolve (and the other tools once) are fed mixed scripts and must emit one "
         "line per input line, ERROR exactly on the lines that fail alone, non-zero exit iff any ERROR, and line-wise history independence. "
         "Held = no monitor fired on the executions observed.",
    note="Trusts GMP/MPFR, the transcription of the documented grammar in oracle/ref_dms.hpp, glibc's correctly rounded printf/strtod only "
         "as cross-checked by MPFR; numerics of UTM/MGRS conversions themselves belong to C04/C05.",
    design_ref="DESIGN.md#c10")


# =============================================================================================
# extra(): (c) libFuzzer targets with the in-target semantic oracle, (d) CLI history monitor
# =============================================================================================
FUZZ_TARGETS = ["dms_decode", "dms_latlon", "dms_angle", "dms_azimuth", "utility_val", "utility_fract",
                "utility_nummatch", "geocoords_reset"]
FUZZ_RUNS = {"quick": 150000, "thorough": 5000000}       # executions per libFuzzer process
FUZZ_JOBS = {"quick": 1, "thorough": 1}                   # processes per target

# documented symbol code points (DMS.hpp doc) -> dictionary for the mutator
_CP = [0xb0, 0xba, 0x2070, 0x2da, 0x2218, 0x2032, 0x2035, 0xb4, 0x2018, 0x2019, 0x201b, 0x2b9, 0x2ca, 0x2cb,
       0x2033, 0x2036, 0x2dd, 0x201c, 0x201d, 0x201f, 0x2ba, 0x2795, 0x2064, 0x2010, 0x2011, 0x2013, 0x2014,
       0x2212, 0x2796, 0xa0, 0x2007, 0x2009, 0x200a, 0x200b, 0x202f, 0x2063]
_SEEDS = {
    "dms_decode": [b"20d30'40.5\"S", b"-20:30:40.5", b"N-20d30'40.5\"", b"70:01:15W+0:0.5", b"04:.15", b"4d9''", b"nan", b"-inf",
                   "−5⁰3′2″W".encode(), b"S3-2.5+4.1N", b"1.#INF", b"4:59:60.0"],
    "dms_latlon": [b"40\n-75", b"N40\nW75", b"-75\nN40", b"75W\n40N", b"E-75\n-40S", b"33d26'24\"N\n43:16:12E"],
    "dms_angle": [b"12.5", b"12d30'", b"0:0:30", b"-1:30-0:0:15", b"1e1"],
    "dms_azimuth": [b"370", b"10E", b"10W", b"179:59:60.0", b"-180", b"10N"],
    "utility_val": [b"1.5e3", b" 42 ", b"-0.0", b"inf", b"-nan", b"1.#QNAN", b"2147483647", b"-2147483648", b".5", b"5."],
    "utility_fract": [b"1/298.257223563", b"-1/150", b"0.5", b"3/4", b"1/0", b"inf/2"],
    "utility_nummatch": [b"nan", b"-inf", b"+INF", b"Infinity", b"1.#IND", b"1.#INF00", b"1.#R"],
    "geocoords_reset": [b"33.44 43.27", b"N33d26.4' E43d16.2'", b"43d16'12\"E 33d26'24\"N", b"43:16:12E  33:26:24", b"38SLC3918701405",
                        b"38n 339188 3701405", b"897039 3708229 37n", b"n 2000000 2000000", b"40,-75", b"INV", b"inv nan nan"],
}


def _fuzz_start(res, tier, seed, shm):
    import driver, vbuild
    t0 = time.time()
    exe = vbuild.harness("fuzz/C10_fuzz.cpp", "fuzz")
    dic = os.path.join(shm, "c10.dict")
    with open(dic, "w") as f:
        for cp in _CP:
            b = chr(cp).encode("utf-8")
            f.write('"%s"\n' % "".join("\\x%02x" % c for c in b))
            if cp < 0x100:
                f.write('"\\x%02x"\n' % cp)
        for w in ["d", "D", "*", "'", "`", "\\\"", "''", ":", "N", "S", "E", "W", "+", "-", ".", "nan", "inf", "infinity", "1.#INF", "1.#QNAN",
                  "1.#SNAN", "1.#IND", "1.#R", "north", "south", "inv", "60.0", "59.9", " ", ",", "/", "e+", "\\x00"]:
            f.write('"%s"\n' % w)
    env = dict(os.environ)
    env.update(driver.SAN_ENV)
    env["ASAN_OPTIONS"] = ("abort_on_error=1:halt_on_error=1:detect_leaks=0:allocator_may_return_null=1:"
                           "max_allocation_size_mb=2048:symbolize=1:handle_abort=0")
    procs = []
    for ti, t in enumerate(FUZZ_TARGETS):
        for j in range(FUZZ_JOBS[tier]):
            d = os.path.join(shm, "fz_%s_%d" % (t, j))
            os.makedirs(os.path.join(d, "corpus"))
            os.makedirs(os.path.join(d, "art"))
            for i, s in enumerate(_SEEDS[t]):
                with open(os.path.join(d, "corpus", "seed%02d" % i), "wb") as f:
                    f.write(s)
            e = dict(env)
            e["C10_TARGET"] = t
            cmd = [exe, "-runs=%d" % FUZZ_RUNS[tier], "-seed=%d" % (seed * 1000 + ti * 10 + j + 1), "-max_len=384", "-dict=" + dic,
                   "-timeout=25", "-rss_limit_mb=3000", "-print_final_stats=1", "-artifact_prefix=" + os.path.join(d, "art") + "/",
                   "-use_value_profile=1", os.path.join(d, "corpus")]
            err = open(os.path.join(d, "stderr"), "wb")
            procs.append((t, j, d, cmd, subprocess.Popen(cmd, stdout=subprocess.DEVNULL, stderr=err, env=e, cwd=d), err))
    return procs, t0


def _fuzz_collect(res, tier, seed, procs, t0):
    import driver
    total = 0
    cov = {}
    for t, j, d, cmd, p, err in procs:
        try:
            rc = p.wait(timeout={"quick": 1500, "thorough": 4 * 3600}[tier])
        except subprocess.TimeoutExpired:
            p.kill()
            p.wait()
            res.inconclusive.append("fuzz %s/%d: wall-clock watchdog fired" % (t, j))
            continue
        err.close()
        txt = open(os.path.join(d, "stderr"), "rb").read().decode("utf-8", "replace")
        m = re.search(r"stat::number_of_executed_units: (\d+)", txt)
        n = int(m.group(1)) if m else 0
        if not m:
            m2 = re.findall(r"^#(\d+)\s", txt, re.M)
            n = int(m2[-1]) if m2 else 0
        total += n
        mc = re.findall(r"cov: (\d+) ft: (\d+) corp: (\d+)", txt)
        if mc:
            cov["%s/%d" % (t, j)] = dict(execs=n, cov=int(mc[-1][0]), features=int(mc[-1][1]), corpus=int(mc[-1][2]))
        res.classes["fuzz/" + t] = res.classes.get("fuzz/" + t, 0) + n
        if rc == 0:
            continue
        arts = sorted(os.listdir(os.path.join(d, "art")))
        data = open(os.path.join(d, "art", arts[0]), "rb").read() if arts else b""
        mv = re.search(r"C10-FUZZ-VIOLATION key=(\S+) class=(\S+) detail=(.*)", txt)
        if mv:
            key = mv.group(1)
            try:
                det = json.loads(mv.group(3))
            except Exception:
                det = dict(raw=mv.group(3)[:2000])
        else:
            key = driver._san_key(txt)
            if key is None:
                if "ERROR: libFuzzer: timeout" in txt:
                    key = "hang@fuzz/" + t
                elif "out-of-memory" in txt:
                    key = "oom@fuzz/" + t
                else:
                    key = "crash:exit%d@fuzz/%s" % (rc, t)
            det = dict(report=txt[-3000:])
        det["input_hex"] = data.hex()
        det["reproduce"] = "C10_TARGET=%s <fuzz binary of fuzz/C10_fuzz.cpp> <file with these bytes>" % t
        res.add_viol(dict(key=key, **{"class": "fuzz/" + t}, run="C10.fuzz", section="fuzz:" + t, idx=j, seed=seed, flavour="fuzz",
                          harness="fuzz/C10_fuzz.cpp", detail=det))
    res.evals += total
    res.extra["fuzz"] = dict(executions=total, per_target=cov, runs_per_process=FUZZ_RUNS[tier], wall_s=round(time.time() - t0, 1))
    res.runs.append(dict(run="C10.fuzz", flavour="fuzz", shards=len(procs), wall_s=round(time.time() - t0, 1)))
    res.events["fuzz executions"] = total
    driver.log("[C10] fuzz: %d processes, %d executions, %.0fs" % (len(procs), total, time.time() - t0))


# ---------------------------------------------------------------------------------------------
# (d) command-line tools
GOOD, BAD, ANY = "good", "bad", "any"


def _geoconvert_pool(rng, n):
    """(line bytes, label) — label from the *documentation* of GeoConvert / GeoCoords, not from running the tool"""
    L = []
    def ll():
        lat, lon = rng.uniform(-89.9, 89.9), rng.uniform(-179.9, 179.9)
        k = rng.randrange(7)
        if k == 0: return "%.6f %.6f" % (lat, lon)
        if k == 1: return "%.4f,%.4f" % (lat, lon)
        def dms(x, pos, neg, w, style):
            h = pos if x >= 0 else neg; x = abs(x); d = int(x); m = int((x - d) * 60); s = ((x - d) * 60 - m) * 60
            if s > 59.99: s = 59.99
            if style == 0: return "%dd%02d'%05.2f\"%s" % (d, m, s, h)
            if style == 1: return "%s%d:%02d:%05.2f" % (h, d, m, s)
            if style == 2: return "%d°%02d′%05.2f″%s" % (d, m, s, h)
            return "%dd%06.3f'%s" % (d, m + s / 60, h)
        st = rng.randrange(4)
        a, b = dms(lat, "N", "S", 2, st), dms(lon, "E", "W", 3, st)
        return (b + " " + a) if k == 2 else (a + "  " + b)
    fixed_good = ["33.44 43.27", "N33d26.4' E43d16.2'", "43d16'12\"E 33d26'24\"N", "43:16:12E 33:26:24", "38SLC30", "38SLC391014", "38SLC3918701405",
                  "37SHT9708", "38n 339188 3701405", "897039 3708229 37n", "40 -75", "N40 W75", "-75 N40", "75W 40N", "E-75 -40S", "90 0", "-90 180",
                  "n 2000000 2000000", "s 2000000 2000000", "0 0", "84 10", "-80 10", "38SMB", "38SMB4484", "38SMB44148470", "40:30+0:0:30 -75", "nan nan",
                  "01n 500000 0", "60s 500000 9999999", "ZAH0000000000", "  12.5   7.25  ", "\t5\t6", "38north 500000 1000000", "71 6", "60 5", "78 20"]
    fixed_bad = ["", " ", "\t", "91 0", "-90.0001 0", "1 2 3 4", "foo", "foo bar", "1:2:3:4:5 0", "4:60 5", "4d5\"4' 7", "N5 N6", "E5 W6", "99n 500000 0",
                 "0n 2000000 2000000", "38SLC391", "1e5 0", "5 5 5", "- 5", "5 +", "1..2 3", "38n x y", "38n 1e9 0", "inf 0", "7.0E1 5",
                 "5\x006 7", "\x00", "12\x00 5", "38S\x00MB", "38n 500000\x00 0", "١ ٢"]
    for s in fixed_good: L.append((s.encode(), GOOD))
    for s in fixed_bad: L.append((s.encode("utf-8"), BAD))
    while len(L) < n:
        k = rng.randrange(10)
        if k < 5: L.append((ll().encode(), GOOD))
        elif k == 5: L.append((("%d%s %d %d" % (rng.randrange(1, 61), rng.choice("ns"), rng.randrange(200000, 800000), rng.randrange(1100000, 9000000))).encode(), ANY))
        elif k == 6:   # mutate a good line
            s = bytearray(ll().encode()); 
            for _ in range(rng.randrange(1, 3)):
                p = rng.randrange(len(s) + 1); c = rng.choice([b":", b"'", b"d", b"\x00", b"N", b"E", b" ", b"-", b".", b"9", b"\xc2\xb0", b"\xe2\x80", b"x"])
                if rng.random() < 0.5 and len(s): s[p % len(s):p % len(s) + 1] = c
                else: s[p:p] = c
            L.append((bytes(s), ANY))
        elif k == 7: L.append((bytes(rng.randrange(1, 256) for _ in range(rng.randrange(1, 30))).replace(b"\n", b" "), ANY))
        elif k == 8: L.append((ll().encode() + b"\r", GOOD))
        else: L.append(((ll() + " ") .encode() + b"7" * rng.choice([300, 5000, 200000]), BAD))
    return L


def _geodsolve_pool(rng, n, mode):
    L = []
    def num(x): return rng.choice(["%.5f", "%.2f", "%g"]) % x
    def good():
        lat, lon, azi = rng.uniform(-90, 90), rng.uniform(-180, 180), rng.uniform(-180, 360)
        if mode == "inverse": return "%s %s %s %s" % (num(lat), num(lon), num(rng.uniform(-90, 90)), num(rng.uniform(-180, 180)))
        if mode == "line": return rng.choice(["%d" % rng.randrange(-30000000, 30000000), "%.3f" % rng.uniform(0, 2e7), "1e6", "0", "-0"])
        if mode == "linearc": return rng.choice(["%d" % rng.randrange(-720, 720), "%.3f" % rng.uniform(0, 180), "10d30'", "1:30:00", "0"])
        s12 = ("%.3f" % rng.uniform(-720, 720)) if mode == "arc" else ("%.1f" % rng.uniform(-3e7, 3e7))
        a = rng.choice([num(lat), "%dd%02d'%s" % (abs(int(lat)), rng.randrange(60), "N" if lat >= 0 else "S")])
        b = rng.choice([num(lon), "%d:%02d:%02d%s" % (abs(int(lon)), rng.randrange(60), rng.randrange(60), "E" if lon >= 0 else "W")])
        return "%s %s %s %s" % (a, b, rng.choice([num(azi), "%dd" % int(azi), "%d:30" % int(abs(azi))]), s12)
    fixed_bad = ["", " ", "foo", "1 2 3", "1 2 3 4 5", "91 0 0 1", "0 0 N5 1", "1:2:3:4:5 0 0 0", "0 0 0 x", "\x00", "1\x002 0 0 0", "0 0 0 1\x00", "4:60 0 0 0", "5 5 5 5 x"]
    if mode == "inverse": fixed_bad = ["", " ", "foo", "1 2 3", "1 2 3 4 5", "N91 0 0 1", "0 0 E5 W1", "N1 S2 3 4", "1:2:3:4:5 0 0 0", "0 0 0 x", "\x00", "1\x002 0 0 0", "0 0 0 1\x00", "4:60 0 0 0"]
    if mode in ("line", "linearc"): fixed_bad = ["", " ", "foo", "1 2", "x1", "1\x00", "1..2", "1e"]
    for s in fixed_bad: L.append((s.encode(), BAD))
    while len(L) < n:
        k = rng.randrange(10)
        if k < 6: L.append((good().encode(), GOOD))
        elif k == 6: L.append((good().encode() + b"\r", GOOD))
        elif k == 7:
            s = bytearray(good().encode())
            for _ in range(rng.randrange(1, 3)):
                p = rng.randrange(len(s) + 1); c = rng.choice([b":", b"'", b"d", b"\x00", b"N", b"E", b" ", b"-", b".", b"9", b"\xc2\xb0", b"x", b"e"])
                if rng.random() < 0.5 and len(s): s[p % len(s):p % len(s) + 1] = c
                else: s[p:p] = c
            L.append((bytes(s), ANY))
        elif k == 8: L.append((bytes(rng.randrange(1, 256) for _ in range(rng.randrange(1, 30))).replace(b"\n", b" "), ANY))
        else: L.append((good().encode() + b" " + b"3" * rng.choice([300, 5000, 200000]), BAD))
    return L


def _run(exe, opts, data, env, timeout=120):
    try:
        p = subprocess.run([exe] + opts, input=data, stdout=subprocess.PIPE, stderr=subprocess.PIPE, env=env, timeout=timeout)
        return p.returncode, p.stdout, p.stderr
    except subprocess.TimeoutExpired:
        return "timeout", b"", b""


def _fuzz(res, tier, seed, shm):
    procs, t0 = _fuzz_start(res, tier, seed, shm)
    _fuzz_collect(res, tier, seed, procs, t0)


def _cli(res, tier, seed, shm, workers=12):
    import driver, vbuild
    from concurrent.futures import ThreadPoolExecutor
    t0 = time.time()
    env = dict(os.environ)
    env.update(driver.SAN_ENV)
    nscripts_total = 0
    nsingles = 0
    stats = {}

    nv = [0]

    def viol(key, tool, flavour, opts, detail):
        d = dict(tool=tool, options=opts)
        d.update(detail)
        nv[0] += 1
        if sum(1 for v in res.viols if v["key"] == key) >= 5:      # keep the first few witnesses per key
            res.violcounts[key] = res.violcounts.get(key, 0) + 1
            return
        res.add_viol(dict(key=key, **{"class": "cli/" + tool}, run="C10.cli." + flavour, section="cli:" + tool, idx=nv[0], seed=seed,
                          flavour=flavour, harness="checks/C10.py", detail=d))

    def crashkey(tool, rc, err):
        k = driver._san_key(err.decode("utf-8", "replace"))
        if k is None:
            k = ("hang@cli/%s" % tool) if rc == "timeout" else ("crash:signal%d@cli/%s" % (-rc, tool) if isinstance(rc, int) and rc < 0 else "cli:C10/%s/unexpected-exit-status" % tool)
        return k

    plans = {
        "GeoConvert": [([], "geo"), (["-d", "-p", "3"], "geo"), (["-:", "-p", "-2"], "geo"), (["-u", "-p", "2"], "geo"), (["-m", "-p", "-2"], "geo"), (["-c"], "geo"),
                       (["-w", "-p", "9"], "geo"), (["-u", "-z", "31"], "geo"), (["-m", "-s", "-n"], "geo"), (["-u", "-t", "-l"], "geo"),
                       (["--comment-delimiter", "#"], "geo#"), (["-u", "-T"], "latch"), (["-u", "-S"], "latch")],
        "GeodSolve": [([], "direct"), (["-i"], "inverse"), (["-a", "-d"], "arc"), (["-f", "-p", "1"], "direct"), (["-i", "-f", "-:", "-E"], "inverse"),
                      (["-L", "40", "-75", "30"], "line"), (["-L", "40", "-75", "30", "-a"], "linearc"), (["-i", "-u", "-w", "-b"], "inverse"),
                      (["--comment-delimiter", "#"], "direct#"), (["-I", "1", "2", "3", "4", "-F"], "line")],
    }
    others = {   # one smoke plan each: (options, good lines, bad lines)
        "CartConvert": ([], ["33 44 20", "33dN 44dE 0", "-90 0 1e3"], ["", "foo", "91 0 0", "1 2", "1\x002 3 4"]),
        "ConicProj": (["-c", "40", "60"], ["39 -77", "40d30' -75"], ["", "x y", "91 0", "1 2 3"]),
        "GeodesicProj": (["-z", "40", "-75"], ["41 -74", "N39 W76"], ["", "x", "1 2 3", "91 0"]),
        "TransverseMercatorProj": ([], ["10 5", "N10 E5", "-30:30 2"], ["", "x 1", "1 2 3", "95 0"]),
        "RhumbSolve": ([], ["40 -75 30 1000000", "0 0 90 1e6"], ["", "1 2 3", "91 0 0 0", "a b c d"]),
        "IntersectTool": ([], ["0 0 45 1 2 135", "10 10 0 10 11 -90"], ["", "0 0 45 1 2", "0 0 45 1 2 135 9", "x 0 45 1 2 135"]),
    }
    nodata = ["GeoidEval", "Gravity", "MagneticField"]

    for flavour in ("o2", "asan"):
        tools = vbuild.tools(flavour)
        frac = 1.0 if flavour == "o2" else 0.2
        npool = int({"quick": 110, "thorough": 400}[tier] * (1 if flavour == "o2" else 0.4))
        nscr = max(3, int({"quick": 40, "thorough": 400}[tier] * frac))
        for tool, plan in plans.items():
            exe = tools[tool]
            for pi, (opts, kind) in enumerate(plan):
                rng = random.Random("%d/%s/%s/%d" % (seed, flavour, tool, pi))
                cd = kind.endswith("#")
                k0 = kind.rstrip("#")
                pool = _geoconvert_pool(rng, npool) if k0 in ("geo", "latch") else _geodsolve_pool(rng, npool, k0)
                if cd:   # comment handling: documented to be appended to the output line
                    pool = pool + [(l + rng.choice([b" # note", b"#x", b" #"]), lab) for l, lab in pool[:npool // 3] if b"#" not in l]
                    pool = [(l, ANY if b"#" in l and not l.endswith((b" # note", b"#x", b" #")) else lab) for l, lab in pool]
                    pool += [(b"# only a comment", BAD), (b"#", BAD)]
                # de-duplicate
                seen = {}
                for l, lab in pool:
                    if b"\n" in l: continue
                    seen.setdefault(l, lab)
                lines = list(seen)
                # ---- fresh run of every line alone
                with ThreadPoolExecutor(workers) as ex:
                    singles = list(ex.map(lambda l: _run(exe, opts, l + b"\n", env), lines))
                nsingles += len(lines)
                single = {}
                for l, (rc, out, err) in zip(lines, singles):
                    lab = seen[l]
                    if rc not in (0, 1) or err:
                        viol(crashkey(tool, rc, err), tool, flavour, opts, dict(line_hex=l[:2000].hex(), exit=str(rc), stderr=err.decode("utf-8", "replace")[-3000:]))
                        continue
                    single[l] = (rc, out)
                    iserr = out.startswith(b"ERROR")
                    if out.count(b"\n") != 1 or not out.endswith(b"\n"):
                        viol("cli:C10/%s/one-output-line-per-input-line" % tool, tool, flavour, opts, dict(line_hex=l[:2000].hex(), output=out[:500].decode("latin-1")))
                    if iserr != (rc != 0):
                        viol("cli:C10/%s/exit-status-iff-ERROR" % tool, tool, flavour, opts, dict(line_hex=l[:2000].hex(), exit=rc, output=out[:500].decode("latin-1")))
                    zone_forced = any(o in opts for o in ("-z", "-t", "-T"))     # a forced zone legitimately refuses far-away points
                    plain_order = "-w" not in opts                                # labels assume latitude first
                    if lab == GOOD and iserr and plain_order and not zone_forced and not ("-m" in opts and b"nan" in l):
                        viol("cli:C10/%s/documented-form-gives-ERROR" % tool, tool, flavour, opts, dict(line=l[:500].decode("latin-1"), output=out[:500].decode("latin-1")))
                    if lab == BAD and not iserr and plain_order:
                        viol("cli:C10/%s/malformed-line-accepted" % tool, tool, flavour, opts, dict(line_hex=l[:2000].hex(), output=out[:500].decode("latin-1")))
                    if cd and b"#" in l and not iserr and not out.rstrip(b"\n").endswith(l[l.index(b"#"):]):
                        viol("cli:C10/%s/comment-not-appended" % tool, tool, flavour, opts, dict(line=l[:500].decode("latin-1"), output=out[:500].decode("latin-1")))
                usable = [l for l in lines if l in single]
                st = stats.setdefault(tool, dict(lines=0, error_lines=0, scripts=0, script_lines=0))
                st["lines"] += len(usable)
                st["error_lines"] += sum(1 for l in usable if single[l][0])
                short = [l for l in usable if len(l) < 1000]
                longl = [l for l in usable if len(l) >= 1000]
                if not short:
                    continue
                # ---- scripts
                scripts = []
                for si in range(nscr):
                    n = int(round(2.718281828 ** rng.uniform(0, 6.2146)))     # 1..500, log-uniform
                    sl = [rng.choice(short) for _ in range(n)]
                    if longl and rng.random() < 0.4:        # a few very long lines, not hundreds of them
                        for _ in range(rng.randrange(1, 4)):
                            sl[rng.randrange(len(sl))] = rng.choice(longl)
                    final_nl = rng.random() < 0.8
                    scripts.append((sl, final_nl))
                def runscript(s):
                    sl, final_nl = s
                    data = b"\n".join(sl) + (b"\n" if final_nl else b"")
                    if not final_nl and sl[-1] == b"":      # a final empty line without newline is no line at all
                        data += b"\n"
                    return _run(exe, opts, data, env, timeout=600)
                with ThreadPoolExecutor(workers) as ex:
                    outs = list(ex.map(runscript, scripts))
                for (sl, final_nl), (rc, out, err) in zip(scripts, outs):
                    nscripts_total += 1
                    st["scripts"] += 1
                    st["script_lines"] += len(sl)
                    res.classes["cli/%s/%s" % (tool, " ".join(opts) or "default")] = res.classes.get("cli/%s/%s" % (tool, " ".join(opts) or "default"), 0) + 1
                    script_hex = (b"\n".join(sl)[:4000]).hex()
                    if rc not in (0, 1) or err:
                        viol(crashkey(tool, rc, err), tool, flavour, opts, dict(script_hex=script_hex, exit=str(rc), stderr=err.decode("utf-8", "replace")[-3000:]))
                        continue
                    if out.count(b"\n") != len(sl):
                        viol("cli:C10/%s/one-output-line-per-input-line" % tool, tool, flavour, opts, dict(script_hex=script_hex, input_lines=len(sl), output_lines=out.count(b"\n")))
                        continue
                    if kind == "latch":
                        expected, anyerr = _latch_model(exe, opts, sl, single, env)
                    else:
                        expected = b"".join(single[l][1] for l in sl)
                        anyerr = any(single[l][0] for l in sl)
                    if out != expected:
                        ol, el = out.split(b"\n"), expected.split(b"\n")
                        i = next((i for i in range(min(len(ol), len(el))) if ol[i] != el[i]), -1)
                        viol("cli:C10/%s/output-depends-on-history" % tool, tool, flavour, opts,
                             dict(script_hex=script_hex, first_differing_line=i, in_script=ol[i][:300].decode("latin-1") if i >= 0 else "", alone=el[i][:300].decode("latin-1") if i >= 0 else "",
                                  input_line_hex=sl[i][:500].hex() if 0 <= i < len(sl) else ""))
                    if (rc != 0) != anyerr:
                        viol("cli:C10/%s/exit-status-iff-ERROR" % tool, tool, flavour, opts, dict(script_hex=script_hex, exit=rc, any_error_line=anyerr))
        # ---- the other tools, once each
        for tool, (opts, good, bad) in others.items():
            exe = tools[tool]
            rng = random.Random("%d/%s/%s" % (seed, flavour, tool))
            lines = [g.encode() for g in good] + [b.encode() for b in bad] + [good[0].encode() + b"\r"]
            sing = {}
            for l in lines:
                rc, out, err = _run(exe, opts, l + b"\n", env)
                nsingles += 1
                if rc not in (0, 1) or err:
                    viol(crashkey(tool, rc, err), tool, flavour, opts, dict(line_hex=l.hex(), exit=str(rc), stderr=err.decode("utf-8", "replace")[-3000:]))
                    continue
                sing[l] = (rc, out)
                iserr = out.startswith(b"ERROR")
                if out.count(b"\n") != 1 or iserr != (rc != 0) or (l.decode() in good and iserr) or (l.decode() in bad and not iserr):
                    viol("cli:C10/%s/line-contract" % tool, tool, flavour, opts, dict(line_hex=l.hex(), exit=rc, output=out[:300].decode("latin-1")))
            usable = list(sing)
            sl = [rng.choice(usable) for _ in range(60)] if usable else []
            if sl:
                rc, out, err = _run(exe, opts, b"\n".join(sl) + b"\n", env)
                nscripts_total += 1
                res.classes["cli/%s/smoke" % tool] = res.classes.get("cli/%s/smoke" % tool, 0) + 1
                if rc not in (0, 1) or err:
                    viol(crashkey(tool, rc, err), tool, flavour, opts, dict(exit=str(rc), stderr=err.decode("utf-8", "replace")[-3000:]))
                elif out != b"".join(sing[l][1] for l in sl) or (rc != 0) != any(sing[l][0] for l in sl):
                    viol("cli:C10/%s/line-contract" % tool, tool, flavour, opts, dict(script_hex=b"\n".join(sl).hex(), exit=rc, output=out[:2000].decode("latin-1")))
        # Planimeter: documented exception — vertices accumulate, a blank (or bad) line ends the polygon and prints one line
        exe = tools["Planimeter"]
        data = b"0 0\n0 1\n1 1\n\n10 10\n10 11\n11 11\n11 10\nfoo\n5 5\n"
        rc, out, err = _run(exe, [], data, env)
        nscripts_total += 1
        res.classes["cli/Planimeter/smoke"] = res.classes.get("cli/Planimeter/smoke", 0) + 1
        if rc != 0 or err or out.count(b"\n") != 3 or not out.startswith(b"3 ") or b"\n4 " not in out:
            viol(crashkey("Planimeter", rc, err) if (rc not in (0, 1) or err) else "cli:C10/Planimeter/polygon-line-contract", "Planimeter", flavour, [], dict(exit=str(rc), output=out[:500].decode("latin-1"), stderr=err[-2000:].decode("latin-1")))
        # tools whose data files are absent: must fail cleanly (message + exit status 1), not crash
        for tool in nodata:
            rc, out, err = _run(tools[tool], [], b"10 20\n", env)
            nscripts_total += 1
            res.classes["cli/%s/smoke-no-data" % tool] = res.classes.get("cli/%s/smoke-no-data" % tool, 0) + 1
            if rc != 1 or driver._san_key(err.decode("utf-8", "replace")):
                viol(crashkey(tool, rc, err), tool, flavour, [], dict(exit=str(rc), stderr=err[-2000:].decode("latin-1")))
    res.evals += nscripts_total + nsingles
    res.extra["cli"] = dict(scripts=nscripts_total, single_line_runs=nsingles, per_tool=stats, wall_s=round(time.time() - t0, 1))
    res.runs.append(dict(run="C10.cli", flavour="o2+asan", shards=1, wall_s=round(time.time() - t0, 1)))
    res.events["cli scripts"] = nscripts_total
    res.events["cli single-line fresh runs"] = nsingles
    driver.log("[C10] cli: %d scripts, %d single-line runs, %.0fs" % (nscripts_total, nsingles, time.time() - t0))


def _latch_model(exe, opts, sl, single, env):
    """GeoConvert -T / -S (documented): the zone of the first successfully converted UTM position is used for all
    *subsequent* lines, i.e. they behave like a fresh run with -z <zone><hemisphere>."""
    out = []
    anyerr = False
    latched = None
    cache = {}
    for l in sl:
        if latched is None:
            rc, o = single[l]
            if rc == 0:
                m = re.match(rb"(\d\d)?([ns]) ", o)
                if m:
                    latched = (m.group(1) or b"").decode() + m.group(2).decode()
        else:
            key = (latched, l)
            if key not in cache:
                rc, o, err = _run(exe, ["-u", "-z", latched], l + b"\n", env)
                cache[key] = (rc, o)
            rc, o = cache[key]
        out.append(o)
        anyerr = anyerr or bool(rc)
    return b"".join(out), anyerr


def extra(res, tier, seed, workdir):
    shm = "/dev/shm/%d" % os.getpid()
    shutil.rmtree(shm, ignore_errors=True)
    os.makedirs(shm)
    procs = []
    try:
        # the 8 libFuzzer processes run while the CLI monitor works with 8 workers: never more than 16 processes in total
        procs, t0 = _fuzz_start(res, tier, seed, shm)
        _cli(res, tier, seed, shm, workers=8)
        _fuzz_collect(res, tier, seed, procs, t0)
    finally:
        for pr in procs:
            if pr[4].poll() is None:
                pr[4].kill()
        shutil.rmtree(shm, ignore_errors=True)
