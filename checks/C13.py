"""C13 - error contract, NaN policy, memory safety, no crash / hang.

RUNS: harness/C13.cpp (constructor matrix, NaN propagation with inferred dependence, special
values, throw-leaves-outputs) and harness/C13_files.cpp (fault enumeration over the data-file
readers, hostile-string catalogue and grammar) in the -O2 and the ASan+UBSan builds.
extra(): coverage-guided libFuzzer campaigns (clang, ASan+UBSan) over every string parser and
file reader, and (thorough) a valgrind memcheck pass over the file-reader corpus."""
import atexit, glob, hashlib, json, os, re, shutil, struct, subprocess, sys, time
from concurrent.futures import ThreadPoolExecutor

VERIF = os.path.dirname(os.path.dirname(os.path.abspath(__file__)))
sys.path.insert(0, os.path.join(VERIF, "lib"))

LEVEL = "exploration"          # the fault-enumeration part is reported separately in coverage["levels"]
RULE = ("numeric: one case = (entry point, argument position, special value | NaN) with all other arguments drawn valid from the "
        "entry's generator; dependence of every output on the argument is inferred from re-draws; distinct = hash(entry, arguments, "
        "ellipsoid).  constructors: (constructor, parameter, special value) exhaustively + random multi-parameter cases.  files: one case "
        "= one enumerated fault of one valid synthetic seed file (every truncation offset, every header field x replacement list, every "
        "length word, every line deleted/duplicated/swapped, every single-byte corruption, swapped/empty .cof).  strings: (catalogue "
        "entry | grammar mutation) x parser.  fuzz: libFuzzer executions (coverage-guided, -runs bounded), counted separately.")
ASSUMPTIONS = [
    "ASan/UBSan (g++ 12, clang 14) and valgrind memcheck detect the memory errors / UB they are documented to detect",
    "std::bad_alloc is produced by a replaced operator new with a 512 MB cap (fuzz/C13_newlimit.hpp) - ASan's own operator new aborts instead of throwing",
    "the per-case CPU watchdog (4 s numeric, 60 s files; library calls take microseconds) separates 'hang' from 'slow'",
    "documented-legal/illegal constructor parameters are transcribed by hand from the headers (fuzz/C13_ctors.hpp)",
    "NaN rule: an output is required to be NaN only if it was OBSERVED to change when the argument was re-drawn with all else fixed",
]
EXHAUSTIVE_SUBSPACES = [
    "constructor matrix: every listed constructor x every parameter x its special-value list",
    "fault enumeration: the complete fault lists of every seed file (sections fault_*), both builds",
    "hostile-string catalogue x every string parser (section parser_directed), both builds",
]
RUNS = [
    dict(harness="harness/C13_files.cpp", flavour="asan", scale={"quick": 0.5, "thorough": 0.3}, max_restarts=200),
    dict(harness="harness/C13_files.cpp", flavour="o2", scale={"quick": 1.0, "thorough": 1.0}, max_restarts=200),
    dict(harness="harness/C13.cpp", flavour="asan", scale={"quick": 0.3, "thorough": 0.1}, max_restarts=400),
    dict(harness="harness/C13.cpp", flavour="o2", scale={"quick": 1.0, "thorough": 1.0}, max_restarts=400),
]
# development switch (not used by the normal check): C13_ONLY=C13_files|C13.cpp|fuzz restricts the run
_ONLY = os.environ.get("C13_ONLY")
if _ONLY:
    RUNS = [r for r in RUNS if _ONLY in r["harness"]]
MANIFEST = dict(
    technique="sanitizer builds (ASan+UBSan incl. float-cast-overflow) + exception/sentinel/NaN-dependence monitors over a registry of ~240 numeric "
              "entry points and ~55 constructors; deterministic fault enumeration and libFuzzer (coverage-guided) over all string parsers and data-file "
              "readers; valgrind memcheck over the reader corpus; per-case CPU watchdog",
    text="Every registered public entry point is executed with NaN and with the special values in every argument position while monitors check the "
         "exception type, that outputs are untouched after a throw, that outputs observed to depend on the NaN argument are NaN and the others "
         "bit-identical; every constructor parameter is driven through its legal/illegal special values; every string parser and file reader is "
         "driven with an enumerated list of faults of valid seeds and with coverage-guided mutation, all under ASan/UBSan. Held = no monitor or "
         "sanitizer fired on the executions observed (known findings listed in known_findings.json).",
    note="Trusts the sanitizers, the hand-transcribed legality tables and the registry's valid-input generators; entry points not in the registry, "
         "multi-threaded use and the CLI tools (C10) are out of scope; libFuzzer coverage is bounded by -runs.",
    design_ref="DESIGN.md#c13")

# ------------------------------------------------------------------ libFuzzer campaigns
# executions per target: (quick, thorough)
FUZZ_RUNS = {
    "dms_decode": (150000, 6000000), "dms_latlon": (100000, 4000000), "geocoords": (60000, 3000000), "mgrs_reverse": (150000, 6000000),
    "utmups_zone": (150000, 4000000), "geohash": (150000, 4000000), "gars": (150000, 4000000), "georef": (150000, 4000000),
    "osgb": (150000, 4000000), "utility": (80000, 4000000), "fract_int": (100000, 2000000),
    "geoid": (25000, 1500000), "magnetic": (40000, 2500000), "gravity": (40000, 2500000), "readcoeffs": (40000, 2000000),
    "nn_bin": (30000, 1500000), "nn_text": (60000, 2500000),
}
MAXLEN = {"geoid": 4096, "magnetic": 4096, "gravity": 4096, "readcoeffs": 2048, "nn_bin": 4096, "nn_text": 2048}
FUZZ_ENV = {
    "ASAN_OPTIONS": "abort_on_error=1:halt_on_error=1:detect_leaks=0:allocator_may_return_null=1:max_allocation_size_mb=512:symbolize=1:handle_abort=1",
    "UBSAN_OPTIONS": "print_stacktrace=1:halt_on_error=1:abort_on_error=1:symbolize=1",
}
NJOBS = 12


def _witness(target, data):
    """store a fuzz witness so that bin/check C13 --replay re-executes it through harness/C13_files.cpp (section fuzz_witness)"""
    idx = int(hashlib.sha1(target.encode() + b"\n" + data).hexdigest()[:12], 16)
    d = os.path.join(VERIF, "replays", "C13")
    os.makedirs(d, exist_ok=True)
    with open(os.path.join(d, "w_%d.bin" % idx), "wb") as f:
        f.write(target.encode() + b"\n" + data)
    return idx


def _fuzz_target(exe, target, nruns, seed, root, env):
    import driver
    corp = os.path.join(root, "corpus", target)
    seeds = os.path.join(root, "seeds", target)
    art = os.path.join(root, "art", target)
    os.makedirs(corp, exist_ok=True)
    os.makedirs(art, exist_ok=True)
    viollog = os.path.join(root, "viol.%s.jsonl" % target)
    e = dict(env, C13_TARGET=target, C13_SCRATCH=os.path.join(root, "scratch"), C13_VIOLLOG=viollog)
    done, crashes, stats, out = 0, [], {}, dict(target=target, execs=0, restarts=0)
    for attempt in range(6):
        left = nruns - done
        if left <= 0:
            break
        cmd = [exe, "-runs=%d" % left, "-seed=%d" % (seed + 7919 * attempt), "-max_len=%d" % MAXLEN.get(target, 128),
               "-dict=" + os.path.join(root, "seeds", target + ".dict"), "-timeout=25", "-malloc_limit_mb=0", "-rss_limit_mb=6000",
               "-print_final_stats=1", "-artifact_prefix=" + art + "/", corp, seeds]
        p = subprocess.run(cmd, env=e, stdout=subprocess.DEVNULL, stderr=subprocess.PIPE)
        txt = p.stderr.decode("utf-8", "replace")
        m = re.search(r"stat::number_of_executed_units:\s*(\d+)", txt)
        n = int(m.group(1)) if m else 0
        if not m:
            # crashed before the final stats: take the last "#N" progress marker
            ms = re.findall(r"^#(\d+)\s", txt, re.M)
            n = int(ms[-1]) if ms else 0
        done += max(n, 1)
        for k in ("cov", "ft", "corp"):
            mm = re.findall(r"\b%s: (\d+)" % k, txt)
            if mm:
                stats[k] = int(mm[-1])
        if p.returncode == 0:
            continue
        out["restarts"] += 1
        # a crash / timeout / oom artifact
        arts = sorted(glob.glob(os.path.join(art, "*")), key=os.path.getmtime)
        data = open(arts[-1], "rb").read() if arts else b""
        kind = "crash"
        if "libFuzzer: timeout" in txt:
            kind = "timeout"
        elif "libFuzzer: out-of-memory" in txt:
            kind = "oom"
        key = driver._san_key(txt)
        if kind in ("timeout", "oom") and arts:
            # re-run once outside the fuzzing loop before it can become a violation
            try:
                q = subprocess.run([exe, arts[-1]], env=e, stdout=subprocess.DEVNULL, stderr=subprocess.PIPE, timeout=120)
                if q.returncode == 0:
                    out["flaky"] = out.get("flaky", 0) + 1
                    for a in arts:
                        os.unlink(a)
                    continue
            except subprocess.TimeoutExpired:
                pass
            key = ("hang:C13/fuzz/" if kind == "timeout" else "oom:C13/fuzz/") + target
        if key is None:
            key = "crash:C13/fuzz/%s/exit%d" % (target, p.returncode)
        crashes.append(dict(key=key, data=data, report=txt[-3500:], kind=kind))
        for a in arts:
            os.unlink(a)
    out["execs"] = done
    out.update(stats)
    mons = []
    if os.path.exists(viollog):
        for line in open(viollog, errors="replace"):
            try:
                mons.append(json.loads(line))
            except Exception:
                pass
    return out, crashes, mons


def _cleanup_stale():
    for d in glob.glob("/dev/shm/c13*.*"):
        m = re.search(r"\.(\d+)$", d)
        if m and not os.path.exists("/proc/" + m.group(1)):
            shutil.rmtree(d, ignore_errors=True)


def _valgrind(res, seed, root, corpus_root):
    """memcheck over (a) seeds + libFuzzer corpus of the file readers, (b) a 3/16 sample of the enumerated faults"""
    import vbuild
    exe = vbuild.harness("harness/C13_files.cpp", "o2")
    cdir = os.path.join(root, "vgcorpus")
    os.makedirs(cdir, exist_ok=True)
    for t in ("geoid", "magnetic", "gravity", "readcoeffs", "nn_bin", "nn_text"):
        files = sorted(glob.glob(os.path.join(corpus_root, t, "*")))[:400]
        for f in files:
            shutil.copy(f, os.path.join(cdir, "%s__%s" % (t, os.path.basename(f))))
    jobs = [("corpus", ["--sections", "seed_valid,corpus_replay", "--nshards", "1", "--shard", "0"])]
    for s in (1, 6, 11):
        jobs.append(("faults%d" % s, ["--sections", "fault_,geoid_ftruncate", "--nshards", "16", "--shard", str(s)]))
    venv = dict(os.environ, C13_CORPUS_DIR=cdir)
    secnames = [l.split()[0] for l in subprocess.run([exe, "--list"], stdout=subprocess.PIPE, text=True, env=venv).stdout.splitlines()]

    def parse(txt):
        """distinct (kind, first GeographicLib frame) of every memcheck error block in a log"""
        keys = {}
        for blk in re.split(r"\n==\d+== \n", txt):
            m = re.search(r"==\d+== ([A-Z][^\n]*)", blk)
            if not m:
                continue
            what = m.group(1).strip()
            if what.startswith("Exit program") or what.startswith("ERROR SUMMARY"):
                continue
            kind = ("uninitialised-value" if "ninitialised" in what else "invalid-read" if "Invalid read" in what else
                    "invalid-write" if "Invalid write" in what else "invalid-free" if "free" in what else
                    "overlap" if "overlap" in what else "other")
            fn = None
            for mm in re.finditer(r"(?:at|by) 0x[0-9A-F]+: (.+?) \(", blk):
                if "GeographicLib::" in mm.group(1):
                    fn = re.sub(r"<.*?>", "", re.sub(r"\(.*$", "", mm.group(1)))
                    break
            keys.setdefault("memcheck:%s@%s" % (kind, fn or "unknown-frame"), blk[:3000])
        return keys

    def run(job):
        name, args = job
        out = os.path.join(root, "vg.%s.jsonl" % name)
        prog = os.path.join(root, "vg.%s.prog" % name)
        base = ["valgrind", "-q", "--soname-synonyms=somalloc=nouserintercepts", "--error-exitcode=99", "--track-origins=yes"]
        tail = [exe, "--seed", str(seed), "--tier", "quick", "--progress", prog] + args
        # pass 1: the whole job, all distinct errors (valgrind reports each distinct stack once)
        p = subprocess.run(base + tail + ["--out", out], env=venv, stdout=subprocess.DEVNULL, stderr=subprocess.PIPE)
        found = []
        if p.returncode not in (0, 99):
            res.inconclusive.append("valgrind job %s: exit %d" % (name, p.returncode))
        keys = parse(p.stderr.decode("utf-8", "replace")) if p.returncode == 99 else {}
        # pass 2: a witness case for the first error
        wit = {}
        if keys:
            q = subprocess.run(base + ["--exit-on-first-error=yes"] + tail + ["--out", out + ".w"], env=venv,
                               stdout=subprocess.DEVNULL, stderr=subprocess.PIPE)
            try:
                si, _, idx = struct.unpack("<IIQ", open(prog, "rb").read(16))
                for k in parse(q.stderr.decode("utf-8", "replace")):
                    wit[k] = (secnames[si], idx)
            except Exception:
                pass
        for k, blk in keys.items():
            sec, idx = wit.get(k, ("corpus_replay" if name == "corpus" else "fault_geoid", 0))
            found.append(dict(key=k, section=sec, idx=idx, report=blk, witnessed=k in wit))
        stat = None
        if os.path.exists(out):
            for line in open(out, errors="replace"):
                try:
                    r = json.loads(line)
                except Exception:
                    continue
                if r.get("t") == "stat":
                    stat = r
        return name, found, stat
    t0 = time.time()
    with ThreadPoolExecutor(len(jobs)) as ex:
        results = list(ex.map(run, jobs))
    total = 0
    for name, found, stat in results:
        for f in found:
            res.add_viol(dict(key=f["key"], **{"class": "valgrind/" + name}, run="C13_files.valgrind", section=f["section"], idx=f["idx"],
                              seed=seed, flavour="o2", harness="harness/C13_files.cpp", detail=dict(report=f["report"], witness_is_exact=f["witnessed"])))
        if stat:
            total += stat.get("evals", 0)
    res.extra["valgrind"] = dict(cases_under_memcheck=total, jobs=[j[0] for j in jobs], wall_s=round(time.time() - t0, 1))
    res.classes["valgrind/cases"] = total
    res.evals += total


def extra(res, tier, seed, workdir):
    import driver, vbuild
    _cleanup_stale()
    if _ONLY and _ONLY != "fuzz":
        return
    exe = vbuild.harness("fuzz/C13_fuzz.cpp", "fuzz")
    root = "/dev/shm/c13.%d" % os.getpid()
    shutil.rmtree(root, ignore_errors=True)
    os.makedirs(os.path.join(root, "seeds"))
    os.makedirs(os.path.join(root, "scratch"))
    atexit.register(lambda: shutil.rmtree(root, ignore_errors=True))
    try:
        env = dict(os.environ)
        env.update(FUZZ_ENV)
        for p in ("/usr/bin/llvm-symbolizer-14", "/usr/bin/llvm-symbolizer"):
            if os.path.exists(p):
                env["ASAN_SYMBOLIZER_PATH"] = p
                env["UBSAN_SYMBOLIZER_PATH"] = p
                break
        subprocess.run([exe], env=dict(env, C13_WRITE_SEEDS=os.path.join(root, "seeds")), check=True,
                       stdout=subprocess.DEVNULL, stderr=subprocess.DEVNULL)
        ti = 0 if tier == "quick" else 1
        t0 = time.time()
        order = sorted(FUZZ_RUNS, key=lambda t: -FUZZ_RUNS[t][ti])
        with ThreadPoolExecutor(NJOBS) as ex:
            results = list(ex.map(lambda t: _fuzz_target(exe, t, FUZZ_RUNS[t][ti], seed, root, env), order))
        fz, total = {}, 0
        for out, crashes, mons in results:
            t = out["target"]
            fz[t] = {k: v for k, v in out.items() if k != "target"}
            total += out["execs"]
            res.classes["fuzz/" + t] = out["execs"]
            seen = set()
            for c in crashes:
                idx = _witness(t, c["data"])
                res.add_viol(dict(key=c["key"], **{"class": "fuzz/" + t}, run="C13_fuzz", section="fuzz_witness", idx=idx, seed=seed,
                                  flavour="asan", harness="harness/C13_files.cpp",
                                  detail=dict(target=t, kind=c["kind"], input_hex=c["data"][:2048].hex(), report=c["report"])))
            for m in mons:
                if (m["key"], m["input"]) in seen:
                    continue
                seen.add((m["key"], m["input"]))
                try:
                    data = bytes.fromhex(m["input"].rstrip("."))
                except ValueError:
                    data = b""
                idx = _witness(t, data)
                res.add_viol(dict(key=m["key"], **{"class": "fuzz/" + t}, run="C13_fuzz", section="fuzz_witness", idx=idx, seed=seed,
                                  flavour="asan", harness="harness/C13_files.cpp",
                                  detail=dict(target=t, what=m.get("detail", ""), input_hex=m["input"][:4096])))
        res.evals += total
        res.extra["fuzz"] = dict(total_executions=total, wall_s=round(time.time() - t0, 1), targets=fz,
                                 note="libFuzzer -runs bounded, -seed=VERIF_SEED, ASan+UBSan, operator new capped at 512 MB")
        res.extra["levels"] = dict(
            fault_enumeration="sections fault_geoid, fault_magnetic, fault_gravity, fault_readcoeffs, fault_nn_bin, fault_nn_text, geoid_ftruncate, "
                              "parser_directed, ctor_matrix (finite lists run completely in both builds); counts in coverage.classes",
            exploration="nan_propagation, special_values, special_multi, throw_outputs, ctor_random, parser_grammar, libFuzzer")
        # (f) sanitizer verdicts of the other properties' ASan/UBSan runs (informational: those keys are judged by their own checks)
        other = {}
        for f in sorted(glob.glob(os.path.join(VERIF, "evidence", "C*.json"))):
            pid = os.path.basename(f)[:-5]
            if pid == "C13":
                continue
            try:
                ev = json.load(open(f))
            except Exception:
                continue
            ks = [k for k in ev.get("coverage", {}).get("violation_keys", {}) if k.split(":")[0] in ("asan", "ubsan", "tsan", "terminate", "crash")]
            other[pid] = dict(tier=ev.get("tier"), verdict=ev.get("verdict"), sanitizer_keys=ks,
                              asan_runs=[r["run"] for r in ev.get("coverage", {}).get("runs", []) if r.get("flavour") == "asan"])
        res.extra["sanitizer_verdicts_of_other_properties"] = other
        driver.log("[C13] libFuzzer: %d executions over %d targets in %.0fs" % (total, len(fz), time.time() - t0))
        if tier == "thorough":
            _valgrind(res, seed, root, os.path.join(root, "corpus"))
            driver.log("[C13] valgrind: %s" % res.extra.get("valgrind"))
    finally:
        shutil.rmtree(root, ignore_errors=True)
        _cleanup_stale()
