LEVEL = "exploration"
RULE = "preliminary"
ASSUMPTIONS = []
RUNS = [
    dict(harness="harness/C13.cpp", flavour="o2", scale={"quick": 1.0, "thorough": 1.0}, max_restarts=200),
]
MANIFEST = dict(technique="x", text="x", note="x", design_ref="DESIGN.md#c13")
