"""C14 — shared immutable objects are safe to use from many threads.

RUNS: harness/C14.cpp (one case = one concurrent trial on fresh shared objects) in the tsan flavour
(ThreadSanitizer reports written to stderr, halt_on_error=0, exitcode=0) and in o2 / asan (the
determinism monitor at native speed / with ASan+UBSan).
extra(): (1) parses the ThreadSanitizer reports of the tsan run, (2) drives the first-touch trials
(harness/C14_first.cpp, one PROCESS per trial) and parses their reports, (3) measures the 'not driven'
list (const / static members of the property's classes that the workload never executed) with a gcov
build, (4) thorough only: one pass of in-process trials under valgrind --tool=helgrind,
(5) section 'fresh' of C14.cpp, one PROCESS per trial: nothing harmonic is evaluated before the barrier, so the
first evaluation of every harmonic / gravity / magnetic object in the process is concurrent (the harness never
calls SphericalEngine::RootTable itself), (6) fresh-process "alone" reference: a sample of the concurrently
obtained results covering every registered operation is compared bit-for-bit with `C14 --alone ...`, a new
process that lazily constructs only the object(s) that one call touches and executes only that call."""
import glob, json, os, re, subprocess, sys, time
from concurrent.futures import ThreadPoolExecutor

VERIF = os.path.dirname(os.path.dirname(os.path.abspath(__file__)))
sys.path.insert(0, os.path.join(VERIF, "lib"))
import vbuild

LEVEL = "exploration"
RULE = ("one case = one trial: fresh shared objects (random ellipsoid / projection parameters / synthetic gravity, magnetic, geoid files), "
        "T in {2,4,8,16} threads released from a barrier, each executing 200-2000 const operations drawn from a registry of 426 operations (every class also through its alternative public constructors / factories / pre-barrier mutators: AuxLatitude::axes, sin/cos conic constructors, SetScale, Reset, 4-argument EllipticFunction, NormalGravity from J2, (nmx,mmx) harmonic constructors, truncated gravity/magnetic models, lines from constructor/InverseLine/DirectLine) "
        "on the SAME objects with per-thread deterministic inputs; section 'focus' = every registry class hammered once per tier-defined "
        "thread counts; first-touch trials = one new process per (singleton/static set, T, order); evaluation = one concurrently executed "
        "(operation, inputs) re-executed alone on a second fresh object and compared bit-for-bit; distinct = distinct (object parameters, operation, inputs)")
ASSUMPTIONS = ["the fresh-process reference (`C14 --alone`) is the same binary (same flavour) with the same inputs; a sample (every operation >= 1x per run), not every call, is compared across processes",
               "ThreadSanitizer (GCC 12 libtsan) happens-before analysis: a race is seen only if both conflicting accesses were executed in one trial and are still in its shadow history",
               "libstdc++ is not instrumented: accesses inside libstdc++.so are invisible to TSan (inline/template code is instrumented)",
               "the determinism monitor compares against the same binary run single-threaded on an identically constructed object",
               "the five Intersect counters are excluded exactly (byte ranges annotated as benign); setting VERIF_C14_NO_ANNOTATION=1 shows them"]

_TSAN = "halt_on_error=0:exitcode=0:second_deadlock_stack=1:history_size=7:report_signal_unsafe=0"
for _p in ("/usr/bin/llvm-symbolizer-14", "/usr/bin/llvm-symbolizer"):
    if os.path.exists(_p):
        _TSAN += ":external_symbolizer_path=" + _p
        break

RUNS = [
    dict(harness="harness/C14.cpp", flavour="tsan", shards=8, scale={"quick": 1.0, "thorough": 1.0}, env={"TSAN_OPTIONS": _TSAN}),
    dict(harness="harness/C14.cpp", flavour="o2", shards=8, scale={"quick": 4.0, "thorough": 2.0}),
    dict(harness="harness/C14.cpp", flavour="asan", shards=8, scale={"quick": 0.5, "thorough": 0.2}),
]

# classes of the property's quantifier (plus the ones DESIGN adds) for the 'not driven' list
CLASSES = ["Geodesic", "GeodesicExact", "GeodesicLine", "GeodesicLineExact", "Rhumb", "RhumbLine", "TransverseMercator",
           "TransverseMercatorExact", "PolarStereographic", "LambertConformalConic", "AlbersEqualArea", "Geocentric", "LocalCartesian",
           "Ellipsoid", "AuxLatitude", "DAuxLatitude", "EllipticFunction", "NormalGravity", "SphericalHarmonic", "SphericalHarmonic1",
           "SphericalHarmonic2", "SphericalEngine", "CircularEngine", "GravityModel", "GravityCircle", "MagneticModel", "MagneticCircle",
           "Geoid", "Gnomonic", "AzimuthalEquidistant", "CassiniSoldner", "Intersect", "PolygonAreaT", "UTMUPS", "MGRS", "DMS", "Geohash",
           "GARS", "Georef", "OSGB", "DST", "kissfft"]
STATIC_CLASSES = {"UTMUPS", "MGRS", "DMS", "Geohash", "GARS", "Georef", "OSGB", "SphericalEngine"}
# members that exist but are outside the property (documented not thread safe / mutators reached only before the barrier)
EXCLUDED_MEMBERS = {"Geoid::CacheArea": "refused on a thread-safe Geoid (the refusal itself is driven)", "Geoid::CacheAll": "cache mutator",
                    "SphericalEngine::RootTable": "documented: grown before the barrier only"}


# ------------------------------------------------------------------------------------------ TSan report parsing
_OPER = re.compile(r"operator\s*(\(\)|\[\]|<<=|>>=|<=>|<<|>>|<=|>=|->\*|->|<|>|[^\w\s(<\[]+)")


def _strip_groups(s, o, c):
    """remove every (nested) o...c group; operator(), operator<, operator<< ... are kept intact"""
    out, depth, i = [], 0, 0
    while i < len(s):
        if depth == 0 and s.startswith("operator", i) and (i == 0 or not (s[i - 1].isalnum() or s[i - 1] == "_")):
            m = _OPER.match(s, i)
            if m:
                out.append(m.group(0)); i = m.end(); continue
        ch = s[i]
        if ch == o:
            depth += 1
        elif ch == c and depth:
            depth -= 1
        elif depth == 0:
            out.append(ch)
        i += 1
    return "".join(out)


def frame_function(line):
    """'    #0 GeographicLib::X::f(int) const /path/file.cpp:12 (mod+0x1)' -> 'GeographicLib::X::f' (or None)"""
    m = re.match(r"\s+#\d+ (.*) \S+ \([^()]*\+0x[0-9a-f]+\)\s*$", line)
    if not m:
        return None
    f = m.group(1)
    f = _strip_groups(f, "<", ">")
    f = _strip_groups(f, "(", ")")
    f = f.replace("[abi:cxx11]", "")
    for tok in f.split():
        if tok.startswith("GeographicLib::") or tok.startswith("kissfft"):
            return tok
    return None


def parse_tsan(text):
    """yields dict(kind, stacks=[[frame lines] x2], case=(section, idx, seed) or None, raw) for every report in a stderr log"""
    case = None
    lines = text.splitlines()
    i = 0
    while i < len(lines):
        ln = lines[i]
        m = re.match(r"@@C14 case (\S+) (\d+) seed (\d+)", ln)
        if m:
            case = (m.group(1), int(m.group(2)), int(m.group(3)))
        m = re.match(r"WARNING: ThreadSanitizer: (.*?) \(pid=\d+\)", ln)
        if not m:
            i += 1
            continue
        kind = m.group(1)
        j = i + 1
        block = []
        while j < len(lines) and not lines[j].startswith("==================") and not lines[j].startswith("@@C14 case"):
            block.append(lines[j]); j += 1
        stacks, cur = [], None
        restored = []
        for b in block:
            if re.match(r"  (Previous )?(atomic )?(read|write|Read|Write|Atomic read|Atomic write) of size \d+ at", b, re.I):
                cur = []; stacks.append(cur); restored.append("failed to restore the stack" not in b)
            elif re.match(r"  \S", b):
                cur = None
            elif cur is not None and re.match(r"\s+#\d+ ", b):
                cur.append(b)
            elif cur is not None and "failed to restore the stack" in b:
                restored[-1] = False
        yield dict(kind=kind, stacks=stacks[:2], restored=restored[:2], case=case, raw="\n".join([ln] + block[:60]))
        i = j


def classify(rep):
    """-> (key or None, harness_bug_reason or None)"""
    kind = rep["kind"]
    if kind != "data race":
        # thread leak / mutex misuse / signal-unsafe ...: only meaningful if a library frame is on a stack
        fn = None
        for b in rep["raw"].splitlines():
            fn = fn or frame_function(b)
        if fn:
            return "tsan:%s@%s" % (kind.replace(" ", "-"), fn.replace("GeographicLib::", "")), None
        return None, "TSan report '%s' without any GeographicLib frame" % kind
    sides = []
    for k in range(2):
        st = rep["stacks"][k] if k < len(rep["stacks"]) else []
        fn = None
        for fr in st:
            fn = frame_function(fr)
            if fn:
                break
        if fn is None and (not st):
            fn = "<stack-not-restored>"
        sides.append(fn)
    lib = [s for s in sides if s and s != "<stack-not-restored>"]
    if not lib:
        return None, "data race report with no GeographicLib frame on either side"
    if None in sides:
        # one access in the library, the other in harness-only code with a restored stack: the harness touched a shared object
        return None, "data race between library frame %s and harness-only code" % lib[0]
    names = sorted(s.replace("GeographicLib::", "") for s in sides)
    return "tsan:race@" + "|".join(names), None


def _add_front(res, v):
    """sanitizer findings first: the driver prints only the first 60 VIOLATION lines"""
    res.add_viol(v)
    res.viols.insert(0, res.viols.pop())


def harvest(res, files, run, flavour, harness, seed, section_default=None, casemap=None, maxdetail=3):
    """parse stderr logs; add one violation per (key, witness case) for the first few cases, count everything"""
    nrep, keys, bugs = 0, {}, []
    for f in files:
        try:
            txt = open(f, errors="replace").read()
        except OSError:
            continue
        for rep in parse_tsan(txt):
            nrep += 1
            key, bug = classify(rep)
            if bug:
                bugs.append((bug, os.path.basename(f), rep["raw"][:1500]))
                continue
            case = rep["case"] or (casemap or {}).get(f)
            d = keys.setdefault(key, dict(n=0, cases=[]))
            d["n"] += 1
            if case and case not in [c for c, _ in d["cases"]] and len(d["cases"]) < maxdetail:
                d["cases"].append((case, rep["raw"]))
            elif not case and not d["cases"]:
                d["cases"].append((None, rep["raw"]))
    for key, d in keys.items():
        for case, raw in d["cases"]:
            sec, idx, sd = case if case else (section_default or "?", 0, seed)
            _add_front(res, dict(key=key, **{"class": "tsan"}, run=run, section=sec, idx=idx, seed=sd, flavour=flavour, harness=harness,
                              detail=dict(reports_with_this_key=d["n"], report=raw[:6000])))
        res.violcounts[key] = max(res.violcounts.get(key, 0), d["n"])
    for bug, fn, raw in bugs[:5]:
        res.inconclusive.append("%s: %s [%s]\n%s" % (run, bug, fn, raw[:800]))
    return nrep, {k: d["n"] for k, d in keys.items()}, len(bugs)


# ------------------------------------------------------------------------------------------ first-touch trials
def run_first_touch(res, tier, seed, workdir):
    out = {}
    for flavour in ("tsan", "o2"):
        exe = vbuild.harness("harness/C14_first.cpp", flavour)
        # the plan (which operations, how many threads, which order) lives in the binary so that a trial is
        # replayable from (tier, seed, index) alone: bin/check C14 --replay <file>
        seeds = [seed] if not (flavour == "o2" and tier == "quick") else [seed, seed + 7777]     # o2 is cheap: twice the trials
        plan = []
        for sd in seeds:
            n = int(subprocess.run([exe, "--tier", tier, "--seed", str(sd), "--count"], stdout=subprocess.PIPE, text=True, check=True).stdout)
            plan += [(sd, i) for i in range(n)]
        wd = os.path.join(workdir, "C14_first." + flavour)
        os.makedirs(wd, exist_ok=True)
        env = dict(os.environ)
        env["TSAN_OPTIONS"] = _TSAN

        def one(i):
            sd, pi = plan[i]
            err = os.path.join(wd, "%d.err" % i)
            cmd = [exe, "--tier", tier, "--seed", str(sd), "--only", "first-touch:%d" % pi]
            with open(err, "wb") as ef:
                try:
                    r = subprocess.run(cmd, stdout=subprocess.PIPE, stderr=ef, env=env, cwd=wd, timeout=600)
                except subprocess.TimeoutExpired:
                    return i, None, "timeout", cmd
            try:
                return i, json.loads(r.stdout.decode().strip().splitlines()[-1]), r.returncode, cmd
            except Exception:
                return i, None, r.returncode, cmd

        t0 = time.time()
        with ThreadPoolExecutor(6) as ex:
            results = list(ex.map(one, range(len(plan))))
        evals = mism = 0
        winners = set()
        overl = 0
        perset = {}
        label = "C14_first." + flavour
        for i, js, rc, cmd in results:
            if js is None and isinstance(rc, int) and rc < 0:      # died on a signal while first-touching concurrently: a violation, not a harness failure
                res.add_viol(dict(key="crash:C14/first-touch/signal%d" % -rc, **{"class": "first-touch"}, run=label, section="first-touch", idx=plan[i][1],
                                  seed=plan[i][0], flavour=flavour, harness="harness/C14_first.cpp", detail=dict(cmd=" ".join(cmd))))
                continue
            if js is None or rc != 0:
                res.inconclusive.append("%s process %d: exit %s, no result (%s)" % (label, i, rc, " ".join(cmd)[:300]))
                continue
            evals += js["evals"]; mism += js["mismatches"]; overl += js["first_calls_overlapping_winner"]
            winners.add((js["ops"], js["winners"]))
            nm = js["ops"] if js["nops"] == 1 else "multi(%s)" % js["order"]
            perset[nm] = perset.get(nm, 0) + 1
            for w in js["witness"]:
                res.add_viol(dict(key="determinism:C14/first-touch/" + w["op"], **{"class": "first-touch"}, run=label, section="first-touch", idx=plan[i][1],
                                  seed=plan[i][0], flavour=flavour, harness="harness/C14_first.cpp", detail=dict(cmd=" ".join(cmd), **w)))
            res.classes["first-touch/" + nm] = res.classes.get("first-touch/" + nm, 0) + js["evals"]
        res.evals += evals
        res.nontrivial += evals
        res.cases += len(plan)
        nrep = nkeys = nbugs = 0
        keys = {}
        if flavour == "tsan":
            files = [os.path.join(wd, "%d.err" % i) for i in range(len(plan))]
            cm = {os.path.join(wd, "%d.err" % i): ("first-touch", plan[i][1], plan[i][0]) for i in range(len(plan))}
            nrep, keys, nbugs = harvest(res, files, label, flavour, "harness/C14_first.cpp", seed, "first-touch", cm)
        out[flavour] = dict(processes=len(plan), sets=perset, evaluations=evals, mismatches=mism, distinct_first_touch_orders=len(winners),
                            first_calls_overlapping_the_winner=overl, tsan_reports=nrep, tsan_keys=keys, tsan_harness_only_reports=nbugs,
                            wall_s=round(time.time() - t0, 1))
        res.runs.append(dict(run=label, flavour=flavour, processes=len(plan), wall_s=round(time.time() - t0, 1)))
    return out



# ------------------------------------------------------------------------------------------ fault-construction trials (thread-safe Geoid)
def run_fault(res, tier, seed, workdir):
    """harness/C14_fault.cpp, one PROCESS per trial: Geoid(threadsafe = true) constructed while the k-th allocation fails; if the
    constructor delivers an object it must be thread safe (T threads on it, bit-identical to the reference, TSan watching)"""
    out = {}
    for flavour in ("tsan", "o2"):
        exe = vbuild.harness("harness/C14_fault.cpp", flavour)
        n = int(subprocess.run([exe, "--tier", tier, "--seed", str(seed), "--count"], stdout=subprocess.PIPE, text=True, check=True).stdout)
        label = "C14_fault." + flavour
        wd = os.path.join(workdir, label)
        os.makedirs(wd, exist_ok=True)
        env = dict(os.environ)
        env["TSAN_OPTIONS"] = _TSAN
        env["TMPDIR"] = wd

        def one(i):
            cmd = [exe, "--tier", tier, "--seed", str(seed), "--only", "fault:%d" % i]
            with open(os.path.join(wd, "%d.err" % i), "wb") as ef:
                try:
                    r = subprocess.run(cmd, stdout=subprocess.PIPE, stderr=ef, env=env, cwd=wd, timeout=900)
                except subprocess.TimeoutExpired:
                    return i, None, "timeout", cmd
            try:
                return i, json.loads(r.stdout.decode().strip().splitlines()[-1]), r.returncode, cmd
            except Exception:
                return i, None, r.returncode, cmd

        t0 = time.time()
        with ThreadPoolExecutor(6) as ex:
            results = list(ex.map(one, range(n)))
        outcomes, evals, mism, hit = {}, 0, 0, 0
        for i, js, rc, cmd in results:
            if js is None and isinstance(rc, int) and rc < 0:
                # the trial process died on a signal (e.g. std::terminate from an exception escaping a worker thread, SIGSEGV):
                # a crash of concurrent const calls on a delivered object is a violation, not a harness failure
                res.add_viol(dict(key="crash:C14/fault/signal%d" % -rc, **{"class": "fault-construction"}, run=label, section="fault", idx=i, seed=seed,
                                  flavour=flavour, harness="harness/C14_fault.cpp", detail=dict(cmd=" ".join(cmd))))
                continue
            if js is None or rc != 0:
                res.inconclusive.append("%s process %d: exit %s, no result (%s)" % (label, i, rc, " ".join(cmd)[:300]))
                continue
            oc = js["outcome"] + ("/fault-hit" if js["fault_hit"] else "/no-fault")
            outcomes[oc] = outcomes.get(oc, 0) + 1
            hit += bool(js["fault_hit"])
            evals += js["evals"]; mism += js["mismatches"]
            common = dict(run=label, section="fault", idx=i, seed=seed, flavour=flavour, harness="harness/C14_fault.cpp")
            det = dict(cmd=" ".join(cmd), **{k: js[k] for k in ("gw", "gh", "cubic", "threads", "allocations_of_faultfree_ctor", "failing_allocation", "outcome", "what")})
            if js["outcome"] == "other-exception":
                res.add_viol(dict(key="exception:C14/fault/geoid-threadsafe-constructor-foreign-exception", **{"class": "fault-construction"}, detail=det, **common))
            if js["outcome"] == "refused" and not js["fault_hit"] or js["outcome"] == "refused-bad_alloc" and not js["fault_hit"]:
                res.inconclusive.append("%s trial %d: fault-free control construction was refused (%s)" % (label, i, js["what"]))
            if not js["threadsafe_implies_cache"]:
                res.add_viol(dict(key="invariant:C14/fault/geoid-threadsafe-object-delivered-without-full-cache", **{"class": "fault-construction"}, detail=det, **common))
            for w in js["witness"]:
                res.add_viol(dict(key="determinism:C14/fault/geoid-threadsafe-object-delivered-after-failed-allocation", **{"class": "fault-construction"},
                                  detail=dict(det, **w), **common))
            res.classes["fault-construction/" + oc] = res.classes.get("fault-construction/" + oc, 0) + 1
        res.evals += evals + n
        res.nontrivial += n
        res.cases += n
        nrep, keys, nbugs = 0, {}, 0
        if flavour == "tsan":
            files = [os.path.join(wd, "%d.err" % i) for i in range(n)]
            cm = {os.path.join(wd, "%d.err" % i): ("fault", i, seed) for i in range(n)}
            nrep, keys, nbugs = harvest(res, files, label, flavour, "harness/C14_fault.cpp", seed, "fault", cm)
        out[flavour] = dict(processes=n, outcomes=outcomes, allocation_faults_injected=hit, concurrent_evaluations_on_delivered_objects=evals, mismatches=mism,
                            tsan_reports=nrep, tsan_keys=keys, tsan_harness_only_reports=nbugs, wall_s=round(time.time() - t0, 1))
        res.runs.append(dict(run=label, flavour=flavour, processes=n, wall_s=round(time.time() - t0, 1)))
    return out


# ------------------------------------------------------------------------------------------ fresh-process trials of the harmonic family
def run_fresh(res, tier, seed, workdir):
    """section 'fresh' of harness/C14.cpp, ONE trial per process: nothing harmonic is evaluated before the barrier, so the first
    evaluation of every SphericalHarmonic/1/2, GravityModel, MagneticModel object (and of their Circle() factories) in the
    process is made by the worker threads concurrently (the static square-root table starts empty in a new process)"""
    out = {}
    n = 16 if tier == "quick" else 120
    for flavour in ("tsan", "o2"):
        exe = vbuild.harness("harness/C14.cpp", flavour)
        label = "C14_fresh." + flavour
        wd = os.path.join(workdir, label)
        os.makedirs(wd, exist_ok=True)
        env = dict(os.environ)
        env.update(driver_san_env())
        env["TSAN_OPTIONS"] = _TSAN
        t0 = time.time()

        def one(i):
            cmd = [exe, "--seed", str(seed), "--tier", tier, "--only", "fresh:%d" % i, "--out", os.path.join(wd, "%d.jsonl" % i)]
            with open(os.path.join(wd, "%d.err" % i), "wb") as ef:
                try:
                    r = subprocess.run(cmd, stdout=subprocess.DEVNULL, stderr=ef, env=env, cwd=wd, timeout=1800)
                    return i, r.returncode, cmd
                except subprocess.TimeoutExpired:
                    return i, "timeout", cmd

        with ThreadPoolExecutor(4) as ex:
            results = list(ex.map(one, range(n)))
        crashes = 0
        for i, rc, cmd in results:
            if rc != 0:
                crashes += 1
                try:
                    txt = open(os.path.join(wd, "%d.err" % i), errors="replace").read()
                except OSError:
                    txt = ""
                txt = "\n".join(l for l in txt.splitlines() if not l.startswith('{"t"'))
                if rc == "timeout":
                    res.inconclusive.append("%s process %d timed out" % (label, i))
                else:
                    key = "crash:%s@fresh" % ("signal%d" % -rc if isinstance(rc, int) and rc < 0 else "exit%s" % rc)
                    _add_front(res, dict(key=key, **{"class": "sanitizer-or-crash"}, run=label, section="fresh", idx=i, seed=seed, flavour=flavour,
                                         harness="harness/C14.cpp", detail=dict(exit=rc, cmd=" ".join(cmd), report=txt[-3000:])))
            f = os.path.join(wd, "%d.jsonl" % i)
            if not os.path.exists(f):
                continue
            for line in open(f, errors="replace"):
                try:
                    r = json.loads(line)
                except Exception:
                    continue
                if r.get("t") == "viol":
                    r.update(run=label, flavour=flavour, harness="harness/C14.cpp")
                    _add_front(res, r)
                elif r.get("t") == "herr":
                    res.herrs.append(dict(run=label, **r))
                elif r.get("t") == "stat":
                    r["samples"] = []
                    res.merge_stat(r, label)
                    for k, c in r.get("violkeys", {}).items():
                        res.violcounts[k] = max(res.violcounts.get(k, 0), c)
        nrep, keys, nbugs = 0, {}, 0
        if flavour == "tsan":
            nrep, keys, nbugs = harvest(res, [os.path.join(wd, "%d.err" % i) for i in range(n)], label, flavour, "harness/C14.cpp", seed, "fresh")
        out[flavour] = dict(processes=n, crashed=crashes, tsan_reports=nrep, tsan_keys=keys, tsan_harness_only_reports=nbugs, wall_s=round(time.time() - t0, 1))
        res.runs.append(dict(run=label, flavour=flavour, processes=n, wall_s=round(time.time() - t0, 1)))
    return out


def driver_san_env():
    try:
        import driver
        return dict(driver.SAN_ENV)
    except Exception:
        return {}


# ------------------------------------------------------------------------------------------ fresh-process "alone" reference
def alone_reference(res, tier, seed, workdir):
    """'each call returns exactly the value it returns when executed alone': a sample of the concurrently obtained results
    (every registered operation at least once per run: the directed trials emit every operation of their focus class) is
    compared bit-for-bit with the result of `C14 --alone ...`, a NEW PROCESS that constructs only the object(s) that one call
    touches and executes only that call.  Catches hidden process-wide state (a static frozen by the first caller, ...)
    that an in-process reference shares with the trial."""
    import random
    out = {}
    for flavour, per_op, cap in (("o2", 3 if tier == "quick" else 6, 1500 if tier == "quick" else 6000), ("tsan", 1, 300 if tier == "quick" else 600)):
        exe = vbuild.harness("harness/C14.cpp", flavour)
        samples = []
        for d in ("C14." + flavour, "C14_fresh." + flavour):
            for f in sorted(glob.glob(os.path.join(workdir, d, "*.jsonl"))):
                for line in open(f, errors="replace"):
                    if line.startswith('{"t":"alone"'):
                        try:
                            samples.append(json.loads(line))
                        except Exception:
                            pass
        rnd = random.Random(seed * 7919 + len(samples))
        byop = {}
        for sm in samples:
            byop.setdefault(sm["op"], []).append(sm)
        chosen = []
        for op in sorted(byop):
            lst = byop[op]
            rnd.shuffle(lst)
            seen = set()
            for sm in lst:
                c = (sm["section"], sm["idx"])
                if c in seen:
                    continue
                seen.add(c)
                chosen.append(sm)
                if len(seen) >= per_op:
                    break
        if len(chosen) > cap:
            # keep one per operation first, then fill up at random
            first, rest, have = [], [], set()
            for sm in chosen:
                (first if sm["op"] not in have else rest).append(sm)
                have.add(sm["op"])
            rnd.shuffle(rest)
            rnd.shuffle(first)
            chosen = (first + rest)[:cap]
        wd = os.path.join(workdir, "C14_alone." + flavour)
        os.makedirs(wd, exist_ok=True)
        env = dict(os.environ)
        env["TSAN_OPTIONS"] = _TSAN
        t0 = time.time()

        def one(sm):
            cmd = [exe, "--alone", sm["section"], str(sm["idx"]), str(sm["seed"]), sm["op"], str(sm["opseed"]), str(sm["freshdeg"])]
            try:
                r = subprocess.run(cmd, stdout=subprocess.PIPE, stderr=subprocess.PIPE, env=env, cwd=wd, timeout=600)
                return sm, r.returncode, r.stdout.decode("utf-8", "replace").strip(), r.stderr.decode("utf-8", "replace")[-1500:], cmd
            except subprocess.TimeoutExpired:
                return sm, "timeout", "", "", cmd

        with ThreadPoolExecutor(8) as ex:
            results = list(ex.map(one, chosen))
        nmis, ops_done, keyn = 0, set(), {}
        for sm, rc, got, err, cmd in results:
            if rc != 0 or not got:
                res.inconclusive.append("C14_alone.%s: helper exit %s for %s (%s)" % (flavour, rc, sm["op"], err[-300:]))
                continue
            ops_done.add(sm["op"])
            res.evals += 1
            if got.splitlines()[-1] != sm["res"]:
                nmis += 1
                key = "alone:C14/" + sm["op"]
                keyn[key] = keyn.get(key, 0) + 1
                if keyn[key] <= 2:
                    _add_front(res, dict(key=key, **{"class": "fresh-process-reference"}, run="C14_alone." + flavour, section=sm["section"], idx=sm["idx"],
                                         seed=sm["seed"], flavour=flavour, harness="harness/C14.cpp",
                                         detail=dict(op=sm["op"], opseed=sm["opseed"], threads=sm.get("threads"), in_trial=sm["res"], alone_in_fresh_process=got.splitlines()[-1],
                                                     format="n:exc:fold:hex bits of each output,...:hex of strings", helper=" ".join(cmd))))
                res.violcounts[key] = max(res.violcounts.get(key, 0), keyn[key])
        res.classes["alone-reference/" + flavour] = len(results)
        out[flavour] = dict(samples_emitted=len(samples), compared=len(results), operations_covered=len(ops_done), mismatches=nmis,
                            mismatch_keys=keyn, wall_s=round(time.time() - t0, 1))
        res.runs.append(dict(run="C14_alone." + flavour, flavour=flavour, processes=len(results), wall_s=round(time.time() - t0, 1)))
    return out


# ------------------------------------------------------------------------------------------ 'not driven' list (measured with gcov)
def _nm_members(libpath):
    """out-of-line const member functions + static member functions of the static classes, from nm -C on the library"""
    txt = subprocess.run(["nm", "-C", "--defined-only", libpath], stdout=subprocess.PIPE, text=True).stdout
    mem = set()
    for l in txt.splitlines():
        m = re.match(r"[0-9a-f]+ [TWtw] (.*)$", l)
        if not m:
            continue
        sig = m.group(1)
        if "GeographicLib::" not in sig and not sig.startswith("kissfft"):
            continue
        is_const = sig.rstrip().endswith(") const")
        base = _strip_groups(_strip_groups(sig, "<", ">"), "(", ")").replace(" const", "").replace("[abi:cxx11]", "").strip()
        tok = [t for t in base.split() if t.startswith("GeographicLib::") or t.startswith("kissfft")]
        if not tok:
            continue
        name = tok[0].replace("GeographicLib::", "")
        parts = name.split("::")
        if len(parts) < 2:
            continue
        cls = parts[0]
        if cls not in CLASSES or parts[-1] == cls or parts[-1].startswith("~"):
            continue
        if is_const or cls in STATIC_CLASSES:
            mem.add(name)
    return mem


def not_driven(res, tier, seed, workdir):
    """run a slice of the same workload in the gcov build and list the members nm knows that were never executed"""
    t0 = time.time()
    L = vbuild.lib("cov")
    exe = vbuild.harness("harness/C14.cpp", "cov")
    exf = vbuild.harness("harness/C14_first.cpp", "cov")
    gdir = os.path.join(workdir, "gcov")
    os.makedirs(gdir, exist_ok=True)
    env = dict(os.environ)
    env.update(GCOV_PREFIX=gdir, GCOV_PREFIX_STRIP="0")
    # same seeds -> same trials as the tsan run (a 1/4 slice in thorough keeps it cheap); one process at a time per gcda set
    procs = []
    nsh = 4
    for sh in range(nsh):
        cmd = [exe, "--seed", str(seed), "--tier", "quick", "--scale", "1.0", "--shard", str(sh), "--nshards", str(nsh), "--out", os.path.join(gdir, "cov%d.jsonl" % sh)]
        e2 = dict(env); e2["GCOV_PREFIX"] = os.path.join(gdir, "p%d" % sh)
        procs.append(subprocess.Popen(cmd, env=e2, stdout=subprocess.DEVNULL, stderr=subprocess.DEVNULL, cwd=gdir))
    ops = [l.split("\t")[0] for l in subprocess.run([exf, "--list"], stdout=subprocess.PIPE, text=True, env=dict(env, GCOV_PREFIX=os.path.join(gdir, "plist"))).stdout.splitlines()]
    e2 = dict(env); e2["GCOV_PREFIX"] = os.path.join(gdir, "pf")
    subprocess.run([exf, "--ops", ",".join(ops), "--threads", "2", "--seed", str(seed)], env=e2, stdout=subprocess.DEVNULL, stderr=subprocess.DEVNULL, cwd=gdir)
    for p in procs:
        p.wait()
    counts = {}
    objdir = L["dir"]
    for pd in glob.glob(os.path.join(gdir, "p*")):
        dd = os.path.join(pd, objdir.lstrip("/"))
        if not os.path.isdir(dd):
            continue
        for gcda in glob.glob(os.path.join(dd, "*.gcda")):
            base = os.path.basename(gcda)[:-5]
            gcno = os.path.join(objdir, base + ".gcno")
            if not os.path.exists(gcno):
                continue
            lnk = os.path.join(dd, base + ".gcno")
            if not os.path.exists(lnk):
                os.symlink(gcno, lnk)
        gcdas = glob.glob(os.path.join(dd, "*.gcda"))      # library TUs + the harness TU (inline members are compiled there)
        if not gcdas:
            continue
        r = subprocess.run(["gcov", "--json-format", "--stdout", "-m"] + gcdas, stdout=subprocess.PIPE, stderr=subprocess.DEVNULL, cwd=dd)
        for line in r.stdout.decode("utf-8", "replace").splitlines():
            try:
                js = json.loads(line)
            except Exception:
                continue
            for f in js.get("files", []):
                for fn in f.get("functions", []):
                    dn = fn.get("demangled_name", "")
                    b = _strip_groups(_strip_groups(dn, "<", ">"), "(", ")").replace(" const", "").replace("[abi:cxx11]", "").strip()
                    tok = [t for t in b.split() if t.startswith("GeographicLib::") or t.startswith("kissfft")]
                    if tok:
                        nm = tok[0].replace("GeographicLib::", "")
                        counts[nm] = counts.get(nm, 0) + int(fn.get("execution_count", 0))
    members = _nm_members(L["lib"])
    if not counts:
        res.inconclusive.append("not-driven measurement: gcov produced no function counts")
        return dict(error="no gcov data")
    nd = sorted(m for m in members if counts.get(m, 0) == 0 and m not in EXCLUDED_MEMBERS)
    return dict(method="gcov execution counts of the same workload (seed %d, quick slice + all object-free operations) against `nm -C` const/static members of the property's classes" % seed,
                note="members = every out-of-line or TU-instantiated const member / static member function that `nm -C` finds in the -O0 gcov build of the library (inline members never instantiated anywhere are invisible to nm)",
                members_considered=len(members), driven=len([m for m in members if counts.get(m, 0) > 0]), not_driven=nd,
                excluded={k: v for k, v in EXCLUDED_MEMBERS.items()}, wall_s=round(time.time() - t0, 1))


# ------------------------------------------------------------------------------------------ helgrind (thorough)
def helgrind_pass(res, seed, workdir):
    t0 = time.time()
    exe = vbuild.harness("harness/C14.cpp", "o2")
    wd = os.path.join(workdir, "helgrind")
    os.makedirs(wd, exist_ok=True)
    procs = []
    nsh = 8
    for sh in range(nsh):
        log = os.path.join(wd, "hg%d.log" % sh)
        cmd = ["valgrind", "--tool=helgrind", "--history-level=full", "--error-exitcode=0", "--log-file=" + log, "-q",
               exe, "--seed", str(seed), "--tier", "quick", "--scale", "0.15", "--shard", str(sh), "--nshards", str(nsh), "--limit-s", "3000",
               "--out", os.path.join(wd, "hg%d.jsonl" % sh)]
        procs.append((subprocess.Popen(cmd, stdout=subprocess.DEVNULL, stderr=subprocess.DEVNULL, cwd=wd, env=dict(os.environ, VERIF_C14_PRETOUCH="1")), log))
    nrep, keys, bugs, nstatic = 0, {}, 0, 0
    for p, log in procs:
        try:
            p.wait(timeout=3600)
        except subprocess.TimeoutExpired:
            p.kill(); res.inconclusive.append("helgrind shard timed out"); continue
        try:
            txt = open(log, errors="replace").read()
        except OSError:
            continue
        txt = re.sub(r"(?m)^==\d+== ?", "", txt)
        for blk in re.split(r"(?m)^-{20,}\s*$", txt):
            if "Possible data race" not in blk:
                continue
            nrep += 1
            am = re.search(r"(?m)^\s*Address 0x[0-9a-fA-F]+ is (.*)$", blk)
            where = am.group(1) if am else "?"
            if "inside a block of size" not in where and "stack" not in where:
                # function-local statics (C++11 guards are invisible to helgrind) and libgcc/libstdc++ internals:
                # helgrind cannot judge these; ThreadSanitizer (which models the guards) does, in the first-touch trials
                nstatic += 1
                continue
            parts = blk.split("This conflicts with a previous")
            sides = []
            for part in parts[:2]:
                fn = None
                for m in re.finditer(r"(?m)^\s+(?:at|by) 0x[0-9A-F]+: (.+) \((?:in )?[^()]*\)\s*$", part):
                    f = _strip_groups(_strip_groups(m.group(1), "<", ">"), "(", ")").replace(" const", "")
                    tok = [t for t in f.split() if t.startswith("GeographicLib::") or t.startswith("kissfft")]
                    if tok:
                        fn = tok[0].replace("GeographicLib::", ""); break
                sides.append(fn)
            while len(sides) < 2:
                sides.append(None)
            if not any(sides):
                bugs += 1
                continue
            key = "helgrind:race@" + "|".join(sorted(s or "<no-library-frame>" for s in sides))
            if key not in keys:
                _add_front(res, dict(key=key, **{"class": "helgrind"}, run="C14.helgrind", section="trial", idx=0, seed=seed, flavour="o2",
                                     harness="harness/C14.cpp", detail=dict(address=where, report=blk[:5000])))
            keys[key] = keys.get(key, 0) + 1
    return dict(reports=nrep, keys=keys, reports_on_static_storage_not_judged=nstatic, heap_reports_without_library_frame=bugs, wall_s=round(time.time() - t0, 1))


def extra(res, tier, seed, workdir):
    # (1) ThreadSanitizer reports of the in-process trials
    wd = os.path.join(workdir, "C14.tsan")
    files = sorted(glob.glob(os.path.join(wd, "*.err")))
    nrep, keys, nbugs = harvest(res, files, "C14.tsan", "tsan", "harness/C14.cpp", seed)
    tsan = dict(in_process=dict(reports=nrep, keys=keys, harness_only_reports=nbugs, logs=len(files)))
    # (2) first-touch processes
    ft = run_first_touch(res, tier, seed, workdir)
    tsan["first_touch"] = ft
    # (2b) harmonic family: first evaluation in the process made concurrently (one process per trial)
    fr = run_fresh(res, tier, seed, workdir)
    tsan["fresh_harmonic"] = fr
    # (2b') thread-safe Geoid constructed under allocation faults (one process per trial)
    fa = run_fault(res, tier, seed, workdir)
    tsan["fault_construction"] = fa
    res.extra["tsan"] = tsan
    # (2c) fresh-process "alone" reference for a sample covering every operation
    res.extra["alone_reference"] = alone_reference(res, tier, seed, workdir)
    res.extra["tsan_reports_total"] = nrep + ft.get("tsan", {}).get("tsan_reports", 0) + fr.get("tsan", {}).get("tsan_reports", 0) + fa.get("tsan", {}).get("tsan_reports", 0)
    res.extra["determinism_mismatches"] = sum(n for k, n in res.violcounts.items() if k.startswith("determinism:") or k.startswith("alone:"))
    # overlap evidence: move the bulky per-pair counters out of 'events'
    ov = {k: v for k, v in res.events.items() if k.startswith("overlap-")}
    for k in ov:
        del res.events[k]
    res.extra["overlap"] = dict(
        note="number of pairs of calls on different threads whose [begin,end] sequence-number intervals (one relaxed atomic counter) intersect",
        per_operation_with_any=dict(sorted((k[len("overlap-op/"):], v) for k, v in ov.items() if k.startswith("overlap-op/"))),
        per_operation_with_itself=dict(sorted((k[len("overlap-self/"):], v) for k, v in ov.items() if k.startswith("overlap-self/"))),
        per_class_pair=dict(sorted((k[len("overlap-class/"):], v) for k, v in ov.items() if k.startswith("overlap-class/"))))
    try:
        exe = vbuild.harness("harness/C14.cpp", "o2")
        allops = [l.split("\t")[0] for l in subprocess.run([exe, "--list-ops"], stdout=subprocess.PIPE, text=True).stdout.splitlines()]
        never = sorted(o for o in allops if o not in res.classes)
        noself = sorted(o for o in allops if o not in res.extra["overlap"]["per_operation_with_itself"])
        res.extra["overlap"]["registry_size"] = len(allops)
        res.extra["overlap"]["operations_never_executed"] = never
        res.extra["overlap"]["operations_never_overlapping_themselves"] = noself
        if never:
            res.inconclusive.append("registry operations never executed: %s" % ", ".join(never[:10]))
    except Exception as e:      # pragma: no cover
        res.inconclusive.append("registry listing failed: %r" % e)
    # (3) not-driven list
    try:
        res.extra["not_driven"] = not_driven(res, tier, seed, workdir)
    except vbuild.BuildError:
        raise
    except Exception as e:
        res.extra["not_driven"] = dict(error=repr(e))
    # (4) second detector
    if tier == "thorough":
        try:
            res.extra["helgrind"] = helgrind_pass(res, seed, workdir)
        except Exception as e:
            res.extra["helgrind"] = dict(error=repr(e))


MANIFEST = dict(
    technique="ThreadSanitizer build of concurrent-trial harness + bit-exact determinism monitor (concurrent result vs. same call alone on a fresh object); one process per first-touch trial; helgrind as second detector (thorough); gcov-measured 'not driven' list",
    text="Fresh shared objects of every class in the property (all solver/projection/auxiliary-latitude/harmonic/gravity/magnetic/thread-safe-geoid classes and the static UTMUPS/MGRS/DMS/Geohash/GARS/Georef/OSGB functions) are hammered by 2-16 threads with 426 registered const operations (each class through every public constructor / factory whose code path differs) under ThreadSanitizer; the built-in singletons are first-touched concurrently in fresh processes; every concurrently obtained result is compared bit-for-bit with the same call executed alone on a second fresh object, and a sample covering every operation with the same call executed alone in a NEW PROCESS that constructs only the object it needs (detects hidden process-wide state); the harmonic family is additionally first-evaluated concurrently in fresh processes. Held = no data race report with a GeographicLib frame and no mismatch on the schedules executed.",
    note="Schedules are sampled, not enumerated; TSan sees only executed access pairs (the evidence lists members never driven and per-operation overlap counts); the five documented Intersect counters are excluded by address annotation; libstdc++ internals are not instrumented.",
    design_ref="DESIGN.md#c14")
