LEVEL = "exploration"
RULE = ("one case = one library call chain on one generated input with every monitor evaluated next to it. "
        "revdir: directed catalogue (centre with all sign-of-zero combinations; rotation axis and equatorial plane at 16 magnitudes "
        "from 5e-324 to DBL_MAX incl. the evolute cusps, the poles/equator of the ellipsoid and the far-field threshold 2a/eps, each +-k ulp; "
        "points inside the singular disc / axis segment with offsets 5e-324..1e-17 a; 32 points of the evolute located in binary128 and moved "
        "-1..+2 ulp (first pass) / +-4 ulp (later passes); the ellipsoid surface +-k ulp; norms that overflow; exact r==0 of the cubic; "
        "sub-normal coordinates) x 49 ellipsoids (f in {0, +-1e-10, WGS84, +-0.1, +-0.5, 0.9, 0.99, -1, -9} x a in {1, 6.4e6, 1e10} plus "
        "named geodetic ellipsoids, +-1/150, +-0.01, +-1e-6, f=+-1e-170 (e^4 underflows), f=0.2929, 0.75); "
        "rev: random cartesian points (|r| log-uniform over 1e-20..1e20 with directions uniform / near-axis / near-plane, foot+height around the "
        "surface, the box of the evolute, the evolute +- relative 1e-16..1e-1 and +-4 ulp, the singular disc with offsets down to 5e-324, axis/plane, "
        "far field up to 1e300) on the ladder (85%) or a random ellipsoid (f in (-9, 0.99], a in [1,1e10]); "
        "fwd: random geodetic (lat incl. +-90, 90-k ulp, +-0, tiny; lon real up to 1e15 and multiples of 90 +-ulp; h in {0, +-[1e-9,1e20], "
        "-a, -b, -a(1-f)^2, down to -a}) checked against the closed form and then pushed through Reverse with all its monitors; "
        "nm: WGS84-like ellipsoids, |h| <= 5000 km, author's error measure; local: LocalCartesian objects (origins incl. poles, lon real, "
        "h0 in {0, +-1e7, terrain, +-1e-3..1e3 a}) each with a cloud of 8 geodetic points and 6 local points incl. the three axes; "
        "hist: object histories -- 4..16 Reset calls on ONE LocalCartesian (default-constructed / constructed from a Geocentric / constructed with an origin): new origin, same lat/lon with "
        "another height, same origin again, lon shifted by 360k, sign of a zero latitude, only lat or only lon changed, back to (0,0,h), Reset with the default h0, a copy reset elsewhere; "
        "after every step the inspectors, Forward, Reverse and both matrices are compared bit for bit with a FRESH object built from the latest arguments, and the origin must map to (0,0,0); "
        "cli: the CartConvert tool (default, -e a f incl. a fraction / sphere / prolate, -l lat0 lon0 h0, -w, -r, -p) on 8 x 150 (quick) / 8 x 1500 lines in o2 and asan builds; "
        "class = section / regime of Geocentric::IntReverse (mirrored branch predicates) / inside-outside / ellipsoid shape; "
        "distinct = distinct hash of (class, a, f, inputs); trivial = oracle self-test cases")
ASSUMPTIONS = [
    "libquadmath sqrtq/sinq/cosq/hypotq/cbrtq/remquoq accurate to ~1e-33; the closed-form forward evaluated in binary128 is exact for the purposes of double round-off",
    "oracle/ref_cart.hpp least-distance certificate: all stationary points of the squared distance over the parametric latitude are isolated by the derivative cascade of the quartic in tan(beta/2) "
    "(self-tested every run against a 4000-point brute-force scan, against long double, and against closed forms on the sphere / axis / plane)",
    "regime labels mirror the branch predicates of src/Geocentric.cpp in the same double arithmetic (labels and reach counters only, never a verdict)",
    "natural length scale L = max(|r|, a, b); 'to round-off' for Reverse = K_REV*eps*L plus K_Q=4 units in the last place of each returned double mapped through the forward Jacobian",
    "height minimality is judged only outside the evolute of the meridian ellipse (astroid function > 1); inside it the comparison is recorded as information, as the property exempts it",
    "LocalCartesian is judged as a rigid motion of the library's own Geocentric positions (which section fwd judges against the closed form) with the frame taken from the oracle",
    "CartConvert output is compared at its printed precision (-p 6) with a double-precision evaluation of the definitions in checks/C07.py",
]
RUNS = [
    dict(harness="harness/C07.cpp", flavour="o2", scale={"quick": 1.0, "thorough": 1.0}),
    dict(harness="harness/C07.cpp", flavour="asan", scale={"quick": 0.1, "thorough": 0.05}, extra_args=["--limit-s", "300"]),
]
MANIFEST = dict(
    technique="runtime oracle monitors (binary128 closed form next to every Forward; forward image + global least-distance certificate next to every Reverse; "
              "ENU frame from its definition next to every rotation matrix; rigid-motion model next to every LocalCartesian call), bit-exact law monitors "
              "(M / M-less overloads, mirror symmetries), history monitor (one LocalCartesian driven through random Reset sequences == fresh object after every step), output sentinels and range monitors; same workload in an ASan+UBSan build",
    text="Geocentric::Forward/Reverse and LocalCartesian::Forward/Reverse/Reset (with and without the rotation matrix) are executed on ~3e5 (quick) / ~1.4e7 (thorough) "
         "generated inputs over 49+random ellipsoids from f=0.99 to f=-9 and 40+ decades of |r|, with a directed catalogue for the centre, axis, equatorial plane, singular disc, "
         "evolute +-k ulp, cusps, far-field threshold and overflow, so that every branch of IntReverse (far field, far field with overflow, sphere, sphere with e^4 underflow, "
         "degenerate disc/segment/centre/q-underflow, cubic with disc>=0 (u>=0, u<0, T=0) and disc<0, prolate swap) has its own class count. Each result is judged against an "
         "independent binary128 model: closed form for Forward; for Reverse the forward image of the result, ranges, and |h| = least distance to the ellipsoid; M orthonormal, "
         "det +1 and equal to the east/north/up frame defined from the ellipsoid normal; LocalCartesian equal to [e n u]^T (r - r0), distances preserved, inverses, matrix = R0^T ENU; "
         "the documented 7 nm claim in the author's own measure for |h| <= 5000 km. Held = no monitor fired on the executions observed.",
    note="Trusts libquadmath and the self-tested minimiser in oracle/ref_cart.hpp. Tolerances: Forward 4 eps L; Reverse forward image 8 eps L + 4 ulp of (lat,lon,h); |h| vs least distance 12 eps L; "
         "M 6 eps (orthonormality/det; 8 eps for LocalCartesian's product of two rotations), 6 eps (vs ENU); LocalCartesian 8 eps L (16 eps L + 4 ulp on paths through Reverse); nm claim 2 x 7 nm x a/a_WGS84 (+ the measured displacement of the double input); L = max(|r|,a,b). "
         "Precision losses of the library in extreme regimes are reported under their own narrow keys, each confined to its regime and (where a bound is known) to the explained amplification: "
         "oracle:C07/forward/closed-form/oblate-e2-near-1 (f>0.65, fixed in /repo), oracle:C07/reverse/forward-image/strongly-prolate (f<-1.5, error <= K (b/a)^2/4), "
         "oracle:C07/reverse/forward-image/subnormal-squares (0<|Z|<1e-140 a or 0<R<1e-140 a), matrix:C07/reverse/*/subnormal-R (0<hypot(X,Y)<4 DBL_MIN); anything else reports under the general keys.",
    design_ref="DESIGN.md#c07")


# ---------------------------------------------------------------------------------------------------------------
# extra step: the CartConvert command-line tool (geocentric, -r, -l lat0 lon0 h0, -e a f, -w) observed from outside.
# Printed results are compared, at the printed precision, with an independent double-precision evaluation of the
# definitions written here (closed form, ENU frame, rigid motion); the tool's own output is fed back through -r.
def extra(res, tier, seed, workdir):
    import math, os, random, subprocess, sys
    sys.path.insert(0, os.path.join(os.path.dirname(os.path.dirname(os.path.abspath(__file__))), "lib"))
    import vbuild, driver

    def fwd(a, f, lat, lon, h):
        p, l = math.radians(lat), math.radians(lon)
        n = a / math.sqrt(math.cos(p) ** 2 + (1 - f) ** 2 * math.sin(p) ** 2)
        return ((n + h) * math.cos(p) * math.cos(l), (n + h) * math.cos(p) * math.sin(l), (n * (1 - f) ** 2 + h) * math.sin(p))

    def local(a, f, o, lat, lon, h):
        r0, r = fwd(a, f, *o), fwd(a, f, lat, lon, h)
        p, l = math.radians(o[0]), math.radians(o[1])
        e = (-math.sin(l), math.cos(l), 0.0)
        n = (-math.sin(p) * math.cos(l), -math.sin(p) * math.sin(l), math.cos(p))
        u = (math.cos(p) * math.cos(l), math.cos(p) * math.sin(l), math.sin(p))
        d = [r[i] - r0[i] for i in range(3)]
        return tuple(sum(v[i] * d[i] for i in range(3)) for v in (e, n, u))

    rng = random.Random(1000003 * seed + 7)
    nline = 150 if tier == "quick" else 1500
    configs = [("wgs84", [], 6378137.0, 1 / 298.257223563, None, False),
               ("e-sphere", ["-e", "6371000", "0"], 6371000.0, 0.0, None, False),
               ("e-fraction", ["-e", "6378388", "1/297"], 6378388.0, 1 / 297.0, None, False),
               ("e-prolate", ["-e", "1000", "-0.5"], 1000.0, -0.5, None, False),
               ("e-oblate-0.5", ["-e", "1e7", "0.5"], 1e7, 0.5, None, False),
               ("local", None, 6378137.0, 1 / 298.257223563, "rand", False),
               ("local-w", None, 6378137.0, 1 / 298.257223563, "rand", True),
               ("local-pole-e", None, 6.4e6, 0.1, (90.0, 33.0, -1000.0), False)]
    for flavour in ("o2", "asan"):
        tools = vbuild.tools(flavour)
        exe = tools["CartConvert"]
        env = dict(os.environ); env.update(driver.SAN_ENV)
        for name, args, a, f, org, lonfirst in configs:
            if org == "rand":
                org = (round(rng.uniform(-90, 90), 6), round(rng.uniform(-180, 180), 6), round(rng.uniform(-1e4, 1e7), 3))
            if args is None:
                args = (["-w"] if lonfirst else []) + ["-l"] + ["%r" % v for v in ((org[1], org[0], org[2]) if lonfirst else org)]
                if (a, f) != (6378137.0, 1 / 298.257223563):
                    args = ["-e", "%r" % a, "%r" % f] + args
            pts = [(round(rng.uniform(-89, 89), 9), round(rng.uniform(-180, 180), 9), round(rng.choice([rng.uniform(-1e4, 1e4), rng.uniform(-1e5, 1e7)]) * a / 6.4e6, 4))
                   for _ in range(nline)]
            text = "".join(("%.9f %.9f %.4f\n" % ((q[1], q[0], q[2]) if lonfirst else q)) for q in pts)
            cls = "cli/CartConvert/" + name
            res.classes[cls] = res.classes.get(cls, 0) + 2 * nline
            res.evals += 2 * nline

            def viol(key, detail):
                res.add_viol(dict(key=key, **{"class": cls}, run="CartConvert." + flavour, section="cli", idx=0, seed=seed, flavour=flavour,
                                  harness="harness/C07.cpp", detail=detail))

            def run(extra_args, inp):
                p = subprocess.run([exe] + args + extra_args, input=inp, stdout=subprocess.PIPE, stderr=subprocess.PIPE, text=True, env=env, timeout=600)
                if p.returncode != 0 or p.stderr.strip():
                    k = driver._san_key(p.stderr) or "cli:C07/CartConvert/exit-status-or-stderr"
                    viol(k, dict(cmd=[exe] + args + extra_args, exit=p.returncode, stderr=p.stderr[-2000:]))
                    return None
                return p.stdout.splitlines()
            out = run(["-p", "6"], text)
            if out is None:
                continue
            if len(out) != nline:
                viol("cli:C07/CartConvert/line-count", dict(cmd=args, want=nline, got=len(out)))
                continue
            worst = 0.0
            for q, line in zip(pts, out):
                got = [float(t) for t in line.split()]
                want = local(a, f, org, *q) if org else fwd(a, f, *q)
                scale = max(abs(v) for v in fwd(a, f, *q)) + (max(abs(v) for v in fwd(a, f, *org)) if org else 0)
                err = max(abs(got[i] - want[i]) for i in range(3))
                worst = max(worst, err)
                if not err <= 2e-6 + 1e-14 * scale:
                    viol("cli:C07/CartConvert/" + ("local-forward" if org else "forward"), dict(cmd=args, input=q, got=got, want=want, err=err))
                    break
            o = res.obs.setdefault("cli CartConvert forward vs definition at -p 6 [m]", dict(max=0.0, n=0, at={}, run="CartConvert"))
            o["n"] += nline; o["max"] = max(o["max"], worst)
            back = run(["-r", "-p", "6"], "\n".join(out) + "\n")
            if back is None or len(back) != nline:
                if back is not None:
                    viol("cli:C07/CartConvert/line-count", dict(cmd=args + ["-r"], want=nline, got=len(back)))
                continue
            worst = 0.0
            for q, line in zip(pts, back):
                g = [float(t) for t in line.split()]
                if lonfirst:
                    g = [g[1], g[0], g[2]]
                n_ = a / math.sqrt(math.cos(math.radians(q[0])) ** 2 + (1 - f) ** 2 * math.sin(math.radians(q[0])) ** 2)
                dl = math.remainder(g[1] - q[1], 360.0)
                # position error implied by the differences (m); inputs were rounded to 1e-6 m by the first pass
                err = math.hypot(math.hypot(math.radians(g[0] - q[0]) * (n_ + abs(q[2])), math.radians(dl) * (n_ + abs(q[2])) * math.cos(math.radians(q[0]))), g[2] - q[2])
                worst = max(worst, err)
                if not err <= 2e-5 * max(1.0, a / 6.4e6):   # 1e-6 m rounding of x,y,z and 1e-11 deg / 1e-6 m rounding of the answer
                    viol("cli:C07/CartConvert/" + ("local-roundtrip" if org else "reverse-roundtrip"), dict(cmd=args + ["-r"], input=q, got=g, err_m=err))
                    break
            o = res.obs.setdefault("cli CartConvert -r of its own output vs original geodetic [m]", dict(max=0.0, n=0, at={}, run="CartConvert"))
            o["n"] += nline; o["max"] = max(o["max"], worst)
