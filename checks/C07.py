LEVEL = "exploration"
RULE = ("one case = one library call chain on one generated input with every monitor evaluated next to it. "
        "revdir: directed catalogue (centre with all sign-of-zero combinations; rotation axis and equatorial plane at 16 magnitudes "
        "from 5e-324 to DBL_MAX incl. the evolute cusps, the poles/equator of the ellipsoid and the far-field threshold 2a/eps, each +-k ulp; "
        "points inside the singular disc / axis segment with offsets 5e-324..1e-17 a; 32 points of the evolute located in binary128 and moved "
        "-1..+2 ulp (first pass) / +-4 ulp (later passes); the ellipsoid surface +-k ulp; norms that overflow; exact r==0 of the cubic; "
        "sub-normal coordinates) x 49 ellipsoids (f in {0, +-1e-10, WGS84, +-0.1, +-0.5, 0.9, 0.99, -1, -9} x a in {1, 6.4e6, 1e10} plus "
        "named geodetic ellipsoids, +-1/150, +-0.01, +-1e-6, f=+-1e-170 (e^4 underflows), f=0.2929, 0.75); "
        "rev: random cartesian points (|r| log-uniform over 1e-20..1e20 with directions uniform / near-axis / near-plane, foot+height around the "
        "surface, the box of the evolute, the evolute +- relative 1e-16..1e-1 and +-4 ulp, the singular disc with offsets down to 5e-324, axis/plane, "
        "far field up to 1e300) on the ladder (85%) or a random ellipsoid (f in (-9, 0.99], a in [1,1e10]); "
        "fwd: random geodetic (lat incl. +-90, 90-k ulp, +-0, tiny; lon real up to 1e15 and multiples of 90 +-ulp; h in {0, +-[1e-9,1e20], "
        "-a, -b, -a(1-f)^2, down to -a}) checked against the closed form and then pushed through Reverse with all its monitors; "
        "nm: WGS84-like ellipsoids, |h| <= 5000 km, author's error measure; local: LocalCartesian objects (origins incl. poles, lon real, "
        "h0 in {0, +-1e7, terrain, +-1e-3..1e3 a}) each with a cloud of 8 geodetic points and 6 local points incl. the three axes; "
        "class = section / regime of Geocentric::IntReverse (mirrored branch predicates) / inside-outside / ellipsoid shape; "
        "distinct = distinct hash of (class, a, f, inputs); trivial = oracle self-test cases")
ASSUMPTIONS = [
    "libquadmath sqrtq/sinq/cosq/hypotq/cbrtq/remquoq accurate to ~1e-33; the closed-form forward evaluated in binary128 is exact for the purposes of double round-off",
    "oracle/ref_cart.hpp least-distance certificate: all stationary points of the squared distance over the parametric latitude are isolated by the derivative cascade of the quartic in tan(beta/2) "
    "(self-tested every run against a 4000-point brute-force scan, against long double, and against closed forms on the sphere / axis / plane)",
    "regime labels mirror the branch predicates of src/Geocentric.cpp in the same double arithmetic (labels and reach counters only, never a verdict)",
    "natural length scale L = max(|r|, a, b); 'to round-off' for Reverse = K_REV*eps*L plus K_Q=4 units in the last place of each returned double mapped through the forward Jacobian",
    "height minimality is judged only outside the evolute of the meridian ellipse (astroid function > 1); inside it the comparison is recorded as information, as the property exempts it",
]
RUNS = [
    dict(harness="harness/C07.cpp", flavour="o2", scale={"quick": 1.0, "thorough": 1.0}),
    dict(harness="harness/C07.cpp", flavour="asan", scale={"quick": 0.1, "thorough": 0.05}, extra_args=["--limit-s", "300"]),
]
MANIFEST = dict(
    technique="runtime oracle monitors (binary128 closed form next to every Forward; forward image + global least-distance certificate next to every Reverse; "
              "ENU frame from its definition next to every rotation matrix; rigid-motion model next to every LocalCartesian call), bit-exact law monitors "
              "(M / M-less overloads, mirror symmetries, Reset == fresh object), output sentinels and range monitors; same workload in an ASan+UBSan build",
    text="Geocentric::Forward/Reverse and LocalCartesian::Forward/Reverse/Reset (with and without the rotation matrix) are executed on ~3e5 (quick) / ~1.4e7 (thorough) "
         "generated inputs over 49+random ellipsoids from f=0.99 to f=-9 and 40+ decades of |r|, with a directed catalogue for the centre, axis, equatorial plane, singular disc, "
         "evolute +-k ulp, cusps, far-field threshold and overflow, so that every branch of IntReverse (far field, far field with overflow, sphere, sphere with e^4 underflow, "
         "degenerate disc/segment/centre/q-underflow, cubic with disc>=0 (u>=0, u<0, T=0) and disc<0, prolate swap) has its own class count. Each result is judged against an "
         "independent binary128 model: closed form for Forward; for Reverse the forward image of the result, ranges, and |h| = least distance to the ellipsoid; M orthonormal, "
         "det +1 and equal to the east/north/up frame defined from the ellipsoid normal; LocalCartesian equal to [e n u]^T (r - r0), distances preserved, inverses, matrix = R0^T ENU; "
         "the documented 7 nm claim in the author's own measure for |h| <= 5000 km. Held = no monitor fired on the executions observed.",
    note="Trusts libquadmath and the self-tested minimiser in oracle/ref_cart.hpp. Tolerances: Forward 4 eps L; Reverse forward image 8 eps L + 4 ulp of (lat,lon,h); |h| vs least distance 12 eps L; "
         "M 6 eps (orthonormality/det), 8 eps (vs ENU); LocalCartesian 8 eps L; nm claim 2 x 7 nm x a/a_WGS84 (+ the measured displacement of the double input); L = max(|r|,a,b). "
         "Precision losses of the library in extreme regimes are reported under their own narrow keys (…/oblate-e2-near-1, …/strongly-prolate, …/subnormal-squares, …/subnormal-R).",
    design_ref="DESIGN.md#c07")
