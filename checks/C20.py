LEVEL = "exploration"
RULE = ("hist: one case = (synthetic raster: size from 2x3..360x181 (thorough ..1440x721), one of 10 pixel fields, offset/scale ladder) x "
        "{bilinear,cubic} x a random operation history of 50-2000 height/ConvertHeight queries interleaved with CacheArea (11 rectangle "
        "kinds incl. wrapping, polar, degenerate, inverted), CacheAll, CacheClear; the query list is re-evaluated on five other objects "
        "(fresh object per query, CacheAll, threadsafe, another random history, reversed history) and every query counts as one "
        "evaluation: its six results must be bit-identical and equal the long-double reference within the round-off model; "
        "struct: one case = raster x structural laws (nodes, edge linearity, continuity, periodicity, polynomial fields, pole); "
        "iofault: raster x objects whose file is emptied after caching; trunc/fault: every proper prefix of 6 small valid files and a "
        "catalogue of ~150 header/size/maxval/offset/scale/length faults x 4 base rasters, each opened in 4 constructor modes; "
        "headerfuzz: random byte edits of a valid header. distinct = distinct hash of (class, raster sample, position, kind); "
        "trivial = NaN/out-of-range queries and oracle self-tests")
ASSUMPTIONS = ["oracle/ref_geoid.hpp: bilinear and weighted-least-squares cubic (weights 1/2 on the documented 12-point stencil, multiplying the squared "
               "residuals as in the Maxima recipe quoted in Geoid.cpp; pure-x terms removed in the polar rows) evaluated in long double from transfer "
               "matrices solved in exact rationals at start-up and self-checked (exact reproduction of the fit space, normal equations, x-independence "
               "at the pole; long double vs float128)",
               "tolerance = a-priori round-off bound of the documented evaluation chain in double: u*(|h| + scale*|p| + scale*(NOPS*sum|terms| + "
               "(2|x|+1)|dp/dx| + (2|y|+1)|dp/dy|)), u=2^-53, NOPS=8 (bilinear) / 20 (cubic), K_safety=1 on that bound; at exact cell boundaries either adjacent cell is accepted",
               "which cache path served a value is inferred from the harness's own history model and the object's public Cache()/CacheWest/East/North/South accessors (no hooks)",
               "files that are valid netpbm but not the documented one-line layout, non-finite/overflowing Offset/Scale texts, duplicate keys, CRLF, and trailing "
               "second images are classed 'either' (load or GeographicErr); everything else in the catalogue must be refused with GeographicErr"]
EXHAUSTIVE_SUBSPACES = ["every proper prefix (truncation length) of six small valid files (2x3, 4x3, 4x5, 8x5; standard and minimal headers), each in 4 constructor modes",
                        "the directed malformed-header catalogue of oracle/ref_geoidfile.hpp on 4 base rasters"]
RUNS = [
    dict(harness="harness/C20.cpp", flavour="o2", scale={"quick": 1.0, "thorough": 1.0}),
    dict(harness="harness/C20.cpp", flavour="asan", scale={"quick": 0.1, "thorough": 0.05}, extra_args=["--limit-s", "600"]),
]

PATHS = ["cell-cache", "area-cache", "area-straddle", "file", "fresh-object", "full-cache", "threadsafe"]


def extra(res, tier, seed, workdir):
    """completeness of the path-pair coverage: a run in which some pair of cache paths was never compared is inconclusive"""
    import os, shutil
    missing = []
    table = {}
    for ip in ("bilinear", "cubic"):
        for i, a in enumerate(PATHS):
            for b in PATHS[i:]:
                if a == b and a in ("fresh-object", "full-cache", "threadsafe"):
                    continue          # only one object of these kinds per case
                n = res.events.get("paths compared bit-exactly: %s %s ~ %s" % (ip, a, b), 0)
                table["%s: %s ~ %s" % (ip, a, b)] = n
                if n == 0:
                    missing.append("%s %s~%s" % (ip, a, b))
    res.extra["path_pairs_compared"] = table
    if missing:
        res.inconclusive.append("cache-path pairs never compared: " + ", ".join(missing))
    for must in ("file lost: CacheArea-object-inside served value", "file lost: uncached-object raised GeographicErr",
                 "malformed-file outcome: reject-class -> GeographicErr", "malformed-file outcome: accept-class -> accepted",
                 "threadsafe CacheArea refused with GeographicErr", "cache-extent law checked"):
        if not res.events.get(must):
            res.inconclusive.append("expected regime never observed: " + must)
    # raster directories of aborted shards (sanitizer abort / watchdog) are normally reaped by the next harness start; sweep now too
    try:
        for d in os.listdir("/dev/shm"):
            p = os.path.join("/dev/shm", d)
            if d.isdigit() and os.path.exists(os.path.join(p, ".refgeoid")) and not os.path.exists("/proc/" + d):
                shutil.rmtree(p, ignore_errors=True)
    except OSError:
        pass


MANIFEST = dict(
    technique="history monitor (bit-exact comparison of six differently-cached Geoid objects over the same query list), long-double reference oracle with "
              "rational-derived least-squares cubic next to every query, structural law monitors, exception monitor over an enumerated malformed-file "
              "catalogue, file-loss monitor; ASan+UBSan build of the same workload",
    text="Synthetic global rasters (2x3 to 1440x721; random, constant, spike, ramp, polynomial, checkerboard, smooth fields; negative offsets, tiny scales) are "
         "queried through random histories of height/ConvertHeight calls interleaved with CacheArea/CacheAll/CacheClear; every result must be bit-identical "
         "on a fresh object per query, a fully cached, a threadsafe, a differently-cached and a reversed-history object, and must equal the documented "
         "bilinear / weighted-least-squares cubic interpolant within a double round-off bound. Node reproduction, edge linearity, continuity, 360-periodicity, "
         "NaN policy, ConvertHeight inverse, and rejection of every truncation and header fault with GeographicErr are monitored alongside. "
         "Held = no monitor fired on the executions observed.",
    note="Trusts the long-double reference (self-checked in exact rationals and against float128) and the a-priori round-off model as tolerance; cache paths are "
         "inferred, not hooked; a run where some pair of cache paths was never compared is reported inconclusive.",
    design_ref="DESIGN.md#c20")
