LEVEL = "exploration"
RULE = ("hist: one case = (synthetic raster: size from 2x3..360x181 (thorough ..1440x721), one of 10 pixel fields, offset/scale ladder) x "
        "{bilinear,cubic} x a random operation history of 50-2000 height/ConvertHeight queries interleaved with CacheArea (11 rectangle "
        "kinds incl. wrapping, polar, degenerate, inverted), CacheAll, CacheClear, and CacheArea/CacheAll calls in which a planted allocation "
        "fault (replaced global operator new throws bad_alloc at the k-th allocation) must surface as GeographicErr and leave no cache; the query list is re-evaluated on five other objects "
        "(fresh object per query, CacheAll, threadsafe, another random history, reversed history) and every query counts as one "
        "evaluation: its six results must be bit-identical and equal the long-double reference within the round-off model; "
        "struct: one case = raster x structural laws (nodes, edge linearity, continuity, periodicity, polynomial fields, pole); "
        "iofault: raster x objects whose file is emptied after caching; trunc/fault: every proper prefix of 6 small valid files and a "
        "catalogue of ~150 header/size/maxval/offset/scale/length faults x 4 base rasters, each opened in 4 constructor modes; "
        "headerfuzz: random byte edits of a valid header. distinct = distinct hash of (class, raster sample, position, kind); "
        "trivial = NaN/out-of-range queries and oracle self-tests")
ASSUMPTIONS = ["oracle/ref_geoid.hpp: bilinear and weighted-least-squares cubic (weights 1/2 on the documented 12-point stencil, multiplying the squared "
               "residuals as in the Maxima recipe quoted in Geoid.cpp; pure-x terms removed in the polar rows) evaluated in long double from transfer "
               "matrices solved in exact rationals at start-up and self-checked (exact reproduction of the fit space, normal equations, x-independence "
               "at the pole; long double vs float128)",
               "tolerance = a-priori round-off bound of the documented evaluation chain in double: u*(|h| + scale*|p| + scale*(NOPS*sum|terms| + "
               "(2|x|+1)|dp/dx| + (2|y|+1)|dp/dy|)), u=2^-53, NOPS=8 (bilinear) / 20 (cubic), K_safety=1 on that bound; at exact cell boundaries either adjacent cell is accepted",
               "which cache path served a value is inferred from the harness's own history model and the object's public Cache()/CacheWest/East/North/South accessors (no hooks)",
               "files that are valid netpbm but not the documented one-line layout, non-finite/overflowing Offset/Scale texts, duplicate keys, CRLF, and trailing "
               "second images are classed 'either' (load or GeographicErr); everything else in the catalogue must be refused with GeographicErr"]
EXHAUSTIVE_SUBSPACES = ["every proper prefix (truncation length) of six small valid files (2x3, 4x3, 4x5, 8x5; standard and minimal headers), each in 4 constructor modes",
                        "the directed malformed-header catalogue of oracle/ref_geoidfile.hpp on 4 base rasters"]
RUNS = [
    dict(harness="harness/C20.cpp", flavour="o2", scale={"quick": 1.0, "thorough": 1.0}),
    dict(harness="harness/C20.cpp", flavour="asan", scale={"quick": 0.1, "thorough": 0.05}, extra_args=["--limit-s", "600"]),
]

PATHS = ["cell-cache", "area-cache", "area-straddle", "file", "fresh-object", "full-cache", "threadsafe"]


def extra(res, tier, seed, workdir):
    """completeness of the path-pair coverage: a run in which some pair of cache paths was never compared is inconclusive"""
    import os, shutil
    missing = []
    table = {}
    for ip in ("bilinear", "cubic"):
        for i, a in enumerate(PATHS):
            for b in PATHS[i:]:
                if a == b and a in ("fresh-object", "full-cache", "threadsafe"):
                    continue          # only one object of these kinds per case
                n = res.events.get("paths compared bit-exactly: %s %s ~ %s" % (ip, a, b), 0)
                table["%s: %s ~ %s" % (ip, a, b)] = n
                if n == 0:
                    missing.append("%s %s~%s" % (ip, a, b))
    res.extra["path_pairs_compared"] = table
    if missing:
        res.inconclusive.append("cache-path pairs never compared: " + ", ".join(missing))
    for must in ("file lost: CacheArea-object-inside served value", "file lost: uncached-object raised GeographicErr",
                 "malformed-file outcome: reject-class -> GeographicErr", "malformed-file outcome: accept-class -> accepted",
                 "threadsafe CacheArea refused with GeographicErr", "cache-extent law checked",
                 "allocation fault in CacheArea/CacheAll -> GeographicErr: cubic (a cache was active before)",
                 "allocation fault in CacheArea/CacheAll -> GeographicErr: bilinear (a cache was active before)"):
        if not res.events.get(must):
            res.inconclusive.append("expected regime never observed: " + must)
    try:
        _geoideval(res, tier, seed, workdir)
    except Exception as e:           # the tool step itself failing is a harness problem, not a verdict
        res.inconclusive.append("GeoidEval step failed: %r" % (e,))
    # raster directories of aborted shards (sanitizer abort / watchdog) are normally reaped by the next harness start; sweep now too
    try:
        for d in os.listdir("/dev/shm"):
            p = os.path.join("/dev/shm", d)
            if d.isdigit() and os.path.exists(os.path.join(p, ".refgeoid")) and not os.path.exists("/proc/" + d):
                shutil.rmtree(p, ignore_errors=True)
    except OSError:
        pass


def _geoideval(res, tier, seed, workdir):
    """tools/GeoidEval on python-written rasters (a third, independent writer): the printed heights must not depend on the
    cache options (-a, -c) and, for -l, must equal a bilinear interpolation done here; malformed files give exit 1, not a crash"""
    import os, random, struct, subprocess, sys
    sys.path.insert(0, os.path.join(os.path.dirname(os.path.dirname(os.path.abspath(__file__))), "lib"))
    import vbuild
    rnd = random.Random(seed * 7919 + 20)
    d = os.path.join(workdir, "geoideval")
    os.makedirs(d, exist_ok=True)
    nviol = [0]

    def viol(key, detail, flavour):
        nviol[0] += 1
        if nviol[0] <= 6:
            res.add_viol(dict(key=key, **{"class": "GeoidEval"}, run="GeoidEval." + flavour, section="GeoidEval", idx=0, seed=seed,
                              flavour=flavour, harness="checks/C20.py", detail=detail))

    def write(name, w, h, pix, off, sc, body_extra=b""):
        with open(os.path.join(d, name + ".pgm"), "wb") as f:
            f.write(("P5\n# Description python raster\n# Offset %r\n# Scale %r\n%d %d\n65535\n" % (off, sc, w, h)).encode())
            f.write(struct.pack(">%dH" % (w * h), *pix))
            f.write(body_extra)

    def bilin(w, h, pix, off, sc, lat, lon):
        from fractions import Fraction as Fr
        lat, lon = Fr(lat), Fr(lon)
        x = lon * w / 360
        y = (90 - lat) * (h - 1) / 180
        ix = x.numerator // x.denominator
        iy = min(h - 2, y.numerator // y.denominator)
        fx, fy = x - ix, y - iy
        g = lambda i, j: pix[j * w + (i % w)]
        a = (1 - fx) * g(ix, iy) + fx * g(ix + 1, iy)
        b = (1 - fx) * g(ix, iy + 1) + fx * g(ix + 1, iy + 1)
        return float(Fr(off) + Fr(sc) * ((1 - fy) * a + fy * b))

    flavours = ["o2"] if tier == "quick" else ["o2", "asan"]
    env = dict(os.environ)
    from driver import SAN_ENV
    env.update(SAN_ENV)
    total = 0
    for fl in flavours:
        exe = vbuild.tools(fl)["GeoidEval"]
        for (w, h) in ((8, 5), (36, 19), (72, 37)):
            pix = [rnd.randrange(65536) for _ in range(w * h)]
            off, sc = -108.0, 0.003
            name = "py%dx%d" % (w, h)
            write(name, w, h, pix, off, sc)
            pts = []
            for _ in range(300):
                r = rnd.random()
                if r < 0.15:
                    pts.append((90 - rnd.randrange(h) * 180.0 / (h - 1), rnd.randrange(-w // 2, w // 2 + 1) * 360.0 / w))
                elif r < 0.25:
                    pts.append((rnd.choice([90.0, -90.0, 0.0]), rnd.choice([180.0, -180.0, 0.0, rnd.uniform(-180, 180)])))
                else:
                    pts.append((round(rnd.uniform(-90, 90), 6), round(rnd.uniform(-180, 180), 6)))
            inp = "".join("%.10f %.10f\n" % p for p in pts)
            rects = [["-c", "-20", "-30", "40", "50"], ["-c", "-90", "170", "90", "-170"], ["-c", "10", "-5", "80", "5"], ["-a"], []]
            for interp in ([], ["-l"]):
                outs = []
                for rc in rects:
                    p = subprocess.run([exe, "-n", name, "-d", d] + interp + rc, input=inp, stdout=subprocess.PIPE, stderr=subprocess.PIPE, text=True, env=env, timeout=300)
                    if p.returncode != 0:
                        viol("tool:C20/GeoidEval/nonzero-exit-on-valid-file", dict(args=interp + rc, rc=p.returncode, stderr=p.stderr[-1500:], raster=name), fl)
                    outs.append(p.stdout)
                    total += len(pts)
                for k, o in enumerate(outs[:-1]):
                    if o != outs[-1]:
                        bad = [(pts[i], a, b) for i, (a, b) in enumerate(zip(o.splitlines(), outs[-1].splitlines())) if a != b][:3]
                        viol("tool:C20/GeoidEval/output-depends-on-cache-option", dict(args=interp + rects[k], raster=name, first_differences=bad), fl)
                if interp:
                    for (la, lo), line in zip(pts, outs[-1].splitlines()):
                        try:
                            got = float(line)
                        except ValueError:
                            viol("tool:C20/GeoidEval/unparsable-output", dict(line=line, lat=la, lon=lo), fl)
                            continue
                        want = bilin(w, h, pix, off, sc, "%.10f" % la, "%.10f" % lo)
                        if abs(got - want) > 0.5e-4 + 1e-9:
                            viol("tool:C20/GeoidEval/bilinear-value", dict(lat=la, lon=lo, got=got, want=want, raster=name), fl)
            # height conversions through the tool
            p1 = subprocess.run([exe, "-n", name, "-d", d, "-l", "--msltohae"], input="10 20 100\n", stdout=subprocess.PIPE, stderr=subprocess.PIPE, text=True, env=env)
            p2 = subprocess.run([exe, "-n", name, "-d", d, "-l", "--haetomsl"], input="10 20 100\n", stdout=subprocess.PIPE, stderr=subprocess.PIPE, text=True, env=env)
            try:
                n = bilin(w, h, pix, off, sc, "10", "20")
                a, b = float(p1.stdout.split()[-1]), float(p2.stdout.split()[-1])
                if abs(a - (100 + n)) > 1e-4 or abs(b - (100 - n)) > 1e-4:
                    viol("tool:C20/GeoidEval/height-conversion", dict(msltohae=p1.stdout, haetomsl=p2.stdout, N=n), fl)
            except (ValueError, IndexError):
                viol("tool:C20/GeoidEval/height-conversion-unparsable", dict(o1=p1.stdout, o2=p2.stdout, e1=p1.stderr[-500:]), fl)
        # malformed files through the tool: an error message and exit status 1, never a signal
        write("bad_long", 4, 3, [7] * 12, -108.0, 0.003, b"\0")
        with open(os.path.join(d, "bad_short.pgm"), "wb") as f:
            f.write(b"P5\n# Offset -108\n# Scale 0.003\n4 5\n65535\n" + bytes(16))
        with open(os.path.join(d, "bad_noscale.pgm"), "wb") as f:
            f.write(b"P5\n# Offset 1\n2 3\n65535\n" + bytes(12))
        with open(os.path.join(d, "bad_magic.pgm"), "wb") as f:
            f.write(b"P6\n# Offset 1\n# Scale 1\n2 3\n65535\n" + bytes(12))
        for name in ("bad_long", "bad_short", "bad_noscale", "bad_magic", "does_not_exist"):
            p = subprocess.run([exe, "-n", name, "-d", d], input="1 2\n", stdout=subprocess.PIPE, stderr=subprocess.PIPE, text=True, env=env)
            total += 1
            if p.returncode != 1 or "rror" not in p.stderr:
                viol("tool:C20/GeoidEval/malformed-file-not-refused-cleanly", dict(file=name, rc=p.returncode, stdout=p.stdout[-300:], stderr=p.stderr[-1500:]), fl)
    res.evals += total
    res.classes["tool/GeoidEval"] = res.classes.get("tool/GeoidEval", 0) + total
    res.events["GeoidEval points evaluated (x cache options)"] = total


MANIFEST = dict(
    technique="history monitor (bit-exact comparison of six differently-cached Geoid objects over the same query list), long-double reference oracle with "
              "rational-derived least-squares cubic next to every query, structural law monitors, exception monitor over an enumerated malformed-file "
              "catalogue, file-loss monitor; ASan+UBSan build of the same workload",
    text="Synthetic global rasters (2x3 to 1440x721; random, constant, spike, ramp, polynomial, checkerboard, smooth fields; negative offsets, tiny scales) are "
         "queried through random histories of height/ConvertHeight calls interleaved with CacheArea/CacheAll/CacheClear; every result must be bit-identical "
         "on a fresh object per query, a fully cached, a threadsafe, a differently-cached and a reversed-history object, and must equal the documented "
         "bilinear / weighted-least-squares cubic interpolant within a double round-off bound. Node reproduction, edge linearity, continuity, 360-periodicity, "
         "NaN policy, ConvertHeight inverse, and rejection of every truncation and header fault with GeographicErr are monitored alongside. "
         "Held = no monitor fired on the executions observed.",
    note="Trusts the long-double reference (self-checked in exact rationals and against float128) and the a-priori round-off model as tolerance; cache paths are "
         "inferred, not hooked; a run where some pair of cache paths was never compared is reported inconclusive.",
    design_ref="DESIGN.md#c20")
