import json, os, re, shutil, subprocess, sys, time

LEVEL = "exploration"
RULE = ("one evaluation = one library call sequence on one input judged against the reference model: (blocktable) one (zone, band letter, column letter, row "
        "letter) string -- ALL 60 x 20 x 8 x 20 legal-letter combinations and all 26^3 letter triples per zone and for UPS, each also with 5- and 11-digit "
        "suffixes {0..0, 9..9, random}, lower case, one-digit zone; (gridzone) every zone x letter grid-zone designation; (corners) per zone and hemisphere "
        "the 100 km tile lines at {line, +-1 ulp, +-1 um} incl. the closed upper edges and the continued northings of the other hemisphere; (bandedges) points "
        "placed on the parallels 8k deg by the binary128 reference projection at offsets 0.1 nm .. 10 m; (random) structured random (zone, hemisphere, x, y, "
        "prec) with extra mass next to decimal grid lines of every precision; (latarg) the overload taking a latitude with consistent, neighbouring, edge, "
        "tiny and inconsistent latitudes; (malformed) 25 deterministic mutation classes of library-produced strings + a fixed catalogue; (geocoords) "
        "GeoCoords::MGRSRepresentation; libFuzzer inputs. distinct = distinct hash of (class, inputs); trivial = duplicate spellings, NaN/INVALID probes, "
        "oracle self-tests")
ASSUMPTIONS = [
    "binary128 products of a double and 10^6 are exact; GNU __int128/long long integer arithmetic on micrometre counts is exact",
    "letter tables, band limits and the 2 000 km row period are as transcribed from TM 8358.1 / NGA.STND.0037 into oracle/ref_mgrs.hpp (checked at start-up against published examples: "
    "38SMB4488, 4QFJ1234567890, 18SUJ2337106519, ZAH, BAN and the legal/illegal blocks quoted in MGRS.hpp)",
    "coordinate ranges, closed upper edges (moved down by < 1 um), hemisphere folding, 'INV' marker, optional leading zero and case-insensitivity are taken from the documentation in MGRS.hpp (lower case: from observed behaviour, asserted equal to upper case)",
    "the reference Gauss-Krueger latitude (oracle/ref_tm.hpp: long double, binary128 within 0.1 mm of a band edge) is accurate to < 1e-10 m (self-checked: two precisions agree to < 1 nm; central-meridian identity)",
    "block-in-band truth: a block meets a band iff it contains latitudes >= the band's southern edge and latitudes < its northern edge (continuity); computed from the northings of the 9 parallels at the 5 column lines "
    "(parallels asserted monotone in easting on samples) and cross-checked for every one of the 380 distinct blocks against min/max reference latitude by boundary sampling + golden-section refinement (o2 run)",
    "south of the equator and west of the central meridian are mirror images (the reference projection is evaluated on |x - 500 km|, |y|)",
    "the fuzz target (clang, no libquadmath) uses the block table dumped by the g++ harness and cannot judge which of the block's bands the re-encoded band letter must be",
]
EXHAUSTIVE_SUBSPACES = [
    "all 60 zones x 20 band letters x 8 column letters x 20 row letters (192 000 block designators), each at prec 0 and with 5- and 11-digit suffixes",
    "all 26^3 (band, column, row) letter triples for every zone 1..60 and without zone (UPS) at prec 0 (1 072 136 strings)",
    "all grid-zone-only designators: zone {none, 1..60 in 1-, 2-, 3-digit spelling} x 26 letters x {upper, lower}",
    "all 380 distinct (column offset, row) UTM blocks: literal min/max-latitude classification against the parallel-curve table",
]
RUNS = [
    dict(harness="harness/C05.cpp", flavour="o2", scale={"quick": 1.0, "thorough": 1.0}),
    dict(harness="harness/C05.cpp", flavour="asan", scale={"quick": 0.1, "thorough": 0.05}, extra_args=["--limit-s", "2400"]),
]
MANIFEST = dict(
    technique="runtime oracle monitor (MGRS reference model with exact integer digit arithmetic and reference-projection geometry evaluated next to every Forward/Reverse/Decode call), "
              "law monitors (precision prefix, Forward o Reverse, overload agreement, case/zone spelling), sentinel and exception monitors; ASan+UBSan build of the same workload; "
              "libFuzzer target with the semantic oracle in the target",
    text=("MGRS::Forward (both overloads), Reverse, Decode and GeoCoords::MGRSRepresentation are executed on the complete table of zone/band/column/row letter combinations, on tile lines "
          "+-1 ulp/+-1 um incl. the closed upper edges and folded hemispheres, on points placed within 0.1 nm..10 m of every latitude-band edge by a binary128 reference projection, on structured random "
          "coordinates at all precisions and on mutated / fuzzed strings. Every call is compared with an independent model: digits = exact truncation of the double, letters from the specification, band "
          "letter from the reference latitude (neighbour only within 5 nm), a block accepted with a band letter iff the block geometrically meets the band, centre/corner of the same square, "
          "Forward(Reverse(s)) = s up to the band letter of the centre, malformed text rejected with GeographicErr and outputs untouched. Held = no monitor fired on the executions observed."),
    note="Trusts libquadmath/long double arithmetic, the transcription of the MGRS letter rules in oracle/ref_mgrs.hpp and the reference transverse Mercator oracle/ref_tm.hpp (both self-tested at start-up).",
    design_ref="DESIGN.md#c05")

FIXED_SEEDS = [b"", b"INVALID", b"inv", b"38SMB4488", b"38smb4488", b"4QFJ1234567890", b"ZAH", b"BAN", b"A", b"38S", b"38VLS", b"38VMS", b"31V", b"32X", b"YZB", b"YAB",
               b"38SMB" + b"1" * 22, b"38SMB" + b"1" * 24, b"99999999999C", b"4294967297CAB", b"38S\x00B12", b"38S\x00", b"038SMB", b"38 SMB", b"38SIB", b"38SMO", b"60XZZ", b"01CAA",
               b"BAN0000000000099999999999", b"zah55", b"18SUJ2337106519"]


def extra(res, tier, seed, workdir):
    """libFuzzer target fuzz/C05_mgrs_reverse.cpp (clang 'fuzz' flavour: ASan+UBSan), fixed number of runs, seeds derived from VERIF_SEED."""
    sys.path.insert(0, os.path.join(os.path.dirname(os.path.dirname(os.path.abspath(__file__))), "lib"))
    import vbuild, driver
    njobs = {"quick": 4, "thorough": 8}[tier]
    runs = {"quick": 300000, "thorough": 6000000}[tier]
    t0 = time.time()
    h = vbuild.harness("harness/C05.cpp", "o2")
    exe = vbuild.harness("fuzz/C05_mgrs_reverse.cpp", "fuzz")
    base = os.path.join(workdir, "fuzz")
    os.makedirs(base, exist_ok=True)
    table = os.path.join(base, "table.bin")
    if subprocess.run([h, "--dump-table", table]).returncode != 0:
        res.inconclusive.append("fuzz: could not dump the block table")
        return
    procs = []
    for j in range(njobs):
        wd = os.path.join(base, "job%d" % j)
        corpus = os.path.join(wd, "corpus")
        os.makedirs(corpus)
        for i, s in enumerate(FIXED_SEEDS):
            with open(os.path.join(corpus, "s%02d" % i), "wb") as f:
                f.write(s)
        if subprocess.run([h, "--dump-corpus", corpus, str(seed * 100 + j), "300"]).returncode != 0:
            res.inconclusive.append("fuzz: could not write the seed corpus")
            return
        env = dict(os.environ)
        env.update(driver.SAN_ENV)
        env["C05_FUZZ_LOG"] = os.path.join(wd, "viol.jsonl")
        env["C05_TABLE"] = table
        err = open(os.path.join(wd, "stderr.txt"), "wb")
        cmd = [exe, "-runs=%d" % runs, "-seed=%d" % (seed * 100 + j + 1), "-max_len=64", "-len_control=0", "-print_final_stats=1",
               "-artifact_prefix=" + wd + "/", "-timeout=20", corpus]
        procs.append((j, subprocess.Popen(cmd, stdout=subprocess.DEVNULL, stderr=err, env=env, cwd=wd), err, wd))
    fz = dict(jobs=njobs, runs_each=runs, execs=0, classes={}, events={}, observed_max={}, violation_keys={}, cov_edges=None, features=None)
    label, src = "C05_mgrs_reverse.fuzz", "fuzz/C05_mgrs_reverse.cpp"
    for j, p, err, wd in procs:
        try:
            rc = p.wait(timeout={"quick": 1500, "thorough": 4 * 3600}[tier])
        except subprocess.TimeoutExpired:
            p.kill(); p.wait()
            res.inconclusive.append("fuzz job %d: wall-clock watchdog fired" % j)
            rc = None
        err.close()
        txt = open(os.path.join(wd, "stderr.txt"), errors="replace").read()
        st = {}
        sp = os.path.join(wd, "viol.jsonl.stat")
        if os.path.exists(sp):
            try:
                st = json.load(open(sp))
            except Exception:
                st = {}
        m = re.search(r"stat::number_of_executed_units:\s*(\d+)", txt)
        execs = int(m.group(1)) if m else st.get("execs", 0)
        cov = re.findall(r"cov: (\d+) ft: (\d+)", txt)
        if cov:
            fz["cov_edges"] = max(fz["cov_edges"] or 0, int(cov[-1][0]))
            fz["features"] = max(fz["features"] or 0, int(cov[-1][1]))
        fz["execs"] += execs
        res.evals += st.get("execs", 0)
        res.cases += st.get("execs", 0)
        for k, v in st.get("classes", {}).items():
            res.classes[k] = res.classes.get(k, 0) + v
            fz["classes"][k] = fz["classes"].get(k, 0) + v
        for k, v in st.get("events", {}).items():
            fz["events"][k] = fz["events"].get(k, 0) + v
        for k, v in st.get("obs", {}).items():
            fz["observed_max"][k] = max(fz["observed_max"].get(k, 0), v)
        for k, v in st.get("violkeys", {}).items():
            fz["violation_keys"][k] = fz["violation_keys"].get(k, 0) + v
            res.violcounts[k] = max(res.violcounts.get(k, 0), v)
        vp = os.path.join(wd, "viol.jsonl")
        if os.path.exists(vp):
            for line in open(vp, errors="replace"):
                try:
                    r = json.loads(line)
                except Exception:
                    continue
                n = res.violcounts.get(r["key"], 0)
                res.add_viol(dict(key=r["key"], **{"class": r["class"]}, run=label, section="fuzz_replay", idx=0, seed=seed, flavour="o2", harness="harness/C05.cpp",
                                  detail=dict(r["detail"], input_hex=r["input_hex"], found_by=src,
                                              replay="C05_REPLAY_HEX=%s bin/check C05 --replay <this file>" % r["input_hex"])))
                res.violcounts[r["key"]] = max(n, res.violcounts.get(r["key"], 0))
        if rc not in (0, None):
            key = driver._san_key(txt)
            if key is None and "libFuzzer: timeout" in txt:
                key = "hang@fuzz/C05_mgrs_reverse"
            if key is None:
                key = "crash:fuzz-exit%s@C05_mgrs_reverse" % rc
            art = [f for f in os.listdir(wd) if f.startswith(("crash-", "timeout-", "oom-", "leak-"))]
            hexin = open(os.path.join(wd, art[0]), "rb").read().hex() if art else ""
            res.add_viol(dict(key=key, **{"class": "fuzz/reverse/sanitizer-or-crash"}, run=label, section="fuzz_replay", idx=0, seed=seed, flavour="asan",
                              harness="harness/C05.cpp",
                              detail=dict(exit=rc, input_hex=hexin, found_by=src, report=txt[-3000:],
                                          replay="C05_REPLAY_HEX=%s bin/check C05 --replay <this file>" % hexin)))
        if rc == 0 and execs < runs // 2:
            res.inconclusive.append("fuzz job %d executed only %d of %d runs" % (j, execs, runs))
    res.extra["fuzz"] = fz
    res.runs.append(dict(run=label, flavour="fuzz", jobs=njobs, runs_each=runs, execs=fz["execs"], wall_s=round(time.time() - t0, 1)))
    driver.log("[C05] libFuzzer x%d: %d runs each, %.0fs" % (njobs, runs, time.time() - t0))
