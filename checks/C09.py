LEVEL = "exploration"
RULE = ("one case = (ellipsoid, end points) for Inverse or (ellipsoid, start, azimuth, distance, unroll flag) for Direct/GenDirect, or one "
        "RhumbLine with 3-6 distances, drawn from class-labelled generators: ellipsoids = series ladder f in {0, +-1e-6, WGS84, +-1/150, "
        "+-0.01} (solved by BOTH the series and the exact variant) and exact ladder b/a in {0.01,0.1,0.5,0.9,1.1,2,10,100} plus random "
        "f / b/a; inverse regimes: random, nearby 1e-9 m..1 km, east-west exact / within ulps / dphi<=1e-12 deg / <=1e-6 deg, meridional "
        "exact / ulps / small, end points at and next to the poles (90-10^-k, k=1..14), lon12 = +-180 exactly (tie) and +-ulps, equator "
        "crossing / touching, unreduced longitudes; direct regimes: cardinal / near-cardinal (+-ulps, +-1e-15..1e-5) / multi-turn azimuths, "
        "distances 0, 1e-9 m.., to the pole +-ulps, up to 3 quarter meridians beyond it, either sign, from poles / near poles / equator; "
        "plus a directed catalogue of 29568 combinations of singular values. Every result is compared with the float128 quadrature "
        "reference; each inverse/direct/line call is made with ALL outputs, again with a random non-empty subset of the output mask "
        "(sentinel-prefilled outputs, every requested output judged with the same tolerances, keys .../masked) and through the convenience "
        "overloads Direct / Position with and without S12 (keys .../overload) and Inverse without S12; "
        "distinct = distinct hash of (class, all inputs); oracle self-test cases are counted as trivial")
ASSUMPTIONS = [
    "oracle/ref_rhumb.hpp (float128 Gauss-Legendre quadrature of d psi, d m and Q d psi over the SAME singularity-graded panels, closed-form "
    "psi as cross-check on every call, Newton inversion of the meridian distance) is the true rhumb line; each run re-validates it against "
    "a second parametrisation of the meridian arc, the zone-area integral, the sphere's closed form, its own direct(inverse) closure and a "
    "long double instance",
    "tolerances: lengths K(eps*length + 7.06*eps*L) with K=4 and L=max(rectifying radius, local rho, local nu), i.e. 4 x the documented "
    "'about 10 nm' on WGS84 plus relative round-off; azimuth weighted by course length; areas 16*eps*max(a^2,c^2)*|lam12|; direct results "
    "judged with the first-order condition number of longitude/area with respect to the permitted meridian-distance error (courses "
    "spiralling towards a pole), relative term x2 for courses longer than one circuit; series variant x2 for 1/150 < |f| <= 0.01 (6th-order truncation); exact variant on oblate ellipsoids "
    "x max(1, (a/b)^2/2) (cancellation in the defining expression of psi)",
    "documented pole convention taken from the behaviour the repository's own tests pin down (pole end point: azi12 = 0/180, "
    "S12 = +-c^2 lam12), not from the stale 'cos(lat) = 1/eps^2' sentence of Rhumb.hpp",
    "a course ending within 32 eps of a pole (|mu2| = 90) may be reported either as reaching or as crossing the pole",
]
RUNS = [
    dict(harness="harness/C09.cpp", flavour="o2", scale={"quick": 1.0, "thorough": 1.0}),
    dict(harness="harness/C09.cpp", flavour="asan", scale={"quick": 0.1, "thorough": 0.03}, extra_args=["--limit-s", "600"]),
]
MANIFEST = dict(
    technique="runtime oracle monitor: float128 quadrature reference rhumb line evaluated next to every Rhumb::Inverse/Direct/GenDirect and "
              "RhumbLine::Position/GenPosition call of the series and exact variants; law monitors (direct-of-inverse, inverse-of-direct, tie rule, "
              "pole rule, area additivity along a line, line == Direct bit for bit, series == exact, overload identity); ASan+UBSan build of the "
              "same workload; oracle self-validated each run",
    text="Tens of thousands (quick) to millions (thorough) of inverse and direct rhumb problems over the ellipsoid ladders and every thin regime "
         "named in the property (nearby points down to 1e-9 m, courses within ulps of east-west or of a meridian, end points at/next to the poles, "
         "lon12 = +-180, distances to and up to three quarter meridians beyond the pole, LONG_UNROLL on/off) are solved by the series and exact "
         "variants and by RhumbLine; s12, azi12, lat2, lon2 and S12 must equal the defining expressions evaluated in float128 to round-off "
         "(4 x documented 10 nm + relative eps, condition-number aware), ties must go east, pole-crossing courses must give the continued "
         "latitude with NaN longitude and area, areas must add along a line, and the two variants must agree for |f| <= 0.01. "
         "Held = no monitor fired on the executions observed.",
    note="Trusts libquadmath and the quadrature reference (self-checked each run). Defects of the exact variant found while building the check "
         "are reported under one key each (defect:C09/exact/...) keyed by the code path that contains them, so a run on a tree that still has "
         "them exits 1 unless they are listed in known_findings.json; inside those regimes the exact variant is only screened, the series "
         "variant and the remaining regimes are fully judged.",
    design_ref="DESIGN.md#c09")
