LEVEL = "exploration"
RULE = ("direct: one case = (ellipsoid, lat1, lon1, azi1, length as arc or distance) from the class-labelled generators of C01 "
        "(ellipsoid ladder f in 0..+-0.2 for the series solver, b/a in [0.01,100] for the exact one; polar / near-polar / equatorial starts; "
        "cardinal / near-cardinal / multi-turn azimuths; zero / tiny / near-half-circuit / multi-circuit / negative lengths) plus the directed "
        "catalogue of C01 (quick: every 6th row, offset by the seed; thorough: all 28800 rows); every case is solved through GenDirect and "
        "GenPosition of Geodesic, GeodesicExact and Geodesic(exact=true) with all outputs requested and m12, M12, M21, S12 are compared with "
        "the float128 reference.  inverse: point pairs constructed by the reference from (lat1, azi1, arc < 180 deg, longitudinal extent "
        "< 179.5 deg) so that the reference geodesic is the unique shortest one, plus unconstructed pairs (antipodal region, meridional, "
        "equatorial, polar, coincident) for the self-consistency comparison; GenInverse and InverseLine+GenPosition.  laws: the same direct "
        "generator with split fractions 1e-9, 1/2, 1-1e-9, random.  polygons: 3-8 vertices (random, rings, circumpolar rings, with a pole "
        "vertex, equator-straddling).  distinct = distinct hash of (class, all inputs); self-test cases are counted as trivial")
ASSUMPTIONS = [
    "oracle/ref_geod.hpp (Bessel auxiliary sphere, float128 Gauss-Legendre quadrature; m12/M12/M21 from the J integral, S12 from the area "
    "integral) is the truth; every run re-validates it (selftest section) against (i) the Jacobi ODE + dS = Q dlambda integrated by "
    "Runge-Kutta (oracle/ref_geod.hpp GeodOde), (ii) the verbal definitions of m12, M12, M21 by Richardson-extrapolated finite differences "
    "of reference end points, (iii) S12 = int Q(phi) dlambda by direct graded quadrature of the definition (oracle/ref_geodarea.hpp), "
    "(iv) long double vs float128",
    "tolerance = documented accuracy (Geodesic.hpp table by |f|, GeodesicExact.hpp table by b/a, scaled by a/a_WGS84 resp. quarter "
    "meridian/10000 km) x K (2 series, 4 exact, 8 exact with b/a outside [1/16,16]) x max(1, length/half circuit), in the author's "
    "measures of develop/GeodTest.cpp: |dm12| [m], |dS12|/a [m] after removing c2 x (azimuth error); geodesic scales as |dM| x b [m]",
    "the documented figures are position errors; they are propagated into each quantity with the exact Jacobi-field sensitivities "
    "(dm12/ds2 = M21, dm12/ds1 = -M12, dM12/ds2 = -(1-M12 M21)/m12, dM12/ds1 = K1 m12, d(S12 - c2 alp2)/ds2 = (dlambda/ds)(Q - c2 sin phi)); "
    "the resulting multiplier is 1 (<= 1.05) for |f| <= 0.02 and grows only where Jacobi fields have amplitude >> 1 (very prolate "
    "ellipsoids, |M12| up to 1e4); maxima of the multiplier per ellipsoid bucket are in the evidence",
    "inverse interface: truth comparison additionally carries |dq/dalp1| x T/|m12| (the author's accepted azimuth error err[4]) and is "
    "void where that exceeds 3x the plain tolerance or by the author's rule s12 > a && |m12| < 10 km; the self-consistency comparison "
    "(returned m12/M12/M21/S12 vs the reference geodesic with the returned azi1, s12) has no such exclusion",
    "for geodesics from a pole or exactly along a meridian S12 depends on the documented east/west limiting convention carried by signed "
    "zeros; law residuals for those are taken modulo half the ellipsoid area (counted as events), for all other geodesics strictly",
]
RUNS = [
    dict(harness="harness/C03.cpp", flavour="o2", scale={"quick": 1.0, "thorough": 1.0}),
    dict(harness="harness/C03.cpp", flavour="asan", scale={"quick": 0.05, "thorough": 0.03}, extra_args=["--limit-s", "900"]),
]
MANIFEST = dict(
    technique="runtime oracle monitor (float128 quadrature reference geodesic with self-validated m12/M12/M21/S12 next to every GenDirect / "
              "GenPosition / GenInverse / InverseLine call of the series, exact and exact=true solvers) + law monitors on library outputs "
              "(reversal, the six addition rules at split points, closure of geodesic polygons against the contour integral of the area "
              "1-form evaluated from its definition along reference sides, EllipsoidArea = 4 pi c2, overload/mask identity) + ASan/UBSan build",
    text="Reduced length, geodesic scales and area from the direct, line and inverse interfaces of both solvers are compared on tens of "
         "thousands (quick) to about two million (thorough) segments with the float128 reference, within the documented accuracy x K in the "
         "author's own error measures; reversal, addition and polygon-closure laws are monitored on the library's outputs alone with "
         "tolerances propagated from the per-quantity ones. Held = no monitor fired on the executions observed.",
    note="Trusts oracle/ref_geod.hpp + ref_geodarea.hpp (self-checked each run four independent ways) and the documented position-accuracy "
         "tables as tolerance model; series solver judged for |f| <= 0.2 only; inverse truth comparison void near conjugacy (self-consistency "
         "still judged); inverse results whose returned (azi1, s12) miss point 2 by more than the position tolerance are counted as an event "
         "and left to C02; an S12 error of exactly a multiple of half the ellipsoid area on an exactly meridional geodesic or at an end point "
         "lying on a pole is absorbed by the documented +-180 deg azimuth convention (counted as events).",
    design_ref="DESIGN.md#c03")
