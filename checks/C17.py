LEVEL = "exploration"
RULE = ("three harnesses. C17_proj: one case = (ellipsoid from {WGS84, sphere, f=+-0.01 series, f=+-0.1 and WGS84 via the exact solver, a=1 f=1/150}, "
        "centre incl. poles/equator/+-180, construction parameters): azimuthal-equidistant/gnomonic points are built from the centre by azimuth and "
        "distance (1e-6 m ... antipodal-minus-eps, gnomonic horizon +- 1e-6 m..10 km and +-ulps, beyond the horizon, multi-circuit for Reverse), "
        "Cassini-Soldner points by the two-leg construction (meridian distance y incl. over a pole and near the antipodal meridian point, perpendicular leg x "
        "incl. 0, tiny, near the 90-degree limit, beyond it for Reverse), plus a directed catalogue of singular targets. "
        "C17_intersect: one case = a pair of geodesic lines (random, meridian/equator/polar catalogue, nearly parallel or antiparallel with crossing angle "
        "1e-12..1e-1 from a common point or from separated starts, exactly coincident / reversed, constructed and random segments) pushed through "
        "Closest (p0 = 0 and random offsets), All (maxdist 0 ... 4 circumferences), Next (from the intersection found) and Segment, both overloads. "
        "C17_nn: one case = (metric, dist_t, point-set style, n in 0..5000, bucket 0..maxbucket, one query) with 4-8 (k, maxdist, mindist, exhaustive, tol) "
        "configurations each, every tree also re-queried through 4 serialised copies and attacked with 4-12 corrupted streams. "
        "distinct = distinct hash of (class, all inputs); no trivial cases are counted")
ASSUMPTIONS = [
    "oracle/ref_geod.hpp (float128 / long double quadrature geodesic, self-validated by C01 against an ODE formulation) is the true geodesic; "
    "projection truths are reference rays Newton-corrected onto the exact doubles handed to Forward (residual < 1e-11 m verified per case)",
    "tolerances: documented accuracy of the underlying geodesic solver (Geodesic.hpp / GeodesicExact.hpp tables, scaled by a and by path length / half circuit) "
    "x 2 for the projections in the author's error measures (ground distance; azimuth error x |m12| for inverse-type azimuths, x a for direct-type; |dM12| x a), "
    "x 10 for intersection positions (DESIGN C17), divided by sin(crossing angle) when (x,y) values are compared; conditioning terms are stated next to each residual",
    "intersection certificate: own RK4 integration of the Cartesian geodesic ODE sampled every 20 km + spatial hashing + Newton on the reference geodesics; its "
    "completeness rests on: two distinct intersections differ by >= pi/sqrt(Kmax) in x or in y (Klingenberg injectivity-radius bound) and on the sampling step; "
    "for crossing angles < 1e-4 a cross-track sign-change finder over all lap-shifted branches is used instead",
    "nearest neighbour: the brute-force scan uses the same distance functor as the library (exact integer/float arithmetic for 7 of the 9 metric/type combinations)",
    "coincident lines are judged by membership, the coincidence indicator implied by the reference tangents, and the overlap logic of exactly coincident segments only",
]
EXHAUSTIVE_SUBSPACES = ["n = 0..11 for every metric x point-set style (NearestNeighbor)", "directed projection catalogue: 8 ellipsoids x 8 centre latitudes x 4 centre longitudes x 8 target kinds"]
RUNS = [
    dict(harness="harness/C17_proj.cpp", flavour="o2", scale={"quick": 1.0, "thorough": 1.0}),
    dict(harness="harness/C17_intersect.cpp", flavour="o2", scale={"quick": 1.0, "thorough": 1.0}),
    dict(harness="harness/C17_nn.cpp", flavour="o2", scale={"quick": 1.0, "thorough": 1.0}),
    dict(harness="harness/C17_proj.cpp", flavour="asan", scale={"quick": 0.05, "thorough": 0.02}, extra_args=["--limit-s", "900"]),
    dict(harness="harness/C17_intersect.cpp", flavour="asan", scale={"quick": 0.05, "thorough": 0.03}, extra_args=["--limit-s", "1800"]),
    dict(harness="harness/C17_nn.cpp", flavour="asan", scale={"quick": 0.15, "thorough": 0.05}, extra_args=["--limit-s", "900"]),
]
MANIFEST = dict(
    technique="runtime oracle monitors next to every call: float128/long-double reference geodesic for the three projections and for membership of every reported "
              "intersection; an independent completeness/optimality certificate (own ODE sampling + hashing + Newton on reference geodesics) for Closest/Next/Segment/All; "
              "brute-force linear-scan oracle for every NearestNeighbor::Search; serialisation history monitor and corrupted-stream monitor for Save/Load; law monitors "
              "(round trips, overload equality, sortedness, documented segment indicator); ASan+UBSan build of the same workloads",
    text="Tens of thousands (quick) to about a million (thorough) constructed projection points, ~8k/100k line pairs and ~3k/45k nearest-neighbour histories are executed with "
         "a reference answer computed next to every library call: projected coordinates, azimuths and scales must be those of the reference geodesic (NaN exactly beyond the "
         "gnomonic horizon), every reported intersection must lie on both reference lines and the closest/next/segment/all answers must agree with an independently "
         "computed complete list of intersections in the L1 ball, every Search must return exactly the distances a linear scan finds (documented weaker contracts for "
         "exhaustive=false / tol>0), and every answer must survive Save/Load in text and binary. Held = no monitor fired on the executions observed.",
    note="Trusts oracle/ref_geod.hpp, the documented accuracy figures (x2 projections, x10 intersections) as tolerance model, and the injectivity-radius argument for the "
         "certificate's de-duplication; coincident lines and exhaustive=false/tol>0 searches are judged against their documented (weaker) contracts only; NearestNeighbor::Statistics is excluded.",
    design_ref="DESIGN.md#c17")
