LEVEL = "exploration"
RULE = "draft"
ASSUMPTIONS = []
RUNS = [
    dict(harness="harness/C17_nn.cpp", flavour="o2", scale={"quick": 1.0, "thorough": 1.0}),
    dict(harness="harness/C17_nn.cpp", flavour="asan", scale={"quick": 0.15, "thorough": 0.05}, extra_args=["--limit-s", "900"]),
]
MANIFEST = dict(technique="draft", text="draft", note="draft", design_ref="DESIGN.md#c17")
