LEVEL = "exploration"
RULE = ("one case = one configured projection (ellipsoid x standard parallels x k1 x constructor form) pushed through "
        "the configuration monitors and 10-20 points; directed sections walk the full product ellipsoid ladder "
        "{0,+-1e-8,WGS84,+-0.01,+-0.1,0.5,-1} x a{1,6.4e6} x k1{0.5,0.994,1,3} x a ~90-entry catalogue of standard "
        "parallels (single, pairs 1e-12..170 deg apart, symmetric, one at a pole, sin/cos incl. denormal cosines); "
        "random sections draw ellipsoid, parallels, scale, points, (x,y) from class-labelled generators; one "
        "evaluation = one oracle-checked point / (x,y) / configuration; distinct = distinct hash of (class, config, "
        "inputs); trivial = exception-contract probes and oracle self-tests")
ASSUMPTIONS = ["libquadmath sinq/cosq/expq/expm1q/logq/atanhq/atanq/asinhq/sqrtq accurate to ~1e-33",
               "Snyder's closed forms (PP 1395 eqs 3-12, 14-*, 15-*, 21-33, 24-23, 7-*) define the projections; prolate "
               "ellipsoids by analytic continuation (atan forms)",
               "origin convention y=0 at the latitude of minimum scale is taken from the class documentation and checked",
               "a scale k1 on the standard parallels of the equal-area conic means (n,C)->k1^2(n,C) (only equal-area choice)",
               "ground metric: map error / local scale (Albers: E-W / k, N-S * k after removing 4 eps(|x|+|y|) representation floor)"]
RUNS = [
    dict(harness="harness/C11.cpp", flavour="o2", scale={"quick": 1.0, "thorough": 1.0}),
    dict(harness="harness/C11.cpp", flavour="asan", scale={"quick": 0.1, "thorough": 0.05},
         extra_args=["--limit-s", "300"]),
]
MANIFEST = dict(
    technique="runtime oracle monitor (binary128 Snyder closed forms next to every Forward/Reverse/constructor), law monitors "
              "(round trip, finite-difference Jacobian vs returned gamma/k, standard-parallel scale, constructor equivalence, "
              "SetScale), exception-contract probes; ASan+UBSan build of the same workload",
    text="Every configured PolarStereographic / LambertConformalConic / AlbersEqualArea object (incl. the Mercator, polar, "
         "cylindrical and azimuthal limits and the static singletons) is compared point by point with an independent "
         "binary128 evaluation of the textbook formulas, in ground distance; its OriginLatitude/CentralScale with the "
         "reference latitude of minimum scale; Reverse with the identity and with the reference re-projection of arbitrary "
         "(x,y); gamma and k with the Jacobian of the library's own Forward. Held = no monitor fired on the executions observed.",
    note="Trusts libquadmath and the harness's reading of Snyder; tolerance 10 nm x 4 (scaled by a/a_WGS84) on the ground, "
         "10nm/a x 4 for k and gamma, documented 4.5e-14 deg / 7e-15 x 4 for lat0/k0 inside the documented domain; points "
         "with local scale > 1e8 are judged by round trip only; Albers round trip near a non-apex pole is judged with the "
         "conditioning of the equal-area map.",
    design_ref="DESIGN.md#c11")
