LEVEL = "exploration"
RULE = ("one case = one configured projection (ellipsoid x standard parallels x k1 x constructor form) pushed through the "
        "configuration monitors, 10-20 points and 3-6 arbitrary (x,y); directed sections walk the full product ellipsoid ladder "
        "{0,+-1e-8,WGS84,+-0.01,+-0.1,0.5,-1} x a{1,6.4e6} x k1{0.5,0.994,1,3} x an 86-entry catalogue of standard parallels "
        "(single 0/+-1e-10/+-30/+-89.999999/+-90, pairs 1e-12..170 deg apart about 6 centres, symmetric about the equator, one "
        "at a pole, sin/cos forms incl. cosines down to 5e-324 and unnormalised pairs); random sections draw ellipsoid "
        "(ladder, log-uniform |f| 1e-12..0.3, uniform -2..0.75, a log-uniform 0.1..1e8), parallels, k1 (0.1..10), points "
        "(poles, 1e-13 deg from poles, origin, standard parallels, lon-lon0 incl. 0/+-90/+-180/+-(180-1e-12), lon0 incl. +-180) "
        "and (x,y) (near-image, boxes to 30 a k1, log-radius about origin and about the apex, at/beyond the apex); further "
        "sections: constructor equivalence, SetScale, exception contract, static singletons, extreme ellipsoids, oracle "
        "self-test. one evaluation = one oracle-checked point / (x,y) / configuration / 64-point lattice; distinct = distinct "
        "hash of (class, configuration, inputs); trivial = exception-contract probes and oracle self-tests")
ASSUMPTIONS = ["libquadmath sinq/cosq/expq/expm1q/log1pq/logq/atanhq/atanq/asinhq/sqrtq accurate to ~1e-33",
               "Snyder's closed forms (PP 1395 eqs 3-12, 14-*, 15-*, 21-33, 24-23, 7-*) define the projections; prolate ellipsoids by "
               "analytic continuation (atan forms); differences of q, of sin(phi) and 1-|n| near a pole are formed by exact algebraic "
               "rearrangement (addition theorems) because even binary128 cannot hold them for cosines < 1e-17",
               "origin convention (y=0 at the latitude of minimum scale, scale CentralScale() there) is taken from the class documentation "
               "and checked against OriginLatitude()/CentralScale(); for one polar and one non-polar Albers parallel this is the pole",
               "a scale k1 on the standard parallels of the equal-area conic means (n,C)->k1^2(n,C) (the only equal-area choice)",
               "ground metric: map error / local scale (Albers: E-W / k, N-S * k after removing a representation floor of (16+4 kappa) eps "
               "(|x|+|y|+|rho|), kappa = m0^2/w^2 <= 64 the cancellation factor of the library's own formula)",
               "tolerances: 10 nm x 4 x a/a_WGS84 x eccfac on the ground, eccfac = max(1,(1-f)^2,(1-f)^-2); k: 10nm/a x 4 x eccfac x "
               "(1+|ln k/k0|); gamma likewise x (1+|gamma|); lat0/k0: documented 4.5e-14 deg / 7e-15 x 4 x eccfac inside the documented "
               "domain of the constructor; finite-difference Jacobian 2e-9 + round-off of the differenced outputs",
               "input regimes with an identified defect mechanism (see known findings) are reported under one key regime:C11/<proj>/<regime> each"]
RUNS = [
    dict(harness="harness/C11.cpp", flavour="o2", scale={"quick": 1.0, "thorough": 1.0}),
    dict(harness="harness/C11.cpp", flavour="asan", scale={"quick": 0.1, "thorough": 0.05},
         extra_args=["--limit-s", "300"]),
]
MANIFEST = dict(
    technique="runtime oracle monitor (binary128 Snyder closed forms next to every Forward/Reverse/constructor), law monitors "
              "(round trip, finite-difference Jacobian vs returned gamma/k, standard-parallel scale, constructor equivalence, "
              "SetScale), exception-contract probes; ASan+UBSan build of the same workload",
    text="Every configured PolarStereographic / LambertConformalConic / AlbersEqualArea object (incl. the Mercator, polar, "
         "cylindrical and azimuthal limits and the static singletons) is compared point by point with an independent "
         "binary128 evaluation of the textbook formulas, in ground distance; its OriginLatitude/CentralScale with the "
         "reference latitude of minimum scale; Reverse with the identity and with the reference re-projection of arbitrary "
         "(x,y); gamma and k with the reference and with the Jacobian of the library's own Forward; equivalent constructors with "
         "each other; SetScale with the requested scale. Held = no monitor fired on the executions observed.",
    note="Trusts libquadmath and the harness's reading of Snyder; points with local scale > 1e8 are judged by round trip only; "
         "(x,y) whose longitude difference exceeds 180 deg are judged for range/longitude/k/gamma only; the ConicProj tool is not "
         "exercised here (C10); tolerances scale with eccentricity as stated in the assumptions, so 'about 10 nm' is asserted for "
         "Earth-like ellipsoids and 4x that at f=0.5 or f=-1.",
    design_ref="DESIGN.md#c11")
