LEVEL = "exploration"
RULE = ("one case = (ellipsoid, lat1, lon1, lat2, lon2) solved by the series solver (|f| <= 0.2), GeodesicExact and Geodesic(exact=true) through "
        "Inverse and InverseLine; pairs come from class-labelled generators: constructed (REF produces point 2 from lat1, azi1, a12 with a12 "
        "concentrated at 1e-9 m..1 m and at 180 deg minus 1e-1..1e-12), unconstructed random with special latitudes/longitudes, short lines, "
        "a directed catalogue (antipodes, poles, lon12=180 with lat2=-lat1 +- k ulp, equator pairs near (1-f)180, near-cusp pairs, the historic "
        "regression inputs +-{1,2,5} ulp, prolate analogues) and a 2-D raster of the astroid neighbourhood of the antipodal point per ellipsoid; "
        "class = section/regime/ellipsoid-bucket with regime in {meridional, equatorial, short-line, general, near-antipodal, coincident, polar}; "
        "distinct = distinct hash of (class, all inputs); oracle self-test cases are counted as trivial")
ASSUMPTIONS = [
    "oracle/ref_geod.hpp (float128 / long double quadrature geodesic, self-validated against an ODE formulation by C01) is the true geodesic",
    "oracle/ref_inverse.hpp azimuth scan (>= 3600 rays, all crossings of the target parallel within 1.5 circuits, sign-change + tangential-root refinement, "
    "float128 re-trace whose miss distance is added to the length) finds the shortest joining geodesic; a missed root only weakens the certificate "
    "(counted in the evidence), it cannot raise an alarm; validated each run on constructed pairs (selftest section)",
    "a geodesic with sigma12 < pi and longitudinal extent < 180 deg is the unique shortest path (used for constructed pairs; cross-checked by the scan on a 4 % subsample)",
    "documented accuracy tables of Geodesic.hpp / GeodesicExact.hpp x K_safety (2 series, 4 exact, 8 exact for b/a outside [1/16,16]), scaled by a/a_WGS84 "
    "(series) or quarter-meridian/10000 km (exact); azimuth residuals weighted by |m12| as in the author's GeodTest.cpp",
]
RUNS = [
    dict(harness="harness/C02.cpp", flavour="o2", scale={"quick": 1.0, "thorough": 1.0}),
    dict(harness="harness/C02.cpp", flavour="asan", scale={"quick": 0.05, "thorough": 0.03}, extra_args=["--limit-s", "1200"]),
]
REGIMES = ["meridional", "equatorial", "short-line", "general", "near-antipodal", "coincident", "polar",
           "equatorial-limit", "equatorial-beyond-limit", "near-equator", "near-equator-prolate"]
KNOWN_REGIMES = ["exact/very-prolate-lon180-same-hemisphere", "exact/prolate-near-equatorial", "oblate-equatorial-limit", "very-oblate-near-cusp",
                 "exact/very-oblate-equatorial-just-beyond-limit", "very-oblate-near-equatorial-below-limit", "exact/nearly-coincident-points",
                 "prolate-lon180-lat2-nearly-minus-lat1", "short-line-across-pole-lon12-nearly-180", "exact/prolate-lon12-within-1ulp-of-180"]


def extra(res, tier, seed, workdir):
    """reach guard: every regime named in the property must have been exercised, the global scan must have run and
    the scan oracle must have found the library's own geodesic almost always (otherwise the certificate is hollow)"""
    ev = res.events
    per = {r: ev.get("regime: " + r, 0) for r in REGIMES}
    res.extra["cases_per_regime"] = per
    res.extra["cases_inside_known_defect_regimes"] = {k: ev.get("cases inside known regime " + k, 0) for k in KNOWN_REGIMES}
    res.extra["monitor_failures_inside_known_defect_regimes"] = {k: ev.get("monitor failures inside known regime " + k, 0) for k in KNOWN_REGIMES}
    for r, n in per.items():
        if n == 0:
            res.inconclusive.append("regime %r received no case" % r)
    scans = ev.get("global scans", 0)
    missed = ev.get("global scans that missed the library's (joining) geodesic [exact]", 0)
    void = ev.get("global scans that found no joining geodesic (certificate void)", 0)
    res.extra["scan_certificates"] = dict(scans=scans, missed_library_geodesic_exact=missed, void=void)
    if scans == 0:
        res.inconclusive.append("no global scan was executed")
    elif (missed + void) > 0.02 * scans:
        res.inconclusive.append("scan oracle missed the library's joining geodesic in %d + %d of %d scans (> 2 %%)" % (missed, void, scans))


MANIFEST = dict(
    technique="runtime oracle + law monitors around every Inverse/GenInverse/InverseLine call of 3 solver configurations: reference-geodesic JOIN check, "
              "global azimuth-scan and constructed-pair SHORTEST-path certificates, range monitor, 8-image x lon+-360k SYMMETRY monitor, series/exact agreement; ASan+UBSan build of the same workload",
    text="Tens of thousands (quick) to millions (thorough) of inverse problems over the ellipsoid ladder (series |f|<=0.2, exact b/a in [0.01,100]): every "
         "returned (s12, azi1, azi2, a12) is followed with the float128 reference geodesic and must arrive at point 2 with the stated forward azimuth within "
         "the documented accuracy; no shorter joining geodesic may exist (exhaustive azimuth scan on all directed/astroid cases and a stratified sample, "
         "constructed unique-shortest pairs, chord bounds for short lines, m12 >= 0); a12 in [0,180] and longitudinal extent <= 180; the 8 symmetry images and "
         "lon +- 360k map the outputs as documented (documented alternatives accepted where the shortest path is not unique); series, exact and exact=true agree; "
         "InverseLine reproduces point 2. Held = no monitor fired on the executions observed.",
    note="Trusts the reference geodesic (validated in C01) and the scan's completeness (self-tested per run; scans that miss the library's own geodesic are counted); "
         "tolerances are the documented figures x K_safety; the series solver beyond |f| = 0.2 is not judged.",
    design_ref="DESIGN.md#c02")
