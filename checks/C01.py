LEVEL = "exploration"
RULE = ("one case = (ellipsoid, lat1, lon1, azi1, length as arc or distance, unroll flag) drawn from class-labelled generators "
        "(ellipsoid ladder f in 0..+-0.2 for the series solver and b/a in [0.01,100] for the exact one; polar/equatorial/near-pole starts; "
        "cardinal/near-cardinal/multi-turn azimuths; zero/tiny/near-half-circuit/multi-circuit/negative lengths) plus a directed catalogue; "
        "each case is solved by up to six solver configurations and each result is compared with the float128 reference geodesic; "
        "distinct = distinct hash of (class, all inputs); oracle self-test cases are counted as trivial")
ASSUMPTIONS = ["oracle/ref_geod.hpp (Bessel auxiliary sphere with float128 Gauss-Legendre quadrature of the distance/longitude integrals) is the true geodesic; "
               "it is cross-validated on every run against an independent ODE integration (selftest section) and in two precisions",
               "documented accuracy tables of Geodesic.hpp / GeodesicExact.hpp x K_safety=2, scaled by a/a_WGS84 (series) or quarter-meridian/10000km (exact) and by max(1, path length / half circuit)"]
RUNS = [
    dict(harness="harness/C01.cpp", flavour="o2", scale={"quick": 1.0, "thorough": 1.0}),
    dict(harness="harness/C01.cpp", flavour="asan", scale={"quick": 0.05, "thorough": 0.03}, extra_args=["--limit-s", "600"]),
]
MANIFEST = dict(
    technique="runtime oracle monitor: float128 quadrature reference geodesic evaluated next to every Direct/ArcDirect/GenDirect/GenPosition call of 6 solver configurations; range and longitude-unroll monitors; ASan+UBSan build of the same workload; oracle self-validated against an ODE formulation",
    text="Tens of thousands (quick) to millions (thorough) of direct problems over the ellipsoid ladder, singular starts/azimuths and lengths from 1e-15 deg to 20 circuits of either sign are solved by series, exact, exact=true and line forms; every result must lie on the reference geodesic within the documented accuracy for that flattening (x2). Held = no monitor fired on the executions observed.",
    note="Trusts the float128 reference (self-checked each run against a Runge-Kutta integration of the geodesic ODE) and the documented accuracy figures as the tolerance model; series solver judged up to |f|=0.2 with the documented table, beyond that not judged.",
    design_ref="DESIGN.md#c01")
