LEVEL = "exploration"
RULE = ("C15.cpp: one case = (ellipsoid from the b/a ladder {0.01,0.1,0.5,0.9,149/150,WGS84,1,151/150,1.1,2,10,100} x a in {1,6378137,1e12} or a random one incl. "
        "the axes constructor, one input AuxAngle/latitude from a class-labelled generator (exact 0/45/90, tangents log-uniform from denorm_min to DBL_MAX, "
        "un-normalised (y,x) in all quadrants, +-ulps around specials, multi-turn degrees), one source kind); every case is pushed through all 6 targets x "
        "{exact, series for |f|<=1/150} and judged against the binary128 definition; monotone ladders of 1000 angles; divided differences for 6 separation classes; "
        "Ellipsoid inspectors, wrappers, static conversions; cross-class agreement.  C15_ell.cpp: one case = one (k2, alpha2) object from the ladder "
        "{-1e6,-100,-1,-1e-9,0,1e-9,.5,1-1e-3,1-1e-9,1-1e-15,1}^2 (+alpha2=k2, random, four-argument constructor with k'^2 down to 1e-40) with 4-6 arguments over +-20 periods; "
        "Carlson forms with arguments log-uniform in 1e+-3 ... 1e+-300 and the documented zero / equal patterns.  distinct = hash of (class, ellipsoid or modulus, inputs); "
        "trivial = identity conversions, oracle self-tests, out-of-range probes")
ASSUMPTIONS = ["libquadmath elementary functions are accurate to ~1e-33; adaptive 24-point Gauss-Legendre with |I(panel)-I(halves)| <= 1e-31*magnitude is converged (cross-checked in every run: "
               "quadrature vs closed forms for the zone area and q(phi), two parametrisations of the meridian arc, Boost.Math 1.83 long-double Legendre/Carlson/Jacobi on 0<=k2<=0.999)",
               "accuracy measure: relative error of tan(latitude) <= 16 eps (exact), 24 eps (series, |f|<=1/150), 32 eps for conversion o inverse; degree overloads add 4 ulp of the returned angle",
               "conformal latitude for prolate ellipsoids is judged with the condition number 1+|e|atan(|e| sin phi) of exp() of a rounded exponent (157 at b/a=100)",
               "underflow zone (some |tan| < 1e-290): graceful-underflow tolerance of 16*max((b/a)^2,(a/b)^2) denormal quanta; overflow zone (some |tan|*amplification > 1e290): inf/pole accepted when the true tangent exceeds DBL_MAX",
               "Pi, G, H are judged with the cancellation condition number (|F|+|X-F|)/|X| of the documented R_F + c*R_J combination; elliptic integrals relative 32 eps; "
               "Jacobi functions: |error| <= 16 eps (|value| + |d value/dx| |x|)",
               "quantities formed from the stored rounded e^2 (curvature radii, e'^2, DIsometric) are judged with the condition number e^2/(1-e^2) of that rounding"]
EXHAUSTIVE_SUBSPACES = ["all 36 (from,to) pairs x {exact, series} for every generated input", "all 12 x 3 ladder ellipsoids in the cross-class section"]
RUNS = [
    dict(harness="harness/C15.cpp", flavour="o2", scale={"quick": 1.0, "thorough": 1.0}),
    dict(harness="harness/C15_ell.cpp", flavour="o2", scale={"quick": 1.0, "thorough": 1.0}),
    dict(harness="harness/C15.cpp", flavour="asan", scale={"quick": 0.1, "thorough": 0.05}, extra_args=["--limit-s", "300"]),
    dict(harness="harness/C15_ell.cpp", flavour="asan", scale={"quick": 0.1, "thorough": 0.05}, extra_args=["--limit-s", "300"]),
]
MANIFEST = dict(
    technique="runtime oracle monitors (binary128 defining integrals / closed forms evaluated next to every call), law monitors (round trip, oddness, fixed points, monotone ladders, "
              "Legendre relation, Jacobi identities, Carlson symmetry), cross-class monitors; ASan+UBSan build of the same workload",
    text="Every AuxLatitude / DAuxLatitude / AuxAngle / Ellipsoid / EllipticFunction entry point is executed on class-labelled generated inputs (all 36 conversions x 2 methods over a "
         "12-step b/a ladder and random ellipsoids, tangents from denorm_min to DBL_MAX; k2 and alpha2 ladders from -1e6 to 1 incl. the four-argument constructor; arguments over +-20 periods; "
         "Carlson forms over 600 decades) with a binary128 reference computed from the defining integrals next to each call.  Held = no monitor fired outside the listed known findings on the executions observed.",
    note="Trusts libquadmath, MPFR, Boost.Math (self-test only) and the convergence criterion of the adaptive quadrature; tolerances K in 16..32 eps calibrated on the unchanged tree (observed maxima in evidence).",
    design_ref="DESIGN.md#c15")
