LEVEL = "exploration"
RULE = ("zone_lattice: one case = one latitude value of the integer-degree lattice {edge-1ulp, edge, edge+1ulp, edge+0.5} x 181 edges; inside it "
        "every longitude value of the same lattice (1443) x every setzone in [-5,61] for StandardZone (exhaustive) and Forward for a setzone "
        "subset in quick / every setzone x both mgrslimits in thorough; counted evaluations = (lat,lon) lattice points. Other sections: one "
        "case = one generated (lat, lon, setzone, mgrslimits) / (zone, northp, x, y) / Transfer request / zone string / EPSG code; rectangles: "
        "ring of points at {limit-1ulp, limit, limit+1ulp, limit+-1mm} on all edges and corners of the 8 documented rectangles; forward_edges: "
        "bisection to the acceptance boundary of Forward, then its ulp neighbourhood. distinct = hash of (class, inputs)")
ASSUMPTIONS = [
    "the zone rule, constants (k0 0.9996/0.994, FE 500 km, FN 0/10000 km, UPS 2000 km, central meridian 6z-183), the eight rectangles, the zone-string "
    "grammar and the EPSG table are re-implemented from the standard / the class documentation in harness/C04.cpp (namespace spec)",
    "projection values are judged against ref_tm (float128 Gauss-Krueger, self-validated in C06) and the Snyder closed form for polar stereographic "
    "(oracle/ref_polar.hpp) at 5 nm x K(=4) ground distance; gamma, k by their ground equivalent as in C06",
    "on the exhaustive lattice a float128 evaluation per point is unaffordable: there Forward/Reverse are judged by the decomposition law "
    "(bit-identical to TransverseMercator::UTM() / PolarStereographic::UPS() + standard false origin, acceptance = closed rectangle test on that value); "
    "those two projections are themselves judged against REF in C06 / C11 and in the projection section here",
    "closure (Forward accepts Reverse output) is asserted only for points >= 2 x 5 nm K inside the rectangle, as the class documentation restricts it",
]
EXHAUSTIVE_SUBSPACES = [
    "StandardZone over the integer-degree lattice lat in {-90..90} x lon in {-180..180}, each at {edge-1ulp, edge, edge+1ulp, centre}, x all setzone in [-4,60] and -5, 61 (69.9 M evaluations, both tiers)",
    "thorough tier: Forward over the same lattice x all setzone in [-5,61] x both mgrslimits",
    "DecodeZone over all strings of length <= 4 over the 29-character alphabet {0-9 n s o r t h u i v a l d N S + - space NUL e} (732 541 strings)",
    "DecodeEPSG over all integers in [32590, 32770]; EncodeZone / EncodeEPSG over all zones in [-8, 64] x hemisphere (x abbrev)",
    "Reverse on the ring {limit-1ulp, limit, limit+1ulp, limit+-1mm} x 13 positions per edge incl. corners of all 8 rectangles (x 5 zones for UTM)",
]
RUNS = [dict(harness="harness/C04.cpp", flavour="o2", scale={"quick": 1.0, "thorough": 1.0}),
        dict(harness="harness/C04.cpp", flavour="asan", scale={"quick": 0.1, "thorough": 0.03}, extra_args=["--limit-s", "1200"])]
MANIFEST = dict(
    technique="runtime spec monitor (independent implementation of the UTM/UPS standard next to every call), float128 projection oracle, "
              "decomposition / round-trip / Transfer laws, sentinel monitor on every throwing call; same workload under ASan+UBSan",
    text="UTMUPS::StandardZone is executed on the complete integer-degree lattice with +-1 ulp edge probes for every setzone; Forward, Reverse and "
         "Transfer are executed on that lattice, on random and edge-directed inputs (the eight rectangles, acceptance boundaries located by "
         "bisection) and compared with an independent statement of the standard, with float128 reference projections and with each other; "
         "zone strings (all strings up to length 4) and EPSG codes are decoded against an independent grammar; every throwing call is checked "
         "to leave its outputs untouched and NaN input to give INVALID/NaN. Held = no monitor fired on the executions observed.",
    note="Trusts the re-implemented standard in namespace spec, ref_tm / ref_polar, and (on the exhaustive lattice only) the library's own "
         "TransverseMercator::UTM() and PolarStereographic::UPS() as components.",
    design_ref="DESIGN.md#c04")
