LEVEL = "exploration"
RULE = ("sh: one case = one coefficient set (degree N from {0,1,2,3,8,20,60,200,360}, large ones rarer; normalisation full/Schmidt; style "
        "decay/flat/single non-zero (n,m)/alternating/1e150/1e-150/mixed 1e-30..1e30) evaluated through SphericalHarmonic (full and "
        "truncated nmx<N, mmx<nmx), SphericalHarmonic1/2 (random tau, smaller second/third sets) at 1-3 points (generic, polar axis, "
        "equator, near pole, denormal p, near equator, meridian planes, r from 1e-3 a to 1e6 a), plus one CircularEngine at 32 longitudes; "
        "fieldcomp: one random field+rate vector; magnetic/gravity: one synthetic model file (written under /dev/shm/verif_c19_<pid>) "
        "loaded by the library and evaluated at 1-5 (t,lat,lon,h) incl. poles, epochs, before/after the span, Nmax/Mmax truncation, circles; "
        "normal: one ellipsoid (WGS84, GRS80, random a, GM, omega, f in (-0.5,0.5) incl. 0, J2 form) with 24-100 surface points and 6-12 "
        "space points.  An evaluation = one library result set (value+gradient, or field+rate, ...) compared with the float128 reference; "
        "distinct = distinct hash of (class, coefficients sample, point/time); trivial = empty sums and oracle self-tests.")
ASSUMPTIONS = [
    "libquadmath float128 arithmetic/elementary functions accurate to ~1e-33; REF Legendre table validated at start of every run against the explicit "
    "Ferrers-function definition (n<=12), the addition theorem (n<=360) and float128 central differences",
    "REF normal gravity = Somigliana-Pizzetti closed form (H&M 2-62, 2-73, 2-74, 2-78, 2-90, 2-92); validated in every run: Laplacian ~ 0, "
    "constant on the ellipsoid, |grad U| = Somigliana on the surface, J_n = Legendre projection of the potential (Gauss-Legendre, 96 nodes)",
    "tolerances: value K*eps*sum[(n+1)|term| + |d term/d theta|] (the sum's own condition number incl. an eps-relative rounding of the point; the theta part "
    "dominates next to a zero of P_nm), gradient K*eps*sum (n+2)|gradient term|; for the 1-/2-forms |term| uses |C|+|tau1 C1|+|tau2 C2|.  K = 64 (value), "
    "32 (gradient), 64 (circle vs direct), 16 (models: B, dB/dt, V, W, g; time interpolation weighted by |weights|), 64 (T, delta, geoid height, anomaly: difference of two "
    "fields, J_n parts e^2/3 and rotational term counted separately), 32 (normal gravity, eps * sum of |mass, quadrupole, centrifugal parts|; omega^2 parts x190 for "
    "|e'^2| >= 1/4 where the library's closed expressions for Q, H cancel).  Observed maxima are in evidence.observed_max (typically 3-5x below K)",
    "points with sin(theta) < eps^1.5: the library evaluates at sin(theta) = eps^1.5 (source comment 'avoid the pole'); the change of REF under that displacement "
    "is added to the tolerance",
    "geoid height, spherical anomaly: the documented approximations (manual section gravitygeoid; Dg01 sign as in H&M 2-151c and the code, the manual has a sign typo)",
    "magnetic field before the first epoch: linear extrapolation of the first interval (NumModels>1) or of the secular variation (NumModels=1)",
    "FieldComponents at H = 0 or F = 0: conventions undocumented, only finiteness is checked",
]
EXHAUSTIVE_SUBSPACES = []
RUNS = [
    dict(harness="harness/C19.cpp", flavour="o2", scale={"quick": 1.0, "thorough": 1.0}),
    dict(harness="harness/C19.cpp", flavour="asan", scale={"quick": 0.12, "thorough": 0.05}, extra_args=["--limit-s", "600"]),
]
MANIFEST = dict(
    technique="runtime oracle monitors (float128 term-by-term harmonic sums with explicit Legendre table; closed-form normal gravity) next to every call; "
              "law monitors (gradient = central difference of the library's value, circle = direct, T = W - U, div Gamma = 0, J2<->f round trip); "
              "sentinels on untouched outputs; synthetic model files written by reference writers; ASan+UBSan build of the same workload",
    text="SphericalHarmonic/1/2, CircularEngine, MagneticModel/Circle, GravityModel/Circle (from synthetic .wmm/.egm files with known coefficients) and "
         "NormalGravity are executed on generated coefficient sets, truncations, points (incl. polar axis, equator, denormal p, r from 1e-3 a to 1e6 a), "
         "times and ellipsoids; every returned value, gradient, field component, rate, potential, geoid height and derived constant is compared with an "
         "independent float128 evaluation of the defining expression within K*eps*(condition number of the sum).  Held = no monitor fired on the executions observed.",
    note="Trusts libquadmath and the reference formulas (self-validated in every run); near-axis displacement eps^1.5 of the library is allowed for; "
         "genuine corner-case defects found have their own narrow keys, each restricted to its input regime: coefficient-scaling underflow (sum*2^-614 subnormal), "
         "denormal-p longitude (hypot(x,y) < DBL_MIN), T omitting normal zonals above the model degree, Schmidt-normalised gravity files, J_n NaN for f = 0, "
         "T-with-gradient when ModelMass != ReferenceMass (fixed in /repo).",
    design_ref="DESIGN.md#c19")
