LEVEL = "exploration"
RULE = ("one case = one (class, ellipsoid, k0, lon0, lat, lon) or (class, ellipsoid, k0, lon0, x, y): class in {series, exact, "
        "exact-extendp, TransverseMercator(exact=true[,extendp])}; ellipsoid from the ladder f in {0, +-1e-6, +-WGS84, +-1/150, +-0.01, "
        "+-0.02, +-0.05} (series), {1e-6..0.1} (exact) plus the strongly flattened rungs {0.15,0.2,0.3,0.5,0.9} (own keys), random f, "
        "a in {1, 6378137, 6.4e6, 1e12}, k0 in {0.5, 0.9996, 1, 2}, the UTM() singletons; points stratified by |lon-lon0| "
        "(<=35, 35-75, 75-branch point, beyond it, far side, the cut, the sheet beyond the cut with extendp), latitudes with extra "
        "mass at the equator and poles, lon0 incl. +-180 and UTM meridians; a directed catalogue of singular inputs always runs. "
        "Every case gets: REF Gauss-Krueger (float128 path integral) for x, y, gamma, k of Forward and, through REF's derivative, of "
        "Reverse(Forward); Reverse o Forward; bit-exact parity / lon0-shift / 360k-wrap laws. Further sections: Reverse on independent "
        "(x,y) judged by REF at the returned point; gamma,k versus a Richardson finite-difference Jacobian of the library's own Forward; "
        "delegation / extendp equivalence; oracle self-validation. distinct = hash of (class, ellipsoid, inputs); trivial = self-test "
        "cases and Jacobian points rejected by the generator")
ASSUMPTIONS = [
    "libquadmath elementary functions are accurate to ~1e-33; ref_tm's adaptive Gauss-Legendre agrees between successive levels to 1e-26 a",
    "ref_tm is validated at run time: zeta-plane vs q-plane quadrature, path independence (Cauchy), long double vs float128, "
    "Cauchy-Riemann residual, spherical closed form, meridian identity, reverse(forward), far-side reflection (failure => exit 2)",
    "tolerances: position K=4 x documented (5 nm series within 35 deg / 8 nm exact), scaled by a/6378137, as ground distance (error / k); "
    "series outside |f|<=WGS84-like or 35 deg: + C a |n|^7 cosh(14 eta')/(1-r) with C = 12 (forward), 6 (reverse) calibrated once on the "
    "unchanged tree (observed maxima 7.5, 3.6), judged only while |dlon|<=75 deg and r=|n|exp(2 eta')<=0.3",
    "the documented convergence accuracy (2e-15 arcsec) is below binary64 resolution; gamma and k are judged by their ground equivalent: "
    "position tolerance / (nu cos phi) x |sin(complex latitude)| + 16 eps (gamma), + 4 x 6e-14 (k), + calibrated series tail",
    "Reverse is judged through REF's own derivative (first-order Taylor about the forward point; second-order term < 1e-20 relative)",
    "Jacobian monitor: Richardson two-step central differences (2e-4 deg), tolerance 1.5e-9/cos(lat); skipped within 0.02 rad of the branch point and for k/k0>=50",
    "exact class with f>=0.1 (not 'ellipsoids used in terrestrial geodesy') and the continued sheet at k/k0>20 (by the returned k or by the spherical lower bound cosh(x/(a k0))>20) report under separate narrow keys",
    "GEOGRAPHICLIB_PANIC hook: a silent Newton non-convergence (zetainv / sigmainv / tauf) during a judged call is a violation hook:C06/panic/<site>; "
    "in the large-f / extendp-high-scale regimes, and within 2e-8 deg of the branch point (lead decision), it is only counted",
    "the sign convention of y at lat = +-0 on the far side is not documented; it is only required to be the same in the series and the exact class",
]
EXHAUSTIVE_SUBSPACES = []
RUNS = [dict(harness="harness/C06.cpp", flavour="o2", scale={"quick": 1.0, "thorough": 1.0}),
        dict(harness="harness/C06.cpp", flavour="asan", scale={"quick": 0.1, "thorough": 0.03}, extra_args=["--limit-s", "300"])]
MANIFEST = dict(
    technique="runtime oracle monitor (float128 Gauss-Krueger by analytic continuation, evaluated next to every call), law monitors "
              "(round trip, bit-exact parity / wrap / delegation), finite-difference Jacobian monitor, convergence-failure hook monitor; same workload under ASan+UBSan",
    text="TransverseMercator (series) and TransverseMercatorExact (with and without extendp, and through TransverseMercator(exact=true)) are "
         "executed on stratified points over an ellipsoid / scale / central-meridian ladder; each Forward and Reverse result is compared "
         "with an independent definition-based reference (complex path integral of the meridian-distance derivative, validated at run time) "
         "as ground distance, convergence and scale, and with conformality of the library's own Jacobian. Held = no monitor fired on the "
         "executions observed.",
    note="Trusts libquadmath, the self-validated ref_tm, and the calibrated 7th-order truncation constants for the series class off WGS84. "
         "Series results beyond 75 deg / r>0.3 and REF-less points (within 0.5 deg of the branch point) are only checked by laws.",
    design_ref="DESIGN.md#c06")
