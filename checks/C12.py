LEVEL = "exploration"
RULE = ("one case = one base problem: a direct problem (ellipsoid, lat1, lon1, azi1, length as arc or distance) / an inverse problem (two points) / a rhumb "
        "problem, drawn from the class-labelled C01 generators (ellipsoid ladder f in 0..+-0.2 for the series solver, b/a in [0.01,100] for the exact one; "
        "polar/equatorial/near-pole starts; cardinal/multi-turn azimuths; zero/tiny/half-circuit/multi-circuit/negative lengths; coincident, meridional, "
        "equatorial, antipodal, near-antipodal end points) plus directed catalogues; every base problem is expanded over the complete configuration "
        "lattice (see exhaustive_subspaces) for each solver {Geodesic, GeodesicExact, Geodesic(exact=true)} / {Rhumb series, Rhumb exact}; "
        "distinct = distinct hash of (class, all inputs of the base problem); the number of library calls judged is in events")
ASSUMPTIONS = ["vh::sentinel(k) NaN payloads are never produced by the library's arithmetic, so an output still holding one was not written",
               "reference value of every output = the same solver's value under mask ALL on an ALL-capabilities object (the property is a consistency law; absolute accuracy is C01/C02)",
               "round-off allowance of the value monitor: 8 eps x natural scale for s12/m12/M12/M21/S12 (observed 0), bit-exact for lat2/lon2/azi/a12",
               "two-route comparisons (arc vs distance, InverseLine third point vs input point 2) use the documented accuracy x K (2 series, 4 exact, 8 exact with b/a outside [1/16,16]) x max(1, length / half circuit), as C01"]
EXHAUSTIVE_SUBSPACES = [
    "per direct base problem and solver: all 2^7 output masks x LONG_UNROLL on/off x arcmode {false,true} for GenDirect and for GenPosition on an ALL-capabilities line",
    "per direct base problem and solver: all 2^7 capability sets x DISTANCE_IN on/off for lines (both constructors), each queried in both arcmodes with masks ALL, ALL|LONG_UNROLL and two random masks; SetDistance/SetArc/GenSetDistance conventions on each",
    "section 'full': the complete product 256 capability sets x 256 masks x 2 arcmodes x 3 solvers per base problem",
    "per inverse base problem and solver: all 2^7 output masks x LONG_UNROLL on/off for GenInverse",
    "per rhumb base problem: all 2^8 masks over bits 7-10,12-15 for Rhumb::GenDirect, Rhumb::GenInverse, RhumbLine::GenPosition, series and exact",
    "every inline overload: Direct x6, ArcDirect x7, Inverse x7, Position x6, ArcPosition x7 (each solver), Rhumb::Direct x2, Rhumb::Inverse x2, RhumbLine::Position x2",
]
RUNS = [
    dict(harness="harness/C12.cpp", flavour="o2", scale={"quick": 1.0, "thorough": 1.0}),
    dict(harness="harness/C12.cpp", flavour="asan", scale={"quick": 0.05, "thorough": 0.04}, extra_args=["--limit-s", "900"]),
]
MANIFEST = dict(
    technique="runtime sentinel + value-equality monitors on every output argument over the exhaustively enumerated mask x capability x arcmode x solver x overload lattice; NaN-return, third-point history and arc/distance duality monitors; stack-pattern monitor for uninitialised reads; ASan+UBSan build of the same workload",
    text="Each base problem (thousands per run, all geometric regimes and the ellipsoid ladder) is solved under every output mask, every line capability set, both length modes, every inline overload and all three geodesic solvers plus both rhumb solvers. Every output argument is pre-filled with a sentinel: unrequested / capability-less outputs must be untouched, requested ones must equal the ALL-mask value (bit-exact for angles and a12, 8 eps for lengths/scales/areas; observed differences are 0). Lines that cannot locate the point must return NaN and set nothing; SetDistance/SetArc/DirectLine/ArcDirectLine/InverseLine third points must reproduce their defining end point; arc- and distance-specified positions must coincide to the documented accuracy. Held = no monitor fired on the executions observed.",
    note="A consistency property: the reference is the library's own ALL-mask value, so a defect that shifts every mask equally is invisible here (C01/C02 judge absolute accuracy). Default-constructed lines are built by placement new into pattern-filled storage to model arbitrary previous memory contents.",
    design_ref="DESIGN.md#c12")
