LEVEL = "exploration"
RULE = ("one case = one operation HISTORY (1..400 operations over AddPoint, AddEdge, TestPoint, TestEdge, Compute x all four (reverse,sign), Clear, "
        "CurrentPoint, NumberPoints) on one (back end, ellipsoid, polygon|polyline): back ends PolygonArea(Geodesic), PolygonAreaExact(GeodesicExact), "
        "PolygonArea(Geodesic exact=true), PolygonAreaRhumb(series) and PolygonAreaRhumb(exact=true); ellipsoids from the ladder of each back end's "
        "documented range (series |f|<=0.2, exact b/a in [0.01,100], rhumb series |f|<=0.01, rhumb exact b/a in [0.25,4]; a in {1, WGS84, 1e12}); vertices "
        "from 13 class-labelled shape generators (regular small/large, irregular, pole-enclosing incl. winding 2, straddling lon 0/+-180/+-360, "
        "longitudes exactly 0,-0,+-180,+-360,+-540,+-720, pole vertices, repeated vertices / zero-length edges, AddEdge wrapping up to 3 circuits, "
        "equator/meridian edges, nearly antipodal, random edge walks, sub-millimetre polygons), mixed AddPoint / AddEdge construction, queries "
        "interleaved at random density, Clear between shapes.  Sections: selftest (oracle only, counted trivial), directed (all triangles over 12 special "
        "longitudes x 6 latitude patterns x 5 back ends x {points, edges}), matrix (every back end x shape x mode), history (random), meta "
        "(library-only metamorphic relations on AddPoint polygons with grid longitudes).  distinct = hash of (class, back end, ellipsoid, mode, every "
        "operation's inputs).")
ASSUMPTIONS = [
    "AREA oracle: A == oint -c^2 sin(xi) dlam + 2 pi c^2 W (mod 4 pi c^2) (Stokes on the authalic sphere), evaluated edge by edge by adaptive Gauss-Legendre "
    "quadrature in long double along the REFERENCE geodesic of oracle/ref_geod.hpp (hemispheric gauges, no S12 formula, no crossing counter); validated every run "
    "(selftest) against ref_geod's independent S12 integral, against float128, against the Gauss-Bonnet turning-angle formula on the sphere and against "
    "closed forms (equator-equator-pole triangle = c^2 dlon; rhumb quadrilateral between parallels = c^2 (sin xi2 - sin xi1) dlon)",
    "EDGES between AddPoint vertices / closing edges: long double Newton iteration on the reference DIRECT geodesic until it meets the second vertex (residual <= 2e-11 m); "
    "the result is PROVED to be the unique shortest geodesic when its length is below the injectivity radius (pi b oblate, pi a^2/b prolate); longer edges use the "
    "shortest of all candidates found from several seeds (spherical guess, GeodesicExact's azimuth as a HINT, mirror images) - every candidate is verified by the "
    "reference, near-ties are excluded as 'nearly antipodal / not unique', and a sample (2-5%) is certified with the global azimuth scan of oracle/ref_inverse.hpp; "
    "what is trusted there is only that no still shorter geodesic was missed",
    "AddEdge edges are known by construction (reference direct solution from the stored vertex); the vertex stored by the library (CurrentPoint) is the next vertex of "
    "the model and the nm-size jog between the reference end point and it is closed explicitly so that the reference curve is closed",
    "RHUMB edges: oracle/ref_rhumb.hpp (agent c09) in long double: closed-form isometric latitude, meridian distance and area integral by quadrature; pole vertices by the "
    "documented limit (meridian, S12 = +-c^2 dlon); edges between exactly opposite meridians and pole-to-opposite-pole edges are 'not unique' and excluded",
    "tolerances: per edge documented position accuracy of the back end (Geodesic.hpp table for |f|, GeodesicExact.hpp table for b/a, scaled with a resp. quarter meridian; "
    "rhumb: 15 nm x a/a_WGS84 + 8 eps max(s, a dlon)) x K (2 series, 4 exact and rhumb, 8 for b/a outside [1/16,16]) x max(1, length / half circuit); area = that x authalic "
    "radius (= 0.096 m^2 per vertex on WGS84, the documented 0.1 m^2) x conditioning max(1, tan(sigma12/2)) for inverse edges longer than a quarter circuit; + 2 ulp(area0); "
    "Test* vs add-then-Compute: 4 eps (sum|S12| + area0) and 4 eps perimeter; exact relations: 1 ulp(area0) (4 for Test*)",
    "non-mutation is observed through a twin object that receives only the mutating operations and through a fresh object rebuilt from the model (bit-exact comparison)",
    "four KNOWN-defect regimes, decided from (back end, ellipsoid, the polygon's edges) only and checked in this fixed order, collect every oracle:/law: failure under one key each "
    "(monitor name in detail.monitor): (1) regime:C08/rhumb-exact/edge-with-nonzero-latitude-below-1e-290deg (Rhumb exact=true, an edge end with 0<|lat|<1e-290 deg); "
    "(2) regime:C08/rhumb-exact/prolate-ellipsoid-edge-near-equator-same-side (Rhumb exact=true, f<0, an edge with different latitudes on one side of the equator whose predicted accuracy loss "
    "eps*length/|lat_min| exceeds 1/20 of its tolerance; always for latitude 0); (3) regime:C08/geod-exact/strongly-prolate-ellipsoid-near-equatorial-nearly-antipodal-inverse-edge (GeodesicExact or "
    "Geodesic(exact=true), f<-0.2, an inverse edge with both latitudes within 1e-3 deg of the equator, not both 0, and longitudes more than 120 deg apart); (4) regime:C08/geod-exact/strongly-oblate-ellipsoid-inverse-edge-within-1e-8deg-of-equator "
    "(f>0.5, an inverse edge with both latitudes within 1e-8 deg of the equator, not both 0); outside them the normal keys apply; history:/sentinel: monitors are never re-keyed",
    "rhumb AddEdge/TestEdge from a pole vertex and rhumb courses that come within 1e-7 deg (rectifying latitude) of a pole are not issued (documented NaN longitude, property C09)",
]
RUNS = [
    dict(harness="harness/C08.cpp", flavour="o2", scale={"quick": 1.0, "thorough": 1.0}, extra_args=["--limit-s", "600"]),
    dict(harness="harness/C08.cpp", flavour="asan", scale={"quick": 0.1, "thorough": 0.05}, extra_args=["--limit-s", "1800"]),
]
MANIFEST = dict(
    technique="runtime history monitor: sequential model + reference closed-curve oracle (authalic 1-form along float80/float128 reference geodesics and rhumb lines) evaluated next to "
              "every Compute/TestPoint/AddEdge of five polygon back ends; exact reverse/sign relations; twin-object and fresh-rebuild bit-exact comparisons; output sentinels; "
              "library-only metamorphic relations; ASan+UBSan build of the same workload",
    text="Thousands (quick) to >100k (thorough) random edit histories and a directed catalogue of triangles on the meridians 0/+-180/+-360/720 are executed on PolygonArea, "
         "PolygonAreaExact, PolygonArea(exact geodesic) and PolygonAreaRhumb (series, exact), polygon and polyline.  After every Compute the perimeter must equal the sum of the "
         "reference edge lengths and the area the line integral of the authalic area form along the reference edges (mod the ellipsoid area), within the documented accuracy; the four "
         "(reverse,sign) outputs must be complements/negations of each other to 1 ulp; TestPoint/TestEdge must equal copy-add-Compute to round-off and must not change the object; "
         "Clear must give a fresh object bit for bit; polylines must leave the area argument untouched; rotating the first vertex, reversing, shifting longitudes, adding 360k, "
         "cutting along a diagonal and nudging a pole vertex must change the result only as documented.  Held = no monitor fired on the executions observed.",
    note="Trusts oracle/ref_geod.hpp (self-validated), oracle/ref_polygon.hpp (1-form quadrature, self-validated four ways each run), oracle/ref_rhumb.hpp, and for edges longer "
         "than the injectivity radius that the shortest geodesic is among the verified candidates (sampled global scans).  Nearly antipodal / opposite-meridian rhumb edges are excluded "
         "from the uniqueness-dependent monitors only.  Negative AddEdge distances are not generated.",
    design_ref="DESIGN.md#c08")
