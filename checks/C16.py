LEVEL = "exploration"
RULE = ("f32sweep: one case = a block of 2^20 consecutive binary32 bit patterns (every 256th pattern in quick, "
        "all 2^32 in thorough) pushed through every one-argument Math:: function; other sections: one case = one "
        "generated argument (pair / history) from a class-labelled generator (multiples of 30/45/90 +-ulps, every "
        "binade, subnormals, huge, specials); distinct = distinct hash of (class, inputs); trivial = non-finite pairs")
ASSUMPTIONS = ["MPFR (2200-bit) sums/differences/remainders of doubles are exact", "libquadmath sinq/cosq/atan2q are accurate to ~1e-33",
               "glibc double sin/cos/atan2 are accurate to <1e-15 relative (used only as truth for binary32 results)",
               "Accumulator *= int is exercised only with +-2^k as its documentation requires"]
EXHAUSTIVE_SUBSPACES = ["thorough tier: all 2^32 binary32 arguments of AngNormalize, LatFix, AngRound, sind, cosd, tand, sincosd"]
RUNS = [
    dict(harness="harness/C16.cpp", flavour="o2", scale={"quick": 1.0, "thorough": 1.0}),
    dict(harness="harness/C16.cpp", flavour="asan", scale={"quick": 0.1, "thorough": 0.05},
         extra_args=["--limit-s", "600"]),
]
MANIFEST = dict(
    technique="runtime oracle monitors (MPFR-exact / binary128 reference next to every call), bit-exact law monitors, accumulator history model; ASan+UBSan build of the same workload",
    text="Every Math:: angle primitive is executed on all 2^32 binary32 arguments (thorough; every 256th in quick) and on millions of structured binary64/x87 arguments with an exact (MPFR) or 113-bit reference evaluated next to each call; Accumulator is driven through random operation histories against an exact model. Held = no monitor fired on the executions observed.",
    note="Trusts MPFR, libquadmath and glibc libm as reference; 'couple of ulp' fixed at 2 ulp (sin/cos), 4 ulp (tan, atan2); Accumulator judged on its two-word content read by peeling through the public interface.",
    design_ref="DESIGN.md#c16")
