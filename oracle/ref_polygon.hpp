// Reference model for polygon area / perimeter on an ellipsoid of revolution (no GeographicLib code).
//
// AREA.  On the authalic sphere (radius c, authalic latitude xi) the area form is c^2 cos(xi) dxi dlam, so for
// any closed curve (counter-clockwise positive)
//        A  ==  oint -c^2 sin(xi) dlam  +  2 pi c^2 W      (mod 4 pi c^2),     W = winding of the longitude,
// because c^2 (1 - sin xi) dlam is a smooth 1-form away from the south pole whose exterior derivative is the area
// form.  Here the line integral is evaluated edge by edge ALONG THE REFERENCE GEODESIC of oracle/ref_geod.hpp
// with adaptive Gauss-Legendre quadrature in the arc length sigma of the auxiliary sphere,
//        dlam/dsigma = (1-f) sqrt(1 + k2 sin^2 sigma) sin(alp0) / cos^2(beta)            (Clairaut + ds = b w dsigma)
//        sin(xi)     = q(phi)/q(pi/2),   q(phi) = sin(phi)/(1 - e2 sin^2 phi) + atanh(e sin phi)/e
// The integrand is singular at the poles, so each edge is cut at its equator crossings and on every piece the
// regular "hemispheric gauge" is used:  int -sin(xi) dlam = int (h - sin xi) dlam - h * (lam_end - lam_start),
// h = +1 north / -1 south; (1 - |sin xi|)/cos^2(beta) is evaluated without cancellation.  Neither the S12
// formula of the library nor of ref_geod (the I4 integral) nor any crossing counter is used; ref_geod's own S12 is
// available as a cross-check of this file (both must agree: self-test of the harness).
//
// EDGES.  ref_inverse_newton: 2-D Newton iteration on (azimuth, arc) of the reference DIRECT solution until it hits
// the second vertex (Jacobian from the reduced length m12 and the scale w2), seeded from a spherical guess or from a
// caller-supplied seed.  A converged result is *a* geodesic joining the points; it is certified to be THE shortest
// one when its length is below the injectivity radius of the ellipsoid (Klingenberg: min(pi/sqrt(Kmax), half the
// shortest closed geodesic) = pi*b for oblate, pi*a^2/b for prolate ellipsoids).
#pragma once
#include "oracle/ref_geod.hpp"

namespace ref {

// ---------------------------------------------------------------- adaptive Gauss-Legendre
template <class T, class F> inline T adapt_gl_rec(F& f, T a, T b, T whole, T tol, int depth, long& evals) {
  const GL<T>& g = gl<T>(16);
  T m = (a + b) / 2, l = g.panel(f, a, m), r = g.panel(f, m, b); evals += 32;
  T two = l + r;
  // accept on the absolute target or at the round-off floor of the panel values themselves
  if (depth <= 0 || fabs(two - whole) <= tol + 32 * eps_of<T>::v() * (fabs(l) + fabs(r))) return two;
  return adapt_gl_rec(f, a, m, l, tol / 2, depth - 1, evals) + adapt_gl_rec(f, m, b, r, tol / 2, depth - 1, evals);
}
template <class T, class F> inline T adapt_gl(F&& f, T a, T b, T wmax, T tol, long* nevals = nullptr) {
  if (a == b) return 0;
  T L = b - a; long np = (long)(double)ceil(fabs(L) / wmax); if (np < 1) np = 1;
  const GL<T>& g = gl<T>(16);
  T s = 0, h = L / np; long ev = 0;
  for (long i = 0; i < np; ++i) {
    T x0 = a + i * h, x1 = i + 1 == np ? b : a + (i + 1) * h;
    T w = g.panel(f, x0, x1); ev += 16;
    s += adapt_gl_rec(f, x0, x1, w, tol / np, 14, ev);
  }
  if (nevals) *nevals += ev;
  return s;
}

// ---------------------------------------------------------------- authalic latitude
template <class T> struct Authalic {
  T e2, f1, ae, qp;       // qp = q(pi/2)
  explicit Authalic(const Ell<T>& E) : e2(E.e2), f1(E.f1) {
    ae = sqrt(fabs(e2));
    qp = 1 / (f1 * f1) + (e2 == 0 ? (T)1 : e2 > 0 ? atanh(ae) / ae : atan(ae) / ae);
  }
  // 1 - |sin xi| from the reduced latitude (|sin beta|, cos beta >= 0), no cancellation near the poles
  T gap(T sbet_abs, T cbet) const {
    T h = hypot(sbet_abs, f1 * cbet), x = sbet_abs / h, c = f1 * cbet / h;   // sin, cos of the geographic latitude
    T d = c * c / (1 + x);                                                 // 1 - sin(phi)
    T e2m = f1 * f1;                                                         // 1 - e2, and 1 - e2 x^2 = e2m + e2 c^2, 1 - e2 x = e2m + e2 d (no cancellation for e2 -> 1)
    T w2 = e2 > 0 ? e2m + e2 * c * c : 1 - e2 * x * x, w1 = e2 > 0 ? e2m + e2 * d : 1 - e2 * x;
    T t1 = d * (1 + e2 * x) / (e2m * w2);
    T arg = ae * d / w1;
    T t2 = e2 == 0 ? d : e2 > 0 ? atanh(arg) / ae : atan(arg) / ae;
    return (t1 + t2) / qp;
  }
  // sin xi from the geographic latitude in degrees
  T sinxi_deg(T lat) const {
    T s, c; sincosd<T>(lat, s, c);
    T q = s / (e2 > 0 ? f1 * f1 + e2 * c * c : 1 - e2 * s * s) + (e2 == 0 ? s : e2 > 0 ? atanh(ae * s) / ae : atan(ae * s) / ae);
    return q / qp;
  }
};

// ---------------------------------------------------------------- one edge of the reference curve
template <class T> struct EdgeRef {
  bool ok = false;
  T lat1 = 0, lon1 = 0;     // start of the edge (deg)
  T lat2 = 0, lon2 = 0;     // REF end of the edge (deg), lon2 = lon1 + true longitude change (unrolled)
  T azi1 = 0, azi2 = 0;     // deg
  T s12 = 0, a12 = 0;       // length (m), arc (deg)
  T I = 0;                  // int over the edge of  -sin(xi) dlam   (radians); area contribution = c2 * I
  T dlam = 0;               // continuous longitude change (radians)
  T S12geod = 0;            // ref_geod's own S12 (independent formula), for cross-checks; = -c2 * I
  T m12 = 0;
  T resid_m = 0;            // inverse: distance between the REF end point and the requested vertex
  int iters = 0, seed_used = 0;
  bool certified = false;   // proved to be the unique shortest geodesic (length < injectivity radius)
};

template <class T> inline T injectivity_radius(const Ell<T>& E) { return E.f >= 0 ? pi<T>() * E.b : pi<T>() * E.a * E.a / E.b; }

// int -sin(xi) dlam and the longitude change along the reference geodesic L from its start over the arc sig12 (rad)
template <class T> inline void geod_edge_form(const GeodLine<T>& L, const Authalic<T>& Au, T sig12, T& I, T& dlam, long* nevals = nullptr) {
  const T PI = pi<T>();
  T sa = L.sig1, sb = L.sig1 + sig12;
  I = 0; dlam = 0;
  if (sig12 == 0) return;
  int dir = sig12 > 0 ? 1 : -1;
  // longitude (relative to the node sigma = 0, east-going representation) as a function of sigma, accumulated piecewise
  // omega - sigma at a point of the geodesic: exact (sin, cos) pairs at the two ends (pole-safe, as in ref_geod), 0 at the nodes
  T sd = sin(sig12), cd = cos(sig12);
  T ssE = L.ssig1 * cd + L.csig1 * sd, csE = L.csig1 * cd - L.ssig1 * sd;
  T domA = L.domega(L.ssig1, L.csig1), domB = L.domega(ssE, csE);
  T salp0 = L.salp0, calp0 = L.calp0, k2 = L.k2, f1 = L.E.f1;
  auto G = [&](T s) {      // (1 - |sin xi|) dlam/dsigma   (east-going representation, >= 0)
    T sn = sin(s), cn = cos(s);
    T cb2 = salp0 * salp0 + calp0 * calp0 * cn * cn, cb = sqrt(cb2), sb_ = fabs(calp0 * sn);
    T w = sqrt(1 + k2 * sn * sn);
    return Au.gap(sb_, cb) * f1 * w * salp0 / cb2;
  };
  T cur = sa;
  T tol = 8 * eps_of<T>::v();
  // equator crossings (nodes sigma = k pi) strictly between sa and sb, walked with an integer index (no stalling on rounding)
  long kn = (long)(double)floor(sa / PI);
  if (dir > 0) { ++kn; while ((T)kn * PI <= sa) ++kn; } else { while ((T)kn * PI >= sa) --kn; }
  while (cur != sb) {
    T nxt = (T)kn * PI; bool atnode = true;
    if (dir > 0 ? nxt >= sb : nxt <= sb) { nxt = sb; atnode = false; }
    kn += dir;
    T mid = (cur + nxt) / 2;
    T h = sin(mid) >= 0 ? 1 : -1;                 // hemisphere of this piece (calp0 >= 0)
    // longitude change over the piece
    T dl = (nxt - cur) + ((atnode ? (T)0 : domB) - (cur == sa ? domA : (T)0)) - L.E.f * salp0 * L.I3(cur, nxt);
    // (omega - sigma) is exactly 0 at the nodes sigma = k pi
    T piece = 0;
    if (salp0 != 0) piece = adapt_gl<T>(G, cur, nxt, L.wmax < PI / 8 ? L.wmax : PI / 8, tol, nevals);
    // int -sin xi dlam = h * int (1-|sin xi|) dlam - h * dl     [ (h - sin xi) = h (1 - |sin xi|) in hemisphere h ]
    I += L.sgn * (h * piece - h * dl);
    dlam += L.sgn * dl;
    cur = nxt;
  }
}

// edge given by start point, azimuth and length (metres) or arc (degrees)
template <class T> inline EdgeRef<T> geod_edge_direct(const Ell<T>& E, const Authalic<T>& Au, T lat1, T lon1, T azi1, bool azi_negzero,
                                                     bool arcmode, T len, long* nevals = nullptr) {
  EdgeRef<T> e; e.lat1 = lat1; e.lon1 = lon1; e.azi1 = azi1;
  GeodLine<T> L(E, lat1, azi1, azi_negzero);
  GeodPos<T> P = arcmode ? L.at_arc(len) : L.at_dist(len);
  e.lat2 = P.lat2; e.azi2 = P.azi2; e.s12 = P.s12; e.a12 = P.a12; e.S12geod = P.S12; e.m12 = P.m12;
  geod_edge_form(L, Au, P.a12 * deg<T>(), e.I, e.dlam, nevals);
  e.lon2 = lon1 + e.dlam / deg<T>();
  e.ok = true; e.certified = false;
  return e;
}

// meridian edge to / from a pole vertex, zero-length edges and coincident poles (no Newton needed)
// returns true if the pair was handled here
template <class T> inline bool geod_edge_special(const Ell<T>& E, const Authalic<T>& Au, T lat1, T lon1, T lat2, T lon2, EdgeRef<T>& e) {
  (void)Au;
  bool p1 = fabs(lat1) == 90, p2 = fabs(lat2) == 90;
  if (!(p1 || p2)) return false;
  e = EdgeRef<T>(); e.lat1 = lat1; e.lon1 = lon1; e.resid_m = 0;
  if (p1 && p2) {
    if (lat1 != lat2) return false;                 // pole to opposite pole: not unique (caller flags it)
    e.lat2 = lat2; e.lon2 = lon1; e.ok = true; e.certified = true; return true;      // same pole: zero length, the caller's jog term does the rest
  }
  // the edge is the meridian of the non-polar end; curve bookkeeping: the edge starts at (lat1, lonM) and ends at (lat2, lonM)
  T lonM = p2 ? lon1 : lon2;
  T latn = p2 ? lat1 : lat2, latp = p2 ? lat2 : lat1;
  GeodLine<T> L(E, latn, latp > 0 ? (T)0 : (T)180);
  // azi = 0: sig1 = beta1, north pole at sigma = pi/2.  azi = 180: csig1 = -cbet1, sigma increases towards the south pole at
  // 3pi/2 (northern start, sig1 in (pi/2, pi]) or -pi/2 (southern start, sig1 in [-pi, -pi/2))
  T sig1 = L.sig1, sigp = latp > 0 ? pi<T>() / 2 : (sig1 > 0 ? 3 * pi<T>() / 2 : -pi<T>() / 2);
  T len = E.b * L.I1(sig1, sigp);
  e.s12 = fabs(len); e.a12 = fabs(sigp - sig1) / deg<T>();
  e.lon1 = lonM; e.lon2 = lonM; e.lat2 = lat2; e.I = 0; e.dlam = 0;
  e.azi1 = p2 ? (latp > 0 ? 0 : 180) : (latp > 0 ? 180 : 0);
  e.ok = true; e.certified = true;          // a meridian from a pole is the unique shortest path to every point but the opposite pole
  return true;
}

// Newton on the direct problem.  lat1, lat2 in degrees (not poles), lon12 = lon2 - lon1 reduced to [-180,180] (deg).
// seeds: up to two (azi1 [deg], a12 [deg]) pairs tried in order; nseed = 0 -> only the built-in spherical guess.
template <class T> inline EdgeRef<T> ref_inverse_newton(const Ell<T>& E, const Authalic<T>& Au, T lat1, T lon1, T lat2, T lon12,
                                                       const T* seed_azi, const T* seed_a12, int nseed, bool want_form = true, long* nevals = nullptr, bool use_spherical = true) {
  EdgeRef<T> best; best.lat1 = lat1; best.lon1 = lon1;
  if (lat1 == lat2 && lon12 == 0) { best.lat2 = lat2; best.lon2 = lon1; best.ok = true; best.certified = true; return best; }
  const T PI = pi<T>(), D = deg<T>();
  T inj = injectivity_radius(E);
  // spherical guess on the auxiliary sphere
  T sg_azi, sg_a12;
  {
    T sp, cp, sb1, cb1, sb2, cb2;
    sincosd<T>(lat1, sp, cp); sb1 = E.f1 * sp; cb1 = cp; { T h = hypot(sb1, cb1); sb1 /= h; cb1 /= h; }
    sincosd<T>(lat2, sp, cp); sb2 = E.f1 * sp; cb2 = cp; { T h = hypot(sb2, cb2); sb2 /= h; cb2 /= h; }
    T so, co; sincosd<T>(lon12, so, co);
    T y = cb2 * so, x = cb1 * sb2 - sb1 * cb2 * co;
    sg_azi = atan2(y, x) / D;
    T sn = hypot(y, x), cs = sb1 * sb2 + cb1 * cb2 * co;
    sg_a12 = atan2(sn, cs) / D;
  }
  T ph2s, ph2c; sincosd<T>(lat2, ph2s, ph2c);
  T rho2 = E.rho(ph2s), rc2 = E.nu(ph2s) * ph2c;           // meridional radius, radius of the parallel at vertex 2
  T scale = E.a > E.b ? E.a : E.b;
  T accept = 32 * eps_of<T>::v() * scale;                   // ~2e-11 m on the earth in long double
  T accept_stalled = (T)1.5e-16 * scale;                    // 1e-9 m on the earth: a stalled iteration is accepted up to here (the jog term closes the curve)
  for (int k = use_spherical ? -1 : 0; k < nseed; ++k) {
    T azi = k < 0 ? sg_azi : seed_azi[k], a12 = k < 0 ? sg_a12 : seed_a12[k];
    if (!(a12 > 0)) a12 = (T)1e-12;
    EdgeRef<T> cand; cand.lat1 = lat1; cand.lon1 = lon1; bool conv = false; T lastres = -1;
    for (int it = 0; it < 40; ++it) {
      GeodLine<T> L(E, lat1, azi);
      GeodPos<T> P = L.at_arc(a12);
      T dn = (lat2 - P.lat2) * D * rho2;
      T dl = remainder(lon12 - P.lon12, (T)360);
      T de = dl * D * rc2;
      T res = hypot(dn, de);
      if (res <= accept || (it > 3 && lastres >= 0 && res >= lastres && res <= accept_stalled)) {
        cand.lat2 = P.lat2; cand.azi1 = azi; cand.azi2 = P.azi2; cand.s12 = P.s12; cand.a12 = a12; cand.S12geod = P.S12; cand.m12 = P.m12;
        cand.resid_m = res; cand.iters = it; conv = true;
        cand.dlam = P.lon12 * D; cand.lon2 = lon1 + P.lon12;
        break;
      }
      lastres = res;
      T sa2, ca2; sincosd<T>(P.azi2, sa2, ca2);
      T along = dn * ca2 + de * sa2, across = -dn * sa2 + de * ca2;
      T da = along / (E.b * P.w2);                           // radians of arc
      T dz;
      if (fabs(P.m12) > (T)1e-6 * fabs(across)) dz = across / P.m12; else dz = across > 0 ? (T)0.3 : (T)-0.3;
      if (fabs(dz) > (T)0.3) dz = dz > 0 ? (T)0.3 : (T)-0.3;
      if (fabs(da) > (T)0.3) da = da > 0 ? (T)0.3 : (T)-0.3;
      azi += dz / D; a12 += da / D;
      if (a12 <= 0) { a12 = -a12 + (T)1e-15; azi += 180; }  // overshoot through the start point
      azi = remainder(azi, (T)360);
      if (!(a12 < 400)) break;
    }
    if (!conv) continue;
    cand.ok = true; cand.seed_used = k + 1;
    if (!best.ok || cand.s12 < best.s12) best = cand;
    if (best.s12 < (T)0.98 * inj) break;                   // certified: no need to try further seeds
  }
  if (!best.ok) return best;
  best.certified = best.s12 < (T)0.98 * inj;
  if (want_form) {
    GeodLine<T> L(E, lat1, best.azi1);
    T I, dl; geod_edge_form(L, Au, best.a12 * D, I, dl, nevals);
    best.I = I; best.dlam = dl; best.lon2 = lon1 + dl / D;
  }
  (void)PI;
  return best;
}

// ---------------------------------------------------------------- closed-curve accumulator
// The reference curve is a chain  vertex_i -> [jog] -> edge start -> edge -> edge end -> [jog] -> vertex_{i+1};
// jogs are the (sub-nanometre .. few nm) mismatches between where a reference edge ends and the vertex stored by
// the library (its own direct solution), or the conventional longitude of a pole vertex.  They are closed by a
// meridian piece (no contribution) and a parallel piece (contribution -sin(xi) dlam).
template <class T> struct CurveSum {
  T I = 0, dlam = 0, len = 0;     // radians, radians, metres
  void add_edge(const EdgeRef<T>& e) { I += e.I; dlam += e.dlam; len += e.s12; }
  // parallel jog at latitude with sine-authalic sx from longitude lonA to lonB (deg); reduced to the short way
  void add_jog(T sx, T lonA, T lonB) { T d = remainder(lonB - lonA, (T)360) * deg<T>(); I += -sx * d; dlam += d; }
  // counter-clockwise area modulo the ellipsoid area, in [0, area0); winding returned through W (should be integral)
  T area(const Ell<T>& E, T* Wout = nullptr, T* Wfrac = nullptr) const {
    T W = dlam / (2 * pi<T>()), Wr = round(W);
    if (Wout) *Wout = Wr; if (Wfrac) *Wfrac = W - Wr;
    T A = E.c2 * (I + 2 * pi<T>() * Wr), A0 = E.area();
    A = fmod(A, A0); if (A < 0) A += A0;
    return A;
  }
};

// distance on the circle of circumference A0 between two areas
template <class T> inline T circ_diff(T x, T y, T A0) { return fabs(remainder(x - y, A0)); }

}  // namespace ref
