// Adaptive Gauss-Legendre quadrature for vector-valued integrands in __float128, and a
// "cumulative" variant that remembers the accepted panels so that many partial integrals
// int_a^x f of the same integrand are cheap.  No GeographicLib code.
//
// Error control: a panel [a,b] is accepted when the n-point rule on [a,b] and the sum of the
// n-point rules on its halves agree to abs tolerance rel*scale_i for every component i
// (scale_i = magnitude of the whole integral, re-estimated once).  The accepted value is the
// two-halves sum, whose true error is smaller than the accepted difference by ~2^(2n).
// All integrands used by the C15 oracles are positive, so sums are well conditioned.
#pragma once
#include "oracle/ref_num.hpp"
#include <array>
#include <stdexcept>

namespace ref {

template <int NV> struct QV {
  q128 v[NV];
  QV() { for (int i = 0; i < NV; ++i) v[i] = 0; }
  QV& operator+=(const QV& o) { for (int i = 0; i < NV; ++i) v[i] += o.v[i]; return *this; }
  QV operator+(const QV& o) const { QV r(*this); r += o; return r; }
  QV operator-(const QV& o) const { QV r(*this); for (int i = 0; i < NV; ++i) r.v[i] -= o.v[i]; return r; }
  q128& operator[](int i) { return v[i]; }
  const q128& operator[](int i) const { return v[i]; }
};

struct AdaptStats { long evals = 0, panels = 0; int maxdepth = 0; };

// F: void f(q128 x, q128* out /*NV*/)
template <int NV, class F> struct AdaptGL {
  F& f; const GL<q128>& g; q128 rel; QV<NV> scale, acc; AdaptStats st;   // acc: sum of the panels accepted so far
  int depthlimit;
  AdaptGL(F& f_, q128 rel_ = 1e-31Q, int n = 24, int dl = 400) : f(f_), g(gl<q128>(n)), rel(rel_), depthlimit(dl) {}
  QV<NV> panel(q128 a, q128 b) {
    QV<NV> s; q128 h = (b - a) / 2, m = (a + b) / 2, t[NV];
    for (int i = 0; i < g.n; ++i) { f(m + h * g.x[i], t); for (int k = 0; k < NV; ++k) s.v[k] += g.w[i] * t[k]; }
    for (int k = 0; k < NV; ++k) s.v[k] *= h;
    st.evals += g.n; return s;
  }
  // tolerance relative to the larger of the a-priori magnitude and (accepted so far + this panel): a first estimate that
  // missed a narrow peak must not make the tolerance unattainable on the peak itself
  bool close(const QV<NV>& a, const QV<NV>& b) const {
    for (int k = 0; k < NV; ++k) { q128 d = fabsq(a.v[k] - b.v[k]), m = fabsq(acc.v[k] + b.v[k]); if (m < scale.v[k]) m = scale.v[k];
      if (!(d <= rel * m)) return false; }
    return true;
  }
  // recursive refinement; calls sink(a, b, value) for every accepted panel in left-to-right order
  template <class S> void rec(q128 a, q128 b, const QV<NV>& I1, int depth, S& sink) {
    q128 m = (a + b) / 2;
    QV<NV> L = panel(a, m), R = panel(m, b), I2 = L + R;
    if (depth > st.maxdepth) st.maxdepth = depth;
    if (close(I1, I2) || depth >= depthlimit || !((m > a && m < b) || (m < a && m > b))) { ++st.panels; acc += I2; sink(a, b, I2); return; }
    rec(a, m, L, depth + 1, sink); rec(m, b, R, depth + 1, sink);
  }
  struct SumSink { QV<NV> s; void operator()(q128, q128, const QV<NV>& v) { s += v; } };
  QV<NV> integrate(q128 a, q128 b) {
    if (a == b) return QV<NV>();
    QV<NV> w = panel(a, b);
    for (int k = 0; k < NV; ++k) scale.v[k] = fabsq(w.v[k]);
    acc = QV<NV>(); SumSink S; rec(a, b, w, 0, S);
    // re-estimate the scale once if the first guess was off by more than 2x (narrow peaks)
    bool redo = false;
    for (int k = 0; k < NV; ++k) { q128 m = fabsq(S.s.v[k]); if (m < scale.v[k] / 2) redo = true; }
    if (redo) { for (int k = 0; k < NV; ++k) scale.v[k] = fabsq(S.s.v[k]); acc = QV<NV>(); SumSink S2; rec(a, b, w, 0, S2); return S2.s; }
    return S.s;
  }
};

template <int NV, class F> inline QV<NV> adapt_integrate(F&& f, q128 a, q128 b, q128 rel = 1e-31Q, AdaptStats* st = nullptr) {
  AdaptGL<NV, typename std::remove_reference<F>::type> A(f, rel);
  QV<NV> r = A.integrate(a, b);
  if (st) { st->evals += A.st.evals; st->panels += A.st.panels; if (A.st.maxdepth > st->maxdepth) st->maxdepth = A.st.maxdepth; }
  return r;
}

// Cumulative integral C(x) = int_lo^x f, lo <= x <= hi, with the accepted panels of one adaptive pass
// over [lo,hi] stored; C(x) = stored prefix + adaptive integral over the part of one panel.
template <int NV> struct CumQuad {
  std::function<void(q128, q128*)> f;
  q128 lo = 0, hi = 0, rel = 1e-31Q;
  std::vector<q128> edge;              // panel edges, edge[0]=lo ... edge.back()=hi
  std::vector<QV<NV>> cum;             // cum[j] = int_lo^edge[j]
  QV<NV> scale;
  AdaptStats st;
  CumQuad() {}
  template <class F> void build(F&& f_, q128 lo_, q128 hi_, q128 rel_ = 1e-31Q) {
    f = f_; lo = lo_; hi = hi_; rel = rel_; edge.clear(); cum.clear();
    AdaptGL<NV, std::function<void(q128, q128*)>> A(f, rel);
    // two passes so that the tolerance refers to the true magnitude of the whole integral
    QV<NV> tot = A.integrate(lo, hi);
    for (int k = 0; k < NV; ++k) A.scale.v[k] = fabsq(tot.v[k]);
    scale = A.scale;
    struct Sink { CumQuad* c; QV<NV> run; void operator()(q128, q128 b, const QV<NV>& v) { run += v; c->edge.push_back(b); c->cum.push_back(run); } } S{this, QV<NV>()};
    edge.push_back(lo); cum.push_back(QV<NV>());
    QV<NV> w = A.panel(lo, hi);
    A.acc = QV<NV>();
    A.rec(lo, hi, w, 0, S);
    st = A.st;
  }
  const QV<NV>& total() const { return cum.back(); }
  QV<NV> operator()(q128 x) {
    { q128 slack = 1e-30Q * (fabsq(lo) + fabsq(hi)); if (x < lo && x >= lo - slack) x = lo; if (x > hi && x <= hi + slack) x = hi; }
    if (!(x >= lo && x <= hi)) throw std::runtime_error("CumQuad: argument out of range");
    if (x == lo) return QV<NV>();
    // binary search for the panel containing x
    size_t a = 0, b = edge.size() - 1;
    while (b - a > 1) { size_t m = (a + b) / 2; if (edge[m] <= x) a = m; else b = m; }
    if (x == edge[b]) return cum[b];
    AdaptGL<NV, std::function<void(q128, q128*)>> A(f, rel);
    QV<NV> w = A.panel(edge[a], x);
    // tolerance relative to the partial integral int_lo^x itself (keeps relative accuracy for x -> lo)
    for (int k = 0; k < NV; ++k) A.scale.v[k] = fabsq(cum[a].v[k]) + fabsq(w.v[k]);
    A.acc = QV<NV>();
    typename AdaptGL<NV, std::function<void(q128, q128*)>>::SumSink S;
    A.rec(edge[a], x, w, 0, S);
    st.evals += A.st.evals;
    return cum[a] + S.s;
  }
};

}  // namespace ref
