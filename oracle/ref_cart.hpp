// Reference model for geocentric / local-cartesian conversions (property C07).
// No GeographicLib code, tables or algorithms: everything below is written from the
// textbook definitions of the ellipsoid of revolution
//      (X^2 + Y^2)/a^2 + Z^2/b^2 = 1,  b = a (1 - f),
//   * geodetic -> geocentric: closed form with the prime-vertical radius written as
//       N = a^2 / sqrt(a^2 cos^2(phi) + b^2 sin^2(phi));
//   * geocentric -> geodetic is never "solved" here.  A library answer (lat, lon, h) is
//     judged by (a) its forward image and (b) a least-height certificate: the global minimum
//     of the distance from (R, Z) to the meridian ellipse (cos(beta), (b/a) sin(beta)), found by
//     isolating *all* stationary points of the squared distance over the parametric latitude
//     beta (quartic in t = tan(beta/2); roots isolated rigorously by the derivative cascade
//     P'' -> P' -> P, each refined by safeguarded Newton/bisection) plus a multi-start grid;
//   * the east/north/up frame from its definition: up = normalised gradient of the ellipsoid's
//     level function at the foot point, east = zhat x up (normalised; at the poles the limit
//     along the meridian of the given longitude), north = up x east;
//   * the local cartesian system as the rigid motion x = [e n u]^T (r - r0).
// Templated on T in {long double, __float128}; the harness uses __float128 and cross-checks a
// sample against long double (oracle self-test).
#pragma once
#include "oracle/ref_num.hpp"
#include <algorithm>
#include <utility>
#include <vector>

namespace ref {

template <class T> struct CartEll {
  T a, f, b, bb, c;          // bb = b/a = 1-f ; c = 1 - bb^2 = e^2 (signed; <0 prolate)
  CartEll(double a_, double f_) : a((T)a_), f((T)f_) { bb = 1 - f; b = a * bb; c = f * (2 - f); }
  CartEll unit() const { CartEll U(*this); U.a = 1; U.b = U.bb; return U; }   // same shape, a = 1
  // magnitudes of the cusps of the evolute (centre-of-curvature locus) of the meridian ellipse
  T evo_R() const { return a * fabs(c); }          // |a^2-b^2|/a   (equatorial-plane cusps)
  T evo_Z() const { return a * fabs(c) / bb; }     // |a^2-b^2|/b   (axis cusps)
};

// ------------------------------------------------------------------ forward (closed form)
// sines/cosines supplied (used by the self test with exact radian arguments)
template <class T> inline void cart_forward_sc(const CartEll<T>& E, T sp, T cp, T sl, T cl, T h, T* X) {
  T w = sqrt(cp * cp + sq(E.bb) * sp * sp);       // sqrt(a^2 cos^2 + b^2 sin^2)/a
  T N = E.a / w;
  T Rr = (N + h) * cp;
  X[0] = Rr * cl; X[1] = Rr * sl; X[2] = (N * sq(E.bb) + h) * sp;
}
// angles in degrees given as doubles (exact argument reduction)
template <class T> inline void cart_forward(const CartEll<T>& E, double lat, double lon, double h, T* X) {
  T sp, cp, sl, cl; sincosd<T>((T)lat, sp, cp); sincosd<T>((T)lon, sl, cl);
  cart_forward_sc<T>(E, sp, cp, sl, cl, (T)h, X);
}
// unit vector of the direction (lat, lon) -- used when the height is infinite
template <class T> inline void cart_direction(double lat, double lon, T* U) {
  T sp, cp, sl, cl; sincosd<T>((T)lat, sp, cp); sincosd<T>((T)lon, sl, cl);
  U[0] = cp * cl; U[1] = cp * sl; U[2] = sp;
}

// ------------------------------------------------------------------ ENU frame from its definition
template <class T> inline void cart_enu(const CartEll<T>& E, double lat, double lon, T* e, T* n, T* u) {
  T P[3]; cart_forward<T>(E.unit(), lat, lon, 0.0, P);                             // foot point on the ellipsoid (a = 1)
  T g[3] = {P[0], P[1], P[2] / sq(E.bb)};                                         // grad of X^2+Y^2+Z^2/bb^2 (halved)
  T gn = sqrt(g[0] * g[0] + g[1] * g[1] + g[2] * g[2]);
  for (int i = 0; i < 3; ++i) u[i] = g[i] / gn;
  T hr = hypot(u[0], u[1]);
  if (hr > 0) { e[0] = -u[1] / hr; e[1] = u[0] / hr; e[2] = 0; }                  // zhat x up
  else { T sl, cl; sincosd<T>((T)lon, sl, cl); e[0] = -sl; e[1] = cl; e[2] = 0; }  // limit on the meridian lon
  n[0] = u[1] * e[2] - u[2] * e[1]; n[1] = u[2] * e[0] - u[0] * e[2]; n[2] = u[0] * e[1] - u[1] * e[0];
}

// ------------------------------------------------------------------ least distance to the meridian ellipse
template <class T> struct MinDist {
  T d;            // least distance from (R,Z) to the ellipse [same unit as a]
  T beta;         // parametric latitude of the (a) closest point, in [-pi/2, pi/2]
  bool inside;    // (R/a)^2 + (Z/b)^2 < 1
  int ncrit;      // number of isolated stationary points of the distance with cos(beta) >= 0
  T evo;          // astroid function of the evolute: <= 1 inside/on it (multiple normals), > 1 outside
};

namespace cartdetail {
  // root of fn (value and derivative) in [lo,hi] given f(lo), f(hi) of opposite sign:
  // Newton steps kept inside the shrinking bracket, bisection otherwise and every 4th step.
  template <class T, class F> inline T root_bracketed(F fn, T lo, T hi, T flo, T fhi) {
    if (flo == 0) return lo;
    if (fhi == 0) return hi;
    const bool neglo = flo < 0;
    T x = (lo + hi) / 2;
    for (int it = 0; it < 240; ++it) {
      T fv, dv; fn(x, fv, dv);
      if (fv == 0) return x;
      if ((fv < 0) == neglo) lo = x; else hi = x;
      T xn = (it & 3) == 3 || dv == 0 ? (lo + hi) / 2 : x - fv / dv;
      if (!(xn > lo && xn < hi)) xn = (lo + hi) / 2;
      if (xn == x || fabs(xn - x) <= 2 * eps_of<T>::v() * fabs(xn) || !(hi > lo)) return xn;
      x = xn;
    }
    return x;
  }
}

// R >= 0.  All lengths in the unit of E.a.
template <class T> inline MinDist<T> cart_mindist(const CartEll<T>& E, T R, T Z, int ngrid = 24) {
  using namespace cartdetail;
  MinDist<T> out;
  const T x = R / E.a, z = Z / E.a, bb = E.bb, c = E.c;
  out.inside = sq(x) + sq(z / bb) < 1;
  { T ex = fabs(c), ez = fabs(c) / bb;
    out.evo = ex > 0 ? (T)(cbrtq((q128)sq(x / ex)) + cbrtq((q128)sq(z / ez))) : (x == 0 && z == 0 ? (T)0 : (T)2); }
  // squared distance (unit a) as a function of t = tan(beta/2), beta in [-pi/2, pi/2] <-> t in [-1,1]
  auto D_t = [&](T t) -> T { T w = 1 + t * t, cb = (1 - t * t) / w, sb = 2 * t / w; return sq(x - cb) + sq(z - bb * sb); };
  // stationarity:  P(t) = bb z t^4 + 2 (x + c) t^3 + 2 (x - c) t - bb z   ( = (1+t^2)^2 * D'(beta)/2 )
  const T A4 = bb * z, A3 = 2 * (x + c), A1 = 2 * (x - c), A0 = -bb * z;
  auto P = [&](T t, T& v, T& d) { v = ((A4 * t + A3) * t * t + A1) * t + A0; d = (4 * A4 * t + 3 * A3) * t * t + A1; };
  auto P1 = [&](T t, T& v, T& d) { v = (4 * A4 * t + 3 * A3) * t * t + A1; d = (12 * A4 * t + 6 * A3) * t; };
  // P'' = 12 t (A4 t + A3/2... ) : zeros at t = 0 and t = -A3/(2 A4)
  std::vector<T> br1; br1.push_back(-1); br1.push_back(0);
  if (A4 != 0) { T ts = -A3 / (2 * A4); if (ts > -1 && ts < 1 && ts != 0) br1.push_back(ts); }
  br1.push_back(1);
  std::sort(br1.begin(), br1.end());
  // roots of P' (monotone between the zeros of P'')
  std::vector<T> br0; br0.push_back(-1);
  for (size_t i = 0; i + 1 < br1.size(); ++i) {
    T lo = br1[i], hi = br1[i + 1], flo, fhi, dd; P1(lo, flo, dd); P1(hi, fhi, dd);
    if (flo == 0) { br0.push_back(lo); continue; }
    if (fhi == 0) { continue; }               // picked up as lo of the next interval (or the end point)
    if ((flo < 0) != (fhi < 0)) br0.push_back(root_bracketed<T>(P1, lo, hi, flo, fhi));
  }
  br0.push_back(1);
  std::sort(br0.begin(), br0.end());
  // roots of P (monotone between the zeros of P'); every break point is itself a candidate
  std::vector<T> cand(br0);
  int ncrit = 0;
  for (size_t i = 0; i + 1 < br0.size(); ++i) {
    T lo = br0[i], hi = br0[i + 1], flo, fhi, dd; if (!(hi > lo)) continue;
    P(lo, flo, dd); P(hi, fhi, dd);
    if (flo == 0 || fhi == 0) { ++ncrit; continue; }        // already candidates
    if ((flo < 0) != (fhi < 0)) { cand.push_back(root_bracketed<T>(P, lo, hi, flo, fhi)); ++ncrit; }
  }
  // multi-start: a coarse grid in beta, each start polished by Newton on P (kept only if it stays in range);
  // any point whatsoever yields an upper bound on the minimum, so extra candidates can only help.
  for (int i = 0; i <= ngrid; ++i) {
    T t = tan((-pi<T>() / 2 + pi<T>() * i / ngrid) / 2);
    for (int it = 0; it < 6; ++it) { T v, d; P(t, v, d); if (d == 0) break; T tn = t - v / d; if (!(tn >= -1 && tn <= 1)) break; t = tn; }
    cand.push_back(t);
  }
  T best = -1, tb = 0;
  for (T t : cand) { T D = D_t(t); if (best < 0 || D < best) { best = D; tb = t; } }
  out.d = E.a * sqrt(best);
  out.beta = 2 * atan(tb);
  out.ncrit = ncrit;
  return out;
}

// ------------------------------------------------------------------ small vector helpers
template <class T> inline T dot3(const T* A, const T* B) { return A[0] * B[0] + A[1] * B[1] + A[2] * B[2]; }
template <class T> inline T norm3(const T* A) { return sqrt(dot3(A, A)); }
template <class T> inline T dist3c(const T* A, const T* B) { T d[3] = {A[0] - B[0], A[1] - B[1], A[2] - B[2]}; return norm3(d); }

// local cartesian coordinates of the geocentric point r in the frame at (lat0, lon0, h0)
template <class T> struct LocalFrame {
  T r0[3], e[3], n[3], u[3];
  LocalFrame(const CartEll<T>& E, double lat0, double lon0, double h0) { cart_forward<T>(E, lat0, lon0, h0, r0); cart_enu<T>(E, lat0, lon0, e, n, u); }
  void to_local(const T* r, T* x) const { T d[3] = {r[0] - r0[0], r[1] - r0[1], r[2] - r0[2]}; x[0] = dot3(e, d); x[1] = dot3(n, d); x[2] = dot3(u, d); }
  void to_geocentric(const T* x, T* r) const { for (int i = 0; i < 3; ++i) r[i] = r0[i] + x[0] * e[i] + x[1] * n[i] + x[2] * u[i]; }
};

}  // namespace ref
