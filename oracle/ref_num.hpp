// Numerical kernel of the reference oracles (no GeographicLib code).
//   * math overloads so that templates work for long double and __float128
//   * Gauss-Legendre nodes computed by Newton iteration in the working type
//   * panelled quadrature with panel width chosen from the distance to the nearest
//     complex singularity of the integrand (geometric convergence guaranteed)
#pragma once
#include <quadmath.h>
#include <cmath>
#include <functional>
#include <vector>

namespace ref {
typedef __float128 q128;

// ---- overloads for __float128 (long double uses <cmath>)
inline q128 sqrt(q128 x) { return sqrtq(x); }
inline q128 sin(q128 x) { return sinq(x); }
inline q128 cos(q128 x) { return cosq(x); }
inline q128 tan(q128 x) { return tanq(x); }
inline q128 atan(q128 x) { return atanq(x); }
inline q128 atan2(q128 y, q128 x) { return atan2q(y, x); }
inline q128 asin(q128 x) { return asinq(x); }
inline q128 acos(q128 x) { return acosq(x); }
inline q128 sinh(q128 x) { return sinhq(x); }
inline q128 cosh(q128 x) { return coshq(x); }
inline q128 tanh(q128 x) { return tanhq(x); }
inline q128 asinh(q128 x) { return asinhq(x); }
inline q128 acosh(q128 x) { return acoshq(x); }
inline q128 atanh(q128 x) { return atanhq(x); }
inline q128 exp(q128 x) { return expq(x); }
inline q128 log(q128 x) { return logq(x); }
inline q128 log1p(q128 x) { return log1pq(x); }
inline q128 expm1(q128 x) { return expm1q(x); }
inline q128 fabs(q128 x) { return fabsq(x); }
inline q128 hypot(q128 x, q128 y) { return hypotq(x, y); }
inline q128 floor(q128 x) { return floorq(x); }
inline q128 ceil(q128 x) { return ceilq(x); }
inline q128 round(q128 x) { return roundq(x); }
inline q128 remainder(q128 x, q128 y) { return remainderq(x, y); }
inline q128 fmod(q128 x, q128 y) { return fmodq(x, y); }
inline q128 copysign(q128 x, q128 y) { return copysignq(x, y); }
inline q128 pow(q128 x, q128 y) { return powq(x, y); }
inline bool isnan(q128 x) { return isnanq(x); }
inline bool isfinite(q128 x) { return finiteq(x); }
inline q128 remquo(q128 x, q128 y, int* q) { return remquoq(x, y, q); }
using std::sqrt; using std::sin; using std::cos; using std::tan; using std::atan; using std::atan2;
using std::asin; using std::acos; using std::sinh; using std::cosh; using std::tanh; using std::asinh;
using std::acosh; using std::atanh; using std::exp; using std::log; using std::log1p; using std::expm1;
using std::fabs; using std::hypot; using std::floor; using std::ceil; using std::round; using std::remainder;
using std::fmod; using std::copysign; using std::pow; using std::isnan; using std::isfinite; using std::remquo;

template <class T> inline T pi() { return (T)M_PIq; }
template <class T> inline T deg() { return (T)(M_PIq / 180); }
template <class T> inline T sq(T x) { return x * x; }
template <class T> struct eps_of;
template <> struct eps_of<long double> { static long double v() { return 1.0842021724855044e-19L; } };
template <> struct eps_of<q128> { static q128 v() { return 1.92592994438723585305597794258492732e-34Q; } };
template <> struct eps_of<double> { static double v() { return 2.220446049250313e-16; } };

// exact sine / cosine of an angle given in degrees (argument reduced exactly)
template <class T> inline void sincosd(T x, T& s, T& c) {
  int q; T r = remquo(x, (T)90, &q); r *= deg<T>();
  T ss = sin(r), cc = cos(r);
  switch (unsigned(q) & 3u) { case 0: s = ss; c = cc; break; case 1: s = cc; c = -ss; break;
    case 2: s = -ss; c = -cc; break; default: s = -cc; c = ss; }
  if (r == 0) { if (unsigned(q) & 1u) c = 0; else s = 0; }
}

// ---- Gauss-Legendre
template <class T> struct GL {
  int n; std::vector<T> x, w;   // nodes in (-1,1), weights
  explicit GL(int n_) : n(n_), x(n_), w(n_) {
    for (int i = 0; i < n; ++i) {
      T z = cos(pi<T>() * (i + (T)0.75) / (n + (T)0.5)), pp = 0;
      for (int it = 0; it < 100; ++it) {
        T p1 = 1, p2 = 0;
        for (int j = 1; j <= n; ++j) { T p3 = p2; p2 = p1; p1 = ((2 * j - 1) * z * p2 - (j - 1) * p3) / j; }
        pp = n * (z * p1 - p2) / (z * z - 1);
        T dz = p1 / pp; z -= dz;
        if (fabs(dz) < 4 * eps_of<T>::v()) break;
      }
      { T p1 = 1, p2 = 0; for (int j = 1; j <= n; ++j) { T p3 = p2; p2 = p1; p1 = ((2 * j - 1) * z * p2 - (j - 1) * p3) / j; }
        pp = n * (z * p1 - p2) / (z * z - 1); }
      x[i] = z; w[i] = 2 / ((1 - z * z) * pp * pp);
    }
  }
  template <class F> T panel(F&& f, T a, T b) const {
    T h = (b - a) / 2, m = (a + b) / 2, s = 0;
    for (int i = 0; i < n; ++i) s += w[i] * f(m + h * x[i]);
    return s * h;
  }
};
template <class T> inline const GL<T>& gl(int n = 24) {
  static thread_local std::vector<const GL<T>*> cache(130, nullptr);
  if (!cache[n]) cache[n] = new GL<T>(n);
  return *cache[n];
}

// integral of f over [a,b] (b may be < a) with panels no wider than wmax
template <class T, class F> inline T integrate(F&& f, T a, T b, T wmax, int n = 24) {
  if (a == b) return 0;
  T L = b - a; long np = (long)(double)ceil(fabs(L) / wmax); if (np < 1) np = 1;
  const GL<T>& g = gl<T>(n);
  T s = 0, h = L / np;
  for (long i = 0; i < np; ++i) s += g.panel(f, a + i * h, i + 1 == np ? b : a + (i + 1) * h);
  return s;
}

}  // namespace ref
