// Independent reference model for the text formats of property C10 (no GeographicLib code,
// headers or byte tables).  Everything is written from the *documentation*:
//   * DMS.hpp (doc of DMS::Decode): the list of unicode code points for degree / minute /
//     second / plus / minus symbols and ignorable spaces, the d ' " and ':' component
//     grammar, the hemisphere and internal-sign rules, the legal/illegal examples;
//   * Utility.hpp (doc of val, nummatch, fract, str);
//   * GeoCoords.hpp (doc of the string constructor), UTMUPS.hpp (doc of DecodeZone).
// Values are exact rationals (GMP mpq).  The recogniser is three-valued: ACCEPT (with the
// exact value), REJECT, and GREY for the forms about which the documentation is silent
// (listed where they are produced) -- GREY never produces a verdict on accept/reject.
//
// Usable from g++ and clang++ (no libquadmath).
#pragma once
#include <gmp.h>
#include <mpfr.h>
#include <cmath>
#include <cstdint>
#include <cstring>
#include <limits>
#include <string>
#include <vector>

namespace refdms {

// ------------------------------------------------------------------ exact rationals
struct Q {
  mpq_t v;
  Q() { mpq_init(v); }
  Q(const Q& o) { mpq_init(v); mpq_set(v, o.v); }
  Q& operator=(const Q& o) { if (this != &o) mpq_set(v, o.v); return *this; }
  ~Q() { mpq_clear(v); }
  explicit Q(long n, unsigned long d = 1) { mpq_init(v); mpq_set_si(v, n, d); mpq_canonicalize(v); }
  static Q from_double(double d) { Q r; if (std::isfinite(d)) mpq_set_d(r.v, d); return r; }   // exact
  int sgn() const { return mpq_sgn(v); }
  bool is_zero() const { return mpq_sgn(v) == 0; }
  double to_double() const {   // correctly rounded in the normal range; good to 1e-60 relative otherwise
    mpfr_t f; mpfr_init2(f, 256); mpfr_set_q(f, v, MPFR_RNDN); double d = mpfr_get_d(f, MPFR_RNDN); mpfr_clear(f); return d; }
  std::string str(int digits = 30) const {
    mpfr_t f; mpfr_init2(f, 256); mpfr_set_q(f, v, MPFR_RNDN); char b[160]; mpfr_snprintf(b, sizeof b, "%.*Rg", digits, f); mpfr_clear(f); return b; }
};
inline Q operator+(const Q& a, const Q& b) { Q r; mpq_add(r.v, a.v, b.v); return r; }
inline Q operator-(const Q& a, const Q& b) { Q r; mpq_sub(r.v, a.v, b.v); return r; }
inline Q operator*(const Q& a, const Q& b) { Q r; mpq_mul(r.v, a.v, b.v); return r; }
inline Q operator/(const Q& a, const Q& b) { Q r; mpq_div(r.v, a.v, b.v); return r; }
inline Q operator-(const Q& a) { Q r; mpq_neg(r.v, a.v); return r; }
inline int cmp(const Q& a, const Q& b) { return mpq_cmp(a.v, b.v); }
inline Q qabs(const Q& a) { Q r; mpq_abs(r.v, a.v); return r; }
inline Q pow10(int n) {   // 10^n, n any sign
  Q r; mpz_t z; mpz_init(z); mpz_ui_pow_ui(z, 10, (unsigned long)(n < 0 ? -n : n));
  if (n >= 0) mpq_set_z(r.v, z); else { mpq_set_ui(r.v, 1, 1); mpz_set(mpq_denref(r.v), z); }
  mpz_clear(z); return r; }
inline Q qfloor(const Q& a) { Q r; mpz_fdiv_q(mpq_numref(r.v), mpq_numref(a.v), mpq_denref(a.v)); return r; }

// spacing of doubles at |x| (subnormal aware); for a zero argument the smallest subnormal
inline double ulp(double x) {
  x = std::fabs(x);
  if (!std::isfinite(x)) return std::numeric_limits<double>::quiet_NaN();
  double n = std::nextafter(x, std::numeric_limits<double>::infinity());
  if (std::isinf(n)) return x - std::nextafter(x, 0.0);
  return n - x;
}

// "digits [. digits]" (at least one digit, at most one point) -> exact value
inline bool dec_to_q(const std::string& s, Q& out, int* ndig_int = nullptr, int* nfrac = nullptr) {
  std::string dig; int nf = 0, ni = 0; bool point = false;
  for (char c : s) {
    if (c >= '0' && c <= '9') { dig += c; if (point) ++nf; else ++ni; }
    else if (c == '.' && !point) point = true;
    else return false;
  }
  if (dig.empty()) return false;
  mpz_t z; mpz_init(z); mpz_set_str(z, dig.c_str(), 10);
  Q num; mpq_set_z(num.v, z); mpz_clear(z);
  out = nf ? num * pow10(-nf) : num;
  if (ndig_int) *ndig_int = ni;
  if (nfrac) *nfrac = nf;
  return true;
}

// correctly rounded double of a decimal / exponent string by MPFR (emulated subnormals).
// Returns false if the whole string is not consumed.
inline bool strtod_exact(const std::string& s, double& out) {
  if (std::memchr(s.data(), 0, s.size())) return false;
  mpfr_t f; mpfr_init2(f, 53); char* end = nullptr;
  mpfr_exp_t emin = mpfr_get_emin(), emax = mpfr_get_emax();
  mpfr_set_emin(-1073); mpfr_set_emax(1024);
  int t = mpfr_strtofr(f, s.c_str(), &end, 10, MPFR_RNDN);
  t = mpfr_subnormalize(f, t, MPFR_RNDN);
  out = mpfr_get_d(f, MPFR_RNDN);
  mpfr_set_emin(emin); mpfr_set_emax(emax);
  bool ok = end && *end == 0 && end != s.c_str();
  mpfr_clear(f); return ok;
}

// ------------------------------------------------------------------ symbol table (from DMS.hpp doc)
enum Cls { C_DEG, C_MIN, C_SEC, C_PLUS, C_MINUS, C_IGN };
struct Sym { uint32_t cp; Cls cls; };
inline const std::vector<Sym>& symbols() {
  static const std::vector<Sym> t = {
    {0x00b0, C_DEG}, {0x00ba, C_DEG}, {0x2070, C_DEG}, {0x02da, C_DEG}, {0x2218, C_DEG},
    {0x2032, C_MIN}, {0x2035, C_MIN}, {0x00b4, C_MIN}, {0x2018, C_MIN}, {0x2019, C_MIN}, {0x201b, C_MIN},
    {0x02b9, C_MIN}, {0x02ca, C_MIN}, {0x02cb, C_MIN},
    {0x2033, C_SEC}, {0x2036, C_SEC}, {0x02dd, C_SEC}, {0x201c, C_SEC}, {0x201d, C_SEC}, {0x201f, C_SEC}, {0x02ba, C_SEC},
    {0x2795, C_PLUS}, {0x2064, C_PLUS},
    {0x2010, C_MINUS}, {0x2011, C_MINUS}, {0x2013, C_MINUS}, {0x2014, C_MINUS}, {0x2212, C_MINUS}, {0x2796, C_MINUS},
    {0x00a0, C_IGN}, {0x2007, C_IGN}, {0x2009, C_IGN}, {0x200a, C_IGN}, {0x200b, C_IGN}, {0x202f, C_IGN}, {0x2063, C_IGN},
  };
  return t;
}
inline std::string utf8(uint32_t cp) {
  std::string s;
  if (cp < 0x80) s += (char)cp;
  else if (cp < 0x800) { s += (char)(0xc0 | (cp >> 6)); s += (char)(0x80 | (cp & 0x3f)); }
  else { s += (char)(0xe0 | (cp >> 12)); s += (char)(0x80 | ((cp >> 6) & 0x3f)); s += (char)(0x80 | (cp & 0x3f)); }
  return s;
}
// every documented spelling of a class: ASCII forms, UTF-8 forms, and the single-byte form of
// the code points below U+0100 ("accepted ... as a single byte 0xb0")
inline std::vector<std::string> spellings(Cls c) {
  std::vector<std::string> v;
  switch (c) {
    case C_DEG: v = {"d", "D", "*"}; break;
    case C_MIN: v = {"'", "`"}; break;
    case C_SEC: v = {"\"", "''"}; break;
    case C_PLUS: v = {"+"}; break;
    case C_MINUS: v = {"-"}; break;
    default: break;
  }
  for (const Sym& s : symbols()) if (s.cls == c) { v.push_back(utf8(s.cp)); if (s.cp < 0x100) v.push_back(std::string(1, (char)s.cp)); }
  return v;
}

// ------------------------------------------------------------------ normalisation
// Left-to-right scan of the raw bytes into the ASCII alphabet used by the grammar:
//   d ' " + - for the symbol classes, ignorable spaces dropped, ASCII kept, and the byte
//   0xff as the marker of an illegal (undocumented) non-ASCII byte sequence.
// grey is set when dropping an ignorable space makes the neighbouring bytes form a new
// documented sequence (behaviour not defined by the documentation).
inline std::string normalise_once(const std::string& in, bool& had_ign) {
  std::string out; had_ign = false;
  const unsigned char* p = (const unsigned char*)in.data(); size_t n = in.size();
  auto cont = [&](size_t i) { return i < n && (p[i] & 0xc0) == 0x80; };
  for (size_t i = 0; i < n;) {
    unsigned char c = p[i];
    if (c < 0x80) { out += (c == '*') ? 'd' : (c == '`') ? '\'' : (char)c; ++i; continue; }   // GRiD degree symbol, grave accent
    uint32_t cp = 0; size_t len = 0;
    if (c >= 0xc2 && c <= 0xdf && cont(i + 1)) { cp = ((c & 0x1f) << 6) | (p[i + 1] & 0x3f); len = 2; }
    else if (c >= 0xe0 && c <= 0xef && cont(i + 1) && cont(i + 2)) { cp = ((c & 0x0f) << 12) | ((p[i + 1] & 0x3f) << 6) | (p[i + 2] & 0x3f); len = 3; if (cp < 0x800) len = 0; }
    bool found = false;
    if (len) {
      for (const Sym& s : symbols()) if (s.cp == cp) {
        found = true;
        switch (s.cls) { case C_DEG: out += 'd'; break; case C_MIN: out += '\''; break; case C_SEC: out += '"'; break;
          case C_PLUS: out += '+'; break; case C_MINUS: out += '-'; break; case C_IGN: had_ign = true; break; }
        break;
      }
      if (found) { i += len; continue; }
    }
    // single byte forms of U+00a0, U+00b0, U+00b4, U+00ba
    if (c == 0xb0 || c == 0xba) { out += 'd'; ++i; continue; }
    if (c == 0xb4) { out += '\''; ++i; continue; }
    if (c == 0xa0) { had_ign = true; ++i; continue; }
    out += (char)0xff; ++i;       // undocumented byte
  }
  return out;
}
// drop only the ignorable spaces, keep all other bytes (used for the GREY test)
inline std::string drop_ignorable(const std::string& in) {
  std::string out;
  const unsigned char* p = (const unsigned char*)in.data(); size_t n = in.size();
  for (size_t i = 0; i < n;) {
    unsigned char c = p[i];
    if (c == 0xc2 && i + 1 < n && p[i + 1] == 0xa0) { i += 2; continue; }
    if (c == 0xe2 && i + 2 < n) {
      uint32_t cp = ((c & 0x0f) << 12) | ((p[i + 1] & 0x3f) << 6) | (p[i + 2] & 0x3f);
      bool ok = (p[i + 1] & 0xc0) == 0x80 && (p[i + 2] & 0xc0) == 0x80, ign = false;
      if (ok) for (const Sym& s : symbols()) if (s.cls == C_IGN && s.cp == cp) ign = true;
      if (ign) { i += 3; continue; }
    }
    out += (char)c; ++i;
  }
  return out;
}

// ------------------------------------------------------------------ results
enum Status { ACCEPT, REJECT, GREY };
enum Special { FINITE, S_NAN, S_PINF, S_NINF };
struct Value {
  Special sp = FINITE; Q q;      // exact value when FINITE
  double tol = 0;                // absolute round-off allowance for a double evaluation
  bool huge = false;             // a magnitude beyond 1e300 occurred: value comparisons are skipped
};
inline Value vadd(const Value& a, const Value& b) {
  Value r; r.tol = a.tol + b.tol; r.huge = a.huge || b.huge;
  if (a.sp == S_NAN || b.sp == S_NAN) { r.sp = S_NAN; return r; }
  if (a.sp != FINITE || b.sp != FINITE) {
    if (a.sp != FINITE && b.sp != FINITE && a.sp != b.sp) r.sp = S_NAN; else r.sp = a.sp != FINITE ? a.sp : b.sp;
    return r; }
  r.q = a.q + b.q; return r;
}
// does the double v agree with the reference value (exactly, within val.tol)?  err_out = |v - q| / tol-unit
inline bool agrees(double v, const Value& val, double extra_tol = 0, double* abs_err = nullptr) {
  if (abs_err) *abs_err = 0;
  if (val.huge) return true;
  switch (val.sp) {
    case S_NAN: return std::isnan(v);
    case S_PINF: return v == std::numeric_limits<double>::infinity();
    case S_NINF: return v == -std::numeric_limits<double>::infinity();
    default: break;
  }
  if (!std::isfinite(v)) return false;
  Q e = qabs(Q::from_double(v) - val.q);
  if (abs_err) *abs_err = e.to_double();
  return cmp(e, Q::from_double(val.tol + extra_tol)) <= 0;
}

struct DmsResult {
  Status st = REJECT;
  const char* why = "";          // reason for REJECT/GREY (diagnostics only)
  Value val;
  int ind = 0;                   // 0 none, 1 latitude (N/S), 2 longitude (E/W)
  int npieces = 0;
  bool has_value = true;         // false for the GREY normalisation case (no value / flag is predicted)
  bool neg_zero = false;         // single piece whose overall sign (sign x hemisphere) is negative and whose value is 0
  // features (class labels)
  bool f_unicode = false, f_colon = false, f_letters = false, f_hemi = false, f_special = false, f_ign = false;
};

// "nan"/"inf" family (doc of Utility::nummatch: nan and inf "and variants thereof"; the
// variants are the MSVC spellings 1.#QNAN 1.#SNAN 1.#IND 1.#R 1.#INF and "infinity").
// Trailing zeros (as in 1.#INF00) are GREY for the plain words.
inline Status nummatch_ref(const std::string& s, Special& sp) {
  std::string t;
  for (char c : s) t += (char)((c >= 'a' && c <= 'z') ? c - 32 : c);
  bool neg = false; size_t p0 = 0;
  if (!t.empty() && (t[0] == '-' || t[0] == '+')) { neg = t[0] == '-'; p0 = 1; }
  t = t.substr(p0);
  size_t nz = 0; while (!t.empty() && t.back() == '0') { t.pop_back(); ++nz; }
  static const char* nans[] = {"NAN", "1.#QNAN", "1.#SNAN", "1.#IND", "1.#R"};
  static const char* infs[] = {"INF", "1.#INF", "INFINITY"};
  for (const char* w : nans) if (t == w) { sp = S_NAN; return nz && w[0] != '1' ? GREY : ACCEPT; }
  for (const char* w : infs) if (t == w) { sp = neg ? S_NINF : S_PINF; return nz && w[0] != '1' ? GREY : ACCEPT; }
  return REJECT;
}

// One piece of a DMS string in normalised ASCII: [hemi][sign] body [hemi].
inline Status piece_ref(const std::string& pc, bool first, Value& out, int& ind, const char*& why, bool& negtext,
                        bool& colon, bool& letters) {
  size_t b = 0, e = pc.size();
  auto hemi = [](char c) -> int { switch (c) { case 'S': case 's': return 0; case 'N': case 'n': return 1;
                                                case 'W': case 'w': return 2; case 'E': case 'e': return 3; default: return -1; } };
  int sign = 1; ind = 0; negtext = false; Status st = ACCEPT;
  int h0 = -1, h1 = -1;
  if (e > b && (h0 = hemi(pc[b])) >= 0) {
    if (!first) { why = "hemisphere designator at the start of a later piece"; return REJECT; }   // cannot happen: later pieces start with a sign
    ++b;
  }
  if (e > b && (h1 = hemi(pc[e - 1])) >= 0) {
    if (h0 >= 0) { why = "two hemisphere designators"; return REJECT; }
    --e;
  }
  int h = h0 >= 0 ? h0 : h1;
  if (h >= 0) { ind = h / 2 ? 2 : 1; if (h % 2 == 0) sign = -sign; }
  if (e > b && (pc[b] == '+' || pc[b] == '-')) { if (pc[b] == '-') sign = -sign; ++b; }
  negtext = sign < 0;
  if (e == b) { why = "empty piece"; return REJECT; }
  // body
  Q comp[3]; bool have[3] = {false, false, false};
  int next = 0;                       // next admissible component index
  size_t i = b; bool done = false; int maxdig = 0;
  bool used_colon = false, used_letter = false;
  while (!done) {
    std::string num;
    while (i < e && ((pc[i] >= '0' && pc[i] <= '9') || pc[i] == '.')) num += pc[i++];
    int k = -1; bool iscolon = false;
    if (i < e) {
      char c = pc[i];
      if (c == 'd' || c == 'D') k = 0; else if (c == '\'') k = 1; else if (c == '"') k = 2;
      else if (c == ':') { k = next; iscolon = true; }
      else { why = "illegal character"; return REJECT; }
      ++i;
      if (iscolon) { used_colon = true; if (i == e) { why = ": at the end"; return REJECT; } if (k >= 3) { why = "more than 3 components"; return REJECT; } }
      else used_letter = true;
      if (k < next) { why = "component repeated or out of order"; return REJECT; }
    } else {
      if (num.empty()) break;         // the previous indicator ended the piece
      k = next;
      if (k >= 3) { why = "text after seconds"; return REJECT; }
      done = true;
    }
    Q v; int ni = 0, nf = 0;
    bool haspoint = num.find('.') != std::string::npos;
    if (!dec_to_q(num, v, &ni, &nf)) { why = "malformed number"; return REJECT; }
    bool last = done || i == e;
    if (haspoint && !last) { why = "decimal point in a non-final component"; return REJECT; }
    if (k >= 1) {                     // minutes and seconds: integer part below 60 (60.0 itself is a documented legal form)
      Q sixty(60);
      int c60 = cmp(v, sixty);
      if (!haspoint) { if (c60 >= 0) { why = "minutes/seconds >= 60"; return REJECT; } }
      else if (c60 > 0) {
        if (cmp(v, sixty + Q(1, 1000000000000L)) > 0) { why = "minutes/seconds > 60"; return REJECT; }
        st = GREY; why = "minutes/seconds exceed 60 by less than 1e-12";
      }
    }
    comp[k] = v; have[k] = true; next = k + 1; if (ni > maxdig) maxdig = ni;
    if (i == e) break;
  }
  if (!(have[0] || have[1] || have[2])) { why = "no component"; return REJECT; }
  if (used_colon && used_letter) { if (st == ACCEPT) { st = GREY; why = "':' mixed with d ' \" indicators"; } }
  colon = colon || used_colon; letters = letters || used_letter;
  Q tot = comp[0] + comp[1] / Q(60) + comp[2] / Q(3600);
  out = Value(); out.q = sign < 0 ? -tot : tot;
  double mag = tot.to_double();
  if (!(mag < 1e300)) out.huge = true;
  // double evaluation: <= 6 roundings, plus one rounding per integer digit beyond 2^53
  out.tol = (4.0 + (maxdig > 15 ? maxdig - 15 : 0)) * ulp(mag);
  return st;
}

// The documented grammar of DMS::Decode.
inline DmsResult decode_ref(const std::string& raw) {
  DmsResult r;
  bool ign1 = false;
  std::string s = normalise_once(raw, ign1);
  r.f_ign = ign1;
  for (unsigned char c : raw) if (c >= 0x80) r.f_unicode = true;
  bool grey_norm = false;
  if (ign1) {   // would the removal of ignorable spaces create new documented sequences?
    bool ign2 = false;
    std::string s2 = normalise_once(drop_ignorable(raw), ign2);
    if (s2 != s) grey_norm = true;
  }
  // two consecutive minute symbols are a second symbol
  { std::string t; for (size_t i = 0; i < s.size(); ++i) { if (s[i] == '\'' && i + 1 < s.size() && s[i + 1] == '\'') { t += '"'; ++i; } else t += s[i]; } s.swap(t); }
  // trim white space
  auto sp = [](char c) { return c == ' ' || (c >= '\t' && c <= '\r'); };
  size_t b = 0, e = s.size();
  while (b < e && sp(s[b])) ++b;
  while (b < e && sp(s[e - 1])) --e;
  s = s.substr(b, e - b);
  auto finish = [&](Status st, const char* why) { r.st = grey_norm ? GREY : st; r.has_value = !grey_norm && st != REJECT; r.why = grey_norm ? "ignorable space inside another multi-byte symbol" : why; return r; };
  if (s.empty()) return finish(REJECT, "empty");
  for (char c : s) if ((unsigned char)c == 0xff) return finish(REJECT, "undocumented non-ASCII byte");
  // split immediately before internal signs
  std::vector<std::string> pieces;
  {
    size_t p = 0, n = s.size();
    size_t q = 0;
    auto ishemi = [](char c) { return std::strchr("NSEWnsew", c) != nullptr && c != 0; };
    if (q < n && ishemi(s[q])) ++q;
    if (q < n && (s[q] == '+' || s[q] == '-')) ++q;
    for (;;) {
      size_t nx = s.find_first_of("+-", q);
      if (nx == std::string::npos) { pieces.push_back(s.substr(p)); break; }
      pieces.push_back(s.substr(p, nx - p)); p = nx; q = nx + 1;
    }
  }
  Value tot; bool firstv = true; Status st = ACCEPT; const char* why = "";
  int ind = 0; bool negtext = false;
  for (size_t i = 0; i < pieces.size(); ++i) {
    Value v; int ind2 = 0; const char* w = ""; bool nt = false;
    Status ps = piece_ref(pieces[i], i == 0, v, ind2, w, nt, r.f_colon, r.f_letters);
    if (ps == REJECT) {
      Special spc = FINITE; Status ns = nummatch_ref(pieces[i], spc);
      if (ns == REJECT) return finish(REJECT, w);
      v = Value(); v.sp = spc; ind2 = 0; ps = ns; w = "nan/inf with trailing zeros"; r.f_special = true;
    }
    if (ps == GREY && st == ACCEPT) { st = GREY; why = w; }
    if (ind2) { r.f_hemi = true; if (ind == 0) ind = ind2; else if (ind != ind2) return finish(REJECT, "incompatible hemisphere designators"); }
    if (firstv) { tot = v; firstv = false; negtext = nt; } else {
      // the running sum is rounded once per addition
      Value t2 = vadd(tot, v);
      if (t2.sp == FINITE) t2.tol += ulp(t2.q.to_double());
      tot = t2;
    }
  }
  r.val = tot; r.ind = ind; r.npieces = (int)pieces.size();
  r.neg_zero = pieces.size() == 1 && negtext && tot.sp == FINITE && tot.q.is_zero();
  return finish(st, why);
}

// ------------------------------------------------------------------ Utility::val<double>, val<int>, fract
// doc: white space at both ends ignored; a floating point number; inf and nan recognised.
// Grammar of the number: [+-] (digits [. digits*] | . digits) [ (e|E) [+-] digits ].
// GREY: magnitudes that overflow (the library reports an error) or underflow.
struct NumResult { Status st = REJECT; Special sp = FINITE; double v = 0; const char* why = ""; };
inline std::string trim_ws(const std::string& s) {
  auto sp = [](char c) { return c == ' ' || (c >= '\t' && c <= '\r'); };
  size_t b = 0, e = s.size();
  while (b < e && sp(s[b])) ++b;
  while (b < e && sp(s[e - 1])) --e;
  return s.substr(b, e - b);
}
inline NumResult val_double_ref(const std::string& raw) {
  NumResult r; std::string t = trim_ws(raw);
  size_t i = 0, n = t.size();
  auto dig = [&](size_t j) { return j < n && t[j] >= '0' && t[j] <= '9'; };
  if (i < n && (t[i] == '+' || t[i] == '-')) ++i;
  size_t ni = 0, nf = 0; while (dig(i)) { ++i; ++ni; }
  if (i < n && t[i] == '.') { ++i; while (dig(i)) { ++i; ++nf; } }
  bool ok = ni + nf > 0;
  if (ok && i < n && (t[i] == 'e' || t[i] == 'E')) {
    ++i; if (i < n && (t[i] == '+' || t[i] == '-')) ++i;
    size_t ne = 0; while (dig(i)) { ++i; ++ne; }
    if (!ne) ok = false;
  }
  if (ok && i == n) {
    double v; if (!strtod_exact(t, v)) { r.why = "reference strtod failed"; r.st = GREY; return r; }
    r.v = v;
    if (std::isinf(v)) { r.st = GREY; r.why = "overflow"; return r; }
    if (std::fabs(v) < 2.2250738585072014e-308) {   // zero or subnormal result of a non-zero text: underflow handling is undocumented
      bool allzero = true; for (char c : t) { if (c == 'e' || c == 'E') break; if (c >= '1' && c <= '9') allzero = false; }
      if (!allzero) { r.st = GREY; r.why = "underflow"; return r; }
    }
    r.st = ACCEPT; return r;
  }
  Special sp = FINITE; Status ns = nummatch_ref(t, sp);
  if (ns != REJECT) { r.st = ns; r.sp = sp; r.why = "nan/inf family"; return r; }
  r.why = "not a number"; return r;
}
struct IntResult { Status st = REJECT; long long v = 0; };
inline IntResult val_int_ref(const std::string& raw) {
  IntResult r; std::string t = trim_ws(raw);
  size_t i = 0, n = t.size(); bool neg = false;
  if (i < n && (t[i] == '+' || t[i] == '-')) { neg = t[i] == '-'; ++i; }
  size_t nd = 0; long long v = 0; bool ovf = false;
  while (i < n && t[i] >= '0' && t[i] <= '9') { if (v > (1LL << 40)) ovf = true; else v = 10 * v + (t[i] - '0'); ++i; ++nd; }
  if (!nd || i != n) return r;
  if (neg) v = -v;
  if (ovf || v > 2147483647LL || v < -2147483648LL) return r;     // not readable as an int
  r.st = ACCEPT; r.v = v; return r;
}

// ------------------------------------------------------------------ UTM/UPS zone designator (doc of UTMUPS::DecodeZone)
// [1..60 as one or two digits][n|s|north|south], or the hemisphere alone for UPS; "inv"/"invalid".
struct ZoneResult { Status st = REJECT; int zone = 0; bool northp = false; bool invalid = false; };
inline ZoneResult zone_ref(const std::string& s) {
  ZoneResult r; size_t i = 0, n = s.size(); int z = 0; size_t nd = 0;
  while (i < n && s[i] >= '0' && s[i] <= '9' && nd < 3) { z = 10 * z + (s[i] - '0'); ++i; ++nd; }
  std::string h; for (size_t j = i; j < n; ++j) h += (char)((s[j] >= 'A' && s[j] <= 'Z') ? s[j] + 32 : s[j]);
  if (nd == 0 && (h == "inv" || h == "invalid")) { r.st = ACCEPT; r.invalid = true; return r; }
  bool north = h == "n" || h == "north", south = h == "s" || h == "south";
  if (!(north || south)) return r;
  if (nd > 2) return r;
  if (nd > 0 && !(z >= 1 && z <= 60)) return r;
  r.st = ACCEPT; r.zone = nd ? z : 0; r.northp = north; return r;
}

// split at blanks and commas (doc of GeoCoords: "space (or comma) separated pieces")
inline std::vector<std::string> split_tokens(const std::string& s) {
  std::vector<std::string> v; std::string cur;
  for (char c : s) {
    bool sep = c == ' ' || c == ',' || (c >= '\t' && c <= '\r');
    if (sep) { if (!cur.empty()) { v.push_back(cur); cur.clear(); } } else cur += c;
  }
  if (!cur.empty()) v.push_back(cur);
  return v;
}

// Reference for DMS::DecodeLatLon / the two-token form of GeoCoords.
struct LatLonResult { Status st = REJECT; const char* why = ""; Value lat, lon; bool has_value = true; };
inline LatLonResult latlon_ref(const std::string& a, const std::string& b, bool longfirst) {
  LatLonResult r; DmsResult A = decode_ref(a), B = decode_ref(b);
  if (A.st == REJECT || B.st == REJECT) { r.why = A.st == REJECT ? A.why : B.why; return r; }
  if (!A.has_value || !B.has_value) { r.st = GREY; r.has_value = false; r.why = "ignorable space inside another multi-byte symbol"; return r; }
  int ia = A.ind, ib = B.ind;
  if (ia == 0 && ib == 0) { ia = longfirst ? 2 : 1; ib = 3 - ia; }
  else if (ia == 0) ia = 3 - ib; else if (ib == 0) ib = 3 - ia;
  if (ia == ib) { r.why = "both latitudes or both longitudes"; return r; }
  r.lat = ia == 1 ? A.val : B.val; r.lon = ia == 1 ? B.val : A.val;
  r.st = (A.st == GREY || B.st == GREY) ? GREY : ACCEPT;
  if (r.lat.sp == S_PINF || r.lat.sp == S_NINF) { r.st = REJECT; r.why = "latitude out of range"; return r; }
  if (r.lat.sp == FINITE) {
    Q al = qabs(r.lat.q); Q ninety(90);
    if (cmp(al, ninety) > 0) {
      // within the round-off of the double evaluation the library may see exactly 90
      if (cmp(al - ninety, Q::from_double(r.lat.tol)) <= 0 || r.lat.huge) { r.st = GREY; r.why = "latitude within round-off of 90"; }
      else { r.st = REJECT; r.why = "latitude out of range"; }
    }
    // ... and the other way round: a latitude that is in range in exact arithmetic but is the sum of pieces so large that the double
    // evaluation cannot resolve it ("4...800-4...400-400": exactly 0, -400 in doubles) may legitimately be seen out of range
    else if (r.lat.tol > 1e-9 && cmp(al + Q::from_double(r.lat.tol), ninety) > 0) { r.st = GREY; r.why = "latitude within the round-off of its pieces of 90"; }
  }
  return r;
}

}  // namespace refdms
