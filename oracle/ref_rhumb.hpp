// Reference rhumb line (loxodrome) on an ellipsoid of revolution.  No GeographicLib code, no series in
// the flattening, no elliptic functions, no divided-difference formulas: every quantity comes from its
// defining expression, evaluated in T = __float128 (or long double) with panelled Gauss-Legendre
// quadrature whose panel width is tied to the distance to the nearest complex singularity of the
// integrand (ellipsoid: 1 - e^2 sin^2 phi = 0; Mercator: cos phi = 0), so convergence is geometric for
// every b/a in [0.01, 100].  The extra ~60 bits absorb the cancellations (nearby points, nearly
// east-west courses) that the library needs special formulas for.
//
//   psi(phi)  = asinh(tan phi) - e atanh(e sin phi)        isometric latitude (atan form for e^2 < 0)
//   m(phi)    = int_0^phi a(1-e^2)/(1-e^2 sin^2)^(3/2)      meridian distance (quadrature)
//   R(phi)    = a cos phi / sqrt(1-e^2 sin^2 phi)          radius of the parallel
//   Q(phi)    = b^2/2 [ sin/(1-e^2 sin^2) + atanh(e sin)/e ]  area between equator and parallel per
//                                                           radian of longitude;  Q(90) = c^2
// inverse:  lam12 = (lon2-lon1) reduced to [-180,180], +180 on ties (east-going);  psi12 = int dpsi;
//           azi12 = atan2(lam12, psi12);  s12 = hypot(lam12, psi12) * (dm / psi12)  (dm, psi12 are
//           integrals over the SAME panels, so the 0/0 of nearby latitudes is harmless);  equal latitudes:
//           s12 = R |lam12|;  S12 = int Q dlam = lam12 * (int Q dpsi) / psi12  (equal latitudes: Q lam12).
//           Pole end point: psi = +-inf -> azi12 = 0 / 180, s12 = |dm|, S12 = +-c^2 lam12 (the limit).
// direct:   M2 = m(lat1) + s12 cos(azi);  |M2| <= quarter meridian: lat2 = m^-1(M2) (Newton),
//           lam12 = sin(azi) s12 (psi12/dm)  [= tan(azi) psi12;  exactly east-west: s12 sin(azi)/R],
//           S12 = sin(azi) s12 (int Q dpsi)/dm;   |M2| > quarter meridian: the course crossed a pole,
//           latitude continues over the pole along the opposite meridian, longitude and area are NaN.
//
// Usage:
//   ref::RhumbRef<ref::q128> R(a, f);                 // build once per ellipsoid (caches m-breakpoints)
//   auto iv = R.inverse(lat1, lon1, lat2, lon2);      // iv.s12 [m], iv.azi12 [deg], iv.S12 [m^2], iv.lon12 [deg],
//                                                     // iv.tie (|lon12| was exactly 180), iv.pole, iv.degenerate
//   auto dr = R.direct(lat1, lon1, azi12, s12);       // dr.lat2, dr.lon12 (unrolled change, deg), dr.lon2 (= lon1+lon12),
//                                                     // dr.S12, dr.crossed (lon/S12 are NaN), dr.mu2 (unfolded
//                                                     // rectifying latitude, deg: |mu2| > 90 <=> crossed), dr.from_pole
//   R.psi(lat) R.merid(lat) R.circle_radius(lat) R.Qzone(lat) R.quarter_meridian() R.ellipsoid_area()
// All angles in degrees, arguments may be T-valued (e.g. chained results).  Throws std::runtime_error if an
// internal cross-check (closed-form psi versus quadrature) or a Newton iteration fails.
#pragma once
#include <algorithm>
#include <limits>
#include <stdexcept>
#include <vector>
#include "oracle/ref_num.hpp"

namespace ref {

template <class T> struct RhumbGLOrder { static const int n = 24; };
template <> struct RhumbGLOrder<long double> { static const int n = 14; };

template <class T> struct RhumbInv {
  T s12, azi12, S12, lon12, psi12, dm;   // dm = signed meridian-distance difference
  T qpsi;                                // int Q dpsi over the course (0 when not computed)
  bool tie, pole, degenerate;            // degenerate: both end points at poles (azimuth / area undefined)
};
template <class T> struct RhumbDir {
  T lat2, lon12, lon2, S12, mu2;
  T psi12, dm, qpsi;                     // integrals over the course (0 for east-west / undefined courses)
  bool crossed, from_pole, at_pole;      // at_pole: |M2| == quarter meridian exactly
};

template <class T> struct RhumbRef {
  T a, f, f1, b, e2, e2m, ae, c2, Qm, delta;
  int shape;                             // +1 oblate, 0 sphere, -1 prolate
  std::vector<T> bp, cum;                // graded breakpoints on [0,90] deg and cumulative meridian distance
  static T inf() { return (T)std::numeric_limits<double>::infinity(); }
  static T nan() { return (T)std::numeric_limits<double>::quiet_NaN(); }
  static T tiny() { return 64 * eps_of<T>::v(); }

  RhumbRef(T a_, T f_) : a(a_), f(f_) {
    f1 = 1 - f; b = a * f1; e2 = f * (2 - f); e2m = f1 * f1; ae = sqrt(fabs(e2));
    shape = e2 > 0 ? 1 : e2 < 0 ? -1 : 0;
    delta = shape == 0 ? inf() : shape > 0 ? acosh(1 / ae) : asinh(1 / ae);
    c2 = Qsc(1, 0);
    // breakpoints for the meridian integrand (only the ellipsoid singularity matters)
    bp.push_back(0); cum.push_back(0);
    T x = 0;
    while (x < 90) {
      T w = dsing(x, false) / 2 / deg<T>(), xn = x + w;
      if (!(xn < 90) || 90 - xn < w / 8) xn = 90;
      cum.push_back(cum.back() + gl<T>(RhumbGLOrder<T>::n).panel([this](T y) { return rho_at(y); }, x, xn) * deg<T>());
      bp.push_back(xn); x = xn;
    }
    Qm = cum.back();
  }

  // ---- point functions (latitude in degrees)
  // 1 - e^2 sin^2 phi as a sum of positive terms: from the cosine (oblate), from the sine (prolate)
  T wfun(T s, T c) const { return e2 > 0 ? e2m + e2 * c * c : 1 - e2 * s * s; }
  // atanh(e sin phi)/e (oblate, via asinh so that e sin phi -> 1 is harmless), atan form for prolate, sin phi for the sphere
  T tfun(T s, T w) const { return shape == 0 ? s : shape > 0 ? asinh(ae * s / sqrt(w)) / ae : atan(ae * s) / ae; }
  T rho_at(T x) const { T s, c; sincosd<T>(x, s, c); T w = wfun(s, c); return a * e2m / (w * sqrt(w)); }
  T nu_at(T x) const { T s, c; sincosd<T>(x, s, c); return a / sqrt(wfun(s, c)); }
  T circle_radius(T x) const { T s, c; sincosd<T>(x, s, c); return a * c / sqrt(wfun(s, c)); }
  T Qsc(T s, T c) const { T w = wfun(s, c); return b * b / 2 * (s / w + tfun(s, w)); }
  T Qzone(T x) const { T s, c; sincosd<T>(x, s, c); return Qsc(s, c); }
  T psi(T x) const {
    T s, c; sincosd<T>(x, s, c);
    if (c == 0) return s > 0 ? inf() : -inf();
    T d = shape == 0 ? (T)0 : shape > 0 ? ae * asinh(ae * s / sqrt(wfun(s, c))) : -ae * atan(ae * s);
    return asinh(s / c) - d;
  }
  T quarter_meridian() const { return Qm; }
  T ellipsoid_area() const { return 4 * pi<T>() * c2; }

  // distance (radians) from the real point x to the nearest singularity of the integrands
  T dsing(T x, bool polesing) const {
    T ax = fabs(x), d = shape == 0 ? inf() : shape > 0 ? hypot((90 - ax) * deg<T>(), delta) : hypot(ax * deg<T>(), delta);
    if (polesing) { T dp = (90 - ax) * deg<T>(); if (dp < d) d = dp; }
    if (shape == 0 && !polesing) d = 4;
    return d;
  }
  // out[k] = integral of f_k over latitude [xa,xb] (degrees); f(sin phi, cos phi, v) gives the integrands per radian.
  // Graded panels (width = half the distance to the nearest singularity).  Polewards of 45 deg the integration
  // variable is the colatitude, so that nodes next to a pole keep full *relative* accuracy of cos(phi).
  template <int K, class F> void quadv(T xa, T xb, bool polesing, F&& f, T* out) const {
    for (int k = 0; k < K; ++k) out[k] = 0;
    if (xa == xb) return;
    T lo = xa < xb ? xa : xb, hi = xa < xb ? xb : xa, cut[4]; int nc = 0;
    cut[nc++] = lo; if (lo < -45 && hi > -45) cut[nc++] = -45; if (lo < 45 && hi > 45) cut[nc++] = 45; cut[nc++] = hi;
    for (int i = 0; i + 1 < nc; ++i) {
      T p = cut[i], q = cut[i + 1], part[K];
      if (q <= -45) segment<K>(-1, 90 + p, 90 + q, polesing, f, part);        // u = 90 + x
      else if (p >= 45) segment<K>(1, 90 - q, 90 - p, polesing, f, part);      // u = 90 - x
      else segment<K>(0, p, q, polesing, f, part);
      for (int k = 0; k < K; ++k) out[k] += xb > xa ? part[k] : -part[k];
    }
  }
  // cap = +-1: variable u = colatitude from that pole (deg), v0 < v1;  cap = 0: variable = latitude
  template <int K, class F> void segment(int cap, T v0, T v1, bool polesing, F&& f, T* out) const {
    for (int k = 0; k < K; ++k) out[k] = 0;
    const GL<T>& g = gl<T>(RhumbGLOrder<T>::n);
    auto dist = [&](T v) {
      T colat = cap ? v : 90 - fabs(v);
      T d = shape == 0 ? inf() : shape > 0 ? hypot(colat * deg<T>(), delta) : hypot((90 - colat) * deg<T>(), delta);
      if (polesing) { T dp = colat * deg<T>(); if (dp < d) d = dp; }
      if (d > 4) d = 4;
      return d; };
    // step from v1 down to v0 in a cap (towards the pole: panels halve), upwards otherwise
    bool down = cap != 0;
    T v = down ? v1 : v0, vend = down ? v0 : v1; long guard = 0;
    while (v != vend) {
      T d = dist(v);
      if (!(d > 0)) throw std::runtime_error("ref_rhumb: quadrature started on a singularity");
      T w = d / 2 / deg<T>(), vn = down ? v - w : v + w;
      if (down ? !(vn > vend) : !(vn < vend)) vn = vend; else if (fabs(vend - vn) < w / 8) vn = vend;
      T a0 = down ? vn : v, a1 = down ? v : vn, h = (a1 - a0) / 2, m = (a0 + a1) / 2, val[K], acc[K];
      for (int k = 0; k < K; ++k) acc[k] = 0;
      for (int i = 0; i < g.n; ++i) {
        T y = m + h * g.x[i], sy, cy; sincosd<T>(y, sy, cy);
        if (cap) f(cap * cy, sy, val); else f(sy, cy, val);      // sin(phi) = +-cos(u), cos(phi) = sin(u)
        for (int k = 0; k < K; ++k) acc[k] += g.w[i] * val[k];
      }
      for (int k = 0; k < K; ++k) out[k] += acc[k] * h * deg<T>();
      v = vn;
      if (++guard > 100000) throw std::runtime_error("ref_rhumb: too many panels");
    }
  }
  long npanels(T xa, T xb, bool polesing) const {
    long n = 0; if (xa == xb) return 0;
    int dir = xb > xa ? 1 : -1; T x = xa;
    while (x != xb) { T w = dsing(x, polesing) / 2 / deg<T>(), xn = x + dir * w;
      if (dir > 0 ? !(xn < xb) : !(xn > xb)) xn = xb; else if (fabs(xb - xn) < w / 8) xn = xb;
      x = xn; if (++n > 100000) break; }
    return n;
  }
  // meridian distance from the equator (cached breakpoints + one partial panel)
  T merid(T x) const {
    T ax = fabs(x); if (ax > 90) throw std::runtime_error("ref_rhumb: latitude out of range");
    size_t k = std::upper_bound(bp.begin(), bp.end(), ax) - bp.begin() - 1;
    if (k + 1 >= bp.size()) return x > 0 ? Qm : -Qm;
    T r = cum[k];
    if (ax > bp[k]) r += gl<T>(RhumbGLOrder<T>::n).panel([this](T y) { return rho_at(y); }, bp[k], ax) * deg<T>();
    return x < 0 ? -r : r;
  }
  // signed difference m(x2) - m(x1); integrated directly when the points are close
  T dmerid(T x1, T x2) const {
    if (npanels(x1, x2, false) <= 2) { T o[1]; quadv<1>(x1, x2, false, [this](T s, T c, T* v) { T w = wfun(s, c); v[0] = a * e2m / (w * sqrt(w)); }, o); return o[0]; }
    return merid(x2) - merid(x1);
  }
  // inverse of merid for |M| <= Qm
  T merid_inv(T M) const {
    T am = fabs(M); if (am > Qm) throw std::runtime_error("ref_rhumb: merid_inv out of range");
    if (am == Qm) return M > 0 ? 90 : -90;
    size_t k = std::upper_bound(cum.begin(), cum.end(), am) - cum.begin() - 1;
    if (k + 1 >= bp.size()) k = bp.size() - 2;
    T lo = bp[k], hi = bp[k + 1], x = lo + (hi - lo) * (am - cum[k]) / (cum[k + 1] - cum[k]);
    const GL<T>& g = gl<T>(RhumbGLOrder<T>::n);
    T prev = inf();
    for (int it = 0; it < 100; ++it) {
      T mv = cum[k] + g.panel([this](T y) { return rho_at(y); }, lo, x) * deg<T>();
      T dx = (mv - am) / (rho_at(x) * deg<T>()), xn = x - dx;
      if (xn < lo) xn = lo; if (xn > hi) xn = hi;
      T step = fabs(xn - x);
      // converged: step at round-off level, or (quadratic phase over) the step no longer shrinks because it is
      // dominated by the round-off of the quadrature sum, eps * Qm / (rho deg)
      bool done = step <= tiny() * 90 || (it >= 2 && step >= prev && step <= (T)1e4 * eps_of<T>::v() * (90 + Qm / (rho_at(x) * deg<T>())));
      x = xn; prev = step; if (done) return M < 0 ? -x : x;
    }
    throw std::runtime_error("ref_rhumb: merid_inv did not converge");
  }

  // the three integrals over [x1,x2]: psi12, dm, int Q dpsi  (x1, x2 not poles)
  void course_integrals(T x1, T x2, T& psi12, T& dm, T& qpsi) const {
    T o[3];
    quadv<3>(x1, x2, true, [this](T s, T c, T* v) {
      T w = wfun(s, c), dpsi = e2m / (w * c);
      v[0] = dpsi; v[1] = a * e2m / (w * sqrt(w)); v[2] = b * b / 2 * (s / w + tfun(s, w)) * dpsi; }, o);
    psi12 = o[0]; dm = o[1]; qpsi = o[2];
    // cross-check against the closed form wherever the latter does not suffer cancellation
    T pc = psi(x2) - psi(x1), big = std::max<T>(fabs(psi(x1)), fabs(psi(x2)));
    T lim = (T)1e4 * tiny() * (fabs(psi12) + big * (shape > 0 ? 1 / e2m : (T)1));
    if (!(fabs(pc - psi12) <= lim)) throw std::runtime_error("ref_rhumb: psi12 quadrature / closed form disagree");
  }

  RhumbInv<T> inverse(T lat1, T lon1, T lat2, T lon2) const {
    RhumbInv<T> r; r.degenerate = false; r.qpsi = 0;
    // lon2 - lon1 by an error-free two-sum so that an exact +-180 is recognised reliably
    T sm = lon2 - lon1, bv = sm - lon2, er = (lon2 - (sm - bv)) + (-lon1 - bv);
    T d = remainder(sm, (T)360);
    r.tie = fabs(d) == 180 && er == 0; if (r.tie) d = 180;
    else if (d == 180 && er > 0) d = -180; else if (d == -180 && er < 0) d = 180;
    r.lon12 = d; T lam12 = d * deg<T>();
    bool p1 = fabs(lat1) == 90, p2 = fabs(lat2) == 90;
    r.pole = p1 || p2;
    if (r.pole) {
      r.dm = dmerid(lat1, lat2); r.s12 = fabs(r.dm);
      if (p1 && p2) { r.degenerate = true; r.psi12 = lat1 == lat2 ? nan() : (lat2 > 0 ? inf() : -inf());
        r.azi12 = lat1 == lat2 ? nan() : atan2(lam12, r.psi12) / deg<T>(); r.S12 = lat1 == lat2 ? (lat1 > 0 ? c2 : -c2) * lam12 : nan(); return r; }
      T polelat = p2 ? lat2 : lat1;
      r.psi12 = (p2 ? (lat2 > 0) : (lat1 < 0)) ? inf() : -inf();
      r.azi12 = atan2(lam12, r.psi12) / deg<T>();
      r.S12 = (polelat > 0 ? c2 : -c2) * lam12;
      return r;
    }
    if (lat1 == lat2) {
      r.psi12 = 0; r.dm = 0; r.azi12 = atan2(lam12, (T)0) / deg<T>();
      r.s12 = circle_radius(lat1) * fabs(lam12); r.S12 = Qzone(lat1) * lam12; return r;
    }
    T qpsi; course_integrals(lat1, lat2, r.psi12, r.dm, qpsi); r.qpsi = qpsi;
    r.azi12 = atan2(lam12, r.psi12) / deg<T>();
    r.s12 = hypot(lam12, r.psi12) * (r.dm / r.psi12);
    r.S12 = lam12 * (qpsi / r.psi12);
    return r;
  }

  RhumbDir<T> direct(T lat1, T lon1, T azi12, T s12) const {
    RhumbDir<T> r; r.crossed = false; r.at_pole = false; r.from_pole = fabs(lat1) == 90;
    T salp, calp; sincosd<T>(azi12, salp, calp);
    T m1 = merid(lat1), dM = s12 * calp, M2 = m1 + dM;
    r.mu2 = M2 / Qm * 90; r.lon12 = nan(); r.lon2 = nan(); r.S12 = nan(); r.psi12 = 0; r.dm = 0; r.qpsi = 0;
    if (fabs(M2) > Qm) {
      r.crossed = true;
      T q = remainder(M2, 4 * Qm);
      if (fabs(q) > Qm) q = copysign(2 * Qm, q) - q;
      r.lat2 = merid_inv(q); return r;
    }
    if (fabs(M2) == Qm) { r.at_pole = true; r.lat2 = M2 > 0 ? 90 : -90; if (!(r.from_pole && dM == 0)) return r; }
    if (r.from_pole) {           // longitude of a course leaving a pole is indeterminate (unless it does not move)
      r.lat2 = dM == 0 ? lat1 : merid_inv(M2);
      if (s12 == 0) { r.lon12 = 0; r.lon2 = lon1; r.S12 = 0; }
      return r;
    }
    // latitude of point 2
    if (dM == 0) r.lat2 = lat1;
    else if (fabs(dM) < (T)1e-6 * Qm) {
      T rd = rho_at(lat1) * deg<T>(), del = dM / rd; bool ok = false;
      T prevs = inf();
      for (int it = 0; it < 60; ++it) {
        T x = lat1 + del; if (x > 90) x = 90; if (x < -90) x = -90;
        T o[1]; quadv<1>(lat1, x, false, [this](T s, T c, T* v) { T w = wfun(s, c); v[0] = a * e2m / (w * sqrt(w)); }, o);
        T g = o[0] - dM, dn = (x - lat1) - g / (rho_at(x) * deg<T>());
        T step = fabs(dn - del);
        bool done = step <= tiny() * fabs(dn) || (it >= 2 && step >= prevs && step <= (T)1e4 * eps_of<T>::v() * fabs(dn));
        del = dn; prevs = step; if (done) { ok = true; break; }
      }
      if (!ok) throw std::runtime_error("ref_rhumb: local latitude solve did not converge");
      r.lat2 = lat1 + del;
    } else r.lat2 = merid_inv(M2);
    if (r.lat2 == lat1 || calp == 0) {     // east-west course
      T lam = s12 * salp / circle_radius(lat1);
      if (calp != 0 && r.lat2 == lat1) { /* dM below resolution of T: still east-west to 1e-34 */ }
      r.lon12 = lam / deg<T>(); r.lon2 = lon1 + r.lon12; r.S12 = Qzone(lat1) * lam; return r;
    }
    if (fabs(r.lat2) == 90) { r.at_pole = true; return r; }
    T psi12, dm, qpsi; course_integrals(lat1, r.lat2, psi12, dm, qpsi);
    r.psi12 = psi12; r.dm = dm; r.qpsi = qpsi;
    T lam = salp * s12 * (psi12 / dm);
    r.lon12 = lam / deg<T>(); r.lon2 = lon1 + r.lon12; r.S12 = salp * s12 * (qpsi / dm);
    return r;
  }
};

}  // namespace ref
