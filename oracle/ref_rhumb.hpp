// Reference rhumb line (loxodrome) on an ellipsoid of revolution.  No GeographicLib code, no series in
// the flattening, no elliptic functions, no divided-difference formulas: every quantity comes from its
// defining expression, evaluated in T = __float128 (or long double) with panelled Gauss-Legendre
// quadrature whose panel width is tied to the distance to the nearest complex singularity of the
// integrand (ellipsoid: 1 - e^2 sin^2 phi = 0; Mercator: cos phi = 0), so convergence is geometric for
// every b/a in [0.01, 100].  The extra ~60 bits absorb the cancellations (nearby points, nearly
// east-west courses) that the library needs special formulas for.
//
//   psi(phi)  = asinh(tan phi) - e atanh(e sin phi)        isometric latitude (atan form for e^2 < 0)
//   m(phi)    = int_0^phi a(1-e^2)/(1-e^2 sin^2)^(3/2)      meridian distance (quadrature)
//   R(phi)    = a cos phi / sqrt(1-e^2 sin^2 phi)          radius of the parallel
//   Q(phi)    = b^2/2 [ sin/(1-e^2 sin^2) + atanh(e sin)/e ]  area between equator and parallel per
//                                                           radian of longitude;  Q(90) = c^2
// inverse:  lam12 = (lon2-lon1) reduced to [-180,180], +180 on ties (east-going);  psi12 = int dpsi;
//           azi12 = atan2(lam12, psi12);  s12 = hypot(lam12, psi12) * (dm / psi12)  (dm, psi12 are
//           integrals over the SAME panels, so the 0/0 of nearby latitudes is harmless);  equal latitudes:
//           s12 = R |lam12|;  S12 = int Q dlam = lam12 * (int Q dpsi) / psi12  (equal latitudes: Q lam12).
//           Pole end point: psi = +-inf -> azi12 = 0 / 180, s12 = |dm|, S12 = +-c^2 lam12 (the limit).
// direct:   M2 = m(lat1) + s12 cos(azi);  |M2| <= quarter meridian: lat2 = m^-1(M2) (Newton),
//           lam12 = sin(azi) s12 (psi12/dm)  [= tan(azi) psi12;  exactly east-west: s12 sin(azi)/R],
//           S12 = sin(azi) s12 (int Q dpsi)/dm;   |M2| > quarter meridian: the course crossed a pole,
//           latitude continues over the pole along the opposite meridian, longitude and area are NaN.
//
// Usage:
//   ref::RhumbRef<ref::q128> R(a, f);                 // build once per ellipsoid (caches m-breakpoints)
//   auto iv = R.inverse(lat1, lon1, lat2, lon2);      // iv.s12 [m], iv.azi12 [deg], iv.S12 [m^2], iv.lon12 [deg],
//                                                     // iv.tie (|lon12| was exactly 180), iv.pole, iv.degenerate
//   auto dr = R.direct(lat1, lon1, azi12, s12);       // dr.lat2, dr.lon12 (unrolled change, deg), dr.lon2 (= lon1+lon12),
//                                                     // dr.S12, dr.crossed (lon/S12 are NaN), dr.mu2 (unfolded
//                                                     // rectifying latitude, deg: |mu2| > 90 <=> crossed), dr.from_pole
//   R.psi(lat) R.merid(lat) R.circle_radius(lat) R.Qzone(lat) R.quarter_meridian() R.ellipsoid_area()
// All angles in degrees, arguments may be T-valued (e.g. chained results).  Throws std::runtime_error if an
// internal cross-check (closed-form psi versus quadrature) or a Newton iteration fails.
#pragma once
#include <algorithm>
#include <limits>
#include <stdexcept>
#include <vector>
#include "oracle/ref_num.hpp"

namespace ref {

template <class T> struct RhumbGLOrder { static const int n = 24; };
template <> struct RhumbGLOrder<long double> { static const int n = 14; };

template <class T> struct RhumbInv {
  T s12, azi12, S12, lon12, psi12, dm;   // dm = signed meridian-distance difference
  bool tie, pole, degenerate;            // degenerate: both end points at poles (azimuth / area undefined)
};
template <class T> struct RhumbDir {
  T lat2, lon12, lon2, S12, mu2;
  bool crossed, from_pole, at_pole;      // at_pole: |M2| == quarter meridian exactly
};

template <class T> struct RhumbRef {
  T a, f, f1, b, e2, e2m, ae, c2, Qm, delta;
  int shape;                             // +1 oblate, 0 sphere, -1 prolate
  std::vector<T> bp, cum;                // graded breakpoints on [0,90] deg and cumulative meridian distance
  static T inf() { return (T)std::numeric_limits<double>::infinity(); }
  static T nan() { return (T)std::numeric_limits<double>::quiet_NaN(); }
  static T tiny() { return 64 * eps_of<T>::v(); }

  RhumbRef(T a_, T f_) : a(a_), f(f_) {
    f1 = 1 - f; b = a * f1; e2 = f * (2 - f); e2m = f1 * f1; ae = sqrt(fabs(e2));
    shape = e2 > 0 ? 1 : e2 < 0 ? -1 : 0;
    delta = shape == 0 ? inf() : shape > 0 ? acosh(1 / ae) : asinh(1 / ae);
    c2 = Qs(1);
    // breakpoints for the meridian integrand (only the ellipsoid singularity matters)
    bp.push_back(0); cum.push_back(0);
    T x = 0;
    while (x < 90) {
      T w = dsing(x, false) / 2 / deg<T>(), xn = x + w;
      if (!(xn < 90) || 90 - xn < w / 8) xn = 90;
      cum.push_back(cum.back() + gl<T>(RhumbGLOrder<T>::n).panel([this](T y) { return rho_at(y); }, x, xn) * deg<T>());
      bp.push_back(xn); x = xn;
    }
    Qm = cum.back();
  }

  // ---- point functions (latitude in degrees)
  T wfun(T c) const { return e2m + e2 * c * c; }                    // 1 - e^2 sin^2 phi, from the cosine
  T rho_at(T x) const { T s, c; sincosd<T>(x, s, c); T w = wfun(c); return a * e2m / (w * sqrt(w)); }
  T circle_radius(T x) const { T s, c; sincosd<T>(x, s, c); return a * c / sqrt(wfun(c)); }
  T Qs(T s) const {                                                 // Q as a function of sin(phi)
    T t = shape == 0 ? s : shape > 0 ? atanh(ae * s) / ae : atan(ae * s) / ae;
    return b * b / 2 * (s / (1 - e2 * s * s) + t);
  }
  T Qzone(T x) const { T s, c; sincosd<T>(x, s, c); T t = shape == 0 ? s : shape > 0 ? atanh(ae * s) / ae : atan(ae * s) / ae;
    return b * b / 2 * (s / wfun(c) + t); }
  T psi(T x) const {
    T s, c; sincosd<T>(x, s, c);
    if (c == 0) return s > 0 ? inf() : -inf();
    T d = shape == 0 ? (T)0 : shape > 0 ? ae * atanh(ae * s) : -ae * atan(ae * s);
    return asinh(s / c) - d;
  }
  T quarter_meridian() const { return Qm; }
  T ellipsoid_area() const { return 4 * pi<T>() * c2; }

  // distance (radians) from the real point x to the nearest singularity of the integrands
  T dsing(T x, bool polesing) const {
    T ax = fabs(x), d = shape == 0 ? inf() : shape > 0 ? hypot((90 - ax) * deg<T>(), delta) : hypot(ax * deg<T>(), delta);
    if (polesing) { T dp = (90 - ax) * deg<T>(); if (dp < d) d = dp; }
    if (shape == 0 && !polesing) d = 4;
    return d;
  }
  // out[k] += integral of f_k over [xa,xb] (degrees), f given per radian;  graded panels
  template <int K, class F> void quadv(T xa, T xb, bool polesing, F&& f, T* out) const {
    for (int k = 0; k < K; ++k) out[k] = 0;
    if (xa == xb) return;
    const GL<T>& g = gl<T>(RhumbGLOrder<T>::n);
    int dir = xb > xa ? 1 : -1; T x = xa; long guard = 0;
    while (x != xb) {
      T d = dsing(x, polesing);
      if (!(d > 0)) throw std::runtime_error("ref_rhumb: quadrature started on a singularity");
      T w = d / 2 / deg<T>(), xn = x + dir * w;
      if (dir > 0 ? !(xn < xb) : !(xn > xb)) xn = xb;
      else if (fabs(xb - xn) < w / 8) xn = xb;
      T h = (xn - x) / 2, m = (x + xn) / 2, v[K];
      T acc[K]; for (int k = 0; k < K; ++k) acc[k] = 0;
      for (int i = 0; i < g.n; ++i) { f(m + h * g.x[i], v); for (int k = 0; k < K; ++k) acc[k] += g.w[i] * v[k]; }
      for (int k = 0; k < K; ++k) out[k] += acc[k] * h * deg<T>();
      x = xn;
      if (++guard > 100000) throw std::runtime_error("ref_rhumb: too many panels");
    }
  }
  long npanels(T xa, T xb, bool polesing) const {
    long n = 0; if (xa == xb) return 0;
    int dir = xb > xa ? 1 : -1; T x = xa;
    while (x != xb) { T w = dsing(x, polesing) / 2 / deg<T>(), xn = x + dir * w;
      if (dir > 0 ? !(xn < xb) : !(xn > xb)) xn = xb; else if (fabs(xb - xn) < w / 8) xn = xb;
      x = xn; if (++n > 100000) break; }
    return n;
  }
  // meridian distance from the equator (cached breakpoints + one partial panel)
  T merid(T x) const {
    T ax = fabs(x); if (ax > 90) throw std::runtime_error("ref_rhumb: latitude out of range");
    size_t k = std::upper_bound(bp.begin(), bp.end(), ax) - bp.begin() - 1;
    if (k + 1 >= bp.size()) return x > 0 ? Qm : -Qm;
    T r = cum[k];
    if (ax > bp[k]) r += gl<T>(RhumbGLOrder<T>::n).panel([this](T y) { return rho_at(y); }, bp[k], ax) * deg<T>();
    return x < 0 ? -r : r;
  }
  // signed difference m(x2) - m(x1); integrated directly when the points are close
  T dmerid(T x1, T x2) const {
    if (npanels(x1, x2, false) <= 2) { T o[1]; quadv<1>(x1, x2, false, [this](T y, T* v) { v[0] = rho_at(y); }, o); return o[0]; }
    return merid(x2) - merid(x1);
  }
  // inverse of merid for |M| <= Qm
  T merid_inv(T M) const {
    T am = fabs(M); if (am > Qm) throw std::runtime_error("ref_rhumb: merid_inv out of range");
    if (am == Qm) return M > 0 ? 90 : -90;
    size_t k = std::upper_bound(cum.begin(), cum.end(), am) - cum.begin() - 1;
    if (k + 1 >= bp.size()) k = bp.size() - 2;
    T lo = bp[k], hi = bp[k + 1], x = lo + (hi - lo) * (am - cum[k]) / (cum[k + 1] - cum[k]);
    const GL<T>& g = gl<T>(RhumbGLOrder<T>::n);
    for (int it = 0; it < 100; ++it) {
      T mv = cum[k] + g.panel([this](T y) { return rho_at(y); }, lo, x) * deg<T>();
      T dx = (mv - am) / (rho_at(x) * deg<T>()), xn = x - dx;
      if (xn < lo) xn = lo; if (xn > hi) xn = hi;
      bool done = fabs(xn - x) <= tiny() * 90;
      x = xn; if (done) return M < 0 ? -x : x;
    }
    throw std::runtime_error("ref_rhumb: merid_inv did not converge");
  }

  // the three integrals over [x1,x2]: psi12, dm, int Q dpsi  (x1, x2 not poles)
  void course_integrals(T x1, T x2, T& psi12, T& dm, T& qpsi) const {
    T o[3];
    quadv<3>(x1, x2, true, [this](T y, T* v) {
      T s, c; sincosd<T>(y, s, c); T w = wfun(c), dpsi = e2m / (w * c);
      T t = shape == 0 ? s : shape > 0 ? atanh(ae * s) / ae : atan(ae * s) / ae;
      v[0] = dpsi; v[1] = a * e2m / (w * sqrt(w)); v[2] = b * b / 2 * (s / w + t) * dpsi; }, o);
    psi12 = o[0]; dm = o[1]; qpsi = o[2];
    // cross-check against the closed form wherever the latter does not suffer cancellation
    T pc = psi(x2) - psi(x1), big = std::max<T>(fabs(psi(x1)), fabs(psi(x2)));
    T lim = (T)1e4 * tiny() * (fabs(psi12) + big * (shape > 0 ? 1 / e2m : (T)1));
    if (!(fabs(pc - psi12) <= lim)) throw std::runtime_error("ref_rhumb: psi12 quadrature / closed form disagree");
  }

  RhumbInv<T> inverse(T lat1, T lon1, T lat2, T lon2) const {
    RhumbInv<T> r; r.degenerate = false;
    T d = remainder(lon2 - lon1, (T)360);
    r.tie = fabs(d) == 180; if (r.tie) d = 180;
    r.lon12 = d; T lam12 = d * deg<T>();
    bool p1 = fabs(lat1) == 90, p2 = fabs(lat2) == 90;
    r.pole = p1 || p2;
    if (r.pole) {
      r.dm = merid(lat2) - merid(lat1); r.s12 = fabs(r.dm);
      if (p1 && p2) { r.degenerate = true; r.psi12 = lat1 == lat2 ? nan() : (lat2 > 0 ? inf() : -inf());
        r.azi12 = lat1 == lat2 ? nan() : atan2(lam12, r.psi12) / deg<T>(); r.S12 = lat1 == lat2 ? (lat1 > 0 ? c2 : -c2) * lam12 : nan(); return r; }
      T polelat = p2 ? lat2 : lat1;
      r.psi12 = (p2 ? (lat2 > 0) : (lat1 < 0)) ? inf() : -inf();
      r.azi12 = atan2(lam12, r.psi12) / deg<T>();
      r.S12 = (polelat > 0 ? c2 : -c2) * lam12;
      return r;
    }
    if (lat1 == lat2) {
      r.psi12 = 0; r.dm = 0; r.azi12 = atan2(lam12, (T)0) / deg<T>();
      r.s12 = circle_radius(lat1) * fabs(lam12); r.S12 = Qzone(lat1) * lam12; return r;
    }
    T qpsi; course_integrals(lat1, lat2, r.psi12, r.dm, qpsi);
    r.azi12 = atan2(lam12, r.psi12) / deg<T>();
    r.s12 = hypot(lam12, r.psi12) * (r.dm / r.psi12);
    r.S12 = lam12 * (qpsi / r.psi12);
    return r;
  }

  RhumbDir<T> direct(T lat1, T lon1, T azi12, T s12) const {
    RhumbDir<T> r; r.crossed = false; r.at_pole = false; r.from_pole = fabs(lat1) == 90;
    T salp, calp; sincosd<T>(azi12, salp, calp);
    T m1 = merid(lat1), dM = s12 * calp, M2 = m1 + dM;
    r.mu2 = M2 / Qm * 90; r.lon12 = nan(); r.lon2 = nan(); r.S12 = nan();
    if (fabs(M2) > Qm) {
      r.crossed = true;
      T q = remainder(M2, 4 * Qm);
      if (fabs(q) > Qm) q = copysign(2 * Qm, q) - q;
      r.lat2 = merid_inv(q); return r;
    }
    if (fabs(M2) == Qm) { r.at_pole = true; r.lat2 = M2 > 0 ? 90 : -90; if (!(r.from_pole && dM == 0)) return r; }
    if (r.from_pole) {           // longitude of a course leaving a pole is indeterminate (unless it does not move)
      r.lat2 = dM == 0 ? lat1 : merid_inv(M2);
      if (s12 == 0) { r.lon12 = 0; r.lon2 = lon1; r.S12 = 0; }
      return r;
    }
    // latitude of point 2
    if (dM == 0) r.lat2 = lat1;
    else if (fabs(dM) < (T)1e-6 * Qm) {
      T rd = rho_at(lat1) * deg<T>(), del = dM / rd; bool ok = false;
      for (int it = 0; it < 60; ++it) {
        T x = lat1 + del; if (x > 90) x = 90; if (x < -90) x = -90;
        T o[1]; quadv<1>(lat1, x, false, [this](T y, T* v) { v[0] = rho_at(y); }, o);
        T g = o[0] - dM, dn = (x - lat1) - g / (rho_at(x) * deg<T>());
        bool done = fabs(dn - del) <= tiny() * fabs(dn);
        del = dn; if (done) { ok = true; break; }
      }
      if (!ok) throw std::runtime_error("ref_rhumb: local latitude solve did not converge");
      r.lat2 = lat1 + del;
    } else r.lat2 = merid_inv(M2);
    if (r.lat2 == lat1 || calp == 0) {     // east-west course
      T lam = s12 * salp / circle_radius(lat1);
      if (calp != 0 && r.lat2 == lat1) { /* dM below resolution of T: still east-west to 1e-34 */ }
      r.lon12 = lam / deg<T>(); r.lon2 = lon1 + r.lon12; r.S12 = Qzone(lat1) * lam; return r;
    }
    if (fabs(r.lat2) == 90) { r.at_pole = true; return r; }
    T psi12, dm, qpsi; course_integrals(lat1, r.lat2, psi12, dm, qpsi);
    T lam = salp * s12 * (psi12 / dm);
    r.lon12 = lam / deg<T>(); r.lon2 = lon1 + r.lon12; r.S12 = salp * s12 * (qpsi / dm);
    return r;
  }
};

}  // namespace ref
