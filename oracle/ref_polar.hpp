// Reference polar stereographic projection (Snyder, Map Projections -- A Working Manual, eqs. 21-33..21-41,
// 15-9; polar aspect) in the working type T (use __float128).  No GeographicLib code.
//   t   = tan(pi/4 - phi/2) / [(1 - e sin phi)/(1 + e sin phi)]^(e/2)          (15-9, phi measured towards the pole of projection)
//   rho = 2 a k0 t / sqrt((1+e)^(1+e) (1-e)^(1-e))                              (21-33)
//   x = rho sin(lam),  y = -/+ rho cos(lam)  (north / south aspect),  convergence gamma = +/- lam
//   k   = rho / (a m),  m = cos phi / sqrt(1 - e^2 sin^2 phi)  (21-32);  k = k0 at the pole  (21-35)
// Conventions of the result: north aspect: x = rho sin lam, y = -rho cos lam, gamma = lam;
//                            south aspect: x = rho sin lam, y = +rho cos lam, gamma = -lam   (lam = lon - lon0, here lon0 = 0)
#pragma once
#include "oracle/ref_num.hpp"

namespace ref {

template <class T> struct PolarRes { T x, y, gamma, k; };

// lat, lon in degrees; northp selects the aspect; a, f ellipsoid (f >= 0 or < 0), k0 scale at the pole
template <class T> inline PolarRes<T> polar_forward(T a, T f, T k0, bool northp, T lat, T lon) {
  PolarRes<T> r;
  T e2 = f * (2 - f), e = sqrt(fabs(e2));
  T phi = northp ? lat : -lat;                 // latitude towards the pole of the projection
  T s, c; sincosd(phi, s, c);                  // exact quadrant reduction
  // tan(pi/4 - phi/2) = cos phi / (1 + sin phi)  (= (1 - sin phi)/cos phi); choose the stable one
  T tq = s >= 0 ? c / (1 + s) : (1 - s) / c;
  T conf, C;                                   // [(1-e s)/(1+e s)]^(e/2) and sqrt((1+e)^(1+e)(1-e)^(1-e)); prolate: e -> i|e|
  if (e2 > 0) { conf = exp(-e * atanh(e * s)); C = sqrt(1 - e2) * exp(e * atanh(e)); }
  else if (e2 < 0) { conf = exp(e * atan(e * s)); C = sqrt(1 - e2) * exp(-e * atan(e)); }
  else { conf = 1; C = 1; }
  T t = tq / conf;
  T rho = 2 * a * k0 * t / C;
  T sl, cl; sincosd(lon, sl, cl);
  r.x = rho * sl;
  r.y = northp ? -rho * cl : rho * cl;
  r.gamma = northp ? lon : -lon;
  T m = c / sqrt(1 - e2 * s * s);
  r.k = c > 0 ? rho / (a * m) : k0;
  if (c <= 0 && s > 0) { r.x = 0; r.y = 0; }
  return r;
}

}  // namespace ref
