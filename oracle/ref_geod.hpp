// Reference geodesic on an ellipsoid of revolution (no GeographicLib code, no series, no
// elliptic functions): Bessel's auxiliary sphere with every integral (distance, longitude,
// reduced length, area) evaluated by panelled Gauss-Legendre quadrature in T = __float128 or
// long double.  Valid for oblate, spherical and prolate ellipsoids, any number of circuits.
//
//   s/b      = int sqrt(1 + k2 sin^2 sig) dsig                                  k2 = e'^2 cos^2 alp0
//   lam      = omg - f sin(alp0) int (2-f) / (1 + (1-f) sqrt(1 + k2 sin^2 sig)) dsig
//   J        = int k2 sin^2 sig / sqrt(1 + k2 sin^2 sig) dsig      (m12, M12, M21 from J)
//   S12      = c2 (alp2 - alp1) - e2 a^2 cos(alp0) sin(alp0) int g dsig,
//              g = [t(e'^2) - t(k2 sin^2 sig)] / [e'^2 - k2 sin^2 sig] sin(sig)/2,
//              t(x) = x + sqrt(1+x) asinh(sqrt x)/sqrt x
// A second, independent formulation (geodesic ODE + Jacobi equation + area integrand from the
// definition, RK4 with Richardson extrapolation) is in ref_geod_ode below and is used by the
// harness self-tests to validate this one.
#pragma once
#include "oracle/ref_num.hpp"

namespace ref {

template <class T> struct Ell {
  T a, f, b, e2, ep2, n, c2, f1;
  Ell(T a_, T f_) : a(a_), f(f_) {
    f1 = 1 - f; b = a * f1; e2 = f * (2 - f); ep2 = e2 / sq(f1); n = f / (2 - f);
    // authalic radius squared: c2 = a^2/2 + b^2/2 * atanh(e)/e
    T x;
    if (e2 == 0) x = 1;
    else if (e2 > 0) { T e = sqrt(e2); x = atanh(e) / e; }
    else { T e = sqrt(-e2); x = atan(e) / e; }
    c2 = (sq(a) + sq(b) * x) / 2;
  }
  T area() const { return 4 * pi<T>() * c2; }
  // radii of curvature at geographic latitude with sine sphi
  T nu(T sphi) const { return a / sqrt(1 - e2 * sq(sphi)); }
  T rho(T sphi) const { T w = 1 - e2 * sq(sphi); return a * (1 - e2) / (w * sqrt(w)); }
};

// t(x) = x + sqrt(1+x) * asinh(sqrt(x))/sqrt(x), analytic at 0 and for -1 < x < 0
template <class T> inline T t_area(T x) {
  if (fabs(x) < (T)1e-20) return x + 1 + x / 3;      // 1 + x/2 - ... times (1 - x/6 ...) ~ 1 + x/3
  if (x > 0) { T r = sqrt(x); return x + sqrt(1 + x) * asinh(r) / r; }
  T r = sqrt(-x); return x + sqrt(1 + x) * asin(r) / r;
}
// derivative t'(x)
template <class T> inline T t_area_d(T x) {
  if (fabs(x) < (T)1e-12) return 1 + (T)1 / 3 - 4 * x / 15;         // series: t = 1 + 4x/3 - 2x^2/15 ...
  // t = x + sqrt(1+x) A(x), A = asinh(sqrt x)/sqrt x ; A' = (1/sqrt(1+x) - A) / (2x)
  T A, s1 = sqrt(1 + x);
  if (x > 0) { T r = sqrt(x); A = asinh(r) / r; } else { T r = sqrt(-x); A = asin(r) / r; }
  T Ad = (1 / s1 - A) / (2 * x);
  return 1 + A / (2 * s1) + s1 * Ad;
}

template <class T> struct GeodPos {
  T lat2, lon12, azi2, s12, a12;        // degrees (lon12 unrolled: true signed longitude difference), metres
  T m12, M12, M21, S12;
  T sbet2, cbet2, salp2, calp2;         // for pole-safe comparisons
  T w2;                                 // ds/(b dsigma) at point 2
};

template <class T> struct GeodLine {
  Ell<T> E;
  T sbet1, cbet1, salp1, calp1, salp0, calp0, k2, ssig1, csig1, sig1, w1, sgn;   // sgn = +1 east-going, -1 west-going
  T wmax;                                                                         // quadrature panel width
  GeodLine(const Ell<T>& E_, T lat1, T azi1, bool azi_negative_zero = false) : E(E_) {
    T sphi, cphi; sincosd(lat1, sphi, cphi);
    // reduced latitude
    sbet1 = E.f1 * sphi; cbet1 = cphi;
    if (cbet1 == 0 || fabs(lat1) == 90) cbet1 = (T)1e-1000Q * 1;    // pole: documented limiting convention
    { T h = hypot(sbet1, cbet1); sbet1 /= h; cbet1 /= h; }
    sincosd(azi1, salp1, calp1);
    sgn = (salp1 < 0 || (salp1 == 0 && (azi1 < 0 || azi_negative_zero))) ? -1 : 1;
    salp1 = fabs(salp1);
    salp0 = salp1 * cbet1; calp0 = hypot(calp1, salp1 * sbet1);
    k2 = E.ep2 * sq(calp0);
    ssig1 = sbet1; csig1 = calp1 * cbet1;
    if (ssig1 == 0 && csig1 == 0) csig1 = 1;      // equatorial start heading east: sig1 = 0
    { T h = hypot(ssig1, csig1); ssig1 /= h; csig1 /= h; }
    sig1 = atan2(ssig1, csig1);                   // used only as a quadrature limit
    w1 = sqrt(1 + k2 * sq(ssig1));
    // distance from the real axis to the nearest branch point of sqrt(1 + k2 sin^2 sig)
    T d;
    if (k2 > 0) d = asinh(1 / sqrt(k2));
    else if (k2 < 0) { T ik = 1 / sqrt(-k2); d = ik > 1 ? acosh(ik) : (T)1e-3; }
    else d = 10;
    wmax = d < pi<T>() / 8 ? d : pi<T>() / 8;
    if (wmax < (T)2e-4) wmax = (T)2e-4;
  }
  // omega(sigma) - sigma, in [-pi/2, pi/2], from the (sin, cos) pair (no loss of precision at the poles)
  T domega(T ss, T cs) const { return atan2((salp0 - 1) * ss * cs, sq(cs) + salp0 * sq(ss)); }
  T I1(T s1, T s2) const { T k = k2; return integrate<T>([k](T s) { return sqrt(1 + k * sq(sin(s))); }, s1, s2, wmax); }
  T I3(T s1, T s2) const { T k = k2, f = E.f, f1 = E.f1;
    return integrate<T>([k, f, f1](T s) { return (2 - f) / (1 + f1 * sqrt(1 + k * sq(sin(s)))); }, s1, s2, wmax); }
  T J(T s1, T s2) const { T k = k2;
    return integrate<T>([k](T s) { T y = k * sq(sin(s)); return y / sqrt(1 + y); }, s1, s2, wmax); }
  T I4(T s1, T s2) const { T k = k2, x = E.ep2, tx = t_area(x);
    const T thr = sizeof(T) > 12 && eps_of<T>::v() < (T)1e-30 ? (T)1e-11 : (T)1e-6;
    return integrate<T>([k, x, tx, thr](T s) { T sn = sin(s), y = k * sq(sn), d = x - y;
      T q = fabs(d) < thr * fabs(x) + (T)1e-40 ? t_area_d((x + y) / 2) : (tx - t_area(y)) / d;
      return q * sn / 2; }, s1, s2, wmax); }

  // position at arc length sig12 (radians) from point 1
  GeodPos<T> at_sig12(T sig12, T s12_known, bool have_s) const {
    GeodPos<T> P;
    T sd = sin(sig12), cd = cos(sig12);
    T ss2 = ssig1 * cd + csig1 * sd, cs2 = csig1 * cd - ssig1 * sd;
    T sig2 = sig1 + sig12;
    P.sbet2 = calp0 * ss2; P.cbet2 = hypot(salp0, calp0 * cs2);
    if (P.cbet2 == 0) P.cbet2 = (T)1e-1000Q * 1;
    P.salp2 = salp0; P.calp2 = calp0 * cs2;       // un-normalised direction (east, north)
    T w2 = sqrt(1 + k2 * sq(ss2)); P.w2 = w2;
    P.a12 = sig12 / deg<T>();
    P.s12 = have_s ? s12_known : E.b * I1(sig1, sig2);
    P.lat2 = atan2(P.sbet2, E.f1 * P.cbet2) / deg<T>();
    T lam12 = sig12 + (domega(ss2, cs2) - domega(ssig1, csig1)) - E.f * salp0 * I3(sig1, sig2);
    P.lon12 = sgn * lam12 / deg<T>();
    T alp2 = atan2(P.salp2, P.calp2);             // in [0, pi]
    P.azi2 = sgn * alp2 / deg<T>();
    T J12 = J(sig1, sig2);
    P.m12 = E.b * (w2 * csig1 * ss2 - w1 * ssig1 * cs2 - csig1 * cs2 * J12);
    P.M12 = csig1 * cs2 + (w2 / w1) * ssig1 * ss2 - ssig1 * cs2 * J12 / w1;
    P.M21 = csig1 * cs2 + (w1 / w2) * ssig1 * ss2 + ss2 * csig1 * J12 / w2;
    // alp2 - alp1 without cancellation
    T dalp = atan2(P.salp2 * calp1 - P.calp2 * salp1, P.calp2 * calp1 + P.salp2 * salp1);
    // (both alp in [0,pi] => the difference is in (-pi,pi) and atan2 returns it exactly)
    T A = E.c2 * dalp;
    if (E.e2 != 0) A -= E.e2 * sq(E.a) * calp0 * salp0 * I4(sig1, sig2);
    P.S12 = sgn * A;
    return P;
  }
  GeodPos<T> at_arc(T a12deg) const { return at_sig12(a12deg * deg<T>(), 0, false); }
  GeodPos<T> at_dist(T s12) const {
    // march panel by panel until the distance is bracketed, then Newton inside the last panel
    T tau = s12 / E.b, dir = tau < 0 ? -1 : 1, acc = 0, sig = sig1;
    const GL<T>& g = gl<T>(24);
    T k = k2; auto f = [k](T s) { return sqrt(1 + k * sq(sin(s))); };
    for (long it = 0; it < 100000000L; ++it) {
      T nx = sig + dir * wmax, inc = g.panel(f, sig, nx);
      if (fabs(acc + inc) >= fabs(tau)) break;
      acc += inc; sig = nx;
    }
    T lo = sig, x = sig + (tau - acc) / f(sig);
    if (fabs(x - lo) > wmax) x = lo + dir * wmax / 2;
    for (int it = 0; it < 80; ++it) {
      T r = acc + g.panel(f, lo, x) - tau;
      T dx = -r / f(x);
      x += dx;
      if (fabs(dx) <= 16 * eps_of<T>::v() * (1 + fabs(x - sig1))) break;
    }
    return at_sig12(x - sig1, s12, true);
  }
};

// ---------------------------------------------------------------- independent ODE formulation
// state: phi, lam, alp, m, m', M, M', S   (radians, metres); d/ds
//   phi' = cos(alp)/rho, lam' = sin(alp)/(nu cos phi), alp' = tan(phi) sin(alp)/nu,
//   m'' = -K m, K = 1/(rho nu);  S' = Q(phi) lam',  Q(phi) = int_0^phi rho nu cos(phi) dphi
//       = b^2/2 [ sin phi/(1 - e2 sin^2 phi) + atanh(e sin phi)/e ]
// Only for geodesics that stay away from the poles (validation use).
template <class T> struct GeodOde {
  Ell<T> E;
  explicit GeodOde(const Ell<T>& e) : E(e) {}
  T Q(T sphi) const {
    T x;
    if (E.e2 == 0) x = sphi; else if (E.e2 > 0) { T e = sqrt(E.e2); x = atanh(e * sphi) / e; } else { T e = sqrt(-E.e2); x = atan(e * sphi) / e; }
    return sq(E.b) / 2 * (sphi / (1 - E.e2 * sq(sphi)) + x);
  }
  void rhs(const T* y, T* d) const {
    T sphi = sin(y[0]), cphi = cos(y[0]), nu = E.nu(sphi), rho = E.rho(sphi), sa = sin(y[2]), ca = cos(y[2]);
    d[0] = ca / rho; d[1] = sa / (nu * cphi); d[2] = sphi / cphi * sa / nu;
    T K = 1 / (rho * nu);
    d[3] = y[4]; d[4] = -K * y[3]; d[5] = y[6]; d[6] = -K * y[5];
    d[7] = Q(sphi) * d[1];
  }
  void rk4(T* y, T s12, long n) const {
    T h = s12 / n, k1[8], k2[8], k3[8], k4[8], t[8];
    for (long i = 0; i < n; ++i) {
      rhs(y, k1); for (int j = 0; j < 8; ++j) t[j] = y[j] + h / 2 * k1[j];
      rhs(t, k2); for (int j = 0; j < 8; ++j) t[j] = y[j] + h / 2 * k2[j];
      rhs(t, k3); for (int j = 0; j < 8; ++j) t[j] = y[j] + h * k3[j];
      rhs(t, k4); for (int j = 0; j < 8; ++j) y[j] += h / 6 * (k1[j] + 2 * k2[j] + 2 * k3[j] + k4[j]);
    }
  }
  // returns lat2, lon12, azi2 (deg), m12, M12, M21, S12 with two Richardson levels
  GeodPos<T> direct(T lat1, T azi1, T s12, long n = 2000) const {
    T y[3][8];
    for (int l = 0; l < 3; ++l) {
      T* v = y[l]; v[0] = lat1 * deg<T>(); v[1] = 0; v[2] = azi1 * deg<T>(); v[3] = 0; v[4] = 1; v[5] = 1; v[6] = 0; v[7] = 0;
      rk4(v, s12, n << l);
    }
    GeodPos<T> P; T r[8];
    for (int j = 0; j < 8; ++j) {   // Richardson: errors h^4 then h^6 (RK4 has an h^5 term too, so use the generic two-step scheme)
      T a1 = (16 * y[1][j] - y[0][j]) / 15, a2 = (16 * y[2][j] - y[1][j]) / 15;
      r[j] = (32 * a2 - a1) / 31;
    }
    P.lat2 = r[0] / deg<T>(); P.lon12 = r[1] / deg<T>(); P.azi2 = r[2] / deg<T>();
    P.m12 = r[3]; P.M21 = r[4]; P.M12 = r[5]; P.S12 = r[7]; P.s12 = s12; P.a12 = 0;
    return P;
  }
};

// ---------------------------------------------------------------- geometry helpers for residuals
// geodetic (deg) on the surface -> Cartesian
template <class T> inline void to_xyz(const Ell<T>& E, T lat, T lon, T* X) {
  T sp, cp, sl, cl; sincosd(lat, sp, cp); sincosd(lon, sl, cl);
  T nu = E.nu(sp); X[0] = nu * cp * cl; X[1] = nu * cp * sl; X[2] = nu * (1 - E.e2) * sp;
}
// unit vector of travel with azimuth azi at (lat, lon)
template <class T> inline void dir_xyz(T lat, T lon, T azi, T* D) {
  T sp, cp, sl, cl, sa, ca; sincosd(lat, sp, cp); sincosd(lon, sl, cl); sincosd(azi, sa, ca);
  // east = (-sl, cl, 0); north = (-sp cl, -sp sl, cp)
  D[0] = sa * (-sl) + ca * (-sp * cl); D[1] = sa * cl + ca * (-sp * sl); D[2] = ca * cp;
}
template <class T> inline T dist3(const T* A, const T* B) { return sqrt(sq(A[0] - B[0]) + sq(A[1] - B[1]) + sq(A[2] - B[2])); }

}  // namespace ref
