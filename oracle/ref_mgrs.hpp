// Reference model of the Military Grid Reference System (property C05).  No GeographicLib code.
//
// Written from the public specification (DMA TM 8358.1 ch. 3; NGA.STND.0037 sect. 11-14):
//   * the MGRS alphabet is A-Z without I and O (24 letters);
//   * UTM latitude bands: 8 deg bands lettered C..X from 80S (X: 72N..84N), a band contains its southern edge;
//   * UTM 100 km column letters: eight per zone starting at easting 100 km, the alphabet repeats every three zones
//     (zone mod 3 = 1: A-H, 2: J-R, 0: S-Z);
//   * UTM 100 km row letters: the first twenty letters A-V repeat every 2 000 km of northing, odd zones start with A
//     at the equator, even zones with F; the southern false northing (10 000 km) is a multiple of the period;
//   * UPS: south zone = A (easting < 2 000 km) / B, north zone = Y / Z; column alphabet omits D,E,I,M,N,O,V,W, the
//     east halves start with A at 2 000 km, the west halves end with Z at 2 000 km; rows use the 24 letter alphabet
//     starting with A at the lowest legal northing (800 km south, 1 300 km north);
//   * digits: easting then northing, equal count, obtained by TRUNCATION.
// Ranges of coordinates and the treatment of the closed upper edges / hemisphere folding are the ones documented in
// GeographicLib/MGRS.hpp (that documentation is the specification under test):
//   UTM easting [100 km, 900 km]; northing [-9000 km, 9500 km] ("north"), [1000 km, 19500 km] ("south") folded into
//   the proper hemisphere; UPS [1300 km, 2700 km] north, [800 km, 3200 km] south; a coordinate on an upper edge is
//   moved down by ~4 nm (< 1 um, so every digit becomes 9), a southern northing of exactly 10 000 km stays south.
//
// Part A (this half) is pure integer/string arithmetic: digits come from floor(v * 10^6) evaluated EXACTLY on the
// binary value of the double (53 bit x 20 bit product is exact in binary128).  It needs only +,-,*,/ and
// conversions of __float128, so it also compiles with clang (libFuzzer target).
// Part B (geometry; g++ only, #define REF_MGRS_NO_GEOMETRY to omit) decides which latitude band a UTM point is in and
// which 100 km blocks meet which band, from the latitude given by the reference Gauss-Krueger oracle/ref_tm.hpp
// (long double; binary128 within 0.1 mm of a band edge) and a Snyder polar stereographic inverse for UPS.
#pragma once
#include <cmath>
#include <cstdint>
#include <cstdio>
#include <cstring>
#include <map>
#include <stdexcept>
#include <string>
#include <vector>

namespace ref { namespace mgrs {

typedef long long i64;
typedef __float128 q128_t;
static const i64 U_PER_M = 1000000;                 // micrometres per metre
static const i64 U_PER_TILE = 100000 * U_PER_M;     // 1e11 um per 100 km
static const int MAXPREC = 11;
static const int NONE = 127;

inline const char* alphabet24() { return "ABCDEFGHJKLMNPQRSTUVWXYZ"; }
inline i64 pow10i(int k) { i64 r = 1; while (k-- > 0) r *= 10; return r; }
inline char up(char c) { return (c >= 'a' && c <= 'z') ? (char)(c - 32) : c; }
inline bool isdig(char c) { return c >= '0' && c <= '9'; }
inline int find24(char c, int first, int count) {      // index of letter c in alphabet24()[first .. first+count)
  const char* a = alphabet24();
  if (c == 0) return -1;
  for (int i = 0; i < count; ++i) if (a[first + i] == c) return i;
  return -1;
}

// ---- UTM letters
inline char utm_band_letter(int band) { return alphabet24()[2 + band + 10]; }                 // band in [-10, 9] -> C..X
inline int utm_band_index(char c) { int i = find24(c, 2, 20); return i < 0 ? NONE : i - 10; }
inline char utm_col_letter(int zone, int col) { return alphabet24()[((zone - 1) % 3) * 8 + (col - 1)]; }   // col 1..8
inline int utm_col_index(int zone, char c) { int i = find24(c, ((zone - 1) % 3) * 8, 8); return i < 0 ? NONE : i + 1; }
inline int utm_row_shift(int zone) { return (zone % 2 == 0) ? 5 : 0; }
inline char utm_row_letter(int zone, int row) { return alphabet24()[(((row + utm_row_shift(zone)) % 20) + 20) % 20]; }
inline int utm_row_residue(int zone, char c) {       // row index modulo 20 (relative to the equator)
  int i = find24(c, 0, 20); return i < 0 ? NONE : ((i - utm_row_shift(zone)) % 20 + 20) % 20; }

// ---- UPS letters.  band: 0 = A (south, west), 1 = B (south, east), 2 = Y (north, west), 3 = Z (north, east)
inline const char* ups_col_alphabet() { return "ABCFGHJKLPQRSTUXYZ"; }      // 18 letters
inline char ups_band_letter(int b) { return "ABYZ"[b]; }
inline int ups_band_index(char c) { for (int i = 0; i < 4; ++i) if (c && "ABYZ"[i] == c) return i; return NONE; }
inline int ups_lo(bool northp) { return northp ? 13 : 8; }     // lowest / highest+1 legal 100 km index (both axes)
inline int ups_hi(bool northp) { return northp ? 27 : 32; }
inline char ups_col_letter(int col) { return col >= 20 ? ups_col_alphabet()[col - 20] : ups_col_alphabet()[18 - (20 - col)]; }
inline int ups_col_index(int band, char c) {
  bool northp = band >= 2, east = band & 1;
  if (c == 0) return NONE;
  int lo = east ? 20 : ups_lo(northp), hi = east ? ups_hi(northp) : 20;
  for (int col = lo; col < hi; ++col) if (ups_col_letter(col) == c) return col;
  return NONE;
}
inline char ups_row_letter(bool northp, int row) { return alphabet24()[row - ups_lo(northp)]; }
inline int ups_row_index(bool northp, char c) { int i = find24(c, 0, ups_hi(northp) - ups_lo(northp)); return i < 0 ? NONE : i + ups_lo(northp); }

// ---- exact floor(v * 10^6) for |v| < 9e12
inline i64 floor_um(double v) {
  q128_t p = (q128_t)v * (q128_t)1000000;          // exact: 53 + 20 significant bits
  i64 t = (i64)p;                                  // truncation toward zero
  if ((q128_t)t > p) --t;
  return t;
}

// ---- block-in-band truth for UTM (zone independent; filled by part B or loaded from a file)
struct Legal {
  // inband[band+10][col-1][row+90]: 0 = no part of the block lies in the band, 1 = some part does,
  // 2 = an extreme latitude of the block is within 1e-6 m of the band edge (reported, not judged)
  uint8_t inband[20][8][185];
  bool filled = false;
  Legal() { std::memset(inband, 0, sizeof inband); }
  int in(int band, int col, int row) const { return inband[band + 10][col - 1][row + 90]; }
  // the true row (relative to the equator, [-90, 94]) designated by (band, col, residue), NONE if no such block;
  // unj set when an unjudged block is involved
  int rowof(int band, int col, int res, bool& unj) const {
    int found = NONE; unj = false;
    for (int r = -90; r <= 94; ++r) {
      if (((r % 20) + 20) % 20 != res) continue;
      int v = in(band, col, r);
      if (v == 2) unj = true;
      if (v == 1) { if (found != NONE) throw std::runtime_error("ref_mgrs: two rows of one residue meet one band"); found = r; }
    }
    return found;
  }
  bool save(const std::string& path) const {
    FILE* f = std::fopen(path.c_str(), "wb"); if (!f) return false;
    bool ok = std::fwrite("C05LEGAL", 1, 8, f) == 8 && std::fwrite(inband, 1, sizeof inband, f) == sizeof inband;
    return std::fclose(f) == 0 && ok;
  }
  bool load(const std::string& path) {
    FILE* f = std::fopen(path.c_str(), "rb"); if (!f) return false;
    char m[8]; bool ok = std::fread(m, 1, 8, f) == 8 && std::memcmp(m, "C05LEGAL", 8) == 0 && std::fread(inband, 1, sizeof inband, f) == sizeof inband;
    std::fclose(f); filled = ok; return ok;
  }
};

// ---- normalised point (the documented range rules), exact integer micrometres
struct Pt {
  bool legal = false; std::string why;
  bool utm = false; int zone = 0; bool northp = false;       // northp after folding
  i64 ix = 0, iy = 0;                                         // floor(x*1e6), floor(y*1e6) after edge rule / folding (south: incl. 10 000 km)
  bool xedge = false, yedge = false, folded = false;
  int col() const { return (int)(ix / U_PER_TILE); }
  int row() const { return (int)(iy / U_PER_TILE); }         // UTM south: 10..99
  int truerow() const { return utm && !northp ? row() - 100 : row(); }
  // true coordinates (metres, exact in binary128) of the point used for the digits: x - 500 km and signed northing
  q128_t e_true() const { return (q128_t)ix / U_PER_M - 500000; }
};
inline Pt normalize(int zone, bool northp, double x, double y) {
  Pt p; p.zone = zone; p.utm = zone != 0; p.northp = northp;
  if (!(zone >= 0 && zone <= 60)) { p.why = "zone"; return p; }
  if (!(std::isfinite(x) && std::isfinite(y))) { p.why = "nonfinite"; return p; }
  if (p.utm) {
    if (!(x >= 100000.0 && x <= 900000.0)) { p.why = "easting"; return p; }
    double lo = northp ? -9000000.0 : 1000000.0, hi = northp ? 9500000.0 : 19500000.0;
    if (!(y >= lo && y <= hi)) { p.why = "northing"; return p; }
    if (x == 900000.0) { p.ix = 9 * U_PER_TILE - 1; p.xedge = true; } else p.ix = floor_um(x);
    p.iy = floor_um(y);
    if (northp) {
      if (y == hi) { p.iy = 95 * U_PER_TILE - 1; p.yedge = true; }
      else if (y < 0) { p.northp = false; p.iy += 100 * U_PER_TILE; p.folded = true; }
    } else {
      if (y == hi) { p.northp = true; p.iy = 95 * U_PER_TILE - 1; p.yedge = true; p.folded = true; }
      else if (y == 10000000.0) { p.iy = 100 * U_PER_TILE - 1; p.yedge = true; }
      else if (y > 10000000.0) { p.northp = true; p.iy -= 100 * U_PER_TILE; p.folded = true; }
    }
  } else {
    double lo = ups_lo(northp) * 100000.0, hi = ups_hi(northp) * 100000.0;
    if (!(x >= lo && x <= hi)) { p.why = "easting"; return p; }
    if (!(y >= lo && y <= hi)) { p.why = "northing"; return p; }
    if (x == hi) { p.ix = ups_hi(northp) * U_PER_TILE - 1; p.xedge = true; } else p.ix = floor_um(x);
    if (y == hi) { p.iy = ups_hi(northp) * U_PER_TILE - 1; p.yedge = true; } else p.iy = floor_um(y);
  }
  p.legal = true;
  return p;
}

inline std::string digits_of(i64 v, int n) { std::string s(n, '0'); for (int i = n; i-- > 0;) { s[i] = (char)('0' + v % 10); v /= 10; } return s; }

// MGRS string of a normalised point at precision prec in [-1, 11].  band: UTM band index in [-10, 9] (ignored for UPS)
inline std::string encode(const Pt& p, int band, int prec) {
  std::string s;
  if (p.utm) {
    s += (char)('0' + p.zone / 10); s += (char)('0' + p.zone % 10);
    s += utm_band_letter(band);
    if (prec < 0) return s;
    s += utm_col_letter(p.zone, p.col());
    s += utm_row_letter(p.zone, p.row());      // 100 rows of false northing = 5 periods: no effect on the letter
  } else {
    bool east = p.col() >= 20;
    s += ups_band_letter((p.northp ? 2 : 0) + (east ? 1 : 0));
    if (prec < 0) return s;
    s += ups_col_letter(p.col());
    s += ups_row_letter(p.northp, p.row());
  }
  i64 d = pow10i(MAXPREC - prec);
  s += digits_of((p.ix % U_PER_TILE) / d, prec);
  s += digits_of((p.iy % U_PER_TILE) / d, prec);
  return s;
}

// ---- decoder
struct Dec {
  enum St { VALID, INVMARK, INVALID } st = INVALID;
  std::string reason;             // for INVALID
  bool utm = false; int zone = 0; bool northp = false;
  int band = 0;                   // UTM [-10, 9]; UPS 0..3
  int prec = -2;
  int col = 0, row = 0;           // 100 km indices of the block (UTM south: row incl. the 100 rows of false northing)
  int truerow = 0;                // UTM: row relative to the equator
  i64 nx = 0, ny = 0;             // SW corner of the square in units of 10^(5-prec) m
  bool unjudged = false;          // block-in-band decision within 1e-6 m of a band edge
  bool lower = false, shortzone = false;      // leniencies used: lower case letters, one-digit zone
  std::string canon;              // canonical spelling (upper case, two-digit zone)
};
inline Dec decode(const std::string& s, const Legal& L) {
  Dec d; size_t n = s.size();
  // (a NUL byte can never be part of a designator: it gets its own reason so that the finding has its own key)
  auto bad = [&](const char* why, size_t) { d.st = Dec::INVALID; d.reason = s.find('\0') != std::string::npos ? "embedded-NUL" : why; return d; };
  if (n >= 3 && up(s[0]) == 'I' && up(s[1]) == 'N' && up(s[2]) == 'V') { d.st = Dec::INVMARK; return d; }
  size_t p = 0; while (p < n && isdig(s[p])) ++p;
  if (p > 2) return bad("more-than-2-zone-digits", n);
  if (p > 0) { d.zone = 0; for (size_t i = 0; i < p; ++i) d.zone = 10 * d.zone + (s[i] - '0'); if (d.zone < 1 || d.zone > 60) return bad("zone-not-in-1..60", n); }
  d.utm = p > 0; d.shortzone = p == 1;
  if (p == n) return bad("no-band-letter", n);
  for (size_t i = p; i < n; ++i) if (s[i] >= 'a' && s[i] <= 'z') d.lower = true;
  char b = up(s[p]);
  d.band = d.utm ? utm_band_index(b) : ups_band_index(b);
  if (d.band == NONE) return bad(d.utm ? "utm-band-letter" : "ups-band-letter", p);
  d.northp = d.utm ? d.band >= 0 : d.band >= 2;
  if (d.utm) { d.canon += (char)('0' + d.zone / 10); d.canon += (char)('0' + d.zone % 10); }
  d.canon += b;
  if (p + 1 == n) { d.st = Dec::VALID; d.prec = -1; return d; }
  if (n - (p + 1) < 2) return bad("missing-row-letter", p + 1);
  char cl = up(s[p + 1]), rl = up(s[p + 2]);
  int res = 0;
  if (d.utm) {
    d.col = utm_col_index(d.zone, cl); if (d.col == NONE) return bad("utm-column-letter", p + 1);
    res = utm_row_residue(d.zone, rl); if (res == NONE) return bad("utm-row-letter", p + 2);
  } else {
    d.col = ups_col_index(d.band, cl); if (d.col == NONE) return bad("ups-column-letter", p + 1);
    d.row = ups_row_index(d.northp, rl); if (d.row == NONE) return bad("ups-row-letter", p + 2);
  }
  size_t nd = n - (p + 3);
  for (size_t i = p + 3; i < n; ++i) if (!isdig(s[i])) return bad("non-digit", i);
  if (nd % 2) return bad("odd-digit-count", n);
  if (nd / 2 > (size_t)MAXPREC) return bad("more-than-22-digits", n);
  if (d.utm) {
    if (!L.filled) throw std::runtime_error("ref_mgrs: block table not filled");
    bool unj; int r = L.rowof(d.band, d.col, res, unj);
    if (unj) { d.unjudged = true; d.st = Dec::VALID; return d; }
    if (r == NONE) return bad("block-not-in-band", n);
    d.truerow = r; d.row = d.northp ? r : r + 100;
  }
  d.prec = (int)(nd / 2);
  i64 ex = 0, ny = 0;
  for (int i = 0; i < d.prec; ++i) { ex = 10 * ex + (s[p + 3 + i] - '0'); ny = 10 * ny + (s[p + 3 + d.prec + i] - '0'); }
  d.nx = d.col * pow10i(d.prec) + ex; d.ny = d.row * pow10i(d.prec) + ny;
  d.canon += cl; d.canon += rl; d.canon += s.substr(p + 3);
  d.st = Dec::VALID;
  return d;
}

// exact centre / corner of a decoded square in metres (binary128; exact for prec <= 5, 1e-34 relative otherwise)
inline q128_t centre_m(i64 n, int prec) { q128_t v = (q128_t)(2 * n + 1); return prec <= 5 ? v * (q128_t)pow10i(5 - prec) / 2 : v / (q128_t)(2 * pow10i(prec - 5)); }
inline q128_t corner_m(i64 n, int prec) { q128_t v = (q128_t)n; return prec <= 5 ? v * (q128_t)pow10i(5 - prec) : v / (q128_t)pow10i(prec - 5); }
// is the double v inside [n, n+1) * 10^(5-prec) m ?  (exact)
inline bool inside_square(double v, i64 n, int prec) {
  if (prec <= 5) { q128_t w = (q128_t)pow10i(5 - prec); return (q128_t)v >= (q128_t)n * w && (q128_t)v < (q128_t)(n + 1) * w; }
  q128_t t = (q128_t)v * (q128_t)pow10i(prec - 5);       // exact: 53 + 20 bits
  return t >= (q128_t)n && t < (q128_t)(n + 1);
}

// ---- MGRS::Decode grammar as documented: 0-2 digits, 1 or 3 letters (I, O are not letters), then (3 letters only)
// an even number of digits; "INV..." gives gridzone = first three characters.
struct Split { bool ok = false; std::string gridzone, block, easting, northing; };
inline Split split(const std::string& s) {
  Split r; size_t n = s.size();
  if (n >= 3 && up(s[0]) == 'I' && up(s[1]) == 'N' && up(s[2]) == 'V') { r.ok = true; r.gridzone = s.substr(0, 3); return r; }
  auto isal = [](char c) { char u = up(c); return u >= 'A' && u <= 'Z' && u != 'I' && u != 'O'; };
  size_t p0 = 0; while (p0 < n && isdig(s[p0])) ++p0;
  if (p0 == n || p0 > 2) return r;
  size_t p1 = p0; while (p1 < n && isal(s[p1])) ++p1;
  if (!(p1 - p0 == 1 || p1 - p0 == 3)) return r;
  if (p1 - p0 == 1 && p1 < n) return r;
  for (size_t i = p1; i < n; ++i) if (!isdig(s[i])) return r;
  if ((n - p1) % 2) return r;
  r.ok = true; r.gridzone = s.substr(0, p0 + 1); r.block = s.substr(p0 + 1, p1 - p0 - 1);
  r.easting = s.substr(p1, (n - p1) / 2); r.northing = s.substr(p1 + (n - p1) / 2);
  return r;
}

}}  // namespace ref::mgrs


// =====================================================================================================================
// Part B: geometry.
//
// Band of a point: latitude from the reference Gauss-Krueger reverse (ref::TM, WGS84, k0 = 0.9996).
// Block-in-band truth, two formulations that are cross-checked by the harness:
//   (dual)    the parallel phi = 8k is traced with the reference FORWARD map; on a strip e in [e0, e1] its northing
//             y_phi(e) is increasing in e (asserted on samples), so a block [e0,e1] x [y0,y1) contains latitudes >= phi
//             iff y1 > y_phi(e0) and latitudes < phi iff y0 < y_phi(e1); by continuity the block meets the band
//             [8k, 8k+8) iff it contains latitudes >= 8k and latitudes < 8k+8.  Needs only the 9 x 5 northings
//             y_{8k}(j * 100 km) -> used to fill the table in every process.
//   (literal) minimum / maximum of the reference latitude over the block by boundary sampling + golden-section
//             refinement (block_range_full) -> run per block by the harness and compared with the table.
#ifndef REF_MGRS_NO_GEOMETRY
#include "oracle/ref_tm.hpp"

namespace ref { namespace mgrs {

typedef long double LD;
static const LD WGS84_A = 6378137.0L;
static const LD WGS84_F = 1 / 298.257223563L;
static const LD UTM_K0 = 0.9996L, UPS_K0 = 0.994L;

struct BandInfo {
  int band = 0;          // band of the point's latitude, [-10, 9] (C and X extended)
  LD lat = NAN;          // reference latitude (degrees); NaN when decided from the northing windows alone
  double edge_m = 1e30;  // ground distance (m) from the point to the nearest band edge (1e30: far, not computed)
  int other = NONE;      // the band on the other side of that edge
  bool usedq = false;
};

class Geo {
 public:
  TM<LD> tl; TM<q128> tq;
  LD e2;
  LD Yedge[10][5];       // Yedge[k][j] = northing of the parallel 8k deg at easting offset j * 100 km (k = 1..9); row 0 = 0
  Geo() : tl(WGS84_A, WGS84_F, UTM_K0), tq((q128)WGS84_A, (q128)WGS84_F, (q128)UTM_K0), e2(WGS84_F * (2 - WGS84_F)) {
    for (int j = 0; j < 5; ++j) Yedge[0][j] = 0;
    for (int k = 1; k <= 9; ++k) {
      LD phi = 8 * k, lam[5];
      lam[0] = 0; Yedge[k][0] = UTM_K0 * WGS84_A * tl.meridian_unit(phi * deg<LD>());
      for (int j = 1; j < 5; ++j) {
        LD target = 100000.0L * j, yv; lam[j] = solve_lambda(phi, target, yv); Yedge[k][j] = yv;
      }
      for (int j = 0; j < 4; ++j) {            // monotonicity of the parallel on the strip, on samples
        LD py = Yedge[k][j], px = 100000.0L * j;
        for (int s = 1; s <= 6; ++s) {
          LD l = lam[j] + (lam[j + 1] - lam[j]) * s / 6;
          TM<LD>::Res r = tl.forward(phi, l);
          if (!r.ok) throw std::runtime_error("ref_mgrs: TM forward failed");
          if (!(r.y > py && r.x > px)) throw std::runtime_error("ref_mgrs: parallel not monotone in easting");
          py = r.y; px = r.x;
        }
        if (fabsl(py - Yedge[k][j + 1]) > 1e-9L) throw std::runtime_error("ref_mgrs: parallel end point inconsistent");
      }
    }
  }
  // longitude difference (deg) at which the parallel phi has easting offset e; also its northing there
  LD solve_lambda(LD phi, LD e, LD& y) {
    LD c = cosl(phi * deg<LD>()), l1 = e / (UTM_K0 * WGS84_A * c) / deg<LD>(), l0 = l1 * 0.99L;
    TM<LD>::Res r0 = fwd(phi, l0), r1 = fwd(phi, l1);
    for (int it = 0; it < 60; ++it) {
      if (fabsl(r1.x - e) <= 2e-11L) { y = r1.y; return l1; }
      LD l2 = l1 - (r1.x - e) * (l1 - l0) / (r1.x - r0.x);
      l0 = l1; r0 = r1; l1 = l2; r1 = fwd(phi, l1);
    }
    throw std::runtime_error("ref_mgrs: cannot locate the parallel at the requested easting");
  }
  // the same in binary128 (used to place test points on a band edge): northing of parallel phi at offset e
  q128 edge_northing_q(int k, q128 e) {
    q128 phi = 8 * k;
    if (e == 0) return (q128)UTM_K0 * (q128)WGS84_A * tq.meridian_unit(phi * deg<q128>());
    q128 c = cosq(phi * deg<q128>()), l1 = e / ((q128)UTM_K0 * (q128)WGS84_A * c) / deg<q128>(), l0 = l1 * 0.99Q;
    TM<q128>::Res r0 = tq.forward(phi, l0), r1 = tq.forward(phi, l1);
    for (int it = 0; it < 60; ++it) {
      if (!r0.ok || !r1.ok) break;
      if (fabsq(r1.x - e) <= 1e-18Q) return r1.y;
      q128 l2 = l1 - (r1.x - e) * (l1 - l0) / (r1.x - r0.x);
      l0 = l1; r0 = r1; l1 = l2; r1 = tq.forward(phi, l1);
    }
    throw std::runtime_error("ref_mgrs: cannot locate the band edge (binary128)");
  }
  // meridional radius of curvature (m) at latitude lat (deg): metres of ground per radian of latitude
  LD rho_mer(LD latdeg) const { LD s = sinl(latdeg * deg<LD>()), w = 1 - e2 * s * s; return WGS84_A * (1 - e2) / (w * sqrtl(w)); }

  // latitude (deg, >= 0) of the UTM point with |x - 500 km| = e, |true northing| = ay
  LD lat_ld(LD e, LD ay) {
    if (ay == 0) return 0;
    auto key = std::make_pair((double)e, (double)ay);
    bool exactkey = (LD)key.first == e && (LD)key.second == ay;
    if (exactkey) { auto it = memo_.find(key); if (it != memo_.end()) return it->second; }
    LD lat, dlon, g, k;
    if (!tl.reverse(e, ay, lat, dlon, g, k)) throw std::runtime_error("ref_mgrs: reference TM reverse failed (long double)");
    ++nrev_ld;
    if (exactkey) { if (memo_.size() > 1000000) memo_.clear(); memo_[key] = lat; }
    return lat;
  }
  q128 lat_q(q128 e, q128 ay) {
    if (ay == 0) return 0;
    q128 lat, dlon, g, k;
    if (!tq.reverse(e, ay, lat, dlon, g, k)) throw std::runtime_error("ref_mgrs: reference TM reverse failed (binary128)");
    ++nrev_q;
    return lat;
  }
  // latitude and longitude difference from the central meridian (deg), signed
  void latlon_ld(LD esigned, LD ysigned, LD& lat, LD& dlon) {
    LD g, k;
    if (ysigned == 0 && esigned == 0) { lat = dlon = 0; return; }
    if (!tl.reverse(fabsl(esigned), fabsl(ysigned), lat, dlon, g, k)) throw std::runtime_error("ref_mgrs: TM reverse failed");
    if (esigned < 0) dlon = -dlon;
    if (ysigned < 0) lat = -lat;
  }

  // band of the UTM point (x - 500 km = e, true signed northing y; exact binary128 values of the doubles)
  BandInfo band_of(q128 eq, q128 yq) {
    BandInfo b; LD e = fabsl((LD)eq), y = (LD)yq, ay = fabsl(y);
    bool south = yq < 0;
    int h = (int)(e / 100000.0L); if (h > 3) h = 3; if (h < 0) h = 0;
    int kin = 0, kbelow = 0;                  // edge whose window contains ay; number of edges certainly below ay
    for (int k = 1; k <= 9; ++k) { if (ay > Yedge[k][h + 1] + 1) kbelow = k; else if (ay >= Yedge[k][h] - 1) kin = k; }
    int ab;                                   // 0..9: |lat| in [8ab, 8ab+8)
    if (!kin) {
      ab = kbelow;
      if (ay < 1) {                           // next to the equator: distance along the meridian
        LD lat = lat_ld(e, ay);
        b.lat = south ? -lat : lat; b.edge_m = (double)(lat * deg<LD>() * rho_mer(0)); b.other = south ? 0 : -1;
      }
    } else {
      LD lat = lat_ld(e, ay), edge = 8 * kin, dist = fabsl(lat - edge) * deg<LD>() * rho_mer(edge);
      bool above;                             // |lat| beyond the edge (poleward side)?
      if (dist < 1e-4L) {                     // within 0.1 mm: decide in binary128
        q128 lq = lat_q(fabsq(eq), fabsq(yq));
        lat = (LD)lq; dist = (LD)(fabsq(lq - edge) * deg<q128>() * (q128)rho_mer(edge)); b.usedq = true;
        above = south ? lq > edge : lq >= edge;      // a band contains its SOUTHERN edge
      } else above = lat > edge;
      ab = above ? kin : kin - 1;
      int oab = above ? kin - 1 : kin;
      b.lat = south ? -lat : lat; b.edge_m = (double)dist; b.other = south ? -oab - 1 : oab;
    }
    if (ab > 9) ab = 9;
    b.band = south ? -ab - 1 : ab;
    return b;
  }

  // ---- (dual) table
  void fill(Legal& L) const {
    std::memset(L.inband, 0, sizeof L.inband);
    for (int h = 0; h < 4; ++h) for (int r = 0; r <= 94; ++r) {
      uint8_t out[10]; classify_dual(h, r, out); put(L, h, r, out);
    }
    L.filled = true;
  }
  void classify_dual(int h, int r, uint8_t out[10]) const {
    const LD tolm = 1e-6L; LD y0 = 100000.0L * r, y1 = y0 + 100000.0L;
    for (int k = 0; k <= 9; ++k) {
      // latitudes >= 8k present?  (k = 0: always)       latitudes < 8k+8 present?  (k = 9: always, X is extended)
      bool ge = k == 0 || y1 > Yedge[k][h], lt = k == 9 || y0 < Yedge[k + 1][h + 1];
      int v = (ge && lt) ? 1 : 0;
      if (k > 0 && fabsl(y1 - Yedge[k][h]) < tolm) v = 2;
      if (k < 9 && fabsl(y0 - Yedge[k + 1][h + 1]) < tolm) v = 2;
      out[k] = (uint8_t)v;
    }
  }
  static void put(Legal& L, int h, int r, const uint8_t out[10]) {
    int cols[2] = {5 + h, 4 - h};                         // columns 1..8: e >= 0 -> col 5+h ; mirror image -> col 4-h
    for (int k = 0; k <= 9; ++k) for (int c : cols) {
      L.inband[k + 10][c - 1][r + 90] = out[k];            // north
      if (r <= 89) L.inband[-k - 1 + 10][c - 1][-r - 1 + 90] = out[k];   // mirror image south of the equator
    }
  }

  // ---- (literal) extreme latitudes of a northern block (h = 0..3 : e in [100h, 100h+100] km; row r = 0..94)
  struct Range { LD lo, hi; int evals; };
  Range block_range_full(int h, int r, int NS = 8) {
    LD e0 = 100000.0L * h, y0 = 100000.0L * r, w = 100000.0L; int ev = 0;
    auto F = [&](LD t) {                       // perimeter parameter t in [0,4), corners at the integers
      while (t < 0) t += 4; while (t >= 4) t -= 4;
      int side = (int)t; LD u = t - side, e, y;
      switch (side) { case 0: e = e0 + u * w; y = y0; break; case 1: e = e0 + w; y = y0 + u * w; break;
        case 2: e = e0 + (1 - u) * w; y = y0 + w; break; default: e = e0; y = y0 + (1 - u) * w; }
      ++ev; return lat_ld(e, y);
    };
    std::vector<LD> v(4 * NS);
    int imin = 0, imax = 0;
    for (int i = 0; i < 4 * NS; ++i) { v[i] = F((LD)i / NS); if (v[i] < v[imin]) imin = i; if (v[i] > v[imax]) imax = i; }
    auto refine = [&](int i, int sgn) {        // extremum of sgn*F on [(i-1)/NS, (i+1)/NS]; the samples include the corners exactly
      LD a = (LD)(i - 1) / NS, b = (LD)(i + 1) / NS; const LD g = 0.6180339887498949L;
      int iters = (i % NS == 0) ? 8 : 36;
      LD c = b - g * (b - a), d = a + g * (b - a), fc = sgn * F(c), fd = sgn * F(d), best = sgn * v[i];
      for (int it = 0; it < iters; ++it) {
        if (fc > fd) { b = d; d = c; fd = fc; c = b - g * (b - a); fc = sgn * F(c); } else { a = c; c = d; fc = fd; d = a + g * (b - a); fd = sgn * F(d); }
        if (fc > best) best = fc;
        if (fd > best) best = fd;
      }
      return sgn * best;
    };
    Range R; R.lo = refine(imin, -1); R.hi = refine(imax, +1);
    for (int i = 1; i < 3; ++i) for (int j = 1; j < 3; ++j) {   // the interior must not beat the boundary
      LD l = lat_ld(e0 + w * i / 3, y0 + w * j / 3); ++ev;
      if (l < R.lo || l > R.hi) throw std::runtime_error("ref_mgrs: interior latitude outside the boundary extremes");
    }
    R.evals = ev; return R;
  }
  // literal classification: the block is [e0,e1] x [y0,y1): its latitudes fill [lo, hi) (only the equator is attained exactly)
  void classify_literal(const Range& R, uint8_t out[10]) const {
    const LD tolm = 1e-6L;
    for (int k = 0; k <= 9; ++k) {
      LD lo_b = 8 * k, hi_b = 8 * k + 8;
      bool a = R.hi > lo_b, b = k == 9 ? true : R.lo < hi_b;
      int v = (a && b) ? 1 : 0;
      if (k > 0 && fabsl(R.hi - lo_b) * deg<LD>() * rho_mer(lo_b) < tolm) v = 2;
      if (k < 9 && fabsl(R.lo - hi_b) * deg<LD>() * rho_mer(hi_b) < tolm) v = 2;
      out[k] = (uint8_t)v;
    }
  }

  // ---- UPS: latitude (deg, positive towards the pole of the hemisphere) and longitude (deg), Snyder (21-39), (7-9)
  void ups_reverse(bool northp, LD x, LD y, LD& lat, LD& lon) const {
    LD dx = x - 2000000, dy = y - 2000000, rho = hypotl(dx, dy), e = sqrtl(e2);
    LD t = rho * sqrtl(powl(1 + e, 1 + e) * powl(1 - e, 1 - e)) / (2 * WGS84_A * UPS_K0);
    LD phi = pi<LD>() / 2 - 2 * atanl(t);
    for (int i = 0; i < 30; ++i) { LD s = sinl(phi); phi = pi<LD>() / 2 - 2 * atanl(t * powl((1 - e * s) / (1 + e * s), e / 2)); }
    lat = phi / deg<LD>();
    lon = (rho == 0 ? 0 : (northp ? atan2l(dx, -dy) : atan2l(dx, dy))) / deg<LD>();
  }

  uint64_t nrev_ld = 0, nrev_q = 0;

 private:
  TM<LD>::Res fwd(LD phi, LD dl) { TM<LD>::Res r = tl.forward(phi, dl); if (!r.ok) throw std::runtime_error("ref_mgrs: TM forward failed"); return r; }
  std::map<std::pair<double, double>, LD> memo_;
};

}}  // namespace ref::mgrs
#endif
