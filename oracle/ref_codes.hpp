// Reference model for the grid-code schemes of property C18: Geohash, GARS, Georef and the
// Ordnance Survey National Grid reference.  Written from the public descriptions of the
// schemes; contains no GeographicLib code, tables or headers.
//
//   Geohash  (G. Niemeyer 2008, geohash.org): longitude [-180,180) and latitude [-90,90] are
//            bisected alternately, longitude first; "upper half" = bit 1; 5 bits per
//            character, alphabet 0123456789bcdefghjkmnpqrstuvwxyz (no a, i, l, o).
//   GARS     (NGA): 30' cells, longitude bands 001..720 eastwards from 180W, latitude bands
//            AA..QZ northwards from 90S (letters without I and O); 15' quadrant 1=NW 2=NE 3=SW
//            4=SE; 5' keypad 1..9 row-wise from the NW.
//   Georef   (World Geographic Reference System): 15 deg tiles, 24 longitude letters A..Z and 12
//            latitude letters A..M (both without I and O) from 180W / 90S; 1 deg letters A..Q
//            (without I, O); then minutes of longitude (2 digits) + decimals, then minutes of
//            latitude + decimals, eastings before northings.
//   OSGB     (OS "Using the National Grid"): 500 km squares lettered A..Z without I row-wise
//            from the NW of a 5x5 block whose square S has its SW corner at the false origin;
//            100 km squares lettered the same way inside each 500 km square; then n digits of
//            easting and n digits of northing.
//
// The *cell arithmetic is exact*: the index of the cell that contains a coordinate x is
// floor((x - origin) / w) evaluated on the exact binary value of the double x with GMP
// integers (w is a small rational), so "which cell contains x" has no rounding ambiguity, also
// one ulp from an edge, for denormals and for |lon| = 1e300.  Cells are closed on their
// south/west edges, longitude is taken modulo 360, the row that would start at the north pole
// (lat = 90 exactly) is folded into the last row.  Decoder truth is the exact rational
// centre / south-west corner of the cell rounded ONCE to double (MPFR, round-to-nearest).
//
// Leniencies taken over from the *documentation* of the implementation under test (not from
// its code), because C18 does not constrain them: out-of-range precisions are clamped
// (Geohash 0..18, GARS 0..2, Georef -1..11 with 1 -> 2) but OSGB throws; only the first 18
// characters of a geohash are significant; strings starting (case-insensitively) with "inv"
// or, for geohash, "nan" (OSGB: "in") are the NaN marker; OSGB grid references may contain
// white space.
#pragma once
#include <gmp.h>
#include <mpfr.h>
#include <cctype>
#include <cmath>
#include <cstdint>
#include <cstring>
#include <string>

namespace ref { namespace codes {

enum Scheme { GEOHASH = 0, GARS = 1, GEOREF = 2, OSGB = 3 };
inline const char* scheme_name(int s) { static const char* n[] = {"geohash", "gars", "georef", "osgb"}; return n[s & 3]; }

// ------------------------------------------------------------------ exact integer helpers
struct Z {
  mpz_t v;
  Z() { mpz_init(v); }
  Z(const Z& o) { mpz_init_set(v, o.v); }
  Z& operator=(const Z& o) { if (this != &o) mpz_set(v, o.v); return *this; }
  ~Z() { mpz_clear(v); }
};

// x = m * 2^e exactly (finite x; denormals fine)
inline void decomp(double x, int64_t& m, int& e) {
  int ex; double f = std::frexp(x, &ex);         // |f| in [0.5,1) or 0
  m = (int64_t)std::ldexp(f, 53); e = ex - 53;
  if (m == 0) e = 0;
}

// out = floor((x - O) * D / N): index, on the unbounded line, of the cell of width N/D that
// contains x, cells starting at the integer origin O.  Exact for every finite double.
inline void cell_floor(Z& out, double x, long O, unsigned long N, unsigned long D) {
  int64_t m; int e; decomp(x, m, e);
  Z num, den;
  if (e >= 0) {
    mpz_set_si(num.v, (long)m); mpz_mul_2exp(num.v, num.v, (mp_bitcnt_t)e);
    if (O >= 0) mpz_sub_ui(num.v, num.v, (unsigned long)O); else mpz_add_ui(num.v, num.v, (unsigned long)(-O));
    mpz_set_ui(den.v, N);
  } else {
    Z t; mpz_set_si(t.v, O); mpz_mul_2exp(t.v, t.v, (mp_bitcnt_t)(-e));
    mpz_set_si(num.v, (long)m); mpz_sub(num.v, num.v, t.v);
    mpz_set_ui(den.v, N); mpz_mul_2exp(den.v, den.v, (mp_bitcnt_t)(-e));
  }
  mpz_mul_ui(num.v, num.v, D);
  mpz_fdiv_q(out.v, num.v, den.v);
}

// value of  O + (i*N)/D  (half=false)  or  O + ((2i+1)*N)/(2D)  (half=true)  rounded once to double
inline double cell_point(long O, int64_t i, unsigned long N, unsigned long D, bool half) {
  mpq_t q; mpq_init(q);
  Z num, den;
  mpz_set_si(num.v, (long)i);
  if (half) { mpz_mul_2exp(num.v, num.v, 1); mpz_add_ui(num.v, num.v, 1); }
  mpz_mul_ui(num.v, num.v, N);
  mpz_set_ui(den.v, D); if (half) mpz_mul_2exp(den.v, den.v, 1);
  Z t; mpz_set_si(t.v, O); mpz_mul(t.v, t.v, den.v); mpz_add(num.v, num.v, t.v);
  mpz_set(mpq_numref(q), num.v); mpz_set(mpq_denref(q), den.v); mpq_canonicalize(q);
  mpfr_t r; mpfr_init2(r, 53); mpfr_set_q(r, q, MPFR_RNDN);
  double d = mpfr_get_d(r, MPFR_RNDN);
  mpfr_clear(r); mpq_clear(q);
  return d;
}

// is the exact value of lon congruent to 180 modulo 360 ?
inline bool lon_is_180(double lon) {
  if (!std::isfinite(lon) || lon != std::floor(lon)) return false;   // must be an integer
  Z b; cell_floor(b, lon, -180, 1, 1);                     // lon + 180 (exact integer)
  return mpz_fdiv_ui(b.v, 360) == 0;
}

inline unsigned long ipow10(int k) { unsigned long r = 1; while (k-- > 0) r *= 10; return r; }

// ------------------------------------------------------------------ alphabets (from the specs)
inline const char* geohash_alphabet() { return "0123456789bcdefghjkmnpqrstuvwxyz"; }
inline const char* letters24() { return "ABCDEFGHJKLMNPQRSTUVWXYZ"; }     // A-Z without I, O
inline const char* letters25() { return "ABCDEFGHJKLMNOPQRSTUVWXYZ"; }    // A-Z without I
inline int find_ci(const char* alphabet, int n, char c) {      // case-insensitive index or -1
  if (c == '\0') return -1;
  int u = (c >= 'a' && c <= 'z') ? c - 'a' + 'A' : c;
  for (int i = 0; i < n; ++i) {
    int a = alphabet[i]; if (a >= 'a' && a <= 'z') a = a - 'a' + 'A';
    if (a == u) return i;
  }
  return -1;
}
inline bool is_space(char c) { return c == ' ' || c == '\t' || c == '\n' || c == '\v' || c == '\f' || c == '\r'; }

// ------------------------------------------------------------------ grids
// Resolution of a scheme at precision p: cell width = N/D (degrees or metres) in each
// coordinate, origin (Ou, Ov), number of columns / rows.
struct Grid { long Ou, Ov; unsigned long Nu, Du, Nv, Dv; int64_t ncol, nrow; bool wrap; };

inline int eff_prec(int s, int prec, bool& throws) {
  throws = false;
  switch (s) {
    case GEOHASH: return prec < 0 ? 0 : prec > 18 ? 18 : prec;
    case GARS: return prec < 0 ? 0 : prec > 2 ? 2 : prec;
    case GEOREF: { int p = prec < -1 ? -1 : prec > 11 ? 11 : prec; return p == 1 ? 2 : p; }
    default: if (prec < 0 || prec > 11) throws = true; return prec;
  }
}
inline int min_prec(int s) { return s == GEOREF ? -1 : 0; }
inline int max_prec(int s) { return s == GEOHASH ? 18 : s == GARS ? 2 : 11; }
inline bool prec_exists(int s, int p) { return p >= min_prec(s) && p <= max_prec(s) && !(s == GEOREF && p == 1); }

inline Grid grid(int s, int p) {
  Grid g{};
  switch (s) {
    case GEOHASH: {
      int nlon = (5 * p + 1) / 2, nlat = (5 * p) / 2;
      g = Grid{-180, -90, 360, 1UL << nlon, 180, 1UL << nlat, (int64_t)1 << nlon, (int64_t)1 << nlat, true};
      break; }
    case GARS: {
      unsigned long d = p == 0 ? 2 : p == 1 ? 4 : 12;
      g = Grid{-180, -90, 1, d, 1, d, (int64_t)(360 * d), (int64_t)(180 * d), true};
      break; }
    case GEOREF: {
      if (p < 0) g = Grid{-180, -90, 15, 1, 15, 1, 24, 12, true};
      else if (p == 0) g = Grid{-180, -90, 1, 1, 1, 1, 360, 180, true};
      else { unsigned long d = 60 * ipow10(p - 2); g = Grid{-180, -90, 1, d, 1, d, (int64_t)(360 * d), (int64_t)(180 * d), true}; }
      break; }
    default: {
      unsigned long n = p <= 5 ? ipow10(5 - p) : 1, d = p <= 5 ? 1 : ipow10(p - 5);
      int64_t per100k = (int64_t)ipow10(p);
      g = Grid{-1000000, -500000, n, d, n, d, 25 * per100k, 25 * per100k, false};
    }
  }
  return g;
}

struct Cell { int scheme = 0, prec = 0; int64_t iu = 0, iv = 0; };
inline bool operator==(const Cell& a, const Cell& b) { return a.scheme == b.scheme && a.prec == b.prec && a.iu == b.iu && a.iv == b.iv; }

// ------------------------------------------------------------------ cell -> string
inline std::string cell_string(const Cell& c) {
  std::string s;
  int p = c.prec;
  switch (c.scheme) {
    case GEOHASH: {
      int nlon = (5 * p + 1) / 2, nlat = (5 * p) / 2, jl = 0, jt = 0; unsigned v = 0;
      for (int i = 0; i < 5 * p; ++i) {
        unsigned bit;
        if ((i & 1) == 0) { bit = (unsigned)((c.iu >> (nlon - 1 - jl)) & 1); ++jl; }
        else { bit = (unsigned)((c.iv >> (nlat - 1 - jt)) & 1); ++jt; }
        v = (v << 1) | bit;
        if (i % 5 == 4) { s += geohash_alphabet()[v]; v = 0; }
      }
      break; }
    case GARS: {
      int64_t m = p == 0 ? 1 : p == 1 ? 2 : 6;              // sub-cells per 30' cell per axis
      int64_t X = c.iu / m, Y = c.iv / m, x = c.iu % m, y = c.iv % m;
      char b[8]; std::snprintf(b, sizeof b, "%03d", (int)(X + 1)); s = b;
      s += letters24()[Y / 24]; s += letters24()[Y % 24];
      if (p >= 1) {
        int64_t k = p == 1 ? 1 : 3;                          // 5' cells per 15' quadrant per axis
        int64_t qx = x / k, qy = y / k;                      // quadrant column (0 = W), row (0 = S)
        s += (char)('0' + 1 + qx + 2 * (1 - qy));
        if (p >= 2) { int64_t kx = x % 3, ky = y % 3; s += (char)('0' + 1 + kx + 3 * (2 - ky)); }
      }
      break; }
    case GEOREF: {
      if (p < 0) { s += letters24()[c.iu]; s += letters24()[c.iv]; break; }
      int64_t per = p == 0 ? 1 : (int64_t)(60 * ipow10(p - 2));
      int64_t du = c.iu / per, dv = c.iv / per, ru = c.iu % per, rv = c.iv % per;
      s += letters24()[du / 15]; s += letters24()[dv / 15];
      s += letters24()[du % 15]; s += letters24()[dv % 15];
      if (p >= 2) {
        char b[40];
        std::snprintf(b, sizeof b, "%0*lld", p, (long long)ru); s += b;
        std::snprintf(b, sizeof b, "%0*lld", p, (long long)rv); s += b;
      }
      break; }
    default: {
      int64_t per = (int64_t)ipow10(p);
      int64_t X = c.iu / per, Y = c.iv / per, ru = c.iu % per, rv = c.iv % per;   // 100 km square indices 0..24
      s += letters25()[(4 - Y / 5) * 5 + X / 5];
      s += letters25()[(4 - Y % 5) * 5 + X % 5];
      if (p > 0) {
        char b[40];
        std::snprintf(b, sizeof b, "%0*lld", p, (long long)ru); s += b;
        std::snprintf(b, sizeof b, "%0*lld", p, (long long)rv); s += b;
      }
    }
  }
  return s;
}

// ------------------------------------------------------------------ encoder
struct Enc {
  enum St { OK, THROWS, INVALID, THROWS_OR_INVALID } st = OK;
  Cell cell; std::string code;
};
inline const char* invalid_marker(int s) { return s == GEOHASH ? "invalid" : "INVALID"; }

// u = longitude / easting, v = latitude / northing
inline Enc encode(int s, double u, double v, int prec) {
  Enc r; bool pthrow; int p = eff_prec(s, prec, pthrow);
  bool nan = std::isnan(u) || std::isnan(v);
  if (s == OSGB) {
    bool range = (!std::isnan(u) && !(u >= -1000000.0 && u < 1500000.0)) || (!std::isnan(v) && !(v >= -500000.0 && v < 2000000.0));
    if (range || pthrow) { r.st = nan ? Enc::THROWS_OR_INVALID : Enc::THROWS; return r; }
  } else {
    if (!std::isnan(v) && !(std::fabs(v) <= 90)) { r.st = nan ? Enc::THROWS_OR_INVALID : Enc::THROWS; return r; }
  }
  if (nan) { r.st = Enc::INVALID; r.code = invalid_marker(s); return r; }
  if (std::isinf(u)) { r.st = Enc::THROWS_OR_INVALID; return r; }     // not a real longitude: outside C18
  Grid g = grid(s, p);
  Z zu, zv; cell_floor(zu, u, g.Ou, g.Nu, g.Du); cell_floor(zv, v, g.Ov, g.Nv, g.Dv);
  if (g.wrap) { Z m; mpz_set_si(m.v, (long)g.ncol); mpz_fdiv_r(zu.v, zu.v, m.v); }
  int64_t iu = (int64_t)mpz_get_si(zu.v), iv = (int64_t)mpz_get_si(zv.v);
  if (g.wrap && iv == g.nrow) iv = g.nrow - 1;                         // the north pole belongs to the last row
  r.cell.scheme = s; r.cell.prec = p; r.cell.iu = iu; r.cell.iv = iv;
  r.code = cell_string(r.cell);
  return r;
}

// Independent second formulation for Geohash (the original bisection description), used by the
// oracle self-test only.
inline std::string geohash_bisect(double lat, double lon, int len) {
  // reduce longitude exactly to [-180,180)
  Z k; cell_floor(k, lon, -180, 360, 1);
  mpq_t x, y, lo, hi, mid, t; mpq_init(x); mpq_init(y); mpq_init(lo); mpq_init(hi); mpq_init(mid); mpq_init(t);
  mpq_set_d(x, lon); mpq_set_z(t, k.v); { mpq_t c; mpq_init(c); mpq_set_si(c, 360, 1); mpq_mul(t, t, c); mpq_clear(c); }
  mpq_sub(x, x, t); mpq_set_d(y, lat);
  mpq_t xl, xh, yl, yh; mpq_init(xl); mpq_init(xh); mpq_init(yl); mpq_init(yh);
  mpq_set_si(xl, -180, 1); mpq_set_si(xh, 180, 1); mpq_set_si(yl, -90, 1); mpq_set_si(yh, 90, 1);
  std::string s; unsigned v = 0;
  for (int i = 0; i < 5 * len; ++i) {
    mpq_t &l = (i & 1) ? yl : xl, &h = (i & 1) ? yh : xh, &c = (i & 1) ? y : x;
    mpq_add(mid, l, h); mpq_div_2exp(mid, mid, 1);
    unsigned bit;
    if (mpq_cmp(c, mid) >= 0) { bit = 1; mpq_set(l, mid); } else { bit = 0; mpq_set(h, mid); }
    v = (v << 1) | bit;
    if (i % 5 == 4) { s += geohash_alphabet()[v]; v = 0; }
  }
  mpq_clear(x); mpq_clear(y); mpq_clear(lo); mpq_clear(hi); mpq_clear(mid); mpq_clear(t);
  mpq_clear(xl); mpq_clear(xh); mpq_clear(yl); mpq_clear(yh);
  return s;
}

// ------------------------------------------------------------------ decoder
struct Dec {
  enum St { VALID, NANMARK, BAD } st = BAD;
  std::string reason;          // for BAD: nul-char | illegal-char | length | odd-length | range | trailing-char
  Cell cell; std::string canon;
  double cu = 0, cv = 0, su = 0, sv = 0;     // centre and SW corner, each correctly rounded once
};
inline void fill_points(Dec& d) {
  Grid g = grid(d.cell.scheme, d.cell.prec);
  d.cu = cell_point(g.Ou, d.cell.iu, g.Nu, g.Du, true);  d.cv = cell_point(g.Ov, d.cell.iv, g.Nv, g.Dv, true);
  d.su = cell_point(g.Ou, d.cell.iu, g.Nu, g.Du, false); d.sv = cell_point(g.Ov, d.cell.iv, g.Nv, g.Dv, false);
  d.canon = cell_string(d.cell);
}
inline bool ci_prefix(const std::string& s, const char* pre) {
  size_t n = std::strlen(pre); if (s.size() < n) return false;
  for (size_t i = 0; i < n; ++i) { int c = (unsigned char)s[i]; if (c >= 'a' && c <= 'z') c -= 32; if (c != pre[i]) return false; }
  return true;
}
inline Dec bad(const char* why) { Dec d; d.st = Dec::BAD; d.reason = why; return d; }
inline const char* badchar(char c) { return c == '\0' ? "nul-char" : "illegal-char"; }

inline Dec decode(int s, const std::string& str) {
  Dec d; d.cell.scheme = s;
  switch (s) {
    case GEOHASH: {
      if (ci_prefix(str, "INV") || ci_prefix(str, "NAN")) { d.st = Dec::NANMARK; return d; }
      int len = (int)std::min<size_t>(18, str.size());
      int64_t iu = 0, iv = 0; int i = 0;
      for (int k = 0; k < len; ++k) {
        int b = find_ci(geohash_alphabet(), 32, str[k]);
        if (b < 0) return bad(badchar(str[k]));
        for (int m = 4; m >= 0; --m, ++i) { int bit = (b >> m) & 1; if ((i & 1) == 0) iu = (iu << 1) | bit; else iv = (iv << 1) | bit; }
      }
      d.cell.prec = len; d.cell.iu = iu; d.cell.iv = iv; break; }
    case GARS: {
      if (ci_prefix(str, "INV")) { d.st = Dec::NANMARK; return d; }
      int len = (int)str.size();
      if (len < 5 || len > 7) return bad("length");
      int X = 0;
      for (int k = 0; k < 3; ++k) { if (!(str[k] >= '0' && str[k] <= '9')) return bad(badchar(str[k])); X = 10 * X + (str[k] - '0'); }
      int a = find_ci(letters24(), 24, str[3]), b = find_ci(letters24(), 24, str[4]);
      if (a < 0) return bad(badchar(str[3]));
      if (b < 0) return bad(badchar(str[4]));
      if (X < 1 || X > 720) return bad("range");
      int Y = 24 * a + b; if (Y >= 360) return bad("range");
      int64_t iu = X - 1, iv = Y; int p = len - 5;
      if (p >= 1) {
        char c = str[5]; if (!(c >= '0' && c <= '9')) return bad(badchar(c));
        if (c < '1' || c > '4') return bad("range");
        int q = c - '1'; iu = 2 * iu + (q % 2); iv = 2 * iv + (1 - q / 2);
        if (p >= 2) {
          c = str[6]; if (!(c >= '0' && c <= '9')) return bad(badchar(c));
          if (c < '1') return bad("range");
          q = c - '1'; iu = 3 * iu + (q % 3); iv = 3 * iv + (2 - q / 3);
        }
      }
      d.cell.prec = p; d.cell.iu = iu; d.cell.iv = iv; break; }
    case GEOREF: {
      if (ci_prefix(str, "INV")) { d.st = Dec::NANMARK; return d; }
      int len = (int)str.size();
      if (len < 2) return bad("length");
      int a = find_ci(letters24(), 24, str[0]); if (a < 0) return bad(badchar(str[0]));
      int b = find_ci(letters24(), 12, str[1]); if (b < 0) return bad(find_ci(letters24(), 24, str[1]) >= 0 ? "range" : badchar(str[1]));
      if (len == 2) { d.cell.prec = -1; d.cell.iu = a; d.cell.iv = b; break; }
      if (len < 4) return bad("length");
      int c1 = find_ci(letters24(), 15, str[2]); if (c1 < 0) return bad(find_ci(letters24(), 24, str[2]) >= 0 ? "range" : badchar(str[2]));
      int c2 = find_ci(letters24(), 15, str[3]); if (c2 < 0) return bad(find_ci(letters24(), 24, str[3]) >= 0 ? "range" : badchar(str[3]));
      int64_t iu = 15 * a + c1, iv = 15 * b + c2;
      if (len == 4) { d.cell.prec = 0; d.cell.iu = iu; d.cell.iv = iv; break; }
      for (int k = 4; k < len; ++k) if (!(str[k] >= '0' && str[k] <= '9')) return bad(len == 5 ? "trailing-char" : badchar(str[k]));
      if (len == 5) return bad("trailing-char");
      if ((len - 4) % 2) return bad("odd-length");
      int p = (len - 4) / 2;
      if (p < 2 || p > 11) return bad("length");
      int64_t ru = 0, rv = 0;
      for (int k = 0; k < p; ++k) { ru = 10 * ru + (str[4 + k] - '0'); rv = 10 * rv + (str[4 + p + k] - '0'); }
      int64_t per = (int64_t)(60 * ipow10(p - 2));
      if (ru >= per || rv >= per) return bad("range");             // minutes 00..59
      d.cell.prec = p; d.cell.iu = iu * per + ru; d.cell.iv = iv * per + rv; break; }
    default: {
      if (ci_prefix(str, "IN")) { d.st = Dec::NANMARK; return d; }
      std::string t; for (char c : str) if (!is_space(c)) t += c;
      int len = (int)t.size();
      if (len < 2) return bad("length");
      if (len > 24) return bad("length");
      if (len % 2) return bad("odd-length");
      int a = find_ci(letters25(), 25, t[0]); if (a < 0) return bad(badchar(t[0]));
      int b = find_ci(letters25(), 25, t[1]); if (b < 0) return bad(badchar(t[1]));
      int p = (len - 2) / 2;
      for (int k = 2; k < len; ++k) if (!(t[k] >= '0' && t[k] <= '9')) return bad(badchar(t[k]));
      int64_t X = 5 * (a % 5) + (b % 5), Y = 5 * (4 - a / 5) + (4 - b / 5);
      int64_t ru = 0, rv = 0;
      for (int k = 0; k < p; ++k) { ru = 10 * ru + (t[2 + k] - '0'); rv = 10 * rv + (t[2 + p + k] - '0'); }
      int64_t per = (int64_t)ipow10(p);
      d.cell.prec = p; d.cell.iu = X * per + ru; d.cell.iv = Y * per + rv;
    }
  }
  d.st = Dec::VALID; fill_points(d);
  return d;
}

// exact membership: is (u,v) inside cell c (S/W-closed, lon mod 360, pole in last row)?
inline bool contains(const Cell& c, double u, double v) {
  Enc e = encode(c.scheme, u, v, c.prec);
  return e.st == Enc::OK && e.cell == c;
}

// ------------------------------------------------------------------ OSGB36 National Grid projection
// "A guide to coordinate systems in Great Britain", annex C (Airy 1830, a = 6377563.396 m,
// b = 6356256.909 m, F0 = 0.9996012717, origin 49N 2W, E0 = 400000, N0 = -100000): the
// Redfearn-type series in the longitude difference.  Different route from a Krueger series in
// the third flattening; truncation error < 0.3 mm for |lon+2| <= 5 deg and 49.5 <= lat <= 61.
inline void osgb_tm(long double latd, long double lond, long double& E, long double& N) {
  const long double a = 6377563.396L, b = 6356256.909L, F0 = 0.9996012717L, E0 = 400000, N0 = -100000;
  const long double rad = 3.14159265358979323846264338327950288L / 180;
  long double phi = latd * rad, lam = lond * rad, phi0 = 49 * rad, lam0 = -2 * rad;
  long double e2 = (a * a - b * b) / (a * a), n = (a - b) / (a + b);
  long double s = sinl(phi), c = cosl(phi), t = tanl(phi), t2 = t * t, t4 = t2 * t2;
  long double w = 1 - e2 * s * s;
  long double nu = a * F0 / sqrtl(w), rho = a * F0 * (1 - e2) / (w * sqrtl(w)), eta2 = nu / rho - 1;
  long double dp = phi - phi0, sp = phi + phi0, n2 = n * n, n3 = n2 * n;
  long double M = b * F0 * ((1 + n + 1.25L * n2 + 1.25L * n3) * dp
                            - (3 * n + 3 * n2 + 2.625L * n3) * sinl(dp) * cosl(sp)
                            + (1.875L * n2 + 1.875L * n3) * sinl(2 * dp) * cosl(2 * sp)
                            - (35.0L / 24) * n3 * sinl(3 * dp) * cosl(3 * sp));
  long double I = M + N0, II = nu / 2 * s * c, III = nu / 24 * s * c * c * c * (5 - t2 + 9 * eta2),
    IIIA = nu / 720 * s * c * c * c * c * c * (61 - 58 * t2 + t4),
    IV = nu * c, V = nu / 6 * c * c * c * (nu / rho - t2),
    VI = nu / 120 * c * c * c * c * c * (5 - 18 * t2 + t4 + 14 * eta2 - 58 * t2 * eta2);
  long double dl = lam - lam0, dl2 = dl * dl;
  N = I + dl2 * (II + dl2 * (III + dl2 * IIIA));
  E = E0 + dl * (IV + dl2 * (V + dl2 * VI));
}

} }  // namespace ref::codes
