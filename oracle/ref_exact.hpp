// Exact arithmetic helpers on top of MPFR (no GeographicLib code).
// 2200 bits hold any sum/difference of two doubles exactly (exponent span 2098 bits).
#pragma once
#include <mpfr.h>
#include <quadmath.h>
#include <cmath>
#include <cstring>
#include <limits>
#include <string>

namespace ref {

struct MP {
  mpfr_t v;
  explicit MP(int prec = 2200) { mpfr_init2(v, prec); mpfr_set_zero(v, 1); }
  MP(const MP& o) { mpfr_init2(v, mpfr_get_prec(o.v)); mpfr_set(v, o.v, MPFR_RNDN); }
  MP& operator=(const MP& o) { if (this != &o) { mpfr_set_prec(v, mpfr_get_prec(o.v)); mpfr_set(v, o.v, MPFR_RNDN); } return *this; }
  ~MP() { mpfr_clear(v); }
  MP& set(double d) { mpfr_set_d(v, d, MPFR_RNDN); return *this; }
  MP& setld(long double d) { mpfr_set_ld(v, d, MPFR_RNDN); return *this; }
  double d() const { return mpfr_get_d(v, MPFR_RNDN); }
  long double ld() const { return mpfr_get_ld(v, MPFR_RNDN); }
  bool zero() const { return mpfr_zero_p(v) != 0; }
  int sgn() const { return mpfr_sgn(v); }
  std::string str(int digits = 40) const { char b[128]; mpfr_snprintf(b, sizeof b, "%.*Rg", digits, v); return b; }
};
inline MP mp(double d, int prec = 2200) { MP r(prec); r.set(d); return r; }

// ulp spacing of double at |x| (subnormal aware)
inline double ulp_d(double x) {
  x = std::fabs(x);
  if (!std::isfinite(x)) return std::numeric_limits<double>::quiet_NaN();
  double n = std::nextafter(x, std::numeric_limits<double>::infinity());
  if (std::isinf(n)) return x - std::nextafter(x, 0.0);
  return n - x;
}
inline float ulp_f(float x) {
  x = std::fabs(x);
  float n = std::nextafterf(x, std::numeric_limits<float>::infinity());
  if (std::isinf(n)) return x - std::nextafterf(x, 0.0f);
  return n - x;
}

// |got - truth| expressed in ulps of the double nearest to truth
inline double err_ulps(double got, __float128 truth) {
  if (std::isnan(got)) return isnanq(truth) ? 0 : HUGE_VAL;
  if (isnanq(truth)) return HUGE_VAL;
  double t = (double)truth;
  if (std::isinf(t) || std::isinf(got)) return (t == got) ? 0 : HUGE_VAL;
  double u = ulp_d(t);
  return (double)(fabsq((__float128)got - truth) / u);
}
inline double err_ulps_f(float got, double truth) {
  if (std::isnan(got)) return std::isnan(truth) ? 0 : HUGE_VAL;
  if (std::isnan(truth)) return HUGE_VAL;
  float t = (float)truth;
  if (std::isinf(t) || std::isinf(got)) return (t == got) ? 0 : HUGE_VAL;
  return std::fabs((double)got - truth) / (double)ulp_f(t);
}

inline std::string qstr(__float128 x, int digits = 30) {
  char b[128]; quadmath_snprintf(b, sizeof b, "%.*Qg", digits, x); return b;
}

}  // namespace ref
