// Reference model for Legendre / Carlson elliptic integrals and Jacobi elliptic functions
// (no GeographicLib code).  Everything is the *defining integral* evaluated by adaptive
// Gauss-Legendre quadrature in __float128:
//   F(phi,k)  = int_0^phi dtheta / Delta                 Delta = sqrt(1 - k^2 sin^2 theta)
//   E(phi,k)  = int_0^phi Delta dtheta
//   D(phi,k)  = int_0^phi sin^2 / Delta dtheta
//   Pi(phi,alpha^2,k) = int_0^phi dtheta / ((1 - alpha^2 sin^2) Delta)
//   G(phi,alpha^2,k)  = int_0^phi Delta / (1 - alpha^2 sin^2) dtheta          (GeographicLib's definition)
//   H(phi,alpha^2,k)  = int_0^phi cos^2 / ((1 - alpha^2 sin^2) Delta) dtheta  (GeographicLib's definition)
// for any real k^2 <= 1 and alpha^2 <= 1 (both may be negative).  The quarter period [0,pi/2] is
// split at pi/4; on the upper half the integration variable is the co-angle pi/2 - theta so that
// 1 - k^2 sin^2 = k'^2 + k^2 sin^2(co-angle) keeps full accuracy for k' -> 0 (the caller supplies k'^2 and
// alpha'^2 exactly as it supplies them to the library).  am/sn/cn/dn: inversion of F by safeguarded Newton.
// Carlson R_F, R_C, R_J, R_D, R_G: DLMF 19.16.1, 19.2.17, 19.16.2, 19.16.5 and 19.23.6_5/Carlson (1.5) on
// [0,inf), split at the smallest positive and the largest argument; substitutions t = u^2 (removes the
// t^(-1/2) end-point singularity), t = e^s, t = 1/v^2 (maps the algebraic tail to a regular integrand).
// Optional second opinion (define REF_ELLIPTIC_WITH_BOOST before including): Boost.Math 1.83.
#pragma once
#include "oracle/ref_adaptgl.hpp"
#ifdef REF_ELLIPTIC_WITH_BOOST
#include <boost/math/special_functions/ellint_1.hpp>
#include <boost/math/special_functions/ellint_2.hpp>
#include <boost/math/special_functions/ellint_3.hpp>
#include <boost/math/special_functions/ellint_d.hpp>
#include <boost/math/special_functions/ellint_rf.hpp>
#include <boost/math/special_functions/ellint_rc.hpp>
#include <boost/math/special_functions/ellint_rd.hpp>
#include <boost/math/special_functions/ellint_rg.hpp>
#include <boost/math/special_functions/ellint_rj.hpp>
#include <boost/math/special_functions/jacobi_elliptic.hpp>
#endif

namespace ref {

enum { EL_F = 0, EL_E = 1, EL_D = 2, EL_PI = 3, EL_G = 4, EL_H = 5 };

struct EllRef {
  q128 k2, kp2, a2, ap2;
  bool ksing, asing;               // k'^2 == 0 ; alpha'^2 == 0
  bool divergent[6];               // complete integral infinite
  CumQuad<6> A, B;                 // A(theta) = int_0^theta, theta in [0,pi/4];  B(-co) = int over co-angle in [co, pi/4] (variable t = -co in [-pi/4,0])
                                   // (accumulated towards the pole, so that no large complete integral is ever subtracted)
  QV<6> C;                         // complete integrals (inf where divergent)
  static q128 inf() { return (q128)HUGE_VALQ; }

  // integrand from sin, cos of theta
  void integrand(q128 s, q128 c, q128* o) const {
    q128 d2 = k2 < 0 ? 1 - k2 * s * s : kp2 + k2 * c * c;
    q128 den = a2 < 0 ? 1 - a2 * s * s : ap2 + a2 * c * c;
    q128 d = sqrtq(d2);
    o[EL_F] = 1 / d; o[EL_E] = d; o[EL_D] = s * s / d; o[EL_PI] = 1 / (den * d); o[EL_G] = d / den; o[EL_H] = c * c / (den * d);
  }
  q128 delta(q128 s, q128 c) const { return sqrtq(k2 < 0 ? 1 - k2 * s * s : kp2 + k2 * c * c); }

  // four-argument form: the caller supplies the complements; whichever of (x, 1-x) is smaller in
  // magnitude is taken as exact and the other one is recomputed from it in binary128
  EllRef(double k2_, double a2_, double kp2_, double ap2_) {
    q128 K2 = k2_, KP = kp2_, A2 = a2_, AP = ap2_;
    if (fabsq(KP) < fabsq(K2)) K2 = 1 - KP; else KP = 1 - K2;
    if (fabsq(AP) < fabsq(A2)) A2 = 1 - AP; else AP = 1 - A2;
    init(K2, A2, KP, AP);
  }
  // two-argument form: k^2 and alpha^2 are the parameters, complements are exact
  EllRef(double k2_, double a2_ = 0) { init(k2_, a2_, 1 - (q128)k2_, 1 - (q128)a2_); }
  void init(q128 k2_, q128 a2_, q128 kp2_, q128 ap2_) {
    k2 = k2_; a2 = a2_; kp2 = kp2_; ap2 = ap2_;
    ksing = kp2 == 0; asing = ap2 == 0;
    divergent[EL_F] = ksing; divergent[EL_E] = false; divergent[EL_D] = ksing; divergent[EL_PI] = ksing || asing;
    divergent[EL_G] = asing; divergent[EL_H] = ksing && asing;
    A.build([this](q128 th, q128* o) { q128 s, c; sincosq(th, &s, &c); integrand(s, c, o); }, 0, M_PIq / 4);
    auto fb = [this](q128 t, q128* o) { q128 s, c; sincosq(-t, &c, &s); integrand(s, c, o); for (int i = 0; i < 6; ++i) if (divergent[i]) o[i] = 0; };
    B.build(fb, -M_PIq / 4, 0);
    C = A.total() + B.total();
    for (int i = 0; i < 6; ++i) if (divergent[i]) C[i] = inf();
  }
  EllRef(const EllRef&) = delete;     // the CumQuads capture `this`

  // integrals over [0, phi], 0 <= phi <= pi/2.  co = pi/2 - phi must be supplied by the caller when
  // phi > pi/4 (it knows it more accurately than a subtraction here would)
  QV<6> upto_lo(q128 phi) { return A(phi); }
  QV<6> upto_hi(q128 co) {
    if (!(ksing || asing)) return A.total() + B(-co);
    if (co <= 1e-32Q) return C;
    // singular modulus/parameter: integrate the co-angle form from co to pi/4 in log(co-angle)
    auto f = [this](q128 u, q128* o) { q128 co2 = expq(u), s, c; sincosq(co2, &c, &s); integrand(s, c, o); for (int i = 0; i < 6; ++i) o[i] *= co2; };
    QV<6> t = adapt_integrate<6>(f, logq(co), logq(M_PIq / 4));
    return A.total() + t;
  }
  // all six incomplete integrals at a real argument (any size); components whose complete integral
  // diverges are returned as +-inf when the range crosses an odd multiple of pi/2
  QV<6> at(q128 phi) {
    q128 n = roundq(phi / M_PIq), r = phi - n * M_PIq, ar = fabsq(r);
    q128 co_ = M_PIq / 2 - ar; if (co_ < 0) co_ = 0;
    QV<6> v = ar <= M_PIq / 4 ? upto_lo(ar) : upto_hi(co_);
    QV<6> o;
    for (int i = 0; i < 6; ++i) { q128 x = copysignq(v[i], r); o[i] = n == 0 ? x : 2 * n * C[i] + x; }
    return o;
  }
  // ... at the angle atan2(sn, cn) in (-pi, pi]
  QV<6> at_sc(q128 sn, q128 cn) {
    q128 as = fabsq(sn), ac = fabsq(cn);
    QV<6> v = as <= ac ? upto_lo(atan2q(as, ac)) : upto_hi(atan2q(ac, as));
    QV<6> o;
    for (int i = 0; i < 6; ++i) { q128 x = signbitq(cn) ? 2 * C[i] - v[i] : v[i]; o[i] = copysignq(x, sn); }
    return o;
  }

  // ---- Jacobi amplitude: solve F(phi) = x.  Returns phi; sn, cn, dn from the definitions
  long niter = 0;
  q128 am(q128 x, q128& sn, q128& cn, q128& dn) {
    if (k2 == 0) { sincosq(x, &sn, &cn); dn = 1; return x; }
    if (ksing) { sn = tanhq(x); cn = dn = 1 / coshq(x); return atanq(sinhq(x)); }     // F = asinh(tan phi)
    q128 K = C[EL_F], n = roundq(x / (2 * K)), xr = x - 2 * n * K, ax = fabsq(xr);
    q128 FA = A.total()[EL_F], ph, s, c;
    if (ax <= FA) {
      // Newton for F(phi) = ax on [0, pi/4]
      q128 lo = 0, hi = M_PIq / 4; ph = ax * (M_PIq / 4) / FA;
      for (int it = 0;; ++it) {
        ++niter; if (it > 300) throw std::runtime_error("EllRef::am no convergence (A)");
        q128 g = A(ph)[EL_F] - ax; sincosq(ph, &s, &c);
        if (g > 0) hi = ph; else lo = ph;
        q128 pn = ph - g * delta(s, c);
        if (!(pn >= lo && pn <= hi)) pn = (lo + hi) / 2;
        q128 d = pn - ph; ph = pn;
        if (fabsq(d) <= 1e-29Q * ph || g == 0 || (it > 100 && fabsq(d) <= 1e-25Q * ph)) break;
      }
      sincosq(ph, &s, &c);
    } else {
      // Newton for B(-co)[F] = ax - F(pi/4) on the co-angle in [0, pi/4]  (B(-co) decreases with co, slope -1/Delta)
      q128 tgt = ax - FA, FB = B.total()[EL_F], lo = 0, hi = M_PIq / 4, co = (1 - tgt / FB) * (M_PIq / 4);
      if (!(co > lo && co < hi)) co = (lo + hi) / 2;
      for (int it = 0;; ++it) {
        ++niter; if (it > 400) throw std::runtime_error("EllRef::am no convergence (B)");
        q128 g = B(-co)[EL_F] - tgt; sincosq(co, &c, &s);
        if (g > 0) lo = co; else hi = co;             // too much integral -> co must grow
        q128 cn2 = co + g * delta(s, c);
        if (!(cn2 >= lo && cn2 <= hi)) cn2 = lo > 0 ? sqrtq(lo * hi) : (lo + hi) / 2;
        q128 d = cn2 - co; co = cn2;
        if (fabsq(d) <= 1e-29Q * co || g == 0 || fabsq(d) <= 1e-29Q * delta(s, c) * K || (it > 100 && fabsq(d) <= 1e-25Q * co)) break;
      }
      sincosq(co, &c, &s); ph = M_PIq / 2 - co;
    }
    dn = delta(s, c);
    // quadrant: phi = n pi + sign(xr) ph
    bool odd = fmodq(fabsq(n), 2) == 1;
    sn = copysignq(s, xr) * (odd ? -1 : 1); cn = odd ? -c : c;
    return n * M_PIq + copysignq(ph, xr);
  }
};

// ------------------------------------------------------------------ Carlson symmetric integrals
enum CarlsonKind { C_RF, C_RC, C_RJ, C_RD, C_RG };
inline q128 carlson_integrand(int kind, q128 t, q128 x, q128 y, q128 z, q128 p) {
  switch (kind) {
    case C_RF: return 0.5Q / sqrtq((t + x) * (t + y) * (t + z));
    case C_RC: return 0.5Q / (sqrtq(t + x) * (t + y));
    case C_RJ: return 1.5Q / (sqrtq((t + x) * (t + y) * (t + z)) * (t + p));
    case C_RD: return 1.5Q / (sqrtq((t + x) * (t + y) * (t + z)) * (t + z));
    case C_RG: return 0.25Q * t * (x / (t + x) + y / (t + y) + z / (t + z)) / sqrtq((t + x) * (t + y) * (t + z));
  }
  return 0;
}
inline q128 carlson(int kind, q128 x, q128 y, q128 z = 0, q128 p = 0, AdaptStats* st = nullptr) {
  q128 args[4] = {x, y, z, p}; int na = kind == C_RC ? 2 : (kind == C_RJ ? 4 : 3);
  q128 m = HUGE_VALQ, M = 0;
  for (int i = 0; i < na; ++i) { if (args[i] > 0 && args[i] < m) m = args[i]; if (args[i] > M) M = args[i]; }
  auto w = [&](q128 t) { return carlson_integrand(kind, t, x, y, z, p); };
  q128 sm = sqrtq(m), total = 0;
  auto f1 = [&](q128 u, q128* o) { o[0] = w(u * u) * 2 * u; };
  total += adapt_integrate<1>(f1, 0, sm, 1e-31Q, st)[0];
  if (M > m) { auto f2 = [&](q128 s, q128* o) { q128 t = expq(s); o[0] = w(t) * t; };
    total += adapt_integrate<1>(f2, logq(m), logq(M), 1e-31Q, st)[0]; }
  auto f3 = [&](q128 v, q128* o) { q128 t = 1 / (v * v); o[0] = w(t) * 2 * t / v; };
  total += adapt_integrate<1>(f3, 0, 1 / sqrtq(M), 1e-31Q, st)[0];
  return total;
}

#ifdef REF_ELLIPTIC_WITH_BOOST
// Boost.Math second opinion (long double), 0 <= k^2 <= 1, |phi| arbitrary
struct BoostEll {
  static long double F(long double k2, long double phi) { return boost::math::ellint_1(std::sqrt(k2), phi); }
  static long double E(long double k2, long double phi) { return boost::math::ellint_2(std::sqrt(k2), phi); }
  static long double D(long double k2, long double phi) { return boost::math::ellint_d(std::sqrt(k2), phi); }
  static long double Pi(long double k2, long double a2, long double phi) { return boost::math::ellint_3(std::sqrt(k2), a2, phi); }
  static long double sn(long double k2, long double u, long double& cn, long double& dn) { return boost::math::jacobi_elliptic(std::sqrt(k2), u, &cn, &dn); }
};
#endif

}  // namespace ref
