// ref_modelfiles.hpp — writers for synthetic GeographicLib magnetic (.wmm/.wmm.cof) and gravity
// (.egm/.egm.cof) model files.  Header-only, self-contained (libc + STL only), no GeographicLib includes.
// Formats written from the manual (doc/GeographicLib.dox.in, sections "magneticformat", "gravityformat").
//
// Usage
//   ref::ScratchDir dir("c19");                 // /dev/shm/verif_c19_<pid>, removed at exit (also reaps dirs of dead pids)
//   ref::CoefSet g0 = ref::CoefSet::zeros(12, 12);      // packed, column-major: C_nm at m*N - m(m-1)/2 + n
//   g0.c(2, 1) = -3.5; g0.s(2, 1) = 0.25;               // accessors by (n, m)
//   ref::WmmMeta mm; mm.radius = 6371200; mm.epoch = 2020; mm.num_models = 1;
//   ref::write_wmm(dir.path, "toy", mm, {g0, rate});    // needs num_models + 1 + num_constants sets, in file order
//   GeographicLib::MagneticModel m("toy", dir.path);
//   ref::EgmMeta em; ...; ref::write_egm(dir.path, "toyg", em, gravity_set, correction_set);
// A CoefSet is written verbatim (header N, M then C then S); nothing is validated, so hostile files
// (wrong sizes, absurd headers, trailing bytes via `trailing`) can be produced for negative tests.
#pragma once
#include <cstdint>
#include <cstdio>
#include <cstdlib>
#include <cstring>
#include <dirent.h>
#include <signal.h>
#include <string>
#include <sys/stat.h>
#include <unistd.h>
#include <vector>

namespace ref {

struct CoefSet {
  int32_t N = -1, M = -1;              // header values as written
  std::vector<double> C, S;            // payload as written (normally Csize(N,M) and Csize(N,M)-(N+1) entries)
  std::string trailing;                // raw bytes appended after this set (normally empty)
  static int csize(int N, int M) { return N < 0 || M < 0 ? 0 : (M + 1) * (2 * N - M + 2) / 2; }
  static int ssize(int N, int M) { return N < 0 || M < 0 ? 0 : csize(N, M) - (N + 1); }
  static CoefSet zeros(int N, int M) { CoefSet s; s.N = N; s.M = M; s.C.assign(csize(N, M), 0.0); s.S.assign(ssize(N, M), 0.0); return s; }
  static CoefSet empty() { return CoefSet(); }         // N = M = -1, no coefficients
  int cindex(int n, int m) const { return m * N - m * (m - 1) / 2 + n; }
  double& c(int n, int m) { return C[cindex(n, m)]; }
  double c(int n, int m) const { return m > M || n > N ? 0.0 : C[cindex(n, m)]; }
  double& s(int n, int m) { return S[cindex(n, m) - (N + 1)]; }
  double s(int n, int m) const { return m == 0 || m > M || n > N ? 0.0 : S[cindex(n, m) - (N + 1)]; }
};

inline bool write_cof(const std::string& file, const std::string& id8, const std::vector<CoefSet>& sets) {
  FILE* f = std::fopen(file.c_str(), "wb");
  if (!f) return false;
  std::string id = id8; id.resize(8, ' ');
  bool ok = std::fwrite(id.data(), 1, 8, f) == 8;
  for (const CoefSet& s : sets) {
    int32_t nm[2] = {s.N, s.M};                           // little endian host assumed (x86-64)
    ok = ok && std::fwrite(nm, 4, 2, f) == 2;
    if (!s.C.empty()) ok = ok && std::fwrite(s.C.data(), 8, s.C.size(), f) == s.C.size();
    if (!s.S.empty()) ok = ok && std::fwrite(s.S.data(), 8, s.S.size(), f) == s.S.size();
    if (!s.trailing.empty()) ok = ok && std::fwrite(s.trailing.data(), 1, s.trailing.size(), f) == s.trailing.size();
  }
  return std::fclose(f) == 0 && ok;
}

inline std::string num17(double v) { char b[40]; std::snprintf(b, sizeof b, "%.17g", v); return b; }

struct WmmMeta {
  int version = 2;
  std::string name, description = "synthetic", date = "2026-01-01", id = "SYNTHWMM";
  double radius = 6371200;
  int num_models = 1, num_constants = 0;
  bool write_num_constants = true;     // omit the keyword when false (default 0)
  double epoch = 2020, delta_epoch = 5;
  bool write_delta_epoch = true;
  double min_time = 1900, max_time = 2100, min_height = -1e4, max_height = 1e6;
  int norm = 1;                        // 0 = full, 1 = schmidt, -1 = keyword omitted (default schmidt)
  std::vector<std::string> extra_lines;   // appended verbatim
  std::string signature_suffix;           // text after the version on the signature line (the readers stop at the first blank)
};

inline bool write_text(const std::string& file, const std::string& txt) {
  FILE* f = std::fopen(file.c_str(), "wb"); if (!f) return false;
  bool ok = std::fwrite(txt.data(), 1, txt.size(), f) == txt.size();
  return std::fclose(f) == 0 && ok;
}

inline std::string wmm_text(const std::string& name, const WmmMeta& m) {
  std::string t = "WMMF-" + std::to_string(m.version) + m.signature_suffix + "\n# synthetic magnetic model written by ref_modelfiles.hpp\n";
  t += "Name            " + (m.name.empty() ? name : m.name) + "\n";
  t += "Description     " + m.description + "\nReleaseDate     " + m.date + "\n";
  t += "Radius          " + num17(m.radius) + "\n";
  t += "Type            Linear\n";
  t += "NumModels       " + std::to_string(m.num_models) + "\n";
  if (m.write_num_constants) t += "NumConstants    " + std::to_string(m.num_constants) + "\n";
  t += "Epoch           " + num17(m.epoch) + "\n";
  if (m.write_delta_epoch) t += "DeltaEpoch      " + num17(m.delta_epoch) + "\n";
  t += "MinTime         " + num17(m.min_time) + "\nMaxTime         " + num17(m.max_time) + "\n";
  t += "MinHeight       " + num17(m.min_height) + "\nMaxHeight       " + num17(m.max_height) + "\n";
  if (m.norm == 0) t += "Normalization   full\n"; else if (m.norm == 1) t += "Normalization   schmidt\n";
  t += "ByteOrder       little\n";
  for (const std::string& l : m.extra_lines) t += l + "\n";
  t += "ID              " + m.id + "\n";
  return t;
}
// sets: num_models field sets, then the rate set, then (num_constants) constant set
inline bool write_wmm(const std::string& dir, const std::string& name, const WmmMeta& m, const std::vector<CoefSet>& sets) {
  return write_text(dir + "/" + name + ".wmm", wmm_text(name, m)) && write_cof(dir + "/" + name + ".wmm.cof", m.id, sets);
}

struct EgmMeta {
  std::string name, description = "synthetic", date = "2026-01-01", id = "SYNTHEGM";
  double model_radius = 6378136.3, model_mass = 3986004.415e8, omega = 7292115e-11;
  double ref_radius = 6378137, ref_mass = 3986004.418e8;
  bool use_J2 = false;                 // write DynamicalFormFactor instead of Flattening
  double flattening = 1 / 298.257223563, J2 = 1.08263e-3;
  std::string flattening_text;         // if non-empty written instead of the number (e.g. "1/298.257223563")
  double height_offset = 0, corr_mult = 1;
  bool write_height_offset = true, write_corr_mult = true;
  int norm = 0;                        // 0 = full, 1 = schmidt, -1 = keyword omitted (default full)
  std::vector<std::string> extra_lines;
  std::string signature_suffix;        // text after the version on the signature line
};
inline std::string egm_text(const std::string& name, const EgmMeta& m) {
  std::string t = "EGMF-1" + m.signature_suffix + "\n# synthetic gravity model written by ref_modelfiles.hpp\n";
  t += "Name            " + (m.name.empty() ? name : m.name) + "\n";
  t += "Description     " + m.description + "\nReleaseDate     " + m.date + "\n";
  t += "ModelRadius     " + num17(m.model_radius) + "\nModelMass       " + num17(m.model_mass) + "\n";
  t += "AngularVelocity " + num17(m.omega) + "\n";
  t += "ReferenceRadius " + num17(m.ref_radius) + "\nReferenceMass   " + num17(m.ref_mass) + "\n";
  if (m.use_J2) t += "DynamicalFormFactor " + num17(m.J2) + "\n";
  else t += "Flattening      " + (m.flattening_text.empty() ? num17(m.flattening) : m.flattening_text) + "\n";
  if (m.write_height_offset) t += "HeightOffset    " + num17(m.height_offset) + "\n";
  if (m.write_corr_mult) t += "CorrectionMultiplier " + num17(m.corr_mult) + "\n";
  if (m.norm == 0) t += "Normalization   full\n"; else if (m.norm == 1) t += "Normalization   schmidt\n";
  t += "ByteOrder       little\n";
  for (const std::string& l : m.extra_lines) t += l + "\n";
  t += "ID              " + m.id + "\n";
  return t;
}
inline bool write_egm(const std::string& dir, const std::string& name, const EgmMeta& m,
                      const CoefSet& gravity, const CoefSet& correction) {
  return write_text(dir + "/" + name + ".egm", egm_text(name, m)) &&
         write_cof(dir + "/" + name + ".egm.cof", m.id, {gravity, correction});
}

// ---------------------------------------------------------------- scratch directory on tmpfs
inline void rm_rf(const std::string& d) {
  DIR* h = opendir(d.c_str());
  if (h) {
    while (dirent* e = readdir(h)) {
      std::string n = e->d_name; if (n == "." || n == "..") continue;
      std::string p = d + "/" + n; struct stat st;
      if (lstat(p.c_str(), &st) == 0 && S_ISDIR(st.st_mode)) rm_rf(p); else unlink(p.c_str());
    }
    closedir(h);
  }
  rmdir(d.c_str());
}
struct ScratchDir {
  std::string path;
  static std::string& registered() { static std::string p; return p; }
  static void cleanup() { if (!registered().empty()) { rm_rf(registered()); registered().clear(); } }
  explicit ScratchDir(const std::string& tag, const char* root = "/dev/shm") {
    std::string prefix = "verif_" + tag + "_";
    // reap directories left behind by processes that died (sanitizer abort, watchdog _exit)
    if (DIR* h = opendir(root)) {
      while (dirent* e = readdir(h)) {
        std::string n = e->d_name;
        if (n.compare(0, prefix.size(), prefix) != 0) continue;
        long pid = std::atol(n.c_str() + prefix.size());
        if (pid > 0 && kill((pid_t)pid, 0) != 0) rm_rf(std::string(root) + "/" + n);
      }
      closedir(h);
    }
    path = std::string(root) + "/" + prefix + std::to_string((long)getpid());
    rm_rf(path);
    mkdir(path.c_str(), 0700);
    registered() = path;
    std::atexit(&ScratchDir::cleanup);
  }
  ~ScratchDir() { cleanup(); }
};

}  // namespace ref
