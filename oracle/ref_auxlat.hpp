// Reference model for auxiliary latitudes and ellipsoid measures (no GeographicLib code).
// Everything is evaluated in __float128 from the textbook definitions:
//   beta  : tan(beta)  = (1-f) tan(phi)
//   theta : tan(theta) = (1-f)^2 tan(phi)
//   mu    : mu = (pi/2) m(phi)/m(pi/2), m = meridian arc length, by adaptive Gauss-Legendre
//           quadrature of the arc-length element of the ellipse (x = a cos(beta), z = b sin(beta))
//           written in the algebraic variables tan(beta) (equator side) / cot(beta) (pole side)
//   chi   : asinh(tan(chi)) = psi = asinh(tan(phi)) - e atanh(e sin(phi))   (atan form for e^2<0)
//   xi    : sin(xi) = q(phi)/q(pi/2), q(phi) = int_0^phi cos/(1-e^2 sin^2)^2 dphi  (zone area), by
//           adaptive quadrature of the rational integrand in sin(phi) (equator side) and
//           1-sin(phi) (pole side, so that cos(xi) keeps full relative accuracy)
//   psi   : isometric latitude as above
// Angles are handled through their tangents (>= 0 internally, odd symmetry outside) so that relative
// accuracy is kept from tan = 1e-4900 to 1e+4900.  Inverses: safeguarded Newton in log(tan), with the
// residual of the *forward* definition verified at the end.
#pragma once
#include "oracle/ref_adaptgl.hpp"

namespace ref {

enum AuxKind { AUX_PHI = 0, AUX_BETA = 1, AUX_THETA = 2, AUX_MU = 3, AUX_CHI = 4, AUX_XI = 5 };

struct AuxRef {
  q128 a, b, f, r, e2, e, n;      // r = b/a = 1-f ; e2 = (a^2-b^2)/a^2 (signed) ; e = sqrt|e2|
  bool sphere, prolate;
  CumQuad<1> Mx, My, Ax, Aw;
  q128 Qm, qp;                    // quarter meridian / a ; q(pi/2)
  long ninv_iter = 0;
  static q128 inf() { return (q128)HUGE_VALQ; }

  AuxRef(q128 a_, q128 b_) { init(a_, b_); }
  static AuxRef from_af(double a, double f) { return AuxRef((q128)a, (q128)a * (1 - (q128)f)); }

  void init(q128 a_, q128 b_) {
    a = a_; b = b_; r = b / a; f = (a - b) / a; e2 = (a - b) * (a + b) / (a * a); n = (a - b) / (a + b);
    e = sqrtq(fabsq(e2)); sphere = (a == b); prolate = b > a;
    q128 rr = r, ee2 = e2;
    // arc-length element of the ellipse / a in x = tan(beta):  sqrt(x^2 + r^2) / (1+x^2)^(3/2) dx
    Mx.build([rr](q128 x, q128* o) { q128 u = 1 + x * x; o[0] = sqrtq((x * x + rr * rr) / u) / u; }, 0, 1);
    // ... and in y = cot(beta):  sqrt(1 + r^2 y^2) / (1+y^2)^(3/2) dy
    My.build([rr](q128 y, q128* o) { q128 u = 1 + y * y; o[0] = sqrtq((1 + rr * rr * y * y) / u) / u; }, 0, 1);
    Qm = Mx.total()[0] + My.total()[0];
    // zone area element: dx / (1 - e2 x^2)^2, x = sin(phi);  and in w = 1 - sin(phi)
    Ax.build([ee2](q128 x, q128* o) { q128 u = 1 - ee2 * x * x; o[0] = 1 / (u * u); }, 0, 1);
    Aw.build([ee2](q128 w, q128* o) { q128 u = (1 - ee2) + ee2 * w * (2 - w); o[0] = 1 / (u * u); }, 0, 1);
    qp = Ax.total()[0];
  }

  // ---------------------------------------------------------------- measures
  q128 quarter_meridian() const { return a * Qm; }
  q128 rectifying_radius() const { return a * Qm / (M_PIq / 2); }
  q128 authalic_radius_sq() const { return a * a * (1 - e2) * qp; }
  q128 area() const { return 4 * M_PIq * authalic_radius_sq(); }
  q128 volume() const { return 4 * M_PIq * a * a * b / 3; }
  // closed form of the area (second, independent route): 2 pi (a^2 + b^2 atanh(e)/e)
  q128 area_closed() const {
    q128 t = sphere ? (q128)1 : (prolate ? atanq(e) / e : atanhq(e) / e);
    return 2 * M_PIq * (a * a + b * b * t);
  }
  // closed form of q(phi) (second route): [ s/(1-e2 s^2) + atanh(e s)/e ] / 2
  q128 qzone_closed(q128 s) const {
    q128 t = sphere ? s : (prolate ? atanq(e * s) / e : atanhq(e * s) / e);
    return (s / (1 - e2 * s * s) + t) / 2;
  }
  // radii of curvature at sin(phi)=s, cos(phi)=c
  q128 rho(q128 s) const { q128 w = 1 - e2 * s * s; return a * (1 - e2) / (w * sqrtq(w)); }
  q128 nu(q128 s) const { return a / sqrtq(1 - e2 * s * s); }
  q128 normal_radius(q128 s, q128 salp, q128 calp) const { return 1 / (calp * calp / rho(s) + salp * salp / nu(s)); }
  q128 circle_radius(q128 s, q128 c) const { return nu(s) * c; }
  q128 circle_height(q128 s, q128) const { return nu(s) * (1 - e2) * s; }

  // ---------------------------------------------------------------- forward maps, t = tan(phi) >= 0
  // meridian distance from the equator / a
  q128 merid(q128 t) {
    if (t == 0) return 0;
    if (isinfq(t)) return Qm;
    q128 x = r * t;
    return x <= 1 ? Mx(x)[0] : Qm - My(1 / x)[0];
  }
  q128 tan_mu(q128 t) {
    if (t == 0 || isinfq(t)) return t;
    q128 x = r * t;
    if (x <= 1) return tanq((M_PIq / 2) * (Mx(x)[0] / Qm));
    return 1 / tanq((M_PIq / 2) * (My(1 / x)[0] / Qm));
  }
  q128 psi(q128 t) const {      // isometric latitude (radians), t may be inf
    if (isinfq(t)) return inf();
    q128 s = t / hypotq(1, t);
    q128 d = sphere ? (q128)0 : (prolate ? -e * atanq(e * s) : e * atanhq(e * s));
    return asinhq(t) - d;
  }
  q128 tan_chi(q128 t) const { if (t == 0 || isinfq(t)) return t; return sinhq(psi(t)); }
  q128 tan_xi(q128 t) {
    if (t == 0 || isinfq(t)) return t;
    q128 h = hypotq(1, t), s = t / h;
    if (s <= 0.5Q) { q128 sx = Ax(s)[0] / qp; return sx / sqrtq((1 - sx) * (1 + sx)); }
    q128 w = 1 / (h * (h + t));                 // 1 - sin(phi) without cancellation
    q128 d = Aw(w)[0] / qp;                     // 1 - sin(xi)
    return (1 - d) / sqrtq(d * (2 - d));
  }
  q128 fwd(int aux, q128 t) {
    switch (aux) {
      case AUX_PHI: return t;
      case AUX_BETA: return r * t;
      case AUX_THETA: return r * r * t;
      case AUX_MU: return tan_mu(t);
      case AUX_CHI: return tan_chi(t);
      case AUX_XI: return tan_xi(t);
    }
    throw std::runtime_error("AuxRef::fwd: bad kind");
  }
  // d tan(aux) / d tan(phi) at finite t > 0 (from the definitions)
  q128 dfwd(int aux, q128 t) {
    q128 h = hypotq(1, t), s = t / h, c = 1 / h, w = 1 - e2 * s * s;
    switch (aux) {
      case AUX_PHI: return 1;
      case AUX_BETA: return r;
      case AUX_THETA: return r * r;
      case AUX_MU: {
        q128 x = r * t, T = tan_mu(t), g = sqrtq((x * x + r * r) / (1 + x * x));   // ds/dbeta / a
        // dmu/dbeta = (pi/2) g / Qm ; dtan(mu) = sec^2(mu) dmu ; dbeta = r dt /(1+x^2)
        return (1 + T * T) * (M_PIq / 2) * g / Qm * r / (1 + x * x);
      }
      case AUX_CHI: return coshq(psi(t)) * (1 - e2) * c / w;
      case AUX_XI: { q128 T = tan_xi(t), sc = hypotq(1, T); return c * c * c * sc * sc * sc / (w * w * qp); }
    }
    throw std::runtime_error("AuxRef::dfwd: bad kind");
  }
  // limiting slopes tan(aux)/tan(phi) at the equator and at the pole
  q128 slope0(int aux) const {
    switch (aux) { case AUX_PHI: return 1; case AUX_BETA: return r; case AUX_THETA: return r * r;
      case AUX_MU: return (M_PIq / 2) * r * r / Qm; case AUX_CHI: return 1 - e2; case AUX_XI: return 1 / qp; }
    return 1;
  }
  q128 slopeinf(int aux) const {
    switch (aux) { case AUX_PHI: return 1; case AUX_BETA: return r; case AUX_THETA: return r * r;
      case AUX_MU: return Qm * r / (M_PIq / 2);
      case AUX_CHI: return sphere ? (q128)1 : expq(prolate ? e * atanq(e) : -e * atanhq(e));
      case AUX_XI: return (1 - e2) * sqrtq(qp); }
    return 1;
  }

  // ---------------------------------------------------------------- inverse: tan(phi) from tan(aux) = T >= 0
  q128 inv(int aux, q128 T) {
    if (T == 0 || isinfq(T) || aux == AUX_PHI) return T;
    if (aux == AUX_BETA) return T / r;
    if (aux == AUX_THETA) return T / (r * r);
    q128 lT = logq(T);
    q128 u = lT - logq(T < 1 ? slope0(aux) : slopeinf(aux));
    q128 ulo = -inf(), uhi = inf();
    for (int it = 0; it < 200; ++it) {
      ++ninv_iter;
      q128 t = expq(u), F = fwd(aux, t), g = logq(F) - lT;
      if (g == 0) return t;
      if (g > 0) uhi = u; else ulo = u;
      q128 dl = dfwd(aux, t) * t / F;          // d log F / d log t
      q128 un = u - g / dl;
      // every third step is a bisection once the root is bracketed (Newton alone can cycle where the log-log slope changes fast)
      if (!isinfq(ulo) && !isinfq(uhi) && it % 3 == 2 && fabsq(g) > 1e-6Q) un = (ulo + uhi) / 2;
      if (!(un > ulo && un < uhi)) {
        if (isinfq(ulo)) un = uhi - 2 * (1 + fabsq(g)); else if (isinfq(uhi)) un = ulo + 2 * (1 + fabsq(g)); else un = (ulo + uhi) / 2;
      }
      q128 du = un - u; u = un;
      if (fabsq(du) < 1e-31Q * (1 + fabsq(u)) || fabsq(g) < 1e-32Q) {
        // one more evaluation to certify the residual of the forward definition
        q128 t2 = expq(u), g2 = logq(fwd(aux, t2)) - lT;
        if (fabsq(g2) < 1e-28Q) return t2;
      }
    }
    throw std::runtime_error("AuxRef::inv: no convergence");
  }
  // any-to-any conversion of a tangent (sign handled by oddness)
  q128 conv(int from, int to, q128 T) {
    if (isnanq(T)) return T;
    q128 A = fabsq(T);
    q128 t = inv(from, A), R = fwd(to, t);
    return copysignq(R, T);
  }
};

// helpers to move between tangents and conventional angles
inline q128 tan_to_deg(q128 T) { return isinfq(T) ? copysignq((q128)90, T) : atanq(T) * (180 / M_PIq); }
inline q128 tan_to_rad(q128 T) { return isinfq(T) ? copysignq(M_PIq / 2, T) : atanq(T); }
// tangent of an angle given in degrees in [-90,90] (exact reduction)
inline q128 tand_exact(double d) { q128 s, c; sincosd((q128)d, s, c); return c == 0 ? copysignq((q128)HUGE_VALQ, s) : s / c; }

}  // namespace ref
