// Reference models for the conic / polar projections (property C11), written from the
// textbook definitions in J. P. Snyder, "Map Projections: A Working Manual", USGS PP 1395:
//   polar stereographic      eqs (21-33),(21-34),(15-9)        pp. 160-163
//   Lambert conformal conic  eqs (15-7)...(15-11),(14-15)      pp. 107-109
//   Mercator                 eqs (7-6),(7-7),(7-8)             p. 44
//   Albers equal-area conic  eqs (14-12)...(14-15),(3-12)      pp. 101-102
//   cylindrical equal-area   eqs (10-14),(10-15) (normal aspect, phi_s = 0 form generalised)
//   Lambert azimuthal e.-a.  eqs (24-23) polar aspect          p. 188
// No GeographicLib code, constants or algorithms.  Everything is evaluated in binary128
// (__float128, eps = 1.9e-34): the "naive" textbook quotients (differences of logs, of m^2, of q)
// keep >= 18 significant digits even for standard parallels 1e-12 degrees apart, which is
// why no divided-difference machinery is needed here.
//
// Conventions (these are the ones documented for the GeographicLib classes; the harness
// checks them rather than assuming them):
//  * a conic is the family  x = rho sin(theta), y = rho0 - rho cos(theta), theta = n*lam
//    (Snyder 14-1,14-2,14-4) with SIGNED cone constant n (n<0: southern cone, rho<0).
//    rho0 = rho(phi0), phi0 = latitude of minimum scale (tangent latitude), so y = 0 at phi0.
//  * scale k1 on the standard parallels multiplies rho for the conformal conic; for the
//    equal-area conic a scale k1 on the standard parallels means (C,n) -> k1^2 (C,n)
//    (the only way to keep the map equal-area with k = k1 on both parallels).
//  * prolate ellipsoids (e^2 < 0): e*atanh(e*s) -> -eps*atan(eps*s), atanh(e*s)/e -> atan(eps*s)/eps
//    with eps = sqrt(-e^2) (analytic continuation of the same formulas).
//  * the limits n -> 0 (Mercator, cylindrical equal-area) and |n| = 1 with the apex at a pole
//    (polar stereographic, azimuthal equal-area) are written with the elementary identities
//      rho0 - rho            = difference written with expm1 / conjugate square roots
//      rho (1 - cos theta)   = 2 rho sin^2(theta/2)
//      sin(n lam)/n -> lam,  expm1(n z)/n -> z
//    so that the same expressions are exact in the limit (and are cross-checked against the
//    separately coded Mercator / cylindrical / stereographic / azimuthal closed forms by the
//    harness self-test).
#pragma once
#include <quadmath.h>
#include <cmath>

namespace refp {

typedef __float128 Q;
static const Q PIq = M_PIq;
static const Q DEGq = M_PIq / 180;
static const Q INFq = (Q)INFINITY;

// sine and cosine of a latitude; c >= 0
struct SC { Q s, c; };

// latitude given in degrees as a double: exact argument (90-|lat| is exact in binary128)
inline SC sc_deg(double lat) {
  Q x = lat; SC r;
  if (fabsq(x) <= 45) { r.s = sinq(x * DEGq); r.c = cosq(x * DEGq); }
  else { Q y = (90 - fabsq(x)) * DEGq; r.c = sinq(y); r.s = copysignq(cosq(y), x); }
  if (r.c < 0) r.c = 0;
  return r;
}
// latitude given by an (unnormalised) sine/cosine pair
inline SC sc_pair(double s, double c) { Q h = hypotq((Q)s, (Q)c); SC r; r.s = (Q)s / h; r.c = (Q)c / h; return r; }
inline SC sc_rad(Q phi) { SC r; r.s = sinq(phi); r.c = cosq(phi); if (r.c < 0) r.c = 0; return r; }
inline Q lat_rad(SC p) { return atan2q(p.s, p.c); }
inline Q lat_deg(SC p) { return atan2q(p.s, p.c) / DEGq; }
inline bool same(SC a, SC b) { return a.s == b.s && a.c == b.c; }

// sin(n lam)/n, 2 sin^2(n lam/2)/n, expm1(n z)/n with their n = 0 limits
inline Q sinc_n(Q n, Q lam) { return n == 0 ? lam : sinq(n * lam) / n; }
inline Q vers_n(Q n, Q lam) { if (n == 0) return 0; Q h = sinq(n * lam / 2); return 2 * h * h / n; }
inline Q expm1_n(Q n, Q z) { return n == 0 ? z : expm1q(n * z) / n; }

struct Ell {
  Q a, f, e2, ea;     // ea = sqrt(|e2|)
  Ell(double a_, double f_) : a(a_), f(f_) { e2 = f * (2 - f); ea = sqrtq(fabsq(e2)); }
  // atanh(e x)/e, continued to e^2 <= 0
  Q atanhee(Q x) const { return e2 > 0 ? atanhq(ea * x) / ea : (e2 < 0 ? atanq(ea * x) / ea : x); }
  // Snyder (14-15): m = cos(phi)/sqrt(1 - e^2 sin^2(phi))
  Q m(SC p) const { return p.c / sqrtq(1 - e2 * p.s * p.s); }
  // isometric latitude psi = -ln t, Snyder (15-9): t = tan(pi/4-phi/2) / ((1-e s)/(1+e s))^(e/2)
  //   psi = asinh(tan phi) - e atanh(e sin phi)
  Q psi(SC p) const { return asinhq(p.s / p.c) - e2 * atanhee(p.s); }
  // Snyder (3-12): q = (1-e^2) ( s/(1-e^2 s^2) - (1/2e) ln((1-e s)/(1+e s)) )
  Q q(SC p) const { return (1 - e2) * (p.s / (1 - e2 * p.s * p.s) + atanhee(p.s)); }
  Q qp() const { return (1 - e2) * (1 / (1 - e2) + atanhee(1)); }
  // q(pa) - q(pb) without cancellation (needed when both latitudes are within 1e-17 rad of a pole, where
  // even binary128 cannot hold q to the required relative accuracy):
  //   sa/(1-e2 sa^2) - sb/(1-e2 sb^2) = (sa-sb)(1+e2 sa sb)/((1-e2 sa^2)(1-e2 sb^2))
  //   atanh(e sa) - atanh(e sb) = atanh(e (sa-sb)/(1-e2 sa sb))          (addition theorem)
  //   sa - sb = (cb-ca)(cb+ca)/(sa+sb) when both are in the same hemisphere
  static Q sdiff(SC a, SC b) { return (a.s * b.s > 0 && fabsq(a.s) > 0.5Q && fabsq(b.s) > 0.5Q) ? (b.c - a.c) * (b.c + a.c) / (a.s + b.s) : a.s - b.s; }
  Q qdiff(SC pa, SC pb) const {
    Q d = sdiff(pa, pb), sa = pa.s, sb = pb.s;
    // the addition theorem is used only within one hemisphere (for e2 < -1 and sa sb < 1/e2 the atan form
    // would leave the principal branch; with opposite signs the plain difference has no cancellation anyway)
    Q at = sa * sb > 0 ? atanhee(d / (1 - e2 * sa * sb)) : atanhee(sa) - atanhee(sb);
    return (1 - e2) * (d * (1 + e2 * sa * sb) / ((1 - e2 * sa * sa) * (1 - e2 * sb * sb)) + at);
  }
  // lim_{phi -> +90} m(phi) exp(psi(phi)) = 2 / sqrt((1+e)^(1+e) (1-e)^(1-e))   (Snyder 21-33)
  //   (1+e)^(1+e) (1-e)^(1-e) = (1-e^2) exp(2 e atanh e)
  Q polar_const() const { return 2 / (sqrtq(1 - e2) * expq(e2 * atanhee(1))); }
  // radii: meridional radius of curvature and radius of the parallel
  Q rho_mer(SC p) const { Q d = 1 - e2 * p.s * p.s; return a * (1 - e2) / (d * sqrtq(d)); }
  Q r_par(SC p) const { return a * m(p); }
};

// result of a forward evaluation
struct Out { Q x, y, gamma /*radians*/, k; };

// ------------------------------------------------------------------ polar stereographic
struct PolarStereo {
  Ell E; Q k0;
  PolarStereo(const Ell& e, Q k0_) : E(e), k0(k0_) {}
  // Snyder (21-33): rho = 2 a k0 t / sqrt((1+e)^(1+e)(1-e)^(1-e)); north: x = rho sin lam, y = -rho cos lam;
  // south polar aspect: negate phi, lam, x, y  =>  x = rho sin lam, y = +rho cos lam.  k = rho/(a m) (21-32).
  Out fwd(bool northp, SC p, Q lam) const {
    SC pp = p; if (!northp) pp.s = -pp.s;
    Q t = expq(-E.psi(pp)), rho = k0 * E.a * E.polar_const() * t;
    Out o; o.x = rho * sinq(lam); o.y = (northp ? -rho : rho) * cosq(lam);
    o.gamma = northp ? lam : -lam;
    Q mm = E.m(pp);
    o.k = (pp.c == 0 && pp.s > 0) ? k0 : rho / (E.a * mm);
    return o;
  }
  // k0 that gives scale k at latitude p (north aspect)
  static Q k0_for(const Ell& e, SC p, Q k) { PolarStereo one(e, 1); return k / one.fwd(true, p, 0).k; }
};

// ------------------------------------------------------------------ Mercator (Snyder 7-6..7-8)
struct Mercator {
  Ell E; Q k0;          // k0 = scale on the equator
  Mercator(const Ell& e, Q k0_) : E(e), k0(k0_) {}
  Out fwd(SC p, Q lam) const { Out o; o.x = E.a * k0 * lam; o.y = E.a * k0 * E.psi(p); o.gamma = 0; o.k = k0 / E.m(p); return o; }
};

// ------------------------------------------------------------------ Lambert conformal conic
struct LCC {
  Ell E; Q k1, n, A;      // A = a k1 m1 exp(n psi1) = a k1 n F   (Snyder 15-10), finite also for a polar parallel
  SC p0; Q psi0, k0; bool polar;    // polar: the cone apex is a pole to working precision (|n| = 1, rho0 = 0)
  bool ok;
  LCC(const Ell& e, SC p1, SC p2, Q k1_) : E(e), k1(k1_) {
    ok = true; polar = false;
    bool one = same(p1, p2);
    if (!one && (p1.c == 0 || p2.c == 0)) { ok = false; return; }     // singular (documented to throw)
    if (one) n = p1.s;                                                 // Snyder: n = sin(phi1)
    else n = logq(E.m(p1) / E.m(p2)) / (E.psi(p2) - E.psi(p1));        // (15-8) with ln t = -psi
    if (n > 1) n = 1;
    if (n < -1) n = -1;
    Q om = 1 - fabsq(n);                                               // 1 - |n|
    if (!one && p1.s * p2.s > 0 && fabsq(p1.s) > 0.5Q && fabsq(p2.s) > 0.5Q) {
      // both parallels in one polar cap: 1 - |n| from the quotient above loses its leading digits.  With
      //   ln m + psi = g(s) := ln((1+s)/sqrt(1-e2 s^2)) - e2 atanhee(s)   (s = |sin phi|, regular at s = 1)
      // one has 1 - |n| = (g(s2) - g(s1)) / (psi(s2) - psi(s1)), and g(s2) - g(s1) is a function of the small
      // difference ds = s2 - s1 = (c1^2 - c2^2)/(s1 + s2) only.
      SC a = p1, b = p2; a.s = fabsq(a.s); b.s = fabsq(b.s);
      Q ds = Ell::sdiff(b, a), e2 = E.e2;
      Q dg = log1pq(ds / (1 + a.s)) - log1pq(-e2 * ds * (a.s + b.s) / (1 - e2 * a.s * a.s)) / 2 - e2 * E.atanhee(ds / (1 - e2 * a.s * b.s));
      om = dg / (E.psi(b) - E.psi(a));
      if (om < 0) om = 0;
      n = (p1.s > 0 ? 1 : -1) * (1 - om);
    }
    if (p1.c == 0) A = E.a * k1 * E.polar_const();
    else A = E.a * k1 * E.m(p1) * expq(n * E.psi(p1));
    if (one) p0 = p1; else { p0.s = n; p0.c = sqrtq(om * (2 - om)); }        // sin(phi0) = n
    // parallels within ~1e-17 rad of a pole: 1 - |n| is below binary128 resolution; the apex is then the pole
    // itself to an absolute accuracy of 1e-34 a, and the limiting (polar stereographic) forms apply
    if (p0.c == 0) { polar = true; n = p0.s > 0 ? 1 : -1; }
    psi0 = E.psi(p0);
    k0 = polar ? A / (E.a * E.polar_const()) : A * expq(-n * psi0) / (E.a * E.m(p0));
  }
  Q lat0_deg() const { return lat_deg(p0); }
  Q scale(SC p) const {
    if (p.c == 0) return (polar && p.s * n > 0) ? k0 : INFq;
    return A * expq(-n * E.psi(p)) / (E.a * E.m(p));
  }
  // signed rho0 (inf for n == 0)
  Q rho0() const { return polar ? 0 : A * expq(-n * psi0) / n; }
  Out fwd(SC p, Q lam) const {
    Out o; Q psi = E.psi(p), e1 = expq(-n * psi);          // t^n
    o.x = A * e1 * sinc_n(n, lam);
    Q dr = polar ? -A * e1 / n : -A * expq(-n * psi0) * expm1_n(n, -(psi - psi0));   // rho0 - rho
    o.y = dr + (e1 == 0 ? 0 : A * e1 * vers_n(n, lam));
    o.gamma = n * lam; o.k = scale(p);
    return o;
  }
};

// ------------------------------------------------------------------ Albers equal-area conic
struct Albers {
  Ell E; Q k1, ns, n, C;         // ns: Snyder's n (14-14) for k1 = 1; n = k1^2 ns; C = k1^2 (m1^2 + ns q1) (14-13)
  SC pr; Q mr2;                  // reference parallel (a standard parallel; the polar one if there is one) and m^2 there
  SC p0; Q q0, w0, k0; int apex; // apex = +1/-1 if the cone apex is the north/south pole, else 0
  bool ok;
  // C - n q = k1^2 (m_r^2 + ns (q_r - q))   (= (n rho / a)^2), evaluated without cancellation; exact 0 at an apex pole
  Q w2s(SC p) const { Q v = mr2 + ns * E.qdiff(pr, p); return v > 0 ? v : 0; }
  Q w2(SC p) const { return k1 * k1 * w2s(p); }
  // d(k^2)/d(phi) has the sign of  -(ns m^2 - (Cs - ns q) sin(phi))
  Q statf(SC p) const { Q mm = E.m(p); return ns * mm * mm - w2s(p) * p.s; }
  Albers(const Ell& e, SC p1, SC p2, Q k1_) : E(e), k1(k1_) {
    ok = true; apex = 0;
    if (p1.c == 0 && p2.c == 0 && p1.s * p2.s < 0) { ok = false; return; }   // opposite poles: documented to throw
    // two parallels both within 1e-100 rad of the same pole are indistinguishable from that pole to 1e-100 a, far below
    // binary128 resolution of the differences formed below: use the pole itself (azimuthal limit)
    if (p1.c < 1e-100Q && p2.c < 1e-100Q && p1.s * p2.s > 0) { p1.c = p2.c = 0; p1.s = p2.s = p1.s > 0 ? 1 : -1; }
    bool one = same(p1, p2);
    Q m1 = E.m(p1), m2 = E.m(p2);
    if (one) ns = p1.s; else ns = (m1 * m1 - m2 * m2) / E.qdiff(p2, p1);     // (14-14)
    pr = p1; mr2 = m1 * m1;
    if (p2.c == 0) { pr = p2; mr2 = 0; }
    if (pr.c == 0) apex = pr.s > 0 ? 1 : -1;
    n = k1 * k1 * ns; C = k1 * k1 * (mr2 + ns * E.q(pr));
    // latitude of minimum azimuthal scale k = sqrt(C - n q)/m
    if (one) p0 = p1;
    else if (apex) { p0.s = apex; p0.c = 0; }
    else {
      // bisection on the latitude, or on the colatitude when both parallels are in the same polar cap
      bool cap = p1.s * p2.s > 0 && fabsq(p1.s) > 0.7Q && fabsq(p2.s) > 0.7Q; Q sg = p1.s > 0 ? 1 : -1;
      auto P = [&](Q t) { SC r; if (cap) { r.s = sg * cosq(t); r.c = sinq(t); } else r = sc_rad(t); return r; };
      Q lo = cap ? atan2q(p1.c, fabsq(p1.s)) : lat_rad(p1), hi = cap ? atan2q(p2.c, fabsq(p2.s)) : lat_rad(p2);
      if (lo > hi) { Q t = lo; lo = hi; hi = t; }
      Q flo = statf(P(lo));
      for (int i = 0; i < 130; ++i) {
        Q mid = (lo + hi) / 2, fm = statf(P(mid));
        if ((fm > 0) == (flo > 0) && fm != 0) { lo = mid; flo = fm; } else hi = mid;
      }
      p0 = P((lo + hi) / 2);
    }
    q0 = E.q(p0); w0 = sqrtq(w2(p0));
    k0 = scale(p0);
  }
  Q lat0_deg() const { return lat_deg(p0); }
  bool at_apex(SC p) const { return p.c == 0 && ((apex > 0 && p.s > 0) || (apex < 0 && p.s < 0)); }
  Q scale(SC p) const {           // azimuthal (E-W) scale, Snyder (14-18): k = rho n/(a m) = sqrt(C - n q)/m
    if (p.c == 0) return at_apex(p) ? sqrtq(fabsq(n)) : INFq;
    return sqrtq(w2(p)) / E.m(p);
  }
  Q rho0() const { return E.a * w0 / n; }
  // signed radii of the two poles (limits of the image)
  Q rho_pole(bool north) const { SC p; p.s = north ? 1 : -1; p.c = 0; return E.a * sqrtq(w2(p)) / n; }
  Out fwd(SC p, Q lam) const {
    Out o; Q w = sqrtq(w2(p));
    o.x = E.a * w * sinc_n(n, lam);
    Q dr = (w0 + w) == 0 ? 0 : E.a * E.qdiff(p, p0) / (w0 + w);      // rho0 - rho = a (w0 - w)/n, w0^2 - w^2 = n (q - q0)
    o.y = dr + E.a * w * vers_n(n, lam);
    o.gamma = n * lam; o.k = scale(p);
    return o;
  }
};

// ------------------------------------------------------------------ separately coded limits
// cylindrical equal-area with azimuthal scale k0 on the equator: x = a k0 lam, y = a q/(2 k0)
struct CylEA {
  Ell E; Q k0; CylEA(const Ell& e, Q k) : E(e), k0(k) {}
  Out fwd(SC p, Q lam) const { Out o; o.x = E.a * k0 * lam; o.y = E.a * E.q(p) / (2 * k0); o.gamma = 0; o.k = k0 / E.m(p); return o; }
};
// Lambert azimuthal equal-area, polar aspect (Snyder 24-23): rho = a sqrt(qp -+ q)
struct AzimEA {
  Ell E; AzimEA(const Ell& e) : E(e) {}
  Out fwd(bool northp, SC p, Q lam) const {
    SC pole; pole.s = northp ? 1 : -1; pole.c = 0;
    Q v = northp ? E.qdiff(pole, p) : E.qdiff(p, pole); if (v < 0) v = 0;     // qp -+ q, without cancellation near the pole
    Q rho = E.a * sqrtq(v); Out o;
    o.x = rho * sinq(lam); o.y = (northp ? -rho : rho) * cosq(lam); o.gamma = northp ? lam : -lam;
    o.k = (p.c == 0) ? ((p.s > 0) == northp ? 1 : INFq) : rho / (E.a * E.m(p));
    return o;
  }
};

}  // namespace refp
