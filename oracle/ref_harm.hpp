// ref_harm.hpp — reference model for spherical-harmonic sums and normal gravity (C19).
// No GeographicLib code, headers or tables.  Everything is evaluated in __float128 from the
// textbook definitions:
//
//   * associated Legendre functions, fully normalised (Heiskanen & Moritz 1-73: mean square of
//     Pbar_nm cos/sin over the sphere = 1, no Condon-Shortley phase) by the standard forward
//     column recurrence (fixed order m, increasing degree n; Holmes & Featherstone 2002 eq 11-13),
//     carried for the "reduced" functions R_nm = Pbar_nm / u^m (u = sin theta), which are
//     polynomials in t = cos theta and therefore regular on the polar axis; Schmidt semi-normalised
//     = Pbar_nm / sqrt(2n+1);
//   * the sum V = sum_n q^(n+1) sum_m (C_nm cos m lam + S_nm sin m lam) P_nm(cos theta), q = a/r,
//     added up term by term (no Clenshaw), together with sum |term| (the sum's own condition
//     number) and the analytic gradient in Cartesian components;
//   * normal gravity: Somigliana-Pizzetti closed form, H&M 2-62 (potential), 2-73/2-74/2-78
//     (gravity at equator/pole/Somigliana), 2-90/2-92 (J2, J2n), written for signed E^2 = a^2-b^2
//     so that oblate, spherical and prolate ellipsoids share one analytic expression.
//
// Dense coefficient layout used here (NOT the library's): index n*(n+1)/2 + m, 0 <= m <= n <= N.
#pragma once
#include <quadmath.h>
#include <cmath>
#include <vector>

namespace ref {
typedef __float128 Q;

enum HarmNorm { HARM_FULL = 0, HARM_SCHMIDT = 1 };

inline int tri(int n, int m) { return n * (n + 1) / 2 + m; }

// exact sine and cosine of an angle given in degrees as a double (exact reduction to [-45,45])
inline void sincosd_q(double deg, Q& s, Q& c) {
  int q; Q r = remquoq((Q)deg, 90, &q);
  Q ss = sinq(r * (M_PIq / 180)), cc = cosq(r * (M_PIq / 180));
  if (r == 0) { ss = 0; cc = 1; }
  switch (unsigned(q) & 3u) { case 0: s = ss; c = cc; break; case 1: s = cc; c = -ss; break;
    case 2: s = -ss; c = -cc; break; default: s = -cc; c = ss; }
}

// ------------------------------------------------------------------ Legendre table
struct Legendre {
  int N = -1, M = -1; HarmNorm norm = HARM_FULL; Q t = 0, u = 1;
  std::vector<Q> R, dR;      // R_nm = P_nm / u^m and d R_nm / d t, dense triangular (m <= min(n,M))
  std::vector<Q> upow;       // u^m, m = 0..M
  Q Rv(int n, int m) const { return R[tri(n, m)]; }
  Q P(int n, int m) const { return R[tri(n, m)] * upow[m]; }
  // d P_nm / d theta = m u^(m-1) t R - u^(m+1) dR/dt
  Q dP(int n, int m) const {
    Q v = -upow[m] * u * dR[tri(n, m)];
    if (m) v += m * upow[m - 1] * t * R[tri(n, m)];
    return v;
  }
  void compute(int N_, int M_, HarmNorm norm_, Q t_, Q u_) {
    N = N_; M = M_ < N_ ? M_ : N_; norm = norm_; t = t_; u = u_;
    if (N < 0) { R.clear(); dR.clear(); upow.assign(1, 1); return; }
    if (M < 0) M = 0;
    R.assign((size_t)tri(N, N) + 1, 0); dR.assign(R.size(), 0);
    upow.assign(M + 2, 1);
    for (int m = 1; m <= M + 1; ++m) upow[m] = upow[m - 1] * u;
    Q cmm = 1;                                   // sectorial constant R_mm
    for (int m = 0; m <= M; ++m) {
      if (m == 1) cmm = sqrtq((Q)3);
      else if (m > 1) cmm *= sqrtq((Q)(2 * m + 1) / (Q)(2 * m));
      Q r2 = 0, d2 = 0, r1 = cmm, d1 = 0;        // n-2 and n-1
      R[tri(m, m)] = r1; dR[tri(m, m)] = 0;
      for (int n = m + 1; n <= N; ++n) {
        Q nn = n, mm = m;
        Q a = sqrtq((4 * nn * nn - 1) / (nn * nn - mm * mm));
        Q b = n - 1 > m ? sqrtq(((nn - 1) * (nn - 1) - mm * mm) / (4 * (nn - 1) * (nn - 1) - 1)) : (Q)0;
        Q r0 = a * (t * r1 - b * r2);
        Q d0 = a * (r1 + t * d1 - b * d2);
        R[tri(n, m)] = r0; dR[tri(n, m)] = d0;
        r2 = r1; d2 = d1; r1 = r0; d1 = d0;
      }
    }
    if (norm == HARM_SCHMIDT)
      for (int n = 0; n <= N; ++n) {
        Q s = 1 / sqrtq((Q)(2 * n + 1));
        for (int m = 0; m <= (n < M ? n : M); ++m) { R[tri(n, m)] *= s; dR[tri(n, m)] *= s; }
      }
  }
};

// ------------------------------------------------------------------ point geometry
struct HarmPoint {
  Q x, y, z, p, r, t, u, cl, sl;
  HarmPoint(Q x_, Q y_, Q z_) : x(x_), y(y_), z(z_) {
    p = hypotq(x, y); r = hypotq(p, z);
    t = z / r; u = p / r;
    if (p != 0) { cl = x / p; sl = y / p; } else { cl = 1; sl = 0; }   // on the axis any longitude gives the same limits
  }
};

struct HarmResult {
  Q V = 0, gx = 0, gy = 0, gz = 0;
  // condition numbers (all >= 0):
  Q sabs = 0;      // sum |term|                         (value, round-off in the summation)
  Q sabs_n = 0;    // sum [(n+1) |term| + |d term/d theta|]  (value, incl. sensitivity to an eps-relative move of the point:
                   //                                     radius and longitude ~ n|term|, colatitude |d term/d theta|, which
                   //                                     dominates next to a zero of P_nm)
  Q gabs = 0;      // sum |gradient term|                (per unit length)
  Q gabs_n = 0;    // sum (n+2) |gradient term|
  Q dth_abs = 0;   // sum |d term / d theta|             (sensitivity of the value to the colatitude)
  Q sabs_m1 = 0;   // sum |term| over orders m >= 1      (what vanishes on the polar axis)
  Q gabs_m2 = 0;   // sum |gradient term| over m >= 2    (what vanishes on the polar axis)
  Q sabs_small = 0;// sum |term| over coefficients with |C|+|S| < harm_small_threshold()
};
// harnesses may set this to classify sums that are dominated by very small coefficients
inline Q& harm_small_threshold() { static Q t = 0; return t; }

// C, S: dense triangular (tri(n,m)); entries with n > nmx or m > mmx are ignored.
// CA, SA (optional): magnitudes to use for the condition numbers when C, S are themselves sums of several parts
// (e.g. C + tau1*C1 + tau2*C2: |C| + |tau1 C1| + |tau2 C2|), so that cancellation between the parts is accounted for.
inline HarmResult harm_sum(const Legendre& L, const HarmPoint& g, Q a, const std::vector<Q>& C, const std::vector<Q>& S,
                           int nmx, int mmx, bool grad = true, const std::vector<Q>* CA = nullptr, const std::vector<Q>* SA = nullptr) {
  HarmResult o;
  if (nmx < 0 || mmx < 0) return o;
  if (mmx > nmx) mmx = nmx;
  Q q = a / g.r, ir = 1 / g.r;
  std::vector<Q> cm(mmx + 1), sm(mmx + 1);
  cm[0] = 1; sm[0] = 0;
  { Q lam = atan2q(g.sl, g.cl); for (int m = 1; m <= mmx; ++m) { cm[m] = cosq(m * lam); sm[m] = sinq(m * lam); } }
  Q Vr = 0, Vt = 0, Vl = 0;     // dV/dr, (1/r) dV/dtheta, 1/(r u) dV/dlam
  Q qn = q;                      // q^(n+1)
  for (int n = 0; n <= nmx; ++n, qn *= q) {
    int mt = n < mmx ? n : mmx;
    for (int m = 0; m <= mt; ++m) {
      int k = tri(n, m);
      Q c = C[k], s = m ? S[k] : (Q)0;
      Q mag = CA ? (*CA)[k] + (m ? (*SA)[k] : (Q)0) : fabsq(c) + fabsq(s);
      if (c == 0 && s == 0 && mag == 0) continue;
      Q Rk = L.R[k], um = L.upow[m], P = Rk * um;
      Q A = c * cm[m] + s * sm[m];
      Q term = qn * A * P, aterm = qn * mag * fabsq(P);
      o.V += term; o.sabs += aterm; o.sabs_n += (n + 1) * aterm;
      if (m) o.sabs_m1 += aterm;
      if (mag < harm_small_threshold()) o.sabs_small += aterm;
      Q dP = -um * g.u * L.dR[k] + (m ? m * L.upow[m - 1] * g.t * Rk : (Q)0);
      o.dth_abs += qn * mag * fabsq(dP); o.sabs_n += qn * mag * fabsq(dP);
      if (grad) {
        Q B = m ? m * (-c * sm[m] + s * cm[m]) : (Q)0;
        Q Pou = m ? L.upow[m - 1] * Rk : (Q)0;          // P/u, regular on the axis
        Vr -= (n + 1) * term * ir;
        Vt += qn * A * dP * ir;
        Vl += qn * B * Pou * ir;
        Q ga = qn * mag * ir * ((n + 1) * fabsq(P) + fabsq(dP) + m * fabsq(Pou));
        o.gabs += ga; o.gabs_n += (n + 2) * ga;
        if (m >= 2) o.gabs_m2 += ga;
      }
    }
  }
  if (grad) {
    Q hr = g.u * Vr + g.t * Vt;   // component along the horizontal radial direction (cl, sl, 0)
    o.gx = g.cl * hr - g.sl * Vl;
    o.gy = g.sl * hr + g.cl * Vl;
    o.gz = g.t * Vr - g.u * Vt;
  }
  return o;
}

// convenience: one call, one coefficient set
inline HarmResult harm_eval(int nmx, int mmx, HarmNorm norm, Q a, const std::vector<Q>& C, const std::vector<Q>& S,
                            Q x, Q y, Q z, bool grad = true) {
  HarmPoint g(x, y, z); Legendre L; L.compute(nmx, mmx, norm, g.t, g.u);
  return harm_sum(L, g, a, C, S, nmx, mmx, grad);
}

// ------------------------------------------------------------------ independent definitions (self-test of the table)
// Ferrers function without Condon-Shortley phase, P_n^m(x) = (1-x^2)^(m/2) d^m/dx^m P_n(x), from the explicit
// power series P_n(x) = 2^-n sum_k (-1)^k C(n,k) C(2n-2k,n) x^(n-2k); normalised as documented:
// full: sqrt(k (2n+1) (n-m)!/(n+m)!), k = 1 (m = 0) or 2; Schmidt: same without (2n+1).   n <= ~30.
inline Q legendre_explicit(int n, int m, HarmNorm norm, Q x, Q u = -1) {   // u = sqrt(1-x^2) if known accurately
  auto binom = [](int a, int b) { Q r = 1; for (int i = 1; i <= b; ++i) r = r * (a - b + i) / i; return r; };
  Q s = 0;
  for (int k = 0; 2 * k <= n - m; ++k) {
    int e = n - 2 * k;                  // power of x before differentiating m times
    Q c = ((k & 1) ? -1 : 1) * binom(n, k) * binom(2 * n - 2 * k, n);
    for (int j = 0; j < m; ++j) c *= (e - j);
    s += c * powq(x, e - m);
  }
  s = ldexpq(s, -n) * (u >= 0 ? powq(u, m) : powq(1 - x * x, (Q)m / 2));
  Q f = (m ? 2 : 1) * (norm == HARM_FULL ? (Q)(2 * n + 1) : (Q)1);
  for (int j = n - m + 1; j <= n + m; ++j) f /= j;
  return sqrtq(f) * s;
}
// ordinary Legendre polynomial by Bonnet's recurrence
inline Q legendre_Pn(int n, Q x) {
  Q p0 = 1, p1 = x; if (n == 0) return 1;
  for (int k = 2; k <= n; ++k) { Q p2 = ((2 * k - 1) * x * p1 - (k - 1) * p0) / k; p0 = p1; p1 = p2; }
  return p1;
}

// ------------------------------------------------------------------ geodetic <-> geocentric, ENU (definitions)
struct GeoFrame { Q X, Y, Z; Q e[3], n[3], up[3]; };
inline GeoFrame geodetic_frame(Q a, Q f, double lat, double lon, Q h) {
  Q sp, cp, sl, cl; sincosd_q(lat, sp, cp); sincosd_q(lon, sl, cl);
  Q e2 = f * (2 - f), Nn = a / sqrtq(1 - e2 * sp * sp);
  GeoFrame F;
  F.X = (Nn + h) * cp * cl; F.Y = (Nn + h) * cp * sl; F.Z = (Nn * (1 - e2) + h) * sp;
  F.e[0] = -sl; F.e[1] = cl; F.e[2] = 0;
  F.n[0] = -sp * cl; F.n[1] = -sp * sl; F.n[2] = cp;
  F.up[0] = cp * cl; F.up[1] = cp * sl; F.up[2] = sp;
  return F;
}
inline void to_enu(const GeoFrame& F, Q vx, Q vy, Q vz, Q& e, Q& n, Q& u) {
  e = F.e[0] * vx + F.e[1] * vy + F.e[2] * vz;
  n = F.n[0] * vx + F.n[1] * vy + F.n[2] * vz;
  u = F.up[0] * vx + F.up[1] * vy + F.up[2] * vz;
}

// ------------------------------------------------------------------ normal gravity (Somigliana-Pizzetti)
// A(x) = atan(sqrt x)/sqrt x (x>0), atanh(sqrt -x)/sqrt(-x) (x<0), 1 (x=0);  x > -1
inline Q ng_A(Q x) {
  if (fabsq(x) < (Q)1e-3) { Q s = 0, p = 1; for (int k = 0; k < 40; ++k) { s += p / (2 * k + 1); p *= -x; } return s; }
  Q z = sqrtq(fabsq(x));
  return x > 0 ? atanq(z) / z : atanhq(z) / z;
}
// Q(x) = q(z)/z^3, q(z) = ((1+3/z^2) atan z - 3/z)/2  (H&M 2-57 with z = E/u), x = z^2; Q(0) = 2/15
inline Q ng_Q(Q x) {
  if (fabsq(x) < (Q)0.02) { Q s = 0, p = 1; for (int k = 1; k < 60; ++k) { s += p * (2 * k) / ((Q)(2 * k + 1) * (2 * k + 3)); p *= -x; } return s; }
  return ((1 + 3 / x) * ng_A(x) - 3 / x) / (2 * x);
}
// H(x) = q'(z)/z^2 with q' of H&M 2-67: (3 (1+z^2)(1 - atan z / z) - z^2)/z^4 ; H(0) = 2/5
inline Q ng_H(Q x) {
  if (fabsq(x) < (Q)0.02) { Q s = 0, p = 1; for (int k = 2; k < 60; ++k) { s += p * 6 / ((Q)(2 * k - 1) * (2 * k + 1)); p *= -x; } return s; }
  return (3 * (1 + x) * (1 - ng_A(x)) - x) / (x * x);
}

struct NormalGravityRef {
  Q a, GM, omega, f, b, E2, e2, xb;     // E2 = a^2 - b^2 (signed), xb = E2/b^2
  NormalGravityRef(Q a_, Q GM_, Q omega_, Q f_) : a(a_), GM(GM_), omega(omega_), f(f_) {
    b = a * (1 - f); E2 = a * a - b * b; e2 = f * (2 - f); xb = E2 / (b * b);
  }
  // H&M 2-90 in the form J2 = e^2/3 - (2/45) (omega^2 a^2 b / GM) (b/a)^2 / Q(E^2/b^2)
  static Q J2_of(Q a, Q GM, Q omega, Q f) {
    Q b = a * (1 - f), xb = (a * a - b * b) / (b * b), m = omega * omega * a * a * b / GM;
    return f * (2 - f) / 3 - (Q)2 / 45 * m * (b * b) / (a * a) / ng_Q(xb);
  }
  Q J2() const { return J2_of(a, GM, omega, f); }
  // flattening from J2 by bisection + secant on J2_of (J2 is monotone increasing in f, manual section normalgravj2)
  static Q f_of_J2(Q a, Q GM, Q omega, Q J2) {
    if (J2_of(a, GM, omega, 0) == J2) return 0;            // the sphere is an exact root
    Q lo = -100, hi = 1 - (Q)1e-12;
    for (int i = 0; i < 200; ++i) {
      Q mid = (lo + hi) / 2;
      if (J2_of(a, GM, omega, mid) < J2) lo = mid; else hi = mid;
      if (hi - lo <= (Q)1e-33 * (fabsq(lo) + fabsq(hi)) ) break;
    }
    return (lo + hi) / 2;
  }
  // H&M 2-92: J_2n = (-1)^(n+1) 3 e^(2n) / ((2n+1)(2n+3)) (1 - n + 5 n J2/e^2), written without the division by e^2
  Q Jn(int n) const { return Jn_with(n, J2()); }
  // same with J2 supplied (when J2 is the defining parameter rather than f)
  Q Jn_with(int n, Q J2v) const {
    if (n & 1 || n < 0) return 0;
    if (n == 0) return -1;
    int k = n / 2; Q e = 1; for (int j = 1; j < k; ++j) e *= e2;
    Q v = 3 * e * (e2 * (1 - k) + 5 * k * J2v) / ((Q)(2 * k + 1) * (2 * k + 3));
    return (k & 1) ? v : -v;
  }
  Q U0() const { return GM / b * ng_A(xb) + omega * omega * a * a / 3; }               // H&M 2-61
  Q gamma_e() const { return GM / (a * b) - omega * omega * a * (1 + ng_H(xb) / (6 * ng_Q(xb))); }   // 2-73
  Q gamma_p() const { return GM / (a * a) + omega * omega * b * ng_H(xb) / (3 * ng_Q(xb)); }         // 2-74
  Q somigliana(double latdeg) const {                                                 // 2-76 / 2-78
    Q s, c; sincosd_q(latdeg, s, c);
    return (a * gamma_e() * c * c + b * gamma_p() * s * s) / sqrtq(a * a * c * c + b * b * s * s);
  }
  // gravitational part of the normal potential, H&M 2-62 without the centrifugal term; valid for u^2 > max(0,-E2)
  Q V0(Q X, Q Y, Q Z) const {
    Q R2 = X * X + Y * Y, r2 = R2 + Z * Z, w = r2 - E2;
    Q disc = sqrtq(w * w + 4 * E2 * Z * Z);
    Q u2 = w >= 0 ? (w + disc) / 2 : 2 * E2 * Z * Z / (disc - w);
    Q u = sqrtq(u2), x = E2 / u2, sb2 = Z * Z / u2;
    Q Um = GM / u * ng_A(x);
    Q bu = b / u;
    Q Uq = omega * omega / 2 * a * a * bu * bu * bu * ng_Q(x) / ng_Q(xb) * (sb2 - (Q)1 / 3);
    return Um + Uq;
  }
  Q Phi(Q X, Q Y) const { return omega * omega * (X * X + Y * Y) / 2; }
  Q U(Q X, Q Y, Q Z) const { return V0(X, Y, Z) + Phi(X, Y); }
  // gradient by central differences in float128 with Richardson extrapolation (h = 1e-8 r): error ~ (n h/r)^4 + 1e-34 r/h ~ 1e-26
  template <class F> static void gradient(F fn, Q X, Q Y, Q Z, Q& gx, Q& gy, Q& gz) {
    Q r = sqrtq(X * X + Y * Y + Z * Z), h = r * (Q)1e-8;
    auto d = [&](int ax, Q hh) { Q p[3] = {X, Y, Z}, m[3] = {X, Y, Z}; p[ax] += hh; m[ax] -= hh;
      return (fn(p[0], p[1], p[2]) - fn(m[0], m[1], m[2])) / (2 * hh); };
    Q o[3]; for (int ax = 0; ax < 3; ++ax) { Q d1 = d(ax, h), d2 = d(ax, 2 * h); o[ax] = (4 * d1 - d2) / 3; }
    gx = o[0]; gy = o[1]; gz = o[2];
  }
  void gradV0(Q X, Q Y, Q Z, Q& gx, Q& gy, Q& gz) const { gradient([this](Q x, Q y, Q z) { return V0(x, y, z); }, X, Y, Z, gx, gy, gz); }
  void gradU(Q X, Q Y, Q Z, Q& gx, Q& gy, Q& gz) const { gradV0(X, Y, Z, gx, gy, gz); gx += omega * omega * X; gy += omega * omega * Y; }
  // Laplacian of V0 by second central differences (step 1e-5 r): ~1e-10 |V0|/r^2 truncation, 1e-24 round-off
  Q laplaceV0(Q X, Q Y, Q Z) const {
    Q r = sqrtq(X * X + Y * Y + Z * Z), h = r * (Q)1e-5, c = V0(X, Y, Z);
    return (V0(X + h, Y, Z) + V0(X - h, Y, Z) + V0(X, Y + h, Z) + V0(X, Y - h, Z) + V0(X, Y, Z + h) + V0(X, Y, Z - h) - 6 * c) / (h * h);
  }
  // zonal coefficient J_n of V0 by projection on a sphere of radius rho > max(a,b):
  //   V0(rho,theta) = GM/rho (1 - sum J_n (a/rho)^n P_n(cos theta)),   Gauss-Legendre with K nodes
  Q Jn_quadrature(int n, Q rho, int K = 96) const {
    static std::vector<Q> xs, ws; static int Kc = 0;
    if (Kc != K) { xs.assign(K, 0); ws.assign(K, 0); Kc = K;
      for (int i = 0; i < K; ++i) { Q x = cosq(M_PIq * (i + (Q)0.75) / (K + (Q)0.5));
        for (int it = 0; it < 100; ++it) { Q p0 = 1, p1 = x; for (int k = 2; k <= K; ++k) { Q p2 = ((2 * k - 1) * x * p1 - (k - 1) * p0) / k; p0 = p1; p1 = p2; }
          Q dp = K * (x * p1 - p0) / (x * x - 1), dx = p1 / dp; x -= dx; if (fabsq(dx) < (Q)1e-33) break; }
        Q p0 = 1, p1 = x; for (int k = 2; k <= K; ++k) { Q p2 = ((2 * k - 1) * x * p1 - (k - 1) * p0) / k; p0 = p1; p1 = p2; }
        Q dp = K * (x * p1 - p0) / (x * x - 1); xs[i] = x; ws[i] = 2 / ((1 - x * x) * dp * dp); } }
    Q s = 0;
    for (int i = 0; i < K; ++i) { Q ct = xs[i], st = sqrtq(1 - ct * ct); s += ws[i] * V0(rho * st, 0, rho * ct) * legendre_Pn(n, ct); }
    // integral of V0 P_n = -GM/rho J_n (a/rho)^n 2/(2n+1)   (n >= 1)
    return -s * (2 * n + 1) / 2 * rho / GM * powq(rho / a, n);
  }
};

}  // namespace ref
