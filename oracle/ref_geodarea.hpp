// Additions to the reference geodesic for property C03 (no GeographicLib code):
//   * area_under_def  : S12 = int Q(phi) dlambda evaluated directly from the DEFINITION of the area
//                       between a geodesic segment and the equator, by graded Gauss-Legendre panels
//                       in sigma (independent of the I4 / t-function form used by GeodLine::at_sig12);
//   * Qarea / Qarea_quad : area per unit longitude between the equator and latitude phi (closed form
//                       and by quadrature of rho nu cos(phi));
//   * refine_inverse  : REF solution of the inverse problem by Newton iteration on (azi1, s12) from a
//                       starting guess, 3-D miss vector resolved along/across the arriving direction
//                       (across-track displacement = m12 dazi1 -- the definition of the reduced length);
//   * jacobi_by_definition : m12, M12, M21 by central finite differences of REF end points under a
//                       rotation of the initial azimuth / a parallel displacement of the start point,
//                       i.e. straight from the verbal definitions quoted in Geodesic.hpp.
#pragma once
#include "oracle/ref_geod.hpp"

namespace ref {

// Q(phi) = int_0^phi rho nu cos(phi') dphi' = b^2/2 [ sin phi / (1 - e2 sin^2 phi) + atanh(e sin phi)/e ]
template <class T> inline T Qarea(const Ell<T>& E, T sphi) {
  T x;
  if (E.e2 == 0) x = sphi;
  else if (E.e2 > 0) { T e = sqrt(E.e2); x = atanh(e * sphi) / e; }
  else { T e = sqrt(-E.e2); x = atan(e * sphi) / e; }
  return sq(E.b) / 2 * (sphi / (1 - E.e2 * sq(sphi)) + x);
}
// the same by quadrature of the defining integrand (validation of the closed form)
template <class T> inline T Qarea_quad(const Ell<T>& E, T phi_rad) {
  // nearest singularity of (1 - e2 sin^2 phi)^-2: sin(phi) = 1/e  (phi = pi/2 +- i acosh(1/e)) or, prolate, phi = +- i asinh(1/|e|)
  T d = (T)1;
  if (E.e2 > 0) d = acosh(1 / sqrt(E.e2)); else if (E.e2 < 0) d = asinh(1 / sqrt(-E.e2));
  T w = d / 2 < (T)0.05 ? d / 2 : (T)0.05;
  return integrate<T>([&E](T p) { T s = sin(p); return E.rho(s) * E.nu(s) * cos(p); }, (T)0, phi_rad, w);
}

// S12 from the definition: int_{sig1}^{sig1+sig12} Q(phi(sig)) dlambda/dsig dsig with
//   dlambda = sin(alp) ds / (nu cos phi),  ds = b w dsig,  sin(alp) cos(bet) = sin(alp0),  nu cos(phi) = a cos(bet)
//   => dlambda/dsig = (1-f) w sin(alp0) / cos^2(bet).
// The integrand has poles at sig = pi/2 + k pi +- i atanh(sin alp0); panels are graded towards them.
// Requires sin(alp0) > 0 (not a meridian); returns the signed area (east-going positive in the northern hemisphere).
template <class T> inline T area_under_def(const GeodLine<T>& L, T sig12, long* npanels = nullptr) {
  if (sig12 == 0 || L.calp0 == 0) return 0;
  const Ell<T>& E = L.E;
  T salp0 = L.salp0, calp0 = L.calp0, k2 = L.k2, f1 = E.f1;
  T d = salp0 < 1 ? atanh(salp0) : (T)100;
  auto g = [&](T s) {
    T ss = sin(s), cs = cos(s), sbet = calp0 * ss, cbet2 = sq(salp0) + sq(calp0 * cs);
    T w = sqrt(1 + k2 * sq(ss));
    T sphi = sbet / sqrt(sq(sbet) + sq(f1) * cbet2);
    return Qarea(E, sphi) * f1 * w * salp0 / cbet2;
  };
  const GL<T>& q = gl<T>(24);
  T a = L.sig1, b = L.sig1 + sig12, dir = sig12 < 0 ? -1 : 1, s = a, sum = 0; long np = 0;
  T hpi = pi<T>() / 2;
  while ((b - s) * dir > 0) {
    // nearest pole abscissa
    T kk = round((s - hpi) / pi<T>()), sp = hpi + kk * pi<T>();
    T dist = hypot(s - sp, d), h = dist / 2;
    if (h > L.wmax) h = L.wmax;
    T nx = s + dir * h;
    if ((b - nx) * dir < h / 4) nx = b;      // absorb a short last panel
    sum += q.panel(g, s, nx); s = nx; ++np;
    if (np > 2000000) break;
  }
  if (npanels) *npanels = np;
  return L.sgn * sum;
}

template <class T> struct InvSol { T azi1, s12; GeodPos<T> P; T miss; int iters; bool ok; };

// resolve the 3-D vector from REF point P (reached with azimuth P.azi2) to the target (lat2, lon12t) along / across track
template <class T> inline void miss_vector(const Ell<T>& E, const GeodPos<T>& P, T lat2, T lon12t, T& ds, T& dt) {
  T Xp[3], Xt[3], D[3], R[3];
  to_xyz<T>(E, P.lat2, P.lon12, Xp); to_xyz<T>(E, lat2, lon12t, Xt);
  dir_xyz<T>(P.lat2, P.lon12, P.azi2, D); dir_xyz<T>(P.lat2, P.lon12, P.azi2 + 90, R);
  ds = 0; dt = 0;
  for (int i = 0; i < 3; ++i) { ds += (Xt[i] - Xp[i]) * D[i]; dt += (Xt[i] - Xp[i]) * R[i]; }
}

// Newton iteration for the geodesic from (lat1, 0) that reaches (lat2, lon12t) [degrees], starting from (azi1, s12 > 0).
template <class T> inline InvSol<T> refine_inverse(const Ell<T>& E, T lat1, T lat2, T lon12t, T azi1, T s12, T tol_m, int maxit = 12, bool azi_negative_zero = false) {
  InvSol<T> r; r.azi1 = azi1; r.s12 = s12; r.ok = false; r.iters = 0; r.miss = -1;
  for (int it = 0; it <= maxit; ++it) {
    GeodLine<T> L(E, lat1, r.azi1, azi_negative_zero && r.azi1 == azi1);
    r.P = L.at_dist(r.s12);
    T ds, dt; miss_vector(E, r.P, lat2, lon12t, ds, dt);
    r.miss = hypot(ds, dt); r.iters = it;
    if (r.miss <= tol_m) { r.ok = true; break; }
    if (it == maxit) break;
    // across-track: m12 dazi1 = dt (exact for planar short lines with the atan2 form); along-track: ds
    T m = r.P.m12, s = r.s12;
    if (!(fabs(m) > 0)) break;
    T dazi = atan2(dt * (s / m), s + ds);
    r.azi1 += dazi / deg<T>();
    r.s12 = hypot(s + ds, dt);
  }
  return r;
}

// m12, M12, M21 from their verbal definitions by central differences of REF end points.
//   m12: rotate azi1 by +-da; the end point moves +-m12 da along the direction azi2 + 90 deg.
//   M12: start from the points displaced +-dt at right angles (direction azi1 + 90 deg) with a parallel heading;
//        the end points are separated from point 2 by +-M12 dt along azi2 + 90 deg.
//   M21: the same with the roles of the end points exchanged (run the geodesic backwards from point 2).
template <class T> inline void jacobi_by_definition_h(const Ell<T>& E, T lat1, T azi1, T s12, T da_rad, T dt_m, T& m12, T& M12, T& M21) {
  GeodLine<T> L0(E, lat1, azi1); GeodPos<T> P0 = L0.at_dist(s12);
  auto across = [&](const GeodPos<T>& base, const GeodPos<T>& P, T lonoff) {   // component of (P - base) along base.azi2 + 90
    T Xb[3], Xp[3], R[3]; to_xyz<T>(E, base.lat2, base.lon12, Xb); to_xyz<T>(E, P.lat2, P.lon12 + lonoff, Xp);
    dir_xyz<T>(base.lat2, base.lon12, base.azi2 + 90, R);
    T s = 0; for (int i = 0; i < 3; ++i) s += (Xp[i] - Xb[i]) * R[i]; return s; };
  {
    GeodLine<T> Lp(E, lat1, azi1 + da_rad / deg<T>()), Lm(E, lat1, azi1 - da_rad / deg<T>());
    m12 = (across(P0, Lp.at_dist(s12), 0) - across(P0, Lm.at_dist(s12), 0)) / (2 * da_rad);
  }
  auto parallel = [&](T lat, T azi, T s, const GeodPos<T>& base) {
    // displaced start points: go +-dt along azi+90 from (lat, 0); heading there = arrival azimuth - 90
    T v[2];
    for (int k = 0; k < 2; ++k) {
      T sg = k ? -1 : 1;
      GeodLine<T> Lx(E, lat, azi + 90); GeodPos<T> Px = Lx.at_dist(sg * dt_m);
      GeodLine<T> Ly(E, Px.lat2, Px.azi2 - 90); GeodPos<T> Py = Ly.at_dist(s);
      v[k] = across(base, Py, Px.lon12);
    }
    return (v[0] - v[1]) / (2 * dt_m);
  };
  M12 = parallel(lat1, azi1, s12, P0);
  {
    // backwards from point 2: base point is point 1 expressed relative to point 2's meridian
    GeodLine<T> Lb(E, P0.lat2, P0.azi2); GeodPos<T> Pb = Lb.at_dist(-s12);
    M21 = parallel(P0.lat2, P0.azi2, -s12, Pb);
  }
}
// central differences at steps h and h/2 with one Richardson step (error O(h^4))
template <class T> inline void jacobi_by_definition(const Ell<T>& E, T lat1, T azi1, T s12, T da_rad, T dt_m, T& m12, T& M12, T& M21) {
  T a1, b1, c1, a2, b2, c2;
  jacobi_by_definition_h(E, lat1, azi1, s12, da_rad, dt_m, a1, b1, c1);
  jacobi_by_definition_h(E, lat1, azi1, s12, da_rad / 2, dt_m / 2, a2, b2, c2);
  m12 = (4 * a2 - a1) / 3; M12 = (4 * b2 - b1) / 3; M21 = (4 * c2 - c1) / 3;
}

}  // namespace ref
