// Reference transverse Mercator (Gauss-Krueger) projection from its DEFINITION.
// No GeographicLib code, no Krueger series coefficients, no elliptic functions.
//
// Definition used.  Let phi be the geographic latitude, psi(phi) = asinh(tan phi) - e atanh(e sin phi)
// the isometric latitude and M(phi) = int_0^phi a(1-e^2)/(1-e^2 sin^2 t)^(3/2) dt the meridian
// distance.  (psi, lam) are isothermal coordinates on the ellipsoid, so every conformal map is an
// analytic function of zeta = psi + i lam.  Gauss-Krueger is THE conformal map that is true to scale
// k0 on the central meridian:   northing + i easting = k0 * Mt(zeta),   Mt = analytic continuation of
// M o psi^-1 from the real axis.  Hence
//        northing + i easting = k0 [ M(psi) + i int_0^lam Mt'(psi + i t) dt ],
// with Mt'(zeta) = dM/dpsi = nu cos phi = a cos(phi) / sqrt(1 - e^2 sin^2 phi) evaluated at the COMPLEX
// latitude phi(zeta) that solves psi(phi) = zeta.  We parametrise phi by q = atanh(sin phi)
// (sin phi = tanh q, cos phi = sech q):
//        zeta(q)  = q - e atanh(e tanh q)            [ = q + eps atan(eps tanh q) for e^2 = -eps^2 < 0 ]
//        dzeta/dq = (1 - e^2) / (1 - e^2 tanh^2 q)
//        Mt'      = a sech q / sqrt(1 - e^2 tanh^2 q)
// q(zeta) is obtained by complex Newton iteration, *continued* along the integration path from the real
// axis (where q = asinh(tan phi) is known in closed form) so that the correct sheet is followed; the path
// integral is evaluated by adaptive complex Gauss-Legendre quadrature (24 nodes per panel, recursive
// bisection until two successive levels agree to ~1e-26 a in __float128, ~3e-18 a in long double).
//        meridian convergence gamma = -arg Mt'(zeta),     scale k = k0 |Mt'(zeta)| / Mt'(psi).
// The reverse map is a complex Newton iteration on zeta with the same forward evaluation.
//
// Singularities.  Oblate: dzeta/dq = 0 at q = i pi/2 (mod i pi), i.e. the cube-root branch points
// zeta0 = i (1 -+ e) pi/2 (+ i k pi)  -- phi = 0, lam = (1-e) 90deg, and its mirror image on the far side.
// Prolate (e^2 = -eps^2): zeta0 = +-eps pi/2 + i pi/2.  Sphere: poles of sech at i pi/2.  Any straight path
// Re zeta = psi > 0 is free of them for all lam (the far side lam > 90deg is reached by continuing
// along the parallel).  A result is flagged !ok when the path comes within `margin` (default 0.5 deg) of
// a branch point, or when the adaptive quadrature does not converge.
//
// A second, independent evaluation (forward_q) integrates dM = a (1-e^2) sech q (1-e^2 tanh^2 q)^(-3/2) dq
// along the straight segment in the q-plane (no Newton at the nodes); forward_via integrates Mt' along a
// dog-leg path in the zeta plane -- used (a) for self-validation (Cauchy: path independence) and (b) to
// reach the sheet beyond the branch cut that TransverseMercatorExact exposes with extendp = true.
#pragma once
#include <vector>
#include "oracle/ref_num.hpp"

namespace ref {

// ------------------------------------------------------------------ minimal complex arithmetic
template <class T> struct cx {
  T re, im;
  cx() : re(0), im(0) {}
  cx(T r) : re(r), im(0) {}
  cx(T r, T i) : re(r), im(i) {}
  template <class U> explicit cx(const cx<U>& o) : re((T)o.re), im((T)o.im) {}
};
template <class T> inline cx<T> operator+(cx<T> a, cx<T> b) { return cx<T>(a.re + b.re, a.im + b.im); }
template <class T> inline cx<T> operator-(cx<T> a, cx<T> b) { return cx<T>(a.re - b.re, a.im - b.im); }
template <class T> inline cx<T> operator-(cx<T> a) { return cx<T>(-a.re, -a.im); }
template <class T> inline cx<T> operator*(cx<T> a, cx<T> b) { return cx<T>(a.re * b.re - a.im * b.im, a.re * b.im + a.im * b.re); }
template <class T> inline cx<T> operator*(cx<T> a, T b) { return cx<T>(a.re * b, a.im * b); }
template <class T> inline cx<T> operator*(T b, cx<T> a) { return cx<T>(a.re * b, a.im * b); }
template <class T> inline cx<T> operator/(cx<T> a, T b) { return cx<T>(a.re / b, a.im / b); }
template <class T> inline cx<T> operator/(cx<T> a, cx<T> b) {
  T d = b.re * b.re + b.im * b.im;
  return cx<T>((a.re * b.re + a.im * b.im) / d, (a.im * b.re - a.re * b.im) / d);
}
template <class T> inline T cabs(cx<T> a) { return hypot(a.re, a.im); }
template <class T> inline T carg(cx<T> a) { return atan2(a.im, a.re); }
template <class T> inline cx<T> cexp(cx<T> a) { T m = exp(a.re); return cx<T>(m * cos(a.im), m * sin(a.im)); }
template <class T> inline cx<T> clog(cx<T> a) { return cx<T>(log(hypot(a.re, a.im)), atan2(a.im, a.re)); }
template <class T> inline cx<T> csqrt(cx<T> a) {     // principal branch
  T m = hypot(a.re, a.im);
  if (m == 0) return cx<T>();
  T r = sqrt((m + fabs(a.re)) / 2);
  if (a.re >= 0) return cx<T>(r, a.im / (2 * r));
  return cx<T>(fabs(a.im) / (2 * r), a.im < 0 ? -r : r);
}
template <class T> inline cx<T> catanh(cx<T> z) {    // principal branch
  cx<T> l1 = clog(cx<T>(1 + z.re, z.im)), l2 = clog(cx<T>(1 - z.re, -z.im));
  return cx<T>((l1.re - l2.re) / 2, (l1.im - l2.im) / 2);
}
template <class T> inline cx<T> catan(cx<T> z) {     // atan z = -i atanh(i z)
  cx<T> w = catanh(cx<T>(-z.im, z.re));
  return cx<T>(w.im, -w.re);
}
// tanh q and sech q from one exponential (stable for any Re q)
template <class T> inline void tanh_sech(cx<T> q, cx<T>& th, cx<T>& sech) {
  bool neg = q.re < 0;
  if (neg) q = -q;
  cx<T> e1 = cexp(-q), E = e1 * e1, d(1 + E.re, E.im);
  th = cx<T>(1 - E.re, -E.im) / d;
  sech = (e1 + e1) / d;
  if (neg) th = -th;
}

// ------------------------------------------------------------------ the projection
template <class T> class TM {
 public:
  typedef cx<T> C;
  typedef long double L;
  typedef cx<L> CL;
  struct Res {
    T x = 0, y = 0, gamma = 0, k = 0;   // metres, metres, degrees, 1
    bool ok = false;
    int nodes = 0;                      // integrand evaluations spent
    T mindist = 0;                      // closest approach of the path to a branch point (radians)
    T sens = 0;                         // |d ln Mt'/d zeta| = |sin of the complex latitude| at the point: conditioning of gamma, k
  };

  T a, f, k0, e2, ea;       // e2 signed (negative for prolate), ea = sqrt|e2|
  T margin;                 // minimal admissible distance to a branch point in the zeta plane (radians)
  T tol;                    // agreement demanded between successive quadrature levels, in units of a
  int maxdepth = 14;

  TM(T a_, T f_, T k0_) : a(a_), f(f_), k0(k0_), e2(f_ * (2 - f_)), ea(sqrt(fabs(f_ * (2 - f_)))),
                          margin(deg<T>() / 2), tol(eps_of<T>::v() < 1e-30 ? (T)1e-26 : (T)3e-18) {}

  // ---- scalar helpers on the real meridian
  T psi_of(T sphi, T cphi) const {   // isometric latitude from sin, cos of the latitude (cphi > 0)
    T g = e2 > 0 ? ea * atanh(ea * sphi) : (e2 < 0 ? -ea * atan(ea * sphi) : (T)0);
    return asinh(sphi / cphi) - g;
  }
  // meridian distance / a from the equator to latitude phi (radians), by adaptive Gauss-Legendre on its definition
  T meridian_unit(T phi) const {
    auto fun = [&](T t) { T s = sin(t), w = 1 - e2 * s * s; return (1 - e2) / (w * sqrt(w)); };
    const GL<T>& g = gl<T>(24);
    T whole = g.panel(fun, (T)0, phi);
    return mer_rec(g, fun, (T)0, phi, whole, 0);
  }
  T quarter_unit() const { if (!haveq_) { Mq_ = meridian_unit(pi<T>() / 2); haveq_ = true; } return Mq_; }

  // ---- the complex building block: zeta(q), dzeta/dq, Mt'(q)/a
  template <class U> static void qfun(cx<U> q, U e2u, U eau, cx<U>& zeta, cx<U>& dz, cx<U>& mp) {
    cx<U> th, sech;
    tanh_sech(q, th, sech);
    cx<U> t2 = th * th, w(1 - e2u * t2.re, -e2u * t2.im), g;
    if (e2u > 0) g = eau * catanh(eau * th);
    else if (e2u < 0) g = -(eau * catan(eau * th));
    zeta = q - g;
    dz = cx<U>(1 - e2u) / w;
    mp = sech / csqrt(w);
  }

  // distance in the zeta plane to the nearest branch point / pole of Mt'
  template <class U> U distbranch(cx<U> z) const {
    U hp = pi<U>() / 2, e = (U)ea, best = 1e30;
    for (int k = -1; k <= 1; ++k) {
      U c = hp + k * pi<U>();
      if (e2 >= 0) {
        U d1 = hypot(z.re, z.im - (c - e * hp)), d2 = hypot(z.re, z.im - (c + e * hp));
        if (d1 < best) best = d1;
        if (d2 < best) best = d2;
      } else {
        U d1 = hypot(z.re - e * hp, z.im - c), d2 = hypot(z.re + e * hp, z.im - c);
        if (d1 < best) best = d1;
        if (d2 < best) best = d2;
      }
    }
    return best;
  }
  template <class U> static U ptseg(U px, U py, cx<U> za, cx<U> zb) {   // distance from a point to a segment
    U dx = zb.re - za.re, dy = zb.im - za.im, l2 = dx * dx + dy * dy, s = 0;
    if (l2 > 0) { s = ((px - za.re) * dx + (py - za.im) * dy) / l2; if (s < 0) s = 0; if (s > 1) s = 1; }
    return hypot(za.re + s * dx - px, za.im + s * dy - py);
  }
  template <class U> U distbranch_seg(cx<U> za, cx<U> zb) const {   // exact distance of a segment to the set of branch points
    U hp = pi<U>() / 2, e = (U)ea, best = 1e30;
    for (int k = -1; k <= 1; ++k) {
      U c = hp + k * pi<U>(), d1, d2;
      if (e2 >= 0) { d1 = ptseg((U)0, c - e * hp, za, zb); d2 = ptseg((U)0, c + e * hp, za, zb); }
      else { d1 = ptseg(e * hp, c, za, zb); d2 = ptseg(-e * hp, c, za, zb); }
      if (d1 < best) best = d1;
      if (d2 < best) best = d2;
    }
    return best;
  }

  // ---- continuation of q(zeta) in long double: move the pair (zc, qc) to z1 along the straight segment
  bool advance(CL& zc, CL& qc, CL z1) const {
    const L e2l = (L)e2, eal = (L)ea;
    int guard = 0;
    for (;;) {
      CL dzt = z1 - zc;
      L len = cabs(dzt);
      if (len == 0) return true;
      L maxstep = distbranch(zc) / 4, fr = 1;
      if (len > maxstep) fr = maxstep / len;
      CL z0, dq0, mp0;
      qfun(qc, e2l, eal, z0, dq0, mp0);
      for (;;) {
        if (++guard > 100000) return false;
        CL zt = fr >= 1 ? z1 : zc + dzt * fr;
        CL step = (zt - zc) / dq0, q = qc + step;
        bool conv = false;
        L first = 0;
        for (int it = 0; it < 12; ++it) {
          CL zq, dq, mp;
          qfun(q, e2l, eal, zq, dq, mp);
          CL del = (zq - zt) / dq;
          q = q - del;
          L ad = cabs(del);
          if (it == 0) first = ad;
          if (!(ad == ad)) break;
          if (ad <= 4e-19L * (1 + cabs(q))) { conv = true; break; }
        }
        if (conv && first <= cabs(step) / 4 + 1e-15L) { zc = zt; qc = q; break; }
        fr /= 2;
        if (fr * len < 1e-13L) return false;
      }
      if (zc.re == z1.re && zc.im == z1.im) return true;
    }
  }
  // refine a long double solution of zeta(q) = z in T and return Mt'/a there (and dzeta/dq)
  bool refine(C z, CL ql, C& q, C& mp, C& dz) const {
    q = C(ql);
    if (eps_of<T>::v() > 1e-25) {   // T is long double: already converged
      C zq; qfun(q, e2, ea, zq, dz, mp);
      return cabs(zq - z) <= 64 * eps_of<T>::v() * (1 + cabs(z));
    }
    for (int it = 0; it < 6; ++it) {
      C zq;
      qfun(q, e2, ea, zq, dz, mp);
      C F = zq - z;
      T af = cabs(F);
      if (!(af == af)) return false;
      if (af <= 64 * eps_of<T>::v() * (1 + cabs(z))) return true;    // mp, dz belong to this q
      q = q - F / dz;
    }
    return false;
  }

  // ---- one Gauss-Legendre panel of  int Mt'(zeta)/a dzeta  over the segment za -> zb (zeta plane)
  struct St { CL z, q; };
  bool panel_zeta(C za, C zb, St s, C& I, St& sout, int& nodes) const {
    const GL<T>& g = gl<T>(24);
    C h = (zb - za) / (T)2, m = (za + zb) / (T)2, sum;
    // nodes of GL are stored descending (x[0] > 0 ... ), traverse ascending along the path
    for (int i = g.n - 1; i >= 0; --i) {
      C z(m.re + h.re * g.x[i], m.im + h.im * g.x[i]);
      if (!advance(s.z, s.q, CL(z))) return false;
      C q, mp, dz;
      if (!refine(z, s.q, q, mp, dz)) return false;
      sum = sum + mp * g.w[i];
      ++nodes;
    }
    if (!advance(s.z, s.q, CL(zb))) return false;
    sout = s;
    I = sum * h;
    return true;
  }
  bool rec_zeta(C za, C zb, St sa, C Iab, int depth, C& I, St& sb, int& nodes) const {
    C zm = (za + zb) / (T)2, I1, I2;
    St sm;
    if (!panel_zeta(za, zm, sa, I1, sm, nodes)) return false;
    if (!panel_zeta(zm, zb, sm, I2, sb, nodes)) return false;
    C s = I1 + I2;
    T as = cabs(s);
    if (cabs(s - Iab) <= tol * (as > 1 ? as : (T)1)) { I = s; return true; }
    if (depth >= maxdepth) return false;
    St dummy;
    C J1, J2;
    if (!rec_zeta(za, zm, sa, I1, depth + 1, J1, dummy, nodes)) return false;
    if (!rec_zeta(zm, zb, sm, I2, depth + 1, J2, dummy, nodes)) return false;
    I = J1 + J2;
    return true;
  }
  // integral of Mt'/a along one straight leg, continuing q from state s (updated to the end of the leg)
  bool leg_zeta(C za, C zb, St& s, C& I, int& nodes) const {
    if (za.re == zb.re && za.im == zb.im) { I = C(); return true; }
    C I0; St s1;
    if (!panel_zeta(za, zb, s, I0, s1, nodes)) return false;
    St s2;
    if (!rec_zeta(za, zb, s, I0, 0, I, s2, nodes)) return false;
    s = s2;
    return true;
  }

  // ---- general evaluation along a polyline in the zeta plane.
  // phi0 (radians, |phi0| < pi/2) fixes the start on the real axis; vertices v[0..] follow.  Returns
  // sigma/a = (northing + i easting)/(a k0) and Mt'/a at the end point.
  bool sigma_path(T sphi0, T cphi0, const std::vector<C>& v, C& sigma, C& mpend, int& nodes, T& mind, C* qend = nullptr) const {
    T psi0 = psi_of(sphi0, cphi0);
    St s; s.z = CL((L)psi0, 0); s.q = CL((L)asinh(sphi0 / cphi0), 0);
    C z(psi0, 0);
    sigma = C(meridian_unit(atan2(sphi0, cphi0)), 0);
    mind = 1e30;
    for (size_t i = 0; i < v.size(); ++i) {
      T d = distbranch_seg(z, v[i]);
      if (d < mind) mind = d;
      if (d < margin) return false;
      C I;
      if (!leg_zeta(z, v[i], s, I, nodes)) return false;
      sigma = sigma + I;
      z = v[i];
    }
    C q, dz;
    bool ok = refine(z, s.q, q, mpend, dz);
    if (qend) *qend = q;
    return ok;
  }

  // ---- public forward: lat, dlon in degrees (|lat| <= 90, |dlon| <= 180), straight path Re zeta = psi
  Res forward(T lat, T dlon) const { return forward_impl(lat, dlon, false, 0, 0); }
  // dog-leg path: real axis at latitude latvia (deg, > 0) -> up to lam -> horizontally to psi(lat).
  // With lat < 0 and dlon beyond the branch point this reaches the sheet "beyond the branch cut".
  Res forward_via(T lat, T dlon, T latvia) const { return forward_impl(lat, dlon, true, latvia, 0); }
  // independent second evaluation: quadrature in the q plane (no Newton at the nodes).  Valid for |dlon| <= 90 only: the region
  // {Re q > 0, 0 < Im q < pi/2} is convex and free of singularities, so the straight segment is homotopic to the image of the
  // zeta path; on the far side it would pass on the wrong side of q = atanh(e) + i pi/2.
  Res forward_q(T lat, T dlon) const { if (fabs(dlon) > 90) return Res(); return forward_impl(lat, dlon, false, 0, 1); }

  // ---- reverse: x, y in metres -> lat, dlon (degrees).  glat/gdlon: optional starting guess (degrees).
  bool reverse(T x, T y, T& lat, T& dlon, T& gamma, T& k, const T* glat = nullptr, const T* gdlon = nullptr) const {
    int sx = x < 0 ? -1 : 1, sy = y < 0 ? -1 : 1;
    T xi = fabs(y) / (a * k0), eta = fabs(x) / (a * k0);
    T Mq = quarter_unit();
    bool back = xi > Mq;
    if (back) { if (e2 < 0) return false; xi = 2 * Mq - xi; }
    // starting guess
    T psi, lam;
    T glat_, gdlon_;
    if (!(glat && gdlon) && eps_of<T>::v() < 1e-25) {      // cheap pre-solve in long double
      TM<long double> t((L)a, (L)f, (L)k0);
      t.margin = (L)margin;
      L la, dl, gg, kk;
      if (t.reverse((L)x, (L)y, la, dl, gg, kk)) { glat_ = (T)la; gdlon_ = (T)dl; glat = &glat_; gdlon = &gdlon_; }
    }
    if (glat && gdlon) {
      T gl_ = fabs(*glat), gd = fabs(*gdlon);
      if (gd > 90) gd = 180 - gd;
      if (gl_ > (T)89.9999999) gl_ = (T)89.9999999;
      T s, c; sincosd(gl_, s, c);
      psi = psi_of(s, c); lam = gd * deg<T>();
    } else {
      T R = Mq / (pi<T>() / 2), X = xi / R, E = eta / R;   // sphere of the rectifying radius
      lam = atan2(sinh(E), cos(X));
      T sp = sin(X) / cosh(E);
      if (sp > 1 - (T)1e-12) sp = 1 - (T)1e-12;
      psi = atanh(sp);                                     // conformal ~ isometric to O(e^2)
    }
    C target(xi, eta);
    const T restol = 8 * tol * (cabs(target) > 1 ? cabs(target) : (T)1);
    T lastres = 1e30;
    for (int it = 0; it < 40; ++it) {
      if (psi < 0) psi = -psi;
      if (lam < 0) lam = -lam;
      T q = psi_to_q(psi);                                 // latitude belonging to psi
      T sphi = tanh(q), cphi = 1 / cosh(q);
      std::vector<C> v(1, C(psi, lam));
      C sig, mp; int nodes = 0; T mind;
      if (!sigma_path(sphi, cphi, v, sig, mp, nodes, mind)) return false;
      C F = sig - target;
      T res = cabs(F);
      if (res <= restol || (it > 2 && res >= lastres && res <= 100 * restol)) {
        T mreal = cphi / sqrt(1 - e2 * sphi * sphi);
        lat = atan2(sphi, cphi) / deg<T>();
        dlon = lam / deg<T>();
        gamma = -carg(mp) / deg<T>();
        k = k0 * cabs(mp) / mreal;
        if (back) { dlon = 180 - dlon; gamma = 180 - gamma; }
        lat *= sy; dlon *= sx; gamma *= sx * sy;
        return true;
      }
      lastres = res;
      C dzeta = F / mp;
      T ad = cabs(dzeta);
      if (ad > (T)0.5) dzeta = dzeta * ((T)0.5 / ad);      // damp huge steps (far from the solution)
      psi -= dzeta.re; lam -= dzeta.im;
    }
    return false;
  }

  T psi_to_q(T psi) const {     // real solution of q - G(tanh q) = psi
    T q = psi;
    for (int it = 0; it < 60; ++it) {
      T th = tanh(q), g = e2 > 0 ? ea * atanh(ea * th) : (e2 < 0 ? -ea * atan(ea * th) : (T)0);
      T F = q - g - psi, d = (1 - e2) / (1 - e2 * th * th), dq = F / d;
      q -= dq;
      if (fabs(dq) <= 8 * eps_of<T>::v() * (1 + fabs(q))) break;
    }
    return q;
  }

 private:
  mutable T Mq_ = 0;
  mutable bool haveq_ = false;

  template <class F> T mer_rec(const GL<T>& g, F& fun, T a0, T b0, T whole, int depth) const {
    T m = (a0 + b0) / 2, I1 = g.panel(fun, a0, m), I2 = g.panel(fun, m, b0);
    if (fabs(I1 + I2 - whole) <= tol || depth > 20) return I1 + I2;
    return mer_rec(g, fun, a0, m, I1, depth + 1) + mer_rec(g, fun, m, b0, I2, depth + 1);
  }

  // quadrature in the q plane of dM/a = (1-e2) sech q (1 - e2 tanh^2 q)^(-3/2) dq along a straight segment
  C panel_q(C qa, C qb) const {
    const GL<T>& g = gl<T>(24);
    C h = (qb - qa) / (T)2, m = (qa + qb) / (T)2, sum;
    for (int i = 0; i < g.n; ++i) {
      C q(m.re + h.re * g.x[i], m.im + h.im * g.x[i]), zq, dz, mp;
      qfun(q, e2, ea, zq, dz, mp);
      sum = sum + (mp * dz) * g.w[i];
    }
    return sum * h;
  }
  bool rec_q(C qa, C qb, C Iab, int depth, C& I, int& nodes) const {
    C qm = (qa + qb) / (T)2, I1 = panel_q(qa, qm), I2 = panel_q(qm, qb);
    nodes += 48;
    T as = cabs(I1 + I2);
    if (cabs(I1 + I2 - Iab) <= tol * (as > 1 ? as : (T)1)) { I = I1 + I2; return true; }
    if (depth >= maxdepth) return false;
    C J1, J2;
    if (!rec_q(qa, qm, I1, depth + 1, J1, nodes) || !rec_q(qm, qb, I2, depth + 1, J2, nodes)) return false;
    I = J1 + J2;
    return true;
  }

  Res forward_impl(T lat, T dlon, bool via, T latvia, int mode) const {
    Res r;
    if (!(fabs(lat) <= 90) || !(fabs(dlon) <= 180)) return r;
    int slat = lat < 0 ? -1 : 1, slon = dlon < 0 ? -1 : 1;
    if (via) slat = 1;                      // the dog-leg path does not use the north/south symmetry
    T al = slat * lat, ad = slon * dlon;
    if (al == 90) {                         // pole: zeta = +inf; Mt' ~ C exp(-zeta)
      r.x = 0; r.y = slat * k0 * a * quarter_unit(); r.gamma = slat * slon * ad; r.k = k0; r.ok = true; r.mindist = 1e30; r.sens = 1;
      return r;
    }
    T lam = ad * deg<T>(), sphi, cphi;
    sincosd(al, sphi, cphi);
    T psi = psi_of(sphi, cphi);
    if (!via) {
      if (psi == 0 && lam >= (1 - (e2 > 0 ? ea : 0)) * pi<T>() / 2) return r;       // on / beyond the branch point
      if (e2 < 0 && ad > 90 && !(psi > ea * pi<T>() / 2 + margin)) return r;       // prolate: would pass between the branch points
      if (e2 < 0 && ad == 90 && !(psi > ea * pi<T>() / 2 + margin)) return r;
    }
    C sigma, mp, qend;
    if (mode == 1) {
      // end point in the q plane by continuation, then straight-line quadrature from the real q
      St s; s.z = CL((L)psi, 0); s.q = CL((L)asinh(sphi / cphi), 0);
      C zend(psi, lam);
      r.mindist = distbranch_seg(C(psi, 0), zend);
      if (r.mindist < margin) return r;
      if (!advance(s.z, s.q, CL(zend))) return r;
      C qe, dz;
      if (!refine(zend, s.q, qe, mp, dz)) return r;
      qend = qe;
      C q0(asinh(sphi / cphi), 0), I0 = panel_q(q0, qe), I;
      r.nodes = 24;
      if (!rec_q(q0, qe, I0, 0, I, r.nodes)) return r;
      sigma = C(meridian_unit(atan2(sphi, cphi)), 0) + I;
    } else if (!via) {
      std::vector<C> v(1, C(psi, lam));
      if (!sigma_path(sphi, cphi, v, sigma, mp, r.nodes, r.mindist, &qend)) return r;
    } else {
      T sv, cv; sincosd(latvia, sv, cv);
      T psiv = psi_of(sv, cv);
      std::vector<C> v; v.push_back(C(psiv, lam)); v.push_back(C(psi, lam));
      if (!sigma_path(sv, cv, v, sigma, mp, r.nodes, r.mindist, &qend)) return r;
    }
    T mreal = cphi / sqrt(1 - e2 * sphi * sphi);   // Mt'(psi)/a on the real axis = nu cos(phi) / a
    r.y = slat * k0 * a * sigma.re;
    r.x = slon * k0 * a * sigma.im;
    r.gamma = slat * slon * (-carg(mp) / deg<T>());
    r.k = k0 * cabs(mp) / mreal;
    { C th, se; tanh_sech(qend, th, se); r.sens = cabs(th); }
    r.ok = true;
    return r;
  }
};

}  // namespace ref
