// Reference machinery for the INVERSE geodesic problem, built on oracle/ref_geod.hpp only (no
// GeographicLib code, no Newton-on-lambda12 in canonical form, no astroid start):
//
//   ref_inverse_scan  global shortest-path certificate.  The azimuth circle at the end point of
//                     larger |latitude| is scanned; for every ray every crossing of the parallel of
//                     the other point within `max_sig` (<= 3 pi = 1.5 circuits) is located in closed
//                     form on the auxiliary sphere and its longitude is computed by quadrature.  The
//                     zeros of  longitude(alp1) - target  on every crossing branch (bracketed by sign
//                     changes, plus tangential near-double zeros found by minimising |g|) are ALL the
//                     geodesics joining the two points; their lengths are computed and the least is
//                     returned.  Scanning is done in long double, the winner is polished in float128.
//                     A missed root can only make the certificate weaker (it never creates an alarm):
//                     the caller flags the library only if the scan finds a joining geodesic that is
//                     SHORTER than the library's.
//   chord             straight-line distance of two surface points (a lower bound of every path).
//
// Conventions: angles in degrees at the interface; lon12 = lon2 - lon1 (any real value; reduced here).
#pragma once
#include <algorithm>
#include <vector>
#include "oracle/ref_geod.hpp"

namespace ref {

template <class T> struct InvRoot {
  T alp1;          // azimuth (radians, in [0, pi]) at the scan origin, east-going representation
  int type, k;     // crossing branch: type 0 = northbound (cos sig2 > 0), 1 = southbound ; sig2 = th + 2 pi k  or  pi - th + 2 pi k
  bool west;       // true: the joining geodesic is the mirror image (heads west from the scan origin)
  T sig12;         // arc length on the auxiliary sphere (radians)
  T s12;           // length (metres)
  T resid;         // |longitude residual| at the root (radians)
};

template <class T> struct InvScan {
  bool swapped = false;          // scan origin is point 2 (the point of larger |lat|)
  int nroots = 0;
  std::vector<InvRoot<T>> roots; // all joining geodesics found (length-sorted)
  T smin = -1;                   // least length found (long double scan), -1 if none
  __float128 smin_q = -1;        // the same after float128 polishing
  __float128 azi_origin_q = 0;   // azimuth (deg, signed) of the shortest joining geodesic at the scan origin
  long evals = 0;
};

namespace invdetail {

// one ray from (bet1) with azimuth alp1 in [0,pi]: everything needed to evaluate crossing branches
template <class T> struct Ray {
  const Ell<T>* E; T sbet1, cbet1, sbet2, cbet2;
  T salp1, calp1, salp0, calp0, k2, ssig1, csig1, sig1, wmax, dsing, csing;
  T th, cth;        // sin(th) = sbet2 / calp0 ; cth = cos(th) >= 0
  bool ok; int nq;
  Ray(const Ell<T>& E_, T sb1, T cb1, T sb2, T cb2, T alp1) : E(&E_), sbet1(sb1), cbet1(cb1), sbet2(sb2), cbet2(cb2) {
    salp1 = sin(alp1); calp1 = cos(alp1);
    if (alp1 == 0) { salp1 = 0; calp1 = 1; }
    if (alp1 == pi<T>()) { salp1 = 0; calp1 = -1; }
    salp0 = salp1 * cbet1; calp0 = hypot(calp1, salp1 * sbet1);
    k2 = E->ep2 * sq(calp0);
    ssig1 = sbet1; csig1 = calp1 * cbet1;
    ok = true;
    if (ssig1 == 0 && csig1 == 0) { ok = false; return; }     // exactly equatorial ray: handled separately by the caller
    { T h = hypot(ssig1, csig1); ssig1 /= h; csig1 /= h; }
    sig1 = atan2(ssig1, csig1);
    // distance from the real axis to the branch points of sqrt(1 + k2 sin^2 sig); they sit above sig = n pi (k2 > 0)
    // or sig = pi/2 + n pi (k2 < 0)
    if (k2 > 0) { dsing = asinh(1 / sqrt(k2)); csing = 0; }
    else if (k2 < 0) { T ik = 1 / sqrt(-k2); dsing = ik > 1 ? acosh(ik) : (T)1e-3; csing = pi<T>() / 2; }
    else { dsing = 10; csing = 0; }
    if (dsing < (T)1e-4) dsing = (T)1e-4;
    // Gauss-Legendre panels graded geometrically towards the branch points: a panel of width h = 0.6 r starting at
    // distance r from the nearest branch point keeps the Bernstein-ellipse parameter >= 4.4, i.e. error <= 4.4^(-2 nq):
    // 1e-20 for nq = 16 (long double), 1e-30 for nq = 24 (float128)
    nq = eps_of<T>::v() > (T)1e-25 ? 16 : 24;
    wmax = 0;
    // crossing of the parallel bet2: sin(sig2) = sbet2/calp0, cos(sig2) = +-sqrt(cbet2^2 - salp0^2)/calp0
    if (!(calp0 > 0)) { ok = false; return; }
    // cbet2 - salp0 without cancellation when |bet2| ~ |bet1| and alp1 ~ pi/2:  1 - salp1 = calp1^2 / (1 + salp1)
    T s = sbet2 / calp0, c2 = ((cbet2 - cbet1) + cbet1 * sq(calp1) / (1 + salp1)) * (cbet2 + salp0);
    if (c2 < 0) c2 = 0;                                         // tangency (|bet2| = |bet1|, alp1 = pi/2) up to round-off
    T c = sqrt(c2) / calp0;
    { T h = hypot(s, c); if (h == 0) { ok = false; return; } s /= h; c /= h; }
    th = atan2(s, c); cth = c;
  }
  T rsing(T x) const { T y = remainder(x - csing, pi<T>()); return hypot(y, dsing); }
  template <class F> T graded(F&& f, T a, T b) const {
    if (!(b > a)) return b == a ? (T)0 : -graded(f, b, a);
    const GL<T>& g = gl<T>(nq);
    T s = 0, x = a; const T hcap = pi<T>() / 4;
    for (long it = 0; it < 10000000L && x < b; ++it) {
      T h = (T)0.6 * rsing(x); if (h > hcap) h = hcap;
      T y = x + h; if (y >= b || b - y < h / 8) y = b;
      s += g.panel(f, x, y); x = y;
    }
    return s;
  }
  // arc from point 1 to the crossing (type, k); <= 0 if the crossing is not ahead of point 1
  T sig12_of(int type, int k) const { T sig2 = (type == 0 ? th : pi<T>() - th) + 2 * pi<T>() * k; return sig2 - sig1; }
  T domega(T ss, T cs) const { return atan2((salp0 - 1) * ss * cs, sq(cs) + salp0 * sq(ss)); }
  // longitude difference (radians, unrolled, >= 0 for this east-going representation) at the crossing
  T lam12(int type, int k) const {
    T s12 = sig12_of(type, k), sig2 = sig1 + s12;
    T ss2 = sin(th), cs2 = type == 0 ? cth : -cth;
    T kk = k2, f = E->f, f1 = E->f1;
    T I3 = graded([kk, f, f1](T s) { return (2 - f) / (1 + f1 * sqrt(1 + kk * sq(sin(s)))); }, sig1, sig2);
    return s12 + (domega(ss2, cs2) - domega(ssig1, csig1)) - f * salp0 * I3;
  }
  T length(int type, int k) const {
    T s12 = sig12_of(type, k), kk = k2;
    return E->b * graded([kk](T s) { return sqrt(1 + kk * sq(sin(s))); }, sig1, sig1 + s12);
  }
};

template <class T> inline T wrap_pi(T x) { return remainder(x, 2 * pi<T>()); }

}  // namespace invdetail

// straight-line (3-D) distance between two surface points
template <class T> inline T chord(const Ell<T>& E, T lat1, T lat2, T lon12) {
  T A[3], B[3]; to_xyz<T>(E, lat1, (T)0, A); to_xyz<T>(E, lat2, lon12, B); return dist3(A, B);
}

// Global scan.  slimit: only geodesics that could be shorter than slimit are of interest (prunes the
// crossing branches by  s >= min(a,b) * sig12);  pass a huge value to get everything within 1.5 circuits.
template <class T = long double>
inline InvScan<T> ref_inverse_scan(double a, double f, double lat1d, double lat2d, __float128 lon12q, double slimit, int nrays = 3600) {
  using namespace invdetail;
  InvScan<T> R;
  Ell<T> E((T)a, (T)f);
  // scan from the point of larger |latitude|: then every ray reaches the other parallel
  double la = lat1d, lb = lat2d;
  if (std::fabs(lat1d) < std::fabs(lat2d)) { R.swapped = true; std::swap(la, lb); }
  __float128 l12 = remainderq(lon12q, 360); if (R.swapped) l12 = -l12;
  auto redlat = [&](double lat, T& sb, T& cb) {
    T sp, cp; sincosd<T>((T)lat, sp, cp); sb = E.f1 * sp; cb = cp;
    if (cb == 0 || std::fabs(lat) == 90) cb = (T)1e-1000L;
    T h = hypot(sb, cb); sb /= h; cb /= h; };
  T sb1, cb1, sb2, cb2; redlat(la, sb1, cb1); redlat(lb, sb2, cb2);
  // latitudes below 1e-100 rad are on the equator for every purpose here (displacement < 1e-90 m)
  if (fabs(sb1) < (T)1e-100) { sb1 = 0; cb1 = 1; }
  if (fabs(sb2) < (T)1e-100) { sb2 = 0; cb2 = 1; }
  const T PI = pi<T>();
  T L = (T)(l12 * (M_PIq / 180));                 // target longitude difference in (-pi, pi]
  T minax = E.a < E.b ? E.a : E.b;
  // (+0.05 rad so that the grid neighbours of a root near the limit are still evaluated and bracket it)
  T max_sig = (T)slimit / minax * (1 + (T)1e-9) + (T)0.05;
  if (!(max_sig < 3 * PI)) max_sig = 3 * PI;
  const T min_sig = (T)1e-10;
  std::vector<T> grid; grid.reserve(nrays + 8);
  for (int i = 0; i <= nrays; ++i) grid.push_back(PI * i / nrays);
  // refine the grid near the meridional directions, where lambda(alp1) is steep for near-polar points
  // ... and near the east/west direction, where it is steep for nearly equatorial pairs
  for (int e = 1; e <= 14; ++e) { T d = PI / nrays * pow((T)0.1, e); grid.push_back(d); grid.push_back(PI - d); if (e & 1) { grid.push_back(PI / 2 - d * 3); grid.push_back(PI / 2 + d * 3); } else { grid.push_back(PI / 2 - d); grid.push_back(PI / 2 + d); } }
  std::sort(grid.begin(), grid.end());
  const int ntargets = (L == 0 || fabs(fabs(L) - PI) < (T)1e-30) ? 1 : 2;

  auto geval = [&](T alp1, int type, int k, T target, bool& ok) -> T {
    Ray<T> r(E, sb1, cb1, sb2, cb2, alp1); ++R.evals;
    if (!r.ok) { ok = false; return 0; }
    T s12 = r.sig12_of(type, k);
    if (fabs(s12) <= min_sig) { ok = true; return -target; }     // branch ends at point 1 itself
    if (!(s12 > min_sig && s12 <= 3 * PI + (T)0.05)) { ok = false; return 0; }
    ok = true; return r.lam12(type, k) - target;
  };
  auto add_root = [&](T alp1, int type, int k, bool west, T target) {
    Ray<T> r(E, sb1, cb1, sb2, cb2, alp1);
    if (!r.ok) return;
    T s12 = r.sig12_of(type, k); if (!(s12 > min_sig)) return;
    T g = r.lam12(type, k) - target;
    // not a zero (wrap discontinuity or branch end)?  The threshold is loose (grazing crossings are located with
    // sqrt(eps) noise in long double); the float128 stage below measures the actual miss distance of every candidate.
    if (!(fabs(g) < (T)1e-6)) return;
    for (auto& q : R.roots) if (q.type == type && q.k == k && q.west == west && fabs(q.alp1 - alp1) < (T)1e-13) return;
    InvRoot<T> o; o.alp1 = alp1; o.type = type; o.k = k; o.west = west; o.sig12 = s12; o.s12 = r.length(type, k); o.resid = fabs(g);
    R.roots.push_back(o);
  };
  auto bisect = [&](T lo, T glo, T hi, T ghi, int type, int k, T target) -> T {
    // Illinois-accelerated bisection on a bracket with opposite signs
    for (int it = 0; it < 200 && hi - lo > 2 * eps_of<T>::v() * (1 + hi); ++it) {
      T mid = (it & 1) ? lo + (hi - lo) / 2 : lo - glo * (hi - lo) / (ghi - glo);
      if (!(mid > lo && mid < hi)) mid = lo + (hi - lo) / 2;
      bool ok; T gm = geval(mid, type, k, target, ok);
      if (!ok) { mid = lo + (hi - lo) / 2; gm = geval(mid, type, k, target, ok); if (!ok) break; }
      if (gm == 0) return mid;
      if ((gm > 0) == (glo > 0)) { lo = mid; glo = gm; } else { hi = mid; ghi = gm; }
    }
    return fabs(glo) < fabs(ghi) ? lo : hi;
  };

  // unrolled longitude of every crossing branch on every grid ray (computed once, shared by both targets)
  const size_t NG = grid.size();
  std::vector<T> lamc(NG * 8); std::vector<char> okc(NG * 8, 0);
  // pass 1: which (ray, branch) pairs are of interest (arc within the length limit) -- no integrals yet
  std::vector<Ray<T>> rays; rays.reserve(NG);
  std::vector<char> want(NG * 8, 0);               // 0 = no, 1 = in range, 2 = branch ends at point 1, 3 = only as a bracket end
  for (size_t i = 0; i < NG; ++i) {
    rays.emplace_back(E, sb1, cb1, sb2, cb2, grid[i]); ++R.evals;
    const Ray<T>& r = rays.back();
    if (!r.ok) continue;
    for (int type = 0; type < 2; ++type) for (int k = -1; k <= 2; ++k) {
      T s12 = r.sig12_of(type, k);
      int bi = type * 4 + (k + 1);
      if (fabs(s12) <= min_sig) { want[i * 8 + bi] = 2; continue; }     // branch ends at point 1 itself
      if (!(s12 > min_sig && s12 <= 3 * PI + (T)0.05)) continue;
      want[i * 8 + bi] = 3;
      if (s12 > max_sig) continue;
      // every complete half wave costs at least  b * int_0^pi sqrt(1 + k2 sin^2) >= max(b pi, 2 b sqrt(k2)) (k2 > 0)
      { T hw = floor(s12 / PI - (T)0.02), per = E.b * PI; if (r.k2 > 0) { T q = 2 * E.b * sqrt(r.k2); if (q > per) per = q; } else per = minax * PI;
        if (hw >= 1 && hw * per > (T)slimit * (1 + (T)1e-6) + per * (T)0.05) continue; }
      want[i * 8 + bi] = 1;
    }
  }
  // pass 2: longitudes of the wanted crossings and of their grid neighbours on the same branch (so that a root next to the
  // limit, or on a steep part of the branch, is still bracketed)
  for (size_t i = 0; i < NG; ++i) for (int bi = 0; bi < 8; ++bi) {
    char w = want[i * 8 + bi];
    if (w == 0) continue;
    if (w == 2) { okc[i * 8 + bi] = 2; lamc[i * 8 + bi] = 0; continue; }
    bool need = w == 1 || (i > 0 && want[(i - 1) * 8 + bi] == 1) || (i + 1 < NG && want[(i + 1) * 8 + bi] == 1);
    if (!need) continue;
    okc[i * 8 + bi] = 1; lamc[i * 8 + bi] = rays[i].lam12(bi / 4, bi % 4 - 1);
  }
  const T TWO_PI = 2 * PI;
  for (int tg = 0; tg < ntargets; ++tg) {
    bool west = tg == 1;
    // the east-going image must reach +-L modulo a full turn; lambda(alp1) is continuous (unrolled) along a branch, so the
    // admissible targets t0 + 2 pi j are enumerated explicitly (no wrapping, hence no spurious sign changes)
    T t0 = west ? -L : L; if (t0 < 0) t0 += TWO_PI;
    for (int type = 0; type < 2; ++type) for (int k = -1; k <= 2; ++k) {
      const int bi = type * 4 + (k + 1);
      T lmin = 0, lmax = 0; bool any = false;
      for (size_t i = 0; i < NG; ++i) if (okc[i * 8 + bi]) { T v = lamc[i * 8 + bi]; if (!any || v < lmin) lmin = v; if (!any || v > lmax) lmax = v; any = true; }
      if (!any) continue;
      long j0 = (long)floor((double)((lmin - t0) / TWO_PI) - 1e-9), j1 = (long)ceil((double)((lmax - t0) / TWO_PI) + 1e-9);
      if (j0 < 0) j0 = 0;
      if (j1 > j0 + 64) j1 = j0 + 64;
      for (long j = j0; j <= j1; ++j) {
      const T target = t0 + TWO_PI * j;
      std::vector<T> g(NG); std::vector<char> ok(NG);
      for (size_t i = 0; i < NG; ++i) { ok[i] = okc[i * 8 + bi]; g[i] = ok[i] ? lamc[i * 8 + bi] - target : 0; }
      for (size_t i = 0; i < grid.size(); ++i) {
        if (!ok[i]) continue;
        // exact hits on grid nodes (meridional rays alp1 = 0, pi give lambda = 0 or pi exactly)
        if (ok[i] == 1 && fabs(g[i]) < (T)1e-15) add_root(grid[i], type, k, west, target);
        if (i + 1 < grid.size() && ok[i + 1] && !(ok[i] == 2 && ok[i + 1] == 2)) {
          if ((g[i] > 0) != (g[i + 1] > 0) && g[i] != 0 && g[i + 1] != 0) {
            T x = bisect(grid[i], g[i], grid[i + 1], g[i + 1], type, k, target);
            add_root(x, type, k, west, target);
          }
        }
        // tangential (near-double) zeros: local minimum of |g| without a sign change
        if (i > 0 && i + 1 < grid.size() && ok[i] == 1 && ok[i - 1] == 1 && ok[i + 1] == 1 && (g[i - 1] > 0) == (g[i] > 0) && (g[i + 1] > 0) == (g[i] > 0)
            && fabs(g[i]) <= fabs(g[i - 1]) && fabs(g[i]) <= fabs(g[i + 1]) && (fabs(g[i]) < fabs(g[i - 1]) || fabs(g[i]) < fabs(g[i + 1])) && fabs(g[i]) < (T)0.02) {
          T sgn = g[i] > 0 ? 1 : -1, lo = grid[i - 1], hi = grid[i + 1];
          const T gr = (T)0.6180339887498948482L;
          T x1 = hi - gr * (hi - lo), x2 = lo + gr * (hi - lo); bool o1, o2;
          T f1 = sgn * geval(x1, type, k, target, o1), f2 = sgn * geval(x2, type, k, target, o2);
          bool crossed = false; T xc = 0, fc = 0;
          for (int it = 0; it < 60 && o1 && o2; ++it) {
            if (f1 < 0) { crossed = true; xc = x1; fc = f1; break; }
            if (f2 < 0) { crossed = true; xc = x2; fc = f2; break; }
            if (f1 < f2) { hi = x2; x2 = x1; f2 = f1; x1 = hi - gr * (hi - lo); f1 = sgn * geval(x1, type, k, target, o1); }
            else { lo = x1; x1 = x2; f1 = f2; x2 = lo + gr * (hi - lo); f2 = sgn * geval(x2, type, k, target, o2); }
          }
          if (crossed) {
            T xa = bisect(grid[i - 1], g[i - 1], xc, sgn * fc, type, k, target); add_root(xa, type, k, west, target);
            T xb = bisect(xc, sgn * fc, grid[i + 1], g[i + 1], type, k, target); add_root(xb, type, k, west, target);
          } else if (o1 && o2) { add_root(f1 < f2 ? x1 : x2, type, k, west, target); }     // accepted only if |g| is tiny
        }
      }
      }
    }
  }
  // the equator itself is a geodesic when both points are on it (not representable as a crossing branch)
  if (sb1 == 0 && sb2 == 0) {
    T lam = fabs(L);
    if (lam > 0) { InvRoot<T> o; o.alp1 = PI / 2; o.type = 2; o.k = 0; o.west = L < 0; o.sig12 = lam / E.f1; o.s12 = E.a * lam; o.resid = 0; R.roots.push_back(o); }
  }
  // nearly equatorial pairs: meridian hop to the equator + equatorial arc + meridian hop is a joining PATH (not a
  // geodesic); its length is a rigorous upper bound of the shortest distance and complements the grazing rays
  if (std::fabs(la) < 1e-6 && std::fabs(lb) < 1e-6 && !(sb1 == 0 && sb2 == 0)) {
    T hop = (T)1.0001 * (sq(E.b) / E.a) * (T)(std::fabs(la) + std::fabs(lb)) * deg<T>();
    InvRoot<T> o; o.alp1 = PI / 2; o.type = 3; o.k = 0; o.west = L < 0; o.sig12 = fabs(L) / E.f1; o.s12 = E.a * fabs(L) + hop; o.resid = 0; R.roots.push_back(o);
  }
  // order by the upper bound  length + (longitude residual as a ground distance): exact roots come before loose ones
  { const T aa = E.a; std::sort(R.roots.begin(), R.roots.end(), [aa](const InvRoot<T>& x, const InvRoot<T>& y) { return x.s12 + x.resid * aa < y.s12 + y.resid * aa; }); }
  R.nroots = (int)R.roots.size();
  if (R.nroots) {
    R.smin = R.roots[0].s12 + R.roots[0].resid * E.a;
    // float128 stage.  Every candidate close to the least length is re-traced with the float128 reference geodesic
    // from the scan origin; two Newton steps in (azimuth, distance) remove the long double noise; the remaining
    // miss distance r is ADDED to the length:  d(p1,p2) <= s + r  is a rigorous upper bound of the true shortest
    // distance whatever the conditioning of the root was.
    // (Newton steps in long double; the final trace of the best candidate is repeated in float128.)
    typedef __float128 Q;
    int done = 0;
    T ubest = -1;                                   // least (length + possible along-track error of the long double root)
    for (auto& w : R.roots) { T u = w.s12 + w.resid * E.a; if (ubest < 0 || u < ubest) ubest = u; }
    T bestU = -1, bestazi = 0, bests = 0; bool bestnegz = false;
    T Xt[3]; to_xyz<T>(E, (T)lb, (T)l12, Xt);
    for (auto& w : R.roots) {
      if (w.s12 - w.resid * E.a > ubest + (T)1e-3 * (T)a / 6.4e6L) continue;
      if (bestU >= 0 && w.s12 - w.resid * E.a > bestU) continue;          // cannot improve on what has been confirmed already
      if (w.type >= 2) { if (bestU < 0 || w.s12 < bestU) { bestU = w.s12; bestazi = (w.west ? -90 : 90); bests = -1; } continue; }
      if (done >= 4) break;
      ++done;
      T azi = (w.alp1 / deg<T>()) * (w.west ? -1 : 1), s = w.s12;
      bool negz = w.west && w.alp1 == 0;
      for (int it = 0; it < 4; ++it) {
        GeodLine<T> Ll(E, (T)la, azi, negz);
        GeodPos<T> P = Ll.at_dist(s);
        T Xp[3], t[3], n[3]; to_xyz<T>(E, P.lat2, P.lon12, Xp);
        dir_xyz<T>(P.lat2, P.lon12, P.azi2, t); dir_xyz<T>(P.lat2, P.lon12, P.azi2 + 90, n);
        T rv[3] = {Xt[0] - Xp[0], Xt[1] - Xp[1], Xt[2] - Xp[2]};
        T r = sqrt(sq(rv[0]) + sq(rv[1]) + sq(rv[2]));
        T U = s + r;
        if (bestU < 0 || U < bestU) { bestU = U; bestazi = azi; bests = s; bestnegz = negz; }
        if (r < (T)1e-17 * (T)a) break;
        T rt = rv[0] * t[0] + rv[1] * t[1] + rv[2] * t[2], rn = rv[0] * n[0] + rv[1] * n[1] + rv[2] * n[2];
        s += rt;
        if (fabs(P.m12) > 1000 * fabs(rn)) azi += rn / P.m12 / deg<T>();
      }
    }
    if (bestU >= 0 && bests < 0) { R.smin_q = (Q)bestU; R.azi_origin_q = (Q)bestazi; }
    else if (bestU >= 0) {
      Ell<Q> Eq((Q)a, (Q)f);
      Q Xq[3], Xp[3]; to_xyz<Q>(Eq, (Q)lb, l12, Xq);
      GeodLine<Q> Lq(Eq, (Q)la, (Q)bestazi, bestnegz);
      GeodPos<Q> P = Lq.at_dist((Q)bests);
      to_xyz<Q>(Eq, P.lat2, P.lon12, Xp);
      R.smin_q = (Q)bests + dist3(Xq, Xp); R.azi_origin_q = (Q)bestazi;
    }
  }
  return R;
}

}  // namespace ref
