// Reference machinery for the INVERSE geodesic problem, built on oracle/ref_geod.hpp only (no
// GeographicLib code, no Newton-on-lambda12 in canonical form, no astroid start):
//
//   ref_inverse_scan  global shortest-path certificate.  The azimuth circle at the end point of
//                     larger |latitude| is scanned; for every ray every crossing of the parallel of
//                     the other point within `max_sig` (<= 3 pi = 1.5 circuits) is located in closed
//                     form on the auxiliary sphere and its longitude is computed by quadrature.  The
//                     zeros of  longitude(alp1) - target  on every crossing branch (bracketed by sign
//                     changes, plus tangential near-double zeros found by minimising |g|) are ALL the
//                     geodesics joining the two points; their lengths are computed and the least is
//                     returned.  Scanning is done in long double, the winner is polished in float128.
//                     A missed root can only make the certificate weaker (it never creates an alarm):
//                     the caller flags the library only if the scan finds a joining geodesic that is
//                     SHORTER than the library's.
//   chord             straight-line distance of two surface points (a lower bound of every path).
//
// Conventions: angles in degrees at the interface; lon12 = lon2 - lon1 (any real value; reduced here).
#pragma once
#include <algorithm>
#include <vector>
#include "oracle/ref_geod.hpp"

namespace ref {

template <class T> struct InvRoot {
  T alp1;          // azimuth (radians, in [0, pi]) at the scan origin, east-going representation
  int type, k;     // crossing branch: type 0 = northbound (cos sig2 > 0), 1 = southbound ; sig2 = th + 2 pi k  or  pi - th + 2 pi k
  bool west;       // true: the joining geodesic is the mirror image (heads west from the scan origin)
  T sig12;         // arc length on the auxiliary sphere (radians)
  T s12;           // length (metres)
  T resid;         // |longitude residual| at the root (radians)
};

template <class T> struct InvScan {
  bool swapped = false;          // scan origin is point 2 (the point of larger |lat|)
  int nroots = 0;
  std::vector<InvRoot<T>> roots; // all joining geodesics found (length-sorted)
  T smin = -1;                   // least length found (long double scan), -1 if none
  __float128 smin_q = -1;        // the same after float128 polishing
  __float128 azi_origin_q = 0;   // azimuth (deg, signed) of the shortest joining geodesic at the scan origin
  long evals = 0;
};

namespace invdetail {

// one ray from (bet1) with azimuth alp1 in [0,pi]: everything needed to evaluate crossing branches
template <class T> struct Ray {
  const Ell<T>* E; T sbet1, cbet1, sbet2, cbet2;
  T salp1, calp1, salp0, calp0, k2, ssig1, csig1, sig1, wmax;
  T th, cth;        // sin(th) = sbet2 / calp0 ; cth = cos(th) >= 0
  bool ok; int nq;
  Ray(const Ell<T>& E_, T sb1, T cb1, T sb2, T cb2, T alp1) : E(&E_), sbet1(sb1), cbet1(cb1), sbet2(sb2), cbet2(cb2) {
    salp1 = sin(alp1); calp1 = cos(alp1);
    if (alp1 == 0) { salp1 = 0; calp1 = 1; }
    if (alp1 == pi<T>()) { salp1 = 0; calp1 = -1; }
    salp0 = salp1 * cbet1; calp0 = hypot(calp1, salp1 * sbet1);
    k2 = E->ep2 * sq(calp0);
    ssig1 = sbet1; csig1 = calp1 * cbet1;
    ok = true;
    if (ssig1 == 0 && csig1 == 0) { ok = false; return; }     // exactly equatorial ray: handled separately by the caller
    { T h = hypot(ssig1, csig1); ssig1 /= h; csig1 /= h; }
    sig1 = atan2(ssig1, csig1);
    T d;
    if (k2 > 0) d = asinh(1 / sqrt(k2));
    else if (k2 < 0) { T ik = 1 / sqrt(-k2); d = ik > 1 ? acosh(ik) : (T)1e-3; }
    else d = 10;
    // Gauss-Legendre panels no wider than the distance d to the nearest singularity: Bernstein-ellipse parameter >= 4.2,
    // i.e. error <= 4.2^(-2 nq): 1e-20 for nq = 16 (long double), 1e-30 for nq = 24 (float128)
    const bool lowprec = eps_of<T>::v() > (T)1e-25;
    nq = lowprec ? 16 : 24;
    T wcap = lowprec ? pi<T>() / 4 : pi<T>() / 8;
    wmax = d < wcap ? d : wcap;
    if (wmax < (T)2e-4) wmax = (T)2e-4;
    // crossing of the parallel bet2: sin(sig2) = sbet2/calp0, cos(sig2) = +-sqrt(cbet2^2 - salp0^2)/calp0
    if (!(calp0 > 0)) { ok = false; return; }
    T s = sbet2 / calp0, c2 = (cbet2 - salp0) * (cbet2 + salp0);
    if (c2 < 0) c2 = 0;                                         // tangency (|bet2| = |bet1|, alp1 = pi/2) up to round-off
    T c = sqrt(c2) / calp0;
    { T h = hypot(s, c); if (h == 0) { ok = false; return; } s /= h; c /= h; }
    th = atan2(s, c); cth = c;
  }
  // arc from point 1 to the crossing (type, k); <= 0 if the crossing is not ahead of point 1
  T sig12_of(int type, int k) const { T sig2 = (type == 0 ? th : pi<T>() - th) + 2 * pi<T>() * k; return sig2 - sig1; }
  T domega(T ss, T cs) const { return atan2((salp0 - 1) * ss * cs, sq(cs) + salp0 * sq(ss)); }
  // longitude difference (radians, unrolled, >= 0 for this east-going representation) at the crossing
  T lam12(int type, int k) const {
    T s12 = sig12_of(type, k), sig2 = sig1 + s12;
    T ss2 = sin(th), cs2 = type == 0 ? cth : -cth;
    T kk = k2, f = E->f, f1 = E->f1;
    T I3 = integrate<T>([kk, f, f1](T s) { return (2 - f) / (1 + f1 * sqrt(1 + kk * sq(sin(s)))); }, sig1, sig2, wmax, nq);
    return s12 + (domega(ss2, cs2) - domega(ssig1, csig1)) - f * salp0 * I3;
  }
  T length(int type, int k) const {
    T s12 = sig12_of(type, k), kk = k2;
    return E->b * integrate<T>([kk](T s) { return sqrt(1 + kk * sq(sin(s))); }, sig1, sig1 + s12, wmax, nq);
  }
};

template <class T> inline T wrap_pi(T x) { return remainder(x, 2 * pi<T>()); }

}  // namespace invdetail

// straight-line (3-D) distance between two surface points
template <class T> inline T chord(const Ell<T>& E, T lat1, T lat2, T lon12) {
  T A[3], B[3]; to_xyz<T>(E, lat1, (T)0, A); to_xyz<T>(E, lat2, lon12, B); return dist3(A, B);
}

// Global scan.  slimit: only geodesics that could be shorter than slimit are of interest (prunes the
// crossing branches by  s >= min(a,b) * sig12);  pass a huge value to get everything within 1.5 circuits.
template <class T = long double>
inline InvScan<T> ref_inverse_scan(double a, double f, double lat1d, double lat2d, __float128 lon12q, double slimit, int nrays = 3600) {
  using namespace invdetail;
  InvScan<T> R;
  Ell<T> E((T)a, (T)f);
  // scan from the point of larger |latitude|: then every ray reaches the other parallel
  double la = lat1d, lb = lat2d;
  if (std::fabs(lat1d) < std::fabs(lat2d)) { R.swapped = true; std::swap(la, lb); }
  __float128 l12 = remainderq(lon12q, 360); if (R.swapped) l12 = -l12;
  auto redlat = [&](double lat, T& sb, T& cb) {
    T sp, cp; sincosd<T>((T)lat, sp, cp); sb = E.f1 * sp; cb = cp;
    if (cb == 0 || std::fabs(lat) == 90) cb = (T)1e-1000L;
    T h = hypot(sb, cb); sb /= h; cb /= h; };
  T sb1, cb1, sb2, cb2; redlat(la, sb1, cb1); redlat(lb, sb2, cb2);
  const T PI = pi<T>();
  T L = (T)(l12 * (M_PIq / 180));                 // target longitude difference in (-pi, pi]
  T minax = E.a < E.b ? E.a : E.b;
  T max_sig = (T)slimit / minax * (1 + (T)1e-9) + (T)1e-9;
  if (!(max_sig < 3 * PI)) max_sig = 3 * PI;
  const T min_sig = (T)1e-10;
  std::vector<T> grid; grid.reserve(nrays + 8);
  for (int i = 0; i <= nrays; ++i) grid.push_back(PI * i / nrays);
  // refine the grid near the meridional directions, where lambda(alp1) is steep for near-polar points
  for (int e = 1; e <= 12; ++e) { T d = PI / nrays * pow((T)0.1, e); grid.push_back(d); grid.push_back(PI - d); }
  std::sort(grid.begin(), grid.end());
  const int ntargets = (L == 0 || fabs(fabs(L) - PI) < (T)1e-30) ? 1 : 2;

  auto geval = [&](T alp1, int type, int k, T target, bool& ok) -> T {
    Ray<T> r(E, sb1, cb1, sb2, cb2, alp1); ++R.evals;
    if (!r.ok) { ok = false; return 0; }
    T s12 = r.sig12_of(type, k);
    if (!(s12 > min_sig && s12 <= max_sig)) { ok = false; return 0; }
    ok = true; return wrap_pi<T>(r.lam12(type, k) - target);
  };
  auto add_root = [&](T alp1, int type, int k, bool west, T target) {
    Ray<T> r(E, sb1, cb1, sb2, cb2, alp1);
    if (!r.ok) return;
    T s12 = r.sig12_of(type, k); if (!(s12 > min_sig)) return;
    T g = wrap_pi<T>(r.lam12(type, k) - target);
    if (!(fabs(g) < (T)1e-13)) return;             // not a zero (wrap discontinuity or branch end)
    for (auto& q : R.roots) if (q.type == type && q.k == k && q.west == west && fabs(q.alp1 - alp1) < (T)1e-15) return;
    InvRoot<T> o; o.alp1 = alp1; o.type = type; o.k = k; o.west = west; o.sig12 = s12; o.s12 = r.length(type, k); o.resid = fabs(g);
    R.roots.push_back(o);
  };
  auto bisect = [&](T lo, T glo, T hi, T ghi, int type, int k, T target) -> T {
    // Illinois-accelerated bisection on a bracket with opposite signs
    for (int it = 0; it < 200 && hi - lo > 2 * eps_of<T>::v() * (1 + hi); ++it) {
      T mid = (it & 1) ? lo + (hi - lo) / 2 : lo - glo * (hi - lo) / (ghi - glo);
      if (!(mid > lo && mid < hi)) mid = lo + (hi - lo) / 2;
      bool ok; T gm = geval(mid, type, k, target, ok);
      if (!ok) { mid = lo + (hi - lo) / 2; gm = geval(mid, type, k, target, ok); if (!ok) break; }
      if (gm == 0) return mid;
      if ((gm > 0) == (glo > 0)) { lo = mid; glo = gm; } else { hi = mid; ghi = gm; }
    }
    return fabs(glo) < fabs(ghi) ? lo : hi;
  };

  for (int tg = 0; tg < ntargets; ++tg) {
    bool west = tg == 1;
    T target = west ? -L : L;                      // east-going image must reach +-L (mod 2 pi)
    for (int type = 0; type < 2; ++type) for (int k = -1; k <= 2; ++k) {
      std::vector<T> g(grid.size()); std::vector<char> ok(grid.size());
      bool any = false;
      for (size_t i = 0; i < grid.size(); ++i) { bool o; g[i] = geval(grid[i], type, k, target, o); ok[i] = o; any |= o; }
      if (!any) continue;
      for (size_t i = 0; i < grid.size(); ++i) {
        if (!ok[i]) continue;
        // exact hits on grid nodes (meridional rays alp1 = 0, pi give lambda = 0 or pi exactly)
        if (fabs(g[i]) < (T)1e-15) add_root(grid[i], type, k, west, target);
        if (i + 1 < grid.size() && ok[i + 1]) {
          if ((g[i] > 0) != (g[i + 1] > 0) && g[i] != 0 && g[i + 1] != 0 && fabs(g[i]) < PI / 2 && fabs(g[i + 1]) < PI / 2) {
            T x = bisect(grid[i], g[i], grid[i + 1], g[i + 1], type, k, target);
            add_root(x, type, k, west, target);
          }
        }
        // tangential (near-double) zeros: local minimum of |g| without a sign change
        if (i > 0 && i + 1 < grid.size() && ok[i - 1] && ok[i + 1] && (g[i - 1] > 0) == (g[i] > 0) && (g[i + 1] > 0) == (g[i] > 0)
            && fabs(g[i]) <= fabs(g[i - 1]) && fabs(g[i]) <= fabs(g[i + 1]) && fabs(g[i]) < (T)0.02) {
          T sgn = g[i] > 0 ? 1 : -1, lo = grid[i - 1], hi = grid[i + 1];
          const T gr = (T)0.6180339887498948482L;
          T x1 = hi - gr * (hi - lo), x2 = lo + gr * (hi - lo); bool o1, o2;
          T f1 = sgn * geval(x1, type, k, target, o1), f2 = sgn * geval(x2, type, k, target, o2);
          bool crossed = false; T xc = 0, fc = 0;
          for (int it = 0; it < 60 && o1 && o2; ++it) {
            if (f1 < 0) { crossed = true; xc = x1; fc = f1; break; }
            if (f2 < 0) { crossed = true; xc = x2; fc = f2; break; }
            if (f1 < f2) { hi = x2; x2 = x1; f2 = f1; x1 = hi - gr * (hi - lo); f1 = sgn * geval(x1, type, k, target, o1); }
            else { lo = x1; x1 = x2; f1 = f2; x2 = lo + gr * (hi - lo); f2 = sgn * geval(x2, type, k, target, o2); }
          }
          if (crossed) {
            T xa = bisect(grid[i - 1], g[i - 1], xc, sgn * fc, type, k, target); add_root(xa, type, k, west, target);
            T xb = bisect(xc, sgn * fc, grid[i + 1], g[i + 1], type, k, target); add_root(xb, type, k, west, target);
          } else if (o1 && o2) { add_root(f1 < f2 ? x1 : x2, type, k, west, target); }     // accepted only if |g| < 1e-13
        }
      }
    }
  }
  // the equator itself is a geodesic when both points are on it (not representable as a crossing branch)
  if (sb1 == 0 && sb2 == 0) {
    T lam = fabs(L);
    if (lam > 0) { InvRoot<T> o; o.alp1 = PI / 2; o.type = 2; o.k = 0; o.west = L < 0; o.sig12 = lam / E.f1; o.s12 = E.a * lam; o.resid = 0; R.roots.push_back(o); }
  }
  std::sort(R.roots.begin(), R.roots.end(), [](const InvRoot<T>& x, const InvRoot<T>& y) { return x.s12 < y.s12; });
  R.nroots = (int)R.roots.size();
  if (R.nroots) {
    R.smin = R.roots[0].s12; R.smin_q = (__float128)R.smin;
    const InvRoot<T>& w = R.roots[0];
    R.azi_origin_q = (__float128)(w.alp1 / deg<T>()) * (w.west ? -1 : 1);
    if (w.type < 2) {
      // float128 polish of the winner: secant iterations on the same branch
      typedef __float128 Q;
      Ell<Q> Eq((Q)a, (Q)f);
      auto redq = [&](double lat, Q& sb, Q& cb) { Q sp, cp; sincosd<Q>((Q)lat, sp, cp); sb = Eq.f1 * sp; cb = cp;
        if (cb == 0 || std::fabs(lat) == 90) cb = (Q)1e-1000Q; Q h = hypot(sb, cb); sb /= h; cb /= h; };
      Q qb1, qc1, qb2, qc2; redq(la, qb1, qc1); redq(lb, qb2, qc2);
      Q tq = (w.west ? -1 : 1) * l12 * (M_PIq / 180);
      auto gq = [&](Q x) { Ray<Q> r(Eq, qb1, qc1, qb2, qc2, x); return r.ok ? wrap_pi<Q>(r.lam12(w.type, w.k) - tq) : (Q)0; };
      Q x0 = (Q)w.alp1, h = (Q)1e-12 * (1 + x0);
      bool interior = x0 > 2 * h && x0 < pi<Q>() - 2 * h;
      if (interior) {
        Q x1 = x0 + h, g0 = gq(x0), g1 = gq(x1);
        for (int it = 0; it < 4 && g1 != g0; ++it) {
          Q x2 = x1 - g1 * (x1 - x0) / (g1 - g0);
          if (!(fabs(x2 - (Q)w.alp1) < (Q)1e-9)) break;             // ill-conditioned (near-double root): keep the long double root
          x0 = x1; g0 = g1; x1 = x2; g1 = gq(x1);
          if (fabs(g1) < (Q)1e-30) break;
        }
        if (fabs(g1) <= fabs(gq((Q)w.alp1))) x0 = x1; else x0 = (Q)w.alp1;
      }
      Ray<Q> r(Eq, qb1, qc1, qb2, qc2, x0);
      if (r.ok) { R.smin_q = r.length(w.type, w.k); R.azi_origin_q = x0 / deg<Q>() * (w.west ? -1 : 1); }
    }
  }
  return R;
}

}  // namespace ref
