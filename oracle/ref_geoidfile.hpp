// oracle/ref_geoidfile.hpp — writer of synthetic geoid rasters (.pgm) with fault injection.
//
// Self-contained, header-only, no GeographicLib includes.  Written from the documented
// file format (doc section "geoidformat" + the netpbm PGM description):
//
//     P5\n
//     # free comment\n
//     # Description <text>\n  # DateTime <text>\n  # MaxBilinearError x\n ... (optional)
//     # Offset <real>\n       (required)
//     # Scale <real>\n        (required, > 0)
//     <width> <height>\n      (width even >= 2, height odd >= 3)
//     65535\n                 (maxval, followed by exactly ONE whitespace byte)
//     width*height pixels, 2 bytes each, BIG-endian, row 0 = latitude +90, column 0 =
//     longitude 0, rows go south by 180/(height-1), columns go east by 360/width.
//     height [m] = offset + scale * pixel
//
// ---------------------------------------------------------------------------- usage
//   #include "oracle/ref_geoidfile.hpp"
//   refgeoid::TmpDir dir;                       // creates /dev/shm/<pid>/ ; removed at exit
//   refgeoid::Raster r(8, 5);                   // width, height ; pixels all 0
//   r.offset = -108; r.scale = 0.003;
//   r.at(ix, iy) = 12345;                       // ix column (lon), iy row (0 = north pole)
//   std::string name = dir.write(r, "mygeoid"); // -> /dev/shm/<pid>/mygeoid.pgm, returns "mygeoid"
//   GeographicLib::Geoid g(name, dir.path(), /*cubic*/true, /*threadsafe*/false);
//   ...
//   dir.remove(name);                           // optional; everything goes at exit anyway
//
//   std::string bytes = refgeoid::serialize(r);             // the exact file image
//   std::string bytes = refgeoid::serialize(r, hdr);        // with a customised Header
//   dir.write_bytes(bytes, "bad1");                         // any byte string as bad1.pgm
//   for (const refgeoid::Fault& f : refgeoid::fault_catalogue(r)) { f.label, f.bytes, f.expect }
//        expect: REJECT (format violated: reader must refuse), ACCEPT (valid variant: must
//        load, and give offset/scale/pixels of r unless f.offset_override is set), EITHER
//        (outside what the documentation pins down: refuse or load, but nothing else).
//   refgeoid::truncations(bytes)  ->  every proper prefix length 0..size-1 (all REJECT)
//
// Pixel-field generators (fill_*) give the standard synthetic fields used by C20/C13/C14.
#pragma once
#include <cerrno>
#include <cmath>
#include <csignal>
#include <cstdint>
#include <cstdio>
#include <cstdlib>
#include <cstring>
#include <dirent.h>
#include <string>
#include <sys/stat.h>
#include <sys/types.h>
#include <unistd.h>
#include <vector>

namespace refgeoid {

struct Raster {
  int w = 0, h = 0;                 // width (columns, longitude), height (rows, latitude)
  double offset = 0, scale = 1;
  std::vector<uint16_t> pix;        // row-major, row 0 = +90 deg, column 0 = 0 deg E
  Raster() {}
  Raster(int w_, int h_) : w(w_), h(h_), pix((size_t)w_ * h_, 0) {}
  uint16_t& at(int ix, int iy) { return pix[(size_t)iy * w + ix]; }
  uint16_t at(int ix, int iy) const { return pix[(size_t)iy * w + ix]; }
};

// ------------------------------------------------------------------ header description
struct Header {
  std::string magic = "P5";
  std::string eol = "\n";
  std::vector<std::string> pre;          // comment lines before Offset/Scale (without eol)
  bool with_offset = true, with_scale = true;
  std::string offset_line, scale_line;   // if non-empty: the complete line used instead
  std::vector<std::string> post;         // comment lines after Offset/Scale
  std::string size_line;                 // if non-empty replaces "<w> <h>"
  std::string maxval = "65535";
  std::string after_maxval = "\n";       // the single whitespace byte
  bool scale_first = false;
  static Header standard() {
    Header h;
    h.pre = {"# Geoid file in PGM format for the GeographicLib::Geoid class",
             "# Description synthetic raster written by /verif/oracle/ref_geoidfile.hpp",
             "# URL https://example.invalid/synthetic",
             "# DateTime 2026-10-01 00:00:00",
             "# MaxBilinearError 0.140", "# RMSBilinearError 0.005",
             "# MaxCubicError 0.003", "# RMSCubicError 0.001"};
    h.post = {"# Origin 90N 0E", "# AREA_OR_POINT Point", "# Vertical_Datum WGS84"};
    return h;
  }
  static Header minimal() { return Header(); }
};

inline std::string fmt_real(double v) { char b[64]; std::snprintf(b, sizeof b, "%.17g", v); return b; }

inline std::string header_text(const Raster& r, const Header& H) {
  std::string s = H.magic + H.eol;
  for (auto& l : H.pre) s += l + H.eol;
  std::string ol = H.offset_line.empty() ? "# Offset " + fmt_real(r.offset) : H.offset_line;
  std::string sl = H.scale_line.empty() ? "# Scale " + fmt_real(r.scale) : H.scale_line;
  if (H.scale_first) { if (H.with_scale) s += sl + H.eol; if (H.with_offset) s += ol + H.eol; }
  else { if (H.with_offset) s += ol + H.eol; if (H.with_scale) s += sl + H.eol; }
  for (auto& l : H.post) s += l + H.eol;
  s += (H.size_line.empty() ? std::to_string(r.w) + " " + std::to_string(r.h) : H.size_line) + H.eol;
  s += H.maxval + H.after_maxval;
  return s;
}
inline std::string pixel_bytes(const Raster& r) {
  std::string s; s.resize(r.pix.size() * 2);
  for (size_t k = 0; k < r.pix.size(); ++k) { s[2 * k] = (char)(r.pix[k] >> 8); s[2 * k + 1] = (char)(r.pix[k] & 0xff); }
  return s;
}
inline std::string serialize(const Raster& r, const Header& H = Header::standard()) {
  return header_text(r, H) + pixel_bytes(r);
}

// ------------------------------------------------------------------ temp directory
// /dev/shm/<pid>/ ; removed (with everything in it) at normal exit.  Directories left
// behind by killed/aborted processes (sanitizer abort, watchdog _exit) are reaped by the
// next TmpDir that starts: a numeric directory under /dev/shm whose pid is dead and which
// contains the marker file ".refgeoid" is deleted.
class TmpDir {
  std::string path_;
  static void rmtree(const std::string& p) {
    DIR* d = opendir(p.c_str());
    if (d) {
      while (dirent* e = readdir(d)) {
        std::string n = e->d_name; if (n == "." || n == "..") continue;
        std::string q = p + "/" + n; struct stat st;
        if (lstat(q.c_str(), &st) == 0 && S_ISDIR(st.st_mode)) rmtree(q); else ::unlink(q.c_str());
      }
      closedir(d);
    }
    ::rmdir(p.c_str());
  }
  static std::string& registered() { static std::string s; return s; }
  static void at_exit() { if (!registered().empty()) rmtree(registered()); }
  static void reap_stale(const std::string& base) {
    DIR* d = opendir(base.c_str()); if (!d) return;
    std::vector<std::string> dead;
    while (dirent* e = readdir(d)) {
      char* end; long pid = std::strtol(e->d_name, &end, 10);
      if (*end || pid <= 1 || pid == (long)getpid()) continue;
      if (kill((pid_t)pid, 0) == 0 || errno != ESRCH) continue;
      std::string p = base + "/" + e->d_name;
      if (access((p + "/.refgeoid").c_str(), F_OK) == 0) dead.push_back(p);
    }
    closedir(d);
    for (auto& p : dead) rmtree(p);
  }
public:
  explicit TmpDir(const std::string& base = "/dev/shm") {
    reap_stale(base);
    path_ = base + "/" + std::to_string((long)getpid());
    if (mkdir(path_.c_str(), 0700) != 0 && errno != EEXIST) { std::perror(("mkdir " + path_).c_str()); std::exit(2); }
    FILE* f = std::fopen((path_ + "/.refgeoid").c_str(), "w"); if (f) std::fclose(f);
    if (registered().empty()) { registered() = path_; std::atexit(at_exit); }
  }
  const std::string& path() const { return path_; }
  std::string file(const std::string& name) const { return path_ + "/" + name + ".pgm"; }
  // returns name (to be passed to the Geoid constructor together with path())
  std::string write_bytes(const std::string& bytes, const std::string& name) const {
    std::string p = file(name);
    FILE* f = std::fopen(p.c_str(), "wb");
    if (!f) { std::perror(("fopen " + p).c_str()); std::exit(2); }
    if (!bytes.empty() && std::fwrite(bytes.data(), 1, bytes.size(), f) != bytes.size()) { std::perror("fwrite"); std::exit(2); }
    std::fclose(f);
    return name;
  }
  std::string write(const Raster& r, const std::string& name, const Header& H = Header::standard()) const {
    return write_bytes(serialize(r, H), name);
  }
  void remove(const std::string& name) const { ::unlink(file(name).c_str()); }
  void truncate_file(const std::string& name, size_t len) const { if (::truncate(file(name).c_str(), (off_t)len) != 0) std::perror("truncate"); }
  void make_directory_instead(const std::string& name) const { ::mkdir(file(name).c_str(), 0700); }
  void remove_directory(const std::string& name) const { ::rmdir(file(name).c_str()); }
};

// ------------------------------------------------------------------ pixel fields
// rnd: any callable returning uint64_t
template <class R> void fill_random(Raster& r, R&& rnd) { for (auto& p : r.pix) p = (uint16_t)(rnd() & 0xffff); }
inline void fill_constant(Raster& r, uint16_t v) { for (auto& p : r.pix) p = v; }
inline void fill_spike(Raster& r, int ix, int iy, uint16_t base, uint16_t spike) { fill_constant(r, base); r.at(ix, iy) = spike; }
inline void fill_checker(Raster& r, bool phase) {
  for (int j = 0; j < r.h; ++j) for (int i = 0; i < r.w; ++i) r.at(i, j) = ((i + j + (phase ? 1 : 0)) & 1) ? 65535 : 0;
}
// smooth random field: pole rows single-valued (as a real geoid is), moderate gradients
template <class R> void fill_smooth(Raster& r, R&& rnd) {
  double a[6]; for (double& v : a) v = (double)(rnd() % 2001) / 1000.0 - 1.0;
  const double pi = 3.14159265358979323846;
  for (int j = 0; j < r.h; ++j) for (int i = 0; i < r.w; ++i) {
    double th = pi * j / (r.h - 1), la = 2 * pi * i / r.w, s = std::sin(th);
    double v = 32768 + 9000 * a[0] * std::cos(th) + 7000 * s * (a[1] * std::cos(la) + a[2] * std::sin(la)) +
               5000 * s * s * (a[3] * std::cos(2 * la) + a[4] * std::sin(2 * la)) + 3000 * a[5] * std::cos(3 * th);
    r.at(i, j) = (uint16_t)std::lround(std::fmin(65535.0, std::fmax(0.0, v)));
  }
}
// integer polynomial field  p(i,j) = sum c[a][b] (i-i0)^a (j-j0)^b ; returns false for a pixel
// if it had to be clamped (valid[] marks unclamped pixels)
inline void fill_poly(Raster& r, const long long c[4][4], int i0, int j0, std::vector<char>& valid) {
  valid.assign(r.pix.size(), 1);
  for (int j = 0; j < r.h; ++j) for (int i = 0; i < r.w; ++i) {
    long long x = i - i0, y = j - j0, v = 0, xp = 1;
    for (int a = 0; a < 4; ++a, xp *= x) { long long yp = 1; for (int b = 0; b < 4; ++b, yp *= y) v += c[a][b] * xp * yp; }
    if (v < 0 || v > 65535) { valid[(size_t)j * r.w + i] = 0; v = v < 0 ? 0 : 65535; }
    r.at(i, j) = (uint16_t)v;
  }
}

// ------------------------------------------------------------------ fault injection
enum Expect { REJECT = 0, ACCEPT = 1, EITHER = 2 };
struct Fault {
  std::string label; std::string bytes; Expect expect;
  bool has_override = false; double offset_override = 0, scale_override = 0;  // for ACCEPT variants that change them
};

inline std::vector<size_t> truncations(const std::string& bytes) {
  std::vector<size_t> v; for (size_t k = 0; k < bytes.size(); ++k) v.push_back(k); return v;
}

inline std::vector<Fault> fault_catalogue(const Raster& r) {
  std::vector<Fault> F;
  const Header S = Header::standard();
  auto add = [&](const std::string& label, const Header& H, Expect e) { F.push_back(Fault{label, serialize(r, H), e}); };
  auto addb = [&](const std::string& label, const std::string& b, Expect e) { F.push_back(Fault{label, b, e}); };
  auto addo = [&](const std::string& label, const Header& H, double off, double sc) {
    Fault f{label, serialize(r, H), ACCEPT}; f.has_override = true; f.offset_override = off; f.scale_override = sc; F.push_back(f); };
  std::string W = std::to_string(r.w), Hh = std::to_string(r.h);
  // --- valid variants
  add("valid/standard", S, ACCEPT);
  add("valid/minimal-header", Header::minimal(), ACCEPT);
  { Header h = S; h.scale_first = true; add("valid/scale-before-offset", h, ACCEPT); }
  { Header h = S; h.pre.clear(); add("valid/no-description-no-errors", h, ACCEPT); }
  { Header h = S; h.pre = {"#", "# ", "#   ", "# Description", "# Description ", "# DateTime", "#\t", "##", "# #"}; add("valid/empty-comment-values", h, ACCEPT); }
  { Header h = S; h.pre.push_back(""); h.pre.push_back(""); h.post.push_back(""); add("valid/blank-lines-in-header", h, ACCEPT); }
  { Header h = S; h.pre.push_back("# MaxBilinearError notanumber"); h.pre.push_back("# RMSCubicError"); h.pre.push_back("# MaxCubicError 1e999"); add("valid/unreadable-error-estimates", h, ACCEPT); }
  { Header h = S; h.pre.push_back("# Description " + std::string(20000, 'x')); add("valid/20kB-description", h, ACCEPT); }
  { Header h = S; h.pre.push_back(std::string("# Description bin\x01\x02\xff\xfe\x7f") + std::string(1, '\0') + "tail"); add("valid/binary-bytes-in-description", h, ACCEPT); }
  { Header h = S; h.offset_line = "#\tOffset\t" + fmt_real(r.offset); h.scale_line = "#   Scale     " + fmt_real(r.scale) + "   "; add("valid/tabs-and-spaces", h, ACCEPT); }
  { Header h = S; h.offset_line = "# Offset " + fmt_real(r.offset) + " metres"; h.scale_line = "# Scale " + fmt_real(r.scale) + " m/count"; add("valid/trailing-text-after-number", h, ACCEPT); }
  { Header h = S; h.pre.push_back("#Offset 424242"); h.pre.push_back("#Scale 17"); add("valid/unspaced-#Offset-is-plain-comment", h, ACCEPT); }
  { Header h = S; h.pre.push_back("# offset 424242"); h.pre.push_back("# SCALE 17"); h.pre.push_back("# Offsets 3"); add("valid/other-case-keys-are-plain-comments", h, ACCEPT); }
  { Header h = S; h.size_line = "  " + W + "   " + Hh + "  "; add("valid/size-line-extra-blanks", h, ACCEPT); }
  { Header h = S; h.size_line = W + "\t" + Hh; add("valid/size-line-tab", h, ACCEPT); }
  { Header h = S; h.after_maxval = " "; add("valid/space-after-maxval", h, ACCEPT); }
  { Header h = S; h.after_maxval = "\t"; add("valid/tab-after-maxval", h, ACCEPT); }
  { Header h = S; h.maxval = "  65535"; add("valid/blanks-before-maxval", h, ACCEPT); }
  { Header h = S; h.maxval = "\n\n65535"; add("valid/blank-lines-before-maxval", h, ACCEPT); }
  { Header h = S; h.offset_line = "# Offset -1.5e2"; h.scale_line = "# Scale 2.5E-1"; addo("valid/exponent-notation", h, -150.0, 0.25); }
  { Header h = S; h.offset_line = "# Offset +7"; h.scale_line = "# Scale +.5"; addo("valid/plus-sign-and-bare-fraction", h, 7.0, 0.5); }
  { Header h = S; h.offset_line = "# Offset -0"; h.scale_line = "# Scale 1"; addo("valid/minus-zero-offset", h, -0.0, 1.0); }
  { Header h = S; h.pre.push_back("# Offset 1"); h.pre.push_back("# Scale 9"); add("either/duplicate-offset-scale-last-wins?", h, EITHER); }
  // --- outside what the documentation pins down
  { Header h = S; h.eol = "\r\n"; add("either/crlf-line-ends", h, EITHER); }
  { Header h = S; h.size_line = W + "\n" + Hh; add("either/width-height-on-separate-lines(valid-netpbm)", h, EITHER); }
  { Header h = S; h.size_line = W + " " + Hh + "\n# comment before maxval"; add("either/comment-between-size-and-maxval(valid-netpbm)", h, EITHER); }
  { Header h = S; h.size_line = W + " " + Hh + " 65535"; h.maxval = ""; h.after_maxval = ""; add("either/maxval-on-size-line(valid-netpbm)", h, EITHER); }
  { Header h = S; h.size_line = W + " " + Hh + ".5"; add("either/height-with-fraction", h, EITHER); }
  { Header h = S; h.size_line = W + " " + Hh + " junk"; add("either/junk-after-size", h, EITHER); }
  { Header h = S; h.offset_line = "# Offset nan"; add("either/offset-nan", h, EITHER); }
  { Header h = S; h.offset_line = "# Offset inf"; add("either/offset-inf", h, EITHER); }
  { Header h = S; h.offset_line = "# Offset 1e999"; add("either/offset-overflow", h, EITHER); }
  { Header h = S; h.scale_line = "# Scale 1e-999"; add("either/scale-underflow", h, EITHER); }
  { Header h = S; h.scale_line = "# Scale inf"; add("either/scale-inf", h, EITHER); }
  { Header h = S; h.scale_line = "# Scale nan"; add("either/scale-nan", h, EITHER); }
  { Header h = S; h.offset_line = "# Offset 0x10"; add("either/offset-hex", h, EITHER); }
  { Header h = S; h.offset_line = "# Offset 5e"; add("either/offset-dangling-exponent", h, EITHER); }
  { Header h = S; h.offset_line = "# Offset 1.7976931348623157e308"; add("either/offset-dbl-max", h, EITHER); }
  { Header h = S; h.maxval = "+65535"; add("either/maxval-plus-sign", h, EITHER); }
  { Header h = S; h.maxval = "065535"; add("either/maxval-leading-zero", h, EITHER); }
  addb("either/second-image-appended", serialize(r, S) + serialize(r, S), EITHER);
  { Header h = S; h.after_maxval = "x"; add("either/nonblank-byte-after-maxval", h, EITHER); }
  // --- format violations: magic
  for (const char* m : {"P2", "P6", "P4", "P1", "p5", "P5 ", " P5", "P55", "P", "", "5P", "P5#", "\x89PNG"}) {
    Header h = S; h.magic = m; add(std::string("reject/magic/'") + m + "'", h, REJECT); }
  // --- Offset / Scale
  { Header h = S; h.with_offset = false; add("reject/offset-missing", h, REJECT); }
  { Header h = S; h.with_scale = false; add("reject/scale-missing", h, REJECT); }
  { Header h = S; h.with_offset = h.with_scale = false; add("reject/offset-and-scale-missing", h, REJECT); }
  { Header h = Header::minimal(); h.with_offset = false; add("reject/minimal/offset-missing", h, REJECT); }
  { Header h = Header::minimal(); h.with_scale = false; add("reject/minimal/scale-missing", h, REJECT); }
  { Header h = S; h.offset_line = "# Offset"; add("reject/offset-no-value", h, REJECT); }
  { Header h = S; h.offset_line = "# Offset abc"; add("reject/offset-not-a-number", h, REJECT); }
  { Header h = S; h.offset_line = "# Offset -"; add("reject/offset-bare-sign", h, REJECT); }
  { Header h = S; h.offset_line = "# Offset ,5"; add("reject/offset-comma", h, REJECT); }
  { Header h = S; h.scale_line = "# Scale"; add("reject/scale-no-value", h, REJECT); }
  { Header h = S; h.scale_line = "# Scale abc"; add("reject/scale-not-a-number", h, REJECT); }
  { Header h = S; h.scale_line = "# Scale 0"; add("reject/scale-zero", h, REJECT); }
  { Header h = S; h.scale_line = "# Scale 0.0e5"; add("reject/scale-zero-exp", h, REJECT); }
  { Header h = S; h.scale_line = "# Scale -0.003"; add("reject/scale-negative", h, REJECT); }
  { Header h = S; h.scale_line = "# Scale -1e-300"; add("reject/scale-tiny-negative", h, REJECT); }
  { Header h = S; h.offset_line = "#Offset " + fmt_real(r.offset); add("reject/offset-only-as-unspaced-comment", h, REJECT); }
  { Header h = S; h.scale_line = "#Scale " + fmt_real(r.scale); add("reject/scale-only-as-unspaced-comment", h, REJECT); }
  { Header h = S; h.offset_line = "# offset " + fmt_real(r.offset); add("reject/offset-key-lower-case-only", h, REJECT); }
  { Header h = S; h.offset_line = "Offset " + fmt_real(r.offset); add("reject/offset-line-without-#", h, REJECT); }
  { Header h = S; h.with_offset = h.with_scale = false;   // Offset/Scale only AFTER the size line = inside the pixel data
    h.size_line = W + " " + Hh + "\n# Offset 1\n# Scale 1"; add("reject/offset-scale-after-size-line", h, REJECT); }
  // --- raster size
  struct SZ { const char* label; std::string line; };
  int w = r.w, hh = r.h;
  std::vector<SZ> sizes = {
    {"zero-zero", "0 0"}, {"zero-width", "0 " + Hh}, {"zero-height", W + " 0"}, {"width-1", "1 " + Hh}, {"height-1", W + " 1"},
    {"height-2", W + " 2"}, {"odd-width-minus1", std::to_string(w - 1) + " " + Hh}, {"odd-width-plus1", std::to_string(w + 1) + " " + Hh},
    {"even-height-minus1", W + " " + std::to_string(hh - 1)}, {"even-height-plus1", W + " " + std::to_string(hh + 1)},
    {"width-plus2", std::to_string(w + 2) + " " + Hh}, {"width-minus2", std::to_string(w - 2) + " " + Hh},
    {"height-plus2", W + " " + std::to_string(hh + 2)}, {"height-minus2", W + " " + std::to_string(hh - 2)},
    {"swapped", Hh + " " + W}, {"negative-width", "-" + W + " " + Hh}, {"negative-height", W + " -" + Hh},
    {"both-negative", "-" + W + " -" + Hh}, {"only-width", W}, {"empty-after-comments", " "}, {"words", "abc def"},
    {"width-word", "abc " + Hh}, {"height-word", W + " def"}, {"fraction-width", W + ".0 " + Hh}, {"comma", W + "," + Hh},
    {"x-separator", W + "x" + Hh}, {"width-overflows-int", "99999999999 " + Hh}, {"height-overflows-int", W + " 99999999999"},
    {"width-int-max-even", "2147483646 " + Hh}, {"height-int-max", W + " 2147483647"}, {"65536x65537", "65536 65537"},
    {"2^31-wraps", "4294967298 3"}, {"size-huge-product", "2147483646 2147483647"}, {"hex", "0x8 0x5"},
    {"huge-digits", std::string(400, '9') + " 3"},
  };
  for (auto& s : sizes) { Header h = S; h.size_line = s.line; add(std::string("reject/size/") + s.label, h, REJECT); }
  // a size whose byte count matches although (w,h) is illegal: odd width / even height with matching data
  { Raster q(3, 3); q.offset = r.offset; q.scale = r.scale; add("reject/size/3x3-consistent-data", S, REJECT); F.back().bytes = serialize(q, S); }
  { Raster q(4, 4); q.offset = r.offset; q.scale = r.scale; F.push_back(Fault{"reject/size/4x4-consistent-data", serialize(q, S), REJECT}); }
  { Raster q(2, 2); q.offset = r.offset; q.scale = r.scale; F.push_back(Fault{"reject/size/2x2-consistent-data", serialize(q, S), REJECT}); }
  { Raster q(1, 3); q.offset = r.offset; q.scale = r.scale; F.push_back(Fault{"reject/size/1x3-consistent-data", serialize(q, S), REJECT}); }
  { Raster q(2, 1); q.offset = r.offset; q.scale = r.scale; F.push_back(Fault{"reject/size/2x1-consistent-data", serialize(q, S), REJECT}); }
  { Raster q(0, 3); q.offset = r.offset; q.scale = r.scale; F.push_back(Fault{"reject/size/0x3-consistent-data", serialize(q, S), REJECT}); }
  { Raster q(0, 0); q.offset = r.offset; q.scale = r.scale; F.push_back(Fault{"reject/size/0x0-consistent-data", serialize(q, S), REJECT}); }
  // --- maxval
  for (const char* m : {"255", "65534", "65536", "0", "1", "-1", "-65535", "abc", "", "4294967295", "4295032831", "6553", "655350",
                        "65535.0", "65535x", "0xffff", "18446744073709617151"}) {
    Header h = S; h.maxval = m; add(std::string("reject/maxval/'") + m + "'", h, REJECT); }
  { Header h = S; h.maxval = "255"; Fault f{"reject/maxval/255-with-8bit-data", header_text(r, h) + std::string((size_t)r.w * r.h, '\x7f'), REJECT}; F.push_back(f); }
  { Header h = S; h.after_maxval = ""; add("reject/no-whitespace-after-maxval", h, REJECT); }
  { Header h = S; h.after_maxval = "\n\n"; add("reject/two-whitespace-after-maxval", h, REJECT); }
  { Header h = S; h.after_maxval = " \n"; add("reject/blank-newline-after-maxval", h, REJECT); }
  // --- data length
  std::string good = serialize(r, S);
  addb("reject/length/one-byte-short", good.substr(0, good.size() - 1), REJECT);
  addb("reject/length/one-pixel-short", good.substr(0, good.size() - 2), REJECT);
  addb("reject/length/one-row-short", good.substr(0, good.size() - 2 * (size_t)r.w), REJECT);
  addb("reject/length/one-byte-long", good + "\n", REJECT);
  addb("reject/length/one-pixel-long", good + std::string(2, '\0'), REJECT);
  addb("reject/length/one-row-long", good + std::string(2 * (size_t)r.w, '\0'), REJECT);
  addb("reject/length/header-only", header_text(r, S), REJECT);
  addb("reject/length/half-data", good.substr(0, good.size() - (size_t)r.w * r.h), REJECT);
  addb("reject/empty-file", "", REJECT);
  addb("reject/only-magic", "P5\n", REJECT);
  addb("reject/only-magic-no-eol", "P5", REJECT);
  addb("reject/only-comments", "P5\n# Offset 1\n# Scale 1\n", REJECT);
  addb("reject/zeros-4k", std::string(4096, '\0'), REJECT);
  addb("reject/ascii-P2-image", "P2\n# Offset 0\n# Scale 1\n2 3\n65535\n1 2\n3 4\n5 6\n", REJECT);
  return F;
}

}  // namespace refgeoid
