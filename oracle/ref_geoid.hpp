// oracle/ref_geoid.hpp — reference model of geoid-height interpolation on a global raster.
// No GeographicLib code, headers or tables.  Everything is derived from the *documented
// description* (doc sections "geoidformat"/"geoidinterp" and the prose/Maxima recipe in the
// comments of Geoid.cpp):
//
//  * grid: pixel (ix,iy) sits at lon = ix*360/w, lat = 90 - iy*180/(h-1); w even, h odd;
//    height = offset + scale * (interpolated pixel value); longitude is periodic; a row
//    "beyond" a pole is the row at the same distance on the other side of the pole, i.e.
//    on the meridian lon+180 (this is why w must be even).
//  * bilinear: the 4 corners of the enclosing cell.
//  * cubic: the polynomial sum_{a+b<=3} c_ab x^a y^b (x east, y south, cell = [0,1]^2)
//    minimising  sum_k w_k (p(x_k,y_k) - v_k)^2  over the 12-point stencil with weights
//          . 1 1 .
//          1 2 2 1        (x = -1..2 left to right, y = -1..2 top to bottom)
//          1 2 2 1
//          . 1 1 .
//    In the cell row touching the N pole the terms x, x^2, x^3 are removed from the basis
//    ("independent of longitude at the pole", y = 0); in the row touching the S pole the
//    same construction is applied in y' = 1 - y (independent of longitude at y = 1).
//    The three 12x10 transfer matrices are obtained at start-up by solving the weighted
//    normal equations in exact rationals (Boost cpp_rational) — they are NOT copied from
//    the library.  They turn out to have common denominators 240, 372, 372.
//
// Evaluation is in T = long double (default) or __float128; the polynomial coefficients
// are formed from exact integer sums (pixel * integer matrix entry) / denominator, so the
// reference carries one rounding per coefficient plus a 10-term sum: relative error
// ~1e-18 (long double), 2000 times below double round-off.
#pragma once
#include <boost/multiprecision/cpp_int.hpp>
#include <quadmath.h>
#include <cmath>
#include <cstdint>
#include <stdexcept>
#include <string>
#include <vector>

namespace refgeoid {

typedef boost::multiprecision::cpp_rational Rat;
typedef boost::multiprecision::cpp_int BigInt;

struct CubicFit {
  static const int NS = 12, NT = 10;
  int sx[NS], sy[NS], sw[NS];            // stencil offsets and weights, row-major order
  int pa[NT], pb[NT];                    // monomial exponents (x^pa y^pb)
  Rat M[3][NS][NT];                      // [variant 0 interior, 1 north, 2 south][stencil][monomial]
  long long I[3][NS][NT]; long long den[3];   // integer form: M = I / den
  bool ok = false; std::string err;

  static Rat ipow(const Rat& x, int n) { Rat r = 1; for (int i = 0; i < n; ++i) r *= x; return r; }

  // weighted least squares: basis functions phi_i given by their values at the stencil
  // points, P[i][k]; returns C[i][k] with  coefficient_i = sum_k C[i][k] v_k
  static bool wls(const std::vector<std::vector<Rat>>& P, const int* w, std::vector<std::vector<Rat>>& C) {
    int n = (int)P.size();
    std::vector<std::vector<Rat>> A(n, std::vector<Rat>(n + NS));
    for (int i = 0; i < n; ++i) {
      for (int j = 0; j < n; ++j) { Rat s = 0; for (int k = 0; k < NS; ++k) s += w[k] * P[i][k] * P[j][k]; A[i][j] = s; }
      for (int k = 0; k < NS; ++k) A[i][n + k] = w[k] * P[i][k];
    }
    for (int c = 0; c < n; ++c) {                  // Gauss-Jordan, exact
      int p = -1; for (int r = c; r < n; ++r) if (A[r][c] != 0) { p = r; break; }
      if (p < 0) return false;                     // singular: description does not determine the fit
      std::swap(A[p], A[c]);
      Rat d = A[c][c]; for (auto& e : A[c]) e /= d;
      for (int r = 0; r < n; ++r) if (r != c && A[r][c] != 0) { Rat f = A[r][c]; for (int j = 0; j < n + NS; ++j) A[r][j] -= f * A[c][j]; }
    }
    C.assign(n, std::vector<Rat>(NS));
    for (int i = 0; i < n; ++i) for (int k = 0; k < NS; ++k) C[i][k] = A[i][n + k];
    return true;
  }

  CubicFit() {
    static const int W[4][4] = {{0, 1, 1, 0}, {1, 2, 2, 1}, {1, 2, 2, 1}, {0, 1, 1, 0}};
    int k = 0;
    for (int y = -1; y <= 2; ++y) for (int x = -1; x <= 2; ++x) if (W[y + 1][x + 1]) { sx[k] = x; sy[k] = y; sw[k] = W[y + 1][x + 1]; ++k; }
    if (k != NS) { err = "stencil"; return; }
    int t = 0;
    for (int deg = 0; deg <= 3; ++deg) for (int b = 0; b <= deg; ++b) { pa[t] = deg - b; pb[t] = b; ++t; }
    auto mono = [&](int a, int b) { for (int i = 0; i < NT; ++i) if (pa[i] == a && pb[i] == b) return i; return -1; };
    for (int v = 0; v < 3; ++v) {
      for (int kk = 0; kk < NS; ++kk) for (int i = 0; i < NT; ++i) M[v][kk][i] = 0;
      std::vector<int> idx;                       // monomials kept in this variant
      for (int i = 0; i < NT; ++i) if (v == 0 || !(pa[i] > 0 && pb[i] == 0)) idx.push_back(i);
      std::vector<std::vector<Rat>> P(idx.size(), std::vector<Rat>(NS)), C;
      for (size_t i = 0; i < idx.size(); ++i) for (int kk = 0; kk < NS; ++kk) {
        Rat x = sx[kk], y = (v == 2) ? Rat(1 - sy[kk]) : Rat(sy[kk]);
        P[i][kk] = ipow(x, pa[idx[i]]) * ipow(y, pb[idx[i]]);
      }
      if (!wls(P, sw, C)) { err = "singular normal equations, variant " + std::to_string(v); return; }
      for (size_t i = 0; i < idx.size(); ++i) for (int kk = 0; kk < NS; ++kk) {
        int a = pa[idx[i]], b = pb[idx[i]];
        if (v != 2) M[v][kk][idx[i]] += C[i][kk];
        else {                                     // x^a (1-y)^b = sum_m binom(b,m) (-1)^m x^a y^m
          long long bin = 1;
          for (int m = 0; m <= b; ++m) { M[v][kk][mono(a, m)] += C[i][kk] * ((m & 1) ? -bin : bin); bin = bin * (b - m) / (m + 1); }
        }
      }
      BigInt L = 1;
      for (int kk = 0; kk < NS; ++kk) for (int i = 0; i < NT; ++i) {
        BigInt d = boost::multiprecision::denominator(M[v][kk][i]); L = boost::multiprecision::lcm(L, d); }
      den[v] = L.convert_to<long long>();
      for (int kk = 0; kk < NS; ++kk) for (int i = 0; i < NT; ++i) {
        Rat q = M[v][kk][i] * Rat(L);
        I[v][kk][i] = boost::multiprecision::numerator(q).convert_to<long long>();
      }
    }
    ok = true;
  }

  // exact self tests of the derived matrices; returns "" or a description of the failure
  std::string selftest() const {
    if (!ok) return "derivation failed: " + err;
    // (1) interior: any cubic polynomial sampled on the stencil is reproduced exactly;
    // (2) north: every basis function with no pure-x term is reproduced, fitted polynomial has no pure-x term;
    // (3) south: same in y' = 1-y: the fitted polynomial is independent of x at y = 1;
    // (4) the fit is a stationary point of the weighted residual (normal equations) for unit impulses.
    for (int v = 0; v < 3; ++v) {
      for (int i = 0; i < NT; ++i) {
        bool kept = v == 0 || !(pa[i] > 0 && pb[i] == 0);
        if (!kept) continue;
        // field f = x^a y'^b on the stencil  (y' = y, or 1-y for south)
        Rat coef[NT]; for (auto& c : coef) c = 0;
        for (int k = 0; k < NS; ++k) {
          Rat yy = v == 2 ? Rat(1 - sy[k]) : Rat(sy[k]);
          Rat f = ipow(Rat(sx[k]), pa[i]) * ipow(yy, pb[i]);
          for (int j = 0; j < NT; ++j) coef[j] += M[v][k][j] * f;
        }
        // compare polynomials at 16 points of a 4x4 grid (degree <= 3 in each variable: enough)
        for (int gx = 0; gx < 4; ++gx) for (int gy = 0; gy < 4; ++gy) {
          Rat x = Rat(gx) / 3, y = Rat(gy) / 3, p = 0;
          for (int j = 0; j < NT; ++j) p += coef[j] * ipow(x, pa[j]) * ipow(y, pb[j]);
          Rat yy = v == 2 ? Rat(1) - y : y;
          if (p != ipow(x, pa[i]) * ipow(yy, pb[i])) return "variant " + std::to_string(v) + " does not reproduce basis function " + std::to_string(i);
        }
      }
      if (v > 0) for (int k = 0; k < NS; ++k) {   // independence of x on the polar edge
        Rat yedge = v == 1 ? 0 : 1;
        Rat p0 = 0, p1 = 0, p2 = 0;
        for (int j = 0; j < NT; ++j) { Rat yb = ipow(yedge, pb[j]);
          p0 += M[v][k][j] * ipow(Rat(0), pa[j]) * yb; p1 += M[v][k][j] * ipow(Rat(1) / 2, pa[j]) * yb; p2 += M[v][k][j] * yb; }
        if (p0 != p1 || p1 != p2) return "polar variant depends on x at the pole";
      }
      // stationarity for impulses: sum_k w_k (p(x_k,y_k) - delta_kj) phi_i(x_k,y_k) = 0 for kept phi_i
      for (int j = 0; j < NS; ++j) for (int i = 0; i < NT; ++i) {
        bool kept = v == 0 || !(pa[i] > 0 && pb[i] == 0);
        if (!kept) continue;
        Rat s = 0;
        for (int k = 0; k < NS; ++k) {
          Rat p = 0; for (int m = 0; m < NT; ++m) p += M[v][j][m] * ipow(Rat(sx[k]), pa[m]) * ipow(Rat(sy[k]), pb[m]);
          Rat yy = v == 2 ? Rat(1 - sy[k]) : Rat(sy[k]);
          s += sw[k] * (p - (k == j ? 1 : 0)) * ipow(Rat(sx[k]), pa[i]) * ipow(yy, pb[i]);
        }
        if (s != 0) return "normal equations not satisfied";
      }
    }
    return "";
  }
};

inline const CubicFit& cubicfit() { static const CubicFit f; return f; }

// ---------------------------------------------------------------------------------------
template <class T> struct Num;
template <> struct Num<long double> {
  static long double rem360(long double x) { return remainderl(x, 360.0L); }
  static long double floor(long double x) { return floorl(x); }
  static long double abs(long double x) { return fabsl(x); }
  static long double rint(long double x) { return rintl(x); }
};
template <> struct Num<__float128> {
  static __float128 rem360(__float128 x) { return remainderq(x, 360); }
  static __float128 floor(__float128 x) { return floorq(x); }
  static __float128 abs(__float128 x) { return fabsq(x); }
  static __float128 rint(__float128 x) { return rintq(x); }
};

// result of one reference evaluation in one candidate cell
template <class T> struct RefVal {
  T h;          // offset + scale * p
  T p;          // interpolated pixel value
  T S;          // sum of |terms| of the interpolation polynomial (conditioning of the evaluation)
  T px, py;     // d p / d x, d p / d y   (per cell)
  long cx, cy;  // cell
  T fx, fy;     // local coordinates used
  int variant;  // cubic: 0 interior / 1 north / 2 south ; bilinear: -1
};

template <class T = long double> class Grid {
  int w_, h_; const uint16_t* pix_; T off_, sc_;
public:
  Grid(int w, int h, const uint16_t* pix, double offset, double scale) : w_(w), h_(h), pix_(pix), off_(offset), sc_(scale) {}
  int w() const { return w_; } int h() const { return h_; } T offset() const { return off_; } T scale() const { return sc_; }
  // pixel with longitude wrap and continuation over the poles
  long pixel(long ix, long iy) const {
    if (iy < 0) { iy = -iy; ix += w_ / 2; }
    else if (iy >= h_) { iy = 2L * (h_ - 1) - iy; ix += w_ / 2; }
    ix %= w_; if (ix < 0) ix += w_;
    return pix_[(size_t)iy * w_ + ix];
  }
  T node_height(long ix, long iy) const { return off_ + sc_ * (T)pixel(ix, iy); }
  // position in cell units: x in [-w/2, w/2] (east of Greenwich), y in [0, h-1] (south of N pole)
  void position(double lat, double lon, T& x, T& y) const {
    T ln = Num<T>::rem360((T)lon);
    x = ln * (T)w_ / (T)360;
    y = ((T)90 - (T)lat) * (T)(h_ - 1) / (T)180;
  }
  RefVal<T> bilinear_in(long cx, long cy, T x, T y) const {
    RefVal<T> r; r.cx = cx; r.cy = cy; r.variant = -1;
    T fx = x - (T)cx, fy = y - (T)cy; r.fx = fx; r.fy = fy;
    T v00 = (T)pixel(cx, cy), v01 = (T)pixel(cx + 1, cy), v10 = (T)pixel(cx, cy + 1), v11 = (T)pixel(cx + 1, cy + 1);
    T a = (1 - fx) * v00 + fx * v01, b = (1 - fx) * v10 + fx * v11;
    r.p = (1 - fy) * a + fy * b;
    T afx = Num<T>::abs(fx), a1fx = Num<T>::abs(1 - fx), afy = Num<T>::abs(fy), a1fy = Num<T>::abs(1 - fy);
    r.S = a1fy * (a1fx * v00 + afx * v01) + afy * (a1fx * v10 + afx * v11);
    r.px = (1 - fy) * (v01 - v00) + fy * (v11 - v10);
    r.py = b - a;
    r.h = off_ + sc_ * r.p;
    return r;
  }
  RefVal<T> cubic_in(long cx, long cy, T x, T y) const {
    const CubicFit& F = cubicfit();
    RefVal<T> r; r.cx = cx; r.cy = cy;
    int v = cy == 0 ? 1 : (cy == h_ - 2 ? 2 : 0); r.variant = v;
    T fx = x - (T)cx, fy = y - (T)cy; r.fx = fx; r.fy = fy;
    long long val[CubicFit::NS];
    for (int k = 0; k < CubicFit::NS; ++k) val[k] = pixel(cx + F.sx[k], cy + F.sy[k]);
    T xp[4], yp[4]; xp[0] = yp[0] = 1;
    for (int i = 1; i < 4; ++i) { xp[i] = xp[i - 1] * fx; yp[i] = yp[i - 1] * fy; }
    T p = 0, S = 0, px = 0, py = 0;
    for (int i = 0; i < CubicFit::NT; ++i) {
      long long num = 0; for (int k = 0; k < CubicFit::NS; ++k) num += val[k] * F.I[v][k][i];   // exact
      T t = (T)num / (T)F.den[v];
      int a = F.pa[i], b = F.pb[i];
      T term = t * xp[a] * yp[b];
      p += term; S += Num<T>::abs(term);
      if (a > 0) px += t * (T)a * xp[a - 1] * yp[b];
      if (b > 0) py += t * (T)b * xp[a] * yp[b - 1];
    }
    r.p = p; r.S = S; r.px = px; r.py = py; r.h = off_ + sc_ * p;
    return r;
  }
  // All cells that a double-precision evaluation of the documented cell rule may legitimately
  // select: the exact cell floor(x), floor(y) (last row closed at the S pole) and, when the
  // position is within tolx / toly cell units of a cell boundary, the neighbour across it.
  void candidates(bool cubic, double lat, double lon, T tolx, T toly, std::vector<RefVal<T>>& out) const {
    out.clear();
    T x, y; position(lat, lon, x, y);
    long cxs[2], cys[2]; int nx = 0, ny = 0;
    T fx0 = Num<T>::floor(x), fy0 = Num<T>::floor(y);
    cxs[nx++] = (long)fx0;
    T rx = Num<T>::rint(x);
    if (Num<T>::abs(x - rx) <= tolx) { long a = (long)rx - 1, b = (long)rx; cxs[0] = a; cxs[1] = b; nx = 2; }
    long c0 = (long)fy0; if (c0 > h_ - 2) c0 = h_ - 2; if (c0 < 0) c0 = 0;
    cys[ny++] = c0;
    T ry = Num<T>::rint(y);
    if (Num<T>::abs(y - ry) <= toly && (long)ry >= 1 && (long)ry <= h_ - 2) { cys[0] = (long)ry - 1; cys[1] = (long)ry; ny = 2; }
    for (int i = 0; i < nx; ++i) for (int j = 0; j < ny; ++j)
      out.push_back(cubic ? cubic_in(cxs[i], cys[j], x, y) : bilinear_in(cxs[i], cys[j], x, y));
  }
};

}  // namespace refgeoid
