// C08 — self-tests of the reference side and the library-only metamorphic section (included by harness/C08.cpp)
#pragma once

// ---------------------------------------------------------------- oracle self-validation (never a verdict on the library)
static void sec_selftest(Ctx& c, uint64_t idx) {
  Rng& r = c.rng;
  int mode = (int)(idx % 5);
  c.count(std::string("selftest/") + std::to_string(mode), vh::hmix(17, idx), true);
  if (mode == 0) {
    // (a) authalic 1-form along the reference geodesic == ref_geod's own S12 (independent formula: c2 (alp2-alp1) - e2 a^2 ... I4)
    static const double fl[] = {0, gh::WGS84_F, 0.01, -0.01, 0.05, -0.05, 0.2, -0.2};
    double f = r.pick(fl), a = gh::WGS84_A; ref::Ell<LD> E(a, f); ref::Authalic<LD> Au(E);
    std::string cl; double lat1 = gh::pick_lat(r, cl), azi = gh::pick_azi(r, cl), s = r.coin(0.3) ? r.uniform(0, 3) * 2 * M_PI * a : r.logu(1e-3, 2e7);
    ref::EdgeRef<LD> e = ref::geod_edge_direct<LD>(E, Au, lat1, 10, azi, std::signbit(azi), false, s);
    double d = (double)fabsl(E.c2 * e.I + e.S12geod);
    c.obs("selftest: |c2 * oint(-sin xi dlam) + S12(ref_geod)| per edge [m^2] (long double, |f| <= 0.2)", d, J().f("f", f).f("lat1", lat1).f("azi", azi).f("s", s));
    if (!(d < 2e-3)) c.herr("oracle self-test failed: 1-form edge integral and ref_geod S12 disagree by " + std::to_string(d) + " m^2");
  } else if (mode == 1) {
    // (b) long double vs float128 evaluation of the 1-form, all ellipsoids incl. extreme ones
    static const double fl[] = {0, gh::WGS84_F, 0.2, -0.2, 0.5, 0.9, 0.99, -1, -9, -99};
    double f = r.pick(fl), a = gh::WGS84_A; ref::Ell<LD> E(a, f); ref::Authalic<LD> Au(E); ref::Ell<ref::q128> Eq(a, f); ref::Authalic<ref::q128> Auq(Eq);
    double lat1 = r.uniform(-90, 90), azi = r.uniform(-180, 180), s = r.uniform(0, 1.2) * 2 * M_PI * a * std::min(1.0, 1 - f);
    ref::EdgeRef<LD> e = ref::geod_edge_direct<LD>(E, Au, lat1, 10, azi, false, false, s);
    ref::EdgeRef<ref::q128> q = ref::geod_edge_direct<ref::q128>(Eq, Auq, lat1, 10, azi, false, false, s);
    double d = (double)ref::fabs((ref::q128)e.I - q.I), dq = (double)ref::fabs(Eq.c2 * q.I + q.S12geod) / (double)Eq.c2;
    c.obs("selftest: 1-form long double vs float128 [rad]", d, J().f("f", f).f("lat1", lat1).f("azi", azi).f("s", s));
    c.obs("selftest: float128 1-form vs float128 ref_geod S12 [rad]", dq, J().f("f", f).f("lat1", lat1).f("azi", azi).f("s", s));
    // must be negligible against the tolerance the area is judged with on this ellipsoid (documented position accuracy x authalic radius)
    double tolA = gh::doc_exact(1 - f) * gh::quarter_meridian(a, f) / 1e7 * std::sqrt((double)E.c2) * std::max(1.0, s / (M_PI * a * std::min(1.0, 1 - f)));   // as judged: x max(1, length / half circuit)
    c.obs("selftest: 1-form long double vs float128 [fraction of the per-edge area tolerance]", d * (double)E.c2 / tolA);
    if (!(d * (double)E.c2 < 0.02 * tolA)) c.herr("oracle self-test failed: 1-form long double vs float128 differ by " + std::to_string(d * (double)E.c2) + " m^2 (f=" + std::to_string(f) + ")");
    if (!(dq < 1e-25)) c.herr("oracle self-test failed: float128 1-form vs ref_geod S12 differ");
  } else if (mode == 2) {
    // (c) sphere: reference chain (Newton edges + 1-form) against Gauss-Bonnet with turning angles from vertex vectors
    std::shared_ptr<Env> env = make_env(B_EXACT, 1.0, 0.0);
    int n = r.range(3, 8); std::vector<RV> V; double lat0 = r.uniform(-80, 80), lon0 = r.uniform(-180, 180), rad = r.logu(1e-3, 1.2);
    for (int i = 0; i < n; ++i) { RV p; sph_direct(lat0, lon0, 360.0 * i / n + r.uniform(-20, 20), rad * r.uniform(0.5, 1), p.lat, p.lon); V.push_back(p); }
    Model M; M.V.push_back(V[0]);
    for (int i = 1; i <= n; ++i) { EdgeOut e = geod_edge_between(*env, c, V[i - 1], V[i % n], true, 0); M.add(*env, e); }
    if (!M.judged) return;
    LD frac, A = closed_area(*env, M.I, M.dlam, &frac);
    // Gauss-Bonnet: A = 2 pi - sum of exterior (turning) angles, ccw positive, radius 1
    auto vec = [](const RV& p, LD* x) { LD s, cc, sl, cl; ref::sincosd<LD>(p.lat, s, cc); ref::sincosd<LD>(p.lon, sl, cl); x[0] = cc * cl; x[1] = cc * sl; x[2] = s; };
    auto cross = [](const LD* u, const LD* v, LD* w) { w[0] = u[1] * v[2] - u[2] * v[1]; w[1] = u[2] * v[0] - u[0] * v[2]; w[2] = u[0] * v[1] - u[1] * v[0]; };
    auto dot = [](const LD* u, const LD* v) { return u[0] * v[0] + u[1] * v[1] + u[2] * v[2]; };
    LD turn = 0;
    for (int i = 0; i < n; ++i) {
      LD p0[3], p1[3], p2[3]; vec(V[(i + n - 1) % n], p0); vec(V[i], p1); vec(V[(i + 1) % n], p2);
      LD n1[3], n2[3], t1[3], t2[3]; cross(p0, p1, n1); cross(p1, p2, n2);
      cross(n1, p1, t1); cross(n2, p1, t2);          // tangents at p1 of the incoming and outgoing great circles (direction of travel)
      LD cr[3]; cross(t1, t2, cr);
      turn += atan2l(dot(cr, p1), dot(t1, t2));
    }
    LD Agb = 2 * ref::pi<LD>() - turn; Agb = fmodl(Agb, 4 * ref::pi<LD>()); if (Agb < 0) Agb += 4 * ref::pi<LD>();
    double d = (double)circ_dist(A, Agb, 4 * ref::pi<LD>());
    c.obs("selftest: sphere, reference chain area vs Gauss-Bonnet turning-angle formula [sr]", d, J().f("lat0", lat0).f("lon0", lon0).f("rad", rad).i("n", n));
    if (!(d < 1e-15) || frac > 1e-12) c.herr("oracle self-test failed: spherical polygon area vs Gauss-Bonnet differ by " + std::to_string(d));
  } else if (mode == 3) {
    // (d) ellipsoid: triangle equator - equator - pole has area c2 * dlon; (and its perimeter is 2 quarter meridians + a dlon)
    static const double fl[] = {gh::WGS84_F, 0.1, -0.1, 0.5, -1};
    double f = r.pick(fl), a = gh::WGS84_A; std::shared_ptr<Env> env = make_env(B_EXACT, a, f);
    double l1 = grid(r.uniform(-180, 180)), dl = grid(r.uniform(1, 80)), ps = r.sign();
    if (f > 0.2 && dl > 60 * (1 - f)) dl = grid(50 * (1 - f));       // keep the equatorial edge shorter than the conjugate distance
    RV V[3] = {{0, l1}, {0, l1 + dl}, {ps * 90, grid(r.uniform(-180, 180))}};
    Model M; M.V.push_back(V[0]);
    for (int i = 1; i <= 3; ++i) M.add(*env, geod_edge_between(*env, c, V[i - 1], V[i % 3], true, 0));
    if (!M.judged) { c.event("selftest: lune triangle not judged: " + M.why); return; }
    LD frac, A = closed_area(*env, M.I, M.dlam, &frac), ex = env->E.c2 * dl * ref::deg<LD>(); if (ps < 0) ex = env->area0 - ex;
    double d = (double)(circ_dist(A, ex, env->area0) / env->E.c2);
    LD qm = gh::quarter_meridian(a, f);
    double dp = (double)fabsl(M.len - (2 * qm + (LD)a * dl * ref::deg<LD>()));
    c.obs("selftest: ellipsoid, equator-equator-pole triangle vs c2*dlon [rad]", d, J().f("f", f).f("dl", dl));
    c.obs("selftest: ... its perimeter vs 2 quarter meridians + a*dlon [m]", dp, J().f("f", f).f("dl", dl));
    if (!(d < 1e-16) || !(dp < 1e-8)) c.herr("oracle self-test failed: lune triangle area/perimeter " + std::to_string(d) + " " + std::to_string(dp));
  } else {
    // (e) rhumb: quadrilateral bounded by two parallels and two meridians has area c2 (sin xi2 - sin xi1) dlon
    static const double fl[] = {gh::WGS84_F, 0.01, -0.01, 0.5, -1};
    double f = r.pick(fl), a = gh::WGS84_A; std::shared_ptr<Env> env = make_env(B_RH_EXACT, a, f);
    double p1 = r.uniform(-89, 88), p2 = r.uniform(p1 + 0.01, 89), l1 = grid(r.uniform(-180, 180)), dl = grid(r.uniform(0.001, 170));
    RV V[4] = {{p1, l1}, {p1, l1 + dl}, {p2, l1 + dl}, {p2, l1}};
    Model M; M.V.push_back(V[0]);
    for (int i = 1; i <= 4; ++i) M.add(*env, rhumb_edge_between(*env, c, V[i - 1], V[i % 4]));
    if (!M.judged) return;
    LD frac, A = closed_area(*env, M.I, M.dlam, &frac), ex = env->E.c2 * (env->Au.sinxi_deg(p2) - env->Au.sinxi_deg(p1)) * dl * ref::deg<LD>();
    double d = (double)(circ_dist(A, ex, env->area0) / env->E.c2);
    c.obs("selftest: rhumb quadrilateral between parallels and meridians vs closed form [rad]", d, J().f("f", f).f("p1", p1).f("p2", p2).f("dl", dl));
    if (!(d < 1e-15)) c.herr("oracle self-test failed: rhumb quadrilateral area differs by " + std::to_string(d));
  }
}

// ---------------------------------------------------------------- metamorphic relations, library only
struct Meas { unsigned n; double per, As, Au; bool finite; };
static Meas measure(const Env& env, const std::vector<RV>& V) {
  std::unique_ptr<IPoly> P(env.make(false));
  for (auto& v : V) P->AddPoint(v.lat, v.lon);
  Meas m; double p2; m.n = P->Compute(false, true, m.per, m.As); P->Compute(false, false, p2, m.Au);
  m.finite = std::isfinite(m.per) && std::isfinite(m.As) && std::isfinite(m.Au);
  return m;
}

static void sec_meta(Ctx& c, uint64_t) {
  Rng& r = c.rng;
  std::shared_ptr<Env> envp = pick_env(r); const Env& env = *envp; bool rhumb = is_rhumb(env.be);
  static const int kinds[] = {0, 1, 2, 3, 4, 5, 6, 9, 12, 2, 3, 6};
  int kind = r.pick(kinds);
  std::vector<PV> sh = gen_shape(r, env, kind, rhumb);
  std::vector<RV> V; for (auto& p : sh) if (p.how != 2) V.push_back(RV{p.lat, grid(p.lon)});
  if (V.size() > 24) V.resize(24);
  size_t n = V.size(); if (n < 3) return;
  std::string bn = BE_NAME[env.be], cls = "meta/" + bn + "/" + env.bucket + "/" + SHAPES[kind];
  uint64_t h = vh::hmix(vh::hmix(9, env.a), env.f) ^ (uint64_t)env.be; for (auto& v : V) h = vh::hmix(vh::hmix(h, v.lat), v.lon);
  c.count(cls, h);
  const double A0 = env.area0_lib, uA = ref::ulp_d(A0);
  Meas m0 = measure(env, V);
  auto wit = [&]() { std::string s; char b[80]; for (auto& v : V) { std::snprintf(b, sizeof b, "(%a,%a) ", v.lat, v.lon); s += b; } return J().str("backend", bn).f("a", env.a).f("f", env.f).str("vertices", s).f("per", m0.per).f("area_signed", m0.As); };
  auto key = [&](const char* w) { return "law:C08/" + bn + "/" + w; };
  // reference edges: uniqueness of every edge (only used to decide which relations are applicable and to size the documented tolerance)
  Model M; M.V.push_back(V[0]);
  for (size_t i = 1; i <= n; ++i) M.add(env, rhumb ? rhumb_edge_between(env, c, V[i - 1], V[i % n]) : geod_edge_between(env, c, V[i - 1], V[i % n], false, 0));
  bool unique = M.judged;
  if (!m0.finite) { if (unique) c.viol(key("non-finite-result"), cls, wit()); else c.event("meta: non-finite result on a polygon with a non-unique / pole-to-pole edge (not judged)"); return; }
  // errors of half the ellipsoid area on polygons with an edge between exactly opposite meridians get their own key
  // KNOWN-defect regimes (same predicates and order as in the history runner): inside a regime every relation reports under the regime key
  // with the relation's own key in detail.monitor; errors of half the ellipsoid area on polygons with an edge between exactly opposite
  // meridians get their own suffix
  bool extra_rheq = false, extra_preq = false, extra_rhtiny = false;
  auto report = [&](double err, const char* w, const J& d, bool extratie = false) {
    std::string kk = key(w);
    if ((M.ntie || extratie) && std::fabs(err - 0.5 * A0) <= 1e-6 * A0) kk += "/off-by-half-ellipsoid-area/edge-between-opposite-meridians";
    if (env.be == B_RH_EXACT && (M.nrhtiny || extra_rhtiny)) c.viol("regime:C08/rhumb-exact/edge-with-nonzero-latitude-below-1e-290deg", cls, J(d).str("monitor", kk));
    else if (env.be == B_RH_EXACT && env.f < 0 && (M.nrheq || extra_rheq)) c.viol("regime:C08/rhumb-exact/prolate-ellipsoid-edge-near-equator-same-side", cls, J(d).str("monitor", kk));
    else if ((env.be == B_EXACT || env.be == B_DELEG) && env.f < -0.2 && (M.npreq || extra_preq)) c.viol("regime:C08/geod-exact/strongly-prolate-ellipsoid-near-equatorial-nearly-antipodal-inverse-edge", cls, J(d).str("monitor", kk));
    else if ((env.be == B_EXACT || env.be == B_DELEG) && env.f > 0.5 && (M.npreq || extra_preq)) c.viol("regime:C08/geod-exact/strongly-oblate-ellipsoid-inverse-edge-within-1e-8deg-of-equator", cls, J(d).str("monitor", kk));
    else c.viol(kk, cls, d); };
  double tolA = env.K * (double)M.tolA, tolP = env.K * (double)M.tolP;
  auto circ = [&](double x, double y) { return (double)circ_dist(x, y, A0); };

  // (a) rotate the first vertex: the same edges, summed in another order by the double-double accumulators
  {
    size_t k = 1 + r.below(n - 1); std::vector<RV> W; for (size_t i = 0; i < n; ++i) W.push_back(V[(i + k) % n]);
    Meas m = measure(env, W);
    double ea = std::max(circ(m.As, m0.As), circ(m.Au, m0.Au)), ep = std::fabs(m.per - m0.per);
    c.obs("rotate first vertex: area difference [ulp(area0)]", ea / uA); c.obs("rotate first vertex: perimeter difference [ulp]", ep / ref::ulp_d(m0.per));
    double Tp = 2 * ref::ulp_d(std::max(std::fabs(m0.per), (double)M.len)) * (M.judged ? 1 : 4);   // the accumulator is exact to ~1 ulp of the largest partial sum
    if (ea > 2 * uA || ep > Tp || m.n != m0.n) report(ea, "rotate-first-vertex", wit().i("k", (long long)k).f("area2", m.As).f("per2", m.per).f("diff_area", ea).f("diff_per", ep));
    c.event("law evaluated: rotate first vertex");
  }
  if (!unique) { c.event("meta: polygon has a non-unique (nearly antipodal) edge: uniqueness-dependent relations skipped"); return; }
  // (c) add a constant to every longitude (grid longitudes: the shifted values are exact)
  {
    static const double cs[] = {180, -180, 360, -360, 90, 720, -540};
    double sft = r.coin(0.4) ? r.pick(cs) : grid(r.uniform(-720, 720)); std::vector<RV> W = V; for (auto& v : W) v.lon += sft;
    bool exact = true; for (size_t i = 0; i < n; ++i) if ((LD)W[i].lon - (LD)V[i].lon != (LD)sft) exact = false;
    if (exact) {
      Meas m = measure(env, W);
      double ea = std::max(circ(m.As, m0.As), circ(m.Au, m0.Au)), ep = std::fabs(m.per - m0.per);
      c.obs("shift all longitudes: area difference [ulp(area0)]", ea / uA);
      if (ea > 2 * uA || ep > 2 * ref::ulp_d(m0.per)) report(ea, "shift-all-longitudes", wit().f("shift", sft).f("area2", m.As).f("per2", m.per).f("diff_area", ea).f("diff_per", ep));
      c.event("law evaluated: shift all longitudes by a constant");
    }
  }
  // (d) add 360 k to one longitude
  {
    size_t j = r.below(n); double kk = 360.0 * (r.coin() ? r.range(1, 3) : -r.range(1, 3)); std::vector<RV> W = V; W[j].lon += kk;
    if ((LD)W[j].lon - (LD)V[j].lon == (LD)kk) {
      Meas m = measure(env, W);
      double ea = std::max(circ(m.As, m0.As), circ(m.Au, m0.Au)), ep = std::fabs(m.per - m0.per);
      c.obs("add 360k to one longitude: area difference [ulp(area0)]", ea / uA);
      if (ea > 2 * uA || ep > 2 * ref::ulp_d(m0.per)) report(ea, "add-360k-to-one-longitude", wit().i("vertex", (long long)j).f("k360", kk).f("area2", m.As).f("per2", m.per).f("diff_area", ea).f("diff_per", ep));
      c.event("law evaluated: add 360k to one longitude");
    }
  }
  // (b) reverse the order of the vertices: signed area negated, unsigned area complemented, same perimeter
  {
    std::vector<RV> W(V.rbegin(), V.rend()); Meas m = measure(env, W);
    double ea = circ(m.As, -m0.As), eu = circ(m.Au + m0.Au, 0), ep = std::fabs(m.per - m0.per);
    double T = 2 * tolA + 4 * uA, Tp = 2 * tolP + 4 * ref::ulp_d(m0.per);
    if (ea <= T && eu <= T && ep <= Tp) { c.obs("reverse order: area error / tolerance", std::max(ea, eu) / T); c.obs("reverse order: perimeter error / tolerance", ep / Tp); }
    if (ea > T || eu > T || ep > Tp) report(std::max(ea, eu), "reverse-order", wit().f("area_rev_signed", m.As).f("area_rev_unsigned", m.Au).f("per_rev", m.per).f("tolA", T));
    c.event("law evaluated: reverse order");
  }
  // (e) cut along a diagonal
  if (n >= 4) {
    size_t i = r.below(n), j = (i + 2 + r.below(n - 3)) % n; if (i > j) std::swap(i, j);
    if (j - i >= 2 && !(i == 0 && j == n - 1)) {
      EdgeOut d = rhumb ? rhumb_edge_between(env, c, V[i], V[j]) : geod_edge_between(env, c, V[i], V[j], false, 0);
      if (d.st == E_OK) {
        extra_rheq = d.rheq; extra_preq = d.preq; extra_rhtiny = d.rhtiny;
        std::vector<RV> P1(V.begin() + i, V.begin() + j + 1), P2(V.begin() + j, V.end()); P2.insert(P2.end(), V.begin(), V.begin() + i + 1);
        Meas m1 = measure(env, P1), m2 = measure(env, P2);
        double td = env.K * env.tol_pos * (double)d.lenscale;
        double ea = circ(m1.As + m2.As, m0.As), ep = std::fabs((m1.per + m2.per) - (m0.per + 2 * (double)d.len));
        double T = 2 * tolA + 4 * td * (double)env.cauth + 6 * uA, Tp = 2 * tolP + 4 * td + 8 * ref::ulp_d(m0.per + 2 * (double)d.len);
        if (ea <= T && ep <= Tp) { c.obs("cut along a diagonal: area error / tolerance", ea / T); c.obs("cut along a diagonal: perimeter error / tolerance", ep / Tp); }
        if (ea > T || ep > Tp) report(ea, "cut-along-diagonal", wit().i("i", (long long)i).i("j", (long long)j).f("A1", m1.As).f("A2", m2.As).f("p1", m1.per).f("p2", m2.per).f("diag", (double)d.len).f("err_area", ea).f("tolA", T).f("err_per", ep).f("tolP", Tp), d.tie);
        c.event("law evaluated: cut along a diagonal");
      }
    }
  }
  // (f) continuity at a pole vertex (geodesic back ends; for rhumb polygons the area is genuinely discontinuous there unless the
  //     neighbours share the meridian, see checks/C08.py)
  if (!rhumb && std::fabs(env.f) <= 0.2) for (size_t j = 0; j < n; ++j) if (std::fabs(V[j].lat) == 90) {
    // moving the end of a geodesic of arc sigma sideways by d sweeps the area d R tan(sigma/2): unbounded as the edge becomes
    // antipodal, so the relation is evaluated only when both adjacent edges are shorter than 150 deg of arc
    EdgeOut e1 = geod_edge_between(env, c, V[(j + n - 1) % n], V[j], false, 0), e2 = geod_edge_between(env, c, V[j], V[(j + 1) % n], false, 0);
    if (e1.st != E_OK || e2.st != E_OK || e1.a12 > 150 || e2.a12 > 150) { c.event("meta: pole continuity skipped (adjacent edge longer than 150 deg)"); break; }
    std::vector<RV> W = V; W[j].lat = V[j].lat > 0 ? 90 - 1e-9 : -90 + 1e-9;
    Meas m = measure(env, W);
    double dm = 1e-9 * (M_PI / 180) * env.a * env.a / env.b * 1.01;          // displacement of the vertex (polar radius of curvature a^2/b)
    double Rm = std::max(env.a, env.b) * 1.5, sweep = dm * Rm * (std::tan((double)e1.a12 * M_PI / 360) + std::tan((double)e2.a12 * M_PI / 360));
    double ea = circ(m.As, m0.As), ep = std::fabs(m.per - m0.per), T = sweep + 2 * tolA + 4 * uA, Tp = 2 * dm + 2 * tolP;
    c.obs("pole vertex moved by 1e-9 deg: area change / bound", ea / T); c.obs("pole vertex moved by 1e-9 deg: perimeter change / bound", ep / Tp);
    if (ea > T || ep > Tp) report(ea, "pole-vertex-continuity", wit().i("vertex", (long long)j).f("area2", m.As).f("per2", m.per).f("bound_area", T));
    c.event("law evaluated: pole vertex continuity");
    break;
  }
}
