// C04 -- UTM/UPS: zone rules, ranges, closure, round trip, Transfer, zone strings, EPSG codes, error contract.
// Monitors:
//   spec     : independent implementation of the UTM/UPS standard (zone rule incl. Norway/Svalbard, constants, the eight
//              documented rectangles, zone-string grammar, EPSG table) next to every call
//   oracle   : ref::TM<__float128> (oracle/ref_tm.hpp) and Snyder polar stereographic (oracle/ref_polar.hpp) for x, y, gamma, k
//   decomposition law: UTMUPS::Forward/Reverse == TransverseMercator::UTM() / PolarStereographic::UPS() + standard false origin,
//              bit-exact (used on the exhaustive lattice where a float128 evaluation per point is unaffordable)
//   sentinel : a throwing call leaves every output argument untouched; only GeographicErr may be thrown
//   laws     : Forward o Reverse, Reverse o Forward, Transfer == Forward o Reverse (+ hemisphere shift), string / EPSG round trips
#include <GeographicLib/UTMUPS.hpp>
#include <GeographicLib/TransverseMercator.hpp>
#include <GeographicLib/PolarStereographic.hpp>
#include <climits>
#include "harness/common.hpp"
#include "oracle/ref_tm.hpp"
#include "oracle/ref_polar.hpp"
#include "oracle/ref_exact.hpp"

using namespace GeographicLib;
using vh::Ctx; using vh::J; using vh::Section;
typedef __float128 Q;
typedef long double LD;
static const double WGS84_A = 6378137.0, WGS84_F = 1 / 298.257223563, DEGd = M_PI / 180;
static const double K_POS = 4, DOC_NM = 5;                 // "about 5 nm" x K_safety
static const double TOL_POS = K_POS * DOC_NM * 1e-9;       // metres on the ground
static const double NaN = std::numeric_limits<double>::quiet_NaN(), INF = std::numeric_limits<double>::infinity();
static inline uint64_t dbits(double v) { uint64_t u; std::memcpy(&u, &v, 8); return u; }
static inline bool same(double a, double b) { return dbits(a) == dbits(b); }
static std::string hexf(double v) { char b[40]; std::snprintf(b, sizeof b, "%a", v); return b; }

// ------------------------------------------------------------------ the standard, written independently
namespace spec {
const int INVALID = -4, MATCH = -3, UTM = -2, STANDARD = -1, UPS = 0;
// longitude reduced to [-180, 180) exactly, then floor
static int ifloor_lon(double lon) {
  Q L = remainderq((Q)lon, 360);      // exact in binary128 for any double
  if (L >= 180) L -= 360;
  return (int)floorq(L);              // in [-180, 179]
}
// throws std::out_of_range for an illegal setzone
static int zone(double lat, double lon, int setzone) {
  if (setzone < -4 || setzone > 60) throw std::out_of_range("setzone");
  if (setzone >= 0 || setzone == INVALID) return setzone;
  if (std::isnan(lat) || std::isnan(lon) || std::isinf(lon)) return INVALID;
  if (setzone == UTM || (lat >= -80 && lat < 84)) {
    int il = ifloor_lon(lon);
    int z = (il + 180) / 6 + 1;                                   // 6-degree zones, zone 1 = [-180,-174)
    if (lat >= 56 && lat < 64 && il >= 3 && il < 6) z = 32;       // Norway: 32V widened to 3E
    if (lat >= 72 && il >= 0 && il < 42) {                        // Svalbard: 31X 33X 35X 37X (band X = [72,84), kept to the pole for UTM-only)
      z = il < 9 ? 31 : il < 21 ? 33 : il < 33 ? 35 : 37;
    }
    return z;
  }
  return UPS;
}
static const double FE_UTM = 500000, FN_UTM_S = 10000000, F_UPS = 2000000, K0_UTM = 0.9996, K0_UPS = 0.994;
static double lon0(int z) { return 6.0 * z - 183; }
struct Rect { double x0, x1, y0, y1; };
static Rect rect(bool utm, bool northp, bool mgrs) {     // the documented table (UTMUPS.hpp), km -> m
  Rect r;
  if (utm) { r.x0 = 0; r.x1 = 1000e3; if (northp) { r.y0 = -9100e3; r.y1 = 9600e3; } else { r.y0 = 900e3; r.y1 = 19600e3; } }
  else if (northp) { r.x0 = r.y0 = 1200e3; r.x1 = r.y1 = 2800e3; }
  else { r.x0 = r.y0 = 700e3; r.x1 = r.y1 = 3300e3; }
  if (mgrs) { r.x0 += 100e3; r.x1 -= 100e3; r.y0 += 100e3; r.y1 -= 100e3; }
  return r;
}
static bool inside(const Rect& r, double x, double y) { return x >= r.x0 && x <= r.x1 && y >= r.y0 && y <= r.y1; }   // closed edges
// signed distance to the boundary (>0 inside)
static double depth(const Rect& r, double x, double y) { return std::min(std::min(x - r.x0, r.x1 - x), std::min(y - r.y0, r.y1 - y)); }
// zone string grammar: [zone 1..60 as 1 or 2 digits (leading 0 allowed)] (n|s|north|south), case-insensitive; hemisphere alone = UPS;
// inv | invalid -> INVALID.  Returns false if illegal.
static bool decode(const std::string& s, int& z, bool& northp) {
  std::string l; for (unsigned char c : s) l += (char)((c >= 'A' && c <= 'Z') ? c + 32 : c);
  if (l == "inv" || l == "invalid") { z = INVALID; northp = false; return true; }
  size_t i = 0; int zz = 0;
  while (i < l.size() && l[i] >= '0' && l[i] <= '9' && i < 3) { zz = 10 * zz + (l[i] - '0'); ++i; }
  if (i > 2) return false;
  if (i > 0 && (zz < 1 || zz > 60)) return false;
  std::string h = l.substr(i);
  bool n = (h == "n" || h == "north"), so = (h == "s" || h == "south");
  if (!n && !so) return false;
  z = i ? zz : UPS; northp = n; return true;
}
static bool encode(int z, bool northp, bool abbrev, std::string& out) {
  if (z == INVALID) { out = abbrev ? "inv" : "invalid"; return true; }
  if (z < 0 || z > 60) return false;
  char b[8] = ""; if (z) std::snprintf(b, sizeof b, "%02d", z);
  out = std::string(b) + (abbrev ? (northp ? "n" : "s") : (northp ? "north" : "south"));
  return true;
}
static void decode_epsg(int e, int& z, bool& northp) {     // EPSG 326zz = WGS84 / UTM zz N, 327zz = S, 32661 / 32761 = UPS N / S
  northp = false; z = INVALID;
  if (e >= 32601 && e <= 32660) { z = e - 32600; northp = true; }
  else if (e == 32661) { z = UPS; northp = true; }
  else if (e >= 32701 && e <= 32760) z = e - 32700;
  else if (e == 32761) z = UPS;
}
static int encode_epsg(int z, bool northp) {
  if (z == UPS) return northp ? 32661 : 32761;
  if (z >= 1 && z <= 60) return (northp ? 32600 : 32700) + z;
  return -1;
}
}  // namespace spec

// ------------------------------------------------------------------ wrapped calls with sentinel / exception monitors
struct FwdOut { int zone; bool northp; double x, y, g, k; bool threw; std::string what; bool untouched; };
static const int ZS = 0x5a5a5a5a;
static FwdOut call_forward(Ctx& ctx, double lat, double lon, int setzone, bool mgrs, const std::string& cls, const J& in) {
  FwdOut o; o.zone = ZS; o.northp = true; o.x = vh::sentinel(1); o.y = vh::sentinel(2); o.g = vh::sentinel(3); o.k = vh::sentinel(4); o.threw = false; o.untouched = true;
  bool np0 = (dbits(lat) ^ dbits(lon) ^ (uint64_t)setzone) & 1; o.northp = np0;
  try { UTMUPS::Forward(lat, lon, o.zone, o.northp, o.x, o.y, o.g, o.k, setzone, mgrs); }
  catch (const GeographicErr& e) { o.threw = true; o.what = e.what(); }
  catch (const std::exception& e) { o.threw = true; o.what = e.what(); ctx.viol("exception:C04/forward/non-library-exception", cls, J(in).str("what", e.what())); }
  if (o.threw) {
    o.untouched = o.zone == ZS && o.northp == np0 && vh::is_sentinel(o.x, 1) && vh::is_sentinel(o.y, 2) && vh::is_sentinel(o.g, 3) && vh::is_sentinel(o.k, 4);
    if (!o.untouched) ctx.viol("sentinel:C04/forward/output-modified-by-throwing-call", cls, J(in).str("what", o.what).i("zone", o.zone).f("x", o.x).f("y", o.y));
  }
  return o;
}
struct RevOut { double lat, lon, g, k; bool threw; std::string what; };
static RevOut call_reverse(Ctx& ctx, int zone, bool northp, double x, double y, bool mgrs, const std::string& cls, const J& in) {
  RevOut o; o.lat = vh::sentinel(5); o.lon = vh::sentinel(6); o.g = vh::sentinel(7); o.k = vh::sentinel(8); o.threw = false;
  try { UTMUPS::Reverse(zone, northp, x, y, o.lat, o.lon, o.g, o.k, mgrs); }
  catch (const GeographicErr& e) { o.threw = true; o.what = e.what(); }
  catch (const std::exception& e) { o.threw = true; o.what = e.what(); ctx.viol("exception:C04/reverse/non-library-exception", cls, J(in).str("what", e.what())); }
  if (o.threw && !(vh::is_sentinel(o.lat, 5) && vh::is_sentinel(o.lon, 6) && vh::is_sentinel(o.g, 7) && vh::is_sentinel(o.k, 8)))
    ctx.viol("sentinel:C04/reverse/output-modified-by-throwing-call", cls, J(in).str("what", o.what).f("lat", o.lat).f("lon", o.lon));
  return o;
}

// ------------------------------------------------------------------ decomposition oracle (library components + the standard's constants)
struct Dec { bool defined; bool accept; int zone; bool northp; double x, y, g, k; };
// what UTMUPS::Forward must do for (lat, lon, setzone, mgrs) given the zone rule of the standard and the two projections
static Dec decompose(double lat, double lon, int setzone, bool mgrs) {
  Dec d; d.defined = true; d.accept = false; d.zone = 0; d.northp = !std::signbit(lat); d.x = d.y = d.g = d.k = NaN;
  if (std::fabs(lat) > 90) return d;                       // reject
  int z = spec::zone(lat, lon, setzone);
  d.zone = z;
  if (z == spec::INVALID) { d.accept = true; return d; }   // NaN outputs
  double x, y, g, k;
  if (z != spec::UPS) {
    double l0 = spec::lon0(z);
    TransverseMercator::UTM().Forward(l0, lat, lon, x, y, g, k);
    x += spec::FE_UTM; y += d.northp ? 0 : spec::FN_UTM_S;
  } else {
    PolarStereographic::UPS().Forward(d.northp, lat, lon, x, y, g, k);
    x += spec::F_UPS; y += spec::F_UPS;
  }
  d.x = x; d.y = y; d.g = g; d.k = k;
  // NaN coordinates from NaN input pass the range test ("NaNs succeed"); NaN from finite input (the singular point of TM) cannot be inside
  d.accept = spec::inside(spec::rect(z != spec::UPS, d.northp, mgrs), x, y) || ((std::isnan(lat) || std::isnan(lon) || std::isinf(lon)) && (std::isnan(x) || std::isnan(y)));
  return d;
}
// compare a Forward outcome with the decomposition; regime = class label
static void judge_forward_dec(Ctx& ctx, double lat, double lon, int setzone, bool mgrs, const std::string& cls) {
  J in = J().f("lat", lat).f("lon", lon).i("setzone", setzone).b("mgrslimits", mgrs).str("lat_hex", hexf(lat)).str("lon_hex", hexf(lon));
  FwdOut o = call_forward(ctx, lat, lon, setzone, mgrs, cls, in);
  bool legal = setzone >= -4 && setzone <= 60;
  if (!legal) { if (!o.threw) ctx.viol("spec:C04/forward/illegal-setzone-accepted", cls, in); return; }
  Dec d = decompose(lat, lon, setzone, mgrs);
  if (o.threw) {
    if (d.accept) {
      // the library has two extra early rejections (dlon > 60 for UTM, |lat| < 70 for UPS) that are documented as redundant
      bool nanin = std::isnan(lat) || std::isnan(lon) || std::isinf(lon);
      if (nanin && d.zone == spec::UPS && std::fabs(lat) < 70) return;      // finite latitude outside the UPS area: legitimate range error
      ctx.viol(nanin ? "nan:C04/forward/forced-zone-throws-on-nan" : "range:C04/forward/rejected-although-inside-documented-rectangle", cls, J(in).str("what", o.what).i("zone", d.zone).f("x", d.x).f("y", d.y));
    }
    return;
  }
  if (!d.accept) {
    bool nanout = (std::isnan(o.x) || std::isnan(o.y)) && std::isfinite(lat) && std::isfinite(lon);
    ctx.viol(nanout ? "range:C04/forward/nan-coordinates-returned-for-finite-input" : "range:C04/forward/accepted-although-outside-documented-rectangle", cls, J(in).i("zone", o.zone).f("x", o.x).f("y", o.y));
    return;
  }
  if (o.zone != d.zone) { ctx.viol("spec:C04/forward/zone", cls, J(in).i("zone", o.zone).i("want", d.zone)); return; }
  if (o.northp != d.northp) ctx.viol("spec:C04/forward/hemisphere", cls, J(in).b("northp", o.northp));
  if (d.zone == spec::INVALID) {
    if (!(std::isnan(o.x) && std::isnan(o.y) && std::isnan(o.g) && std::isnan(o.k))) ctx.viol("nan:C04/forward/invalid-zone-without-nan-outputs", cls, J(in).f("x", o.x));
    return;
  }
  if (!(same(o.x, d.x) && same(o.y, d.y) && same(o.g, d.g) && same(o.k, d.k)))
    ctx.viol("spec:C04/forward/not-projection-plus-standard-false-origin", cls, J(in).i("zone", o.zone).f("x", o.x).f("want_x", d.x).f("y", o.y).f("want_y", d.y).f("gamma", o.g).f("want_gamma", d.g).f("k", o.k).f("want_k", d.k));
}

// ------------------------------------------------------------------ (a) exhaustive zone-rule lattice
static double lattice_value(int edge, int variant) {     // variant: 0 edge-1ulp, 1 edge, 2 edge+1ulp, 3 centre
  double e = edge;
  switch (variant) { case 0: return vh::ulps(e, -1); case 1: return e; case 2: return vh::ulps(e, 1); default: return e + 0.5; }
}
static const char* regime(double lat, double lon) {
  int il = spec::ifloor_lon(lon);
  if (std::isnan(lat)) return "nan";
  if (!(lat >= -80 && lat < 84)) return std::fabs(lat) > 90 ? "lat-out-of-range" : "ups";
  if (lat >= 56 && lat < 64 && il >= 0 && il < 12) return "norway";
  if (lat >= 72 && il >= 0 && il < 42) return "svalbard";
  return "utm";
}
static void sec_lattice(Ctx& ctx, uint64_t idx) {
  int latedge = (int)(idx / 4) - 90, lv = (int)(idx % 4);
  if (latedge == 90 && lv == 3) return;
  double lat = lattice_value(latedge, lv);
  uint64_t nsz = 0, nfw = 0;
  for (int lonedge = -180; lonedge <= 180; ++lonedge)
    for (int v = 0; v < 4; ++v) {
      if (lonedge == 180 && v == 3) continue;
      double lon = lattice_value(lonedge, v);
      std::string cls = std::string("zone-lattice/") + regime(lat, lon) + (lv == 3 && v == 3 ? "/cell-centre" : "/cell-edge");
      ctx.count(cls, vh::hmix(vh::hmix(11, lat), lon));
      if (lonedge % 45 == 0 && v == 1 && ctx.want_sample(cls)) ctx.sample(cls, J().f("lat", lat).f("lon", lon));
      // StandardZone for every setzone in [-4,60] and two illegal values (sanitizer run, --scale < 1: every 7th forced zone only)
      const bool reduced = ctx.scale < 1;
      for (int sz = -5; sz <= 61; ++sz) {
        if (reduced && sz > 0 && sz < 60 && (sz + lonedge) % 7) continue;
        int got = ZS; bool threw = false;
        try { got = UTMUPS::StandardZone(lat, lon, sz); } catch (const GeographicErr&) { threw = true; }
        ++nsz;
        int want = 0; bool wthrow = false;
        try { want = spec::zone(lat, lon, sz); } catch (const std::out_of_range&) { wthrow = true; }
        if (threw != wthrow || (!threw && got != want))
          ctx.viol(std::string("spec:C04/standardzone/") + (threw != wthrow ? "error-contract" : regime(lat, lon)), cls, J().f("lat", lat).f("lon", lon).i("setzone", sz).i("got", got).i("want", want).b("threw", threw).str("lat_hex", hexf(lat)).str("lon_hex", hexf(lon)));
      }
      // Forward: zone, hemisphere, projection + false origin, acceptance against the documented rectangles
      int zs = 0; try { zs = spec::zone(lat, lon, spec::STANDARD); } catch (...) {}
      if (reduced && ((lonedge + latedge) & 3) && v != 1) continue;
      if (ctx.quick()) {
        int zz = zs >= 1 ? zs : spec::zone(lat, lon, spec::UTM);
        int sel[] = {spec::STANDARD, spec::UTM, spec::MATCH, spec::INVALID, 0, (zz + 58) % 60 + 1, zz % 60 + 1, (zz - 1 + ((lonedge & 1) ? 15 : 45) + (lonedge & 6)) % 60 + 1, (int)((dbits(lat) ^ dbits(lon) * 31) % 60) + 1, ((lonedge + v) & 1) ? 61 : -5};
        for (int sz : sel) { bool mg = (sz + lonedge + v) & 1; judge_forward_dec(ctx, lat, lon, sz, mg, cls); ++nfw; }
      } else {
        for (int sz = -5; sz <= 61; ++sz) for (int mg = 0; mg < 2; ++mg) { judge_forward_dec(ctx, lat, lon, sz, mg, cls); ++nfw; }
      }
    }
  ctx.event("lattice: StandardZone evaluations", nsz);
  ctx.event("lattice: Forward evaluations", nfw);
}

// ------------------------------------------------------------------ random longitudes far outside [-180,180]
static void sec_zone_random(Ctx& ctx, uint64_t) {
  vh::Rng& r = ctx.rng;
  double lat = r.coin(0.3) ? vh::ulps(r.pick({-80.0, 84.0, 56.0, 64.0, 72.0, 0.0, 90.0, -90.0}), r.range(-2, 2)) : r.uniform(-90, 90);
  if (std::fabs(lat) > 90) lat = std::copysign(90.0, lat);
  double lon;
  switch (r.below(5)) {
    case 0: lon = r.uniform(-1e6, 1e6); break;
    case 1: lon = vh::ulps(std::floor(r.uniform(-180, 180)), r.range(-2, 2)) + 360.0 * std::floor(r.uniform(-2000, 2000)); break;
    case 2: lon = vh::ulps(6.0 * std::floor(r.uniform(-30, 31)), r.range(-2, 2)); break;
    case 3: lon = r.sign() * r.logu(1e-300, 1e15); break;
    default: lon = vh::ulps(r.pick({3.0, 9.0, 21.0, 33.0, 42.0, 6.0, 12.0, 180.0, -180.0, 540.0, -540.0}), r.range(-2, 2));
  }
  std::string cls = std::string("zone-random/") + regime(lat, lon);
  ctx.count(cls, vh::hmix(vh::hmix(12, lat), lon));
  if (ctx.want_sample(cls)) ctx.sample(cls, J().f("lat", lat).f("lon", lon));
  int sz = r.coin(0.6) ? r.range(-4, -1) : r.range(-5, 61);
  int got = ZS; bool threw = false; try { got = UTMUPS::StandardZone(lat, lon, sz); } catch (const GeographicErr&) { threw = true; }
  int want = 0; bool wthrow = false; try { want = spec::zone(lat, lon, sz); } catch (const std::out_of_range&) { wthrow = true; }
  if (threw != wthrow || (!threw && got != want)) ctx.viol(std::string("spec:C04/standardzone/") + (threw != wthrow ? "error-contract" : regime(lat, lon)), cls, J().f("lat", lat).f("lon", lon).i("setzone", sz).i("got", got).i("want", want).str("lon_hex", hexf(lon)));
  judge_forward_dec(ctx, lat, lon, sz, r.coin(), cls);
}

// ------------------------------------------------------------------ (b) projection values against REF
struct RefXY { bool ok; Q x, y, gamma, k; double sens, nucos, rho; };
static RefXY ref_forward(int zone, bool northp, double lat, double lon) {
  RefXY p; p.ok = false; p.sens = 1;
  LD s, co; ref::sincosd((LD)lat, s, co);
  LD e2 = (LD)WGS84_F * (2 - (LD)WGS84_F), w = 1 - e2 * s * s;
  p.rho = (double)((LD)WGS84_A * (1 - e2) / (w * std::sqrt(w))); p.nucos = (double)((LD)WGS84_A * co / std::sqrt(w));
  if (zone != spec::UPS) {
    ref::TM<Q> R((Q)WGS84_A, (Q)WGS84_F, (Q)spec::K0_UTM);
    Q dl = remainderq((Q)lon - (Q)spec::lon0(zone), 360);
    ref::TM<Q>::Res r = R.forward((Q)lat, dl);
    if (!r.ok) return p;
    p.ok = true; p.x = r.x + (Q)spec::FE_UTM; p.y = r.y + (northp ? (Q)0 : (Q)spec::FN_UTM_S); p.gamma = r.gamma; p.k = r.k; p.sens = (double)r.sens;
  } else {
    ref::PolarRes<Q> r = ref::polar_forward<Q>((Q)WGS84_A, (Q)WGS84_F, (Q)spec::K0_UPS, northp, (Q)lat, remainderq((Q)lon, 360));
    p.ok = true; p.x = r.x + (Q)spec::F_UPS; p.y = r.y + (Q)spec::F_UPS; p.gamma = r.gamma; p.k = r.k;
  }
  return p;
}
static double ground(const RefXY& p, double lat1, double lon1, double lat2, double lon2) {
  LD dphi = ((LD)lat2 - (LD)lat1) * (LD)DEGd, dl = (LD)remainderq((Q)lon2 - (Q)lon1, 360) * (LD)DEGd;
  return (double)std::hypot(dphi * (LD)p.rho, 2 * (LD)p.nucos * std::sin(dl / 2));
}
static std::string proj_class(int zone, bool northp, double lat, double dl) {
  if (zone == spec::UPS) return std::string("projection/ups-") + (northp ? "north" : "south") + (std::fabs(lat) >= 84 || lat < -80 ? "/standard-area" : "/overlap<84");
  return std::string("projection/utm-") + (northp ? "north" : "south") + (std::fabs(dl) <= 3 ? "/within-zone" : std::fabs(dl) <= 10 ? "/forced-zone<=10deg" : "/forced-zone>10deg");
}
static void judge_vs_ref(Ctx& ctx, const std::string& cls, const J& in, const RefXY& p, double x, double y, double g, double k, const char* dir) {
  double err = (double)(hypotq((Q)x - p.x, (Q)y - p.y) / p.k);
  ctx.obs(std::string(dir) + " position error [nm on the ground]", err * 1e9, in);
  if (!(err <= TOL_POS)) ctx.viol(std::string("oracle:C04/") + dir + "/position", cls, J(in).f("x", x).f("y", y).f("ref_x", (double)p.x).f("ref_y", (double)p.y).f("ground_err_m", err).f("tol_m", TOL_POS));
  double cond = TOL_POS / std::max(p.nucos, 1e-300);
  double tg = cond * p.sens + 16 * 2.2e-16, tk = cond * (p.sens + 1) + K_POS * 1e-13;
  double eg = (double)fabsq(remainderq((Q)g - p.gamma, 360)) * DEGd, ek = (double)fabsq((Q)k / p.k - 1);
  if (p.nucos < 1e-3) { eg = 0; }     // within a millimetre of the pole the convergence is arbitrary
  ctx.obs(std::string(dir) + " gamma error / tolerance", eg / tg, in);
  ctx.obs(std::string(dir) + " k relative error / tolerance", ek / tk, in);
  if (!(eg <= tg)) ctx.viol(std::string("oracle:C04/") + dir + "/gamma", cls, J(in).f("gamma", g).f("ref_gamma", (double)p.gamma).f("err_rad", eg).f("tol_rad", tg));
  if (!(ek <= tk)) ctx.viol(std::string("oracle:C04/") + dir + "/k", cls, J(in).f("k", k).f("ref_k", (double)p.k).f("err_rel", ek).f("tol_rel", tk));
}
static void sec_projection(Ctx& ctx, uint64_t) {
  vh::Rng& r = ctx.rng;
  double lat, lon; int setzone; bool mgrs = r.coin(0.3);
  int mode = (int)r.below(10);
  if (mode < 5) {            // standard zone
    lat = r.coin(0.15) ? vh::ulps(r.pick({-80.0, 84.0, 0.0, -0.0, 56.0, 64.0, 72.0}), r.range(-2, 2)) : r.uniform(-90, 90);
    lon = r.coin(0.2) ? vh::ulps(6.0 * std::floor(r.uniform(-30, 31)), r.range(-2, 2)) : r.uniform(-180, 180);
    setzone = r.coin(0.7) ? spec::STANDARD : (r.coin() ? spec::UTM : spec::MATCH);
  } else if (mode < 8) {     // forced UTM zone, off-centre by up to the rectangle's reach (and sometimes beyond)
    lat = r.coin(0.3) ? r.sign() * (90 - r.logu(1e-6, 10)) : r.uniform(-90, 90);
    setzone = r.range(1, 60);
    double reach = std::min(180.0, 4.6 / std::max(1e-9, std::cos(lat * DEGd)));
    double dl = r.coin(0.85) ? r.uniform(-1, 1) * reach : r.uniform(-1, 1) * std::min(180.0, 1.4 * reach + 2);
    if (r.coin(0.1)) dl = r.sign() * vh::ulps(60, r.range(-2, 2));
    lon = spec::lon0(setzone) + dl;
  } else {                   // forced UPS down to |lat| = 70 (and slightly beyond)
    lat = r.sign() * (r.coin(0.1) ? vh::ulps(70, r.range(-2, 2)) : r.uniform(69, 90));
    lon = r.uniform(-180, 180); setzone = spec::UPS;
  }
  if (std::fabs(lat) > 90) lat = std::copysign(90.0, lat);
  bool northp = !std::signbit(lat);
  int z = spec::zone(lat, lon, setzone);
  double dl = z > 0 ? (double)remainderq((Q)lon - (Q)spec::lon0(z), 360) : 0;
  std::string cls = proj_class(z, northp, lat, dl);
  ctx.count(cls, vh::hmix(vh::hmix(vh::hmix(13, lat), lon), (uint64_t)(setzone + 10) * 2 + mgrs));
  J in = J().f("lat", lat).f("lon", lon).i("setzone", setzone).b("mgrslimits", mgrs).str("lat_hex", hexf(lat)).str("lon_hex", hexf(lon));
  if (ctx.want_sample(cls)) ctx.sample(cls, in);
  FwdOut o = call_forward(ctx, lat, lon, setzone, mgrs, cls, in);
  RefXY p = ref_forward(z, northp, lat, lon);
  if (!p.ok) { ctx.event("projection: REF not available (near TM branch point), laws only"); if (!o.threw) ctx.viol("range:C04/forward/accepted-near-TM-singularity", cls, in); return; }
  spec::Rect rc = spec::rect(z != spec::UPS, northp, mgrs);
  double dep = spec::depth(rc, (double)p.x, (double)p.y);
  double edge_tol = TOL_POS * (double)p.k;           // 5 nm K on the ground = that times k on the grid
  if (o.threw) {
    if (dep > edge_tol) ctx.viol("range:C04/forward/rejected-although-inside-documented-rectangle", cls, J(in).str("what", o.what).i("zone", z).f("ref_x", (double)p.x).f("ref_y", (double)p.y).f("depth_m", dep));
    else ctx.event("projection: rejected, REF outside rectangle");
    return;
  }
  if (dep < -edge_tol) { ctx.viol("range:C04/forward/accepted-although-outside-documented-rectangle", cls, J(in).f("x", o.x).f("y", o.y).f("depth_m", dep)); return; }
  if (o.zone != z) { ctx.viol("spec:C04/forward/zone", cls, J(in).i("zone", o.zone).i("want", z)); return; }
  if (o.northp != northp) ctx.viol("spec:C04/forward/hemisphere", cls, J(in).b("northp", o.northp));
  if (!spec::inside(rc, o.x, o.y)) ctx.viol("range:C04/forward/result-outside-rectangle", cls, J(in).f("x", o.x).f("y", o.y));
  judge_vs_ref(ctx, cls, in, p, o.x, o.y, o.g, o.k, "forward");
  // closure + round trip: Reverse must accept whatever Forward produced
  RevOut v = call_reverse(ctx, o.zone, o.northp, o.x, o.y, mgrs, cls, in);
  if (v.threw) { ctx.viol("closure:C04/reverse-rejects-forward-output", cls, J(in).f("x", o.x).f("y", o.y).str("what", v.what)); return; }
  double d = ground(p, lat, lon, v.lat, v.lon);
  ctx.obs("Reverse(Forward) ground displacement [nm]", d * 1e9, in);
  if (!(d <= 2 * TOL_POS)) ctx.viol("law:C04/roundtrip-reverse-forward", cls, J(in).f("lat2", v.lat).f("lon2", v.lon).f("ground_m", d));
  if (!(v.lon >= -180 && v.lon <= 180 && std::fabs(v.lat) <= 90)) ctx.viol("law:C04/reverse/range-of-result", cls, J(in).f("lat2", v.lat).f("lon2", v.lon));
  // gamma, k from Reverse (same point to within nm)
  {
    double cond = 2 * TOL_POS / std::max(p.nucos, 1e-300), tg = cond * p.sens + 16 * 2.2e-16, tk = cond * (p.sens + 1) + K_POS * 1e-13;
    double eg = (double)fabsq(remainderq((Q)v.g - p.gamma, 360)) * DEGd, ek = (double)fabsq((Q)v.k / p.k - 1);
    if (p.nucos < 1e-3) eg = 0;
    ctx.obs("reverse gamma error / tolerance", eg / tg, in); ctx.obs("reverse k relative error / tolerance", ek / tk, in);
    if (!(eg <= tg)) ctx.viol("oracle:C04/reverse/gamma", cls, J(in).f("gamma", v.g).f("ref_gamma", (double)p.gamma).f("err_rad", eg).f("tol_rad", tg));
    if (!(ek <= tk)) ctx.viol("oracle:C04/reverse/k", cls, J(in).f("k", v.k).f("ref_k", (double)p.k).f("err_rel", ek).f("tol_rel", tk));
  }
}

// ------------------------------------------------------------------ Reverse on independent grid coordinates, then Forward
static void sec_reverse(Ctx& ctx, uint64_t) {
  vh::Rng& r = ctx.rng;
  bool utm = r.coin(0.7), northp = r.coin(), mgrs = r.coin(0.3);
  int zone = utm ? r.range(1, 60) : 0;
  spec::Rect rc = spec::rect(utm, northp, mgrs);
  double x, y;
  if (utm) {
    x = r.uniform(rc.x0, rc.x1);
    // keep to the part of the rectangle that is an image of the ellipsoid near the zone (|y| below the pole's northing)
    y = r.coin(0.7) ? (northp ? r.uniform(0, 9.3e6) : r.uniform(1.1e6, 1e7)) : r.uniform(rc.y0, rc.y1);
  } else { x = r.uniform(rc.x0, rc.x1); y = r.uniform(rc.y0, rc.y1); }
  std::string cls = std::string("reverse/") + (utm ? "utm-" : "ups-") + (northp ? "north" : "south") + (mgrs ? "/mgrslimits" : "");
  if (utm && ((northp && y < 0) || (!northp && y > 1e7))) cls += "/continued-across-equator";
  ctx.count(cls, vh::hmix(vh::hmix(vh::hmix(14, x), y), (uint64_t)zone * 4 + northp * 2 + mgrs));
  J in = J().i("zone", zone).b("northp", northp).f("x", x).f("y", y).b("mgrslimits", mgrs).str("x_hex", hexf(x)).str("y_hex", hexf(y));
  if (ctx.want_sample(cls)) ctx.sample(cls, in);
  RevOut v = call_reverse(ctx, zone, northp, x, y, mgrs, cls, in);
  if (v.threw) { ctx.viol("range:C04/reverse/rejected-although-inside-documented-rectangle", cls, J(in).str("what", v.what)); return; }
  if (!(std::fabs(v.lat) <= 90 && v.lon >= -180 && v.lon <= 180)) { ctx.viol("law:C04/reverse/range-of-result", cls, J(in).f("lat", v.lat).f("lon", v.lon)); return; }
  // REF at the returned point, in the frame (zone, northp) of the input (northing continued across the equator)
  bool np_pt = !std::signbit(v.lat);
  RefXY p = ref_forward(zone, utm ? np_pt : northp, v.lat, v.lon);
  if (!p.ok) { ctx.event("reverse: REF not available at the returned point"); return; }
  if (utm && np_pt != northp) p.y += northp ? -(Q)spec::FN_UTM_S : (Q)spec::FN_UTM_S;
  if (!utm && np_pt != northp) { ctx.event("reverse: UPS point beyond the equator"); return; }
  // representational slack: lat/lon are rounded to binary64
  double slack = (p.rho * ref::ulp_d(std::max(std::fabs(v.lat), 1e-300)) / 2 + p.nucos * ref::ulp_d(std::max(std::fabs(v.lon), 1e-300)) / 2) * DEGd;
  double err = (double)(hypotq((Q)x - p.x, (Q)y - p.y) / p.k);
  ctx.obs("reverse(x,y) position error [nm on the ground] (incl. lat/lon rounding)", err * 1e9, in);
  if (!(err <= TOL_POS + slack)) ctx.viol("oracle:C04/reverse/position", cls, J(in).f("lat", v.lat).f("lon", v.lon).f("ref_x", (double)p.x).f("ref_y", (double)p.y).f("ground_err_m", err).f("tol_m", TOL_POS + slack));
  {
    double cond = (TOL_POS + slack) / std::max(p.nucos, 1e-300), tg = cond * p.sens + 16 * 2.2e-16, tk = cond * (p.sens + 1) + K_POS * 1e-13;
    double eg = (double)fabsq(remainderq((Q)v.g - p.gamma, 360)) * DEGd, ek = (double)fabsq((Q)v.k / p.k - 1);
    if (p.nucos < 1e-3) eg = 0;
    ctx.obs("reverse(x,y) gamma error / tolerance", eg / tg, in); ctx.obs("reverse(x,y) k relative error / tolerance", ek / tk, in);
    if (!(eg <= tg)) ctx.viol("oracle:C04/reverse/gamma", cls, J(in).f("gamma", v.g).f("ref_gamma", (double)p.gamma).f("err_rad", eg).f("tol_rad", tg));
    if (!(ek <= tk)) ctx.viol("oracle:C04/reverse/k", cls, J(in).f("k", v.k).f("ref_k", (double)p.k).f("err_rel", ek).f("tol_rel", tk));
  }
  // Forward o Reverse with the same zone: closed for points >= 5 nm K inside the rectangle of the hemisphere Forward will choose
  spec::Rect rf = spec::rect(utm, np_pt, mgrs);
  double yf = y + ((utm && np_pt != northp) ? (northp ? spec::FN_UTM_S : -spec::FN_UTM_S) : 0);
  double dep = spec::depth(rf, x, yf), edge_tol = 2 * TOL_POS * (double)p.k + 4 * ref::ulp_d(std::max(std::fabs(x), std::fabs(yf)));
  FwdOut o = call_forward(ctx, v.lat, v.lon, zone, mgrs, cls, in);
  if (o.threw) {
    // the only documented reason: the point is within 5 nm of the edge.  (The undocumented |dlon| > 60 pre-check is reported by its own key.)
    if (dep > edge_tol) ctx.viol(o.what.find("more than 60d") != std::string::npos ? "range:C04/forward/rejected-although-inside-documented-rectangle" : "closure:C04/forward-rejects-reverse-output", cls, J(in).f("lat", v.lat).f("lon", v.lon).str("what", o.what).f("depth_m", dep));
    else ctx.event("Forward(Reverse): rejected within 5 nm K of the edge (documented)");
    return;
  }
  if (o.zone != zone || o.northp != np_pt) ctx.viol("law:C04/forward-of-reverse/zone-or-hemisphere", cls, J(in).i("zone2", o.zone).b("northp2", o.northp));
  double d = std::hypot(o.x - x, o.y - yf) / (double)p.k;
  ctx.obs("Forward(Reverse) ground displacement [nm]", d * 1e9, in);
  if (!(d <= 2 * TOL_POS + slack)) ctx.viol("law:C04/roundtrip-forward-reverse", cls, J(in).f("x2", o.x).f("y2", o.y).f("ground_m", d));
}

// ------------------------------------------------------------------ (c) the eight documented rectangles, closed-edge semantics (Reverse side)
static void sec_rectangles(Ctx& ctx, uint64_t idx) {
  // idx -> rectangle (8) x edge position (4 edges x 13 positions) x perpendicular offset (5: -2ulp.. via {-1ulp,0,+1ulp} + 1 mm in/out)
  int ri = (int)(idx % 8); uint64_t t = idx / 8;
  int pos = (int)(t % 52); t /= 52;
  int off = (int)(t % 5); t /= 5;
  int zi = (int)t;   // zone variant for UTM
  bool utm = ri >= 4, northp = ri & 1, mgrs = (ri >> 1) & 1;
  static const int zones[] = {1, 31, 32, 60, 17};
  if (zi >= 5 || (!utm && zi > 0)) return;
  int zone = utm ? zones[zi] : 0;
  spec::Rect rc = spec::rect(utm, northp, mgrs);
  int edge = pos / 13, s = pos % 13;
  double fr = s / 12.0;   // 0 and 12 are the corners
  double x, y;
  auto perp = [&](double v, int dir) {   // dir = +1: outward is increasing
    switch (off) { case 0: return vh::ulps(v, -1); case 1: return v; case 2: return vh::ulps(v, 1); case 3: return v - dir * 1e-3; default: return v + dir * 1e-3; } };
  switch (edge) {
    case 0: x = perp(rc.x0, -1); y = rc.y0 + fr * (rc.y1 - rc.y0); break;
    case 1: x = perp(rc.x1, +1); y = rc.y0 + fr * (rc.y1 - rc.y0); break;
    case 2: y = perp(rc.y0, -1); x = rc.x0 + fr * (rc.x1 - rc.x0); break;
    default: y = perp(rc.y1, +1); x = rc.x0 + fr * (rc.x1 - rc.x0); break;
  }
  std::string cls = std::string("rectangle/") + (utm ? "utm-" : "ups-") + (northp ? "north" : "south") + (mgrs ? "/mgrslimits" : "/100km-slop") + (s == 0 || s == 12 ? "/corner" : "/edge");
  ctx.count(cls, vh::hmix(vh::hmix(vh::hmix(15, x), y), (uint64_t)zone * 8 + ri));
  J in = J().i("zone", zone).b("northp", northp).f("x", x).f("y", y).b("mgrslimits", mgrs).str("x_hex", hexf(x)).str("y_hex", hexf(y));
  if (ctx.want_sample(cls)) ctx.sample(cls, in);
  bool want = spec::inside(rc, x, y);
  RevOut v = call_reverse(ctx, zone, northp, x, y, mgrs, cls, in);
  ctx.event(want ? "rectangle: points on/inside the closed edge" : "rectangle: points outside");
  if (v.threw && want) ctx.viol("range:C04/reverse/rejected-although-inside-documented-rectangle", cls, J(in).str("what", v.what));
  if (!v.threw && !want) ctx.viol("range:C04/reverse/accepted-although-outside-documented-rectangle", cls, J(in).f("lat", v.lat).f("lon", v.lon));
  if (!v.threw && want) {
    // decomposition: Reverse == projection reverse of (x - FE, y - FN)
    double la, lo, g, k;
    if (utm) TransverseMercator::UTM().Reverse(spec::lon0(zone), x - spec::FE_UTM, y - (northp ? 0 : spec::FN_UTM_S), la, lo, g, k);
    else PolarStereographic::UPS().Reverse(northp, x - spec::F_UPS, y - spec::F_UPS, la, lo, g, k);
    auto eq = [](double a, double b) { return same(a, b) || (std::isnan(a) && std::isnan(b)); };
    if (!(eq(la, v.lat) && eq(lo, v.lon) && eq(g, v.g) && eq(k, v.k))) ctx.viol("spec:C04/reverse/not-projection-minus-standard-false-origin", cls, J(in).f("lat", v.lat).f("want_lat", la).f("lon", v.lon).f("want_lon", lo));
  }
  // the mgrslimits flag of the other value must give the other rectangle's answer
  {
    spec::Rect r2 = spec::rect(utm, northp, !mgrs);
    RevOut w = call_reverse(ctx, zone, northp, x, y, !mgrs, cls, in);
    if (w.threw == spec::inside(r2, x, y)) ctx.viol("range:C04/reverse/mgrslimits-flag", cls, J(in).b("threw", w.threw));
  }
}
static uint64_t n_rectangles() { return 8ull * 52 * 5 * 5; }

// ------------------------------------------------------------------ (c') Forward side of the closed edges: locate the crossing by bisection
// Along a meridian/parallel find adjacent doubles between which the projected coordinate crosses a rectangle limit, then
// probe the neighbourhood: acceptance must flip exactly where (projection + false origin) crosses the closed limit.
static void sec_forward_edges(Ctx& ctx, uint64_t idx) {
  vh::Rng& r = ctx.rng;
  int kind = (int)(idx % 6);
  bool mgrs = (idx / 6) & 1;
  double lat, lon; int setzone; bool vary_lat; double lo, hi;
  switch (kind) {
    case 0: setzone = r.range(1, 60); lon = spec::lon0(setzone) + r.uniform(-3, 3); vary_lat = true; lo = 80; hi = 89.9; lat = 0; break;       // UTM north: y max
    case 1: setzone = r.range(1, 60); lon = spec::lon0(setzone) + r.uniform(-3, 3); vary_lat = true; lo = -89.9; hi = -75; lat = 0; break;    // UTM south: y min
    case 2: setzone = r.range(1, 60); lat = r.uniform(-60, 60); vary_lat = false; lo = spec::lon0(setzone) + 0.5; hi = spec::lon0(setzone) + 40; lon = 0; break;   // x max
    case 3: setzone = r.range(1, 60); lat = r.uniform(-60, 60); vary_lat = false; lo = spec::lon0(setzone) - 40; hi = spec::lon0(setzone) - 0.5; lon = 0; break;   // x min
    case 4: setzone = 0; lon = r.pick({0.0, 90.0, 180.0, -90.0, 45.0, 135.0}) + (r.coin() ? 0.0 : r.uniform(-20, 20)); vary_lat = true; lo = 70.5; hi = 89; lat = 0; break;     // UPS north edge
    default: setzone = 0; lon = r.pick({0.0, 90.0, 180.0, -90.0, -45.0, -135.0}) + (r.coin() ? 0.0 : r.uniform(-20, 20)); vary_lat = true; lo = -89; hi = -70.5; lat = 0; break;  // UPS south edge
  }
  auto acc = [&](double v) { Dec d = decompose(vary_lat ? v : lat, vary_lat ? lon : v, setzone, mgrs); return d.accept; };
  bool alo = acc(lo), ahi = acc(hi);
  std::string cls = std::string("forward-edge/") + (kind < 2 ? "utm-northing" : kind < 4 ? "utm-easting" : "ups") + (mgrs ? "/mgrslimits" : "/100km-slop");
  if (alo == ahi) { ctx.count(cls + "/no-crossing-in-bracket", idx, true); return; }
  for (int it = 0; it < 200 && vh::ulps(lo, 1) < hi; ++it) { double m = lo + (hi - lo) / 2; if (m <= lo || m >= hi) break; (acc(m) == alo ? lo : hi) = m; }
  ctx.count(cls, vh::hmix(vh::hmix(vh::hmix(16, lo), vary_lat ? lon : lat), (uint64_t)setzone * 2 + mgrs));
  if (ctx.want_sample(cls)) ctx.sample(cls, J().f("crossing_between", lo).f("and", hi).i("setzone", setzone).f(vary_lat ? "lon" : "lat", vary_lat ? lon : lat));
  for (int u = -4; u <= 5; ++u) { double v = vh::ulps(lo, u); judge_forward_dec(ctx, vary_lat ? v : lat, vary_lat ? lon : v, setzone, mgrs, cls); }
  ctx.event("forward-edge: ulp-neighbourhoods of an acceptance boundary probed");
}

// ------------------------------------------------------------------ (d) Transfer
static void sec_transfer(Ctx& ctx, uint64_t) {
  vh::Rng& r = ctx.rng;
  // a legal input coordinate: project a random geographic point
  double lat = r.coin(0.2) ? r.sign() * r.uniform(78, 90) : r.uniform(-84, 84), lon = r.uniform(-180, 180);
  int z0 = spec::zone(lat, lon, spec::STANDARD), zin = z0;
  if (z0 > 0 && r.coin(0.3)) zin = (z0 - 1 + r.range(-1, 1) + 60) % 60 + 1;
  int zi; bool npin; double xin, yin;
  try { UTMUPS::Forward(lat, lon, zi, npin, xin, yin, zin); } catch (const GeographicErr&) { ctx.count("transfer/input-not-representable", 0, true); return; }
  // the same UTM point given in the OTHER hemisphere's convention (northing continued across the equator: documented as legal,
  // e.g. northp = true with y < 0): the flag of the input then disagrees with the hemisphere the point is in
  bool continued = false;
  if (zi > 0 && r.coin(0.4)) { npin = !npin; yin += npin ? -spec::FN_UTM_S : spec::FN_UTM_S; continued = true; }
  int zoneout;
  switch (r.below(8)) { case 0: zoneout = zin; break; case 1: zoneout = spec::MATCH; break; case 2: zoneout = spec::STANDARD; break; case 3: zoneout = spec::UTM; break;
    case 4: zoneout = zin > 0 ? (zin - 1 + r.range(-1, 1) + 60) % 60 + 1 : 0; break; case 5: zoneout = r.range(-5, 61); break; case 6: zoneout = 0; break; default: zoneout = spec::INVALID; }
  bool npout = r.coin(0.7) ? npin : !npin;
  if (r.coin(0.03)) { zin = r.coin() ? 61 : -1; }        // illegal zonein
  if (r.coin(0.03)) { zin = spec::INVALID; }
  std::string cls = std::string("transfer/") + (zin == spec::INVALID ? "invalid-in" : zin < 0 || zin > 60 ? "illegal-zonein" : zin == 0 ? "from-ups" : "from-utm") + "/" +
    (zoneout < -4 || zoneout > 60 ? "illegal-zoneout" : zoneout == spec::INVALID ? "to-invalid" : zoneout < 0 ? "to-pseudozone" : zoneout == 0 ? "to-ups" : zoneout == zin ? "same-zone" : "to-other-utm") + (npout != npin ? "/hemisphere-change" : "") + (continued ? "/continued-northing-in" : "");
  ctx.count(cls, vh::hmix(vh::hmix(vh::hmix(17, xin), yin), (uint64_t)(zin + 8) * 1000 + (zoneout + 8) * 4 + npin * 2 + npout));
  J in = J().i("zonein", zin).b("northpin", npin).f("xin", xin).f("yin", yin).i("zoneout", zoneout).b("northpout", npout);
  if (ctx.want_sample(cls)) ctx.sample(cls, in);
  double xo = vh::sentinel(1), yo = vh::sentinel(2); int zo = ZS; bool threw = false; std::string what;
  try { UTMUPS::Transfer(zin, npin, xin, yin, zoneout, npout, xo, yo, zo); }
  catch (const GeographicErr& e) { threw = true; what = e.what(); }
  catch (const std::exception& e) { threw = true; ctx.viol("exception:C04/transfer/non-library-exception", cls, J(in).str("what", e.what())); }
  if (threw && !(vh::is_sentinel(xo, 1) && vh::is_sentinel(yo, 2) && zo == ZS)) ctx.viol("sentinel:C04/transfer/output-modified-by-throwing-call", cls, J(in).str("what", what).f("xout", xo).f("yout", yo).i("zone", zo));
  // expectation: go through geographic coordinates (the operations themselves are judged in the other sections)
  bool wthrow = false; double wx = NaN, wy = NaN; int wz = 0;
  try {
    if (zin != zoneout) {
      double la, lo; UTMUPS::Reverse(zin, npin, xin, yin, la, lo);
      int z1; bool np1; double x1, y1;
      UTMUPS::Forward(la, lo, z1, np1, x1, y1, zoneout == spec::MATCH ? zin : zoneout);
      if (z1 == 0 && np1 != npout) throw GeographicErr("UPS hemisphere");
      wz = z1; wx = x1; wy = y1;
      if (np1 != npout) wy += npout ? -spec::FN_UTM_S : spec::FN_UTM_S;
    } else {
      if (zoneout == 0 && npin != npout) throw GeographicErr("UPS hemisphere");
      wz = zoneout; wx = xin; wy = yin;
      if (npin != npout) wy += npout ? -spec::FN_UTM_S : spec::FN_UTM_S;
    }
  } catch (const GeographicErr&) { wthrow = true; }
  if (threw != wthrow) { ctx.viol("law:C04/transfer/error-contract-differs-from-forward-of-reverse", cls, J(in).b("threw", threw).str("what", what)); return; }
  if (threw) { ctx.event("transfer: throwing calls (outputs verified untouched)"); return; }
  auto eq = [](double a, double b) { return same(a, b) || (std::isnan(a) && std::isnan(b)); };
  if (!(zo == wz && eq(xo, wx) && eq(yo, wy))) ctx.viol("law:C04/transfer/differs-from-forward-of-reverse", cls, J(in).f("xout", xo).f("want_x", wx).f("yout", yo).f("want_y", wy).i("zone", zo).i("want_zone", wz));
  if (zoneout >= 0 && zoneout <= 60 && zo != zoneout) ctx.viol("law:C04/transfer/zone-not-zoneout", cls, J(in).i("zone", zo));
  {   // documented: (xout, yout) may overlap (xin, yin)
    double xa = xin, ya = yin; int za = ZS;
    try { UTMUPS::Transfer(zin, npin, xa, ya, zoneout, npout, xa, ya, za); } catch (const GeographicErr&) { za = ZS - 1; }
    if (!(za == zo && eq(xa, xo) && eq(ya, yo))) ctx.viol("law:C04/transfer/aliased-arguments-differ", cls, J(in).f("xout", xo).f("x_aliased", xa).f("yout", yo).f("y_aliased", ya));
  }
  // same geographic point: Reverse of the output (in its frame) returns the original lat/lon to 2 x 5 nm K
  if (zo >= 0 && zin >= 0 && zin <= 60 && std::isfinite(xo) && std::isfinite(yo)) {
    double la, lo, g, k; bool ok = true;
    try { UTMUPS::Reverse(zo, npout, xo, yo, la, lo, g, k); } catch (const GeographicErr&) { ok = false; }
    if (ok) {
      RefXY m; LD s, co; ref::sincosd((LD)lat, s, co); LD e2 = (LD)WGS84_F * (2 - (LD)WGS84_F), w = 1 - e2 * s * s;
      m.rho = (double)((LD)WGS84_A * (1 - e2) / (w * std::sqrt(w))); m.nucos = (double)((LD)WGS84_A * co / std::sqrt(w));
      double d = ground(m, lat, lon, la, lo);
      ctx.obs("Transfer: ground distance between source point and Reverse(output) [nm]", d * 1e9, in);
      if (!(d <= 4 * TOL_POS)) ctx.viol("law:C04/transfer/not-the-same-geographic-point", cls, J(in).f("lat", lat).f("lon", lon).f("lat2", la).f("lon2", lo).f("ground_m", d));
    } else ctx.event("transfer: output outside the rectangle of the requested hemisphere (continued northing)");
  }
}

// ------------------------------------------------------------------ (e) zone strings and EPSG codes
static const char ALPHA[] = {'0','1','2','3','4','5','6','7','8','9','n','s','o','r','t','h','u','i','v','a','l','d','N','S','+','-',' ','\0','e'};
static const int NALPHA = sizeof ALPHA;
static void check_decode(Ctx& ctx, const std::string& s, const std::string& cls, uint64_t& nlegal) {
  int z = ZS; bool np = (s.size() & 1), np0 = np, threw = false;
  try { UTMUPS::DecodeZone(s, z, np); } catch (const GeographicErr&) { threw = true; }
  catch (const std::exception& e) { threw = true; ctx.viol("exception:C04/decodezone/non-library-exception", cls, J().str("s", s).str("what", e.what())); }
  int wz = 0; bool wn = false; bool legal = spec::decode(s, wz, wn);
  if (legal) ++nlegal;
  if (threw == legal) ctx.viol(legal ? "spec:C04/decodezone/legal-string-rejected" : "spec:C04/decodezone/illegal-string-accepted", cls, J().str("s", s).i("zone", z).b("northp", np));
  else if (!threw && (z != wz || np != wn)) ctx.viol("spec:C04/decodezone/wrong-value", cls, J().str("s", s).i("zone", z).b("northp", np).i("want_zone", wz).b("want_northp", wn));
  if (threw && (z != ZS || np != np0)) ctx.viol("sentinel:C04/decodezone/output-modified-by-throwing-call", cls, J().str("s", s).i("zone", z));
  if (!threw && legal) {   // re-encode: canonical form decodes to the same
    for (int ab = 0; ab < 2; ++ab) {
      std::string e = UTMUPS::EncodeZone(z, np, ab); int z2; bool n2; UTMUPS::DecodeZone(e, z2, n2);
      if (z2 != z || n2 != np) ctx.viol("law:C04/zone-string-roundtrip", cls, J().str("s", s).str("encoded", e));
    }
  }
}
static void sec_strings_exh(Ctx& ctx, uint64_t idx) {
  std::string cls = "zone-string/exhaustive-len<=4";
  uint64_t n = 0, nlegal = 0;
  if (idx == (uint64_t)NALPHA * NALPHA) {        // lengths 0 and 1
    check_decode(ctx, "", cls, nlegal); ++n;
    for (int a = 0; a < NALPHA; ++a) { check_decode(ctx, std::string(1, ALPHA[a]), cls, nlegal); ++n; }
  } else {
    std::string p; p += ALPHA[idx / NALPHA]; p += ALPHA[idx % NALPHA];
    check_decode(ctx, p, cls, nlegal); ++n;
    for (int a = 0; a < NALPHA; ++a) {
      std::string q = p + ALPHA[a]; check_decode(ctx, q, cls, nlegal); ++n;
      for (int b = 0; b < NALPHA; ++b) { check_decode(ctx, q + ALPHA[b], cls, nlegal); ++n; }
    }
  }
  ctx.count(cls, vh::hmix(18, idx));
  ctx.event("zone-string: strings decoded (exhaustive part)", n);
  ctx.event("zone-string: legal strings among them", nlegal);
}
static void sec_strings_rand(Ctx& ctx, uint64_t idx) {
  vh::Rng& r = ctx.rng; std::string s, cls; uint64_t nl = 0;
  switch (r.below(4)) {
    case 0: { int len = r.range(5, 8); for (int i = 0; i < len; ++i) s += ALPHA[r.below(NALPHA)]; cls = "zone-string/random-alphabet-len5-8"; break; }
    case 1: { // legal string, random case
      int z = r.range(0, 60); char b[8] = ""; if (z) std::snprintf(b, sizeof b, r.coin() ? "%02d" : "%d", z);
      s = std::string(b) + r.pick({"n", "s", "north", "south"}); for (auto& ch : s) if (r.coin(0.3)) ch = (char)std::toupper((unsigned char)ch);
      if (r.coin(0.1)) s = r.coin() ? "inv" : "INVALID"; cls = "zone-string/legal"; break; }
    case 2: { // one mutation of a legal string
      int z = r.range(0, 99); char b[8] = ""; if (z) std::snprintf(b, sizeof b, r.coin() ? "%02d" : "%d", z);
      s = std::string(b) + r.pick({"n", "s", "north", "south", "inv", "invalid"});
      int m = (int)r.below(4); size_t pos = s.empty() ? 0 : r.below(s.size() + 1);
      if (m == 0) s.insert(pos, 1, ALPHA[r.below(NALPHA)]); else if (m == 1 && !s.empty()) s.erase(std::min(pos, s.size() - 1), 1); else if (m == 2 && !s.empty()) s[std::min(pos, s.size() - 1)] = ALPHA[r.below(NALPHA)]; else s = " " + s;
      cls = "zone-string/mutated"; break; }
    default: { int len = r.range(0, 8); for (int i = 0; i < len; ++i) s += (char)r.below(256); cls = "zone-string/random-bytes"; }
  }
  ctx.count(cls, vh::hmixs(19, s));
  if (ctx.want_sample(cls)) ctx.sample(cls, J().str("s", s));
  check_decode(ctx, s, cls, nl);
  (void)idx;
}
static void sec_encode_epsg(Ctx& ctx, uint64_t idx) {
  if (idx == 0) {           // EncodeZone over all zones incl. illegal
    for (int z = -8; z <= 64; ++z) for (int np = 0; np < 2; ++np) for (int ab = 0; ab < 2; ++ab) {
      std::string got, want; bool threw = false; bool legal = spec::encode(z, np, ab, want);
      try { got = UTMUPS::EncodeZone(z, np, ab); } catch (const GeographicErr&) { threw = true; }
      ctx.count("encodezone/all-zones", vh::hmix(20, (uint64_t)((z + 8) * 4 + np * 2 + ab)));
      if (threw == legal || (!threw && got != want)) ctx.viol("spec:C04/encodezone", "encodezone/all-zones", J().i("zone", z).b("northp", np).b("abbrev", ab).str("got", got).str("want", want).b("threw", threw));
      if (!threw) { int z2 = ZS; bool n2 = !np; UTMUPS::DecodeZone(got, z2, n2); if (z2 != z || (z != spec::INVALID && n2 != (bool)np)) ctx.viol("law:C04/zone-string-roundtrip", "encodezone/all-zones", J().i("zone", z).str("encoded", got)); }
    }
    // EncodeEPSG over all zones
    for (int z = -8; z <= 64; ++z) for (int np = 0; np < 2; ++np) {
      int got = UTMUPS::EncodeEPSG(z, np), want = spec::encode_epsg(z, np);
      ctx.count("epsg/encode-all-zones", vh::hmix(21, (uint64_t)((z + 8) * 2 + np)));
      if (got != want) ctx.viol("spec:C04/encodeepsg", "epsg/encode-all-zones", J().i("zone", z).b("northp", np).i("got", got).i("want", want));
      if (got >= 0) { int z2; bool n2; UTMUPS::DecodeEPSG(got, z2, n2); if (z2 != z || n2 != (bool)np) ctx.viol("law:C04/epsg-roundtrip", "epsg/encode-all-zones", J().i("zone", z).i("epsg", got)); }
    }
    return;
  }
  int e;
  std::string cls;
  if (idx <= 181) { e = 32590 + (int)(idx - 1); cls = "epsg/decode-exhaustive-32590..32770"; }
  else { vh::Rng& r = ctx.rng; switch (r.below(4)) { case 0: e = (int)r.next(); break; case 1: e = r.pick({INT_MIN, INT_MAX, 0, -1, 4326, 32600, 32662, 32700, 32762}); break; case 2: e = r.range(30000, 35000); break; default: e = r.range(-100000, 100000); } cls = "epsg/decode-random"; }
  ctx.count(cls, vh::hmix(22, (uint64_t)(uint32_t)e));
  int z = ZS; bool np = true; UTMUPS::DecodeEPSG(e, z, np);
  int wz; bool wn; spec::decode_epsg(e, wz, wn);
  if (z != wz || np != wn) ctx.viol("spec:C04/decodeepsg", cls, J().i("epsg", e).i("zone", z).b("northp", np).i("want_zone", wz).b("want_northp", wn));
  if (z != spec::INVALID && UTMUPS::EncodeEPSG(z, np) != e) ctx.viol("law:C04/epsg-roundtrip", cls, J().i("epsg", e));
}

// ------------------------------------------------------------------ (f) NaN / infinity policy
static void sec_nan(Ctx& ctx, uint64_t idx) {
  vh::Rng& r = ctx.rng;
  double lat = r.uniform(-90, 90), lon = r.uniform(-180, 180);
  int which = (int)(idx % 6); bool mgrs = r.coin();
  if (which < 3) {
    int sz = which == 0 ? r.range(-4, -1) : (idx / 6) % 2 ? r.range(-4, -1) : r.range(0, 60);
    double la = which == 0 || which == 2 ? NaN : lat, lo = which == 1 || which == 2 ? (r.coin(0.6) ? NaN : r.sign() * INF) : lon;
    std::string cls = std::string("nan/forward/") + (std::isnan(la) ? "lat" : "") + (std::isnan(lo) ? "lon" : std::isinf(lo) ? "lon-inf" : "") + (sz < 0 ? "/pseudo-zone" : "/forced-zone");
    ctx.count(cls, vh::hmix(vh::hmix(23, (uint64_t)(which * 100 + sz + 10)), lon));
    J in = J().f("lat", la).f("lon", lo).i("setzone", sz).b("mgrslimits", mgrs);
    if (ctx.want_sample(cls)) ctx.sample(cls, in);
    FwdOut o = call_forward(ctx, la, lo, sz, mgrs, cls, in);
    if (o.threw && sz == 0 && std::fabs(la) < 70) { ctx.event("nan: forced UPS with a finite latitude more than 20 deg from the pole rejected (legitimate range error)"); return; }
    if (o.threw) { ctx.viol(sz < 0 ? "nan:C04/forward/throws-on-nan" : "nan:C04/forward/forced-zone-throws-on-nan", cls, J(in).str("what", o.what)); return; }
    // pseudo-zone: everything NaN; forced zone: the coordinates must be NaN (gamma / k may legitimately not depend on the NaN argument, e.g. k of UPS on lon)
    if (!(std::isnan(o.x) && std::isnan(o.y) && (sz >= 0 || (std::isnan(o.g) && std::isnan(o.k))))) ctx.viol("nan:C04/forward/finite-output-from-nan-input", cls, J(in).f("x", o.x).f("y", o.y).f("gamma", o.g).f("k", o.k));
    if (sz >= 0 && !(std::isnan(o.g) && std::isnan(o.k))) ctx.event("nan: forced zone, gamma or k finite because independent of the NaN argument");
    if (sz < 0 || sz == spec::INVALID) { if (o.zone != spec::INVALID) ctx.viol("nan:C04/forward/zone-not-INVALID", cls, J(in).i("zone", o.zone)); }
    else { if (o.zone != sz && o.zone != spec::INVALID) ctx.viol("nan:C04/forward/zone-not-INVALID", cls, J(in).i("zone", o.zone)); ctx.event(o.zone == sz ? "nan: forced zone returned with NaN coordinates" : "nan: INVALID returned for forced zone"); }
    // StandardZone
    int z = 0; try { z = UTMUPS::StandardZone(la, lo, sz); } catch (const GeographicErr&) { ctx.viol("nan:C04/standardzone/throws-on-nan", cls, in); }
    if (z != spec::zone(la, lo, sz)) ctx.viol("nan:C04/standardzone/value", cls, J(in).i("zone", z));
  } else if (which < 5) {
    int zone = which == 3 ? r.range(0, 60) : spec::INVALID; bool np = r.coin();
    double x = which == 3 ? (r.coin() ? NaN : 500000.0) : 500000.0, y = (which == 3 && !std::isnan(x)) ? NaN : (r.coin(0.3) ? NaN : 1e6);
    std::string cls = which == 3 ? "nan/reverse/nan-coordinate" : "nan/reverse/INVALID-zone";
    ctx.count(cls, vh::hmix(vh::hmix(24, (uint64_t)(zone + 10)), lon));
    J in = J().i("zone", zone).b("northp", np).f("x", x).f("y", y);
    if (ctx.want_sample(cls)) ctx.sample(cls, in);
    RevOut v = call_reverse(ctx, zone, np, x, y, mgrs, cls, in);
    if (v.threw) ctx.viol("nan:C04/reverse/throws-on-nan", cls, J(in).str("what", v.what));
    else if (!(std::isnan(v.lat) && std::isnan(v.lon) && std::isnan(v.g) && std::isnan(v.k))) ctx.viol("nan:C04/reverse/finite-output-from-nan-input", cls, J(in).f("lat", v.lat).f("lon", v.lon));
  } else {
    // Transfer from the INVALID zone / NaN coordinates: INVALID out, NaN out
    int zin = r.coin() ? spec::INVALID : r.range(1, 60); double x = zin == spec::INVALID ? 5e5 : NaN, y = 1e6;
    int zoneout = r.range(-4, 60); if (zoneout == zin) zoneout = spec::STANDARD;
    std::string cls = "nan/transfer";
    ctx.count(cls, vh::hmix(vh::hmix(25, (uint64_t)(zin + 10)), (uint64_t)(zoneout + 10)));
    J in = J().i("zonein", zin).f("xin", x).f("yin", y).i("zoneout", zoneout);
    double xo = 1, yo = 2; int zo = ZS; bool threw = false; std::string what;
    try { UTMUPS::Transfer(zin, true, x, y, zoneout, true, xo, yo, zo); } catch (const GeographicErr& e) { threw = true; what = e.what(); }
    if (threw) { ctx.viol(zoneout >= 1 ? "nan:C04/transfer/forced-zone-throws-on-nan" : "nan:C04/transfer/throws-on-nan", cls, J(in).str("what", what)); return; }
    if (!(std::isnan(xo) && std::isnan(yo))) ctx.viol("nan:C04/transfer/finite-output-from-nan-input", cls, J(in).f("xout", xo).f("yout", yo).i("zone", zo));
    // MATCH means "keep zonein": a legal zonein may be echoed with NaN coordinates; every other pseudo-zone must give INVALID
    if (zoneout < 0 && zo != spec::INVALID && !(zoneout == spec::MATCH && zo == zin)) ctx.viol("nan:C04/transfer/zone-not-INVALID", cls, J(in).i("zone", zo));
  }
}

int main(int argc, char** argv) {
  std::vector<Section> S;
  S.push_back({"zone_lattice", 724, 724, false, sec_lattice, 300});
  S.push_back({"rectangles", n_rectangles(), n_rectangles(), false, sec_rectangles});
  S.push_back({"strings_exh", (uint64_t)NALPHA * NALPHA + 1, (uint64_t)NALPHA * NALPHA + 1, false, sec_strings_exh, 120});
  S.push_back({"encode_epsg", 182, 182, false, sec_encode_epsg});
  S.push_back({"epsg_random", 20000, 2000000, true, [](Ctx& c, uint64_t i) { sec_encode_epsg(c, i + 1000); }});
  S.push_back({"zone_random", 60000, 3000000, true, sec_zone_random});
  S.push_back({"projection", 14000, 300000, true, sec_projection, 60});
  S.push_back({"reverse", 7000, 150000, true, sec_reverse, 60});
  S.push_back({"forward_edges", 1200, 30000, true, sec_forward_edges, 60});
  S.push_back({"transfer", 40000, 1500000, true, sec_transfer});
  S.push_back({"strings_rand", 100000, 5000000, true, sec_strings_rand});
  S.push_back({"nan", 6000, 120000, true, sec_nan});
  return vh::run_sections(argc, argv, S);
}
