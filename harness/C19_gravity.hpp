// C19, part 4 (included by C19.cpp): GravityModel / GravityCircle from synthetic .egm files.
#pragma once

// keys of candidate findings with their own narrow regime (see checks/C19.py)
static const std::string KEY_T_LOWDEG = "oracle:C19/gravity/T-omits-normal-zonal-terms-above-model-degree";
static const std::string KEY_T_SCHMIDT = "oracle:C19/gravity/T-normal-zonal-terms-misnormalised-for-schmidt";
static const std::string KEY_SPHERE_NAN = "oracle:C19/normalgravity/Jn-nan-for-sphere";
// InternalT overwrites its local 1/R before using it for the 1/r term of T: regime ModelMass != ReferenceMass, T returned together with its gradient
static const std::string KEY_T_MASS = "oracle:C19/gravity/T-with-gradient-wrong-when-ModelMass-differs";

struct GravRef {     // everything REF knows at one geocentric point
  Q X, Y, Z, R, Vm, W, U, V0, Phi, T_D, T_I, T_S, T0term;    // T0term = (GMm - GMref)/r
  Vec3 gV, gW, gU, dD, dI, dS;                               // gradients: V, W, U; disturbance by definition / as implemented / schmidt variant
  Q sV, sG, sT, sD;                                          // condition numbers (value V/W, gradient, T, delta)
  Q allowV = 0, allowG = 0;
};

struct GravSetup {
  ref::EgmMeta em; ref::CoefSet grav, corr; ref::HarmNorm rn; int Nmax, Mmax;
  Q a, f, GMr, GMm, am, om;         // reference ellipsoid in float128 (f solved from J2 if the file gives J2)
  DenseSet dg, dc, dz, dzS, dzA;    // model (C00 = 1), correction, normal zonal terms (all n / library's schmidt variant / magnitudes of their parts)
  int nz;                           // highest even degree <= model degree
};

static void grav_ref_at(const GravSetup& G, Q X, Q Y, Q Z, GravRef& o) {
  int D = G.dz.nmx;
  ref::HarmPoint g(X, Y, Z); ref::Legendre L; L.compute(D, D, G.rn, g.t, g.u);
  ref::HarmResult m = ref::harm_sum(L, g, G.am, G.dg.C, G.dg.S, G.dg.nmx, G.dg.mmx, true);
  if (g.u < (Q)EPS15) { ref::HarmPoint g2 = g; g2.u = EPS15; ref::Legendre L2; L2.compute(D, D, G.rn, g2.t, g2.u);
    ref::HarmResult m2 = ref::harm_sum(L2, g2, G.am, G.dg.C, G.dg.S, G.dg.nmx, G.dg.mmx, true);
    o.allowV = (fabsq(m2.V - m.V) + m2.sabs_m1) * G.GMm / G.am;
    o.allowG = (fmaxq(fmaxq(fabsq(m2.gx - m.gx), fabsq(m2.gy - m.gy)), fabsq(m2.gz - m.gz)) + m2.gabs_m2) * G.GMm / G.am; }
  Q k = G.GMm / G.am;
  o.X = X; o.Y = Y; o.Z = Z; o.R = g.r;
  o.Vm = k * m.V; o.gV.x = k * m.gx; o.gV.y = k * m.gy; o.gV.z = k * m.gz;
  o.Phi = G.om * G.om * (X * X + Y * Y) / 2;
  o.W = o.Vm + o.Phi; o.gW = o.gV; o.gW.x += G.om * G.om * X; o.gW.y += G.om * G.om * Y;
  ref::NormalGravityRef ng(G.a, G.GMr, G.om, G.f);
  o.V0 = ng.V0(X, Y, Z); o.U = o.V0 + o.Phi;
  Q gx, gy, gz; ng.gradV0(X, Y, Z, gx, gy, gz);
  o.gU.x = gx + G.om * G.om * X; o.gU.y = gy + G.om * G.om * Y; o.gU.z = gz;
  o.T_D = o.Vm - o.V0; o.dD.x = o.gV.x - gx; o.dD.y = o.gV.y - gy; o.dD.z = o.gV.z - gz;
  o.T0term = (G.GMm - G.GMr) / g.r;
  // as implemented: harmonic difference with the normal zonal terms up to the model's degree only
  ref::Legendre Lf; const ref::Legendre* Lz = &L;
  ref::HarmResult z = ref::harm_sum(*Lz, g, G.am, G.dz.C, G.dz.S, G.nz, 0, true);       // zonal terms n = 2..nz
  ref::HarmResult zall = ref::harm_sum(*Lz, g, G.am, G.dz.C, G.dz.S, D, 0, true, &G.dzA.C, &G.dzA.S);
  ref::HarmResult zs = ref::harm_sum(*Lz, g, G.am, G.dzS.C, G.dzS.S, G.nz, 0, true);
  Q q00 = G.am / g.r;                                               // the (0,0) term of the model sum (C00 = 1)
  Q ir = 1 / g.r;
  auto impl = [&](const ref::HarmResult& zz, Q& T, Vec3& d) {
    T = k * (m.V - q00 - zz.V) + o.T0term;
    // gradient of q00 = am/r is -am r^/r^2 ; of T0term likewise
    Q c0 = -(k * q00) * ir * ir, c1 = -o.T0term * ir * ir;
    d.x = k * (m.gx - zz.gx) - c0 * X + c1 * X; d.y = k * (m.gy - zz.gy) - c0 * Y + c1 * Y; d.z = k * (m.gz - zz.gz) - c0 * Z + c1 * Z; };
  impl(z, o.T_I, o.dI); impl(zs, o.T_S, o.dS);
  o.sV = k * m.sabs_n + fabsq(o.Phi) * 2; o.sG = k * m.gabs_n + G.om * G.om * g.r * 2;
  o.sT = k * (m.sabs_n - q00 + zall.sabs_n) + fabsq(o.T0term);
  o.sD = k * (m.gabs_n - 2 * q00 * ir + zall.gabs_n) + 2 * fabsq(o.T0term) * ir;
  // float128 noise of REF itself (closed form and its Richardson gradient)
  o.allowV += (Q)1e-30 * (fabsq(o.Vm) + fabsq(o.V0)); o.allowG += (Q)1e-22 * (fabsq(o.gV.x) + fabsq(o.gV.y) + fabsq(o.gV.z));
  (void)Lf;
}

static void sec_gravity(Ctx& c, uint64_t idx) {
  vh::Rng& r = c.rng;
  GravSetup G;
  int N = model_degree(c, true);
  set_degree_factor(N);
  int Mg = r.coin(0.8) ? N : r.range(0, N);
  ref::EgmMeta& em = G.em;
  int normsel = r.coin(0.12) ? 1 : (r.coin(0.3) ? -1 : 0);       // schmidt gravity models are legal but rare
  G.rn = normsel == 1 ? ref::HARM_SCHMIDT : ref::HARM_FULL; em.norm = normsel;
  // reference ellipsoid
  static const double fl[] = {1 / 298.257223563, 1 / 298.257222101, 0.01, -0.01, 1e-6, 0.1, -0.1, 0.3, 1 / 298.257223563, 1 / 298.257223563};
  double f = r.pick(fl); if (idx % 40 == 7) f = 0;
  em.ref_radius = r.coin(0.7) ? 6378137.0 : r.logu(1e5, 1e8);
  em.ref_mass = 3986004.418e8 * std::pow(em.ref_radius / 6378137.0, 3) * (r.coin(0.7) ? 1 : r.uniform(0.5, 2));
  em.omega = r.coin(0.1) ? 0.0 : 7292115e-11 * (r.coin(0.7) ? 1 : r.uniform(0.2, 3));
  em.model_radius = em.ref_radius * (r.coin(0.5) ? 1.0 : r.coin(0.5) ? 6378136.3 / 6378137.0 : r.uniform(0.9, 1.1));
  em.model_mass = em.ref_mass * (r.coin(0.4) ? 1.0 : r.coin(0.5) ? 3986004.415 / 3986004.418 : 1 + r.uniform(-1e-3, 1e-3));
  em.use_J2 = r.coin(0.25);
  if (em.use_J2) { em.J2 = dq(ref::NormalGravityRef::J2_of(em.ref_radius, em.ref_mass, em.omega, f));
    G.f = ref::NormalGravityRef::f_of_J2(em.ref_radius, em.ref_mass, em.omega, em.J2); }
  else { em.flattening = f; G.f = f; if (f == 1 / 298.257223563 && r.coin()) em.flattening_text = "1/298.257223563"; }
  em.height_offset = r.coin(0.4) ? -0.41 : r.uniform(-10, 10); em.write_height_offset = r.coin(0.8); if (!em.write_height_offset) em.height_offset = 0;
  em.corr_mult = r.coin(0.5) ? 1.0 : r.coin() ? 0.01 : r.uniform(0.1, 10); em.write_corr_mult = r.coin(0.8); if (!em.write_corr_mult) em.corr_mult = 1;
  em.id = "SYNG" + std::to_string(1000 + idx % 9000);
  if (r.coin(0.15)) em.signature_suffix = r.coin() ? " synthetic" : "\ttrailing text 123";      // the reader stops at the first blank after the version
  G.a = em.ref_radius; G.GMr = em.ref_mass; G.GMm = em.model_mass; G.am = em.model_radius; G.om = em.omega;
  ref::NormalGravityRef ng(G.a, G.GMr, G.om, G.f);
  // gravity coefficients: noise + (mostly) zonal terms close to those of the reference ellipsoid, as in real models
  int style = r.coin(0.75) ? CS_DECAY : (int)r.pick(std::vector<int>{CS_FLAT, CS_SINGLE, CS_ALT});
  G.grav = gen_set(r, N, Mg, style, r.coin(0.7) ? 1e-5 : 1e-2, true);
  bool nearnormal = r.coin(0.7);
  if (nearnormal) { Q mult = G.GMr / G.GMm;
    for (int n = 2; n <= std::min(N, 16); n += 2) { mult *= (G.a / G.am) * (G.a / G.am);
      Q cn = -mult * ng.Jn(n) / (G.rn == ref::HARM_FULL ? sqrtq((Q)(2 * n + 1)) : (Q)1);
      G.grav.c(n, 0) = dq(cn) * (1 + 1e-3 * r.uniform(-1, 1)) + (style == CS_DECAY ? G.grav.c(n, 0) : 0.0); } }
  int Nc = r.coin(0.25) ? -1 : r.range(0, N + 3), Mc = Nc < 0 ? -1 : (r.coin(0.7) ? Nc : r.range(0, Nc));
  G.corr = gen_set(r, Nc, Mc, r.coin(0.8) ? CS_DECAY : CS_FLAT, 1.0 / em.corr_mult, false);
  int Nmax = -1, Mmax = -1, tmode = (int)r.below(6);
  if (tmode == 1) Nmax = r.range(0, N + 2); else if (tmode == 2) { Nmax = r.range(0, N + 2); Mmax = r.range(0, Nmax); } else if (tmode == 3) Mmax = r.range(0, N + 1);
  G.Nmax = Nmax; G.Mmax = Mmax;
  std::string name = "grav" + std::to_string(idx);
  std::string cls0 = std::string("gravity/") + (G.rn == ref::HARM_FULL ? "full" : "schmidt") + "/" + nbucket(N) + (em.use_J2 ? "/J2-form" : "/f-form") + (Nc < 0 ? "/no-correction" : "") +
                     (tmode >= 1 && tmode <= 3 ? "/truncated" : "") + (f == 0 ? "/sphere" : std::fabs(f) > 0.05 ? "/wild-f" : "");
  J mw = J().i("N", N).i("M", Mg).i("Nc", Nc).i("norm", normsel).f("ref_radius", em.ref_radius).f("ref_mass", em.ref_mass).f("omega", em.omega).f("f", f).b("J2_form", em.use_J2)
             .f("model_radius", em.model_radius).f("model_mass", em.model_mass).f("height_offset", em.height_offset).f("corr_mult", em.corr_mult).i("Nmax", Nmax).i("Mmax", Mmax)
             .str("coef_style", coefstyle_name[style]).b("near_normal_zonals", nearnormal);
  if (!ref::write_egm(scratch().path, name, em, G.grav, G.corr)) { c.herr("cannot write synthetic gravity model under " + scratch().path); return; }
  std::unique_ptr<GravityModel> M;
  try { M.reset(new GravityModel(name, scratch().path, Nmax, Mmax)); }
  catch (const std::exception& e) { c.viol("oracle:C19/gravity/well-formed-file-rejected", cls0, J(mw).str("what", e.what())); rm_model(name, ".egm"); return; }
  rm_model(name, ".egm");
  int D = std::max(N + 3, 60);
  G.dg = dense_of(G.grav, Nmax, Mmax, D); G.dg.C[0] = 1;
  G.dc = dense_of(G.corr, Nmax, Mmax, D);
  G.nz = G.dg.nmx - (G.dg.nmx & 1);
  { G.dz.C.assign((size_t)ref::tri(D, D) + 1, 0); G.dz.S.assign(G.dz.C.size(), 0); G.dzS = G.dz; G.dz.nmx = G.dzS.nmx = D; G.dz.mmx = G.dzS.mmx = 0;
    Q mult = G.GMr / G.GMm;
    for (int n = 2; n <= D; n += 2) { mult *= (G.a / G.am) * (G.a / G.am); Q jn = ng.Jn(n);
      G.dz.C[ref::tri(n, 0)] = -mult * jn / (G.rn == ref::HARM_FULL ? sqrtq((Q)(2 * n + 1)) : (Q)1);
      G.dzS.C[ref::tri(n, 0)] = -mult * jn / sqrtq((Q)(2 * n + 1)); }
    // magnitudes of the parts J_n is made of (H&M 2-90, 2-92: e^2/3 and the rotational term, which may cancel), for the condition number of T
    G.dzA = G.dz; Q mrot = G.om * G.om * G.a * G.a * G.a / fabsq(G.GMr), J2parts = fabsq(ng.e2) / 3 + mrot / 3 * 2; mult = fabsq(G.GMr / G.GMm);
    for (int n = 2; n <= D; n += 2) { mult *= (G.a / G.am) * (G.a / G.am); int k = n / 2;
      Q parts = 3 * powq(fabsq(ng.e2), k - 1) * (fabsq(ng.e2) * (k + 1) + 5 * k * J2parts) / ((Q)(2 * k + 1) * (2 * k + 3));
      G.dzA.C[ref::tri(n, 0)] = mult * parts / (G.rn == ref::HARM_FULL ? sqrtq((Q)(2 * n + 1)) : (Q)1); } }
  // inspectors
  { int dgm = std::max(G.dg.nmx, G.dc.nmx < 0 ? 0 : G.dc.nmx), om = std::max(G.dg.mmx, G.dc.mmx < 0 ? 0 : G.dc.mmx);
    if (M->Degree() != dgm || M->Order() != om) c.viol("oracle:C19/gravity/degree-order-inspectors", cls0, J(mw).i("Degree", M->Degree()).i("Order", M->Order()).i("want_degree", dgm).i("want_order", om));
    double fl2 = M->Flattening();
    if (!(M->MassConstant() == em.model_mass && M->ReferenceEllipsoid().MassConstant() == em.ref_mass && M->EquatorialRadius() == em.ref_radius && M->AngularVelocity() == em.omega &&
          std::fabs(fl2 - dq(G.f)) <= 64 * EPS * (std::fabs(dq(G.f)) + dq(G.om * G.om * G.a * G.a * G.a / G.GMr))))
      c.viol("oracle:C19/gravity/metadata-inspectors", cls0, J(mw).f("Flattening", fl2).str("want_f", qs(G.f))); }

  const Geocentric& earth = M->ReferenceEllipsoid().Earth();
  int npts = N >= 200 ? 1 : N >= 60 ? 2 : 4;
  for (int ip = 0; ip < npts; ++ip) {
    static const double slat[] = {90, -90, 0, 45, -89.99999, 1e-10};
    double lat = r.coin(0.25) ? r.pick(slat) : r.uniform(-90, 90), lon = r.coin(0.15) ? r.pick(std::vector<double>{0, 180, -180, 90, -90, 360}) : r.uniform(-180, 180);
    double hs = dq(G.a), h = r.coin(0.3) ? 0 : r.coin(0.7) ? r.uniform(-1e-3, 0.15) * hs : r.logu(1e-4, 10) * hs;
    std::string cls = cls0 + (h == 0 ? "/h=0" : h < 0 ? "/h<0" : h > hs ? "/h>a" : "/h>0") + (std::fabs(lat) == 90 ? "/pole" : "");
    J wit = J(mw).f("lat", lat).f("lon", lon).f("h", h);
    c.count(cls, vh::hmix(vh::hmix(vh::hmix(vh::hmix(41 + N, lat), lon), h), em.model_radius));
    if (c.want_sample(cls)) c.sample(cls, wit);
    ref::GeoFrame Fm = ref::geodetic_frame(G.a, G.f, lat, lon, h);
    GravRef R; grav_ref_at(G, Fm.X, Fm.Y, Fm.Z, R);
    bool sphere_nan = false;
    auto jscal = [&](const char* what, const std::string& key, double got, Q want, Q scale, Q allow = 0, double K = K_M) -> double {
      double e = std::isfinite(got) ? dq(fabsq((Q)got - want) / ((Q)EPS * scale + allow / K + (Q)1e-300)) : INF;
      c.obs(std::string("gravity ") + what + " err [eps*condition]", e, wit);
      if (c.only) std::fprintf(stderr, "%s %s: lib %.17g ref %s scale %s e=%g\n", cls.c_str(), what, got, qs(want).c_str(), qs(scale).c_str(), e);
      if (!(e <= K)) c.viol(key, cls, J(wit).str("quantity", what).f("err_over_eps_scale", e).f("got", got).str("want", qs(want)));
      return e; };
    auto jvec = [&](const char* what, const std::string& key, double gx, double gy, double gz, Q wx, Q wy, Q wz, Q scale, Q allow = 0, double K = K_M) -> double {
      double e = finite3(gx, gy, gz) ? dq(fmaxq(fmaxq(fabsq((Q)gx - wx), fabsq((Q)gy - wy)), fabsq((Q)gz - wz)) / ((Q)EPS * scale + allow / K + (Q)1e-300)) : INF;
      c.obs(std::string("gravity ") + what + " err [eps*condition]", e, wit);
      if (c.only) std::fprintf(stderr, "%s %s: lib (%.17g,%.17g,%.17g) ref (%s,%s,%s) e=%g\n", cls.c_str(), what, gx, gy, gz, qs(wx).c_str(), qs(wy).c_str(), qs(wz).c_str(), e);
      if (!(e <= K)) c.viol(key, cls, J(wit).str("quantity", what).f("err_over_eps_scale", e).f("got_x", gx).f("got_y", gy).f("got_z", gz).str("want_x", qs(wx)).str("want_y", qs(wy)).str("want_z", qs(wz)));
      return e; };
    // T-like quantities: judged by the definition T = W - U; if that fails, decide whether the documented-in-source
    // shortcuts explain it (normal zonal terms only up to the model degree; schmidt variant) -> narrow keys
    auto tkey = [&](const std::string& base, Q errD, Q errI, Q errS, Q tol) -> std::string {
      if (errD <= tol) return "";
      if (sphere_nan) return KEY_SPHERE_NAN;
      if (G.rn == ref::HARM_SCHMIDT && errS <= tol) return KEY_T_SCHMIDT;
      if (errI <= tol) return KEY_T_LOWDEG;
      return base; };

    // ---- geocentric interface at the library's own geocentric point (differs from REF's by rounding only)
    double X, Y, Z; earth.Forward(lat, lon, h, X, Y, Z);
    double gx, gy, gz, v;
    v = M->V(X, Y, Z, gx, gy, gz); jscal("V(X,Y,Z)", "oracle:C19/gravity/V", v, R.Vm, R.sV, R.allowV); jvec("grad V", "oracle:C19/gravity/V-gradient", gx, gy, gz, R.gV.x, R.gV.y, R.gV.z, R.sG, R.allowG);
    v = M->W(X, Y, Z, gx, gy, gz); jscal("W(X,Y,Z)", "oracle:C19/gravity/W", v, R.W, R.sV, R.allowV); jvec("grad W", "oracle:C19/gravity/W-gradient", gx, gy, gz, R.gW.x, R.gW.y, R.gW.z, R.sG, R.allowG);
    { double fx, fy; v = M->Phi(X, Y, fx, fy); jscal("Phi(X,Y)", "oracle:C19/gravity/Phi", v, R.Phi, fabsq(R.Phi) * 4);
      jvec("grad Phi", "oracle:C19/gravity/Phi-gradient", fx, fy, 0, G.om * G.om * R.X, G.om * G.om * R.Y, 0, G.om * G.om * R.R * 4); }
    v = M->U(X, Y, Z, gx, gy, gz); jscal("U(X,Y,Z)", "oracle:C19/gravity/U", v, R.U, fabsq(R.V0) * 4 + fabsq(R.Phi) * 4);
    jvec("grad U", "oracle:C19/gravity/U-gradient", gx, gy, gz, R.gU.x, R.gU.y, R.gU.z, (fabsq(G.GMr) / (R.R * R.R) + G.om * G.om * R.R) * 8);
    {
      double tx, ty, tz, T1 = M->T(X, Y, Z, tx, ty, tz), T2 = M->T(X, Y, Z);
      if (std::isnan(T1) && M->Flattening() == 0 && finiteq(R.T_D)) { sphere_nan = true; c.event("gravity: T is NaN for a spherical reference ellipsoid"); }
      Q tolT = (Q)EPS * R.sT * K_T + R.allowV, tolD = (Q)EPS * R.sD * K_T + R.allowG;
      bool massdiff = G.GMm != G.GMr;
      // the value must not depend on whether the gradient is requested (identical arithmetic unless the 1/r term is added)
      if (!(vh::same_bits(T1, T2) || (std::isnan(T1) && std::isnan(T2)) || (massdiff && fabsq((Q)T1 - (Q)T2) <= tolT / 4)))
        c.viol(massdiff ? KEY_T_MASS : std::string("law:C19/gravity/T-differs-with-gradient-request"), cls, J(wit).f("T", T2).f("T_with_gradient", T1).f("ModelMass", em.model_mass).f("ReferenceMass", em.ref_mass));
      auto verr = [&](const Vec3& w) { return finite3(tx, ty, tz) ? fmaxq(fmaxq(fabsq((Q)tx - w.x), fabsq((Q)ty - w.y)), fabsq((Q)tz - w.z)) : (Q)INF; };
      auto serr = [&](Q w) { return std::isfinite(T2) ? fabsq((Q)T2 - w) : (Q)INF; };     // the value-only overload is judged here
      std::string k1 = tkey("oracle:C19/gravity/T", serr(R.T_D), serr(R.T_I), serr(R.T_S), tolT), k2 = tkey("oracle:C19/gravity/T-gradient", verr(R.dD), verr(R.dI), verr(R.dS), tolD);
      bool lowdeg = k1 == KEY_T_LOWDEG || k2 == KEY_T_LOWDEG, schm = k1 == KEY_T_SCHMIDT || k2 == KEY_T_SCHMIDT;
      double eT = dq(serr(lowdeg ? R.T_I : schm ? R.T_S : R.T_D) / tolT) * K_T, eD = dq(verr(lowdeg ? R.dI : schm ? R.dS : R.dD) / tolD) * K_T;
      c.obs(std::string("gravity T(X,Y,Z) err [eps*condition]") + (lowdeg ? " (vs truncated-normal variant)" : schm ? " (vs schmidt variant)" : ""), eT, wit);
      c.obs(std::string("gravity grad T err [eps*condition]") + (lowdeg ? " (vs truncated-normal variant)" : schm ? " (vs schmidt variant)" : ""), eD, wit);
      if (c.only) std::fprintf(stderr, "%s T: lib %.17g (%.17g,%.17g,%.17g)\n   T_D %s T_I %s T_S %s tol %s\n   dD (%s,%s,%s)\n", cls.c_str(), T2, tx, ty, tz, qs(R.T_D).c_str(), qs(R.T_I).c_str(), qs(R.T_S).c_str(), qs(tolT).c_str(),
                               qs(R.dD.x).c_str(), qs(R.dD.y).c_str(), qs(R.dD.z).c_str());
      if (!k1.empty()) c.viol(k1, cls, J(wit).str("quantity", "T(X,Y,Z)").f("got", T2).str("want_W_minus_U", qs(R.T_D)).str("as_implemented", qs(R.T_I)).str("tol", qs(tolT)));
      if (!k2.empty()) c.viol(k2, cls, J(wit).str("quantity", "grad T").f("got_x", tx).f("got_y", ty).f("got_z", tz).str("want_x", qs(R.dD.x)).str("want_y", qs(R.dD.y)).str("want_z", qs(R.dD.z)).str("tol", qs(tolD)));
      // law on the library's own outputs: T == W - U at the same point (the documented definition)
      double wx, wy, wz, ux, uy, uz, Wl = M->W(X, Y, Z, wx, wy, wz), Ul = M->U(X, Y, Z, ux, uy, uz);
      double lawe = std::fabs(T2 - (Wl - Ul)) / (EPS * (std::fabs(Wl) + std::fabs(Ul)) * 4 + dq(tolT));
      c.obs("gravity |T - (W - U)| of library outputs / tolerance", lawe, wit);
      if (!(lawe <= 1)) {
        std::string kk = sphere_nan ? KEY_SPHERE_NAN : (!k1.empty() && k1 != "oracle:C19/gravity/T") ? k1 : std::string("law:C19/gravity/T-differs-from-W-minus-U");
        c.viol(kk, cls, J(wit).str("quantity", "T vs W-U of the library").f("T", T2).f("W", Wl).f("U", Ul).f("ratio_to_tol", lawe));
      }
      // ---- geodetic interface: Gravity, Disturbance (ENU)
      Q e1, n1, u1; ref::to_enu(Fm, R.gW.x, R.gW.y, R.gW.z, e1, n1, u1);
      v = M->Gravity(lat, lon, h, gx, gy, gz); jscal("Gravity() W", "oracle:C19/gravity/Gravity-W", v, R.W, R.sV, R.allowV); jvec("Gravity() g(east,north,up)", "oracle:C19/gravity/Gravity-g", gx, gy, gz, e1, n1, u1, R.sG, R.allowG);
      if (!sphere_nan) {
        // every T-type quantity is judged against the definition first, then against the two as-implemented variants
        const Vec3* dv[3] = {&R.dD, &R.dI, &R.dS}; Q Tv[3] = {R.T_D, R.T_I, R.T_S};
        auto judge3 = [&](const char* what, const std::string& base, int nc, const double* got, const Q want[3][3], Q scale, Q allow) {
          Q tol = (Q)EPS * scale * K_T + allow + (Q)1e-300, err[3];
          for (int k = 0; k < 3; ++k) { err[k] = 0; for (int i = 0; i < nc; ++i) err[k] = fmaxq(err[k], std::isfinite(got[i]) ? fabsq((Q)got[i] - want[k][i]) : (Q)INF); }
          std::string key = tkey(base, err[0], err[1], err[2], tol);
          int sel = key == KEY_T_LOWDEG ? 1 : key == KEY_T_SCHMIDT ? 2 : 0;
          c.obs(std::string("gravity ") + what + " err [eps*condition]" + (sel == 1 ? " (vs truncated-normal variant)" : sel == 2 ? " (vs schmidt variant)" : ""), dq(err[sel] / tol) * K_T, wit);
          if (c.only) std::fprintf(stderr, "%s %s: lib %.17g.. def %s impl %s tol %s -> %s\n", cls.c_str(), what, got[0], qs(want[0][0]).c_str(), qs(want[1][0]).c_str(), qs(tol).c_str(), key.c_str());
          if (!key.empty()) { J d = J(wit).str("quantity", what).str("tol", qs(tol));
            for (int i = 0; i < nc; ++i) { std::string si = std::to_string(i); d.f(("got" + si).c_str(), got[i]).str(("want_definition" + si).c_str(), qs(want[0][i])).str(("as_implemented" + si).c_str(), qs(want[1][i])); }
            c.viol(key, cls, d); } };
        double dT = M->Disturbance(lat, lon, h, gx, gy, gz);
        { Q w[3][3]; for (int k = 0; k < 3; ++k) w[k][0] = Tv[k];
          if (massdiff) { Q tol = (Q)EPS * R.sT * K_T + R.allowV; if (!(fabsq((Q)dT - (Q)T2) <= tol / 4)) c.viol(KEY_T_MASS, cls, J(wit).str("quantity", "Disturbance() T").f("got", dT).f("T_value_only", T2)); }
          else judge3("Disturbance() T", "oracle:C19/gravity/Disturbance-T", 1, &dT, w, R.sT, R.allowV); }
        { Q w[3][3]; for (int k = 0; k < 3; ++k) ref::to_enu(Fm, dv[k]->x, dv[k]->y, dv[k]->z, w[k][0], w[k][1], w[k][2]);
          double g3[3] = {gx, gy, gz}; judge3("Disturbance() delta(east,north,up)", "oracle:C19/gravity/Disturbance-delta", 3, g3, w, R.sD, R.allowG); }
        // ---- spherical anomaly (H&M 2-151c and the manual's "gravitygeoid"): T without the 1/r term
        Q ir = 1 / R.R, sl, cl; ref::sincosd_q(lon, sl, cl); Q P = hypotq(R.X, R.Y), sps = R.Z * ir, cps = P * ir;
        if (P == 0) { Q sp, cp; ref::sincosd_q(lat, sp, cp); sps = sp > 0 ? 1 : -1; cps = 0; }
        Q gam = sqrtq(R.gU.x * R.gU.x + R.gU.y * R.gU.y + R.gU.z * R.gU.z), deg = M_PIq / 180;
        Q wD[3][3], wX[3][3], wE[3][3];
        for (int k = 0; k < 3; ++k) {
          Q Tn = Tv[k] - R.T0term; Vec3 dn = *dv[k]; dn.x += R.T0term * ir * ir * R.X; dn.y += R.T0term * ir * ir * R.Y; dn.z += R.T0term * ir * ir * R.Z;
          Q dr = (dn.x * cl + dn.y * sl) * cps + dn.z * sps, dnn = -(dn.x * cl + dn.y * sl) * sps + dn.z * cps, de = -dn.x * sl + dn.y * cl;
          wD[k][0] = -dr - 2 * Tn * ir; wX[k][0] = -dnn / gam / deg; wE[k][0] = -de / gam / deg; }
        double Dg, xi, eta; M->SphericalAnomaly(lat, lon, h, Dg, xi, eta);
        judge3("SphericalAnomaly Dg01", "oracle:C19/gravity/SphericalAnomaly", 1, &Dg, wD, R.sD + 2 * R.sT * ir + 2 * fabsq(R.T0term) * ir, R.allowG + 2 * R.allowV * ir);
        judge3("SphericalAnomaly xi", "oracle:C19/gravity/SphericalAnomaly", 1, &xi, wX, (R.sD + 2 * fabsq(R.T0term) * ir) / gam / deg, R.allowG / gam / deg);
        judge3("SphericalAnomaly eta", "oracle:C19/gravity/SphericalAnomaly", 1, &eta, wE, (R.sD + 2 * fabsq(R.T0term) * ir) / gam / deg, R.allowG / gam / deg);
      }
    }
    // ---- geoid height (h = 0): T(without 1/r term)/gamma0 + CorrectionMultiplier * correction(unit vector) + HeightOffset
    Q geoidref = 0, geoidscale = 0, geoidallow = 0; bool geoid_low = false, geoid_s = false;
    {
      ref::GeoFrame F0 = ref::geodetic_frame(G.a, G.f, lat, lon, 0);
      GravRef R0; grav_ref_at(G, F0.X, F0.Y, F0.Z, R0);
      Q gamma0 = ng.somigliana(lat), ir = 1 / R0.R;
      Q corr = 0, scorr = 0;
      if (G.dc.nmx >= 0) { ref::HarmResult cr = ref::harm_eval(G.dc.nmx, G.dc.mmx, G.rn, 1, G.dc.C, G.dc.S, F0.X * ir, F0.Y * ir, F0.Z * ir, false); corr = cr.V; scorr = cr.sabs_n;
        if (hypotq(F0.X, F0.Y) * ir < (Q)EPS15) { ref::HarmPoint g2(F0.X * ir, F0.Y * ir, F0.Z * ir); g2.u = EPS15; ref::Legendre L2; L2.compute(G.dc.nmx, G.dc.mmx, G.rn, g2.t, g2.u);
          ref::HarmResult c2 = ref::harm_sum(L2, g2, 1, G.dc.C, G.dc.S, G.dc.nmx, G.dc.mmx, false); geoidallow = (Q)em.corr_mult * (fabsq(c2.V - cr.V) + c2.sabs_m1); } }
      double Ng = M->GeoidHeight(lat, lon);
      Q sc = R0.sT / fabsq(gamma0) + (Q)em.corr_mult * scorr + fabsq((Q)em.height_offset) + (fabsq(R0.T_D) + fabsq(R0.T0term)) / fabsq(gamma0) * 4;
      Q tol = (Q)EPS * sc * K_T + geoidallow + R0.allowV / fabsq(gamma0);
      auto gh = [&](Q T) { return (T - R0.T0term) / gamma0 + (Q)em.corr_mult * corr + (Q)em.height_offset; };
      Q eD = std::isfinite(Ng) ? fabsq((Q)Ng - gh(R0.T_D)) : (Q)INF, eI = std::isfinite(Ng) ? fabsq((Q)Ng - gh(R0.T_I)) : (Q)INF, eS = std::isfinite(Ng) ? fabsq((Q)Ng - gh(R0.T_S)) : (Q)INF;
      std::string k = tkey("oracle:C19/gravity/GeoidHeight", eD, eI, eS, tol);
      if (std::isnan(Ng) && M->Flattening() == 0) k = KEY_SPHERE_NAN;
      geoid_low = k == KEY_T_LOWDEG; geoid_s = k == KEY_T_SCHMIDT;
      geoidref = gh(geoid_low ? R0.T_I : geoid_s ? R0.T_S : R0.T_D); geoidscale = sc;
      c.obs(std::string("gravity GeoidHeight err [eps*condition]") + (geoid_low ? " (vs truncated-normal variant)" : geoid_s ? " (vs schmidt variant)" : ""), dq((geoid_low ? eI : geoid_s ? eS : eD) / tol) * K_T, wit);
      if (c.only) std::fprintf(stderr, "%s geoid: lib %.17g def %s impl %s tol %s\n", cls.c_str(), Ng, qs(gh(R0.T_D)).c_str(), qs(gh(R0.T_I)).c_str(), qs(tol).c_str());
      if (!k.empty()) c.viol(k, cls, J(wit).str("quantity", "GeoidHeight").f("got", Ng).str("want", qs(gh(R0.T_D))).str("as_implemented", qs(gh(R0.T_I))).str("tol", qs(tol)));
    }
    // ---- GravityCircle: every member against the model itself at 6 longitudes (library vs library)
    if (ip < 2 && !sphere_nan) {
      unsigned caps = r.coin(0.6) ? (unsigned)GravityModel::ALL : (unsigned)r.pick(std::vector<unsigned>{GravityModel::GRAVITY, GravityModel::DISTURBANCE, GravityModel::DISTURBING_POTENTIAL, GravityModel::SPHERICAL_ANOMALY, GravityModel::GEOID_HEIGHT, GravityModel::GRAVITY | GravityModel::GEOID_HEIGHT});
      GravityCircle gc = M->Circle(lat, h, caps);
      double worst = 0;
      auto rel = [&](double a, double b, Q scale, Q allow) { if (std::isnan(a) && std::isnan(b)) return; double e = dq(fabsq((Q)a - (Q)b) / ((Q)EPS * scale + allow / K_M + (Q)1e-300)); if (std::isnan(e)) e = INF; worst = std::max(worst, e); };
      for (int il = 0; il < 6; ++il) {
        double lo = il == 0 ? lon : il == 1 ? 0 : il == 2 ? 180 : r.uniform(-180, 180);
        double Xl, Yl, Zl; earth.Forward(lat, lo, h, Xl, Yl, Zl);
        c.count(std::string("gravitycircle/") + nbucket(N) + (caps == GravityModel::ALL ? "/all-caps" : "/some-caps"), vh::hmix(vh::hmix(51, lat), lo));
        double a1, a2, a3, b1, b2, b3, va, vb;
        if (gc.Capabilities(GravityModel::GRAVITY)) {
          va = gc.Gravity(lo, a1, a2, a3); vb = M->Gravity(lat, lo, h, b1, b2, b3); rel(va, vb, R.sV, R.allowV); rel(a1, b1, R.sG, R.allowG); rel(a2, b2, R.sG, R.allowG); rel(a3, b3, R.sG, R.allowG);
          va = gc.W(lo, a1, a2, a3); vb = M->W(Xl, Yl, Zl, b1, b2, b3); rel(va, vb, R.sV, R.allowV); rel(a1, b1, R.sG, R.allowG); rel(a2, b2, R.sG, R.allowG); rel(a3, b3, R.sG, R.allowG);
          va = gc.V(lo, a1, a2, a3); vb = M->V(Xl, Yl, Zl, b1, b2, b3); rel(va, vb, R.sV, R.allowV); rel(a1, b1, R.sG, R.allowG); rel(a2, b2, R.sG, R.allowG); rel(a3, b3, R.sG, R.allowG);
        } else { va = gc.Gravity(lo, a1, a2, a3); if (!std::isnan(va)) c.viol("oracle:C19/gravitycircle/value-without-capability", cls, J(wit).str("what", "Gravity")); }
        if (gc.Capabilities(GravityModel::DISTURBANCE)) {
          va = gc.Disturbance(lo, a1, a2, a3); vb = M->Disturbance(lat, lo, h, b1, b2, b3); if (G.GMm != G.GMr) vb = M->T(Xl, Yl, Zl); rel(va, vb, R.sT, R.allowV); rel(a1, b1, R.sD, R.allowG); rel(a2, b2, R.sD, R.allowG); rel(a3, b3, R.sD, R.allowG);
          va = gc.T(lo, a1, a2, a3); vb = M->T(Xl, Yl, Zl, b1, b2, b3); if (G.GMm != G.GMr) vb = M->T(Xl, Yl, Zl); rel(va, vb, R.sT, R.allowV); rel(a1, b1, R.sD, R.allowG); rel(a2, b2, R.sD, R.allowG); rel(a3, b3, R.sD, R.allowG);
        }
        else {      // documented: NaN for a circle created without the capability (paths shown as never executed by the reach monitor)
          a1 = a2 = a3 = 0; va = gc.Disturbance(lo, a1, a2, a3);
          if (!(std::isnan(va) && std::isnan(a1) && std::isnan(a2) && std::isnan(a3))) c.viol("oracle:C19/gravitycircle/value-without-capability", cls, J(wit).str("what", "Disturbance"));
          a1 = a2 = a3 = 0; va = gc.T(lo, a1, a2, a3);
          if (!(std::isnan(va) && std::isnan(a1) && std::isnan(a2) && std::isnan(a3))) c.viol("oracle:C19/gravitycircle/value-without-capability", cls, J(wit).str("what", "T-with-gradient"));
        }
        if (!gc.Capabilities(GravityModel::SPHERICAL_ANOMALY)) {
          a1 = a2 = a3 = 0; gc.SphericalAnomaly(lo, a1, a2, a3);
          if (!(std::isnan(a1) && std::isnan(a2) && std::isnan(a3))) c.viol("oracle:C19/gravitycircle/value-without-capability", cls, J(wit).str("what", "SphericalAnomaly"));
        }
        if (!gc.Capabilities(GravityModel::GEOID_HEIGHT) && !std::isnan(gc.GeoidHeight(lo))) c.viol("oracle:C19/gravitycircle/value-without-capability", cls, J(wit).str("what", "GeoidHeight"));
        if (gc.Capabilities(GravityModel::DISTURBING_POTENTIAL)) { va = gc.T(lo); vb = M->T(Xl, Yl, Zl); rel(va, vb, R.sT, R.allowV); }
        else if (!std::isnan(gc.T(lo))) c.viol("oracle:C19/gravitycircle/value-without-capability", cls, J(wit).str("what", "T"));
        if (gc.Capabilities(GravityModel::SPHERICAL_ANOMALY)) {
          Q gam = sqrtq(R.gU.x * R.gU.x + R.gU.y * R.gU.y + R.gU.z * R.gU.z), deg = M_PIq / 180, ir = 1 / R.R;
          gc.SphericalAnomaly(lo, a1, a2, a3); M->SphericalAnomaly(lat, lo, h, b1, b2, b3);
          rel(a1, b1, R.sD + 2 * R.sT * ir + 2 * fabsq(R.T0term) * ir, R.allowG + 2 * R.allowV * ir); rel(a2, b2, (R.sD + 2 * fabsq(R.T0term) * ir) / gam / deg, R.allowG / gam / deg); rel(a3, b3, (R.sD + 2 * fabsq(R.T0term) * ir) / gam / deg, R.allowG / gam / deg);
        }
        if (h == 0 && gc.Capabilities(GravityModel::GEOID_HEIGHT)) { va = gc.GeoidHeight(lo); vb = M->GeoidHeight(lat, lo); rel(va, vb, geoidscale, geoidallow + R.allowV); }
        if (h != 0 && !std::isnan(gc.GeoidHeight(lo))) c.viol("oracle:C19/gravitycircle/GeoidHeight-for-h!=0-not-NaN", cls, J(wit).f("lon", lo));
      }
      c.obs("gravity circle vs direct, all members [eps*condition]", worst, wit);
      if (!(worst <= 2 * K_T)) c.viol("law:C19/gravitycircle/differs-from-direct", cls, J(wit).f("err_over_eps_scale", worst).u("caps", caps));
      if (!(gc.Latitude() == lat && gc.Height() == h && gc.EquatorialRadius() == em.ref_radius)) c.viol("oracle:C19/gravitycircle/inspectors", cls, wit);
    }
    (void)geoidref;
  }
}
