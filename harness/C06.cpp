// C06 -- transverse Mercator, series (TransverseMercator) and exact (TransverseMercatorExact).
// Monitors:
//   oracle   : ref::TM<__float128> (Gauss-Krueger from its definition, oracle/ref_tm.hpp) next to every Forward /
//              Reverse call: position (ground distance), convergence, scale
//   laws     : Reverse o Forward, parity (bit-exact), lon0 shift / 360k wrap, central meridian identity,
//              exact == exact(extendp) on the common domain, TransverseMercator(exact=true) == TransverseMercatorExact
//   jacobian : gamma, k against a Richardson finite-difference Jacobian of the library's own Forward (conformality)
//   selftest : the oracle validates itself (herr on failure, never a verdict on the library)
#include "harness/value_semantics.hpp"   // long-lived projection objects are detached copies
#include <GeographicLib/TransverseMercator.hpp>
#include <GeographicLib/TransverseMercatorExact.hpp>
#include <memory>
#include "harness/common.hpp"
#include "oracle/ref_tm.hpp"
#include "oracle/ref_exact.hpp"

using namespace GeographicLib;
using vh::Ctx; using vh::J; using vh::Section;
typedef __float128 Q;
typedef long double LD;
static const double WGS84_A = 6378137.0, WGS84_F = 1 / 298.257223563;
static const double DEGd = M_PI / 180;

// ------------------------------------------------------------------ tolerance model (see checks/C06.py)
static const double K_POS = 4;            // safety factor on the documented position accuracy
static const double DOC_SERIES_NM = 5;    // TransverseMercator.hpp: 5 nm within 35 deg
static const double DOC_EXACT_NM = 8;     // TransverseMercatorExact.hpp: 8 nm
static const double DOC_K_REL = 6e-14;    // 6e-12 % (series), 7e-12 % (exact)
static const double C_TRUNC_FWD = 12;     // position: C a |n|^7 cosh(14 eta')/(1-r) truncation model of the 6th-order series; calibrated once (max seen 7.5)
static const double C_TRUNC_REV = 6;      // same for the reverted series (max seen 3.6)
static const double C_TRUNC_G = 80, C_TRUNC_K = 120;   // gamma [rad], k [rel]: C |n|^7 cosh(14 eta')/(1-r)^2 (max seen 45, 73)
static const double C_TRUNC_GR = 25, C_TRUNC_KR = 8;   // Reverse (max seen 14, 3.8)
static const double R_MAX = 0.3;          // series judged against REF only while r = |n| exp(2 eta') <= R_MAX
static const double TOL_JAC = 1.5e-9;      // finite-difference Jacobian: singular values / rotation vs k, gamma

static inline uint64_t dbits(double v) { uint64_t u; std::memcpy(&u, &v, 8); return u; }
static inline bool same(double a, double b) { return dbits(a) == dbits(b); }
static std::string hexf(double v) { char b[40]; std::snprintf(b, sizeof b, "%a", v); return b; }

// ------------------------------------------------------------------ configurations
enum Cls { SERIES = 0, EXACT = 1, EXACT_EXT = 2, DELEG = 3, DELEG_EXT = 4 };
struct Cfg {
  int cls; double a, f, k0; bool utm; std::string rung; bool largef;
  std::unique_ptr<TransverseMercator> s; std::unique_ptr<TransverseMercatorExact> e;
  const TransverseMercator* sp = nullptr; const TransverseMercatorExact* ep = nullptr;
  bool exact() const { return cls != SERIES; }
  bool ext() const { return cls == EXACT_EXT || cls == DELEG_EXT; }
  double es() const { return std::sqrt(std::fabs(f * (2 - f))); }
  double branch_deg() const { return f > 0 ? 90 * (1 - es()) : 90; }     // longitude of the branch point on the equator
  // every call records how many silent convergence failures (GEOGRAPHICLIB_PANIC sites: zetainv / sigmainv Newton, Math::tauf) it hit
  mutable uint64_t panic_f = 0, panic_r = 0;
  void Forward(double lon0, double lat, double lon, double& x, double& y, double& g, double& k) const {
    uint64_t p0 = vh::hook::panics();
    if (sp) sp->Forward(lon0, lat, lon, x, y, g, k); else ep->Forward(lon0, lat, lon, x, y, g, k);
    panic_f = vh::hook::panics() - p0; }
  void Reverse(double lon0, double x, double y, double& lat, double& lon, double& g, double& k) const {
    uint64_t p0 = vh::hook::panics();
    if (sp) sp->Reverse(lon0, x, y, lat, lon, g, k); else ep->Reverse(lon0, x, y, lat, lon, g, k);
    panic_r = vh::hook::panics() - p0; }
  std::string name() const {
    static const char* n[] = {"series", "exact", "exact-extendp", "series(exact=true)", "series(exact=true,extendp)"};
    return std::string(n[cls]) + "/" + rung; }
  J j() const { return J().str("class", name()).f("a", a).f("f", f).f("k0", k0).b("UTM()", utm); }
};
struct Rung { double f; const char* name; };
static const Rung SERIES_RUNGS[] = {{0, "f=0"}, {1e-6, "f=1e-6"}, {WGS84_F, "f=wgs84"}, {1 / 150.0, "f=1/150"}, {0.01, "f=0.01"},
  {0.02, "f=0.02"}, {0.05, "f=0.05"}, {-1e-6, "f=-1e-6"}, {-WGS84_F, "f=-wgs84"}, {-1 / 150.0, "f=-1/150"}, {-0.01, "f=-0.01"},
  {-0.02, "f=-0.02"}, {-0.05, "f=-0.05"}};
static const Rung EXACT_RUNGS[] = {{1e-6, "f=1e-6"}, {1e-4, "f=1e-4"}, {1e-3, "f=1e-3"}, {WGS84_F, "f=wgs84"}, {1 / 150.0, "f=1/150"},
  {0.01, "f=0.01"}, {0.02, "f=0.02"}, {0.05, "f=0.05"}, {0.08, "f=0.08"}};
// f >= 0.1: the Newton inversions of the exact class start to fail (Reverse from f ~ 0.1, Forward from f ~ 0.45)
static const Rung EXACT_LARGE[] = {{0.1, "f=0.1"}, {0.15, "f=0.15"}, {0.2, "f=0.2"}, {0.3, "f=0.3"}, {0.5, "f=0.5"}, {0.9, "f=0.9"}};
static const double AS[] = {6378137.0, 6378137.0, 6.4e6, 1.0, 1e12};
static const double K0S[] = {0.9996, 1.0, 0.5, 2.0};

static void build(Cfg& c) {
  if (c.utm) { if (c.cls == SERIES) c.sp = &TransverseMercator::UTM(); else c.ep = &TransverseMercatorExact::UTM(); return; }
  switch (c.cls) {
    case SERIES: c.s.reset(vh::detached_new<TransverseMercator>([&] { return TransverseMercator(c.a, c.f, c.k0); }, [&] { return TransverseMercator(c.a * 1.25, 0.004, 0.9); })); c.sp = c.s.get(); break;
    case EXACT: c.e.reset(vh::detached_new<TransverseMercatorExact>([&] { return TransverseMercatorExact(c.a, c.f, c.k0, false); }, [&] { return TransverseMercatorExact(c.a * 1.25, 0.05, 0.9, true); })); c.ep = c.e.get(); break;
    case EXACT_EXT: c.e.reset(vh::detached_new<TransverseMercatorExact>([&] { return TransverseMercatorExact(c.a, c.f, c.k0, true); }, [&] { return TransverseMercatorExact(c.a * 1.25, 0.05, 0.9, false); })); c.ep = c.e.get(); break;
    case DELEG: c.s.reset(vh::detached_new<TransverseMercator>([&] { return TransverseMercator(c.a, c.f, c.k0, true, false); }, [&] { return TransverseMercator(c.a * 1.25, 0.05, 0.9, true, true); })); c.sp = c.s.get(); break;
    default: c.s.reset(vh::detached_new<TransverseMercator>([&] { return TransverseMercator(c.a, c.f, c.k0, true, true); }, [&] { return TransverseMercator(c.a * 1.25, 0.004, 0.9); })); c.sp = c.s.get(); break;
  }
}
// cls: SERIES or one of the exact variants
static void gen_cfg(vh::Rng& r, int cls, Cfg& c) {
  c.cls = cls; c.utm = false; c.largef = false;
  if (cls == SERIES) {
    if (r.coin(0.12)) { c.utm = true; c.a = WGS84_A; c.f = WGS84_F; c.k0 = 0.9996; c.rung = "UTM()"; }
    else if (r.coin(0.2)) { c.f = r.sign() * r.logu(1e-7, 0.05); c.rung = c.f > 0 ? "f=random+" : "f=random-"; c.a = r.pick(AS); c.k0 = r.pick(K0S); }
    else { const Rung& g = r.pick(SERIES_RUNGS); c.f = g.f; c.rung = g.name; c.a = r.pick(AS); c.k0 = r.pick(K0S); }
  } else {
    if (cls == EXACT && r.coin(0.12)) { c.utm = true; c.a = WGS84_A; c.f = WGS84_F; c.k0 = 0.9996; c.rung = "UTM()"; }
    else if (r.coin(0.12)) { const Rung& g = r.pick(EXACT_LARGE); c.f = g.f; c.rung = g.name; c.largef = true; c.a = r.pick(AS); c.k0 = r.pick(K0S); }
    else if (r.coin(0.15)) { c.f = r.logu(1e-6, 0.08); c.rung = "f=random"; c.a = r.pick(AS); c.k0 = r.pick(K0S); }
    else { const Rung& g = r.pick(EXACT_RUNGS); c.f = g.f; c.rung = g.name; c.a = r.pick(AS); c.k0 = r.pick(K0S); }
  }
  build(c);
}

// ------------------------------------------------------------------ reference at a point
struct RefPt {
  bool ok = false; Q x = 0, y = 0, gamma = 0, k = 0; double sens = 0, mind = 0; int nodes = 0;
  Q dlon = 0;                         // true lon - lon0 reduced to [-180,180]
  LD psi = 0, etap = 0, rho = 0, nucos = 0, r = 0;   // isometric latitude, Gauss-Schreiber easting, radii (m), series ratio
};
static Q true_dlon(double lon0, double lon) {
  Q d = remainderq((Q)lon - (Q)lon0, 360);
  return d;
}
static void metric(const Cfg& c, double lat, LD& rho, LD& nucos, LD& psi) {
  LD s, co; ref::sincosd((LD)lat, s, co);
  LD e2 = (LD)c.f * (2 - (LD)c.f), w = 1 - e2 * s * s;
  rho = (LD)c.a * (1 - e2) / (w * std::sqrt(w)); nucos = (LD)c.a * co / std::sqrt(w);
  LD ea = std::sqrt(std::fabs(e2));
  psi = co > 0 ? std::asinh(s / co) - (e2 > 0 ? ea * std::atanh(ea * s) : e2 < 0 ? -ea * std::atan(ea * s) : 0) : (s > 0 ? 1e30L : -1e30L);
}
// via: evaluate on the sheet beyond the branch cut (lat < 0 continued around the branch point)
static RefPt ref_at(const Cfg& c, double lat, Q dlon, bool via) {
  RefPt p; p.dlon = dlon;
  ref::TM<Q> R((Q)c.a, (Q)c.f, (Q)c.k0);
  ref::TM<Q>::Res r = via ? R.forward_via((Q)lat, dlon, (Q)40) : R.forward((Q)lat, dlon);
  p.ok = r.ok; p.x = r.x; p.y = r.y; p.gamma = r.gamma; p.k = r.k; p.sens = (double)r.sens; p.mind = (double)r.mindist; p.nodes = r.nodes;
  metric(c, lat, p.rho, p.nucos, p.psi);
  LD lam = (LD)fabsq(dlon) * (LD)DEGd; if (lam > M_PIl / 2) lam = M_PIl - lam;
  p.etap = std::fabs(p.psi) < 1e20L ? std::atanh(std::sin(lam) / std::cosh(p.psi)) : 0;
  LD n = (LD)c.f / (2 - (LD)c.f);
  p.r = std::fabs(n) * std::exp(2 * p.etap);
  return p;
}
// ground tolerance (metres) for a position produced by the class at this point; <0: not judged against REF
static double pos_tol(const Cfg& c, const RefPt& p, bool reverse) {
  double s = c.a / WGS84_A;
  if (c.exact()) return K_POS * DOC_EXACT_NM * 1e-9 * s;
  LD adl = fabsq(p.dlon); if (adl > 90) adl = 180 - adl;
  if (adl > 75 || p.r > R_MAX) return -1;
  LD n = std::fabs((LD)c.f / (2 - (LD)c.f));
  LD trunc = (reverse ? C_TRUNC_REV : C_TRUNC_FWD) * (LD)c.a * std::pow(n, 7) * std::cosh(14 * p.etap) / (1 - p.r);
  return K_POS * DOC_SERIES_NM * 1e-9 * s + (double)trunc;
}
// tolerance for gamma (radians) and k (relative): ground tolerance turned into an angle through the conditioning
// |d ln Mt'/d zeta| = |sin phi_c|, plus round-off, plus (series) the differentiated truncation tail
static void gk_tol(const Cfg& c, const RefPt& p, double ptol, double& tg, double& tk, bool reverse = false) {
  // admissible |d zeta|; exactly at the pole k (= k0) and gamma (= dlon) are well defined and exactly representable: no conditioning term
  double cond = p.nucos > 0 ? ptol / (double)p.nucos : 0;
  LD n = std::fabs((LD)c.f / (2 - (LD)c.f));
  double tr = c.exact() ? 0 : (double)(std::pow(n, 7) * std::cosh(14 * p.etap) / ((1 - p.r) * (1 - p.r)));
  tg = cond * p.sens + 16 * 2.2e-16 + tr * (reverse ? C_TRUNC_GR : C_TRUNC_G);
  tk = cond * (p.sens + 1) + K_POS * DOC_K_REL + tr * (reverse ? C_TRUNC_KR : C_TRUNC_K);
}
static std::string stratum(const Cfg& c, double lat, Q dlon) {
  double ad = (double)fabsq(dlon), br = c.branch_deg();
  if (std::fabs(lat) == 90) return "pole";
  if (ad == 0) return "central-meridian";
  if (ad > 90) return lat == 0 ? "farside-equator" : "farside";
  if (c.ext() && lat < 0 && ad >= br) return "beyond-branch-cut";
  if (ad <= 35) return "dlon<=35";
  if (ad <= 75 && ad < br) return "dlon35-75";
  if (ad < br) return "dlon75-branch";
  return lat == 0 ? "equator-beyond-branch" : "dlon>branch";
}

// ground distance (m) between two geographic points that are close (local metric, chord in longitude)
static double ground(const RefPt& p, double lat1, Q dl1, double lat2, Q dl2) {
  LD dphi = ((LD)lat2 - (LD)lat1) * (LD)DEGd, dl = (LD)remainderq(dl2 - dl1, 360) * (LD)DEGd;
  return (double)std::hypot(dphi * p.rho, 2 * p.nucos * std::sin(dl / 2));
}

static const char* LF(const Cfg& c) { return c.largef ? "/large-f" : ""; }
// violation key: for the strongly flattened rungs (f > 0.1, outside "ellipsoids used in terrestrial geodesy") every
// forward / reverse / round-trip monitor of the exact class reports under one narrow key each
// hs: point on the continued (extendp) sheet whose scale exceeds HS_K: neighbourhood of the singular image of the south
// pole, where the accuracy of the exact class degrades in proportion to k (own narrow keys)
static const double HS_K = 20;
static std::string KY(const Cfg& c, const std::string& base, bool hs = false) {
  if (!c.largef && !hs) return base;
  const char* suf = c.largef ? "/large-f" : "/extendp-high-scale";
  if (base.find("roundtrip") != std::string::npos) return std::string("law:C06/exact/roundtrip") + suf;
  if (base.find("reverse") != std::string::npos) return std::string("oracle:C06/exact/reverse") + suf;
  return std::string("oracle:C06/exact/forward") + suf;
}

// convergence-failure hook: inside the documented domain a panic is a violation; in the large-f / high-scale regimes an event
static void judge_panic(Ctx& ctx, const Cfg& c, bool forward, bool hs, bool judged_domain, const std::string& cls, const J& in, bool at_branch_point = false) {
  uint64_t n = forward ? c.panic_f : c.panic_r;
  if (!n) return;
  std::string site = std::string(c.exact() ? "exact" : "series") + (forward ? "-forward" : "-reverse");
  // lead's decision: Newton exhausting its iterations at the equator within a few ulp of the branch point (REF unavailable there,
  // the round trip law still applies) is recorded, not judged
  if (at_branch_point) ctx.event("hook: convergence failure (panic) in " + site + " within 2e-8 deg of the branch point");
  else if (c.largef) ctx.event("hook: convergence failure (panic) in " + site + " on a large-f rung");
  else if (hs) ctx.event("hook: convergence failure (panic) in " + site + " at an extendp-high-scale point");
  else if (!judged_domain) ctx.event("hook: convergence failure (panic) in " + site + " outside the judged domain");
  else ctx.viol("hook:C06/panic/" + site, cls, J(in).u("panics", n));
}

// ------------------------------------------------------------------ the per-point monitor
// Returns nothing; reports through ctx.  lat in [-90,90].
static void check_point(Ctx& ctx, const Cfg& c, double lon0, double lat, double lon, bool trivial = false) {
  Q dlon = true_dlon(lon0, lon);
  std::string st = stratum(c, lat, dlon), cls = c.name() + "/" + st;
  uint64_t h = vh::hmix(vh::hmix(vh::hmix(vh::hmix(vh::hmix(vh::hmix(c.cls, c.a), c.f), c.k0), lon0), lat), lon);
  ctx.count(cls, h, trivial);
  J in = J().obj("cfg", c.j()).f("lon0", lon0).f("lat", lat).f("lon", lon).str("lat_hex", hexf(lat)).str("lon_hex", hexf(lon)).str("lon0_hex", hexf(lon0));
  if (ctx.want_sample(cls)) ctx.sample(cls, in);
  double x = vh::sentinel(1), y = vh::sentinel(2), g = vh::sentinel(3), k = vh::sentinel(4);
  c.Forward(lon0, lat, lon, x, y, g, k);
  if (!(std::isfinite(x) && std::isfinite(y) && std::isfinite(g) && std::isfinite(k))) {
    bool judged = c.exact();
    if (!judged) {   // the series is documented to give garbage outside its strip: non-finite output is a violation only inside
      RefPt q; q.dlon = dlon; metric(c, lat, q.rho, q.nucos, q.psi);
      LD lam = (LD)fabsq(dlon) * (LD)DEGd; if (lam > M_PIl / 2) lam = M_PIl - lam;
      q.etap = std::fabs(q.psi) < 1e20L ? std::atanh(std::min((LD)1, std::sin(lam) / std::cosh(q.psi))) : 0;
      q.r = std::fabs((LD)c.f / (2 - (LD)c.f)) * std::exp(2 * q.etap);
      judged = pos_tol(c, q, false) > 0;
    }
    if (judged) ctx.viol(KY(c, std::string("oracle:C06/") + (c.exact() ? "exact" : "series") + "/forward/non-finite"), cls, J(in).f("x", x).f("y", y).f("gamma", g).f("k", k));
    else ctx.event("series: non-finite output outside the judged strip");
    return;
  }
  const std::string kind = c.exact() ? "exact" : "series";
  double ad = (double)fabsq(dlon), br = c.branch_deg();
  bool extsheet = c.ext() && lat < 0;                    // extendp: no north/south folding
  // high scale: by the returned k, or (robust against a garbage k) by the spherical lower bound k/k0 >~ cosh(x / (a k0))
  const bool hs = extsheet && (!(k / c.k0 <= HS_K) || !(std::cosh(std::fabs(x) / (c.a * c.k0)) <= HS_K));
  const std::string HSL = hs ? "/extendp-high-scale" : "";
  const uint64_t pf_primary = c.panic_f;
  bool in_ext_domain = !c.ext() || (lat >= 0 && ad <= 90 && dlon >= 0) || (lat < 0 && lat > -90 && dlon >= br && dlon <= 90);
  if (c.ext() && !in_ext_domain) { ctx.event("extendp: point outside the documented extendp domain, not judged"); return; }
  const bool at_bp = c.exact() && std::hypot(lat, ad - br) <= 2e-8;   // within 2e-8 deg (2 mm) of the branch point
  c.panic_f = pf_primary; judge_panic(ctx, c, true, hs, true, cls, in, at_bp);   // series Forward has no Newton iteration; exact: whole domain is documented
  bool on_cut = c.exact() && !c.ext() && lat == 0 && ad >= br && ad <= 180 - br;   // the cut itself: y is two-valued
  // ---- REF
  RefPt p;
  bool useref = !on_cut;
  if (useref) p = ref_at(c, lat, dlon, extsheet && ad >= br);
  else metric(c, lat, p.rho, p.nucos, p.psi), p.dlon = dlon;
  if (useref && !p.ok) ctx.event("REF not available (path within margin of branch point / not converged): laws only");
  double ptol = -1;
  if (useref && p.ok) {
    ctx.event("REF evaluations"); ctx.event("REF integrand evaluations", p.nodes);
    ptol = pos_tol(c, p, false);
    double err = (double)(hypotq((Q)x - p.x, (Q)y - p.y) / p.k);
    if (ptol > 0) {
      ctx.obs(kind + " forward position error / tolerance" + LF(c) + HSL, err / ptol, J(in).f("err_m", err).f("tol_m", ptol));
      if (!c.exact() && ad <= 35 && std::fabs(c.f) <= 0.0034) ctx.obs("series forward ground error, |dlon|<=35, |f|<=wgs84 [nm * 6378137/a]", err * 1e9 * WGS84_A / c.a, in);
      if (!c.exact()) { LD n = std::fabs((LD)c.f / (2 - (LD)c.f)), mdl = (LD)c.a * std::pow(n, 7) * std::cosh(14 * p.etap) / (1 - p.r);
        if (mdl > 4 * K_POS * DOC_SERIES_NM * 1e-9 * c.a / WGS84_A) ctx.obs("calibration: series forward error / (a |n|^7 cosh(14 eta')/(1-r)) where that model > 80 nm", (double)(err / mdl), in); }
      if (c.exact() && !c.largef && !hs) ctx.obs("exact forward ground error [nm * 6378137/a]", err * 1e9 * WGS84_A / c.a, in);
      if (!(err <= ptol) && (c.largef || hs)) ctx.event(std::string(c.largef ? "large-f" : "extendp-high-scale") + ": forward position violation " + (pf_primary ? "WITH" : "without") + " a convergence-failure panic in Forward");
      if (!(err <= ptol))
        ctx.viol(KY(c, "oracle:C06/" + kind + "/forward/position", hs), cls, J(in).f("x", x).f("y", y).f("ref_x", (double)p.x).f("ref_y", (double)p.y).f("ground_err_m", err).f("tol_m", ptol));
      double tg, tk; gk_tol(c, p, ptol, tg, tk);
      double eg = (double)fabsq(remainderq((Q)g - p.gamma, 360)) * DEGd, ek = (double)fabsq((Q)k / p.k - 1);
      if (ad == 180 || std::fabs(lat) == 90) eg = std::min(eg, (double)fabsq(remainderq((Q)g + p.gamma, 360)) * DEGd);   // sign convention at the antimeridian / pole is free
      ctx.obs(kind + " forward gamma error / tolerance" + LF(c) + HSL, eg / tg, J(in).f("err_rad", eg).f("tol_rad", tg));
      ctx.obs(kind + " forward k error / tolerance" + LF(c) + HSL, ek / tk, J(in).f("err_rel", ek).f("tol_rel", tk));
      if (!(eg <= tg)) ctx.viol(KY(c, "oracle:C06/" + kind + "/forward/gamma", hs), cls, J(in).f("gamma", g).f("ref_gamma", (double)p.gamma).f("err_rad", eg).f("tol_rad", tg));
      if (!(ek <= tk)) ctx.viol(KY(c, "oracle:C06/" + kind + "/forward/k", hs), cls, J(in).f("k", k).f("ref_k", (double)p.k).f("err_rel", ek).f("tol_rel", tk));
    } else ctx.event("series: outside judged strip (|dlon|>75 or r>R_MAX): laws only");
  }
  // ---- far side of the equator: the sign of y at lat = +-0 is a convention; the two implementations must share it
  if (lat == 0 && ad > 90 && ad < 180 && !c.ext() && c.f > 0 && c.f <= 0.05 && 180 - ad <= 60 &&
      c.f / (2 - c.f) * std::exp(2 * std::atanh(std::sin((180 - ad) * DEGd))) <= R_MAX) {
    double xs, ys, gs, ks;
    if (c.exact()) { TransverseMercator sib(c.a, c.f, c.k0); sib.Forward(lon0, lat, lon, xs, ys, gs, ks); }
    else { TransverseMercatorExact sib(c.a, c.f, c.k0); sib.Forward(lon0, lat, lon, xs, ys, gs, ks); }
    ctx.event("far-side equator: series and exact conventions compared");
    if (!(std::fabs(xs - x) <= 1e-3 * c.a && std::fabs(ys - y) <= 1e-3 * c.a && std::fabs(std::remainder(gs - g, 360.0)) <= 0.1))
      ctx.viol(KY(c, "law:C06/series-vs-exact/far-side-equator-convention"), cls, J(in).f("x", x).f("y", y).f("gamma", g).f("x_sibling", xs).f("y_sibling", ys).f("gamma_sibling", gs));
  }
  // ---- central meridian identity
  if (dlon == 0 && std::fabs(lat) < 90) {
    if (!(x == 0 && g == 0 && (!c.exact() || std::fabs(k / c.k0 - 1) <= 8 * 2.2e-16)))   // series: k = k0 only to truncation, judged by the oracle
      ctx.viol(KY(c, "law:C06/" + kind + "/central-meridian"), cls, J(in).f("x", x).f("gamma", g).f("k", k));
  }
  // ---- pole
  if (std::fabs(lat) == 90) {
    if (!(x == 0 && (!c.exact() || std::fabs(k / c.k0 - 1) <= 16 * 2.2e-16)))
      ctx.viol(KY(c, "law:C06/" + kind + "/pole"), cls, J(in).f("x", x).f("k", k).f("gamma", g));
  }
  // ---- Reverse o Forward
  {
    double la = vh::sentinel(5), lo = vh::sentinel(6), g2 = vh::sentinel(7), k2 = vh::sentinel(8);
    c.Reverse(lon0, x, y, la, lo, g2, k2);
    bool series_judged = c.exact() || ptol > 0;
    judge_panic(ctx, c, false, hs, series_judged, cls, in, at_bp);
    if (c.largef && c.panic_r) ctx.event("large-f: Reverse(Forward) with a panic in Reverse");
    if (!(std::isfinite(la) && std::isfinite(lo) && std::isfinite(g2) && std::isfinite(k2))) {
      if (series_judged || c.exact()) ctx.viol(KY(c, "law:C06/" + kind + "/roundtrip/non-finite", hs), cls, J(in).f("x", x).f("y", y).f("lat2", la).f("lon2", lo));
    } else if (on_cut || (c.exact() && !c.ext() && lat == 0 && ad > br)) {
      // on the equator beyond the branch point the forward image lies on the cut; only |lat| ~ 0 and lon are recoverable
      Q dl2 = true_dlon(lon0, lo);
      double d = ground(p, std::fabs(lat), fabsq(dlon), std::fabs(la), fabsq(dl2));
      ctx.obs(std::string("exact roundtrip on the cut [nm * 6378137/a]") + LF(c), d * 1e9 * WGS84_A / c.a, in);
      if (!(d <= 2 * K_POS * DOC_EXACT_NM * 1e-9 * c.a / WGS84_A * 50)) ctx.viol(KY(c, "law:C06/exact/roundtrip/on-cut"), cls, J(in).f("lat2", la).f("lon2", lo).f("ground_m", d));
    } else if (series_judged && (p.ok || c.exact())) {
      Q dl2 = true_dlon(lon0, lo);
      if (!(lo >= -180 && lo <= 180)) ctx.viol("law:C06/" + kind + "/reverse/lon-range", cls, J(in).f("lon2", lo));
      double d = ground(p, lat, dlon, la, dl2);
      double tol = c.exact() ? 2 * K_POS * DOC_EXACT_NM * 1e-9 * c.a / WGS84_A : ptol + pos_tol(c, p, true);
      if (ad == 180 && std::fabs(std::fabs((double)dl2) - 180) < 1e-9) d = ground(p, lat, fabsq(dlon), la, fabsq(dl2));
      ctx.obs(kind + " Reverse(Forward) ground displacement / tolerance" + LF(c) + HSL, d / tol, J(in).f("d_m", d).f("tol_m", tol).f("lat2", la).f("lon2", lo));
      if (!(d <= tol) && (c.largef || hs)) ctx.event(std::string(c.largef ? "large-f" : "extendp-high-scale") + ": round-trip violation " + (c.panic_r ? "WITH" : "without") + " a convergence-failure panic in Reverse");
      if (!(d <= tol)) ctx.viol(KY(c, "law:C06/" + kind + "/roundtrip", hs), cls, J(in).f("x", x).f("y", y).f("lat2", la).f("lon2", lo).f("ground_m", d).f("tol_m", tol));
      // Reverse against REF: sigma_REF(zeta') ~ sigma_REF(zeta) + Mt'(zeta) (zeta' - zeta); error vector in the zeta plane =
      // forward error vector / Mt' + round-trip displacement
      if (p.ok && ptol > 0 && std::fabs(lat) < 90 && d < 1e-3 * c.a) {
        LD kk = (LD)(p.k / (Q)c.k0) * p.nucos;                       // |Mt'| (m/rad)
        LD gam = (LD)p.gamma * (LD)DEGd;
        // (dy + i dx) / Mt',  Mt' = kk exp(-i gamma)
        LD dy = (LD)(((Q)y - p.y) / (Q)c.k0), dx = (LD)(((Q)x - p.x) / (Q)c.k0);
        LD fr = (dy * std::cos(gam) - dx * std::sin(gam)) / kk, fi = (dx * std::cos(gam) + dy * std::sin(gam)) / kk;   // (dy+i dx) e^{+i gamma}/kk
        LD dpsi = ((LD)la - (LD)lat) * (LD)DEGd * p.rho / p.nucos, dlam = (LD)remainderq(dl2 - dlon, 360) * (LD)DEGd;
        // sigma_REF(zeta') - sigma_in = Mt' dzeta - (sigma_lib - sigma_REF)  ->  reverse error (zeta units) = dzeta - fwd_err/Mt'
        double rev = (double)(std::hypot(dpsi - fr, dlam - fi) * p.nucos);
        double rtol = pos_tol(c, p, true);
        ctx.obs(kind + " reverse position error vs REF / tolerance" + LF(c) + HSL, rev / rtol, J(in).f("err_m", rev).f("tol_m", rtol));
        if (!c.exact() && ad <= 35 && std::fabs(c.f) <= 0.0034) ctx.obs("series reverse ground error, |dlon|<=35, |f|<=wgs84 [nm * 6378137/a]", rev * 1e9 * WGS84_A / c.a, in);
        if (!c.exact()) { LD n = std::fabs((LD)c.f / (2 - (LD)c.f)), mdl = (LD)c.a * std::pow(n, 7) * std::cosh(14 * p.etap) / (1 - p.r), m2 = std::pow(n, 7) * std::cosh(14 * p.etap) / ((1 - p.r) * (1 - p.r));
          if (mdl > 4 * K_POS * DOC_SERIES_NM * 1e-9 * c.a / WGS84_A) ctx.obs("calibration: series reverse error / (a |n|^7 cosh(14 eta')/(1-r)) where that model > 80 nm", (double)(rev / mdl), in);
          if (m2 > 1e-12 && std::fabs(lat) < 89) { ctx.obs("calibration: series forward gamma error [rad] / (|n|^7 cosh(14 eta')/(1-r)^2) where that model > 1e-12", (double)((LD)std::min((double)fabsq(remainderq((Q)g - p.gamma, 360)), ad == 180 ? (double)fabsq(remainderq((Q)g + p.gamma, 360)) : 1e9) * (LD)DEGd / m2), in);
            ctx.obs("calibration: series forward k error / (|n|^7 cosh(14 eta')/(1-r)^2) where that model > 1e-12", (double)((LD)fabsq((Q)k / p.k - 1) / m2), in);
            ctx.obs("calibration: series reverse gamma error [rad] / (|n|^7 cosh(14 eta')/(1-r)^2) where that model > 1e-12", (double)((LD)std::min((double)fabsq(remainderq((Q)g2 - p.gamma, 360)), ad == 180 ? (double)fabsq(remainderq((Q)g2 + p.gamma, 360)) : 1e9) * (LD)DEGd / m2), in);
            ctx.obs("calibration: series reverse k error / (|n|^7 cosh(14 eta')/(1-r)^2) where that model > 1e-12", (double)((LD)fabsq((Q)k2 / p.k - 1) / m2), in); } }
        if (c.exact() && !c.largef && !hs) ctx.obs("exact reverse ground error [nm * 6378137/a]", rev * 1e9 * WGS84_A / c.a, in);
        if (!(rev <= rtol)) ctx.viol(KY(c, "oracle:C06/" + kind + "/reverse/position", hs), cls, J(in).f("x", x).f("y", y).f("lat2", la).f("lon2", lo).f("err_m", rev).f("tol_m", rtol));
        double tg, tk; gk_tol(c, p, rtol, tg, tk, true);
        double eg = (double)fabsq(remainderq((Q)g2 - p.gamma, 360)) * DEGd, ek = (double)fabsq((Q)k2 / p.k - 1);
        if (ad == 180) eg = std::min(eg, (double)fabsq(remainderq((Q)g2 + p.gamma, 360)) * DEGd);
        ctx.obs(kind + " reverse gamma error / tolerance" + LF(c) + HSL, eg / tg, J(in).f("err_rad", eg).f("tol_rad", tg));
        ctx.obs(kind + " reverse k error / tolerance" + LF(c) + HSL, ek / tk, J(in).f("err_rel", ek).f("tol_rel", tk));
        if (!(eg <= tg)) ctx.viol(KY(c, "oracle:C06/" + kind + "/reverse/gamma", hs), cls, J(in).f("gamma", g2).f("ref_gamma", (double)p.gamma).f("err_rad", eg).f("tol_rad", tg));
        if (!(ek <= tk)) ctx.viol(KY(c, "oracle:C06/" + kind + "/reverse/k", hs), cls, J(in).f("k", k2).f("ref_k", (double)p.k).f("err_rel", ek).f("tol_rel", tk));
      }
    }
  }
  // ---- parity, bit-exact where the code folds signs (not with extendp)
  if (!c.ext()) {
    double dd = (double)dlon;   // correctly rounded difference = what the library works with
    if (std::fabs(dd) < 180) {
      double x0, y0, g0, k0, x1, y1, g1, k1, x2, y2, g2, k2;
      c.Forward(0, lat, dd, x0, y0, g0, k0);
      c.Forward(0, -lat, dd, x1, y1, g1, k1);
      c.Forward(0, lat, -dd, x2, y2, g2, k2);
      bool cutpt = on_cut || (lat == 0 && std::fabs(dd) > 90 && !c.exact());   // lat = +-0 on the far side/cut selects a sheet: documented asymmetry
      if (!(same(x0, x) && same(y0, y) && same(g0, g) && same(k0, k)))
        ctx.viol(KY(c, "law:C06/" + kind + "/lon0-shift-not-exact"), cls, J(in).f("dlon", dd).f("x", x).f("x0", x0).f("y", y).f("y0", y0).f("g", g).f("g0", g0));
      if (!cutpt && !(lat == 0 && std::fabs(dd) > 90) && !(same(x1, x0) && same(y1, -y0) && same(k1, k0) && (same(g1, -g0) || (g0 == 0 && g1 == 0))))
        ctx.viol(KY(c, "law:C06/" + kind + "/parity-lat"), cls, J(in).f("dlon", dd).f("x", x0).f("xm", x1).f("y", y0).f("ym", y1).f("g", g0).f("gm", g1).f("k", k0).f("km", k1));
      if (!(same(x2, -x0) && same(y2, y0) && same(k2, k0) && (same(g2, -g0) || (g0 == 0 && g2 == 0))))
        ctx.viol(KY(c, "law:C06/" + kind + "/parity-lon"), cls, J(in).f("dlon", dd).f("x", x0).f("xm", x2).f("y", y0).f("ym", y2).f("g", g0).f("gm", g2).f("k", k0).f("km", k2));
      // reverse parities
      double la0, lo0, a0, b0, la1, lo1, a1, b1, la2, lo2, a2, b2;
      c.Reverse(0, x0, y0, la0, lo0, a0, b0);
      c.Reverse(0, -x0, y0, la1, lo1, a1, b1);
      c.Reverse(0, x0, -y0, la2, lo2, a2, b2);
      if (std::isfinite(la0) && std::isfinite(lo0)) {
        bool z = (x0 == 0);   // on the central/anti meridian lon = +-0 or +-180: sign is free
        if (!(same(la1, la0) && (same(lo1, -lo0) || z) && same(b1, b0) && (same(a1, -a0) || a0 == 0 || z)))
          ctx.viol(KY(c, "law:C06/" + kind + "/reverse-parity-x", hs), cls, J(in).f("x", x0).f("y", y0).f("lat", la0).f("latm", la1).f("lon", lo0).f("lonm", lo1).f("g", a0).f("gm", a1));
        if (y0 != 0 && !(same(la2, -la0) && same(lo2, lo0) && same(b2, b0) && (same(a2, -a0) || a0 == 0)))
          ctx.viol(KY(c, "law:C06/" + kind + "/reverse-parity-y", hs), cls, J(in).f("x", x0).f("y", y0).f("lat", la0).f("latm", la2).f("lon", lo0).f("lonm", lo2).f("g", a0).f("gm", a2));
      }
    }
  }
  // ---- lon = lon + 360 k, lon0 = lon0 + 360 j (exactly representable shifts)
  {
    static const double KS[] = {1, -1, 2, -3, 10, 1000, -100000};
    double kk = KS[ctx.rng.below(7)], lonk = lon + 360 * kk, lon0k = lon0 + 360 * kk;
    if ((Q)lonk - (Q)lon == (Q)(360 * kk) && ad < 180 && dlon != 0) {
      double x1, y1, g1, k1; c.Forward(lon0, lat, lonk, x1, y1, g1, k1);
      ctx.event("lon+360k wrap checked");
      if (!(same(x1, x) && same(y1, y) && same(g1, g) && same(k1, k)))
        ctx.viol(KY(c, "law:C06/" + kind + "/wrap-lon+360k"), cls, J(in).f("k360", kk).f("x", x).f("x1", x1).f("y", y).f("y1", y1));
    }
    if ((Q)lon0k - (Q)lon0 == (Q)(360 * kk) && ad < 180 && dlon != 0) {
      double x1, y1, g1, k1; c.Forward(lon0k, lat, lon, x1, y1, g1, k1);
      ctx.event("lon0+360k wrap checked");
      if (!(same(x1, x) && same(y1, y) && same(g1, g) && same(k1, k)))
        ctx.viol(KY(c, "law:C06/" + kind + "/wrap-lon0+360k"), cls, J(in).f("k360", kk).f("x", x).f("x1", x1).f("y", y).f("y1", y1));
      double la, lo, a1, b1, la1, lo1, a2, b2;
      c.Reverse(lon0, x, y, la, lo, a1, b1); c.Reverse(lon0k, x, y, la1, lo1, a2, b2);
      if (std::isfinite(lo) && std::isfinite(lo1)) {
        double dl = (double)fabsq(remainderq((Q)lo1 - (Q)lo, 360));
        double tl = 4 * 2.2e-16 * std::max(360.0, std::fabs(lon0k));
        if (std::fabs(std::fabs(lat)) == 90) dl = 0;
        if (!(same(la, la1) && dl <= tl && lo1 >= -180 && lo1 <= 180 && same(a1, a2) && same(b1, b2)))
          ctx.viol(KY(c, "law:C06/" + kind + "/reverse-wrap-lon0+360k", hs), cls, J(in).f("k360", kk).f("lon", lo).f("lon1", lo1).f("lat", la).f("lat1", la1));
      }
    }
  }
}

// ------------------------------------------------------------------ point generators
static double gen_lat(vh::Rng& r) {
  switch (r.below(12)) {
    case 0: return r.sign() * r.logu(1e-12, 1);                  // near the equator
    case 1: return r.sign() * (90 - r.logu(1e-12, 1));           // near a pole
    case 2: return r.coin(0.5) ? 0.0 : r.sign() * 90;
    case 3: return r.sign() * std::floor(r.uniform(0, 90));
    default: return r.uniform(-90, 90);
  }
}
// offset from the central meridian for the class
static double gen_dlon(vh::Rng& r, const Cfg& c, double& lat) {
  double br = c.branch_deg();
  if (c.cls == SERIES) {
    switch (r.below(10)) {
      case 0: case 1: case 2: case 3: return r.sign() * r.uniform(0, 35);
      case 4: case 5: return r.sign() * r.uniform(35, 75);
      case 6: return r.sign() * r.logu(1e-12, 1);
      case 7: return r.sign() * (180 - r.uniform(0, 35));           // far side, folded back into the accurate strip
      case 8: return r.sign() * r.uniform(0, 180);                  // anywhere (laws only outside the strip)
      default: return r.sign() * vh::ulps(r.pick({3.0, 35.0, 75.0, 90.0, 180.0}), r.range(-2, 0));
    }
  }
  if (c.ext()) {
    if (r.coin(0.5)) { lat = std::fabs(lat); return r.coin(0.1) ? r.pick({0.0, 90.0}) : r.uniform(0, 90); }
    lat = -std::fabs(lat); if (lat == -90) lat = -89;
    if (r.coin(0.7)) lat = -r.logu(1e-9, 30);
    return std::min(90.0, br + (90 - br) * (r.coin(0.2) ? r.logu(1e-6, 1) : r.u()));
  }
  switch (r.below(12)) {
    case 0: case 1: case 2: return r.sign() * r.uniform(0, 35);
    case 3: case 4: return r.sign() * r.uniform(35, 75);
    case 5: return r.sign() * r.uniform(75, 90);
    case 6: case 7: return r.sign() * r.uniform(90, 180);                                   // far side
    case 8: { if (r.coin(0.7)) lat = r.sign() * r.logu(1e-6, 5); return r.sign() * (br + r.sign() * r.logu(1e-3, 5)); }   // around the branch point
    case 9: { lat = r.coin(0.5) ? 0.0 : r.sign() * r.logu(1e-12, 1e-3); return r.sign() * r.uniform(0, 180); }          // equator incl. the cut
    case 10: return r.sign() * r.logu(1e-12, 1);
    default: return r.sign() * vh::ulps(r.pick({35.0, 90.0, 180.0, br}), r.range(-2, 2));
  }
}
static double gen_lon0(vh::Rng& r) {
  switch (r.below(8)) {
    case 0: return 0;
    case 1: return r.sign() * 180;
    case 2: return -183 + 6 * r.range(1, 60);      // UTM central meridians
    case 3: return r.sign() * vh::ulps(180, -r.range(0, 3));
    case 4: return r.uniform(-1e5, 1e5);
    default: return r.uniform(-180, 180);
  }
}

static void sec_points(Ctx& ctx, int cls) {
  Cfg c; gen_cfg(ctx.rng, cls, c);
  double lat = gen_lat(ctx.rng), dl = gen_dlon(ctx.rng, c, lat), lon0 = gen_lon0(ctx.rng);
  if (std::fabs(dl) > 180) dl = std::copysign(180.0, dl);
  double lon = lon0 + dl;
  if (c.ext()) {   // extendp needs lon - lon0 in [0,90] exactly: use lon0 = 0
    lon0 = 0; lon = dl;
  }
  check_point(ctx, c, lon0, lat, lon);
}
static void sec_series(Ctx& ctx, uint64_t) { sec_points(ctx, SERIES); }
static void sec_exact(Ctx& ctx, uint64_t idx) { sec_points(ctx, idx % 8 == 7 ? DELEG : EXACT); }
static void sec_extend(Ctx& ctx, uint64_t idx) { sec_points(ctx, idx % 8 == 7 ? DELEG_EXT : EXACT_EXT); }

// x / (a k0) of the image of the branch point (lat 0, dlon 90(1-e)):  K(1-e^2) - E(1-e^2) = int_0^{pi/2} m cos^2 t / sqrt(e^2 + m sin^2 t) dt,
// m = 1 - e^2, by adaptive Gauss-Legendre (generator bound only, not an oracle value)
static LD kme_rec(const ref::GL<LD>& g, LD e2, LD a0, LD b0, LD whole, int depth) {
  auto fun = [&](LD t) { LD m = 1 - e2, s = std::sin(t), c = std::cos(t); return m * c * c / std::sqrt(e2 + m * s * s); };
  LD mid = (a0 + b0) / 2, I1 = g.panel(fun, a0, mid), I2 = g.panel(fun, mid, b0);
  if (std::fabs(I1 + I2 - whole) <= 1e-15L * std::fabs(I1 + I2) || depth > 40) return I1 + I2;
  return kme_rec(g, e2, a0, mid, I1, depth + 1) + kme_rec(g, e2, mid, b0, I2, depth + 1);
}
static double branch_x_unit(double f) {
  LD e2 = (LD)f * (2 - (LD)f); const ref::GL<LD>& g = ref::gl<LD>(24);
  auto fun = [&](LD t) { LD m = 1 - e2, s = std::sin(t), c = std::cos(t); return m * c * c / std::sqrt(e2 + m * s * s); };
  return (double)kme_rec(g, e2, 0, M_PIl / 2, g.panel(fun, (LD)0, M_PIl / 2), 0);
}

// ------------------------------------------------------------------ Reverse on independent (x, y)
static void sec_reverse_xy(Ctx& ctx, uint64_t idx) {
  vh::Rng& r = ctx.rng;
  int cls = idx % 3 == 0 ? SERIES : (idx % 3 == 1 ? EXACT : EXACT_EXT);
  Cfg c; gen_cfg(r, cls, c);
  const std::string kind = c.exact() ? "exact" : "series";
  ref::TM<LD> RL((LD)c.a, (LD)c.f, (LD)c.k0);
  double Mq = (double)(RL.quarter_unit() * (LD)c.a * (LD)c.k0), ak = c.a * c.k0;
  double x, y, lon0 = c.ext() ? 0 : gen_lon0(r);
  std::string st;
  if (cls == SERIES) {
    x = r.sign() * ak * (r.coin(0.7) ? r.uniform(0, 0.65) : r.uniform(0.65, 1.6));
    y = r.coin(0.8) ? r.uniform(-Mq, Mq) : r.sign() * r.uniform(Mq, 2 * Mq); st = std::fabs(y) > Mq ? "xy/farside" : "xy/near";
  } else if (cls == EXACT) {
    x = r.sign() * ak * (r.coin(0.6) ? r.uniform(0, 1.5) : r.uniform(1.5, 4));
    y = r.coin(0.6) ? r.uniform(-Mq, Mq) : r.sign() * r.uniform(Mq, 2 * Mq); st = std::fabs(y) > Mq ? "xy/farside" : "xy/near";
    if (r.coin(0.05)) { y = r.coin() ? 0.0 : r.sign() * Mq; st = "xy/y-special"; }
  } else {
    if (r.coin(0.6)) { x = ak * r.uniform(0, 3.5); y = r.uniform(0, Mq); st = "xy/ext-upper"; }
    else { // below the axis only right of the branch point image
      double xb = ak * branch_x_unit(c.f); x = xb + ak * (r.coin(0.3) ? r.logu(1e-3, 0.1) : r.uniform(0.01, 2)); y = -ak * (r.coin(0.3) ? r.logu(1e-3, 0.1) : r.uniform(0, 2)); st = "xy/ext-lower"; }
  }
  std::string cls_s = c.name() + "/" + st;
  ctx.count(cls_s, vh::hmix(vh::hmix(vh::hmix(vh::hmix(vh::hmix(vh::hmix(77 + c.cls, c.a), c.f), c.k0), lon0), x), y));
  J in = J().obj("cfg", c.j()).f("lon0", lon0).f("x", x).f("y", y).str("x_hex", hexf(x)).str("y_hex", hexf(y));
  if (ctx.want_sample(cls_s)) ctx.sample(cls_s, in);
  double la, lo, g, k; c.Reverse(lon0, x, y, la, lo, g, k);
  const bool hs = c.ext() && y < 0 && (!(k / c.k0 <= HS_K) || !(std::cosh(std::fabs(x) / ak) <= HS_K));
  judge_panic(ctx, c, false, hs, c.exact() || std::fabs(x) < 0.65 * ak, cls_s, in);
  if (!(std::isfinite(la) && std::isfinite(lo) && std::isfinite(g) && std::isfinite(k))) {
    // the series may overflow far outside its domain (cosh(2 eta) etc. are finite here, so treat as violation only when judged)
    if (c.exact() || std::fabs(x) < 1.3 * ak) ctx.viol(KY(c, "oracle:C06/" + kind + "/reverse/non-finite", hs), cls_s, J(in).f("lat", la).f("lon", lo));
    return;
  }
  if (!(std::fabs(la) <= 90 && lo >= -180 && lo <= 180)) { ctx.viol(KY(c, "oracle:C06/" + kind + "/reverse/range", hs), cls_s, J(in).f("lat", la).f("lon", lo)); return; }
  Q dlon = true_dlon(lon0, lo);
  double ad = (double)fabsq(dlon), br = c.branch_deg();
  // which sheet: standard if sign(lat) agrees with sign(y) (after far-side folding the sign of y is unchanged)
  bool extsheet = c.ext() ? false : ((la != 0 && y != 0 && (la < 0) != (y < 0)) || (y == 0 && la != 0 && ad > br && ad < 180 - br));
  RefPt p;
  if (c.ext()) {
    if (la < 0 && (dlon < br || dlon > 90)) { ctx.viol(KY(c, "oracle:C06/exact/reverse/extendp-result-outside-domain", hs), cls_s, J(in).f("lat", la).f("lon", lo)); return; }
    p = ref_at(c, la, dlon, la < 0);
  } else if (extsheet) {
    if (!c.exact()) { ctx.viol("oracle:C06/series/reverse/lat-sign", cls_s, J(in).f("lat", la).f("lon", lo)); return; }
    // (x,y) lies in the part of the strip that is the image of the continued sheet: evaluate REF there via the dog-leg path
    // using the symmetry  sigma(-lat...) : fold to y > 0, lat < 0, dlon > 0
    if (ad > 90 || ad < br) { ctx.event("reverse: continued-sheet point outside dog-leg reach, not judged"); return; }
    p = ref_at(c, -std::fabs(la), fabsq(dlon), true);
    if (p.ok) { p.x = x < 0 ? -p.x : p.x; p.y = y < 0 ? -p.y : p.y; p.gamma = ((x < 0) != (y < 0)) ? -p.gamma : p.gamma; }
    ctx.event("reverse: continued-sheet points judged by dog-leg REF");
  } else p = ref_at(c, la, dlon, false);
  if (!p.ok) { ctx.event("REF not available (path within margin of branch point / not converged): laws only"); return; }
  ctx.event("REF evaluations"); ctx.event("REF integrand evaluations", p.nodes);
  double rtol = pos_tol(c, p, true);
  if (rtol < 0) { ctx.event("series: outside judged strip (|dlon|>75 or r>R_MAX): laws only"); return; }
  // representational slack: lat, lon are rounded to double (half an ulp each)
  double slack = (double)(p.rho * (LD)(ref::ulp_d(std::max(std::fabs(la), 1e-300)) / 2) * (LD)DEGd + p.nucos * (LD)(ref::ulp_d(std::max(std::max(std::fabs(lo), std::fabs(lon0)), 1e-300))) * (LD)DEGd);
  double err = (double)(hypotq((Q)x - p.x, (Q)y - p.y) / p.k);
  const std::string HSL = hs ? "/extendp-high-scale" : "";
  ctx.obs(kind + " reverse(x,y) position error vs REF / tolerance" + LF(c) + HSL, err / (rtol + slack), J(in).f("err_m", err).f("tol_m", rtol + slack).f("lat", la).f("lon", lo));
  if (!(err <= rtol + slack)) ctx.viol(KY(c, "oracle:C06/" + kind + "/reverse/position", hs), cls_s, J(in).f("lat", la).f("lon", lo).f("ref_x", (double)p.x).f("ref_y", (double)p.y).f("err_m", err).f("tol_m", rtol + slack));
  double tg, tk; gk_tol(c, p, rtol + slack, tg, tk, true);
  double eg = (double)fabsq(remainderq((Q)g - p.gamma, 360)) * DEGd, ek = (double)fabsq((Q)k / p.k - 1);
  ctx.obs(kind + " reverse(x,y) gamma error / tolerance" + LF(c) + HSL, eg / tg, J(in).f("err_rad", eg));
  ctx.obs(kind + " reverse(x,y) k error / tolerance" + LF(c) + HSL, ek / tk, J(in).f("err_rel", ek));
  if (!(eg <= tg)) ctx.viol(KY(c, "oracle:C06/" + kind + "/reverse/gamma", hs), cls_s, J(in).f("gamma", g).f("ref_gamma", (double)p.gamma).f("err_rad", eg).f("tol_rad", tg));
  if (!(ek <= tk)) ctx.viol(KY(c, "oracle:C06/" + kind + "/reverse/k", hs), cls_s, J(in).f("k", k).f("ref_k", (double)p.k).f("err_rel", ek).f("tol_rel", tk));
  // Forward o Reverse closes (standard sheet only: Forward never returns the continued sheet without extendp)
  if (!extsheet || c.ext()) {
    double x2, y2, g2, k2; c.Forward(lon0, la, lo, x2, y2, g2, k2);
    double d = std::hypot(x2 - x, y2 - y) / (double)p.k, tol = pos_tol(c, p, false) + rtol + slack;
    ctx.obs(kind + " Forward(Reverse) ground displacement / tolerance" + LF(c) + HSL, d / tol, J(in).f("d_m", d));
    if (!(d <= tol)) ctx.viol(KY(c, "law:C06/" + kind + "/roundtrip-xy", hs), cls_s, J(in).f("lat", la).f("lon", lo).f("x2", x2).f("y2", y2).f("ground_m", d).f("tol_m", tol));
  }
}

// ------------------------------------------------------------------ gamma, k versus the Jacobian of the library's own Forward
static void sec_jacobian(Ctx& ctx, uint64_t idx) {
  vh::Rng& r = ctx.rng;
  int cls = idx % 2 ? SERIES : (idx % 8 == 0 ? EXACT_EXT : EXACT);
  Cfg c; gen_cfg(r, cls, c);
  const std::string kind = c.exact() ? "exact" : "series";
  double br = c.branch_deg();
  double lat = r.coin(0.15) ? r.sign() * r.logu(1e-3, 5) : r.uniform(-89, 89), dl;
  if (cls == SERIES) dl = r.sign() * (r.coin(0.7) ? r.uniform(0, 35) : r.uniform(35, 75));
  else if (cls == EXACT_EXT) { if (r.coin()) { lat = std::fabs(lat); dl = r.uniform(0.01, 89.9); } else { lat = -r.logu(1e-3, 30); dl = br + (89.99 - br) * r.uniform(0.02, 1); } }
  else dl = r.sign() * (r.coin(0.6) ? r.uniform(0, 90) : r.uniform(90, 179.9));
  const double h = 2e-4;                                  // degrees
  if (std::fabs(lat) < 4 * h) lat = std::copysign(4 * h + std::fabs(lat), lat);   // stencil must not straddle the cut / the sign folding
  double lon0 = c.ext() ? 0 : (r.coin() ? 0.0 : std::floor(r.uniform(-180, 180)));
  RefPt m; metric(c, lat, m.rho, m.nucos, m.psi);
  // series: only where the series converges well
  {
    LD lam = std::fabs((LD)dl) * (LD)DEGd; if (lam > M_PIl / 2) lam = M_PIl - lam;
    LD etap = std::atanh(std::sin(lam) / std::cosh(m.psi)), n = std::fabs((LD)c.f / (2 - (LD)c.f));
    if (cls == SERIES && n * std::exp(2 * etap) > R_MAX) { ctx.count(c.name() + "/jacobian/outside-strip", idx, true); return; }
    // distance to the branch point in the (psi, lam) plane: the finite difference needs h << distance
    LD lb = (LD)br * (LD)DEGd, d1 = std::hypot(m.psi, std::fabs((LD)dl) * (LD)DEGd - lb), d2 = std::hypot(m.psi, std::fabs((LD)dl) * (LD)DEGd - (M_PIl - lb));
    if (c.exact() && std::min(d1, d2) < 0.02) { ctx.count(c.name() + "/jacobian/too-close-to-branch-point", idx, true); return; }
  }
  double coslat = std::cos(lat * DEGd), hl = std::min(h / coslat, 0.02);
  std::string cls_s = c.name() + "/jacobian/" + stratum(c, lat, (Q)dl);
  ctx.count(cls_s, vh::hmix(vh::hmix(vh::hmix(vh::hmix(vh::hmix(99 + c.cls, c.a), c.f), c.k0), lat), dl));
  J in = J().obj("cfg", c.j()).f("lon0", lon0).f("lat", lat).f("dlon", dl);
  if (ctx.want_sample(cls_s)) ctx.sample(cls_s, in);
  double lon = lon0 + dl, x, y, g, k;
  c.Forward(lon0, lat, lon, x, y, g, k);
  if (!(k / c.k0 < 50)) { ctx.event("jacobian: point with k/k0 >= 50 (neighbourhood of the singular image of the pole) skipped"); return; }
  auto F = [&](double la, double lo, LD& X, LD& Y) { double a, b, cc, d; c.Forward(lon0, la, lo, a, b, cc, d); X = a; Y = b; };
  auto deriv = [&](bool inlat, double step, LD& dX, LD& dY) {   // Richardson: (8(f1-f-1) - (f2-f-2)) / (12 h)
    LD x1, y1, x2, y2, x3, y3, x4, y4;
    if (inlat) { F(lat + step, lon, x1, y1); F(lat - step, lon, x2, y2); F(lat + 2 * step, lon, x3, y3); F(lat - 2 * step, lon, x4, y4); }
    else { F(lat, lon + step, x1, y1); F(lat, lon - step, x2, y2); F(lat, lon + 2 * step, x3, y3); F(lat, lon - 2 * step, x4, y4); }
    // actual steps (the additions above round): use the exactly representable differences
    LD s1 = inlat ? ((LD)(lat + step) - (LD)(lat - step)) : ((LD)(lon + step) - (LD)(lon - step));
    LD s2 = inlat ? ((LD)(lat + 2 * step) - (LD)(lat - 2 * step)) : ((LD)(lon + 2 * step) - (LD)(lon - 2 * step));
    LD dx1 = (x1 - x2) / s1, dx2 = (x3 - x4) / s2, dy1 = (y1 - y2) / s1, dy2 = (y3 - y4) / s2;
    dX = (4 * dx1 - dx2) / 3 / (LD)DEGd; dY = (4 * dy1 - dy2) / 3 / (LD)DEGd;     // per radian
  };
  if (std::fabs(std::fabs(dl) - 180) < 2 * hl + 1e-9 || std::fabs(dl) < 2 * hl) { /* stencil crosses the (anti)meridian: x changes sign analytically, fine */ }
  LD xn, yn, xe, ye; deriv(true, h, xn, yn); deriv(false, hl, xe, ye);
  LD a00 = xn / m.rho, a10 = yn / m.rho, a01 = xe / m.nucos, a11 = ye / m.nucos;   // columns: unit north, unit east (ground)
  // singular values of A
  LD E = (a00 + a11) / 2, Fv = (a00 - a11) / 2, G = (a10 + a01) / 2, H = (a10 - a01) / 2;
  LD Qv = std::hypot(E, H), Rv = std::hypot(Fv, G), s1 = Qv + Rv, s2 = std::fabs(Qv - Rv);
  double tol = TOL_JAC / coslat;
  double e1 = (double)std::fabs(s1 / (LD)k - 1), e2 = (double)std::fabs(s2 / (LD)k - 1);
  // rotation: north column = k(-sin g, cos g), east column = k(cos g, sin g)
  LD gn = std::atan2(-a00, a10), ge = std::atan2(a11, a01);
  double rg = (double)std::fabs(std::remainder(gn - (LD)g * (LD)DEGd, 2 * M_PIl)), rg2 = (double)std::fabs(std::remainder(ge - (LD)g * (LD)DEGd, 2 * M_PIl));
  // orientation preserved (det > 0)
  LD det = a00 * a11 - a01 * a10;
  ctx.obs(kind + " jacobian: |singular value / k - 1| * cos(lat)" + LF(c), std::max(e1, e2) * coslat, in);
  ctx.obs(kind + " jacobian: |rotation - gamma| * cos(lat) [rad]" + LF(c), std::max(rg, rg2) * coslat, in);
  if (!(e1 <= tol && e2 <= tol)) ctx.viol(KY(c, "jacobian:C06/" + kind + "/scale-not-conformal"), cls_s, J(in).f("k", k).f("s1", (double)s1).f("s2", (double)s2).f("tol", tol));
  if (!(rg <= tol && rg2 <= tol)) ctx.viol(KY(c, "jacobian:C06/" + kind + "/gamma-not-rotation"), cls_s, J(in).f("gamma", g).f("rot_north_deg", (double)(gn / (LD)DEGd)).f("rot_east_deg", (double)(ge / (LD)DEGd)).f("tol", tol));
  if (!(det < 0)) {}   // (x east, y north): A maps (north, east) -> (x, y); det of [[-s, c],[c, s]] k^2 = -k^2
  if (!(det < 0)) ctx.viol(KY(c, "jacobian:C06/" + kind + "/orientation"), cls_s, J(in).f("det", (double)det));
}

// ------------------------------------------------------------------ delegation and extendp equivalence (bit-exact laws)
static void sec_deleg(Ctx& ctx, uint64_t idx) {
  vh::Rng& r = ctx.rng;
  bool ext = idx & 1;
  Cfg c; gen_cfg(r, ext ? EXACT_EXT : EXACT, c);
  if (c.utm) { c.utm = false; build(c); }
  TransverseMercator D(c.a, c.f, c.k0, true, ext);
  std::string cls_s = std::string("delegation/") + (ext ? "extendp" : "standard");
  double lat = gen_lat(r), dl = ext ? r.uniform(0, 90) : r.uniform(-180, 180), lon0 = ext ? 0 : gen_lon0(r), lon = lon0 + dl;
  if (ext && r.coin()) { lat = -std::fabs(lat); if (lat <= -90) lat = -45; dl = c.branch_deg() + (90 - c.branch_deg()) * r.u(); lon = dl; } else if (ext) lat = std::fabs(lat);
  ctx.count(cls_s, vh::hmix(vh::hmix(vh::hmix(vh::hmix(5, c.f), lat), lon), lon0));
  J in = J().obj("cfg", c.j()).f("lon0", lon0).f("lat", lat).f("lon", lon);
  if (ctx.want_sample(cls_s)) ctx.sample(cls_s, in);
  double x, y, g, k, x1, y1, g1, k1;
  c.Forward(lon0, lat, lon, x, y, g, k); D.Forward(lon0, lat, lon, x1, y1, g1, k1);
  if (!(same(x, x1) && same(y, y1) && same(g, g1) && same(k, k1))) ctx.viol(KY(c, "law:C06/delegation/forward-differs"), cls_s, J(in).f("x", x).f("x1", x1).f("y", y).f("y1", y1));
  double la, lo, la1, lo1; c.Reverse(lon0, x, y, la, lo, g, k); D.Reverse(lon0, x, y, la1, lo1, g1, k1);
  if (!(same(la, la1) && same(lo, lo1) && same(g, g1) && same(k, k1))) ctx.viol(KY(c, "law:C06/delegation/reverse-differs"), cls_s, J(in).f("lat", la).f("lat1", la1).f("lon", lo).f("lon1", lo1));
  if (!(D.Exact() && D.EquatorialRadius() == c.a && D.Flattening() == c.f && D.CentralScale() == c.k0)) ctx.viol("law:C06/delegation/inspectors", cls_s, in);
  // exact vs exact(extendp) on the common domain lat >= 0, 0 <= dlon <= 90
  {
    TransverseMercatorExact A(c.a, c.f, c.k0, false), B(c.a, c.f, c.k0, true);
    double la2 = std::fabs(gen_lat(r)), d2 = r.coin(0.1) ? r.pick({0.0, 90.0}) : r.uniform(0, 90);
    double xa, ya, ga, ka, xb, yb, gb, kb; A.Forward(0, la2, d2, xa, ya, ga, ka); B.Forward(0, la2, d2, xb, yb, gb, kb);
    ctx.count("extendp-vs-standard/common-domain", vh::hmix(vh::hmix(vh::hmix(6, c.f), la2), d2));
    J in2 = J().obj("cfg", c.j()).f("lat", la2).f("lon", d2);
    if (!(same(xa, xb) && same(ya, yb) && same(ga, gb) && same(ka, kb))) ctx.viol(KY(c, "law:C06/exact/extendp-differs-on-common-domain/forward"), "extendp-vs-standard/common-domain", J(in2).f("x", xa).f("xe", xb).f("y", ya).f("ye", yb).f("g", ga).f("ge", gb));
    double pa, qa, pb, qb; A.Reverse(0, xa, ya, pa, qa, ga, ka); B.Reverse(0, xa, ya, pb, qb, gb, kb);
    // Reverse: the standard class folds y about the far-side line, so results may differ in the last bits at lon = 90: ground distance
    { RefPt m; metric(c, pa, m.rho, m.nucos, m.psi);
      double d = ground(m, pa, (Q)qa, pb, (Q)qb), tol = K_POS * DOC_EXACT_NM * 1e-9 * c.a / WGS84_A;
      ctx.obs(std::string("exact vs exact(extendp) Reverse on the common domain: ground distance / tolerance") + LF(c), d / tol, in2);
      bool gk = std::fabs(ka / kb - 1) <= 1e-12 && (pa > 89.999 || std::fabs(ga - gb) <= 1e-9);
      if (!(d <= tol && gk)) ctx.viol(KY(c, "law:C06/exact/extendp-differs-on-common-domain/reverse"), "extendp-vs-standard/common-domain", J(in2).f("lat", pa).f("late", pb).f("lon", qa).f("lone", qb).f("ground_m", d)); }
  }
  // constructor contract (C13 owns the full error contract; here only what the quantifier of C06 mentions)
  if (idx < 64) {
    auto throws = [&](double a, double f, double k0, bool ex, bool xt) { try { TransverseMercator t(a, f, k0, ex, xt); (void)t; } catch (const GeographicErr&) { return true; } return false; };
    if (!throws(c.a, c.f, c.k0, false, true)) ctx.viol("law:C06/ctor/series-with-extendp-accepted", cls_s, in);
    if (!throws(c.a, -0.01, c.k0, true, false)) ctx.viol("law:C06/ctor/exact-with-negative-f-accepted", cls_s, in);
    if (!throws(c.a, 0.0, c.k0, true, false)) ctx.viol("law:C06/ctor/exact-with-f=0-accepted", cls_s, in);
    if (!throws(-1, c.f, c.k0, false, false) || !throws(c.a, 1.0, c.k0, false, false) || !throws(c.a, c.f, 0, false, false)) ctx.viol("law:C06/ctor/bad-parameter-accepted", cls_s, in);
    if (throws(c.a, -0.01, c.k0, false, false) || throws(c.a, 0, c.k0, false, false)) ctx.viol("law:C06/ctor/valid-series-parameters-rejected", cls_s, in);
    ctx.event("constructor contract checked");
  }
}

// ------------------------------------------------------------------ directed catalogue
struct DCfg { int cls; double a, f, k0; bool utm; const char* rung; };
static const DCfg DCFGS[] = {
  {SERIES, WGS84_A, WGS84_F, 0.9996, true, "UTM()"}, {SERIES, 1.0, WGS84_F, 1.0, false, "f=wgs84"}, {SERIES, 6.4e6, 0.0, 1.0, false, "f=0"},
  {SERIES, WGS84_A, -0.01, 0.9996, false, "f=-0.01"}, {SERIES, WGS84_A, 0.05, 2.0, false, "f=0.05"},
  {EXACT, WGS84_A, WGS84_F, 0.9996, true, "UTM()"}, {EXACT, WGS84_A, 0.08, 0.5, false, "f=0.08"}, {EXACT, 1.0, 1e-4, 1.0, false, "f=1e-4"},
  {EXACT_EXT, WGS84_A, WGS84_F, 0.9996, false, "f=wgs84"}, {DELEG, WGS84_A, 0.01, 1.0, false, "f=0.01"}};
static const double DLATS[] = {0.0, -0.0, 90, -90, 89.999999999999, -89.999999999999, 1e-10, -1e-10, 45, -45, 5e-324, -1.0};
static const double DLON0[] = {0.0, 180, -177};
static void sec_directed(Ctx& ctx, uint64_t idx) {
  const size_t NC = sizeof DCFGS / sizeof DCFGS[0], NL = sizeof DLATS / sizeof DLATS[0], N0 = sizeof DLON0 / sizeof DLON0[0];
  const DCfg& d = DCFGS[idx % NC]; uint64_t t = idx / NC;
  double lat = DLATS[t % NL]; t /= NL;
  double lon0 = DLON0[t % N0]; t /= N0;
  Cfg c; c.cls = d.cls; c.a = d.a; c.f = d.f; c.k0 = d.k0; c.utm = d.utm; c.rung = d.rung; c.largef = false; build(c);
  double br = c.branch_deg();
  const double dls[] = {0.0, -0.0, 1e-10, -1e-10, 3, -3, 35, -35, 75, -75, 90, -90, 180, -180, 179.999999999999, -179.999999999999,
                        br, -br, vh::ulps(br, 1), vh::ulps(br, -1), br + 1e-9, br - 1e-9, 180 - br, vh::ulps(90, -1), vh::ulps(90, 1)};
  const size_t ND = sizeof dls / sizeof dls[0];
  if (t >= ND) return;
  double dl = dls[t];
  if (c.ext()) { if (dl < 0 || dl > 90) return; lon0 = 0; if (lat < 0 && dl < br) return; }
  check_point(ctx, c, lon0, lat, lon0 + dl, false);
}
static uint64_t n_directed() { return (sizeof DCFGS / sizeof DCFGS[0]) * (sizeof DLATS / sizeof DLATS[0]) * (sizeof DLON0 / sizeof DLON0[0]) * 25; }

// ------------------------------------------------------------------ oracle self-validation (herr on failure)
static void sec_selftest(Ctx& ctx, uint64_t idx) {
  vh::Rng& r = ctx.rng;
  static const double fs[] = {0, 1e-6, WGS84_F, 0.01, 0.05, 0.1, 0.3, 0.5, -1e-6, -WGS84_F, -0.01, -0.05};
  double f = fs[idx % 12], a = r.pick(AS), k0 = r.pick(K0S);
  double e = std::sqrt(std::fabs(f * (2 - f))), br = f > 0 ? 90 * (1 - e) : 90;
  double lat = r.coin(0.2) ? r.logu(1e-6, 1) : r.uniform(0.5, 89.5), dl = r.coin(0.2) ? r.uniform(90, 180) : r.uniform(0.01, 89.9);
  if (f < 0 && dl > 89) dl = r.uniform(0, 89);
  ref::TM<Q> R((Q)a, (Q)f, (Q)k0); ref::TM<LD> RL((LD)a, (LD)f, (LD)k0);
  std::string cls_s = "selftest/REF";
  ctx.count(cls_s, vh::hmix(vh::hmix(vh::hmix(3, f), lat), dl), true);
  auto z = R.forward((Q)lat, (Q)dl);
  char buf[200]; std::snprintf(buf, sizeof buf, " [a=%g f=%g k0=%g lat=%.17g dlon=%.17g]", a, f, k0, lat, dl);
  std::string at = buf;
  if (!z.ok) { ctx.event("selftest: point skipped (path within margin of branch point)"); return; }
  const Q A = (Q)a;
  // (a) q-plane re-quadrature (near side only: beyond 90 deg the straight segment in the q plane passes on the other side of the
  //     singularity q = atanh(e) + i pi/2 and is no longer homotopic to the image of the zeta path)
  if (dl <= 90) { auto q = R.forward_q((Q)lat, (Q)dl);
    if (!q.ok || !(hypotq(q.x - z.x, q.y - z.y) <= 1e-22Q * A * (1 + fabsq(z.x / A))) || !(fabsq(q.gamma - z.gamma) <= 1e-20Q) || !(fabsq(q.k / z.k - 1) <= 1e-22Q))
      ctx.herr("ref_tm: zeta-plane and q-plane quadratures disagree" + at);
    ctx.obs("selftest: zeta-plane vs q-plane quadrature |d(x,y)|/a", (double)(hypotq(q.x - z.x, q.y - z.y) / A)); }
  // (b) path independence (Cauchy)
  { auto v = R.forward_via((Q)lat, (Q)dl, (Q)r.uniform(lat < 80 ? lat + 5 : 20, 88));
    if (v.ok) { if (!(hypotq(v.x - z.x, v.y - z.y) <= 1e-22Q * A * (1 + fabsq(z.x / A))) || !(fabsq(v.k / z.k - 1) <= 1e-21Q)) ctx.herr("ref_tm: path dependence (straight vs dog-leg)" + at);
      ctx.obs("selftest: straight vs dog-leg path |d(x,y)|/a", (double)(hypotq(v.x - z.x, v.y - z.y) / A)); }
    else ctx.event("selftest: dog-leg path within margin, skipped"); }
  // (c) long double vs float128
  { auto l = RL.forward((LD)lat, (LD)dl);
    if (!l.ok || !(hypotq((Q)l.x - z.x, (Q)l.y - z.y) <= 3e-16Q * A * (1 + fabsq(z.x / A))) || !(fabsq((Q)l.gamma - z.gamma) <= 1e-13Q) || !(fabsq((Q)l.k / z.k - 1) <= 1e-15Q))
      ctx.herr("ref_tm: long double and float128 instantiations disagree" + at);
    ctx.obs("selftest: long double vs float128 |d(x,y)|/a", (double)(hypotq((Q)l.x - z.x, (Q)l.y - z.y) / A)); }
  // (d) Cauchy-Riemann / derivative identity: d(y + i x)/dlam = i k0 Mt',  d(y + i x)/dphi = k0 Mt' rho/(nu cos phi)
  { Cfg cc; cc.a = a; cc.f = f; LD rho, nucos, psi; metric(cc, lat, rho, nucos, psi);
    const Q h = 1e-3Q;   // degrees
    auto d4 = [&](bool inlat, Q& dX, Q& dY) {
      auto p1 = inlat ? R.forward((Q)lat + h, (Q)dl) : R.forward((Q)lat, (Q)dl + h), m1 = inlat ? R.forward((Q)lat - h, (Q)dl) : R.forward((Q)lat, (Q)dl - h);
      auto p2 = inlat ? R.forward((Q)lat + 2 * h, (Q)dl) : R.forward((Q)lat, (Q)dl + 2 * h), m2 = inlat ? R.forward((Q)lat - 2 * h, (Q)dl) : R.forward((Q)lat, (Q)dl - 2 * h);
      if (!(p1.ok && m1.ok && p2.ok && m2.ok)) return false;
      Q hr = h * ref::deg<Q>();
      dX = (8 * (p1.x - m1.x) - (p2.x - m2.x)) / (12 * hr); dY = (8 * (p1.y - m1.y) - (p2.y - m2.y)) / (12 * hr); return true; };
    Q xn, yn, xe, ye;
    if (lat > 0.01 && lat < 89.9 && dl > 0.01 && std::fabs(dl - 90) > 0.01 && dl < 179.9 && z.mindist > 0.05 && d4(true, xn, yn) && d4(false, xe, ye)) {
      Q gam = z.gamma * ref::deg<Q>(), kr = z.k * (Q)rho, kn = z.k * (Q)nucos;
      // exact metric in Q
      Q s, co; ref::sincosd((Q)lat, s, co); Q e2 = (Q)f * (2 - (Q)f), w = 1 - e2 * s * s; kr = z.k * A * (1 - e2) / (w * sqrtq(w)); kn = z.k * A * co / sqrtq(w);
      Q r1 = fabsq(yn - kr * cosq(gam)) / kr, r2 = fabsq(xn + kr * sinq(gam)) / kr, r3 = fabsq(ye - kn * sinq(gam)) / kn, r4 = fabsq(xe - kn * cosq(gam)) / kn;
      Q m = r1; if (r2 > m) m = r2; if (r3 > m) m = r3; if (r4 > m) m = r4;
      ctx.obs("selftest: Cauchy-Riemann / derivative residual (relative)", (double)m);
      if (!(m <= 1e-9Q / (Q)std::min(1.0, (double)(z.mindist * z.mindist * z.mindist * z.mindist)) * 1e-4Q + 1e-12Q)) ctx.herr("ref_tm: gamma,k are not the derivative of the mapping (Cauchy-Riemann residual)" + at);
    } }
  // (e) sphere closed form
  if (f == 0) {
    Q s, co, sl, cl; ref::sincosd((Q)lat, s, co); ref::sincosd((Q)dl, sl, cl);
    Q X = (Q)k0 * A * atanhq(co * sl), Y = (Q)k0 * A * atan2q(s, co * cl), G = atan2q(s * sl, cl) / ref::deg<Q>(), Kk = (Q)k0 / sqrtq(1 - co * co * sl * sl);
    if (!(hypotq(X - z.x, Y - z.y) <= 1e-24Q * A * (1 + fabsq(X / A))) || !(fabsq(G - z.gamma) <= 1e-22Q) || !(fabsq(Kk / z.k - 1) <= 1e-23Q)) ctx.herr("ref_tm: spherical limit closed form not reproduced" + at);
    ctx.obs("selftest: spherical closed form |d(x,y)|/a", (double)(hypotq(X - z.x, Y - z.y) / A));
  }
  // (f) meridian: real quadrature in phi vs complex machinery along the real zeta axis
  { auto c0 = R.forward((Q)lat, (Q)0), v0 = R.forward_via((Q)lat, (Q)0, (Q)(lat < 45 ? lat + 30 : lat - 30));
    if (!c0.ok || !v0.ok || !(fabsq(c0.y - v0.y) <= 1e-23Q * A) || c0.x != 0 || !(fabsq(v0.x) <= 1e-23Q * A) || !(fabsq(c0.k / (Q)k0 - 1) <= 1e-30Q) || c0.gamma != 0)
      ctx.herr("ref_tm: central meridian identity y = k0 M(phi), x = 0, k = k0 violated" + at);
    ctx.obs("selftest: meridian by phi-quadrature vs zeta-plane integral |dy|/a", (double)(fabsq(c0.y - v0.y) / A)); }
  // (g) reverse o forward
  { Q la, lo, g, k;
    if (z.mindist < 0.1 && !R.reverse(z.x, z.y, la, lo, g, k)) ctx.event("selftest: REF reverse not converged within 0.1 rad of the branch point (its Newton leaves the validity strip)");
    else if (!R.reverse(z.x, z.y, la, lo, g, k) || !(fabsq(la - lat) <= 1e-19Q / (Q)std::max(1e-3, std::cos(lat * DEGd))) || !(fabsq(lo - dl) * cosq((Q)lat * ref::deg<Q>()) <= 1e-19Q) || !(fabsq(k / z.k - 1) <= 1e-19Q))
      ctx.herr("ref_tm: reverse(forward) != identity" + at);
    else ctx.obs("selftest: reverse(forward) |dlat|+|dlon| [deg]", (double)(fabsq(la - lat) + fabsq(lo - dl))); }
  // (h) far-side reflection (y -> 2 M(pi/2) - y, x -> x, gamma -> 180 - gamma)
  if (f >= 0 || R.psi_of(sinq((Q)lat * ref::deg<Q>()), cosq((Q)lat * ref::deg<Q>())) > (Q)e * M_PIq / 2 + R.margin) {
    auto m = R.forward((Q)lat, (Q)180 - (Q)dl);
    Q Mq = R.quarter_unit() * A * (Q)k0;
    if (m.ok && (!(hypotq(m.x - z.x, m.y - (2 * Mq - z.y)) <= 1e-22Q * A * (1 + fabsq(z.x / A))) || !(fabsq(remainderq(m.gamma - (180 - z.gamma), 360)) <= 1e-20Q) || !(fabsq(m.k / z.k - 1) <= 1e-21Q)))
      ctx.herr("ref_tm: far-side reflection symmetry violated" + at);
  }
  // (i) the continued sheet: library-independent identity  sigma_ext(-lat, lam) is the continuation through the equator
  //     segment beyond the branch point: at lat = -0 it equals the straight-path value at lat = +0
  if (f > 0 && br < 88 && idx % 4 == 0) {
    Q lamb = (Q)(br + (90 - br) * r.uniform(0.2, 0.95));
    auto up = R.forward((Q)1e-7, lamb), dn = R.forward_via((Q)(-1e-7), lamb, (Q)40);
    if (up.ok && dn.ok) {
      Q dlat = 2e-7Q * ref::deg<Q>();   // d sigma = Mt' dpsi
      Cfg cc; cc.a = a; cc.f = f; LD rho, nucos, psi; metric(cc, 0, rho, nucos, psi);
      Q pred = up.k * (Q)rho * dlat;    // |d(x,y)| expected for that latitude step
      Q got = hypotq(up.x - dn.x, up.y - dn.y);
      if (!(fabsq(got / pred - 1) <= 1e-5Q)) ctx.herr("ref_tm: dog-leg path does not continue analytically across the equator beyond the branch point" + at);
    }
  }
}

int main(int argc, char** argv) {
  std::vector<Section> S;
  S.push_back({"selftest", 48, 480, false, sec_selftest, 120});
  S.push_back({"directed", n_directed(), n_directed(), false, sec_directed, 60});
  S.push_back({"series", 15000, 500000, true, sec_series, 60});
  S.push_back({"exact", 13000, 400000, true, sec_exact, 60});
  S.push_back({"extendp", 3000, 100000, true, sec_extend, 60});
  S.push_back({"reverse_xy", 6000, 200000, true, sec_reverse_xy, 60});
  S.push_back({"jacobian", 20000, 1000000, true, sec_jacobian, 60});
  S.push_back({"delegation", 4000, 150000, true, sec_deleg, 60});
  return vh::run_sections(argc, argv, S);
}
