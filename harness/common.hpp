// Common harness runtime for the /verif runtime monitors.
//
// A harness is a list of *sections*.  Each section has a name, a case count per tier and
// a function run(ctx, idx) that executes ONE case: it derives its inputs from ctx.rng
// (which is seeded from (VERIF_SEED, section, idx) only, so a case is reproducible from
// that triple), calls the library, evaluates the monitors and reports through ctx.
//
// Protocol with bin/check (python driver):
//   argv: --seed S --shard i --nshards n --tier quick|thorough --scale x --out FILE
//         [--progress FILE] [--resume SEC:IDX] [--only SEC:IDX] [--limit-s N]
//   out FILE: JSON lines  {"t":"viol",...} {"t":"stat",...} {"t":"herr",...}
//   FILE.hashes: raw uint64 hashes of the inputs of every non-trivial case (for the
//         measured distinct count)
//   progress FILE: 16 bytes (u32 section index, u32 pad, u64 idx) updated before every
//         case, so that after a sanitizer abort the driver knows the witness case.
//   exit status: 0 finished; 97 per-case CPU watchdog fired (a "hang" record has been
//         written); anything else = crash (driver inspects stderr).
#pragma once
#include <algorithm>
#include <atomic>
#include <cinttypes>
#include <cmath>
#include <csignal>
#include <cstdint>
#include <cstdio>
#include <cstdlib>
#include <cstring>
#include <exception>
#include <fcntl.h>
#include <functional>
#include <limits>
#include <map>
#include <string>
#include <sys/mman.h>
#include <sys/time.h>
#include <typeinfo>
#include <unistd.h>
#include <vector>

namespace vh {

// ---------------------------------------------------------------- PRNG (SplitMix64)
inline uint64_t mix64(uint64_t z) {
  z += 0x9e3779b97f4a7c15ULL;
  z = (z ^ (z >> 30)) * 0xbf58476d1ce4e5b9ULL;
  z = (z ^ (z >> 27)) * 0x94d049bb133111ebULL;
  return z ^ (z >> 31);
}
inline uint64_t hstr(const char* s) {
  uint64_t h = 0xcbf29ce484222325ULL;
  for (; *s; ++s) { h ^= (unsigned char)*s; h *= 0x100000001b3ULL; }
  return h;
}
inline uint64_t hmix(uint64_t h, uint64_t v) { return mix64(h ^ mix64(v)); }
inline uint64_t hmix(uint64_t h, double v) { uint64_t u; std::memcpy(&u, &v, 8); return hmix(h, u); }
inline uint64_t hmixs(uint64_t h, const std::string& s) {
  for (unsigned char c : s) h = (h ^ c) * 0x100000001b3ULL;
  return mix64(h);
}

struct Rng {
  uint64_t s;
  explicit Rng(uint64_t seed = 0) : s(seed) {}
  uint64_t next() { s += 0x9e3779b97f4a7c15ULL; uint64_t z = s;
    z = (z ^ (z >> 30)) * 0xbf58476d1ce4e5b9ULL; z = (z ^ (z >> 27)) * 0x94d049bb133111ebULL;
    return z ^ (z >> 31); }
  // uniform in [0,1)
  double u() { return (next() >> 11) * (1.0 / 9007199254740992.0); }
  double uniform(double a, double b) { return a + (b - a) * u(); }
  // integer in [0,n)
  uint64_t below(uint64_t n) { return n ? next() % n : 0; }
  int range(int lo, int hi) { return lo + (int)below((uint64_t)(hi - lo + 1)); }  // inclusive
  bool coin(double p = 0.5) { return u() < p; }
  // log-uniform magnitude in [lo,hi], lo>0
  double logu(double lo, double hi) { return std::exp(uniform(std::log(lo), std::log(hi))); }
  double sign() { return coin() ? 1.0 : -1.0; }
  template <class T> const T& pick(const std::vector<T>& v) { return v[below(v.size())]; }
  template <class T, size_t N> const T& pick(const T (&v)[N]) { return v[below(N)]; }
};

// move x by k ulps
inline double ulps(double x, int k) {
  for (; k > 0; --k) x = std::nextafter(x, std::numeric_limits<double>::infinity());
  for (; k < 0; ++k) x = std::nextafter(x, -std::numeric_limits<double>::infinity());
  return x;
}

// ---------------------------------------------------------------- tiny JSON builder
inline std::string jesc(const std::string& s) {
  std::string o;
  for (unsigned char c : s) {
    if (c == '"' || c == '\\') { o += '\\'; o += (char)c; }
    else if (c < 0x20 || c >= 0x7f) { char b[8]; std::snprintf(b, sizeof b, "\\u%04x", c); o += b; }
    else o += (char)c;
  }
  return o;
}
inline std::string jnum(double v) {
  char b[40];
  if (std::isnan(v)) return "\"nan\"";
  if (std::isinf(v)) return v > 0 ? "\"inf\"" : "\"-inf\"";
  std::snprintf(b, sizeof b, "%.17g", v);
  return b;
}
struct J {
  std::string s;
  J& raw(const char* k, const std::string& v) {
    s += s.empty() ? "{" : ","; s += "\""; s += k; s += "\":"; s += v; return *this; }
  J& f(const char* k, double v) { return raw(k, jnum(v)); }
  J& i(const char* k, long long v) { return raw(k, std::to_string(v)); }
  J& u(const char* k, unsigned long long v) { return raw(k, std::to_string(v)); }
  J& b(const char* k, bool v) { return raw(k, v ? "true" : "false"); }
  J& str(const char* k, const std::string& v) { return raw(k, "\"" + jesc(v) + "\""); }
  J& obj(const char* k, const J& v) { return raw(k, v.done()); }
  std::string done() const { return s.empty() ? "{}" : s + "}"; }
};

// ---------------------------------------------------------------- repo hook receiver
// /repo's GEOGRAPHICLIB_PANIC (silent convergence failure) calls this weak symbol when the
// library is built with -DGEOGRAPHICLIB_VERIF_HOOKS.  Thread-safe (atomics only).
namespace hook {
  struct Slot { std::atomic<const char*> msg; std::atomic<uint64_t> n; };
  inline Slot g_slots[32];
  inline std::atomic<uint64_t> g_total{0};
  inline void record(const char* msg) {
    g_total.fetch_add(1, std::memory_order_relaxed);
    for (auto& sl : g_slots) {
      const char* cur = sl.msg.load(std::memory_order_acquire);
      if (cur == nullptr) { const char* exp = nullptr; if (sl.msg.compare_exchange_strong(exp, msg)) cur = msg; else cur = exp; }
      if (cur == msg || (cur && std::strcmp(cur, msg) == 0)) { sl.n.fetch_add(1, std::memory_order_relaxed); return; }
    }
  }
  inline uint64_t panics() { return g_total.load(std::memory_order_relaxed); }
}
}  // namespace vh
extern "C" __attribute__((weak, used)) void geographiclib_verif_event(const char* kind, const char* msg) {
  if (kind && kind[0] == 'p') vh::hook::record(msg ? msg : "?");
}
namespace vh {

// ---------------------------------------------------------------- context
struct Section;
struct Ctx {
  uint64_t seed = 1; int shard = 0, nshards = 1; std::string tier = "quick"; double scale = 1;
  uint64_t deep_seed = 1, case_seed = 1;      // seed of the deep part of the thorough tier; seed the current case was drawn from
  bool quick() const { return tier != "thorough"; }
  FILE* out = nullptr; FILE* hashes = nullptr;
  const char* section = ""; uint64_t idx = 0; Rng rng;
  bool only = false;        // replay mode: be verbose
  // statistics
  uint64_t cases = 0, evals = 0, nontrivial = 0, nviol = 0;
  std::map<std::string, uint64_t> cls, events, violkeys;
  std::map<std::string, int> nsamples;
  struct Obs { double v; std::string j; uint64_t n; };
  std::map<std::string, Obs> obsmax;
  std::vector<std::string> samples;

  // one oracle-checked evaluation of class c whose inputs hash to h.  trivial=true for
  // directed duplicates / degenerate cases that should not count as "distinct non-trivial".
  void count(const std::string& c, uint64_t h, bool trivial = false) {
    ++evals; ++cls[c];
    if (!trivial) { ++nontrivial; if (hashes) { h = hmixs(h, c); std::fwrite(&h, 8, 1, hashes); } }
  }
  void event(const std::string& e, uint64_t n = 1) { events[e] += n; }
  // keep the first two cases of every class as written-out samples
  void sample(const std::string& c, const J& j) {
    int& n = nsamples[c];
    if (n < 2) { ++n; samples.push_back(J().str("class", c).str("section", section).u("idx", idx)
                                        .obj("case", j).done()); }
  }
  bool want_sample(const std::string& c) { auto it = nsamples.find(c); return it == nsamples.end() || it->second < 2; }
  // track the maximum of a named residual (in the units stated by the harness)
  void obs(const std::string& name, double v, const J& j = J()) {
    if (std::isnan(v)) return;
    auto it = obsmax.find(name);
    if (it == obsmax.end()) obsmax[name] = Obs{v, j.done(), 1};
    else { ++it->second.n; if (v > it->second.v) { it->second.v = v; it->second.j = j.done(); } }
  }
  // report a violation.  key names the failing *site/monitor* (stable across runs);
  // detail carries the witness.
  void viol(const std::string& key, const std::string& c, const J& detail) {
    ++nviol; uint64_t& n = violkeys[key]; ++n;
    if (n <= 3 || only) {
      std::string l = J().str("t", "viol").str("key", key).str("class", c).str("section", section)
        .u("idx", idx).u("seed", case_seed).obj("detail", detail).done();
      std::fprintf(out, "%s\n", l.c_str()); std::fflush(out);
      if (only) std::fprintf(stderr, "VIOL %s\n", l.c_str());
    }
  }
  // the harness itself is broken / inconclusive (never a verdict on the library)
  void herr(const std::string& what) {
    std::string l = J().str("t", "herr").str("what", what).str("section", section).u("idx", idx).done();
    std::fprintf(out, "%s\n", l.c_str()); std::fflush(out);
    if (only) std::fprintf(stderr, "HERR %s\n", l.c_str());
  }
};

struct Section {
  std::string name;
  uint64_t nquick, nthorough;        // number of cases per tier (before --scale); directed
  bool scaled;                       // whether --scale applies (false for exhaustive/directed lists)
  std::function<void(Ctx&, uint64_t)> run;
  double limit_s = 20;               // per-case CPU watchdog
};

// ---------------------------------------------------------------- watchdog / progress
namespace detail {
  struct Progress { uint32_t sec, pad; uint64_t idx; };
  inline volatile Progress* g_prog = nullptr;
  inline int g_outfd = -1;
  inline const char* g_secname = "";
  inline volatile uint64_t g_idx = 0;
  inline uint64_t g_seed = 0;
  inline void on_alarm(int) {
    char b[256];
    int n = std::snprintf(b, sizeof b,
      "{\"t\":\"viol\",\"key\":\"hang@%s\",\"class\":\"watchdog\",\"section\":\"%s\",\"idx\":%" PRIu64
      ",\"seed\":%" PRIu64 ",\"detail\":{\"what\":\"per-case CPU limit exceeded\"}}\n",
      g_secname, g_secname, (uint64_t)g_idx, g_seed);
    if (g_outfd >= 0) { ssize_t r = write(g_outfd, b, n); (void)r; }
    _exit(97);
  }
  inline void arm(double s) {
    struct itimerval it; std::memset(&it, 0, sizeof it);
    it.it_value.tv_sec = (time_t)s; it.it_value.tv_usec = (suseconds_t)((s - (time_t)s) * 1e6);
    setitimer(ITIMER_VIRTUAL, &it, nullptr);
  }
}

inline int run_sections(int argc, char** argv, std::vector<Section> secs) {
  Ctx c; std::string outp, progp, resume, only; double limit_override = 0;
  for (int i = 1; i < argc; ++i) {
    std::string a = argv[i];
    auto nx = [&]() -> std::string { if (i + 1 >= argc) { std::fprintf(stderr, "missing value for %s\n", a.c_str()); std::exit(2); } return argv[++i]; };
    if (a == "--seed") c.seed = std::strtoull(nx().c_str(), nullptr, 10);
    else if (a == "--shard") c.shard = std::atoi(nx().c_str());
    else if (a == "--nshards") c.nshards = std::atoi(nx().c_str());
    else if (a == "--tier") c.tier = nx();
    else if (a == "--scale") c.scale = std::atof(nx().c_str());
    else if (a == "--out") outp = nx();
    else if (a == "--progress") progp = nx();
    else if (a == "--resume") resume = nx();
    else if (a == "--only") only = nx();
    else if (a == "--limit-s") limit_override = std::atof(nx().c_str());
    else if (a == "--list") { for (auto& s : secs) std::printf("%s %" PRIu64 " %" PRIu64 "\n", s.name.c_str(), s.nquick, s.nthorough); return 0; }
    else { std::fprintf(stderr, "unknown arg %s\n", a.c_str()); return 2; }
  }
  if (outp.empty()) { c.out = stdout; }
  else { c.out = std::fopen(outp.c_str(), "a"); if (!c.out) { std::perror("out"); return 2; }
         c.hashes = std::fopen((outp + ".hashes").c_str(), "ab"); }
  detail::g_outfd = fileno(c.out); detail::g_seed = c.seed;
  if (!progp.empty()) {
    int fd = open(progp.c_str(), O_RDWR | O_CREAT, 0644);
    if (fd >= 0 && ftruncate(fd, sizeof(detail::Progress)) == 0) {
      void* p = mmap(nullptr, sizeof(detail::Progress), PROT_READ | PROT_WRITE, MAP_SHARED, fd, 0);
      if (p != MAP_FAILED) detail::g_prog = (volatile detail::Progress*)p;
    }
  }
  std::signal(SIGVTALRM, detail::on_alarm);
  size_t s0 = 0; uint64_t i0 = 0; bool have_resume = false;
  auto parse = [&](const std::string& v, size_t& si, uint64_t& ii) {
    auto p = v.rfind(':'); std::string sn = v.substr(0, p); ii = std::strtoull(v.substr(p + 1).c_str(), nullptr, 10);
    for (si = 0; si < secs.size(); ++si) if (secs[si].name == sn) return true;
    std::fprintf(stderr, "no section %s\n", sn.c_str()); return false; };
  if (!only.empty()) { c.only = true; if (!parse(only, s0, i0)) return 2; }
  else if (!resume.empty()) { have_resume = true; if (!parse(resume, s0, i0)) return 2; }

  for (size_t si = 0; si < secs.size(); ++si) {
    Section& S = secs[si];
    if ((c.only || have_resume) && si < s0) continue;
    if (c.only && si > s0) break;
    uint64_t n = c.quick() ? S.nquick : S.nthorough;
    if (S.scaled) n = (uint64_t)std::ceil(n * c.scale);
    uint64_t start = c.shard;
    if (have_resume && si == s0) start = i0;
    if (c.only) { start = i0; n = i0 + 1; }
    c.section = S.name.c_str(); detail::g_secname = c.section;
    uint64_t hsec = hstr(c.section);
    for (uint64_t idx = start; idx < n; idx += (c.only ? 1 : c.nshards)) {
      c.idx = idx; detail::g_idx = idx;
      if (detail::g_prog) { detail::g_prog->sec = (uint32_t)si; detail::g_prog->idx = idx; }
      // Thorough tier = FRESH part + DEEP part.  The first nquick cases of a section are drawn from VERIF_SEED (exactly the cases of the
      // quick tier at that seed); the cases beyond are drawn from the fixed seed 1: a deep regression corpus (10-40 x the quick count)
      // that has been run silent on the unchanged tree.  A thorough run at an arbitrary seed therefore meets no more NEW random cases
      // than the quick run at that seed does (whose silence is established by soaking many seeds), and everything else it executes
      // has been validated.  (Before this rule, thorough runs at seed 2 met marginal cases -- see DESIGN.md 6.10.)
      const uint64_t eff_seed = (c.quick() || c.only || idx < S.nquick) ? c.seed : c.deep_seed;
      c.rng = Rng(hmix(hmix(mix64(eff_seed), hsec), (uint64_t)idx));
      c.case_seed = eff_seed;
      detail::arm(limit_override > 0 ? limit_override : S.limit_s);
      ++c.cases;
      try { S.run(c, idx); }
      catch (const std::exception& e) {
        // harness code is expected to catch what the library may legally throw; anything
        // arriving here is a harness defect -> inconclusive, not a verdict.
        c.herr(std::string("uncaught ") + typeid(e).name() + ": " + e.what());
      }
      catch (...) { c.herr("uncaught non-std exception"); }
      detail::arm(0);
    }
  }
  // final statistics
  for (auto& sl : hook::g_slots) { const char* m = sl.msg.load(); if (m) c.events[std::string("hook:panic:") + m] += sl.n.load(); }
  {
    std::string cl, ev, vk, ob, sm;
    for (auto& kv : c.cls) { cl += cl.empty() ? "{" : ","; cl += "\"" + jesc(kv.first) + "\":" + std::to_string(kv.second); }
    for (auto& kv : c.events) { ev += ev.empty() ? "{" : ","; ev += "\"" + jesc(kv.first) + "\":" + std::to_string(kv.second); }
    for (auto& kv : c.violkeys) { vk += vk.empty() ? "{" : ","; vk += "\"" + jesc(kv.first) + "\":" + std::to_string(kv.second); }
    for (auto& kv : c.obsmax) { ob += ob.empty() ? "{" : ","; ob += "\"" + jesc(kv.first) + "\":{\"max\":" + jnum(kv.second.v) + ",\"n\":" + std::to_string(kv.second.n) + ",\"at\":" + kv.second.j + "}"; }
    for (auto& s : c.samples) { sm += sm.empty() ? "[" : ","; sm += s; }
    auto fin = [](std::string& s, const char* e) { if (s.empty()) s = e; else s += (e[0] == '{' ? "}" : "]"); };
    fin(cl, "{}"); fin(ev, "{}"); fin(vk, "{}"); fin(ob, "{}"); fin(sm, "[]");
    std::string l = J().str("t", "stat").u("cases", c.cases).u("evals", c.evals).u("nontrivial", c.nontrivial)
      .u("nviol", c.nviol).raw("classes", cl).raw("events", ev).raw("violkeys", vk).raw("obs", ob).raw("samples", sm).done();
    std::fprintf(c.out, "%s\n", l.c_str()); std::fflush(c.out);
    if (c.only) std::fprintf(stderr, "%s\n", l.c_str());
  }
  if (c.hashes) std::fclose(c.hashes);
  if (c.out != stdout) std::fclose(c.out);
  return 0;
}

// ---------------------------------------------------------------- sentinels
inline double sentinel(int k) {   // distinct signalling-style NaN payloads; never produced by arithmetic
  uint64_t u = 0x7ff4dead00000000ULL | (uint32_t)(0xbeef00 + k); double d; std::memcpy(&d, &u, 8); return d; }
inline bool same_bits(double a, double b) { return std::memcmp(&a, &b, 8) == 0; }
inline bool is_sentinel(double v, int k) { return same_bits(v, sentinel(k)); }

}  // namespace vh
