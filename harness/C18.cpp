// C18 — grid codes (Geohash, GARS, Georef, OSGB grid reference) identify the containing cell.
// Monitors: exact-rational reference model (oracle/ref_codes.hpp) evaluated next to every
// encoder / decoder call; prefix, re-encode, containment and case-insensitivity laws;
// exception monitor (only GeographicErr may escape).  See fuzz/C18_shared.hpp for the judges.
#include "fuzz/C18_shared.hpp"

using namespace c18;
using vh::Ctx; using vh::Rng; using vh::Section; using vh::hmix;
static const double DMIN = std::numeric_limits<double>::denorm_min();
static const double DMAX = std::numeric_limits<double>::max();
static const double QNAN = std::numeric_limits<double>::quiet_NaN();

static std::vector<int> precs_of(int s) {
  std::vector<int> v;
  for (int p = rc::min_prec(s); p <= rc::max_prec(s); ++p) if (rc::prec_exists(s, p)) v.push_back(p);
  return v;
}
static std::vector<int> oor_precs(int s) {      // out-of-range / disallowed precisions
  switch (s) {
    case rc::GEOHASH: return {-1, -7, 19, 25, 1000, INT_MAX, INT_MIN};
    case rc::GARS: return {-1, -3, 3, 4, 100, INT_MAX, INT_MIN};
    case rc::GEOREF: return {-2, -10, 1, 12, 13, 100, INT_MAX, INT_MIN};
    default: return {-1, -2, 12, 13, 100, INT_MAX, INT_MIN};
  }
}
static std::string plabel(int p) { char b[16]; std::snprintf(b, sizeof b, "p%02d", p); if (p < 0) std::snprintf(b, sizeof b, "p-%d", -p); return b; }
static int pick_prec(int s, Rng& r) { std::vector<int> v = precs_of(s); return v[r.below(v.size())]; }

// One position: the library is run at every precision of the scheme (prefix law); the reference
// is evaluated at the focus precision, at the maximum precision and at one more (or at all).
static void check_point(Ctx& c, int s, double u, double v, int pf, const std::string& base, bool allref = false, bool trivial = false, bool byprec = true) {
  std::vector<int> ps = precs_of(s);
  std::vector<LF> ls; ls.reserve(ps.size());
  for (int p : ps) ls.push_back(lib_fwd(s, u, v, p));
  uint64_t h = hmix(hmix(hmix(1000 + s, u), v), (uint64_t)7);
  int pextra = ps[c.rng.below(ps.size())];
  std::vector<char> judged(ps.size(), 0), good(ps.size(), 0);
  auto judge = [&](size_t i) {
    int p = ps[i]; judged[i] = 1;
    std::string cls = std::string(rc::scheme_name(s)) + "/fwd/" + base + (byprec ? "/" + plabel(p) : std::string());
    c.count(cls, hmix(h, (uint64_t)(p + 5)), trivial);
    good[i] = judge_fwd(c, s, u, v, p, ls[i], cls);
    if (c.want_sample(cls)) c.sample(cls, point_json(s, u, v, p).str("code", ls[i].st ? "threw: " + ls[i].what : ls[i].code));
    if (c.only) std::fprintf(stderr, "  %s prec %d lib '%s'%s ref '%s'\n", rc::scheme_name(s), p, ls[i].code.c_str(), ls[i].st ? " (threw)" : "", rc::encode(s, u, v, p).code.c_str());
  };
  for (size_t i = 0; i < ps.size(); ++i)
    if (allref || ps[i] == pf || ps[i] == rc::max_prec(s) || ps[i] == pextra) judge(i);
  // prefix consistency of the library's own answers over all precisions.  The reference is prefix-consistent,
  // so an inconsistency means that one of the two codes is not the reference code: the oracle is evaluated at
  // both precisions (which yields the narrow wrong-cell key); the law key itself is raised only if it is not.
  int last = -1;
  for (size_t i = 0; i < ps.size(); ++i) {
    if (ls[i].st != 0 || ls[i].code == rc::invalid_marker(s)) continue;
    if (last >= 0 && !prefix_ok(s, ps[last], ls[last].code, ps[i], ls[i].code)) {
      c.event(std::string(rc::scheme_name(s)) + " forward: codes of one point not prefix-consistent across precisions");
      if (!judged[last]) judge((size_t)last);
      if (!judged[i]) judge(i);
      if (good[last] && good[i])
        c.viol(K("law", s, "/prefix"), std::string(rc::scheme_name(s)) + "/fwd/" + base,
               point_json(s, u, v, ps[i]).str("shorter", ls[last].code).str("longer", ls[i].code));
    }
    last = (int)i;
  }
}

// ------------------------------------------------------------------ oracle self-validation
static void expect(Ctx& c, bool ok, const std::string& what) { if (!ok) c.herr("oracle self-test failed: " + what); }
static void sec_selftest(Ctx& c, uint64_t idx) {
  using namespace rc;
  if (idx == 0) {
    // published / definitional worked examples
    expect(c, encode(GEOHASH, 10.40744, 57.64911, 11).code == "u4pruydqqvj", "geohash u4pruydqqvj");
    expect(c, encode(GEOHASH, -5.6, 42.6, 5).code == "ezs42", "geohash ezs42");
    { Dec d = decode(GEOHASH, "ezs42"); expect(c, d.st == Dec::VALID && d.cv == 42.60498046875 && d.cu == -5.60302734375, "geohash ezs42 centre"); }
    expect(c, encode(GEOHASH, 0, 0, 4).code == "s000" && encode(GEOHASH, -1e-9, -1e-9, 4).code == "7zzz", "geohash origin");
    expect(c, encode(GEOHASH, -180, -90, 3).code == "000" && encode(GEOHASH, 179.9, 90, 3).code == "zzz" && encode(GEOHASH, 180, 0, 1).code == "8", "geohash corners");
    expect(c, encode(GARS, -180, -90, 0).code == "001AA" && encode(GARS, 179.99, 89.99, 2).code == "720QZ23", "gars corners");
    { Dec d = decode(GARS, "006AG39"); expect(c, d.st == Dec::VALID && d.cell.prec == 2 && std::fabs(d.cv + 86.958333333333329) < 1e-13 && std::fabs(d.cu + 177.29166666666666) < 1e-13, "gars 006AG39");
      expect(c, encode(GARS, -177.29, -86.96, 2).code == "006AG39" && encode(GARS, -177.29, -86.96, 1).code == "006AG3", "gars 006AG39 encode"); }
    expect(c, encode(GEOREF, 0, 0, 0).code == "NGAA" && encode(GEOREF, -180, -90, 2).code == "AAAA0000", "georef origin");
    expect(c, encode(GEOREF, -(76 + 24.7 / 60), 38 + 17.0 / 60 + 10.0 / 3600, 2).code == "GJPJ3517", "georef Patuxent River");
    expect(c, encode(GEOREF, -(76 + 24.7 / 60), 38 + 17.0 / 60 + 10.0 / 3600, -1).code == "GJ", "georef tile");
    expect(c, encode(OSGB, 651409.903, 313177.270, 5).code == "TG5140913177", "osgb TG 51409 13177");
    expect(c, encode(OSGB, 0, 0, 0).code == "SV" && encode(OSGB, 216600, 771200, 3).code == "NN166712" && encode(OSGB, 438700, 114800, 3).code == "SU387148", "osgb SV / NN166712 / SU387148");
    expect(c, encode(OSGB, 400000, 1200000, 0).code == "HP" && encode(OSGB, 530000, 180000, 2).code == "TQ3080", "osgb HP / TQ3080");
    { Dec d = decode(OSGB, "tg 51409 13177"); expect(c, d.st == Dec::VALID && d.cell.prec == 5 && d.su == 651409 && d.sv == 313177 && d.cu == 651409.5, "osgb decode TG"); }
    { long double E, N; osgb_tm(52 + 39 / 60.0L + 27.2531L / 3600, 1 + 43 / 60.0L + 4.5177L / 3600, E, N);
      expect(c, std::fabs((double)(E - 651409.903L)) < 1.5e-3 && std::fabs((double)(N - 313177.270L)) < 1.5e-3, "OS guide worked example (Caister water tower)"); }
    expect(c, decode(GEOREF, "ABCD5").st == Dec::BAD && decode(GARS, "721AA").st == Dec::BAD && decode(GARS, "001RA").st == Dec::BAD && decode(OSGB, "IA").st == Dec::BAD && decode(OSGB, "inxy").st == Dec::NANMARK && decode(OSGB, "AI").st == Dec::BAD, "invalid strings");
    expect(c, lon_is_180(180) && lon_is_180(-180) && lon_is_180(540) && lon_is_180(-900) && !lon_is_180(0) && !lon_is_180(360) && !lon_is_180(179.99999999999997), "lon_is_180");
    c.count("selftest/published-examples", 1, true);
    return;
  }
  // random consistency of the reference with itself: floor formula == bisection (geohash);
  // decode(encode(p)) is the cell of p; the rounded centre re-encodes to the cell; dyadic corners are in the cell
  Rng& r = c.rng;
  int s = (int)(idx % 4); int p = pick_prec(s, r);
  double u, v;
  if (s == OSGB) { u = r.uniform(-1e6, 1.5e6); v = r.uniform(-5e5, 2e6); if (r.coin(0.2)) u = r.sign() * r.logu(1e-320, 1e5); }
  else { u = r.coin(0.3) ? r.sign() * r.logu(1e-320, 1e300) : r.uniform(-180, 180); v = r.coin(0.1) ? r.sign() * 90 : r.uniform(-90, 90); }
  Enc e = encode(s, u, v, p);
  expect(c, e.st == Enc::OK, "encode ok");
  if (s == GEOHASH) expect(c, geohash_bisect(v, u, p) == e.code, "geohash floor formula vs bisection: " + e.code);
  Dec d = decode(s, e.code);
  expect(c, d.st == Dec::VALID && d.cell == e.cell && d.canon == e.code, "decode(encode) == cell: " + e.code);
  expect(c, decode(s, lower(e.code)).cell == e.cell, "case-insensitive reference");
  expect(c, contains(d.cell, d.cu, d.cv), "rounded centre inside cell: " + e.code);
  Grid g = grid(s, p);
  expect(c, e.cell.iu >= 0 && e.cell.iu < g.ncol && e.cell.iv >= 0 && e.cell.iv < g.nrow, "index range");
  if (s == GEOHASH) expect(c, contains(d.cell, d.su, d.sv), "dyadic corner inside cell");
  // the exact cell really brackets the point: corner <= p < next corner, checked with long double where safe
  if (s == OSGB && p <= 5) expect(c, d.su <= u && u < d.su + (double)g.Nu && d.sv <= v && v < d.sv + (double)g.Nv, "osgb integer bracket");
  c.count(std::string("selftest/") + scheme_name(s), hmix(hmix(idx, u), v), true);
}

// ------------------------------------------------------------------ directed catalogue
static std::vector<double> LATS, LONS, XS, YS;
static void init_catalogue() {
  auto U = [](double x, int k) { return vh::ulps(x, k); };
  LATS = {90, -90, U(90, -1), U(-90, 1), U(90, 1), U(-90, -1), U(90, -2), U(-90, 2), 0.0, -0.0, DMIN, -DMIN, 1e-300, -1e-300,
          2.2250738585072014e-308, -2.2250738585072014e-308, 45, -45, 0.5, -0.5, 1 / 3.0, -1 / 3.0, 60, 89.5, 89.99999999999, -89.99999999999,
          90.00000001, 91, -1000, 1e300, INF, -INF, 0.25, 1 / 12.0, U(1 / 12.0, 1), 38.286111111111111, -33.3, 75, U(75, -1), -75, U(-75, -1), 1 / 60.0, U(1 / 60.0, -1)};
  double f8 = rc::cell_point(-180, 4897, 1, 60, false);                 // the double nearest to -98 deg 23'
  LONS = {180, -180, U(180, -1), U(180, 1), U(-180, -1), U(-180, 1), 540, -540, -900, 900, 1e9, -1e9, 360, -360, 720, 0.0, -0.0, DMIN, -DMIN,
          1e-300, -1e-300, 179.99999999999, -179.99999999999, U(360, -1), U(-360, 1), U(540, -1), U(540, 1), 1e15, -1e15, 1e18, 9007199254740992.0,
          1e300, -1e300, DMAX, -DMAX, 12345.678, f8, U(f8, -1), U(f8, 1), 0.1, 15, -15, U(15, -1), U(-15, -1), 30, 1 / 60.0, U(1 / 60.0, -1), 7.5, -76.411666666666662,
          179.5, U(179.5, -1), -179.5, 165, U(165, -1), 1 / 12.0, U(1 / 12.0, -1), U(1 / 12.0, 1), 1e-9 / 60, U(1e-9 / 60, -1), 3 * 360.0 + 180, -5 * 360.0 - 180};
  // (negative subnormals and |x| > 2^31 km are probed in the small section osgb_extreme: they aborted sanitizer builds of the pre-fix tree)
  XS = {-1e6, U(-1e6, 1), U(-1e6, -1), 1.5e6, U(1.5e6, -1), 0.0, -0.0, DMIN, 2 * DMIN, 1e-320, 1e-300, -1e-300, 1e-10, -1e-10, 1e-6, -1e-6,
        U(1e-6, -1), U(-1e-6, -1), -1e-3, 1e5, U(1e5, -1), U(1e5, 1), -1e5, U(-1e5, -1), U(-1e5, 1), 5e5, U(5e5, -1), -5e5, U(-5e5, -1), 651409.903, 216600, 438700.5,
        0.1, U(0.1, -1), 0.3, -0.3, 99999.999999, 123456.789, -123456.789, 1e6, U(1e6, -1), 1.4e6, 2e6, -2e6, 1e12, -1e12, 0.5, -0.5, 1, U(1, -1), -1, U(-1, -1),
        3e-6, U(3e-6, -1), -99999.9999995, -50000.0000005};
  YS = {-5e5, U(-5e5, 1), U(-5e5, -1), 2e6, U(2e6, -1), 0.0, -0.0, DMIN, 1e-300, -1e-300, 1e-10, -1e-10, 1e-6, -1e-6, U(-1e-6, -1), 1e5, U(1e5, -1), -1e5, U(-1e5, -1),
        313177.270, 771200, 1.5e6, U(1.5e6, -1), 1e6, U(1e6, -1), -1e6, 3e6, -1e12, 0.7, -0.7, 1999999.999999, -499999.999999, 1200000, 5e5, U(5e5, -1), -99999.9999995};
}
static uint64_t n_directed() {
  return 4 * std::max(LATS.size() * LONS.size(), XS.size() * YS.size());
}
static void sec_fwd_directed(Ctx& c, uint64_t idx) {
  int s = (int)(idx % 4); uint64_t k = idx / 4;
  const std::vector<double>& us = s == rc::OSGB ? XS : LONS; const std::vector<double>& vs = s == rc::OSGB ? YS : LATS;
  if (k >= us.size() * vs.size()) return;
  double u = us[k % us.size()], v = vs[k / us.size()];
  if (s != rc::OSGB && std::isinf(u)) return;
  check_point(c, s, u, v, rc::max_prec(s), "directed", true, false);
  for (int p : oor_precs(s)) {
    std::string cls = std::string(rc::scheme_name(s)) + "/fwd/directed/out-of-range-prec";
    LF l = lib_fwd(s, u, v, p);
    c.count(cls, hmix(hmix(hmix(2000 + s, u), v), (uint64_t)(unsigned)p), true);
    judge_fwd(c, s, u, v, p, l, cls);
    if (c.want_sample(cls)) c.sample(cls, point_json(s, u, v, p).str("code", l.st ? "threw" : l.code));
  }
}

// OSGB probes that aborted sanitizer builds of the tree before the fixes b177940/b5e466d: negative subnormal
// coordinates (= "edge 0 minus one ulp") and out-of-range coordinates beyond 2^31 km.
static void sec_osgb_extreme(Ctx& c, uint64_t idx) {
  static const double P[][2] = {{-DMIN, 0}, {0, -DMIN}, {-DMIN, -DMIN}, {-1e-320, 123456.5}, {654321.5, -2e-320}, {-2.4e-319, 7.5},
                                {1e300, 0}, {0, -1e300}, {INF, 0}, {0, -INF}, {3e12, 5}, {5, -3e12}};
  check_point(c, rc::OSGB, P[idx][0], P[idx][1], 11, idx < 6 ? "negative-subnormal" : "far-out-of-range", true, false, false);
}

// ------------------------------------------------------------------ cell edges +- ulps
static int64_t pick_edge(Rng& r, int64_t n, int64_t special) {
  // edge index in [0,n]: uniform, or close to the ends / to `special` (where the coordinate is near 0 and doubles are dense)
  switch (r.below(10)) {
    case 0: return std::min<int64_t>(n, (int64_t)r.below(4));
    case 1: return std::max<int64_t>(0, n - (int64_t)r.below(4));
    case 2: case 3: case 4: { int64_t k = special + r.range(-12, 12); return std::min(n, std::max<int64_t>(0, k)); }
    default: return (int64_t)r.below((uint64_t)n + 1);
  }
}
static void sec_fwd_edges(Ctx& c, uint64_t idx) {
  Rng& r = c.rng;
  int s = (int)(idx % 4); int p = pick_prec(s, r);
  rc::Grid g = rc::grid(s, p);
  int64_t zu = s == rc::OSGB ? g.ncol / 25 * 10 : g.ncol / 2, zv = s == rc::OSGB ? g.nrow / 25 * 5 : g.nrow / 2;   // edge at coordinate 0
  int mode = (int)r.below(3);            // 0: u on an edge, 1: v on an edge, 2: both
  // sometimes use the edges of a *coarser* precision while encoding at p
  rc::Grid ge = g;
  if (r.coin(0.25)) { int q = pick_prec(s, r); if (q < p) { ge = rc::grid(s, q); zu = s == rc::OSGB ? ge.ncol / 25 * 10 : ge.ncol / 2; zv = s == rc::OSGB ? ge.nrow / 25 * 5 : ge.nrow / 2; } }
  double ue, ve;
  if (mode != 1) ue = rc::cell_point(ge.Ou, pick_edge(r, ge.ncol, zu), ge.Nu, ge.Du, false);
  else ue = s == rc::OSGB ? r.uniform(-1e6, 1.5e6) : r.uniform(-180, 180);
  if (mode != 0) ve = rc::cell_point(ge.Ov, pick_edge(r, ge.nrow, zv), ge.Nv, ge.Dv, false);
  else ve = s == rc::OSGB ? r.uniform(-5e5, 2e6) : r.uniform(-90, 90);
  bool wrapped = false;
  if (s != rc::OSGB && mode != 1 && r.coin(0.15)) { ue += 360.0 * r.range(-3, 3); wrapped = true; }
  int span = r.coin(0.1) ? 3 : 1;
  for (int du = (mode != 1 ? -span : 0); du <= (mode != 1 ? span : 0); ++du)
    for (int dv = (mode != 0 ? -span : 0); dv <= (mode != 0 ? span : 0); ++dv) {
      int d = mode == 1 ? dv : du;       // label by the offset of the (first) edge coordinate
      const char* lab = d < 0 ? "edge-ulp" : d == 0 ? "edge" : "edge+ulp";
      if (wrapped) c.event("edge cases with longitude shifted by a multiple of 360");
      double uu = vh::ulps(ue, du), vv = vh::ulps(ve, dv);
      check_point(c, s, uu, vv, p, lab);
    }
}

// ------------------------------------------------------------------ random positions
static void sec_fwd_random(Ctx& c, uint64_t idx) {
  Rng& r = c.rng;
  int s = (int)(idx % 4); int p = pick_prec(s, r);
  double u, v; const char* lab;
  if (s == rc::OSGB) {
    switch (r.below(6)) {
      case 0: u = r.sign() * r.logu(1e-320, 1e6); v = r.sign() * r.logu(1e-320, 5e5); lab = "log-magnitude"; break;
      case 1: u = (double)r.range(-1000000, 1499999); v = (double)r.range(-500000, 1999999); lab = "integer-metres"; break;
      case 2: u = r.range(-10000000, 14999999) / 10.0; v = r.range(-5000000, 19999999) / 10.0; lab = "decimal-decimetres"; break;
      case 3: u = r.uniform(-1.2e6, 1.7e6); v = r.uniform(-7e5, 2.2e6); lab = "around-range"; break;
      default: u = r.uniform(-1e6, 1.5e6); v = r.uniform(-5e5, 2e6); lab = "uniform";
    }
  } else {
    switch (r.below(8)) {
      case 0: u = r.sign() * r.logu(1e-320, 1e300); v = r.sign() * r.logu(1e-320, 90); lab = "log-magnitude"; break;
      case 1: u = (double)r.range(-2000, 2000); v = (double)r.range(-90, 90); lab = "integer-degrees"; break;
      case 2: u = r.range(-21600 * 3, 21600 * 3) / 60.0; v = r.range(-5400, 5400) / 60.0; lab = "integer-minutes"; break;
      case 3: u = r.uniform(-1e4, 1e4); v = r.sign() * (90 - r.logu(1e-16, 1)); if (std::fabs(v) > 90) v = std::copysign(90.0, v); lab = "near-pole/wide-lon"; break;
      case 4: u = r.sign() * (180 - r.logu(1e-14, 1)) + 360.0 * r.range(-2, 2); v = r.uniform(-90, 90); lab = "near-antimeridian"; break;
      default: u = r.uniform(-180, 180); v = r.uniform(-90, 90); lab = "uniform";
    }
  }
  check_point(c, s, u, v, p, std::string("random/") + lab, false, false, false);
}

// ------------------------------------------------------------------ decoders
static void rev_case(Ctx& c, int s, const std::string& str, const std::string& gen, bool trivial = false, bool byprec = true) {
  rc::Dec d = rc::decode(s, str);
  std::string cls = std::string(rc::scheme_name(s)) + "/rev/" + gen + "/" +
    (d.st == rc::Dec::VALID ? (byprec ? "valid/" + plabel(d.cell.prec) : std::string("valid")) : d.st == rc::Dec::NANMARK ? std::string("nan-marker") : "invalid/" + d.reason);
  c.count(cls, vh::hmixs(3000 + s, str), trivial);
  RevOut o = judge_rev(c, s, str, cls);
  if (c.want_sample(cls)) c.sample(cls, J().str("code", str).str("code_hex", hexs(str)).b("lib_threw", o.centre.st == 1).f("lib_u", o.centre.u).f("lib_v", o.centre.v).i("lib_prec", o.centre.prec));
  if (c.only) std::fprintf(stderr, "  %s '%s' ref:%s %s lib: st=%d u=%.17g v=%.17g prec=%d  ref centre u=%.17g v=%.17g prec=%d\n", rc::scheme_name(s), str.c_str(),
                           d.st == rc::Dec::VALID ? "valid" : d.st == rc::Dec::NANMARK ? "nan" : "bad", d.reason.c_str(), o.centre.st, o.centre.u, o.centre.v, o.centre.prec, d.cu, d.cv, d.cell.prec);
  // a mixed-case spelling, chosen by the case's rng
  if (d.st == rc::Dec::VALID && o.centre.st == 0) {
    std::string m = str; bool ch = false;
    for (char& x : m) if (std::isalpha((unsigned char)x) && c.rng.coin()) { x = (char)(x ^ 0x20); ch = true; }
    if (ch) { LR l = lib_rev(s, m, true);
      if (!(l.st == 0 && vh::same_bits(l.u, o.centre.u) && vh::same_bits(l.v, o.centre.v) && l.prec == o.centre.prec))
        c.viol(K("law", s, "/case-sensitive"), cls, J().str("code", str).str("variant", m)); }
    // the SW corner returned by the library is a "cell edge" point: feed it to the encoder monitor
    if (o.corner.st == 0) { LF f = lib_fwd(s, o.corner.u, o.corner.v, d.cell.prec);
      std::string fc = std::string(rc::scheme_name(s)) + "/fwd/decoded-corner/" + plabel(d.cell.prec);
      c.count(fc, hmix(hmix(hmix(4000 + s, o.corner.u), o.corner.v), (uint64_t)(d.cell.prec + 5)), trivial);
      judge_fwd(c, s, o.corner.u, o.corner.v, d.cell.prec, f, fc); }
  }
}

static void sec_geohash_le3(Ctx& c, uint64_t idx) {
  const char* A = rc::geohash_alphabet(); std::string s;
  if (idx >= 1057) { uint64_t k = idx - 1057; s += A[k >> 10]; s += A[(k >> 5) & 31]; s += A[k & 31]; }
  else if (idx >= 33) { uint64_t k = idx - 33; s += A[k >> 5]; s += A[k & 31]; }
  else if (idx >= 1) s += A[idx - 1];
  if (idx & 1) s = upper(s);
  rev_case(c, rc::GEOHASH, s, "exhaustive-len<=3");
}
static const uint64_t GARS_BADBANDS[] = {0, 721, 722, 730, 799, 800, 900, 999};
static void sec_gars5(Ctx& c, uint64_t idx) {
  // one case = one 3-digit band with all 24*24 letter pairs (valid AA..QZ and out-of-range RA..ZZ)
  int band = idx < 720 ? (int)idx + 1 : (int)GARS_BADBANDS[idx - 720];
  const char* L = rc::letters24(); char b[8];
  for (int a = 0; a < 24; ++a) for (int d = 0; d < 24; ++d) {
    std::snprintf(b, sizeof b, "%03d%c%c", band, L[a], L[d]);
    rev_case(c, rc::GARS, b, "exhaustive-5char");
  }
}
static void sec_gars67(Ctx& c, uint64_t idx) {
  // band idx+1, all 360 latitude bands; thorough: all 4 quadrants and all 36 (quadrant, keypad) pairs plus the
  // invalid digits 0 and 5..9 (6th) / 0 (7th); quick: two random codes per 30' cell
  const char* L = rc::letters24(); char b[10];
  for (int y = 0; y < 360; ++y) {
    if (c.quick()) {
      std::snprintf(b, sizeof b, "%03d%c%c%d", (int)idx + 1, L[y / 24], L[y % 24], (int)c.rng.range(0, 9)); rev_case(c, rc::GARS, b, "sampled-6char");
      std::snprintf(b, sizeof b, "%03d%c%c%d%d", (int)idx + 1, L[y / 24], L[y % 24], (int)c.rng.range(1, 4), (int)c.rng.range(0, 9)); rev_case(c, rc::GARS, b, "sampled-7char");
    } else {
      for (int q = 0; q <= 9; ++q) {
        std::snprintf(b, sizeof b, "%03d%c%c%d", (int)idx + 1, L[y / 24], L[y % 24], q); rev_case(c, rc::GARS, b, "exhaustive-6char");
        if (q >= 1 && q <= 4) for (int k = 0; k <= 9; ++k) { std::snprintf(b, sizeof b, "%03d%c%c%d%d", (int)idx + 1, L[y / 24], L[y % 24], q, k); rev_case(c, rc::GARS, b, "exhaustive-7char"); }
      }
    }
  }
}
static void sec_georef4(Ctx& c, uint64_t idx) {
  // first two characters = all 26*26 letter pairs A..Z; for each the 2-char code and all 26*26 degree-letter pairs
  char s2[3] = {(char)('A' + idx / 26), (char)('A' + idx % 26), 0};
  rev_case(c, rc::GEOREF, s2, "exhaustive-2char");
  rc::Dec d = rc::decode(rc::GEOREF, s2);
  bool tile_ok = d.st == rc::Dec::VALID;
  for (int a = 0; a < 26; ++a) for (int b = 0; b < 26; ++b) {
    if (!tile_ok && !((a * 26 + b + (int)idx) % 29 == 0)) continue;       // invalid tiles: a sample of the degree pairs suffices
    char s4[5] = {s2[0], s2[1], (char)('A' + a), (char)('A' + b), 0};
    rev_case(c, rc::GEOREF, s4, "exhaustive-4char");
  }
  if (tile_ok) for (int k = 0; k < 6; ++k) {          // a few deeper codes under this tile
    int p = 2 + (int)c.rng.below(10); rc::Cell cell; cell.scheme = rc::GEOREF; cell.prec = p;
    int64_t per = (int64_t)(60 * rc::ipow10(p - 2));
    cell.iu = (d.cell.iu * 15 + (int64_t)c.rng.below(15)) * per + (int64_t)c.rng.below((uint64_t)per);
    cell.iv = (d.cell.iv * 15 + (int64_t)c.rng.below(15)) * per + (int64_t)c.rng.below((uint64_t)per);
    rev_case(c, rc::GEOREF, rc::cell_string(cell), "random-under-tile");
  }
}
static void sec_osgb2(Ctx& c, uint64_t idx) {
  char s2[3] = {(char)('A' + idx / 26), (char)('A' + idx % 26), 0};
  rev_case(c, rc::OSGB, s2, "exhaustive-2letter");
  if (rc::decode(rc::OSGB, s2).st != rc::Dec::VALID) return;
  char b[40];
  for (int x = 0; x < 10; ++x) for (int y = 0; y < 10; ++y) { std::snprintf(b, sizeof b, "%s%d%d", s2, x, y); rev_case(c, rc::OSGB, b, "exhaustive-prec1"); }
  for (int p = 2; p <= 11; ++p) {
    unsigned long per = rc::ipow10(p);
    std::snprintf(b, sizeof b, "%s%0*lu%0*lu", s2, p, (unsigned long)c.rng.below(per), p, (unsigned long)c.rng.below(per));
    rev_case(c, rc::OSGB, b, "random-under-square");
  }
}
static rc::Cell random_cell(Rng& r, int s, int p) {
  rc::Grid g = rc::grid(s, p); rc::Cell cell; cell.scheme = s; cell.prec = p;
  auto pick = [&](int64_t n) -> int64_t { switch (r.below(8)) { case 0: return (int64_t)r.below(std::min<int64_t>(n, 3)); case 1: return n - 1 - (int64_t)r.below(std::min<int64_t>(n, 3)); default: return (int64_t)r.below((uint64_t)n); } };
  cell.iu = pick(g.ncol); cell.iv = pick(g.nrow);
  return cell;
}
static void sec_rev_random(Ctx& c, uint64_t idx) {
  Rng& r = c.rng; int s = (int)(idx % 4); int p = pick_prec(s, r);
  std::string code = rc::cell_string(random_cell(r, s, p));
  if (s == rc::GEOHASH ? r.coin(0.3) : r.coin(0.2)) code = s == rc::GEOHASH ? upper(code) : lower(code);
  if (s == rc::OSGB && r.coin(0.3)) {          // conventional spacing "TG 51409 13177"
    std::string t = code.substr(0, 2) + " " + code.substr(2, p) + " " + code.substr(2 + p); code = t; }
  rev_case(c, s, code, "random");
}

// ------------------------------------------------------------------ malformed strings (deterministic mutation classes)
static const char HOSTILE[] = {'I', 'O', 'A', 'L', 'i', 'o', 'a', 'l', ' ', '\t', '\0', '-', '+', '.', ':', '/', '@', '[', '`', '{', '\x7f', '\x80', '\xff', '\xc3',
                               '0', '5', '6', '9', 'R', 'Z', 'N', 'M', 'Q', 'B', 'z', 'q', '1', '4', '7', '\n', ',', '_'};
static void sec_rev_malformed(Ctx& c, uint64_t idx) {
  Rng& r = c.rng; int s = (int)(idx % 4); int p = pick_prec(s, r);
  std::string code = rc::cell_string(random_cell(r, s, p)), m = code;
  static const char* MUT[] = {"replace", "delete", "insert", "truncate", "append", "swap-groups", "out-of-range", "whitespace", "marker", "long", "double-replace", "high-digits"};
  int mut = (int)(idx / 4 % 12);
  auto hostile = [&]() { return HOSTILE[r.below(sizeof HOSTILE)]; };
  switch (mut) {
    case 0: if (!m.empty()) m[r.below(m.size())] = hostile(); else m = std::string(1, hostile()); break;
    case 1: if (!m.empty()) m.erase(r.below(m.size()), 1); break;
    case 2: m.insert(r.below(m.size() + 1), 1, hostile()); break;
    case 3: m = m.substr(0, r.below(m.size() + 1)); break;
    case 4: { int n = 1 + (int)r.below(4); for (int k = 0; k < n; ++k) m += code.empty() ? '0' : code[r.below(code.size())]; break; }
    case 5: if (m.size() >= 4) { size_t h = m.size() / 2; m = m.substr(h) + m.substr(0, h); } break;
    case 6:
      switch (s) {
        case rc::GARS: { int w = (int)r.below(4); char b[8];
          if (w == 0) { std::snprintf(b, sizeof b, "%03d", (int)r.pick(GARS_BADBANDS)); m.replace(0, 3, b); }
          else if (w == 1) { m[3] = "RSTUVWXYZ"[r.below(9)]; }
          else if (w == 2 && m.size() >= 6) m[5] = "056789"[r.below(6)];
          else if (m.size() >= 7) m[6] = '0'; else m[3] = 'R';
          break; }
        case rc::GEOREF: { int w = (int)r.below(3);
          if (w == 0) m[1] = "NPQRSTUVWXYZ"[r.below(12)];
          else if (w == 1 && m.size() >= 4) m[2 + r.below(2)] = "RSTUVWXYZ"[r.below(9)];
          else if (p >= 2) m[4 + (r.coin() ? 0 : p)] = "6789"[r.below(4)]; else m[0] = 'I';
          break; }
        case rc::OSGB: m[r.below(2)] = r.coin() ? 'I' : 'i'; break;
        default: if (!m.empty()) m[r.below(m.size())] = "ailoAILO"[r.below(8)]; else m = "a";
      }
      break;
    case 7: { int n = 1 + (int)r.below(3); for (int k = 0; k < n; ++k) m.insert(r.below(m.size() + 1), 1, " \t\n\r\v\f"[r.below(6)]); break; }
    case 8: { static const char* MK[] = {"INVALID", "invalid", "Invalid", "INV", "inv", "iNv", "IN", "in", "I", "NAN", "nan", "NaN", "nAn", "NA", "INVxyz", "inv123", "IN12", "INF", "ANN", "N", "NNA", " INVALID", "INVALID "};
      m = MK[r.below(sizeof MK / sizeof *MK)]; if (r.coin(0.2)) m += code; break; }
    case 9: { int n = 20 + (int)r.below(300); m.clear(); for (int k = 0; k < n; ++k) m += code.empty() ? '0' : code[k % code.size()]; if (r.coin(0.3)) m[r.below(m.size())] = hostile(); break; }
    case 10: if (!m.empty()) { m[r.below(m.size())] = hostile(); m[r.below(m.size())] = hostile(); } break;
    default: for (char& x : m) if (x >= '0' && x <= '9' && r.coin(0.5)) x = (char)('0' + 6 + r.below(4));
  }
  c.event(std::string("malformed strings by mutation ") + MUT[mut]);
  rev_case(c, s, m, "malformed", false, false);
}

// ------------------------------------------------------------------ NaN <-> INVALID
static void sec_nan(Ctx& c, uint64_t idx) {
  int s = (int)(idx % 4); int which = (int)(idx / 4 % 3);
  std::vector<int> ps = precs_of(s); for (int p : oor_precs(s)) ps.push_back(p);
  const double goodu = s == rc::OSGB ? 12345.5 : 12.5, goodv = s == rc::OSGB ? 54321.25 : -33.25;
  const double badv = s == rc::OSGB ? 3e6 : 100;
  double u = which != 1 ? QNAN : goodu, v = which != 0 ? QNAN : goodv;
  std::string cls = std::string(rc::scheme_name(s)) + "/fwd/nan";
  for (int p : ps) {
    for (int variant = 0; variant < 3; ++variant) {
      double uu = u, vv = v;
      if (variant == 1) { uu = -u; vv = -v; }                     // negative NaN
      if (variant == 2) { if (which != 0) continue; vv = badv; }   // NaN together with an out-of-range partner
      LF l = lib_fwd(s, uu, vv, p);
      c.count(cls, hmix(hmix(5000 + s, (uint64_t)(unsigned)p), (uint64_t)(which * 3 + variant)), true);
      judge_fwd(c, s, uu, vv, p, l, cls);
      if (c.want_sample(cls)) c.sample(cls, J().i("prec", p).str("code", l.st ? "threw" : l.code));
      // and back
      if (l.st == 0 && variant != 2) rev_case(c, s, l.code, "marker-roundtrip", true);
    }
  }
}

// ------------------------------------------------------------------ resolution helpers
static void sec_helpers(Ctx& c, uint64_t idx) {
  using namespace GeographicLib;
  std::string cls = "helpers/resolution";
  if (idx == 0) {
    for (int len = -5; len <= 25; ++len) {
      bool t; int p = rc::eff_prec(rc::GEOHASH, len, t); rc::Grid g = rc::grid(rc::GEOHASH, p);
      double lat = rc::cell_point(0, 1, g.Nv, g.Dv, false), lon = rc::cell_point(0, 1, g.Nu, g.Du, false);   // exact cell size
      c.count(cls, hmix(6000, (uint64_t)(len + 100)), true);
      if (Geohash::LatitudeResolution(len) != lat || Geohash::LongitudeResolution(len) != lon)
        c.viol("oracle:C18/geohash/resolution", cls, J().i("len", len).f("lat", Geohash::LatitudeResolution(len)).f("lon", Geohash::LongitudeResolution(len)));
      int dp = -(int)std::floor(log10l((long double)lat));
      if (Geohash::DecimalPrecision(len) != dp) c.viol("oracle:C18/geohash/decimal-precision", cls, J().i("len", len).i("got", Geohash::DecimalPrecision(len)).i("want", dp));
    }
    for (int p = -3; p <= 6; ++p) {
      bool t; int q = rc::eff_prec(rc::GARS, p, t); rc::Grid g = rc::grid(rc::GARS, q);
      double w = rc::cell_point(0, 1, g.Nu, g.Du, false);
      c.count(cls, hmix(6001, (uint64_t)(p + 100)), true);
      if (GARS::Resolution(p) != w) c.viol("oracle:C18/gars/resolution", cls, J().i("prec", p).f("got", GARS::Resolution(p)).f("want", w));
    }
    for (int p = -4; p <= 15; ++p) {
      bool t; int q = rc::eff_prec(rc::GEOREF, p, t); rc::Grid g = rc::grid(rc::GEOREF, q);
      double w = rc::cell_point(0, 1, g.Nu, g.Du, false);
      c.count(cls, hmix(6002, (uint64_t)(p + 100)), true);
      if (Georef::Resolution(p) != w) c.viol("oracle:C18/georef/resolution", cls, J().i("prec", p).f("got", Georef::Resolution(p)).f("want", w));
    }
    return;
  }
  // Precision(res) / GeohashLength(res): the smallest precision whose resolution is <= |res|
  Rng& r = c.rng; cls = "helpers/precision-for-resolution";
  double res = r.coin(0.2) ? 0 : r.sign() * r.logu(1e-14, 1e3);
  if (r.coin(0.3)) {   // exactly a resolution, and its neighbours
    int s = (int)r.below(3); int p = pick_prec(s, r); rc::Grid g = rc::grid(s, p);
    res = vh::ulps(rc::cell_point(0, 1, r.coin() ? g.Nu : g.Nv, r.coin() ? g.Du : g.Dv, false), r.range(-1, 1));
  }
  double a = std::fabs(res);
  c.count(cls, hmix(6003, res));
  { int want = 18; for (int l = 0; l < 18; ++l) { rc::Grid g = rc::grid(rc::GEOHASH, l); if (rc::cell_point(0, 1, g.Nu, g.Du, false) <= a) { want = l; break; } }
    if (Geohash::GeohashLength(res) != want) c.viol("oracle:C18/geohash/length-for-resolution", cls, J().f("res", res).i("got", Geohash::GeohashLength(res)).i("want", want));
    double res2 = r.sign() * r.logu(1e-14, 1e3); double a2 = std::fabs(res2); int want2 = 18;
    for (int l = 0; l < 18; ++l) { rc::Grid g = rc::grid(rc::GEOHASH, l); if (rc::cell_point(0, 1, g.Nu, g.Du, false) <= a2 && rc::cell_point(0, 1, g.Nv, g.Dv, false) <= a) { want2 = l; break; } }
    if (Geohash::GeohashLength(res, res2) != want2) c.viol("oracle:C18/geohash/length-for-resolution2", cls, J().f("latres", res).f("lonres", res2).i("got", Geohash::GeohashLength(res, res2)).i("want", want2)); }
  { int want = 2; for (int p = 0; p < 2; ++p) { rc::Grid g = rc::grid(rc::GARS, p); if (rc::cell_point(0, 1, g.Nu, g.Du, false) <= a) { want = p; break; } }
    if (GARS::Precision(res) != want) c.viol("oracle:C18/gars/precision-for-resolution", cls, J().f("res", res).i("got", GARS::Precision(res)).i("want", want)); }
  { int want = 11; for (int p = 0; p < 11; ++p) { if (p == 1) continue; rc::Grid g = rc::grid(rc::GEOREF, p); if (rc::cell_point(0, 1, g.Nu, g.Du, false) <= a) { want = p; break; } }
    if (Georef::Precision(res) != want) c.viol("oracle:C18/georef/precision-for-resolution", cls, J().f("res", res).i("got", Georef::Precision(res)).i("want", want)); }
}

// ------------------------------------------------------------------ OSGB projection + grid reference of projected points
static void sec_osgb_proj(Ctx& c, uint64_t idx) {
  using GeographicLib::OSGB;
  Rng& r = c.rng;
  double lat, lon; bool gb = idx % 4 != 3; std::string cls;
  if (idx == 0) { lat = 52 + 39 / 60.0 + 27.2531 / 3600; lon = 1 + 43 / 60.0 + 4.5177 / 3600; cls = "osgb/projection/published-example"; }
  else if (gb) { lat = r.uniform(49.5, 61); lon = r.uniform(-7, 3); cls = "osgb/projection/great-britain"; }
  else { lat = r.uniform(-80, 84); lon = -2 + r.uniform(-30, 30); cls = "osgb/projection/wide-roundtrip-only"; }
  double x = vh::sentinel(3), y = vh::sentinel(4), g1, k1, lat2, lon2, g2, k2;
  try { OSGB::Forward(lat, lon, x, y, g1, k1); OSGB::Reverse(x, y, lat2, lon2, g2, k2); }
  catch (const std::exception& e) { c.viol("exception:C18/osgb-projection/unexpected-exception", cls, J().f("lat", lat).f("lon", lon).str("what", e.what())); return; }
  c.count(cls, hmix(hmix(7000, lat), lon), idx == 0);
  if (gb) {
    long double E, N; rc::osgb_tm(lat, lon, E, N);
    double err = (double)std::max(fabsl(E - x), fabsl(N - y)) * 1e3;
    c.obs("OSGB::Forward vs OS-guide series, Great Britain [mm; tol 1]", err, J().f("lat", lat).f("lon", lon).f("x", x).f("y", y));
    if (!(err <= 1.0)) c.viol("oracle:C18/osgb-projection/forward", cls, J().f("lat", lat).f("lon", lon).f("x", x).f("y", y).f("want_x", (double)E).f("want_y", (double)N).f("err_mm", err));
    if (idx == 0) { double e2 = std::max(std::fabs(x - 651409.903), std::fabs(y - 313177.270)) * 1e3;
      c.obs("OSGB::Forward published example [mm; tol 1.5]", e2);
      if (!(e2 <= 1.5)) c.viol("oracle:C18/osgb-projection/published-example", cls, J().f("x", x).f("y", y)); }
  }
  // round trip in ground distance [nm]; documented accuracy of the projection 5 nm, K = 4
  double dist = std::hypot((lat2 - lat) * 111.2e3, (lon2 - lon) * 111.2e3 * std::cos(lat * M_PI / 180)) * 1e9;
  c.obs("OSGB Reverse(Forward) round trip [nm; tol 20]", dist, J().f("lat", lat).f("lon", lon));
  if (!(dist <= 20)) c.viol("law:C18/osgb-projection/roundtrip", cls, J().f("lat", lat).f("lon", lon).f("lat2", lat2).f("lon2", lon2).f("err_nm", dist));
  if (!(std::fabs(g1 - g2) <= 1e-10 && std::fabs(k1 - k2) <= 1e-13)) c.viol("law:C18/osgb-projection/roundtrip-gamma-k", cls, J().f("lat", lat).f("lon", lon).f("dg", g1 - g2).f("dk", k1 - k2));
  // the grid reference of the projected point names the cell that contains (x,y); its centre projects back nearby
  if (x >= -1e6 && x < 1.5e6 && y >= -5e5 && y < 2e6) check_point(c, rc::OSGB, x, y, pick_prec(rc::OSGB, r), "projected-point", false, false, false);
}

// ------------------------------------------------------------------ replay of a fuzzer-found input (C18_REPLAY_HEX=<hex bytes>)
static void sec_fuzz_replay(Ctx& c, uint64_t idx) {
  const char* h = std::getenv("C18_REPLAY_HEX"); if (!h) { c.herr("set C18_REPLAY_HEX=<hex of the fuzz input> (idx = scheme 0..3)"); return; }
  std::string data; for (size_t i = 0; h[i] && h[i + 1]; i += 2) { unsigned v; std::sscanf(h + i, "%2x", &v); data += (char)v; }
  int s = (int)(idx % 4);
  if (data.empty()) return;
  if ((data[0] & 3) == 3 && data.size() >= 18) { double u, v; std::memcpy(&u, &data[1], 8); std::memcpy(&v, &data[9], 8); int p = (signed char)data[17];
    if (!std::isinf(u)) check_point(c, s, u, v, p, "fuzz-replay", true); }
  else rev_case(c, s, data.substr(1), "fuzz-replay");
}

int main(int argc, char** argv) {
  init_catalogue();
  std::vector<Section> S;
  S.push_back({"selftest", 4001, 40001, false, sec_selftest});
  S.push_back({"fwd_directed", n_directed(), n_directed(), false, sec_fwd_directed});
  S.push_back({"osgb_extreme", 12, 12, false, sec_osgb_extreme});
  S.push_back({"nan", 12, 12, false, sec_nan});
  S.push_back({"helpers", 20001, 200001, false, sec_helpers});
  S.push_back({"geohash_le3", 33825, 33825, false, sec_geohash_le3});
  S.push_back({"gars5", 728, 728, false, sec_gars5});
  S.push_back({"gars67", 720, 720, false, sec_gars67, 120});
  S.push_back({"georef4", 676, 676, false, sec_georef4});
  S.push_back({"osgb2", 676, 676, false, sec_osgb2});
  S.push_back({"fwd_edges", 60000, 3000000, true, sec_fwd_edges});
  S.push_back({"fwd_random", 100000, 5000000, true, sec_fwd_random});
  S.push_back({"rev_random", 100000, 5000000, true, sec_rev_random});
  S.push_back({"rev_malformed", 120000, 4000000, true, sec_rev_malformed});
  S.push_back({"osgb_proj", 20000, 500000, true, sec_osgb_proj});
  S.push_back({"fuzz_replay", 0, 0, false, sec_fuzz_replay});
  return vh::run_sections(argc, argv, S);
}
