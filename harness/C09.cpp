// C09 — rhumb lines: Rhumb::Inverse / Direct / GenDirect, RhumbLine::Position / GenPosition, EllipsoidArea,
// series and exact variants.  Oracle monitor: float128 quadrature rhumb (oracle/ref_rhumb.hpp) evaluated next to
// every call; law monitors: direct-of-inverse, inverse-of-direct, tie rule (east-going), pole rule (documented
// latitude, NaN longitude and area), area additivity along one line, line == Direct, series == exact for |f|<=0.01.
#include "harness/value_semantics.hpp"
#include <GeographicLib/Rhumb.hpp>
#include <map>
#include <memory>
#include "harness/common.hpp"
#include "oracle/ref_exact.hpp"
#include "oracle/ref_rhumb.hpp"

using namespace GeographicLib;
using vh::Ctx; using vh::J; using vh::Section;
typedef ref::q128 Q;
static const double EPS = std::numeric_limits<double>::epsilon();
static const double INF = std::numeric_limits<double>::infinity();
static const double WGS84_A = 6378137.0, WGS84_F = 1 / 298.257223563;
static const double DEG = M_PI / 180;
static const Q DEGQ = M_PIq / 180;

// ---------------------------------------------------------------------------- tolerance model
// "Accurate to round-off; the maximum error is about 10 nanometers" (rhumb documentation, WGS84 scale).
//   length-like residuals (s12, azimuth error x course length, ground position error):
//        K_LEN * ( eps * length  +  F_FLOOR * eps * L ),   L = max(rectifying radius, local rho, local nu)
//        F_FLOOR * eps * a_WGS84 = 10 nm, i.e. the documented figure; K_LEN = 4 is the safety factor.
//   areas: K_AREA * eps * max(a^2, c^2) * |lam12|  (+ first-order sensitivity to the permitted position error)
// Direct results are judged with the condition number of the problem (longitude and area of a course that
// spirals towards a pole respond to a 1 nm change of the meridian distance by far more than round-off).
static const double K_LEN = 4, F_FLOOR = 7.06, K_AREA = 16;
// series variant beyond the documented full-accuracy range of the 6th-order series (|f| <= 1/150): truncation
// error ~ n^7 relative; measured, see evidence.  Multiplier applied on top of the above for 1/150 < |f| <= 0.01.
static const double K_TRUNC_001 = 2.0;

// ---------------------------------------------------------------------------- ellipsoids
struct EllObj {
  double a, f; std::string bucket;
  std::unique_ptr<Rhumb> ser, exa;
  std::unique_ptr<ref::RhumbRef<Q>> R;
  double rm, A2, Qm;
};
static EllObj& ell(double a, double f, bool want_series) {
  static std::map<std::pair<double, double>, std::unique_ptr<EllObj>> cache;
  auto key = std::make_pair(a, f);
  auto it = cache.find(key);
  if (it == cache.end()) {
    if (cache.size() > 48) cache.clear();
    std::unique_ptr<EllObj> e(new EllObj);
    e->a = a; e->f = f;
    e->R.reset(new ref::RhumbRef<Q>(a, f));
    e->exa.reset(vh::detached_new<Rhumb>([&] { return Rhumb(a, f, true); }, [&] { return Rhumb(a * 1.25, f > 0.5 ? 0.01 : 0.25, true); }));   // detached copy: harness/value_semantics.hpp
    e->Qm = (double)e->R->Qm; e->rm = e->Qm / (M_PI / 2);
    e->A2 = std::max(a * a, (double)e->R->c2);
    it = cache.emplace(key, std::move(e)).first;
  }
  if (want_series && !it->second->ser) it->second->ser.reset(vh::detached_new<Rhumb>([&] { return Rhumb(a, f, false); }, [&] { return Rhumb(a * 1.25, 0.005, false); }));
  return *it->second;
}
struct EllPick { double a, f; bool series; std::string bucket; };
static std::string bucket_of(double f) {
  double af = std::fabs(f);
  if (f == 0) return "sphere";
  std::string s = f > 0 ? "oblate" : "prolate";
  if (af <= 2e-6) return s + "-tiny-f";
  if (af <= 0.0034) return s + "-wgs84-like";
  if (af <= 1.0 / 150 + 1e-12) return s + "-f<=1/150";
  if (af <= 0.01 + 1e-12) return s + "-f<=0.01";
  double boa = 1 - f;
  if (boa >= 0.3 && boa <= 3) return s + "-moderate";
  return s + "-extreme";
}
static EllPick pick_ell(vh::Rng& r) {
  static const double fl[] = {0, 1e-6, -1e-6, 1.0 / 150, -1.0 / 150, 0.01, -0.01};
  static const double boa[] = {0.01, 0.1, 0.5, 0.9, 1.1, 2, 10, 100};
  static const double al[] = {1, 6.4e6, 1e9};
  EllPick e; e.a = r.coin(0.7) ? WGS84_A : r.pick(al);
  int k = (int)r.below(100);
  if (k < 25) { e.f = WGS84_F; e.series = true; }
  else if (k < 55) { e.f = r.pick(fl); e.series = true; }
  else if (k < 60) { e.f = r.sign() * r.logu(1e-9, 0.01); e.series = true; }
  else if (k < 96) { e.f = 1 - r.pick(boa); e.series = false; }
  else { e.f = 1 - std::exp(r.uniform(std::log(0.01), std::log(100.0))); e.series = std::fabs(e.f) <= 0.01; }
  e.bucket = bucket_of(e.f);
  return e;
}

// ---------------------------------------------------------------------------- generators
static double pick_lat(vh::Rng& r, std::string& cls, bool allow_pole = true) {
  switch (r.below(12)) {
  case 0: if (allow_pole) { cls = "pole"; return r.coin() ? 90 : -90; }   // fallthrough
  case 1: cls = "near-pole"; return r.sign() * (90 - std::pow(10.0, -r.range(1, 14)));
  case 2: cls = "near-pole"; return r.sign() * (90 - r.logu(1e-14, 1));
  case 3: cls = "equator"; return r.coin() ? 0.0 : -0.0;
  case 4: cls = "near-equator"; return r.sign() * r.logu(1e-20, 1e-3);
  default: cls = "mid"; return r.coin() ? r.uniform(-90, 90) : std::asin(r.uniform(-1, 1)) / DEG;
  }
}
static double pick_lon(vh::Rng& r) {
  switch (r.below(10)) {
  case 0: { static const double s[] = {0, -0.0, 180, -180, 540, -540, 360, 90, -90}; return r.pick(s); }
  case 1: return vh::ulps(r.coin() ? 180 : -180, r.range(-2, 2));
  case 2: return r.uniform(-180, 180) + 360 * (double)r.range(-3000, 3000);
  default: return r.uniform(-180, 180);
  }
}
static double clamp_lat(double x) { return x > 90 ? 90 : x < -90 ? -90 : x; }

static std::string jq(Q x) { return ref::qstr(x, 24); }

// local length scale for the absolute floor: an angle carried to relative round-off moves the point by eps * radius of curvature
static double lscale(const EllObj& E, Q lat1, Q lat2) {
  const ref::RhumbRef<Q>& R = *E.R;
  double l = E.rm;
  for (Q x : {lat1, lat2}) { l = std::max(l, (double)R.rho_at(x)); l = std::max(l, (double)R.nu_at(x)); }
  return l;
}
// tolerance multiplier: series beyond |f| = 1/150 (truncation); exact variant on oblate ellipsoids: the defining
// expression psi = asinh(tan phi) - e atanh(e sin phi) cancels to (1-e^2) of its terms near the equator, so round-off in
// psi12 (hence in s12, lon12, S12) is amplified by up to 1/(1-e^2) = (a/b)^2; half of that is allowed.
static double ktrunc(const EllObj& E, bool series) {
  if (series) return std::fabs(E.f) > 1.0 / 150 + 1e-12 ? K_TRUNC_001 : 1.0;
  double e2m = (1 - E.f) * (1 - E.f);
  return E.f > 0 ? std::max(1.0, 0.5 / e2m) : 1.0;
}

// ---------------------------------------------------------------------------- violation routing
// Defects of the exact variant that were found with this harness get ONE key each (whatever monitor exposes them);
// the predicate is the code path that contains the defect, the monitor's own name goes into the detail.
struct Route { const EllObj* E = nullptr; bool series = true, nonfinite = false, moved = false; double lat1 = 0, lat2 = 0; };
static Route g_route;
// name of the defect whose code path the current call takes ("" if none)
static std::string defect_regime(const std::string& monitor = "") {
  if (!g_route.E || g_route.series) return "";
  const EllObj& E = *g_route.E; double l1 = g_route.lat1, l2 = g_route.lat2, boa = 1 - E.f;
  bool notpole = std::fabs(l1) < 90 && std::fabs(l2) < 90;
  // DRectifying -> DE / DParametric divided differences (lat2 may be an end point that the library itself produced)
  bool same_side = l1 * l2 >= 0 && (l1 != l2 || g_route.moved) && notpole;
  if (g_route.nonfinite && l1 * l2 > 0 && std::fabs(l1) > 45 && std::fabs(l2) > 45 && std::fabs(l1 - l2) < 1e-9 && notpole)
    return "defect:C09/exact/DParametric-0-over-0-for-nearby-latitudes-poleward-of-45deg";
  if (E.f < 0 && same_side) return "defect:C09/exact/prolate-DE-cancellation-same-side-of-equator";
  // a non-zero latitude so small that differences of its tangent underflow
  if (l1 * l2 >= 0 && ((l1 != 0 && std::fabs(l1) < 1e-280) || (l2 != 0 && std::fabs(l2) < 1e-280)))
    return "defect:C09/exact/underflowing-latitude-difference";
  // narrowed after seeded change C09-r4s2 (which hid inside the former regime b/a outside [0.3, 3]): measured on the unchanged tree
  // (3 seeds x 2 x quick, regime switched off) only the AREA monitors fail, and only for b/a <= 0.014
  // on the prolate side several monitors fail from b/a ~ 10 on (area at b/a = 10, direct-of-inverse position from b/a ~ 24): bound unchanged
  if (boa > 3 || (boa < 0.05 && (monitor.empty() || monitor.find("/S12/") != std::string::npos))) return "defect:C09/exact/extreme-eccentricity-accuracy";
  return "";
}
static std::string otag(const std::string& md) { return defect_regime().empty() ? md : md + ", regime of a reported defect"; }
static void V(Ctx& c, const std::string& key, const std::string& cls, const J& detail) {
  std::string k = defect_regime(key);
  if (k.empty()) k = key;
  J d = detail; d.str("monitor", key);
  c.viol(k, cls, d);
}

// ---------------------------------------------------------------------------- inverse
struct InvOut { double s12, azi12, S12; bool ok; };

static InvOut judge_inverse(Ctx& c, const std::string& cls, EllObj& E, bool series, double lat1, double lon1, double lat2, double lon2,
                            const ref::RhumbInv<Q>& r) {
  const Rhumb& rh = series ? *E.ser : *E.exa;
  const ref::RhumbRef<Q>& R = *E.R;
  const std::string md = series ? "series" : "exact";
  InvOut o; o.ok = false;
  o.s12 = vh::sentinel(1); o.azi12 = vh::sentinel(2); o.S12 = vh::sentinel(3);
  rh.Inverse(lat1, lon1, lat2, lon2, o.s12, o.azi12, o.S12);
  g_route.E = &E; g_route.series = series; g_route.lat1 = lat1; g_route.lat2 = lat2; g_route.moved = false;
  g_route.nonfinite = !r.degenerate && !(std::isfinite(o.s12) && std::isfinite(o.azi12) && (std::isfinite(o.S12) || ref::isnan(r.S12)));
  {   // the overload without area must give identical bits
    double s2, a2; rh.Inverse(lat1, lon1, lat2, lon2, s2, a2);
    if (!(vh::same_bits(s2, o.s12) && vh::same_bits(a2, o.azi12)))
      V(c, "law:C09/inverse/overloads-differ/" + md, cls, J().f("a", E.a).f("f", E.f).f("lat1", lat1).f("lon1", lon1).f("lat2", lat2).f("lon2", lon2));
  }
  J w = J().f("a", E.a).f("f", E.f).str("mode", md).f("lat1", lat1).f("lon1", lon1).f("lat2", lat2).f("lon2", lon2)
    .f("s12", o.s12).f("azi12", o.azi12).f("S12", o.S12).str("ref_s12", jq(r.s12)).str("ref_azi12", jq(r.azi12)).str("ref_S12", jq(r.S12)).str("ref_lon12", jq(r.lon12));
  if (c.only) std::fprintf(stderr, "INVERSE %s\n", w.done().c_str());
  double kt = ktrunc(E, series);
  double Ls = lscale(E, lat1, lat2), sref = (double)r.s12;
  double tol_len = kt * K_LEN * (EPS * sref + F_FLOOR * EPS * Ls);
  // judge the REQUESTED outputs of one inverse call against REF (sfx = "" for the all-outputs call, "/masked")
  bool west = false;
  auto judge3 = [&](double s12v, double aziv, double S12v, bool qs, bool qa, bool qS, const std::string& sfx, const J& ww) {
    const std::string mdx = md + sfx;
    bool wst = false;
    // ---- distance
    if (qs) {
      double es = (double)ref::fabs((Q)s12v - r.s12);
      c.obs("inverse s12 error / tolerance [" + otag(mdx) + "]", es / tol_len, J(ww).f("err_m", es).f("tol_m", tol_len));
      if (sfx.empty()) c.obs("inverse s12 error [nm, scaled to a=WGS84] " + md + " " + E.bucket, es * 1e9 * WGS84_A / E.a);
      if (!(es <= tol_len) || !(s12v >= 0)) V(c, "oracle:C09/inverse/s12/" + mdx, cls, J(ww).f("err_m", es).f("tol_m", tol_len));
    }
    // ---- tie rule and azimuth
    if (qa && r.tie && !r.degenerate) {
      if (sfx.empty()) c.event("tie (|lon12| == 180 exactly) cases checked");
      // east-going: azimuth in [0, 180]
      if (std::isnan(aziv) || std::signbit(aziv)) {
        wst = true;
        if (sfx.empty()) c.viol("oracle:C09/inverse/tie-rule-east-going", cls, J(ww));
      }
    }
    if (!qa && qS && r.tie && !r.degenerate && r.S12 != 0 && !ref::isnan(r.S12) && std::signbit(S12v) != (r.S12 < 0)) wst = true;   // same tie, seen through the area only
    if (!r.degenerate) {
      if (qa) {
        if (!(std::fabs(aziv) <= 180)) V(c, "oracle:C09/inverse/azi12-range/" + mdx, cls, J(ww));
        if (sref > 0) {
          Q da = ref::remainder((Q)(wst ? -aziv : aziv) - r.azi12, (Q)360) * DEGQ;
          double ea = (double)ref::fabs(da) * sref;
          c.obs("inverse azimuth error x s12 / tolerance [" + otag(mdx) + "]", ea / tol_len, J(ww).f("err_m", ea).f("tol_m", tol_len));
          if (!(ea <= tol_len)) V(c, "oracle:C09/inverse/azi12/" + mdx, cls, J(ww).f("err_m", ea).f("tol_m", tol_len));
        }
      }
      // ---- area
      if (qS && !ref::isnan(r.S12)) {
        double lam = (double)ref::fabs(r.lon12) * DEG;
        double tolS = kt * K_AREA * EPS * E.A2 * lam + E.A2 * 1e-290;
        double eS = (double)ref::fabs((Q)(wst ? -S12v : S12v) - r.S12);
        if (tolS > 0) c.obs("inverse S12 error / tolerance [" + otag(mdx) + "]", eS / tolS, J(ww).f("err_m2", eS).f("tol_m2", tolS));
        if (!(eS <= tolS)) V(c, "oracle:C09/inverse/S12/" + mdx, cls, J(ww).f("err_m2", eS).f("tol_m2", tolS));
      }
    }
    return wst; };
  west = judge3(o.s12, o.azi12, o.S12, true, true, true, "", w);
  // ---- GenInverse with a random NON-EMPTY subset of the outputs requested
  {
    unsigned bits = 1 + (unsigned)c.rng.below(7);
    bool qs = bits & 1, qa = bits & 2, qS = bits & 4;
    unsigned m2 = (qs ? (unsigned)Rhumb::DISTANCE : 0u) | (qa ? (unsigned)Rhumb::AZIMUTH : 0u) | (qS ? (unsigned)Rhumb::AREA : 0u);
    double s2 = vh::sentinel(1), a2 = vh::sentinel(2), S2 = vh::sentinel(3);
    rh.GenInverse(lat1, lon1, lat2, lon2, m2, s2, a2, S2);
    bool nf0 = g_route.nonfinite;
    g_route.nonfinite = !r.degenerate && !((!qs || std::isfinite(s2)) && (!qa || std::isfinite(a2)) && (!qS || std::isfinite(S2) || ref::isnan(r.S12)));
    J wm = J().f("a", E.a).f("f", E.f).str("mode", md).str("api", "GenInverse (subset of outputs)").u("outmask", m2).f("lat1", lat1).f("lon1", lon1).f("lat2", lat2).f("lon2", lon2)
      .f("s12", s2).f("azi12", a2).f("S12", S2).str("ref_s12", jq(r.s12)).str("ref_azi12", jq(r.azi12)).str("ref_S12", jq(r.S12)).str("ref_lon12", jq(r.lon12));
    if (c.only) std::fprintf(stderr, "INVERSE-MASKED %s\n", wm.done().c_str());
    c.event("inverse calls with a random subset of outputs judged");
    judge3(s2, a2, S2, qs, qa, qS, "/masked", wm);
    if (!((qs || vh::is_sentinel(s2, 1)) && (qa || vh::is_sentinel(a2, 2)) && (qS || vh::is_sentinel(S2, 3))))
      c.event("inverse: an output that was not requested was written (C12 judges this)");
    g_route.nonfinite = nf0;
  }
  o.ok = true;
  // ---- direct of inverse (library only; tolerance from the oracle's conditioning data)
  if (!r.pole && std::isfinite(o.s12) && std::isfinite(o.azi12)) {
    double la = vh::sentinel(4), lo = vh::sentinel(5);
    rh.Direct(lat1, lon1, o.azi12, o.s12, la, lo);
    g_route.nonfinite = g_route.nonfinite || !(std::isfinite(la) && (std::isfinite(lo) || (double)((1 - ref::fabs(R.merid(lat2)) / R.Qm) * 90) < 64 * ref::ulp_d(90.0)));
    if (defect_regime().empty()) {   // regime of the Direct call: its internal end point is the library's own, in general != lat2
      g_route.moved = true;
      if (std::isfinite(la)) g_route.lat2 = la;
    }
    double R2 = (double)R.circle_radius(lat2), lam = (double)ref::fabs(r.lon12) * DEG, cond;
    if (r.psi12 != 0) cond = 1 + lam * (double)ref::fabs(1 / r.psi12 - R2 / r.dm);
    else { Q s, cc; ref::sincosd<Q>(lat1, s, cc); cond = 1 + lam * (double)ref::fabs(s); }
    double tol_pos = kt * K_LEN * (EPS * (sref + R2 * lam) + F_FLOOR * EPS * Ls) * cond + R2 * DEG * ref::ulp_d(360);
    // azi12 is handed on as a rounded double: d lam12 = sec^2(azi) psi12 d azi  (matters for courses that start next to a pole)
    if (r.psi12 != 0) tol_pos += R2 * (double)((r.psi12 * r.psi12 + (Q)lam * lam) / ref::fabs(r.psi12)) * DEG * ref::ulp_d(o.azi12);
    // "next to the pole" is decided by the library in the rectifying latitude (|mu2| <= 90 in double)
    bool near_pole = (double)((1 - ref::fabs(R.merid(lat2)) / R.Qm) * 90) < 64 * ref::ulp_d(90.0);
    if (std::isnan(lo) && near_pole) c.event("direct-of-inverse: end point within 64 ulp of a pole, NaN longitude accepted");
    else {
      double em = (double)ref::fabs(R.merid(clamp_lat(la)) - R.merid(lat2));
      double ee = R2 * (double)ref::fabs(ref::remainder((Q)lo - (Q)lon2, (Q)360)) * DEG;
      double ep = std::hypot(em, ee);
      if (west) ep = em;      // tie resolved the other way (reported above): only the latitude is comparable
      c.obs("direct-of-inverse position error / tolerance [" + otag(md) + "]", ep / tol_pos, J(w).f("lat2_back", la).f("lon2_back", lo).f("err_m", ep).f("tol_m", tol_pos));
      if (!(ep <= tol_pos)) V(c, "law:C09/direct-of-inverse/position/" + md, cls, J(w).f("lat2_back", la).f("lon2_back", lo).f("err_m", ep).f("tol_m", tol_pos).f("cond", cond));
    }
  }
  return o;
}

static void inverse_case(Ctx& c, const EllPick& ep, const std::string& regime, double lat1, double lon1, double lat2, double lon2) {
  EllObj& E = ell(ep.a, ep.f, ep.series); E.bucket = ep.bucket;
  std::string cls = "inverse/" + regime + "/" + ep.bucket;
  uint64_t h = vh::hmix(vh::hmix(vh::hmix(vh::hmix(vh::hmix(vh::hmix(11, ep.a), ep.f), lat1), lon1), lat2), lon2);
  ref::RhumbInv<Q> r;
  if (c.only) std::fprintf(stderr, "CASE inverse a=%.17g f=%.17g lat1=%.17g lon1=%.17g lat2=%.17g lon2=%.17g\n", ep.a, ep.f, lat1, lon1, lat2, lon2);
  try { r = E.R->inverse(lat1, lon1, lat2, lon2); }
  catch (const std::runtime_error& e) { c.herr(std::string("oracle inverse: ") + e.what()); return; }
  c.count(cls, h);
  if (c.want_sample(cls)) c.sample(cls, J().f("a", ep.a).f("f", ep.f).f("lat1", lat1).f("lon1", lon1).f("lat2", lat2).f("lon2", lon2));
  InvOut oe = judge_inverse(c, cls + "/exact", E, false, lat1, lon1, lat2, lon2, r);
  if (ep.series) {
    InvOut os = judge_inverse(c, cls + "/series", E, true, lat1, lon1, lat2, lon2, r);
    // series and exact variants agree (each is within its tolerance of the truth, so twice that of each other)
    if (os.ok && oe.ok && !r.degenerate) {
      double kt = ktrunc(E, true), Ls = lscale(E, lat1, lat2), sref = (double)r.s12, lam = (double)ref::fabs(r.lon12) * DEG;
      double tl = 2 * kt * K_LEN * (EPS * sref + F_FLOOR * EPS * Ls), tS = 2 * kt * K_AREA * EPS * E.A2 * lam + E.A2 * 1e-290;
      double ds = std::fabs(os.s12 - oe.s12), da = std::fabs(std::remainder(os.azi12 - oe.azi12, 360.0)) * DEG * sref, dS = std::fabs(os.S12 - oe.S12);
      g_route.E = &E; g_route.series = false; g_route.lat1 = lat1; g_route.lat2 = lat2; g_route.nonfinite = !(std::isfinite(oe.s12) && std::isfinite(oe.S12)); g_route.moved = false;
      const std::string tg = defect_regime().empty() ? "" : " [regime of a reported defect of the exact variant]";
      c.obs("series-vs-exact inverse s12 / tolerance" + tg, ds / tl);
      c.obs("series-vs-exact inverse azimuth x s12 / tolerance" + tg, da / tl);
      if (tS > 0 && !ref::isnan(r.S12)) c.obs("series-vs-exact inverse S12 / tolerance" + tg, dS / tS);
      J w = J().f("a", E.a).f("f", E.f).f("lat1", lat1).f("lon1", lon1).f("lat2", lat2).f("lon2", lon2).f("s12_series", os.s12).f("s12_exact", oe.s12)
        .f("azi12_series", os.azi12).f("azi12_exact", oe.azi12).f("S12_series", os.S12).f("S12_exact", oe.S12);
      if (!(ds <= tl)) V(c, "law:C09/series-vs-exact/inverse/s12", cls, w);
      if (!(da <= tl)) V(c, "law:C09/series-vs-exact/inverse/azi12", cls, w);
      if (!ref::isnan(r.S12) && !(dS <= tS)) V(c, "law:C09/series-vs-exact/inverse/S12", cls, w);
    }
  }
}

static void sec_inverse(Ctx& c, uint64_t) {
  vh::Rng& r = c.rng;
  EllPick ep = pick_ell(r);
  std::string cl1, cl2, regime;
  double lat1, lon1, lat2, lon2;
  double a = ep.a, f = ep.f, e2 = f * (2 - f);
  auto rho_d = [&](double lat) { double s = std::sin(lat * DEG), w = 1 - e2 * s * s; return a * (1 - e2) / (w * std::sqrt(w)); };
  auto rad_d = [&](double lat) { double s = std::sin(lat * DEG), w = 1 - e2 * s * s; return a * std::cos(lat * DEG) / std::sqrt(w); };
  switch (r.below(16)) {
  case 0: case 1: {   // nearby points: 1e-9 m .. 1 km (divided-difference regime)
    lat1 = pick_lat(r, cl1, false); lon1 = pick_lon(r);
    double d = r.logu(1e-9, 1e3), th = r.uniform(0, 2 * M_PI);
    if (r.coin(0.15)) th = (double)r.range(0, 3) * M_PI / 2 + (r.coin() ? 0 : r.sign() * r.logu(1e-12, 1e-3));
    lat2 = clamp_lat(lat1 + d * std::cos(th) / (rho_d(lat1) * DEG));
    double rr = std::max(rad_d(lat1), 1e-6 * a);
    lon2 = lon1 + d * std::sin(th) / (rr * DEG);
    regime = d < 1e-6 ? "nearby<1um" : d < 1e-3 ? "nearby<1mm" : d < 1 ? "nearby<1m" : "nearby<1km"; regime += "/start-" + cl1; break; }
  case 2: case 3: {   // nearly east-west: dphi from 0 to 1e-12 deg
    lat1 = pick_lat(r, cl1, false); lon1 = pick_lon(r);
    switch (r.below(4)) {
    case 0: lat2 = lat1; regime = "east-west-exact"; break;
    case 1: lat2 = clamp_lat(vh::ulps(lat1, r.range(-4, 4))); regime = "nearly-east-west/ulps"; break;
    case 2: lat2 = clamp_lat(lat1 + r.sign() * r.logu(1e-18, 1e-12)); regime = "nearly-east-west/dphi<=1e-12"; break;
    default: lat2 = clamp_lat(lat1 + r.sign() * r.logu(1e-12, 1e-6)); regime = "nearly-east-west/dphi<=1e-6"; break;
    }
    lon2 = lon1 + (r.coin(0.7) ? r.uniform(-180, 180) : r.sign() * r.logu(1e-12, 180));
    regime += "/lat-" + cl1; break; }
  case 4: case 5: {   // nearly meridional
    lat1 = pick_lat(r, cl1); lat2 = pick_lat(r, cl2); lon1 = pick_lon(r);
    switch (r.below(3)) {
    case 0: lon2 = lon1; regime = "meridional-exact"; break;
    case 1: lon2 = vh::ulps(lon1, r.range(-3, 3)); regime = "nearly-meridional/ulps"; break;
    default: lon2 = lon1 + r.sign() * r.logu(1e-18, 1e-6); regime = "nearly-meridional/dlam<=1e-6"; break;
    }
    if (r.coin(0.2)) lon2 += 360 * (double)r.range(-2, 2);
    break; }
  case 6: case 7: {   // end points at / next to the poles
    std::string d;
    auto pl = [&]() { return r.coin(0.5) ? (r.coin() ? 90.0 : -90.0) : r.sign() * (90 - std::pow(10.0, -r.range(1, 14))); };
    lat1 = pl(); lat2 = r.coin(0.4) ? pl() : pick_lat(r, d);
    if (r.coin()) std::swap(lat1, lat2);
    lon1 = pick_lon(r); lon2 = pick_lon(r);
    bool p = std::fabs(lat1) == 90 || std::fabs(lat2) == 90;
    regime = p ? (std::fabs(lat1) == 90 && std::fabs(lat2) == 90 ? "both-poles" : "pole-end-point") : "near-pole-end-point"; break; }
  case 8: case 9: {   // lon12 = +-180 exactly (tie rule) and +-(180 -+ ulps)
    lat1 = pick_lat(r, cl1); lat2 = pick_lat(r, cl2);
    lon1 = ((double)r.below(368641) - 184320) / 1024;      // on a 2^-10 grid so that lon1 +- 180 is exact
    int sgn = r.coin() ? 1 : -1, k = r.coin(0.5) ? 0 : r.range(-2, 2);
    lon2 = lon1 + sgn * 180.0;
    if (r.coin(0.25)) { lon2 += 360 * (double)r.range(-2, 2); }
    lon2 = vh::ulps(lon2, k);
    if (r.coin(0.1)) { lon1 = 0; lon2 = vh::ulps(sgn * 180.0, k); }
    regime = k == 0 ? (sgn > 0 ? "tie/lon2=lon1+180" : "tie/lon2=lon1-180") : "near-tie/+-ulps"; break; }
  case 10: {   // symmetric about / touching the equator (opposite-sign branch of the divided differences)
    lat1 = pick_lat(r, cl1);
    switch (r.below(3)) { case 0: lat2 = -lat1; break; case 1: lat2 = r.coin() ? 0.0 : -0.0; break; default: lat2 = -lat1 * (1 + r.sign() * r.logu(1e-16, 1e-3)); break; }
    lat2 = clamp_lat(lat2);
    if (r.coin()) std::swap(lat1, lat2);
    lon1 = pick_lon(r); lon2 = pick_lon(r); regime = "equator-crossing"; break; }
  default: {   // random
    lat1 = pick_lat(r, cl1); lat2 = pick_lat(r, cl2); lon1 = pick_lon(r); lon2 = pick_lon(r);
    regime = "random/" + cl1 + "-to-" + cl2; break; }
  }
  inverse_case(c, ep, regime, lat1, lon1, lat2, lon2);
}

// ---------------------------------------------------------------------------- direct
struct DirTol { double tol_m, tol_pos, tol_S, cond, R2; bool area_ok; };

// tolerances for one direct problem from the oracle's course data
static DirTol direct_tols(const EllObj& E, bool series, double lat1, double lon1, double azi12, double s12, const ref::RhumbDir<Q>& r) {
  const ref::RhumbRef<Q>& R = *E.R; DirTol t;
  double kt = ktrunc(E, series);
  Q salp, calp; ref::sincosd<Q>((Q)azi12, salp, calp);
  double m1 = (double)ref::fabs(R.merid(lat1)), dM = (double)ref::fabs((Q)s12 * calp);
  double Ls = lscale(E, lat1, r.lat2);
  // courses longer than one circuit of the meridian ellipse / of a parallel: the relative round-off of the huge
  // rectifying latitude / longitude is all that matters there; allow 2 K eps for it (K eps within one circuit)
  double mw = dM > 4 * E.Qm ? 2 : 1;
  t.tol_m = kt * K_LEN * (mw * EPS * (m1 + dM) + F_FLOOR * EPS * Ls);
  t.R2 = (double)R.circle_radius(r.lat2); t.cond = 1; t.tol_pos = t.tol_m; t.tol_S = 0; t.area_ok = false;
  if (r.crossed || r.from_pole || r.at_pole || ref::isnan(r.lon12)) return t;
  double lam = (double)ref::fabs(r.lon12) * DEG, R2 = t.R2;
  Q Q2 = R.Qzone(r.lat2);
  double lonslack = ref::ulp_d(std::fabs(lon1) + (double)ref::fabs(r.lon12) + 360);     // lon2 = lon1 + lon12 is rounded to a double
  double tol_lam, dQterm;     // radians ; m^2
  if (r.psi12 != 0) {
    double A = lam / (double)ref::fabs(r.psi12);     // |tan(azi)|
    Q mRinv = r.psi12 / r.dm, mQ = r.qpsi / r.psi12;
    t.cond = 1 + lam * (double)ref::fabs(1 / r.psi12 - R2 / r.dm);
    tol_lam = kt * K_LEN * EPS * lam + (R2 > 0 ? A * (double)ref::fabs(1 / (Q)R2 - mRinv) * t.tol_m : 0);
    dQterm = (double)ref::fabs(mQ) * tol_lam + (R2 > 0 ? A * (double)ref::fabs(Q2 - mQ) * t.tol_m / R2 : 0);
  } else {
    Q s, cc; ref::sincosd<Q>((Q)lat1, s, cc);
    t.cond = 1 + lam * (double)ref::fabs(s);
    tol_lam = kt * K_LEN * EPS * lam + (R2 > 0 ? lam * (double)ref::fabs(s) / R2 * t.tol_m : 0);
    dQterm = (double)ref::fabs(Q2) * tol_lam + lam * R2 * t.tol_m;
  }
  double mwl = lam > 2 * M_PI ? 2 : 1;
  t.tol_pos = kt * K_LEN * (mwl * EPS * (std::fabs(s12) + R2 * lam) + F_FLOOR * EPS * Ls) * t.cond + t.tol_m + R2 * DEG * lonslack;
  t.tol_S = kt * K_AREA * EPS * E.A2 * lam + dQterm + E.A2 * 1e-290;
  t.area_ok = R2 > 0;
  return t;
}

struct DirOut { double lat2, lon2, S12; bool judged_pos; };
struct DirReq { bool lat, lon, area, unroll; };

// judge the REQUESTED outputs of one direct call against REF (sfx = "" for the all-outputs call, "/masked", "/overload")
static void judge_direct_outputs(Ctx& c, const std::string& cls, EllObj& E, bool series, double lat1, double lon1, double azi12, double s12,
                                 const ref::RhumbDir<Q>& r, const DirTol& t, bool borderline, DirOut& o, DirReq q, const std::string& sfx, const J& w) {
  const ref::RhumbRef<Q>& R = *E.R;
  const std::string md = (series ? "series" : "exact") + sfx;
  o.judged_pos = false;
  g_route.E = &E; g_route.series = series; g_route.lat1 = lat1; g_route.lat2 = q.lat && std::isfinite(o.lat2) ? o.lat2 : (double)r.lat2; g_route.moved = true;
  g_route.nonfinite = !r.crossed && !r.from_pole && !r.at_pole && !((!q.lat || std::isfinite(o.lat2)) && (!q.lon || std::isfinite(o.lon2)) && (!q.area || std::isfinite(o.S12)));
  // ---- latitude (documented rule: the latitude continues over the pole)
  double em = 0;
  if (q.lat) {
    if (!(std::fabs(o.lat2) <= 90)) { V(c, "oracle:C09/direct/lat2-range/" + md, cls, w); return; }
    em = (double)ref::fabs(R.merid(o.lat2) - R.merid(r.lat2));
    c.obs("direct latitude error (meridian distance) / tolerance [" + otag(md) + "]", em / t.tol_m, J(w).f("err_m", em).f("tol_m", t.tol_m));
    if (!(em <= t.tol_m)) V(c, std::string("oracle:C09/direct/") + (r.crossed ? "pole-rule/lat2/" : "lat2/") + md, cls, J(w).f("err_m", em).f("tol_m", t.tol_m));
  }
  // ---- pole rule
  if (borderline) { if (sfx.empty()) c.event("direct: course ends within round-off of a pole (either outcome accepted)"); return; }
  if (r.crossed) {
    if (sfx.empty()) c.event("direct: pole-crossing courses checked against the documented rule");
    if (q.lon && !std::isnan(o.lon2)) V(c, "oracle:C09/direct/pole-rule/lon2-not-nan/" + md, cls, w);
    if (q.area && !std::isnan(o.S12)) V(c, "oracle:C09/direct/pole-rule/S12-not-nan/" + md, cls, w);
    return;
  }
  if (r.from_pole) {
    if (sfx.empty()) {
      c.event("direct: start at a pole");
      Q salp, calp; ref::sincosd<Q>((Q)azi12, salp, calp);
      if (salp == 0 && s12 != 0 && !r.at_pole) {
        // a course along a meridian leaving the pole: longitude is determinate (the meridian lon1) and the area is 0
        c.event("direct: start at a pole, exactly meridional");
        if (!(std::isfinite(o.lon2) && std::isfinite(o.S12)))
          c.viol("oracle:C09/direct/from-pole/meridional-course-longitude-not-finite", cls, w);
      }
    }
    return;
  }
  if (r.at_pole) return;
  // ---- position
  if (!((!q.lon || std::isfinite(o.lon2)) && (!q.area || std::isfinite(o.S12)))) { V(c, "oracle:C09/direct/non-finite-output/" + md, cls, w); return; }
  if (q.lon) {
    Q dl = q.unroll ? ((Q)o.lon2 - (Q)lon1) - r.lon12 : ref::remainder((Q)o.lon2 - ((Q)lon1 + r.lon12), (Q)360);
    double ee = t.R2 * (double)ref::fabs(dl) * DEG, ep = std::hypot(em, ee);
    c.obs("direct position error / tolerance [" + otag(md) + "]", ep / t.tol_pos, J(w).f("err_m", ep).f("tol_m", t.tol_pos).f("cond", t.cond));
    if (sfx.empty()) c.obs("direct position error / cond [nm, scaled to a=WGS84] " + md + " " + E.bucket, ep / t.cond * 1e9 * WGS84_A / E.a);
    if (!(ep <= t.tol_pos)) V(c, "oracle:C09/direct/position/" + md, cls, J(w).f("err_m", ep).f("tol_m", t.tol_pos).f("cond", t.cond));
    if (!q.unroll && !(std::fabs(o.lon2) <= 180)) V(c, "oracle:C09/direct/lon2-range/" + md, cls, w);
    if (q.unroll && t.R2 > 0 && (double)ref::fabs(dl) > 180 && t.tol_pos / t.R2 < 1) V(c, "oracle:C09/direct/unroll-circuit-count/" + md, cls, w);
    o.judged_pos = q.lat;
  }
  // ---- area
  if (q.area && t.area_ok) {
    double eS = (double)ref::fabs((Q)o.S12 - r.S12);
    if (t.tol_S > 0) c.obs("direct S12 error / tolerance [" + otag(md) + "]", eS / t.tol_S, J(w).f("err_m2", eS).f("tol_m2", t.tol_S));
    if (!(eS <= t.tol_S)) V(c, "oracle:C09/direct/S12/" + md, cls, J(w).f("err_m2", eS).f("tol_m2", t.tol_S));
  }
}

// line == nullptr: Rhumb::GenDirect / Direct; otherwise RhumbLine::GenPosition / Position on that line
static DirOut judge_direct(Ctx& c, const std::string& cls, EllObj& E, bool series, double lat1, double lon1, double azi12, double s12, bool unroll,
                           const ref::RhumbDir<Q>& r, const RhumbLine* line, const char* api) {
  const Rhumb& rh = series ? *E.ser : *E.exa;
  const ref::RhumbRef<Q>& R = *E.R;
  const std::string md = series ? "series" : "exact", ap = api;
  auto call = [&](unsigned mask, DirOut& o) {
    o.lat2 = vh::sentinel(1); o.lon2 = vh::sentinel(2); o.S12 = vh::sentinel(3); o.judged_pos = false;
    if (line) line->GenPosition(s12, mask, o.lat2, o.lon2, o.S12); else rh.GenDirect(lat1, lon1, azi12, s12, mask, o.lat2, o.lon2, o.S12); };
  auto witness = [&](const DirOut& o, unsigned mask, const std::string& how) {
    return J().f("a", E.a).f("f", E.f).str("mode", md).str("api", ap + how).f("lat1", lat1).f("lon1", lon1).f("azi12", azi12).f("s12", s12).u("outmask", mask)
      .f("lat2", o.lat2).f("lon2", o.lon2).f("S12", o.S12).str("ref_lat2", jq(r.lat2)).str("ref_lon12", jq(r.lon12)).str("ref_S12", jq(r.S12)).str("ref_mu2", jq(r.mu2)).b("ref_crossed", r.crossed); };
  unsigned mask = Rhumb::LATITUDE | Rhumb::LONGITUDE | Rhumb::AREA | (unroll ? (unsigned)Rhumb::LONG_UNROLL : 0u);
  DirOut o; call(mask, o);
  J w = witness(o, mask, "");
  if (c.only) std::fprintf(stderr, "DIRECT %s\n", w.done().c_str());
  DirTol t = direct_tols(E, series, lat1, lon1, azi12, s12, r);
  // how close is the course to ending exactly on a pole?  (the library decides with |mu2| <= 90 in double)
  double mu2 = (double)r.mu2;
  Q calp, salp; ref::sincosd<Q>((Q)azi12, salp, calp);
  double mu1 = (double)(R.merid(lat1) / R.Qm * 90), mu12 = (double)((Q)s12 * calp / R.Qm * 90);
  bool borderline = std::fabs(std::fabs(mu2) - 90) <= 32 * EPS * (std::fabs(mu1) + std::fabs(mu12) + 90);
  judge_direct_outputs(c, cls, E, series, lat1, lon1, azi12, s12, r, t, borderline, o, DirReq{true, true, true, unroll}, "", w);
  // ---- the same problem with a random NON-EMPTY subset of the outputs requested: every requested output is judged
  //      against REF as above; an output that is not requested must be left alone (it still holds its sentinel)
  {
    unsigned bits = 1 + (unsigned)c.rng.below(7);   // 1..7
    bool ql = bits & 1, qo = bits & 2, qa = bits & 4, qu = c.rng.coin();
    unsigned m2 = (ql ? (unsigned)Rhumb::LATITUDE : 0u) | (qo ? (unsigned)Rhumb::LONGITUDE : 0u) | (qa ? (unsigned)Rhumb::AREA : 0u) | (qu ? (unsigned)Rhumb::LONG_UNROLL : 0u);
    DirOut om; call(m2, om);
    J wm = witness(om, m2, " (subset of outputs)");
    if (c.only) std::fprintf(stderr, "DIRECT-MASKED %s\n", wm.done().c_str());
    c.event("direct calls with a random subset of outputs judged");
    judge_direct_outputs(c, cls, E, series, lat1, lon1, azi12, s12, r, t, borderline, om, DirReq{ql, qo, qa, qu}, "/masked", wm);
    bool untouched = (ql || vh::is_sentinel(om.lat2, 1)) && (qo || vh::is_sentinel(om.lon2, 2)) && (qa || vh::is_sentinel(om.S12, 3));
    if (!untouched) c.event("direct: an output that was not requested was written (C12 judges this)");
  }
  // ---- convenience overloads (all outputs / without the area, longitude reduced to [-180,180])
  {
    DirOut o3, o2; o3.lat2 = vh::sentinel(1); o3.lon2 = vh::sentinel(2); o3.S12 = vh::sentinel(3); o2 = o3;
    if (line) { line->Position(s12, o3.lat2, o3.lon2, o3.S12); line->Position(s12, o2.lat2, o2.lon2); }
    else { rh.Direct(lat1, lon1, azi12, s12, o3.lat2, o3.lon2, o3.S12); rh.Direct(lat1, lon1, azi12, s12, o2.lat2, o2.lon2); }
    const unsigned m3 = Rhumb::LATITUDE | Rhumb::LONGITUDE | Rhumb::AREA, m2 = Rhumb::LATITUDE | Rhumb::LONGITUDE;
    judge_direct_outputs(c, cls, E, series, lat1, lon1, azi12, s12, r, t, borderline, o3, DirReq{true, true, true, false}, "/overload", witness(o3, m3, line ? " Position(s12,lat2,lon2,S12)" : " Direct(...,lat2,lon2,S12)"));
    judge_direct_outputs(c, cls, E, series, lat1, lon1, azi12, s12, r, t, borderline, o2, DirReq{true, true, false, false}, "/overload", witness(o2, m2, line ? " Position(s12,lat2,lon2)" : " Direct(...,lat2,lon2)"));
  }
  // restore the routing context of the all-outputs call for the law below
  g_route.E = &E; g_route.series = series; g_route.lat1 = lat1; g_route.lat2 = std::isfinite(o.lat2) ? o.lat2 : (double)r.lat2; g_route.moved = true;
  g_route.nonfinite = !r.crossed && !r.from_pole && !r.at_pole && !(std::isfinite(o.lat2) && std::isfinite(o.lon2) && std::isfinite(o.S12));
  bool normal = !borderline && !r.crossed && !r.from_pole && !r.at_pole && o.judged_pos;
  // ---- inverse of direct (library only): only when the course is the shortest one
  if (normal && (double)ref::fabs(r.lon12) < 179.999 && s12 != 0 && std::fabs(o.lat2) < 90 && std::fabs(lat1) < 90) {
    double sb, ab; rh.Inverse(lat1, lon1, o.lat2, o.lon2, sb, ab);
    g_route.nonfinite = g_route.nonfinite || !(std::isfinite(sb) && std::isfinite(ab));
    // the end point handed back is a rounded double: allow the move of the true end point by one ulp in each coordinate
    double slack = t.tol_pos + (double)R.rho_at(o.lat2) * DEG * ref::ulp_d(o.lat2) + t.R2 * DEG * ref::ulp_d(std::fabs(o.lon2) + 360);
    double aeff = std::remainder(azi12, 360.0), sabs = std::fabs(s12);
    if (s12 < 0) aeff = std::remainder(aeff + 180, 360.0);
    double es = std::fabs(sb - sabs), ea = std::fabs(std::remainder(ab - aeff, 360.0)) * DEG * sabs;
    // the inverse problem responds to a displacement of the end point with the gain G = <R>/R2 (large for courses
    // that wind towards a pole): ds ~ (1 + G cond) x displacement, likewise s12 x dazi
    double G = r.psi12 != 0 && t.R2 > 0 ? std::max(1.0, (double)ref::fabs(r.dm / r.psi12) / t.R2) : 1.0;
    double tl = 2 * slack * (1 + G * t.cond) + ktrunc(E, series) * K_LEN * EPS * sabs;
    c.obs("inverse-of-direct s12 error / tolerance [" + otag(md) + "]", es / tl, J(w).f("s12_back", sb).f("azi12_back", ab));
    c.obs("inverse-of-direct azimuth x s12 error / tolerance [" + otag(md) + "]", ea / tl, J(w).f("s12_back", sb).f("azi12_back", ab));
    if (!(es <= tl)) V(c, "law:C09/inverse-of-direct/s12/" + md, cls, J(w).f("s12_back", sb).f("azi12_back", ab).f("err_m", es).f("tol_m", tl));
    if (!(ea <= tl)) V(c, "law:C09/inverse-of-direct/azi12/" + md, cls, J(w).f("s12_back", sb).f("azi12_back", ab).f("err_m", ea).f("tol_m", tl));
  }
  return o;
}

struct DirCase { EllPick ep; double lat1, lon1, azi12, s12; bool unroll; std::string regime; };

static DirCase gen_direct(vh::Rng& r) {
  DirCase k; k.ep = pick_ell(r);
  EllObj& E = ell(k.ep.a, k.ep.f, k.ep.series);
  std::string cl, ca, cs;
  k.lat1 = pick_lat(r, cl, r.coin(0.5)); k.lon1 = pick_lon(r); k.unroll = r.coin();
  switch (r.below(8)) {
  case 0: { static const double s[] = {0.0, -0.0, 90, -90, 180, -180, 270, 360, -270, 450, -360, 540}; ca = "cardinal"; k.azi12 = r.pick(s); break; }
  case 1: { static const double s[] = {0, 90, -90, 180, -180}; ca = "near-cardinal"; k.azi12 = r.coin() ? vh::ulps(r.pick(s), r.range(-3, 3)) : r.pick(s) + r.sign() * r.logu(1e-15, 1e-5); break; }
  case 2: ca = "multi-turn"; k.azi12 = r.uniform(-1e4, 1e4); break;
  default: ca = "general"; k.azi12 = r.uniform(-180, 180); break;
  }
  double Qm = E.Qm, m1 = (double)E.R->merid(k.lat1), calp = std::cos(std::remainder(k.azi12, 360.0) * DEG);
  { Q sq, cq; ref::sincosd<Q>((Q)k.azi12, sq, cq); calp = (double)cq; }
  // distance along the course to the pole ahead (s > 0) / behind (s < 0)
  double sg = r.sign(), dpole = calp != 0 ? ((sg * calp > 0 ? Qm - m1 : Qm + m1) / std::fabs(calp)) : INF;
  switch (r.below(12)) {
  case 0: cs = "zero"; k.s12 = r.coin() ? 0.0 : -0.0; break;
  case 1: cs = "nearby<1m"; k.s12 = r.sign() * r.logu(1e-9, 1); break;
  case 2: cs = "short<10km"; k.s12 = r.sign() * r.logu(1, 1e4); break;
  case 3: case 4:
    if (std::isfinite(dpole) && dpole < 1e3 * Qm) { cs = "to-the-pole+-small"; k.s12 = sg * dpole * (1 + (r.coin(0.3) ? r.range(-4, 4) * EPS : r.sign() * r.logu(1e-15, 1e-2))); break; }
    // fallthrough
  case 5: case 6:
    if (std::isfinite(dpole) && dpole < 1e3 * Qm) { cs = "beyond-the-pole"; k.s12 = sg * (dpole + r.uniform(0, 3 * Qm) / std::fabs(calp)); break; }
    // fallthrough
  case 7: cs = "long"; k.s12 = r.sign() * r.uniform(Qm, 8 * Qm); break;
  default: cs = "medium"; k.s12 = r.sign() * r.logu(1e4, Qm); break;
  }
  k.regime = "start-" + cl + "/azi-" + ca + "/" + cs;
  return k;
}

static void direct_case(Ctx& c, const DirCase& k) {
  EllObj& E = ell(k.ep.a, k.ep.f, k.ep.series); E.bucket = k.ep.bucket;
  std::string cls = "direct/" + k.regime + "/" + k.ep.bucket;
  uint64_t h = vh::hmix(vh::hmix(vh::hmix(vh::hmix(vh::hmix(vh::hmix(12, k.ep.a), k.ep.f), k.lat1), k.lon1), k.azi12), k.s12);
  ref::RhumbDir<Q> r;
  if (c.only) std::fprintf(stderr, "CASE direct a=%.17g f=%.17g lat1=%.17g lon1=%.17g azi12=%.17g s12=%.17g unroll=%d\n", k.ep.a, k.ep.f, k.lat1, k.lon1, k.azi12, k.s12, (int)k.unroll);
  try { r = E.R->direct(k.lat1, k.lon1, k.azi12, k.s12); }
  catch (const std::runtime_error& e) { c.herr(std::string("oracle direct: ") + e.what()); return; }
  c.count(cls, h);
  if (c.want_sample(cls)) c.sample(cls, J().f("a", k.ep.a).f("f", k.ep.f).f("lat1", k.lat1).f("lon1", k.lon1).f("azi12", k.azi12).f("s12", k.s12).b("unroll", k.unroll));
  if (r.crossed) c.event("direct cases crossing a pole"); else if (!r.from_pole) c.event("direct cases not crossing a pole");
  c.event(k.unroll ? "direct cases with LONG_UNROLL" : "direct cases without LONG_UNROLL");
  DirOut oe = judge_direct(c, cls + "/exact", E, false, k.lat1, k.lon1, k.azi12, k.s12, k.unroll, r, nullptr, "GenDirect");
  // the three-output and two-output Direct overloads are GenDirect with fixed masks: identical bits (when not unrolled)
  {
    double la, lo, S, la2, lo2; E.exa->Direct(k.lat1, k.lon1, k.azi12, k.s12, la, lo, S); E.exa->Direct(k.lat1, k.lon1, k.azi12, k.s12, la2, lo2);
    bool same = vh::same_bits(la, la2) && vh::same_bits(lo, lo2);
    if (!k.unroll) same = same && vh::same_bits(la, oe.lat2) && vh::same_bits(lo, oe.lon2) && vh::same_bits(S, oe.S12);
    if (!same) V(c, "law:C09/direct/overloads-differ/exact", cls, J().f("a", E.a).f("f", E.f).f("lat1", k.lat1).f("lon1", k.lon1).f("azi12", k.azi12).f("s12", k.s12));
  }
  if (k.ep.series) {
    DirOut os = judge_direct(c, cls + "/series", E, true, k.lat1, k.lon1, k.azi12, k.s12, k.unroll, r, nullptr, "GenDirect");
    if (os.judged_pos && oe.judged_pos) {
      DirTol t = direct_tols(E, true, k.lat1, k.lon1, k.azi12, k.s12, r);
      double em = (double)ref::fabs(E.R->merid(os.lat2) - E.R->merid(oe.lat2));
      double ee = t.R2 * std::fabs(k.unroll ? os.lon2 - oe.lon2 : std::remainder(os.lon2 - oe.lon2, 360.0)) * DEG, epos = std::hypot(em, ee), dS = std::fabs(os.S12 - oe.S12);
      g_route.E = &E; g_route.series = false; g_route.lat1 = k.lat1; g_route.lat2 = oe.lat2; g_route.nonfinite = false; g_route.moved = true;
      const std::string tg = defect_regime().empty() ? "" : " [regime of a reported defect of the exact variant]";
      c.obs("series-vs-exact direct position / tolerance" + tg, epos / (2 * t.tol_pos));
      if (t.area_ok && t.tol_S > 0) c.obs("series-vs-exact direct S12 / tolerance" + tg, dS / (2 * t.tol_S));
      J w = J().f("a", E.a).f("f", E.f).f("lat1", k.lat1).f("lon1", k.lon1).f("azi12", k.azi12).f("s12", k.s12).f("lat2_series", os.lat2).f("lat2_exact", oe.lat2)
        .f("lon2_series", os.lon2).f("lon2_exact", oe.lon2).f("S12_series", os.S12).f("S12_exact", oe.S12);
      if (!(epos <= 2 * t.tol_pos)) V(c, "law:C09/series-vs-exact/direct/position", cls, w);
      if (t.area_ok && !(dS <= 2 * t.tol_S)) V(c, "law:C09/series-vs-exact/direct/S12", cls, w);
    }
  }
}
static void sec_direct(Ctx& c, uint64_t) { direct_case(c, gen_direct(c.rng)); }

// ---------------------------------------------------------------------------- RhumbLine: positions along one line
static void sec_line(Ctx& c, uint64_t) {
  vh::Rng& r = c.rng;
  DirCase k = gen_direct(r);
  EllObj& E = ell(k.ep.a, k.ep.f, k.ep.series); E.bucket = k.ep.bucket;
  bool series = k.ep.series && r.coin();
  const Rhumb& rh = series ? *E.ser : *E.exa;
  const std::string md = series ? "series" : "exact";
  RhumbLine line = rh.Line(k.lat1, k.lon1, k.azi12);
  std::string cls = "line/" + k.regime + "/" + k.ep.bucket + "/" + md;
  J w0 = J().f("a", E.a).f("f", E.f).str("mode", md).f("lat1", k.lat1).f("lon1", k.lon1).f("azi12", k.azi12);
  // inspectors
  {
    bool ok = vh::same_bits(line.Latitude(), k.lat1) && vh::same_bits(line.Longitude(), k.lon1) && line.EquatorialRadius() == E.a && line.Flattening() == E.f;
    double an = line.Azimuth(); Q d = ref::remainder((Q)an - (Q)k.azi12, (Q)360);
    ok = ok && std::fabs(an) <= 180 && d == 0;
    if (!ok) V(c, "law:C09/line/inspectors", cls, J(w0).f("Latitude", line.Latitude()).f("Longitude", line.Longitude()).f("Azimuth", an));
  }
  int n = r.range(3, 6);
  std::vector<double> ss; ss.push_back(k.s12);
  for (int i = 1; i < n; ++i) ss.push_back(r.coin(0.6) ? k.s12 * r.uniform(-1, 1) : (r.coin() ? r.sign() * r.logu(1e-6, 1e7) : k.s12 * (1 + r.sign() * r.logu(1e-15, 1e-3))));
  std::sort(ss.begin(), ss.end());
  struct P { double s, lat, lon, S; ref::RhumbDir<Q> r; DirTol t; bool ok; };
  std::vector<P> pts;
  uint64_t h = vh::hmix(vh::hmix(vh::hmix(vh::hmix(vh::hmix(13, k.ep.a), k.ep.f), k.lat1), k.lon1), k.azi12);
  for (double s : ss) {
    h = vh::hmix(h, s);
    ref::RhumbDir<Q> rr;
    try { rr = E.R->direct(k.lat1, k.lon1, k.azi12, s); }
    catch (const std::runtime_error& e) { c.herr(std::string("oracle direct (line): ") + e.what()); return; }
    DirOut o = judge_direct(c, cls, E, series, k.lat1, k.lon1, k.azi12, s, true, rr, &line, "RhumbLine::GenPosition");
    // Position == GenPosition == Rhumb::GenDirect, bit for bit
    double la, lo, S, la2, lo2, la3, lo3, S3;
    line.Position(s, la, lo, S); line.Position(s, la2, lo2);
    rh.GenDirect(k.lat1, k.lon1, k.azi12, s, Rhumb::LATITUDE | Rhumb::LONGITUDE | Rhumb::AREA | Rhumb::LONG_UNROLL, la3, lo3, S3);
    double lw = vh::sentinel(7), t1 = vh::sentinel(8), t2 = vh::sentinel(9);
    line.GenPosition(s, Rhumb::LONGITUDE, t1, lw, t2);
    bool same = vh::same_bits(la, la2) && vh::same_bits(lo, lo2) && vh::same_bits(la3, o.lat2) && vh::same_bits(lo3, o.lon2) && vh::same_bits(S3, o.S12)
      && vh::same_bits(la, o.lat2) && vh::same_bits(S, o.S12) && vh::same_bits(lw, lo);
    if (!same) V(c, "law:C09/line/position-differs-from-direct", cls, J(w0).f("s12", s).f("lat2", la).f("lon2", lo).f("S12", S).f("lat2_direct", la3).f("lon2_direct", lo3).f("S12_direct", S3));
    // wrapped longitude is the unrolled one reduced to [-180,180]
    if (std::isfinite(lo) && std::isfinite(o.lon2)) {
      Q d = ref::remainder((Q)lo - (Q)o.lon2, (Q)360);
      double slack = 2 * ref::ulp_d(std::fabs(k.lon1) + std::fabs(o.lon2) + 360);
      if (!((double)ref::fabs(d) <= slack) || !(std::fabs(lo) <= 180)) V(c, "law:C09/line/wrapped-vs-unrolled-longitude", cls, J(w0).f("s12", s).f("lon2_wrapped", lo).f("lon2_unrolled", o.lon2));
    } else if (std::isfinite(lo) != std::isfinite(o.lon2)) V(c, "law:C09/line/wrapped-vs-unrolled-longitude", cls, J(w0).f("s12", s).f("lon2_wrapped", lo).f("lon2_unrolled", o.lon2));
    P p; p.s = s; p.lat = o.lat2; p.lon = o.lon2; p.S = o.S12; p.r = rr; p.t = direct_tols(E, series, k.lat1, k.lon1, k.azi12, s, rr); p.ok = o.judged_pos && p.t.area_ok;
    pts.push_back(p);
  }
  c.count(cls, h);
  if (c.want_sample(cls)) c.sample(cls, J(w0).i("npoints", n).f("s_first", ss.front()).f("s_last", ss.back()));
  // area additivity along the line: S(1->j) = S(1->i) + S(i->j); the middle term by an independent Direct from point i
  for (size_t i = 0; i + 1 < pts.size(); ++i) {
    size_t j = i + 1;
    if (!(pts[i].ok && pts[j].ok) || std::fabs(pts[i].lat) > 89.9 || std::fabs(pts[j].lat) > 89.9) continue;
    double ds = pts[j].s - pts[i].s, la, lo, Sij;
    rh.GenDirect(pts[i].lat, pts[i].lon, k.azi12, ds, Rhumb::LATITUDE | Rhumb::LONGITUDE | Rhumb::AREA | Rhumb::LONG_UNROLL, la, lo, Sij);
    ref::RhumbDir<Q> rij;
    try { rij = E.R->direct(pts[i].lat, pts[i].lon, k.azi12, ds); } catch (const std::runtime_error& e) { c.herr(std::string("oracle direct (additivity): ") + e.what()); return; }
    DirTol tij = direct_tols(E, series, pts[i].lat, pts[i].lon, k.azi12, ds, rij);
    if (!tij.area_ok || !std::isfinite(Sij)) continue;
    // point i is handed on with its own (tolerated) latitude error and rounded to doubles: to first order both ends of
    // the segment slide along the course by dm, which changes its area by tan(azi) (Q_j/R_j - Q_i/R_i) dm
    double lamij = (double)ref::fabs(rij.lon12) * DEG;
    double Ri = (double)E.R->circle_radius(pts[i].lat), Rj = (double)E.R->circle_radius(rij.lat2);
    double dmi = pts[i].t.tol_m + (double)E.R->rho_at(pts[i].lat) * DEG * ref::ulp_d(pts[i].lat);
    Q Qi = E.R->Qzone(pts[i].lat), Qj = E.R->Qzone(rij.lat2);
    double carry;
    if (rij.psi12 != 0) carry = 2 * lamij / (double)ref::fabs(rij.psi12) * (double)ref::fabs(Qj / Rj - Qi / Ri) * dmi;
    else { Q sn, cs; ref::sincosd<Q>((Q)pts[i].lat, sn, cs); carry = 2 * std::fabs(ds) * (1 + (double)ref::fabs(Qi * sn) / (Ri * Ri)) * dmi; }
    double tol = pts[i].t.tol_S + pts[j].t.tol_S + tij.tol_S + carry;
    double err = std::fabs(pts[j].S - (pts[i].S + Sij));
    c.event("area additivity triples checked");
    c.obs("area additivity S13-(S12+S23) / tolerance [" + otag(md) + "]", err / tol, J(w0).f("s_i", pts[i].s).f("s_j", pts[j].s).f("S_i", pts[i].S).f("S_j", pts[j].S).f("S_ij", Sij));
    if (!(err <= tol)) V(c, "law:C09/line/area-additivity/" + md, cls, J(w0).f("s_i", pts[i].s).f("s_j", pts[j].s).f("S_i", pts[i].S).f("S_j", pts[j].S).f("S_ij", Sij).f("err_m2", err).f("tol_m2", tol));
  }
}

// ---------------------------------------------------------------------------- directed catalogue
static void sec_directed(Ctx& c, uint64_t idx) {
  static const double fs[] = {WGS84_F, 0, 0.01, -0.01, 0.5, -1.0, 0.99, -99.0};
  static const double lats[] = {0, -0.0, 90, -90, 45, -45, 89.999999999999986, -89.999999999999986, 1e-300, 60, -1e-20};
  static const double lons[] = {0, 180, -180, 179.99999999999997, -179.99999999999997, 90, -90, 1e-15, 360, 540};
  const uint64_t nf = 8, nl = 11, nn = 10;
  uint64_t i = idx;
  int kind = i % 2; i /= 2;
  double f = fs[i % nf]; i /= nf;
  EllPick ep; ep.a = WGS84_A; ep.f = f; ep.series = std::fabs(f) <= 0.01; ep.bucket = bucket_of(f);
  if (kind == 0) {
    double lat1 = lats[i % nl]; i /= nl; double lat2 = lats[i % nl]; i /= nl; double lon2 = lons[i % nn]; i /= nn;
    if (i) return;
    inverse_case(c, ep, "directed", lat1, 0, lat2, lon2);
  } else {
    static const double azis[] = {0, -0.0, 90, -90, 180, -180, 45, 135, -135, 1e-10, 89.99999999999999, 179.99999999999997};
    static const double qs[] = {0, -0.0, 1e-9, 1, 0.5, 1, 1.0000000000000002, 0.99999999999999989, 1.5, 2, 3, 4, -1, -2.5};   // multiples of the quarter meridian (idx>=4)
    double lat1 = lats[i % nl]; i /= nl; double azi = azis[i % 12]; i /= 12; uint64_t qi = i % 14; i /= 14;
    if (i) return;
    EllObj& E = ell(ep.a, ep.f, ep.series);
    DirCase k; k.ep = ep; k.lat1 = lat1; k.lon1 = (idx % 3 == 0) ? 0 : (idx % 3 == 1 ? 179.5 : -720.25); k.azi12 = azi;
    k.s12 = qi < 4 ? qs[qi] : qs[qi] * E.Qm; k.unroll = idx & 4; k.regime = "directed";
    direct_case(c, k);
  }
}
static const uint64_t N_DIRECTED = 2 * 8 * 11 * 12 * 14;

// ---------------------------------------------------------------------------- EllipsoidArea and oracle self-validation
static void sec_ellipsoid(Ctx& c, uint64_t) {
  EllPick ep = pick_ell(c.rng);
  if (c.rng.coin(0.5)) { ep.f = 1 - std::exp(c.rng.uniform(std::log(0.01), std::log(100.0))); ep.series = std::fabs(ep.f) <= 0.01; ep.bucket = bucket_of(ep.f); ep.a = c.rng.logu(1e-3, 1e9); }
  EllObj& E = ell(ep.a, ep.f, ep.series);
  std::string cls = "ellipsoid-area/" + ep.bucket;
  c.count(cls, vh::hmix(vh::hmix(14, ep.a), ep.f));
  if (c.want_sample(cls)) c.sample(cls, J().f("a", ep.a).f("f", ep.f));
  Q A = E.R->ellipsoid_area();
  for (int m = 0; m < (ep.series ? 2 : 1); ++m) {
    const Rhumb& rh = m ? *E.ser : *E.exa;
    double got = rh.EllipsoidArea(), e = (double)(ref::fabs((Q)got - A) / A) / EPS;
    c.obs(std::string("EllipsoidArea relative error [eps] ") + (m ? "series" : "exact"), e, J().f("a", ep.a).f("f", ep.f).f("got", got));
    if (!(e <= ktrunc(E, m) * K_AREA)) V(c, std::string("oracle:C09/EllipsoidArea/") + (m ? "series" : "exact"), cls, J().f("a", ep.a).f("f", ep.f).f("got", got).str("ref", jq(A)).f("err_eps", e));
    if (!(rh.EquatorialRadius() == ep.a && rh.Flattening() == ep.f)) V(c, "law:C09/inspectors", cls, J().f("a", ep.a).f("f", ep.f));
  }
}

// the oracle against independent formulations of the same quantities (a failure is a harness error, never a verdict)
static void sec_selftest(Ctx& c, uint64_t idx) {
  static const double fs[] = {0, WGS84_F, -WGS84_F, 0.01, -0.01, 0.5, -1.0, 0.9, -9.0, 0.99, -99.0};
  double f = fs[idx % 11], a = idx < 11 ? WGS84_A : 1.0;
  vh::Rng& r = c.rng;
  ref::RhumbRef<Q> R(a, f); ref::RhumbRef<long double> L(a, f);
  c.count("oracle-selftest", vh::hmix(vh::hmix(15, a), f), true);
  auto fail = [&](const std::string& what, double v) { char b[64]; std::snprintf(b, sizeof b, "%.3g", v); c.herr("oracle selftest failed: " + what + " f=" + std::to_string(f) + " residual=" + b); };
  try {
    // 1. quarter meridian: arc length of the meridian ellipse in the parametric latitude, uniform fine panels
    {
      Q b = R.b, aa = R.a;
      Q qm = ref::integrate<Q>([aa, b](Q t) { Q s = sinq(t), cc = cosq(t); return sqrtq(aa * aa * s * s + b * b * cc * cc); }, (Q)0, M_PIq / 2, (Q)(f > 0.95 || f < -50 ? 0.001 : 0.01), 24);
      double e = (double)(ref::fabs(qm - R.Qm) / R.Qm);
      c.obs("selftest: quarter meridian, two parametrisations, relative difference", e);
      if (!(e < 1e-28)) fail("quarter meridian", e);
    }
    // 2. Q(phi) closed form against int rho R dphi, and the ellipsoid area against the zone integral
    for (int k = 0; k < 4; ++k) {
      double lat = k == 0 ? 90 : r.uniform(-90, 90);
      Q o[1]; R.template quadv<1>((Q)0, (Q)lat, false, [&](Q sn, Q cs, Q* v) { Q w = R.wfun(sn, cs); v[0] = R.a * R.e2m / (w * sqrtq(w)) * R.a * cs / sqrtq(w); }, o);
      double e = (double)(ref::fabs(o[0] - R.Qzone(lat)) / R.c2);
      c.obs("selftest: zone area closed form vs quadrature, relative difference", e);
      if (!(e < 1e-27)) fail("zone area", e);
    }
    // 3. long double and float128 instances agree to long double round-off; oracle direct(inverse) closes
    for (int k = 0; k < 12; ++k) {
      std::string d; double lat1 = pick_lat(r, d, false), lat2 = pick_lat(r, d, false), lon1 = r.uniform(-180, 180), lon2 = r.uniform(-180, 180);
      if (k % 3 == 0) lat2 = clamp_lat(lat1 + r.sign() * r.logu(1e-15, 1e-3));
      auto iq = R.inverse(lat1, lon1, lat2, lon2); auto il = L.inverse(lat1, lon1, lat2, lon2);
      double scale = (double)R.Qm;
      double e1 = (double)ref::fabs(iq.s12 - (Q)il.s12) / ((double)iq.s12 + 1e-3 * scale), e2 = (double)ref::fabs(iq.azi12 - (Q)il.azi12) * DEG * (double)iq.s12 / ((double)iq.s12 + 1e-3 * scale),
        e3 = (double)ref::fabs(iq.S12 - (Q)il.S12) / ((double)R.c2 * ((double)ref::fabs(iq.lon12) * DEG + 1e-3));
      double e = std::max(e1, std::max(e2, e3));
      c.obs("selftest: float128 vs long double oracle, relative difference", e, J().f("f", f).f("lat1", lat1).f("lon1", lon1).f("lat2", lat2).f("lon2", lon2).f("e_s12", e1).f("e_azi", e2).f("e_S12", e3));
      if (!(e < 2e-17)) fail("q128 vs long double inverse", e);
      if (lat1 != lat2) {
        auto dq = R.direct((Q)lat1, (Q)lon1, iq.azi12, iq.s12);
        bool nearpole = std::fabs(lat2) > 89.9 || std::fabs(lat1) > 89.9;
        if (!(nearpole && (dq.crossed || dq.at_pole))) {
          Q R2 = R.circle_radius(lat2);
          double cond = 1 + (double)(ref::fabs(iq.lon12) * DEGQ * ref::fabs(1 / iq.psi12 - R2 / iq.dm));
          double ec = (double)(ref::hypot(R.merid(dq.lat2) - R.merid(lat2), R2 * (dq.lon12 - iq.lon12) * DEGQ) / R.Qm) / cond;
          c.obs("selftest: oracle direct(inverse) closure / quarter meridian / cond", ec);
          if (!(ec < 1e-26)) fail("oracle direct(inverse) closure", ec);
          if (!nearpole) {
            double eS = (double)(ref::fabs(dq.S12 - iq.S12) / (R.c2 * (ref::fabs(iq.lon12) * DEGQ + 1e-3))) / cond;
            c.obs("selftest: oracle direct(inverse) area closure, relative / cond", eS);
            if (!(eS < 1e-24)) fail("oracle direct(inverse) area closure", eS);
          }
        }
      }
    }
    // 4. sphere: closed-form loxodrome
    if (f == 0) for (int k = 0; k < 8; ++k) {
      double lat1 = r.uniform(-89, 89), lat2 = r.uniform(-89, 89), lon12 = r.uniform(-179, 179);
      auto iq = R.inverse(lat1, 0, lat2, lon12);
      Q p1 = lat1 * DEGQ, p2 = lat2 * DEGQ, psi12 = asinhq(tanq(p2)) - asinhq(tanq(p1)), lam = lon12 * DEGQ;
      Q az = atan2q(lam, psi12), s = a * ref::fabs(p2 - p1) / ref::fabs(cosq(az));
      Q S = a * a * lam * (logq(cosq(p1) / cosq(p2))) / psi12;
      double e = (double)std::max(ref::fabs(s - iq.s12) / s, std::max(ref::fabs(az / DEGQ - iq.azi12), ref::fabs(S - iq.S12) / (a * a)));
      c.obs("selftest: sphere closed form, relative difference", e);
      if (!(e < 1e-27)) fail("sphere closed form", e);
    }
  } catch (const std::runtime_error& e) { c.herr(std::string("oracle selftest threw: ") + e.what()); }
}

int main(int argc, char** argv) {
  std::vector<Section> S;
  S.push_back({"selftest", 22, 22, false, sec_selftest, 120});
  S.push_back({"directed", N_DIRECTED, N_DIRECTED, false, sec_directed, 60});
  S.push_back({"inverse", 32000, 1600000, true, sec_inverse, 60});
  S.push_back({"direct", 32000, 1600000, true, sec_direct, 60});
  S.push_back({"line", 8000, 400000, true, sec_line, 60});
  S.push_back({"ellipsoid", 400, 8000, true, sec_ellipsoid, 60});
  return vh::run_sections(argc, argv, S);
}
