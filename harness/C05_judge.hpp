// C05 — monitors shared by harness/C05.cpp and the libFuzzer target fuzz/C05_mgrs_reverse.cpp.
// Library wrappers (exception + sentinel monitors) and the two oracle monitors
//   judge_rev : MGRS::Reverse of an arbitrary byte string against ref::mgrs::decode (accept <=> REF accepts; same zone,
//               hemisphere, precision; centre / SW corner of the same square; Forward(Reverse(s)) == canonical s apart from
//               the band letter; grid-zone-only strings give a point inside the grid zone)
//   judge_dec : MGRS::Decode against the documented grammar
// templated on a Sink with viol(key, cls, J), obs(name, v, J), event(name) (vh::Ctx satisfies it).  The geometry oracle
// (ref::mgrs::Geo) is optional (nullptr in the clang fuzz build, where only the block table is available).
#pragma once
#include <GeographicLib/MGRS.hpp>
#include <GeographicLib/UTMUPS.hpp>
#include <typeinfo>
#include "harness/common.hpp"
#include "oracle/ref_mgrs.hpp"

namespace c05 {
namespace rm = ref::mgrs;
using vh::J;
typedef __float128 Q;
static const int INT_SENT = 0x5a5a5a5a;
static const double NEIGHBOUR_NM = 5.0;        // property: neighbouring band letter only within 5 nm of a band edge
static const double TOL_HIPREC_ULP = 2.0;      // prec 6..11: "accurate to round-off"

inline std::string hexs(const std::string& s) { std::string o; char b[4]; for (unsigned char c : s) { std::snprintf(b, sizeof b, "%02x", c); o += b; } return o; }
inline std::string hexd(double x) { char b[48]; std::snprintf(b, sizeof b, "%a", x); return b; }
inline double ulp_d(double x) { x = std::fabs(x); double n = std::nextafter(x, INFINITY); return n - x; }
inline const char* fwd_sentinel() { return "\x7f<unwritten>"; }

#ifdef REF_MGRS_NO_GEOMETRY
struct GeoStub {};
typedef GeoStub GeoT;
#else
typedef rm::Geo GeoT;
#endif

// ------------------------------------------------------------------ library wrappers
struct LF { int st = 0; std::string s, what; bool touched = false; };      // st: 0 returned, 1 GeographicErr, 2 foreign exception
template <class F> inline LF guarded_fwd(F&& f) {
  LF r; r.s = fwd_sentinel();
  try { f(r.s); }
  catch (const GeographicLib::GeographicErr& e) { r.st = 1; r.what = e.what(); }
  catch (const std::bad_alloc&) { throw; }
  catch (const std::exception& e) { r.st = 2; r.what = std::string(typeid(e).name()) + ": " + e.what(); }
  catch (...) { r.st = 2; r.what = "non-std exception"; }
  if (r.st) r.touched = r.s != fwd_sentinel();
  return r;
}
inline LF lib_fwd(int zone, bool northp, double x, double y, int prec) {
  return guarded_fwd([&](std::string& s) { GeographicLib::MGRS::Forward(zone, northp, x, y, prec, s); }); }
inline LF lib_fwd_lat(int zone, bool northp, double x, double y, double lat, int prec) {
  return guarded_fwd([&](std::string& s) { GeographicLib::MGRS::Forward(zone, northp, x, y, lat, prec, s); }); }

struct LR { int st = 0; int zone = 0; bool northp = false; double x = 0, y = 0; int prec = 0; std::string what; bool touched = false; };
inline LR lib_rev1(const std::string& s, bool centerp, bool northpre) {
  LR r; r.zone = INT_SENT; r.prec = INT_SENT; r.x = vh::sentinel(1); r.y = vh::sentinel(2); r.northp = northpre;
  try { GeographicLib::MGRS::Reverse(s, r.zone, r.northp, r.x, r.y, r.prec, centerp); }
  catch (const GeographicLib::GeographicErr& e) { r.st = 1; r.what = e.what(); }
  catch (const std::bad_alloc&) { throw; }
  catch (const std::exception& e) { r.st = 2; r.what = std::string(typeid(e).name()) + ": " + e.what(); }
  catch (...) { r.st = 2; r.what = "non-std exception"; }
  if (r.st) r.touched = !(r.zone == INT_SENT && r.prec == INT_SENT && vh::is_sentinel(r.x, 1) && vh::is_sentinel(r.y, 2) && r.northp == northpre);
  return r;
}
inline LR lib_rev(const std::string& s, bool centerp) {
  LR r = lib_rev1(s, centerp, false);
  if (r.st) { LR r2 = lib_rev1(s, centerp, true); r.touched = r.touched || r2.touched || r2.st != r.st; }   // bool output: both pre-values
  return r;
}

// ------------------------------------------------------------------ helpers
inline J jstr(const std::string& s) { return J().str("mgrs", s).str("mgrs_hex", hexs(s)); }
// component of an MGRS string in which two strings first differ
inline const char* diff_component(const std::string& got, const std::string& want, bool utm) {
  if (got.size() != want.size()) return "length";
  size_t z = utm ? 2 : 0;
  for (size_t i = 0; i < got.size(); ++i) if (got[i] != want[i]) {
    if (i < z) return "zone-digits";
    if (i == z) return "band-letter";
    if (i == z + 1) return "column-letter";
    if (i == z + 2) return "row-letter";
    return "digits";
  }
  return "none";
}

// expected band letter behaviour for the library's Forward WITHOUT latitude at the point (x, y) [already a legal MGRS
// coordinate; northp as given by the caller]: the band of the reference latitude; the neighbour within 5 nm
struct BandExp { int band = 0, other = rm::NONE; double edge_m = 1e30; bool have = false; long double lat = NAN; double slack_nm = 0;
  bool neighbour_ok(int got) const { return got == other && edge_m * 1e9 <= NEIGHBOUR_NM + slack_nm; } };
#ifndef REF_MGRS_NO_GEOMETRY
inline BandExp band_expect(GeoT& g, const rm::Pt& p, bool northp_in, double x, double y) {
  BandExp b; b.have = true;
  if (!p.utm) return b;
  if (p.xedge) b.slack_nm = 0.6;
  Q e = (Q)x - 500000, yt = northp_in ? (Q)y : (Q)y - 10000000;
  // an easting on the closed upper edge is documented to be moved down by ~4 nm: the band decision uses the unmoved
  // point; the move changes the distance to a band-edge parallel by < 0.6 nm (slope of the parallels <= 0.14)
  if (p.yedge && !p.northp) { b.band = -1; b.other = 0; b.edge_m = 4e-9; return b; }    // southern 10 000 km: documented to stay in M
  rm::BandInfo bi = g.band_of(e, yt);
  b.band = bi.band; b.other = bi.other; b.edge_m = bi.edge_m; b.lat = bi.lat;
  return b;
}
#endif

// ------------------------------------------------------------------ Reverse monitor
struct RevOut { rm::Dec d; LR r1, r0; bool judged = false; };

template <class S> RevOut judge_rev(S& k, const std::string& s, const rm::Legal& L, GeoT* g, const std::string& cls) {
  RevOut o; o.d = rm::decode(s, L);
  const rm::Dec& d = o.d;
  o.r1 = lib_rev(s, true); o.r0 = lib_rev(s, false);
  const LR &r1 = o.r1, &r0 = o.r0;
  for (const LR* r : {&r1, &r0}) {
    if (r->st == 2) k.viol("exception:C05/reverse/foreign-exception", cls, jstr(s).str("what", r->what));
    if (r->st && r->touched) k.viol("sentinel:C05/reverse/output-written-on-throw", cls, jstr(s).str("what", r->what));
  }
  if ((r1.st == 0) != (r0.st == 0)) { k.viol("law:C05/reverse/centerp-changes-acceptance", cls, jstr(s)); return o; }
  bool acc = r1.st == 0;
  if (d.st == rm::Dec::INVMARK) {
    if (!acc) { k.viol("oracle:C05/reverse/INV-marker-rejected", cls, jstr(s).str("what", r1.what)); return o; }
    for (const LR* r : {&r1, &r0})
      if (!(r->zone == GeographicLib::UTMUPS::INVALID && std::isnan(r->x) && std::isnan(r->y) && r->prec == -2 && r->northp == false))
        k.viol("oracle:C05/reverse/INV-marker-outputs", cls, jstr(s).i("zone", r->zone).f("x", r->x).f("y", r->y).i("prec", r->prec));
    o.judged = true; return o;
  }
  if (d.st == rm::Dec::INVALID) {
    if (acc) k.viol("oracle:C05/reverse/accepted-but-ref-rejects/" + d.reason, cls, jstr(s).i("zone", r1.zone).b("northp", r1.northp).f("x", r1.x).f("y", r1.y).i("prec", r1.prec));
    o.judged = true; return o;
  }
  if (d.unjudged) { k.event("reverse: block within 1e-6 m of a band edge (reported, not judged)"); return o; }
  if (!acc) {
    k.viol(std::string("oracle:C05/reverse/rejected-but-ref-accepts") + (d.utm && d.prec >= 0 ? "/utm-block" : d.prec >= 0 ? "/ups-block" : "/gridzone"), cls,
           jstr(s).str("what", r1.what).str("canonical", d.canon));
    o.judged = true; return o;
  }
  o.judged = true;
  // ---- accepted by both: zone, hemisphere, precision
  for (const LR* r : {&r1, &r0}) {
    if (r->zone != (d.utm ? d.zone : 0)) k.viol("oracle:C05/reverse/zone", cls, jstr(s).i("got", r->zone).i("want", d.zone));
    if (r->northp != d.northp) k.viol("oracle:C05/reverse/hemisphere", cls, jstr(s).b("got", r->northp).b("want", d.northp));
    if (r->prec != d.prec) k.viol("oracle:C05/reverse/prec", cls, jstr(s).i("got", r->prec).i("want", d.prec));
  }
  if (r1.zone != (d.utm ? d.zone : 0) || r1.northp != d.northp || r1.prec != d.prec) return o;
  if (d.prec == -1) {
    // grid zone only: centerp ignored; an (essentially arbitrary) point inside the grid zone
    if (!(r1.x == r0.x && r1.y == r0.y)) k.viol("law:C05/reverse/gridzone-centerp-not-ignored", cls, jstr(s));
    rm::Pt p = rm::normalize(r1.zone, r1.northp, r1.x, r1.y);
    if (!p.legal || p.folded) { k.viol("oracle:C05/gridzone/point-not-a-legal-coordinate-of-that-hemisphere", cls, jstr(s).f("x", r1.x).f("y", r1.y)); return o; }
    LF f = lib_fwd(r1.zone, r1.northp, r1.x, r1.y, -1);
    if (f.st || f.s != d.canon) k.viol("law:C05/gridzone/forward-of-reverse-differs", cls, jstr(s).str("forward", f.s).str("what", f.what).str("want", d.canon));
#ifndef REF_MGRS_NO_GEOMETRY
    if (g) {
      bool ok; J w = jstr(s).f("x", r1.x).f("y", r1.y);
      if (d.utm) {
        rm::LD lat, dl; g->latlon_ld((rm::LD)r1.x - 500000, r1.northp ? (rm::LD)r1.y : (rm::LD)r1.y - 10000000, lat, dl);
        rm::LD lo = 8 * d.band, hi = d.band == 9 ? 84 : 8 * d.band + 8, wlo = -3, whi = 3;
        bool nonexist = false;
        if (d.band == 7 && d.zone == 31) whi = 0;                                  // 31V is 0E..3E, 32V is 3E..12E
        if (d.band == 7 && d.zone == 32) wlo = -6;
        if (d.band == 9) {                                                          // Svalbard: 31X 0..9, 33X 9..21, 35X 21..33, 37X 33..42
          if (d.zone == 31) whi = 6; else if (d.zone == 33 || d.zone == 35) { wlo = -6; whi = 6; } else if (d.zone == 37) wlo = -6;
          else if (d.zone == 32 || d.zone == 34 || d.zone == 36) nonexist = true;
        }
        if (nonexist) k.event("gridzone: 32X/34X/36X (not part of the grid) accepted; judged against the nominal 6 deg zone");
        ok = lat >= lo && lat < hi && dl >= wlo && dl < whi;
        w.f("lat", (double)lat).f("dlon", (double)dl);
      } else {
        rm::LD lat, lon; g->ups_reverse(d.northp, r1.x, r1.y, lat, lon);
        ok = lat >= (d.northp ? 84 : 80) && ((d.band & 1) ? lon >= 0 : lon < 0);
        w.f("lat_toward_pole", (double)lat).f("lon", (double)lon);
      }
      if (!ok) k.viol("oracle:C05/gridzone/point-outside-gridzone", cls, w);
      k.event("gridzone: point checked against the reference latitude/longitude");
    }
#endif
    return o;
  }
  // ---- centre and SW corner of the same square
  const int p = d.prec;
  struct Ax { const char* n; double c1, c0; rm::i64 N; } ax[2] = {{"x", r1.x, r0.x, d.nx}, {"y", r1.y, r0.y, d.ny}};
  bool centre_ok = true;
  for (const Ax& a : ax) {
    Q ce = rm::centre_m(a.N, p), co = rm::corner_m(a.N, p);
    if (p <= 5) {
      if (!((Q)a.c1 == ce)) { centre_ok = false; k.viol("oracle:C05/reverse/centre", cls, jstr(s).str("axis", a.n).f("got", a.c1).f("want", (double)ce)); }
      if (!((Q)a.c0 == co)) k.viol("oracle:C05/reverse/corner", cls, jstr(s).str("axis", a.n).f("got", a.c0).f("want", (double)co));
    } else {
      double e1 = (double)(((Q)a.c1 - ce) < 0 ? ce - (Q)a.c1 : (Q)a.c1 - ce) / ulp_d((double)ce);
      double e0 = (double)(((Q)a.c0 - co) < 0 ? co - (Q)a.c0 : (Q)a.c0 - co) / ulp_d((double)co);
      k.obs("reverse prec 6..11: |centre - exact centre| [ulp]", e1, jstr(s));
      k.obs("reverse prec 6..11: |corner - exact corner| [ulp]", e0, jstr(s));
      if (!(e1 <= TOL_HIPREC_ULP)) { centre_ok = false; k.viol("oracle:C05/reverse/centre-hiprec", cls, jstr(s).str("axis", a.n).f("got", a.c1).f("want", (double)ce).f("err_ulp", e1)); }
      if (!(e0 <= TOL_HIPREC_ULP)) k.viol("oracle:C05/reverse/corner-hiprec", cls, jstr(s).str("axis", a.n).f("got", a.c0).f("want", (double)co).f("err_ulp", e0));
      if (!rm::inside_square(a.c1, a.N, p)) { centre_ok = false; k.viol("oracle:C05/reverse/centre-outside-square", cls, jstr(s).str("axis", a.n).f("got", a.c1)); }
    }
  }
  if (!centre_ok) return o;
  // ---- Forward(Reverse(s)) == canonical s apart from the band letter, which is that of the centre
  LF f = lib_fwd(r1.zone, r1.northp, r1.x, r1.y, p);
  if (f.st) { k.viol("law:C05/roundtrip/forward-of-reverse-rejected", cls, jstr(s).f("x", r1.x).f("y", r1.y).str("what", f.what)); return o; }
  std::string want = d.canon;
  size_t bpos = d.utm ? 2 : 0;
  if (f.s.size() != want.size()) { k.viol("law:C05/roundtrip/forward-of-reverse-differs/length", cls, jstr(s).str("forward", f.s)); return o; }
  std::string f2 = f.s; f2[bpos] = want[bpos];
  if (f2 != want) { k.viol(std::string("law:C05/roundtrip/forward-of-reverse-differs/") + diff_component(f2, want, d.utm), cls, jstr(s).str("forward", f.s).str("want", want)); return o; }
  if (d.utm) {
    int gb = rm::utm_band_index(f.s[bpos]);
    if (gb == rm::NONE || L.in(gb, d.col, d.truerow) == 0)
      k.viol("law:C05/roundtrip/band-letter-not-of-the-block", cls, jstr(s).str("forward", f.s));
    if (gb != d.band) k.event("roundtrip: band letter replaced by that of the centre");
#ifndef REF_MGRS_NO_GEOMETRY
    if (g && gb != rm::NONE) {
      rm::Pt pt = rm::normalize(r1.zone, r1.northp, r1.x, r1.y);
      BandExp be = band_expect(*g, pt, r1.northp, r1.x, r1.y);
      if (gb != be.band) {
        double nm = be.edge_m * 1e9;
        if (be.neighbour_ok(gb)) { k.event("roundtrip: neighbouring band letter within 5 nm of the edge"); k.obs("neighbour band letter given at distance from band edge [nm]", nm, jstr(s)); }
        else k.viol("law:C05/roundtrip/band-letter-not-that-of-the-centre", cls, jstr(s).str("forward", f.s).i("ref_band", be.band).f("edge_dist_nm", nm));
      }
    }
#endif
  } else if (f.s[bpos] != want[bpos]) k.viol("law:C05/roundtrip/ups-band-letter", cls, jstr(s).str("forward", f.s));
  (void)g;
  return o;
}

// ------------------------------------------------------------------ Decode monitor
template <class S> void judge_dec(S& k, const std::string& s, const std::string& cls) {
  std::string gz = "\x7f<gz>", bl = "\x7f<bl>", ea = "\x7f<ea>", no = "\x7f<no>", what; int st = 0;
  try { GeographicLib::MGRS::Decode(s, gz, bl, ea, no); }
  catch (const GeographicLib::GeographicErr& e) { st = 1; what = e.what(); }
  catch (const std::bad_alloc&) { throw; }
  catch (const std::exception& e) { st = 2; what = std::string(typeid(e).name()) + ": " + e.what(); }
  catch (...) { st = 2; what = "non-std exception"; }
  rm::Split r = rm::split(s);
  if (st == 2) k.viol("exception:C05/decode/foreign-exception", cls, jstr(s).str("what", what));
  if (st && !(gz == "\x7f<gz>" && bl == "\x7f<bl>" && ea == "\x7f<ea>" && no == "\x7f<no>")) k.viol("sentinel:C05/decode/output-written-on-throw", cls, jstr(s));
  if (st == 0 && !r.ok) k.viol("oracle:C05/decode/accepted-but-grammar-rejects", cls, jstr(s).str("gridzone", gz).str("block", bl).str("easting", ea).str("northing", no));
  if (st == 1 && r.ok) k.viol("oracle:C05/decode/rejected-but-grammar-accepts", cls, jstr(s).str("what", what));
  if (st == 0 && r.ok && !(gz == r.gridzone && bl == r.block && ea == r.easting && no == r.northing))
    k.viol("oracle:C05/decode/components", cls, jstr(s).str("gridzone", gz).str("block", bl).str("easting", ea).str("northing", no));
}

}  // namespace c05
