// C03 — reduced length m12, geodesic scales M12/M21 and area S12 of Geodesic / GeodesicExact / Geodesic(exact=true)
// through the direct, inverse and line interfaces.
//   oracle monitors : float128 reference geodesic (oracle/ref_geod.hpp; J-integral form of m12/M12/M21, area integral form
//                     of S12) next to every call; for the inverse interface both the truth of REF-constructed pairs and the
//                     self-consistency of the returned (azi1, s12) with the returned m12/M12/M21/S12;
//   law monitors    : reversal, the six addition rules of Geodesic.hpp at split points, closure of geodesic polygons
//                     (sum of S12 = contour integral of the area 1-form Q(phi) dlambda along REF geodesic sides evaluated from
//                     the definition), EllipsoidArea() = 4 pi c2;  overloads / output masks give the same bits as Gen*;
//   selftest        : REF m12/M12/M21 against the Jacobi ODE and against the verbal definitions (finite differences of REF end
//                     points), REF S12 against int Q dlambda by direct quadrature and against the ODE (never a library verdict).
// Error measures are the author's (develop/GeodTest.cpp): |dm12| [m]; |dS12|/a [m] after removing c2 * (azimuth error); the
// geodesic scales (not judged by the author) as |dM| * b [m].  Tolerance = documented accuracy(f) * K * max(1, length / half circuit).
#include "harness/geod_common.hpp"
#include "oracle/ref_exact.hpp"
#include "oracle/ref_geodarea.hpp"

using namespace GeographicLib;
using vh::Ctx; using vh::J; using vh::Section;
using gh::q128;
static const double K_SERIES = 2.0, K_EXACT = 4.0, K_EXACT_EXTREME = 8.0;
static const double DEG = M_PI / 180;

struct Case { gh::EllSpec e; double lat1, lon1, azi1, len; bool arcmode; std::string cls; };

// ---------------------------------------------------------------- generators (as harness/C01.cpp)
static double pick_len(vh::Rng& r, bool arcmode, double b, std::string& cls) {
  double a12;
  switch (r.below(12)) {
  case 0: cls = "zero"; a12 = r.coin() ? 0.0 : -0.0; break;
  case 1: cls = "tiny"; a12 = r.sign() * r.logu(1e-15, 1e-6); break;
  case 2: cls = "short"; a12 = r.sign() * r.logu(1e-6, 1); break;
  case 3: cls = "multiple-of-90"; a12 = 90.0 * r.range(-8, 8); if (!arcmode) a12 = vh::ulps(a12, r.range(-2, 2)); break;
  case 4: cls = "near-half-circuit"; a12 = r.sign() * (180 - r.sign() * r.logu(1e-12, 1)); break;
  case 5: cls = "multi-circuit"; a12 = r.sign() * r.uniform(360, 7200); break;
  case 6: cls = "negative"; a12 = -r.uniform(0, 360); break;
  default: cls = "within-one-circuit"; a12 = r.uniform(0, 360); break;
  }
  return arcmode ? a12 : a12 * DEG * b;
}
static Case gen(vh::Rng& r) {
  Case c; std::string cl, ca, cn;
  c.e = gh::pick_ellipsoid(r);
  c.lat1 = gh::pick_lat(r, cl); c.lon1 = gh::pick_lon(r); c.azi1 = gh::pick_azi(r, ca);
  c.arcmode = r.coin();
  c.len = pick_len(r, c.arcmode, c.e.a * (1 - c.e.f), cn);
  c.cls = c.e.bucket + "/start-" + cl + "/azi-" + ca + "/" + cn + (c.arcmode ? "/arc" : "/dist");
  return c;
}
static const uint64_t NDIRECTED = 10 * 8 * 12 * 15 * 2;
static bool directed(uint64_t i, Case& c) {
  static const double fs[] = {0, gh::WGS84_F, 0.01, -0.01, 0.02, -0.02, 0.1, -0.1, 0.5, -1.0};
  static const double lats[] = {90, -90, 0, -0.0, 45, -30, 89.99999999, -89.999999999999};
  static const double azis[] = {0, -0.0, 90, -90, 180, -180, 45, 135, -135, 1e-10, 90 - 1e-10, 179.9999999999};
  static const double arcs[] = {0, -0.0, 90, -90, 180, -180, 270, 360, -360, 540, 720, 1e-9, 179.999999, 180.000001, 3600.5};
  const uint64_t nf = 10, nl = 8, na = 12, nr = 15;
  if (i >= NDIRECTED) return false;
  c.arcmode = i % 2; i /= 2;
  double arc = arcs[i % nr]; i /= nr; c.azi1 = azis[i % na]; i /= na; c.lat1 = lats[i % nl]; i /= nl;
  c.e.f = fs[i % nf]; c.e.a = gh::WGS84_A; c.e.series_ok = std::fabs(c.e.f) <= 0.2; c.e.bucket = "directed";
  c.lon1 = (i % 3 == 0) ? 0 : (i % 3 == 1 ? 180 : -179.5);
  c.len = c.arcmode ? arc : arc * DEG * c.e.a * (1 - c.e.f);
  char fb[32]; std::snprintf(fb, sizeof fb, "%g", c.e.f);
  c.cls = std::string("directed/f=") + fb + (c.arcmode ? "/arc" : "/dist");
  return true;
}

// ---------------------------------------------------------------- tolerance model
static bool is_series(const char* solver) { return solver[0] == 's'; }
static double ktol(const char* solver, const gh::Solvers& S) {          // K * documented accuracy [m], before length scaling
  double boa = 1 - S.f;
  return is_series(solver) ? K_SERIES * S.tol_series : (boa < 1.0 / 16 || boa > 16 ? K_EXACT_EXTREME : K_EXACT) * S.tol_exact;
}
static double len_scale(const Case& k, const gh::Solvers& S) {
  return k.arcmode ? std::max(1.0, std::fabs(k.len) / 180) : std::max(1.0, std::fabs(k.len) / (M_PI * S.b));
}


// ---- conditioning: the documented accuracy is a *distance* T (position of the end points along the geodesic).  A displacement of
// an end point by T changes the four quantities by (Jacobi-field identities; K = Gaussian curvature = 1/(rho nu) at the end point):
//   d m12/d s2 = M21, d m12/d s1 = -M12;  d M12/d s2 = -(1 - M12 M21)/m12, d M12/d s1 = K1 m12;  d M21/d s1 = (1 - M12 M21)/m12,
//   d M21/d s2 = -K2 m12;  d(S12 - c2 alp2)/d s2 = g2, d(S12 + c2 alp1)/d s1 = -g1 with g = (dlambda/ds) (Q(phi) - c2 sin phi).
// On a sphere all these are <= 1, 1/R, 0: the multipliers below are 1 for near-spherical ellipsoids (WGS84: <= 1.01) and grow only
// for very eccentric ones (Jacobi fields of amplitude >> 1, e.g. |M12| ~ 1e3 on a prolate ellipsoid with b/a = 100).
struct Cond { double m, M12, M21, S; };      // multipliers >= 1 on (T, T/b, T/b, T*a)
static double gauss_K(const gh::Solvers& S, double lat) { double e2 = S.f * (2 - S.f), s = std::sin(lat * DEG), w = 1 - e2 * s * s; return w * w / (S.a * S.a * (1 - e2)); }
static double area_g(const gh::Solvers& S, double lat, double azi) {
  double e2 = S.f * (2 - S.f), c2 = (double)S.E.c2, sphi = std::sin(lat * DEG), cphi = std::cos(lat * DEG);
  if (std::fabs(cphi) < 1e-9) { cphi = 1e-9; sphi = std::copysign(std::sqrt(1 - 1e-18), sphi); }
  double x = e2 == 0 ? sphi : e2 > 0 ? std::atanh(std::sqrt(e2) * sphi) / std::sqrt(e2) : std::atan(std::sqrt(-e2) * sphi) / std::sqrt(-e2);
  double Q = S.b * S.b / 2 * (sphi / (1 - e2 * sphi * sphi) + x), nu = S.a / std::sqrt(1 - e2 * sphi * sphi);
  return std::sin(azi * DEG) / (nu * cphi) * (Q - c2 * sphi);
}
// s12abs = |s12| [m]; Dq = |1 - M12 M21|/|m12| when it is available in float128 (< 0: compute it here in double).  In double the
// quotient is dominated by rounding for short segments, so it is capped by its analytic bound |dM12/ds2| <= Kmax |s12| max|M|.
static Cond conditioning(const gh::Solvers& S, double lat1, double azi1, double lat2, double azi2, double m12, double M12, double M21, double s12abs, double Dq = -1) {
  Cond c; double am = std::fabs(m12), amp = std::max(1.0, std::max(std::fabs(M12), std::fabs(M21)));
  double Kmax = std::max(1 / (S.b * S.b), S.b * S.b / (S.a * S.a * S.a * S.a));
  double D = Dq >= 0 ? Dq : (am > 0 ? std::fabs(1 - M12 * M21) / am : 0);
  D = std::min(D, Kmax * s12abs * amp);
  c.m = amp;
  c.M12 = std::max(1.0, S.b * std::max(D, gauss_K(S, lat1) * am));
  c.M21 = std::max(1.0, S.b * std::max(D, gauss_K(S, lat2) * am));
  c.S = std::max(1.0, std::max(std::fabs(area_g(S, lat1, azi1)), std::fabs(area_g(S, lat2, azi2))) / S.a);
  if (!(std::isfinite(c.m) && std::isfinite(c.M12) && std::isfinite(c.M21) && std::isfinite(c.S))) c = Cond{1, 1, 1, 1};
  return c;
}
static Cond cond_ref(const gh::Solvers& S, double lat1, double azi1, const ref::GeodPos<q128>& P) {
  double Dq = P.m12 != 0 ? (double)(ref::fabs(1 - P.M12 * P.M21) / ref::fabs(P.m12)) : 0;
  return conditioning(S, lat1, azi1, (double)P.lat2, (double)P.azi2, (double)P.m12, (double)P.M12, (double)P.M21, std::fabs((double)P.s12), Dq);
}

struct Lib { double a12, lat2, lon2, azi2, s12, m12, M12, M21, S12; };
static bool finite4(const Lib& o) { return std::isfinite(o.m12) && std::isfinite(o.M12) && std::isfinite(o.M21) && std::isfinite(o.S12) && std::isfinite(o.azi2); }
static double angdiff_deg(double from, double to, double offset = 0) { return (double)std::remainder((long double)std::remainder(to, 360.0) - (long double)std::remainder(from, 360.0) - (long double)offset, 360.0L); }

template <class G> static Lib call_direct(const G& g, double lat1, double lon1, double azi1, bool arcmode, double len, unsigned mask = G::ALL) {
  Lib o; double nan = std::numeric_limits<double>::quiet_NaN(); o = Lib{nan, nan, nan, nan, nan, nan, nan, nan, nan};
  o.a12 = g.GenDirect(lat1, lon1, azi1, arcmode, len, mask, o.lat2, o.lon2, o.azi2, o.s12, o.m12, o.M12, o.M21, o.S12);
  return o;
}
template <class L> static Lib call_line(const L& l, bool arcmode, double len, unsigned mask = L::ALL) {
  Lib o; double nan = std::numeric_limits<double>::quiet_NaN(); o = Lib{nan, nan, nan, nan, nan, nan, nan, nan, nan};
  o.a12 = l.GenPosition(arcmode, len, mask, o.lat2, o.lon2, o.azi2, o.s12, o.m12, o.M12, o.M21, o.S12);
  return o;
}

// compare the four quantities with a REF position.  T = tolerance in metres (author's measures) before conditioning.  dazi1_deg =
// azimuth error at point 1 to be removed from the area (inverse interface only).  which: bit0 m12, bit1 M12/M21, bit2 S12.
static void judge4(Ctx& c, const std::string& cls, const std::string& keybase, const char* solver, const std::string& bucket, double T, const Cond& cd, const gh::Solvers& S,
                   const Lib& o, const ref::GeodPos<q128>& P, q128 dazi1_deg, const J& w, unsigned which = 7) {
  auto bad = [&](const char* what, double err, double tol) {
    c.viol(keybase + solver + "/" + what, cls, J(w).str("solver", solver).f("err_m", err).f("tol_m", tol).f("tol_before_conditioning_m", T).f("m12", o.m12).f("M12", o.M12).f("M21", o.M21).f("S12", o.S12).f("azi2", o.azi2)
           .str("ref_m12", ref::qstr(P.m12, 22)).str("ref_M12", ref::qstr(P.M12, 22)).str("ref_M21", ref::qstr(P.M21, 22)).str("ref_S12", ref::qstr(P.S12, 22)).str("ref_azi2", ref::qstr(P.azi2, 22)));
  };
  bool fin = (!(which & 1) || std::isfinite(o.m12)) && (!(which & 2) || (std::isfinite(o.M12) && std::isfinite(o.M21))) && (!(which & 4) || (std::isfinite(o.S12) && std::isfinite(o.azi2)));
  if (!fin) { bad("non-finite-output", HUGE_VAL, T); return; }
  std::string sv = solver, fam = is_series(solver) ? "series" : "exact";
  double nrm = 1e9 * gh::WGS84_A / S.a * ktol(solver, S) / T;     // -> nm on a WGS84-sized ellipsoid, per unit K and length scale
  bool plain = std::max(std::max(cd.m, cd.S), std::max(cd.M12, cd.M21)) <= 1.05;      // geometry where no conditioning factor applies
  if (which & 1) {
    double e = (double)ref::fabs((q128)o.m12 - P.m12), Tm = T * cd.m;
    c.obs("m12 error / tolerance [" + keybase + sv + "]", e / Tm, J(w).f("err_m", e).f("conditioning", cd.m));
    if (plain) c.obs("m12 error [nm @WGS84 size, /K/len-scale] " + fam + " " + bucket, e * nrm);
    if (e > Tm) bad("m12", e, Tm);
  }
  if (which & 2) {
    double e1 = (double)ref::fabs((q128)o.M12 - P.M12) * S.b, e2 = (double)ref::fabs((q128)o.M21 - P.M21) * S.b;
    c.obs("M12 error*b / tolerance [" + keybase + sv + "]", e1 / (T * cd.M12), J(w).f("err_m", e1).f("conditioning", cd.M12));
    c.obs("M21 error*b / tolerance [" + keybase + sv + "]", e2 / (T * cd.M21), J(w).f("err_m", e2).f("conditioning", cd.M21));
    if (plain) c.obs("M12,M21 error*b [nm @WGS84 size, /K/len-scale] " + fam + " " + bucket, std::max(e1, e2) * nrm);
    if (e1 > T * cd.M12) bad("M12", e1, T * cd.M12);
    if (e2 > T * cd.M21) bad("M21", e2, T * cd.M21);
  }
  if (which & 4) {
    q128 dazi = ref::remainder((q128)o.azi2 - P.azi2, (q128)360) - dazi1_deg;
    q128 rS = (q128)o.S12 - P.S12 - S.E.c2 * dazi * ref::deg<q128>();
    // end point on a pole (or closer to it than 1e-12 a): REF's own (longitude, azimuth) pair is degenerate there and the azimuth
    // difference is only defined modulo 360 deg (+-180 deg ambiguity), i.e. the compensated residual modulo half the ellipsoid area
    if ((double)P.cbet2 < 1e-12 && (double)ref::fabs(rS) > (double)(S.E.area() / 8)) { rS = ref::remainder(rS, S.E.area() / 2); c.event("oracle area residual reduced by a multiple of half the ellipsoid area (end point on a pole: +-180 deg azimuth convention)"); }
    double e = (double)(ref::fabs(rS) / S.E.a), Ts = T * cd.S;
    double eraw = (double)(ref::fabs((q128)o.S12 - P.S12) / S.E.a);
    c.obs("S12 error/a (azimuth-compensated, author's err[6]) / tolerance [" + keybase + sv + "]", e / Ts, J(w).f("err_m", e).f("conditioning", cd.S));
    if ((double)P.cbet2 > 0.1) c.obs("S12 error/a raw, end point > 6 deg from a pole / tolerance [" + keybase + sv + "]", eraw / Ts, J(w).f("err_m", eraw));
    if (plain) c.obs("S12 error/a [nm @WGS84 size, /K/len-scale] " + fam + " " + bucket, e * nrm);
    if (e > Ts) bad("S12", e, Ts);
  }
  c.obs("conditioning multiplier on the m12 tolerance (inverse-truth: incl. the azimuth term) " + fam + " " + bucket, cd.m);
  c.obs("conditioning multiplier on the M12/M21 tolerance (inverse-truth: incl. the azimuth term) " + fam + " " + bucket, std::max(cd.M12, cd.M21));
  c.obs("conditioning multiplier on the S12 tolerance (inverse-truth: incl. the azimuth term) " + fam + " " + bucket, cd.S, w);
}

static J wit(const Case& k) { return J().f("a", k.e.a).f("f", k.e.f).f("lat1", k.lat1).f("lon1", k.lon1).f("azi1", k.azi1).b("arcmode", k.arcmode).f("len", k.len); }
static uint64_t hcase(const Case& k, uint64_t salt) {
  return vh::hmix(vh::hmix(vh::hmix(vh::hmix(vh::hmix(vh::hmix(salt, k.e.a), k.e.f), k.lat1), k.lon1), k.azi1), k.len) ^ (k.arcmode ? 1 : 0);
}
static bool same4(const Lib& x, const Lib& y, unsigned which) {
  return (!(which & 1) || vh::same_bits(x.m12, y.m12)) && (!(which & 2) || (vh::same_bits(x.M12, y.M12) && vh::same_bits(x.M21, y.M21))) && (!(which & 4) || vh::same_bits(x.S12, y.S12));
}

// ---------------------------------------------------------------- direct and line interfaces against REF
template <class G> static void direct_extras(Ctx& c, const Case& k, const char* solver, const G& g, const Lib& full) {
  // (i) the documented overloads return the bits of GenDirect;  (ii) a reduced output mask does not change the values
  J w = wit(k).str("solver", solver);
  Lib o = full; double t;
  if (k.arcmode) g.ArcDirect(k.lat1, k.lon1, k.azi1, k.len, o.lat2, o.lon2, o.azi2, o.s12, o.m12, o.M12, o.M21, o.S12);
  else t = g.Direct(k.lat1, k.lon1, k.azi1, k.len, o.lat2, o.lon2, o.azi2, o.m12, o.M12, o.M21, o.S12);
  (void)t;
  if (!same4(o, full, 7)) c.viol(std::string("law:C03/overload-differs-from-GenDirect/") + solver, k.cls, J(w).f("m12", o.m12).f("m12_gen", full.m12).f("S12", o.S12).f("S12_gen", full.S12));
  Lib p = full;
  if (k.arcmode) { g.ArcDirect(k.lat1, k.lon1, k.azi1, k.len, p.lat2, p.lon2, p.azi2, p.s12, p.m12); g.ArcDirect(k.lat1, k.lon1, k.azi1, k.len, p.lat2, p.lon2, p.azi2, p.s12, p.M12, p.M21); }
  else { g.Direct(k.lat1, k.lon1, k.azi1, k.len, p.lat2, p.lon2, p.azi2, p.m12); g.Direct(k.lat1, k.lon1, k.azi1, k.len, p.lat2, p.lon2, p.azi2, p.M12, p.M21); }
  if (!same4(p, full, 3)) c.viol(std::string("law:C03/overload-differs-from-GenDirect/") + solver, k.cls, J(w).str("overload", "m12-only / M12,M21-only").f("m12", p.m12).f("m12_gen", full.m12).f("M12", p.M12).f("M12_gen", full.M12));
  static const unsigned masks[] = {G::REDUCEDLENGTH, G::GEODESICSCALE, G::AREA, G::REDUCEDLENGTH | G::AREA, G::GEODESICSCALE | G::AREA | G::LONGITUDE};
  for (unsigned m : masks) {
    Lib q = call_direct(g, k.lat1, k.lon1, k.azi1, k.arcmode, k.len, m);
    unsigned which = ((m & G::REDUCEDLENGTH & 0xFF80U) ? 1 : 0) | ((m & G::GEODESICSCALE & 0xFF80U) ? 2 : 0) | ((m & G::AREA & 0xFF80U) ? 4 : 0);
    if (!same4(q, full, which)) c.viol(std::string("law:C03/value-depends-on-output-mask/") + solver, k.cls, J(w).u("mask", m).f("m12", q.m12).f("m12_all", full.m12).f("M12", q.M12).f("M12_all", full.M12).f("S12", q.S12).f("S12_all", full.S12));
  }
  // the line object's Position / ArcPosition overloads return the bits of GenPosition
  {
    auto l = g.Line(k.lat1, k.lon1, k.azi1);
    Lib lg = call_line(l, k.arcmode, k.len), lo = lg;
    if (k.arcmode) l.ArcPosition(k.len, lo.lat2, lo.lon2, lo.azi2, lo.s12, lo.m12, lo.M12, lo.M21, lo.S12);
    else l.Position(k.len, lo.lat2, lo.lon2, lo.azi2, lo.m12, lo.M12, lo.M21, lo.S12);
    if (!same4(lo, lg, 7)) c.viol(std::string("law:C03/overload-differs-from-GenPosition/") + solver, k.cls, J(w).f("m12", lo.m12).f("m12_gen", lg.m12).f("S12", lo.S12).f("S12_gen", lg.S12));
    // ... and so do the overloads that return only m12, or only M12 and M21 (added after seeded change C03-r5s2)
    { Lib p1 = lg, p2 = lg; const double nan = std::numeric_limits<double>::quiet_NaN(); p1.m12 = nan; p2.M12 = p2.M21 = nan;
      if (k.arcmode) { l.ArcPosition(k.len, p1.lat2, p1.lon2, p1.azi2, p1.s12, p1.m12); l.ArcPosition(k.len, p2.lat2, p2.lon2, p2.azi2, p2.s12, p2.M12, p2.M21); }
      else { l.Position(k.len, p1.lat2, p1.lon2, p1.azi2, p1.m12); l.Position(k.len, p2.lat2, p2.lon2, p2.azi2, p2.M12, p2.M21); }
      if (!same4(p1, lg, 1) || !same4(p2, lg, 2)) c.viol(std::string("law:C03/overload-differs-from-GenPosition/") + solver, k.cls, J(w).str("overload", "m12-only / M12,M21-only").f("m12", p1.m12).f("m12_gen", lg.m12).f("M12", p2.M12).f("M12_gen", lg.M12).f("M21", p2.M21).f("M21_gen", lg.M21)); }
    // a line made by GenDirectLine (DirectLine / ArcDirectLine) evaluated at its own end point gives the bits of Line() + GenPosition
    auto l3 = g.GenDirectLine(k.lat1, k.lon1, k.azi1, k.arcmode, k.len);
    Lib l3o = call_line(l3, k.arcmode, k.len);
    if (!same4(l3o, lg, 7)) c.viol(std::string("law:C03/DirectLine-differs-from-Line/") + solver, k.cls, J(w).f("m12", l3o.m12).f("m12_line", lg.m12).f("S12", l3o.S12).f("S12_line", lg.S12));
  }
  c.event("overload / mask identity checks");
}

static void run_case(Ctx& c, const Case& k, bool trivial) {
  c.count(k.cls, hcase(k, 7), trivial);
  if (c.want_sample(k.cls)) c.sample(k.cls, wit(k));
  gh::Solvers& S = gh::solvers(k.e.a, k.e.f, k.e.series_ok);
  ref::GeodLine<q128> L(S.E, (q128)k.lat1, (q128)k.azi1, std::signbit(k.azi1));
  ref::GeodPos<q128> P = k.arcmode ? L.at_arc((q128)k.len) : L.at_dist((q128)k.len);
  double sc = len_scale(k, S);
  J w = wit(k);
  Cond cd = cond_ref(S, k.lat1, k.azi1, P);
  bool extras = c.rng.below(8) == 0;
  const std::string kb = "oracle:C03/direct/";
  if (k.e.series_ok) {
    Lib o = call_direct(*S.series, k.lat1, k.lon1, k.azi1, k.arcmode, k.len);
    judge4(c, k.cls, kb, "series", k.e.bucket, ktol("series", S) * sc, cd, S, o, P, 0, w);
    GeodesicLine l = S.series->Line(k.lat1, k.lon1, k.azi1);
    judge4(c, k.cls, kb, "series-line", k.e.bucket, ktol("series", S) * sc, cd, S, call_line(l, k.arcmode, k.len), P, 0, w);
    c.event("series solver results judged (direct + line)", 2);
    if (extras) direct_extras(c, k, "series", *S.series, o);
  }
  Lib oe = call_direct(*S.exact, k.lat1, k.lon1, k.azi1, k.arcmode, k.len);
  judge4(c, k.cls, kb, "exact", k.e.bucket, ktol("exact", S) * sc, cd, S, oe, P, 0, w);
  Lib od = call_direct(*S.delegating, k.lat1, k.lon1, k.azi1, k.arcmode, k.len);
  judge4(c, k.cls, kb, "exact-delegating", k.e.bucket, ktol("exact", S) * sc, cd, S, od, P, 0, w);
  GeodesicLineExact le = S.exact->Line(k.lat1, k.lon1, k.azi1);
  judge4(c, k.cls, kb, "exact-line", k.e.bucket, ktol("exact", S) * sc, cd, S, call_line(le, k.arcmode, k.len), P, 0, w);
  GeodesicLine ld = S.delegating->Line(k.lat1, k.lon1, k.azi1);
  judge4(c, k.cls, kb, "exact-delegating-line", k.e.bucket, ktol("exact", S) * sc, cd, S, call_line(ld, k.arcmode, k.len), P, 0, w);
  c.event("exact solver results judged (direct + line)", 4);
  if (extras) { direct_extras(c, k, "exact", *S.exact, oe); direct_extras(c, k, "exact-delegating", *S.delegating, od); }
}
static void sec_directed(Ctx& c, uint64_t i) {
  // quick tier: every 6th row of the catalogue (offset by the seed so that five seeds cover 5/6 of it); thorough: all rows
  uint64_t row = c.quick() ? i * 6 + c.seed % 6 : i;
  Case k; if (directed(row, k)) run_case(c, k, false);
}
static void sec_random(Ctx& c, uint64_t) { Case k = gen(c.rng); run_case(c, k, false); }

// several positions on one precomputed line (distance and arc mode mixed)
static void sec_line(Ctx& c, uint64_t) {
  Case k = gen(c.rng); k.cls = "line-walk/" + k.e.bucket;
  gh::Solvers& S = gh::solvers(k.e.a, k.e.f, k.e.series_ok);
  ref::GeodLine<q128> L(S.E, (q128)k.lat1, (q128)k.azi1, std::signbit(k.azi1));
  GeodesicLineExact le = S.exact->Line(k.lat1, k.lon1, k.azi1);
  std::unique_ptr<GeodesicLine> ls; if (k.e.series_ok) ls.reset(new GeodesicLine(S.series->Line(k.lat1, k.lon1, k.azi1)));
  c.count(k.cls, vh::hmix(vh::hmix(vh::hmix(11, k.e.f), k.lat1), k.azi1));
  for (int j = 0; j < 4; ++j) {
    Case kk = k; std::string cn; kk.arcmode = j & 1; kk.len = pick_len(c.rng, kk.arcmode, S.b, cn);
    ref::GeodPos<q128> P = kk.arcmode ? L.at_arc((q128)kk.len) : L.at_dist((q128)kk.len);
    double sc = len_scale(kk, S); J w = wit(kk); Cond cd = cond_ref(S, kk.lat1, kk.azi1, P);
    judge4(c, k.cls, "oracle:C03/direct/", "exact-line", k.e.bucket, ktol("exact", S) * sc, cd, S, call_line(le, kk.arcmode, kk.len), P, 0, w);
    if (ls) judge4(c, k.cls, "oracle:C03/direct/", "series-line", k.e.bucket, ktol("series", S) * sc, cd, S, call_line(*ls, kk.arcmode, kk.len), P, 0, w);
    c.event("line positions judged", ls ? 2 : 1);
  }
}

// ---------------------------------------------------------------- law monitors on library outputs alone: reversal, addition rules
// Area residuals use the author's azimuth compensation; an azimuth difference is only defined modulo 360 deg, hence the residual
// only modulo c2 * 2 pi = half the ellipsoid area.  For geodesics that are not meridional a non-zero multiple is a violation; for
// exactly meridional ones / pole starts (azimuth +-180 deg and east/west conventions carried by signed zeros) it is counted as an event.
static double area_resid(Ctx& c, double r, double c2, bool generic, bool& wrapped) {
  double half = 2 * M_PI * c2, rr = std::remainder(r, half);
  wrapped = std::fabs(r - rr) > 0.5 * half;
  if (wrapped && !generic) { c.event("area law residual reduced by a multiple of half the ellipsoid area (meridional geodesic or pole start: +-180 deg azimuth convention)"); return rr; }
  return r;      // generic geodesic: judged without reduction
}
template <class G> static void laws_for(Ctx& c, const Case& k, const char* fam, const G& g, const gh::Solvers& S, double frac, const std::string& fcls) {
  typedef decltype(g.Line(0.0, 0.0, 0.0)) LineT;
  const double kt = ktol(fam, S), c2 = g.EllipsoidArea() / (4 * M_PI), b = S.b, a = S.a;
  auto scale = [&](double len) { return k.arcmode ? std::max(1.0, std::fabs(len) / 180) : std::max(1.0, std::fabs(len) / (M_PI * b)); };
  // input rounding when a new problem is started from a computed point: half an ulp of lat2 and azi2, as a displacement at distance ~a
  const double Rmax = std::max(std::max(a, b), std::max(b * b / a, a * a / b));
  auto slack = [&](const Lib& p, double len) { return 2 * (0.5 * ref::ulp_d(p.lat2) + 0.5 * ref::ulp_d(std::max(std::fabs(p.azi2), 1e-300))) * DEG * Rmax * scale(len); };
  LineT l1 = g.Line(k.lat1, k.lon1, k.azi1);
  double len13 = k.len, len12 = frac * k.len, len23 = len13 - len12;
  Lib p13 = call_line(l1, k.arcmode, len13), p12 = call_line(l1, k.arcmode, len12);
  std::string cls = "laws/" + k.e.bucket + "/" + fcls;
  J w = wit(k).str("family", fam).f("split_fraction", frac).f("len12", len12);
  if (!(finite4(p13) && finite4(p12))) { c.viol(std::string("law:C03/non-finite-output/") + fam, cls, w); return; }
  // 'generic' geodesic: its closest approach to a pole (a sin alp0) is more than 1000 x the position tolerance
  const bool generic = std::fabs(std::sin(std::remainder(k.azi1, 360.0) * DEG)) * std::cos(k.lat1 * DEG) * a > 1e3 * kt * scale(k.len);
  Cond c13 = conditioning(S, k.lat1, k.azi1, p13.lat2, p13.azi2, p13.m12, p13.M12, p13.M21, std::fabs(p13.s12));
  Cond c12 = conditioning(S, k.lat1, k.azi1, p12.lat2, p12.azi2, p12.m12, p12.M12, p12.M21, std::fabs(p12.s12));
  // ---- reversal: from point 3 with azi3 and -len13 (documented: m unchanged up to the sign of the distance, M12<->M21, S12 negated)
  {
    Lib r = call_direct(g, p13.lat2, p13.lon2, p13.azi2, k.arcmode, -len13);
    double T = 2 * kt * scale(len13) + slack(p13, len13);
    if (!finite4(r)) { c.viol(std::string("law:C03/non-finite-output/") + fam, cls, w); return; }
    double em = std::fabs(r.m12 + p13.m12) / c13.m, e1 = std::fabs(r.M12 - p13.M21) * b / c13.M21, e2 = std::fabs(r.M21 - p13.M12) * b / c13.M12;
    bool wr; double eS = std::fabs(area_resid(c, r.S12 + p13.S12 - c2 * DEG * angdiff_deg(k.azi1, r.azi2), c2, generic, wr)) / a / c13.S;
    c.obs(std::string("reversal (azi2, -s12): |m21 + m12| / tolerance [") + fam + "]", em / T, w);
    c.obs(std::string("reversal (azi2, -s12): |M12' - M21|*b, |M21' - M12|*b / tolerance [") + fam + "]", std::max(e1, e2) / T, w);
    c.obs(std::string("reversal (azi2, -s12): |S21 + S12|/a (azimuth-compensated) / tolerance [") + fam + "]", eS / T, w);
    J d = J(w).f("tol_m", T).f("cond_m", c13.m).f("cond_M12", c13.M12).f("cond_M21", c13.M21).f("cond_S", c13.S).f("m12", p13.m12).f("m12_rev", r.m12).f("M12", p13.M12).f("M21", p13.M21).f("M12_rev", r.M12).f("M21_rev", r.M21).f("S12", p13.S12).f("S12_rev", r.S12).f("azi2", p13.azi2).f("azi1_rev", r.azi2);
    if (em > T) c.viol(std::string("law:C03/reversal/") + fam + "/m12", cls, J(d).f("err_over_cond_m", em));
    if (e1 > T || e2 > T) c.viol(std::string("law:C03/reversal/") + fam + "/M12-M21-exchange", cls, J(d).f("err_over_cond_m", std::max(e1, e2)));
    if (eS > T) c.viol(std::string("law:C03/reversal/") + fam + (wr ? "/S12-off-by-multiple-of-half-ellipsoid-area" : "/S12"), cls, J(d).f("err_over_cond_m", eS));
    // second form: turn round at point 3 (azi3 + 180) and go +len13: m12 unchanged, M12<->M21, S12 negated
    double back = p13.azi2 > 0 ? p13.azi2 - 180 : p13.azi2 + 180;
    Lib q = call_direct(g, p13.lat2, p13.lon2, back, k.arcmode, len13);
    if (!finite4(q)) { c.viol(std::string("law:C03/non-finite-output/") + fam, cls, w); return; }
    double fm = std::fabs(q.m12 - p13.m12) / c13.m, f1 = std::fabs(q.M12 - p13.M21) * b / c13.M21, f2 = std::fabs(q.M21 - p13.M12) * b / c13.M12;
    bool wq; double fS = std::fabs(area_resid(c, q.S12 + p13.S12 - c2 * DEG * angdiff_deg(k.azi1, q.azi2, 180), c2, generic, wq)) / a / c13.S;
    c.obs(std::string("reversal (azi2+180, +s12): max residual / tolerance [") + fam + "]", std::max(std::max(fm, fS), std::max(f1, f2)) / T, w);
    J d2 = J(w).f("tol_m", T).f("cond_m", c13.m).f("cond_M12", c13.M12).f("cond_M21", c13.M21).f("cond_S", c13.S).f("m12", p13.m12).f("m12_rev", q.m12).f("M12", p13.M12).f("M21", p13.M21).f("M12_rev", q.M12).f("M21_rev", q.M21).f("S12", p13.S12).f("S12_rev", q.S12).f("azi2", p13.azi2).f("azi1_rev", q.azi2);
    if (fm > T) c.viol(std::string("law:C03/reversal-turned/") + fam + "/m12", cls, J(d2).f("err_over_cond_m", fm));
    if (f1 > T || f2 > T) c.viol(std::string("law:C03/reversal-turned/") + fam + "/M12-M21-exchange", cls, J(d2).f("err_over_cond_m", std::max(f1, f2)));
    if (fS > T) c.viol(std::string("law:C03/reversal-turned/") + fam + (wq ? "/S12-off-by-multiple-of-half-ellipsoid-area" : "/S12"), cls, J(d2).f("err_over_cond_m", fS));
    c.event(std::string("reversal laws evaluated [") + fam + "]", 2);
  }
  // ---- addition rules for 1 -> 2 -> 3 (Geodesic.hpp): segment 2->3 is a new direct problem from the computed point 2
  {
    Lib p23 = call_direct(g, p12.lat2, p12.lon2, p12.azi2, k.arcmode, len23);
    if (!finite4(p23)) { c.viol(std::string("law:C03/non-finite-output/") + fam, cls, w); return; }
    Cond c23 = conditioning(S, p12.lat2, p12.azi2, p23.lat2, p23.azi2, p23.m12, p23.M12, p23.M21, std::fabs(p23.s12));
    double T12 = kt * scale(len12), T13 = kt * scale(len13), T23 = kt * scale(len23) + slack(p12, len23);
    double Tm12 = T12 * c12.m, Tm13 = T13 * c13.m, Tm23 = T23 * c23.m;
    double TM12 = T12 * c12.M12 / b, TM21 = T12 * c12.M21 / b, TM13 = T13 * c13.M12 / b, TM31 = T13 * c13.M21 / b, TM23 = T23 * c23.M12 / b, TM32 = T23 * c23.M21 / b;
    double m12 = p12.m12, M12 = p12.M12, M21 = p12.M21, m23 = p23.m12, M23 = p23.M12, M32 = p23.M21, m13 = p13.m12, M13 = p13.M12, M31 = p13.M21;
    J d = J(w).f("m12", m12).f("M12", M12).f("M21", M21).f("S12", p12.S12).f("m23", m23).f("M23", M23).f("M32", M32).f("S23", p23.S12).f("m13", m13).f("M13", M13).f("M31", M31).f("S13", p13.S12);
    // m13 = m12 M23 + m23 M21
    {
      double r = std::fabs(m13 - (m12 * M23 + m23 * M21));
      double T = Tm13 + Tm12 * std::fabs(M23) + std::fabs(m12) * TM23 + Tm23 * std::fabs(M21) + std::fabs(m23) * TM21;
      c.obs(std::string("addition rule m13 = m12 M23 + m23 M21: residual / propagated tolerance [") + fam + "]", r / T, w);
      if (r > T) c.viol(std::string("law:C03/addition/") + fam + "/m13", cls, J(d).f("err_m", r).f("tol_m", T));
    }
    const double mmin = 1e3 * a / gh::WGS84_A;     // rules dividing by a reduced length are skipped below 1 km (scaled)
    // M13 = M12 M23 - (1 - M12 M21) m23 / m12
    if (std::fabs(m12) >= mmin) {
      double W = 1 - M12 * M21;
      double r = std::fabs(M13 - (M12 * M23 - W * m23 / m12));
      double TW = TM12 * std::fabs(M21) + std::fabs(M12) * TM21;
      double T = TM13 + TM12 * std::fabs(M23) + std::fabs(M12) * TM23 + (TW * std::fabs(m23) + std::fabs(W) * Tm23) / std::fabs(m12) + std::fabs(W * m23) * Tm12 / (m12 * m12);
      c.obs(std::string("addition rule M13: residual / propagated tolerance [") + fam + "]", r / T, w);
      if (r > T) c.viol(std::string("law:C03/addition/") + fam + "/M13", cls, J(d).f("err", r).f("tol", T));
    } else c.event(std::string("addition rule M13 skipped (|m12| < 1 km) [") + fam + "]");
    // M31 = M32 M21 - (1 - M23 M32) m12 / m23
    if (std::fabs(m23) >= mmin) {
      double W = 1 - M23 * M32;
      double r = std::fabs(M31 - (M32 * M21 - W * m12 / m23));
      double TW = TM23 * std::fabs(M32) + std::fabs(M23) * TM32;
      double T = TM31 + TM32 * std::fabs(M21) + std::fabs(M32) * TM21 + (TW * std::fabs(m12) + std::fabs(W) * Tm12) / std::fabs(m23) + std::fabs(W * m12) * Tm23 / (m23 * m23);
      c.obs(std::string("addition rule M31: residual / propagated tolerance [") + fam + "]", r / T, w);
      if (r > T) c.viol(std::string("law:C03/addition/") + fam + "/M31", cls, J(d).f("err", r).f("tol", T));
    } else c.event(std::string("addition rule M31 skipped (|m23| < 1 km) [") + fam + "]");
    // S13 = S12 + S23, with the author's azimuth compensation at the common end point 3
    {
      bool wr; double r = std::fabs(area_resid(c, p13.S12 - p12.S12 - p23.S12 - c2 * DEG * angdiff_deg(p23.azi2, p13.azi2), c2, generic, wr)) / a;
      double rraw = std::fabs(p13.S12 - p12.S12 - p23.S12) / a;
      double T = T13 * c13.S + T12 * c12.S + T23 * c23.S;
      c.obs(std::string("addition rule S13 = S12 + S23 (azimuth-compensated): residual/a / propagated tolerance [") + fam + "]", r / T, w);
      if (std::fabs(p13.lat2) < 84) c.obs(std::string("addition rule S13 = S12 + S23 raw, point 3 > 6 deg from a pole: residual/a / propagated tolerance [") + fam + "]", rraw / T, w);
      if (r > T) c.viol(std::string("law:C03/addition/") + fam + (wr ? "/S13-off-by-multiple-of-half-ellipsoid-area" : "/S13"), cls, J(d).f("err_m", r).f("tol_m", T).f("azi3_from1", p13.azi2).f("azi3_from2", p23.azi2));
    }
    // s13 = s12 + s23 (arc mode) / a13 = a12 + a23 (distance mode; arc converted to a distance with ds = b sqrt(1 + ep2 sin^2 beta) dsigma at point 3)
    {
      double T = T13 + T12 + T23, r;
      if (k.arcmode) r = std::fabs(p13.s12 - p12.s12 - p23.s12);
      else {
        double f1 = 1 - S.f, sb = f1 * std::sin(p13.lat2 * DEG), cb = std::cos(p13.lat2 * DEG), h = std::hypot(sb, cb), ep2 = S.f * (2 - S.f) / (f1 * f1);
        r = std::fabs(p13.a12 - p12.a12 - p23.a12) * DEG * b * std::sqrt(std::max(0.0, 1 + ep2 * (sb / h) * (sb / h)));
      }
      c.obs(std::string(k.arcmode ? "addition rule s13 = s12 + s23: residual / propagated tolerance [" : "addition rule a13 = a12 + a23: residual * ds/dsigma / propagated tolerance [") + fam + "]", r / T, w);
      if (r > T) c.viol(std::string("law:C03/addition/") + fam + (k.arcmode ? "/s13" : "/a13"), cls, J(d).f("err_m", r).f("tol_m", T).f("x13", k.arcmode ? p13.s12 : p13.a12).f("x12", k.arcmode ? p12.s12 : p12.a12).f("x23", k.arcmode ? p23.s12 : p23.a12));
    }
    c.event(std::string("addition rules evaluated [") + fam + "]");
  }
}

static void sec_laws(Ctx& c, uint64_t) {
  Case k = gen(c.rng);
  static const char* fn[] = {"1e-9", "1/2", "1-1e-9", "random"};
  int fi = (int)c.rng.below(4);
  double frac = fi == 0 ? 1e-9 : fi == 1 ? 0.5 : fi == 2 ? 1 - 1e-9 : c.rng.uniform(0, 1);
  gh::Solvers& S = gh::solvers(k.e.a, k.e.f, k.e.series_ok);
  std::string fcls = std::string("split-") + fn[fi];
  c.count("laws/" + k.e.bucket + "/" + fcls + k.cls.substr(k.cls.rfind('/', k.cls.rfind('/') - 1)), hcase(k, 17) ^ vh::mix64(fi));
  if (k.e.series_ok) laws_for(c, k, "series", *S.series, S, frac, fcls);
  laws_for(c, k, "exact", *S.exact, S, frac, fcls);
  if (c.rng.below(4) == 0) laws_for(c, k, "exact-delegating", *S.delegating, S, frac, fcls);
}

// ---------------------------------------------------------------- inverse interface
struct InvOut { double a12, s12, azi1, azi2, m12, M12, M21, S12; };
template <class G> static InvOut call_inverse(const G& g, double lat1, double lon1, double lat2, double lon2, unsigned mask = G::ALL) {
  double nan = std::numeric_limits<double>::quiet_NaN(); InvOut o{nan, nan, nan, nan, nan, nan, nan, nan};
  o.a12 = g.GenInverse(lat1, lon1, lat2, lon2, mask, o.s12, o.azi1, o.azi2, o.m12, o.M12, o.M21, o.S12);
  return o;
}
static Lib as_lib(const InvOut& o) { Lib l; l.a12 = o.a12; l.lat2 = l.lon2 = 0; l.azi2 = o.azi2; l.s12 = o.s12; l.m12 = o.m12; l.M12 = o.M12; l.M21 = o.M21; l.S12 = o.S12; return l; }

struct InvCase { gh::EllSpec e; double lat1, lon1, lat2, lon2; std::string cls; bool constructed; ref::GeodPos<q128> P0; double azi1; };

// self-consistency: the returned m12, M12, M21, S12 are those of the geodesic the solver returned (REF direct from point 1 with
// the returned azi1 and s12); valid for every pair, also at conjugacy.  Position of REF's end point vs point 2 is C02's subject;
// here it only widens the area tolerance (area swept by moving the end point) and beyond the position tolerance the case is left to C02.
static void judge_selfconsistent(Ctx& c, const InvCase& k, const char* solver, const gh::Solvers& S, const Lib& o, double azi1, const J& w, q128 lon12t) {
  if (!(std::isfinite(azi1) && std::isfinite(o.s12))) { c.viol(std::string("oracle:C03/inverse-selfconsistent/") + solver + "/non-finite-output", k.cls, w); return; }
  ref::GeodLine<q128> L(S.E, (q128)k.lat1, (q128)azi1, std::signbit(azi1));
  ref::GeodPos<q128> P = L.at_dist((q128)o.s12);
  q128 X1[3], X2[3]; ref::to_xyz<q128>(S.E, P.lat2, P.lon12, X1); ref::to_xyz<q128>(S.E, (q128)k.lat2, lon12t, X2);
  double d = (double)ref::dist3(X1, X2), T = ktol(solver, S);
  c.obs(std::string("inverse: REF end point for returned (azi1, s12) vs point 2 / tolerance (information, C02) [") + solver + "]", d / T, J(w).f("miss_m", d));
  if (d > T) { c.event(std::string("inverse self-consistency not judged: returned geodesic misses point 2 by more than the tolerance (C02) [") + solver + "]"); return; }
  judge4(c, k.cls, "oracle:C03/inverse-selfconsistent/", solver, k.e.bucket, T + 3 * d, cond_ref(S, k.lat1, azi1, P), S, o, P, 0, w);
  c.event(std::string("inverse results judged for self-consistency [") + solver + "]");
}

static void run_inverse(Ctx& c, const InvCase& k) {
  gh::Solvers& S = gh::solvers(k.e.a, k.e.f, k.e.series_ok);
  uint64_t h = vh::hmix(vh::hmix(vh::hmix(vh::hmix(vh::hmix(vh::hmix(23, k.e.a), k.e.f), k.lat1), k.lon1), k.lat2), k.lon2);
  c.count(k.cls, h);
  J w = J().f("a", k.e.a).f("f", k.e.f).f("lat1", k.lat1).f("lon1", k.lon1).f("lat2", k.lat2).f("lon2", k.lon2);
  if (c.want_sample(k.cls)) c.sample(k.cls, w);
  q128 lon12t = ref::remainder((q128)k.lon2 - (q128)k.lon1, (q128)360);
  // truth for constructed pairs: Newton refinement of the REF construction onto the rounded coordinates of point 2
  bool have_truth = false; ref::InvSol<q128> tr;
  if (k.constructed) {
    double mmin = 10e3 * k.e.a / gh::WGS84_A;
    bool near_conj = (double)k.P0.s12 > k.e.a && std::fabs((double)k.P0.m12) < mmin;       // the author's exclusion (GeodTest.cpp)
    if (near_conj) c.event("inverse truth comparison skipped near conjugacy by the author's rule (s12 > a and |m12| < 10 km), self-consistency still judged");
    else if ((double)k.P0.s12 > 0) {
      tr = ref::refine_inverse<q128>(S.E, (q128)k.lat1, (q128)k.lat2, lon12t, (q128)k.azi1, k.P0.s12, (q128)(1e-29 * std::max(k.e.a, S.b)));
      if (!tr.ok) { c.herr("REF inverse refinement did not converge: miss " + std::to_string((double)tr.miss) + " m, class " + k.cls); }
      else { have_truth = true; c.obs("REF inverse refinement iterations", tr.iters); }
    }
  }
  // conditioning of the inverse problem: the accepted azimuth error is dalp1 = T/|m12| (author's err[4] = azimuth error * m12); the
  // returned quantities are those of the returned geodesic, so the truth comparison carries |dq/dalp1| * T/|m12| (REF finite difference).
  // Where this exceeds 3x the plain tolerance the truth comparison is void (this generalises the author's "s12 > a && m12 < 10 km"
  // exclusion to other flattenings); the self-consistency comparison below does not need it and is always made.
  Cond ctruth{1, 1, 1, 1}; bool illcond = false;
  if (have_truth) {
    ctruth = cond_ref(S, k.lat1, (double)tr.azi1, tr.P);
    const q128 h = (q128)1e-9;
    ref::GeodLine<q128> Lh(S.E, (q128)k.lat1, tr.azi1 + h / ref::deg<q128>());
    ref::GeodPos<q128> Ph = Lh.at_dist(tr.s12);
    double am = std::fabs((double)tr.P.m12);
    double dm = (double)(ref::fabs(Ph.m12 - tr.P.m12) / h), dM12 = (double)(ref::fabs(Ph.M12 - tr.P.M12) / h) * S.b, dM21 = (double)(ref::fabs(Ph.M21 - tr.P.M21) / h) * S.b;
    double dS = (double)(ref::fabs((Ph.S12 - tr.P.S12) / h - S.E.c2 * ((Ph.azi2 - tr.P.azi2) * ref::deg<q128>() / h - 1)) / S.E.a);
    double xm = dm / am, x1 = dM12 / am, x2 = dM21 / am, xS = dS / am;
    c.obs("inverse truth: ill-conditioning term |dq/dalp1|/|m12| relative to the plain tolerance (max over m12, M12, M21, S12), judged cases", std::max(std::max(xm / ctruth.m, xS / ctruth.S), std::max(x1 / ctruth.M12, x2 / ctruth.M21)) <= 3 ? std::max(std::max(xm / ctruth.m, xS / ctruth.S), std::max(x1 / ctruth.M12, x2 / ctruth.M21)) : 0.0);
    if (!(am > 0) || std::max(std::max(xm / ctruth.m, xS / ctruth.S), std::max(x1 / ctruth.M12, x2 / ctruth.M21)) > 3) { illcond = true; c.event("inverse truth comparison void: ill-conditioned (azimuth tolerance T/|m12| propagated into m12/M12/M21/S12 exceeds 3x the plain tolerance); self-consistency still judged"); }
    else { ctruth.m += xm; ctruth.M12 += x1; ctruth.M21 += x2; ctruth.S += xS; }
  }
  auto one = [&](const char* solver, const InvOut& o) {
    J ww = J(w).f("s12", o.s12).f("azi1", o.azi1);
    if (have_truth && !illcond) {
      // the library must have found REF's geodesic (unique shortest one by construction); otherwise the comparison is meaningless -> C02
      double T = ktol(solver, S);
      double dazi = (double)ref::remainder((q128)o.azi1 - tr.azi1, (q128)360), miss = std::fabs(dazi) * DEG * std::fabs((double)tr.P.m12) + std::fabs(o.s12 - (double)tr.s12);
      if (!(miss <= 4 * T)) c.event(std::string("inverse truth comparison skipped: solver returned another geodesic than REF's (C02) [") + solver + "]");
      else {
        judge4(c, k.cls, "oracle:C03/inverse-truth/", solver, k.e.bucket, T, ctruth, S, as_lib(o), tr.P, (q128)dazi, ww);
        c.event(std::string("inverse results judged against REF truth [") + solver + "]");
      }
    }
    judge_selfconsistent(c, k, solver, S, as_lib(o), o.azi1, ww, lon12t);
  };
  InvOut oe = call_inverse(*S.exact, k.lat1, k.lon1, k.lat2, k.lon2);
  one("exact", oe);
  InvOut od = call_inverse(*S.delegating, k.lat1, k.lon1, k.lat2, k.lon2);
  if (!(vh::same_bits(od.m12, oe.m12) && vh::same_bits(od.M12, oe.M12) && vh::same_bits(od.M21, oe.M21) && vh::same_bits(od.S12, oe.S12) && vh::same_bits(od.azi1, oe.azi1) && vh::same_bits(od.s12, oe.s12)))
    one("exact-delegating", od);
  else c.event("Geodesic(exact=true) inverse bit-identical to GeodesicExact");
  InvOut os{}; if (k.e.series_ok) { os = call_inverse(*S.series, k.lat1, k.lon1, k.lat2, k.lon2); one("series", os); }
  // overloads and masks
  if (c.rng.below(6) == 0) {
    auto chk = [&](const char* solver, auto& g, const InvOut& full) {
      typedef typename std::remove_reference<decltype(g)>::type G;
      InvOut o = full;
      g.Inverse(k.lat1, k.lon1, k.lat2, k.lon2, o.s12, o.azi1, o.azi2, o.m12, o.M12, o.M21, o.S12);
      bool ok = vh::same_bits(o.m12, full.m12) && vh::same_bits(o.M12, full.M12) && vh::same_bits(o.M21, full.M21) && vh::same_bits(o.S12, full.S12);
      InvOut p = full; g.Inverse(k.lat1, k.lon1, k.lat2, k.lon2, p.s12, p.azi1, p.azi2, p.m12); g.Inverse(k.lat1, k.lon1, k.lat2, k.lon2, p.s12, p.azi1, p.azi2, p.M12, p.M21);
      ok = ok && vh::same_bits(p.m12, full.m12) && vh::same_bits(p.M12, full.M12) && vh::same_bits(p.M21, full.M21);
      if (!ok) c.viol(std::string("law:C03/overload-differs-from-GenInverse/") + solver, k.cls, J(w).f("m12", o.m12).f("m12_gen", full.m12).f("m12_only", p.m12).f("S12", o.S12).f("S12_gen", full.S12));
      static const unsigned masks[] = {G::REDUCEDLENGTH, G::GEODESICSCALE, G::AREA, G::GEODESICSCALE | G::AREA, G::REDUCEDLENGTH | G::AZIMUTH};
      for (unsigned m : masks) {
        InvOut q = call_inverse(g, k.lat1, k.lon1, k.lat2, k.lon2, m);
        bool same = (!(m & G::REDUCEDLENGTH & 0xFF80U) || vh::same_bits(q.m12, full.m12)) && (!(m & G::GEODESICSCALE & 0xFF80U) || (vh::same_bits(q.M12, full.M12) && vh::same_bits(q.M21, full.M21)))
          && (!(m & G::AREA & 0xFF80U) || vh::same_bits(q.S12, full.S12));
        if (!same) c.viol(std::string("law:C03/value-depends-on-output-mask/inverse/") + solver, k.cls, J(w).u("mask", m).f("m12", q.m12).f("m12_all", full.m12).f("M12", q.M12).f("M12_all", full.M12).f("S12", q.S12).f("S12_all", full.S12));
      }
      c.event("overload / mask identity checks (inverse)");
    };
    chk("exact", *S.exact, oe);
    if (k.e.series_ok) chk("series", *S.series, os);
  }
  // InverseLine: the line object's own m12, M12, M21, S12 at its end point (different code path from GenInverse)
  if (c.rng.below(3) == 0) {
    {
      GeodesicLineExact l = S.exact->InverseLine(k.lat1, k.lon1, k.lat2, k.lon2, GeodesicExact::ALL);
      Lib o = call_line(l, true, l.Arc());
      judge_selfconsistent(c, k, "exact-inverseline", S, o, l.Azimuth(), J(w).f("s13", o.s12).f("azi1", l.Azimuth()), lon12t);
    }
    if (c.rng.coin()) {
      GeodesicLine l = S.delegating->InverseLine(k.lat1, k.lon1, k.lat2, k.lon2, Geodesic::ALL);
      Lib o = call_line(l, true, l.Arc());
      judge_selfconsistent(c, k, "exact-delegating-inverseline", S, o, l.Azimuth(), J(w).f("s13", o.s12).f("azi1", l.Azimuth()), lon12t);
    }
    if (k.e.series_ok) {
      GeodesicLine l = S.series->InverseLine(k.lat1, k.lon1, k.lat2, k.lon2, Geodesic::ALL);
      Lib o = c.rng.coin() ? call_line(l, true, l.Arc()) : call_line(l, false, l.Distance());
      judge_selfconsistent(c, k, "series-inverseline", S, o, l.Azimuth(), J(w).f("s13", o.s12).f("azi1", l.Azimuth()), lon12t);
    }
  }
}

static void sec_inverse(Ctx& c, uint64_t) {
  vh::Rng& r = c.rng;
  InvCase k; k.e = gh::pick_ellipsoid(r); k.constructed = true;
  gh::Solvers& S = gh::solvers(k.e.a, k.e.f, k.e.series_ok);
  std::string cl, ca, cn; k.lat1 = gh::pick_lat(r, cl);
  double azi1 = r.below(6) == 0 ? gh::pick_azi(r, ca) : (ca = "general", r.uniform(-180, 180));
  azi1 = std::remainder(azi1, 360.0);
  double a12;
  switch (r.below(10)) {
  case 0: cn = "tiny"; a12 = r.logu(1e-12, 1e-7); break;
  case 1: cn = "short"; a12 = r.logu(1e-7, 1e-3); break;             // straddles the short-line regime of GenInverse
  case 2: cn = "medium"; a12 = r.logu(1e-3, 10); break;
  case 3: cn = "long"; a12 = r.uniform(170, 179.5); break;
  case 4: cn = "near-conjugate"; a12 = 180 - r.logu(1e-4, 0.5); break;
  default: cn = "general"; a12 = r.uniform(0, 170); break;
  }
  k.lon1 = (cn == "tiny" || cn == "short") ? 0.0 : r.below(4) == 0 ? gh::pick_lon(r) : r.uniform(-180, 180);
  ref::GeodLine<q128> L(S.E, (q128)k.lat1, (q128)azi1, std::signbit(azi1));
  ref::GeodPos<q128> P = L.at_arc((q128)a12);
  // shortest-path certificate of the construction: arc < 180 deg and (needed for prolate) longitudinal extent < 180 deg
  for (int t = 0; t < 60 && (double)ref::fabs(P.lon12) > 179.5; ++t) { a12 *= 0.8; cn = "general"; P = L.at_arc((q128)a12); }
  if ((double)ref::fabs(P.lon12) > 179.5) { c.event("inverse construction abandoned (longitudinal extent)"); return; }
  k.P0 = P; k.azi1 = azi1;
  k.lat2 = (double)P.lat2; k.lon2 = (double)((q128)k.lon1 + P.lon12);
  k.cls = "inverse/" + k.e.bucket + "/start-" + cl + "/azi-" + ca + "/" + cn;
  run_inverse(c, k);
}

// thin regimes of the inverse area computation (added after seeded change C03-r3s1): the AREA block of GenInverse switches formula at
// omg12 = 135 deg (comg12 = -0.7071) and at sbet2 - sbet1 = 1.75, and recognises "sin/cos of omg12 not yet computed" by a sentinel
// that sin(omg12) can reach only within ~1e-6 deg of omg12 = 90 deg.  Pairs are constructed on the REF geodesic so that the
// auxiliary-sphere longitude difference omg12 hits the target to within a log-uniform jitter of 1e-11..1e-4 deg.
static void sec_inverse_thin(Ctx& c, uint64_t i) {
  vh::Rng& r = c.rng;
  InvCase k; k.e = gh::pick_ellipsoid(r); k.constructed = true;
  gh::Solvers& S = gh::solvers(k.e.a, k.e.f, k.e.series_ok);
  typedef long double LD;
  static const double targets[] = {90, 90, 90, 135, 45, 90, 135, 1e-3};
  double tgt = targets[i % 8];
  const LD D = 3.14159265358979323846264338327950288L / 180;
  if (r.below(5) == 0) {       // latitude-difference threshold sbet2 - sbet1 = 1.75 (free pair, self-consistency only)
    k.constructed = false; k.azi1 = 0;
    LD x = r.uniform(0.76, 0.99), y = 1.75L - x + (LD)(r.sign() * r.logu(1e-17, 1e-6));
    LD n = 1 - (LD)k.e.f;      // tan(phi) = tan(bet) / (1 - f)
    k.lat1 = (double)(-std::atan2(x / n, std::sqrt(1 - x * x)) / D); k.lat2 = (double)(std::atan2(y / n, std::sqrt(1 - y * y)) / D);
    if (r.coin()) { std::swap(k.lat1, k.lat2); } if (r.coin()) { k.lat1 = -k.lat1; k.lat2 = -k.lat2; }
    k.lon1 = r.uniform(-180, 180); k.lon2 = k.lon1 + r.sign() * r.uniform(1, 160);
    k.cls = "inverse-thin/" + k.e.bucket + "/sbet2-sbet1=1.75"; run_inverse(c, k); return;
  }
  k.lat1 = r.coin(0.15) ? r.sign() * r.logu(1e-6, 1) : r.uniform(-75, 75);
  double azi1 = r.sign() * r.uniform(1, 179);
  LD n = 1 - (LD)k.e.f, sphi = std::sin((LD)k.lat1 * D), cphi = std::cos((LD)k.lat1 * D), sb = n * sphi, cb = cphi, h = std::hypot(sb, cb); sb /= h; cb /= h;
  LD sa = std::sin(std::fabs((LD)azi1) * D), ca = std::cos((LD)azi1 * D), salp0 = sa * cb;
  LD sig1 = std::atan2(sb, ca * cb), om1 = std::atan2(salp0 * std::sin(sig1), std::cos(sig1));
  LD jit = (LD)(r.sign() * r.logu(1e-11, 1e-4)), om2 = om1 + ((LD)tgt + jit) * D;
  LD sig2 = std::atan2(std::sin(om2), salp0 * std::cos(om2)), a12 = (sig2 - sig1) / D;
  while (a12 <= 0) a12 += 360;
  if (!(a12 > 0 && a12 < 179)) { c.event("inverse-thin construction abandoned (arc not below 179 deg)"); return; }
  k.lon1 = r.below(3) == 0 ? 0.0 : r.uniform(-180, 180);
  ref::GeodLine<q128> L(S.E, (q128)k.lat1, (q128)azi1, false);
  ref::GeodPos<q128> P = L.at_arc((q128)a12);
  if ((double)ref::fabs(P.lon12) > 179.5) { c.event("inverse construction abandoned (longitudinal extent)"); return; }
  k.P0 = P; k.azi1 = azi1;
  k.lat2 = (double)P.lat2; k.lon2 = (double)((q128)k.lon1 + P.lon12);
  char tb[32]; std::snprintf(tb, sizeof tb, "%g", tgt);
  k.cls = "inverse-thin/" + k.e.bucket + "/omg12=" + tb + (std::fabs((double)jit) < 1e-7 ? "/jitter<1e-7deg" : "/jitter<1e-4deg");
  run_inverse(c, k);
}

// pairs that are not constructed from a known geodesic (antipodal region, meridional, equatorial, poles, coincident): self-consistency only
static void sec_inverse_free(Ctx& c, uint64_t) {
  vh::Rng& r = c.rng;
  InvCase k; k.e = gh::pick_ellipsoid(r); k.constructed = false; k.azi1 = 0;
  std::string cl, cn; k.lat1 = gh::pick_lat(r, cl); k.lon1 = r.below(3) == 0 ? gh::pick_lon(r) : r.uniform(-180, 180);
  switch (r.below(9)) {
  case 0: cn = "exactly-antipodal"; k.lat2 = -k.lat1; k.lon2 = k.lon1 + 180; break;
  case 1: cn = "near-antipodal"; k.lat2 = -k.lat1 + r.sign() * r.logu(1e-12, 2); k.lon2 = k.lon1 + r.sign() * (180 - r.logu(1e-12, 2)); break;
  case 2: cn = "lon12=180"; k.lat2 = r.uniform(-90, 90); k.lon2 = k.lon1 + (r.coin() ? 180 : -180); break;
  case 3: cn = "same-meridian"; k.lat2 = r.uniform(-90, 90); k.lon2 = k.lon1; break;
  case 4: cn = "equatorial"; k.lat1 = r.coin() ? 0.0 : -0.0; k.lat2 = r.coin() ? 0.0 : r.sign() * r.logu(1e-300, 1e-6); k.lon2 = k.lon1 + r.uniform(-180, 180); break;
  case 5: cn = "to-pole"; k.lat2 = r.coin() ? 90 : -90; k.lon2 = r.uniform(-180, 180); break;
  case 6: cn = "coincident"; k.lat2 = k.lat1; k.lon2 = k.lon1; break;
  default: cn = "random-pair"; k.lat2 = r.uniform(-90, 90); k.lon2 = r.uniform(-180, 180); break;
  }
  k.lat2 = std::max(-90.0, std::min(90.0, k.lat2));
  k.cls = "inverse-free/" + k.e.bucket + "/start-" + cl + "/" + cn;
  run_inverse(c, k);
}

// ---------------------------------------------------------------- closed geodesic polygons
static void sec_polygon(Ctx& c, uint64_t) {
  vh::Rng& r = c.rng;
  gh::EllSpec e = gh::pick_ellipsoid(r);
  gh::Solvers& S = gh::solvers(e.a, e.f, e.series_ok);
  int n = r.range(3, 8); std::vector<double> lat(n), lon(n); std::string style;
  switch (r.below(6)) {
  case 0: { style = "random-vertices"; for (int i = 0; i < n; ++i) { lat[i] = std::asin(r.uniform(-1, 1)) / DEG; lon[i] = r.uniform(-180, 180); } break; }
  case 1: case 2: {   // ring around a centre (simple polygon); centre at / near a pole gives a pole-enclosing polygon
    double clat = r.below(3) == 0 ? (r.coin() ? 90 : -90) * (1 - r.logu(1e-12, 1e-1)) : r.uniform(-90, 90), clon = r.uniform(-180, 180), rad = r.logu(1e-4, 80);
    style = std::fabs(clat) > 80 ? "ring-around-pole-region" : "ring";
    double dir = r.sign(), th = r.uniform(0, 360);
    for (int i = 0; i < n; ++i) {
      th += dir * 360.0 / n * r.uniform(0.6, 1.4);
      double la, lo; S.exact->ArcDirect(clat, clon, th, rad * r.uniform(0.5, 1), la, lo);     // only to place the vertices
      lat[i] = la; lon[i] = lo;
    }
    break; }
  case 3: { style = "circumpolar-ring"; double dir = r.sign(), l0 = r.uniform(-180, 180), la0 = r.sign() * r.uniform(20, 89.9);
    for (int i = 0; i < n; ++i) { lon[i] = std::remainder(l0 + dir * 360.0 * i / n + r.uniform(-20, 20) / n, 360.0); lat[i] = la0 + r.uniform(-1, 1) * std::min(15.0, 90 - std::fabs(la0)); lat[i] = std::max(-90.0, std::min(90.0, lat[i])); }
    break; }
  case 4: { style = "with-pole-vertex"; for (int i = 0; i < n; ++i) { lat[i] = r.uniform(-80, 80); lon[i] = r.uniform(-180, 180); } lat[r.below(n)] = r.coin() ? 90 : -90; break; }
  default: { style = "equator-straddling"; double l0 = r.uniform(-180, 180); for (int i = 0; i < n; ++i) { lat[i] = r.sign() * r.logu(1e-8, 30); lon[i] = std::remainder(l0 + r.uniform(-60, 60), 360.0); } break; }
  }
  std::string cls = "polygon/" + e.bucket + "/" + style;
  // sides: keep away from conjugacy (arc <= 160 deg), no zero-length sides
  std::vector<InvOut> se(n), ss(n);
  for (int i = 0; i < n; ++i) {
    int j = (i + 1) % n;
    se[i] = call_inverse(*S.exact, lat[i], lon[i], lat[j], lon[j]);
    if (!(se[i].a12 <= 160) || !(se[i].s12 > 0)) { c.event("polygon discarded (a side longer than 160 deg of arc or of zero length)"); return; }
    if (e.series_ok) ss[i] = call_inverse(*S.series, lat[i], lon[i], lat[j], lon[j]);
  }
  uint64_t h = vh::hmix(vh::hmix(29, e.a), e.f); for (int i = 0; i < n; ++i) h = vh::hmix(vh::hmix(h, lat[i]), lon[i]);
  c.count(cls, h);
  // REF: the geodesic sides (Newton-refined from the library's answer, verified to hit the vertices to < 1e-24 a) and, along them, the
  // contour integral of Q(phi) dlambda from the definition; independently the sum of REF's S12 (area-integral form)
  q128 Adef = 0, Aform = 0, lonsum = 0; bool meridional = false;
  for (int i = 0; i < n; ++i) {
    int j = (i + 1) % n;
    q128 lon12t = ref::remainder((q128)lon[j] - (q128)lon[i], (q128)360), tolm = (q128)(1e-29 * std::max(e.a, S.b));
    q128 sform, sdef, lon12;
    if (std::fabs(lat[j]) == 90 && std::fabs(lat[i]) < 90) {
      // a side arriving at a pole: at the pole itself REF's (longitude, azimuth) pair is degenerate, so the side is solved from the pole
      // (where the documented limiting convention is implemented in GeodLine) and reversed: same quadrilateral, opposite orientation
      double back = se[i].azi2 > 0 ? se[i].azi2 - 180 : se[i].azi2 + 180;
      ref::InvSol<q128> sol = ref::refine_inverse<q128>(S.E, (q128)lat[j], (q128)lat[i], -lon12t, (q128)back, (q128)se[i].s12, tolm, 12, std::signbit(back));
      if (!sol.ok) { c.herr("polygon: REF inverse refinement did not converge (miss " + std::to_string((double)sol.miss) + " m)"); return; }
      sform = -sol.P.S12; sdef = sform; lon12 = -sol.P.lon12; meridional = true;
    } else {
      ref::InvSol<q128> sol = ref::refine_inverse<q128>(S.E, (q128)lat[i], (q128)lat[j], lon12t, (q128)se[i].azi1, (q128)se[i].s12, tolm, 12, std::signbit(se[i].azi1));
      if (!sol.ok) { c.herr("polygon: REF inverse refinement did not converge (miss " + std::to_string((double)sol.miss) + " m)"); return; }
      ref::GeodLine<q128> L(S.E, (q128)lat[i], sol.azi1, std::signbit(se[i].azi1) && sol.azi1 == (q128)se[i].azi1);
      sform = sol.P.S12; lon12 = sol.P.lon12;
      if ((double)L.salp0 >= 1e-7 && std::fabs(lat[i]) < 90) sdef = ref::area_under_def<q128>(L, sol.P.a12 * ref::deg<q128>());
      else { sdef = sform; meridional = true; }
    }
    // unrolled longitude of the side: REF supplies the number of turns, the exact vertex longitudes the fractional part
    q128 turns = ref::round((lon12 - lon12t) / 360);
    Adef += sdef; Aform += sform; lonsum += lon12t + 360 * turns;
    if (c.only) std::fprintf(stderr, "side %d: lib S12 exact %.17g  REF form %s  REF def %s  lon12t %s  REF lon12 %s  lib azi1 %.17g azi2 %.17g\n", i, se[i].S12, ref::qstr(sform, 20).c_str(), ref::qstr(sdef, 20).c_str(), ref::qstr(lon12t, 20).c_str(), ref::qstr(lon12, 20).c_str(), se[i].azi1, se[i].azi2);
  }
  double wind = (double)ref::round(lonsum / 360);
  if ((double)ref::fabs(lonsum - 360 * (q128)wind) > 1e-15) { c.herr("polygon: REF unrolled longitudes of the sides do not sum to a multiple of 360 deg"); return; }
  {
    double sd = (double)(ref::fabs(Adef - Aform) / S.E.a);
    c.obs("selftest: polygon, sum of REF S12 (area-integral form) vs contour integral of Q dlambda from the definition, /a [m]", sd * gh::WGS84_A / e.a);
    if (!(sd * gh::WGS84_A / e.a < 1e-12)) { c.herr("polygon: REF area forms disagree by " + std::to_string(sd) + " m * a"); return; }
  }
  c.event(std::fmod(std::fabs(wind), 2) == 1 ? "polygons enclosing a pole (odd winding about the axis)" : "polygons not enclosing a pole");
  if (meridional) c.event("polygons with a meridional side or pole vertex (REF S12 form used for that side)");
  J w = J().f("a", e.a).f("f", e.f).i("n", n).f("winding", wind);
  { std::string v; for (int i = 0; i < n; ++i) { char b[80]; std::snprintf(b, sizeof b, "%s[%.17g,%.17g]", i ? "," : "", lat[i], lon[i]); v += b; } w.raw("vertices", "[" + v + "]"); }
  if (c.want_sample(cls)) c.sample(cls, w);
  auto closure = [&](const char* fam, const std::vector<InvOut>& sd) {
    long double sum = 0; for (int i = 0; i < n; ++i) sum += sd[i].S12;
    double T = n * ktol(fam, S);
    double r0 = (double)(ref::fabs((q128)sum - Adef) / S.E.a);
    // modulo half the ellipsoid area (the documented ambiguity for pole-encircling polygons) -- information only
    double half = (double)(S.E.area() / 2), rm = (double)(ref::fabs(ref::remainder((q128)sum - Adef, (q128)half)) / S.E.a);
    c.obs(std::string("polygon closure: |sum S12 - contour integral of Q dlambda (REF)|/a / (n * tolerance) [") + fam + "]", r0 / T, w);
    if (r0 > T) c.viol(std::string(rm <= T ? "law:C03/polygon-closure/off-by-multiple-of-half-ellipsoid-area/" : "law:C03/polygon-closure/") + fam, cls, J(w).f("sum_S12", (double)sum).str("ref_area", ref::qstr(Adef, 22)).f("err_m", r0).f("tol_m", T));
    // the property's formulation: area of the polygon = sum S12 - (winding) * half the ellipsoid area, modulo the ellipsoid area
    double libhalf = (fam[0] == 's' ? S.series->EllipsoidArea() : S.exact->EllipsoidArea()) / 2;
    q128 area_lib = (q128)sum - (q128)wind * libhalf, area_ref = Adef - (q128)wind * S.E.area() / 2;
    double r1 = (double)(ref::fabs(ref::remainder(area_lib - area_ref, S.E.area())) / S.E.a);
    if (r1 > T + std::fabs(wind) * 4 * 2.2e-16 * half / e.a) c.viol(std::string("law:C03/polygon-area-mod-ellipsoid-area/") + fam, cls, J(w).f("err_m", r1).f("tol_m", T));
    c.event(std::string("polygon closure evaluated [") + fam + "]");
  };
  closure("exact", se);
  if (e.series_ok) closure("series", ss);
}

// ---------------------------------------------------------------- EllipsoidArea() = 4 pi c2
static void sec_ellarea(Ctx& c, uint64_t i) {
  static const double fl[] = {0, 1e-6, -1e-6, gh::WGS84_F, 1.0 / 150, -1.0 / 150, 0.01, -0.01, 0.02, -0.02, 0.05, -0.05, 0.1, -0.1, 0.2, -0.2, 0.5, 0.9, 0.99, -1, -9, -99, 1e-10, -1e-10, 1e-15};
  static const double al[] = {1, gh::WGS84_A, 1e12};
  double a, f;
  if (i < 25 * 3) { f = fl[i % 25]; a = al[i / 25]; } else { a = c.rng.logu(1e-3, 1e12); f = c.rng.coin() ? c.rng.sign() * c.rng.logu(1e-12, 0.2) : 1 - std::exp(c.rng.uniform(std::log(0.01), std::log(100.0))); }
  std::string cls = std::string("ellipsoid-area/") + (i < 75 ? "ladder" : std::fabs(f) <= 0.2 ? "random-series-range" : "random-exact-range");
  c.count(cls, vh::hmix(vh::hmix(31, a), f), i < 75 && false);
  ref::Ell<q128> E(a, f); q128 A = E.area();
  // also by quadrature of the definition: 4 pi int_0^{pi/2} rho nu cos(phi) dphi (validates REF's closed form)
  q128 Aq = 4 * ref::pi<q128>() * ref::Qarea_quad<q128>(E, ref::pi<q128>() / 2);
  double es = (double)(ref::fabs(Aq - A) / A);
  c.obs("selftest: REF ellipsoid area closed form vs quadrature of the definition, relative", es);
  if (!(es < 1e-25)) { c.herr("REF ellipsoid area: closed form and quadrature disagree, relative " + std::to_string(es)); return; }
  J w = J().f("a", a).f("f", f);
  auto chk = [&](const char* solver, double got) {
    double rel = (double)(ref::fabs((q128)got - A) / A) / 2.220446049250313e-16;
    c.obs(std::string("EllipsoidArea() relative error [eps] ") + solver, rel, w);
    if (!(rel <= 4)) c.viol(std::string("oracle:C03/EllipsoidArea/") + solver, cls, J(w).f("got", got).str("ref", ref::qstr(A, 25)).f("err_eps", rel).f("tol_eps", 4));
  };
  if (std::fabs(f) <= 0.2) chk("series", Geodesic(a, f).EllipsoidArea());
  chk("exact", GeodesicExact(a, f).EllipsoidArea());
  chk("exact-delegating", Geodesic(a, f, true).EllipsoidArea());
}

// ---------------------------------------------------------------- oracle self-validation (never a verdict on the library)
static void sec_selftest(Ctx& c, uint64_t idx) {
  vh::Rng& r = c.rng;
  static const double fl[] = {0, gh::WGS84_F, 0.02, -0.02, 0.1, -0.1, 0.2, 0.5, -1.0};
  const double a = 6.4e6;
  c.count("selftest", vh::hmix(37, (uint64_t)idx), true);
  // (1) quadrature formulation (long double and float128) vs the independent ODE formulation: geodesic + Jacobi equation + dS = Q dlambda
  if (idx % 2 == 0) {
    double f = r.pick(fl);
    ref::Ell<long double> E(a, f);
    double lat1 = r.uniform(-60, 60), azi1 = r.sign() * r.uniform(25, 155), s12 = r.uniform(-1, 1) * 3e7;
    long double sb = (1 - f) * std::sin(lat1 * DEG), cb = std::cos(lat1 * DEG), hb = std::hypot(sb, cb);
    if (std::fabs(std::sin(azi1 * DEG)) * (double)(cb / hb) < 0.34) return;        // ODE in (phi, lambda) needs distance from the poles
    ref::GeodLine<long double> L(E, lat1, azi1);
    ref::GeodPos<long double> P = L.at_dist(s12), Q = ref::GeodOde<long double>(E).direct(lat1, azi1, s12, 3000);
    double em = (double)std::fabs(P.m12 - Q.m12), e1 = (double)std::fabs(P.M12 - Q.M12) * a, e2 = (double)std::fabs(P.M21 - Q.M21) * a, eS = (double)std::fabs(P.S12 - Q.S12) / a;
    J w = J().f("f", f).f("lat1", lat1).f("azi1", azi1).f("s12", s12);
    c.obs("selftest: REF m12 (J-integral form) vs Jacobi ODE [m]", em, w);
    c.obs("selftest: REF M12, M21 vs Jacobi ODE, *a [m]", std::max(e1, e2), w);
    c.obs("selftest: REF S12 (area-integral form) vs ODE dS = Q(phi) dlambda, /a [m]", eS, w);
    if (!(std::max(std::max(em, eS), std::max(e1, e2)) < 2e-8)) c.herr("oracle self-test failed: quadrature and ODE forms of m12/M12/M21/S12 disagree (f=" + std::to_string(f) + ")");
    ref::Ell<q128> Eq(a, f); ref::GeodLine<q128> Lq(Eq, (q128)lat1, (q128)azi1); ref::GeodPos<q128> Pq = Lq.at_dist((q128)s12);
    double ep = (double)ref::fabs(Pq.m12 - (q128)P.m12) + (double)(ref::fabs(Pq.M12 - (q128)P.M12) + ref::fabs(Pq.M21 - (q128)P.M21)) * a + (double)ref::fabs(Pq.S12 - (q128)P.S12) / a;
    c.obs("selftest: REF m12/M12/M21/S12 float128 vs long double [m]", ep);
    if (!(ep < 1e-9)) c.herr("oracle self-test failed: float128 and long double REF disagree by " + std::to_string(ep));
    return;
  }
  // (2) float128: S12 against its definition int Q(phi) dlambda by direct graded quadrature; m12, M12, M21 against their verbal
  //     definitions by finite differences of REF end points.  All ellipsoids of the ladder incl. the extremes, up to 3 circuits.
  static const double fx[] = {0, gh::WGS84_F, 0.02, -0.02, 0.1, -0.1, 0.2, -0.2, 0.5, -1.0, 0.9, 0.99, -9, -99};
  double f = r.pick(fx);
  ref::Ell<q128> E(a, f);
  {
    double lat1 = r.uniform(-89, 89), azi1 = r.sign() * r.uniform(0.5, 179.5), a12 = r.uniform(-1, 1) * (r.coin() ? 1080 : 200);
    ref::GeodLine<q128> L(E, (q128)lat1, (q128)azi1);
    ref::GeodPos<q128> P = L.at_arc((q128)a12);
    long np = 0; q128 Sd = ref::area_under_def<q128>(L, (q128)a12 * ref::deg<q128>(), &np);
    double e = (double)(ref::fabs(Sd - P.S12) / E.a);
    c.obs("selftest: REF S12 (area-integral form) vs int Q(phi) dlambda by direct quadrature of the definition, /a [m]", e, J().f("f", f).f("lat1", lat1).f("azi1", azi1).f("a12", a12).i("panels", np));
    if (!(e < 1e-14)) c.herr("oracle self-test failed: S12 area-integral form vs definition differ by " + std::to_string(e) + " m*a (f=" + std::to_string(f) + ")");
    // Q closed form vs quadrature
    double ph = r.uniform(-90, 90);
    double eq = (double)(ref::fabs(ref::Qarea<q128>(E, ref::sin((q128)ph * ref::deg<q128>())) - ref::Qarea_quad<q128>(E, (q128)ph * ref::deg<q128>())) / (E.a * E.a));
    c.obs("selftest: Q(phi) closed form vs quadrature of rho nu cos(phi), /a^2", eq);
    if (!(eq < 1e-25)) c.herr("oracle self-test failed: Q(phi) closed form vs quadrature " + std::to_string(eq));
  }
  if (idx % 4 == 1) {
    double lat1 = r.uniform(-89, 89), azi1 = r.uniform(-180, 180), s12 = r.uniform(-1, 1) * (r.coin() ? 1.2e8 : 2e7) * std::max(1.0, 1 - f);
    ref::GeodLine<q128> L(E, (q128)lat1, (q128)azi1);
    ref::GeodPos<q128> P = L.at_dist((q128)s12);
    // steps: displacements of 1e-7 / |M| of the smallest radius of curvature of the ellipsoid, Richardson-extrapolated (truncation ~1e-28 relative)
    double bb = a * (1 - f), Rmin = std::min(std::min(a, bb), std::min(bb * bb / a, a * a / bb)), amp0 = std::max(1.0, std::max(std::fabs((double)P.M12), std::fabs((double)P.M21)));
    q128 m, M12, M21; ref::jacobi_by_definition<q128>(E, (q128)lat1, (q128)azi1, (q128)s12, (q128)(1e-7 * Rmin / amp0 / std::max(std::max(a, bb), std::fabs((double)P.m12))), (q128)(1e-7 * Rmin / amp0), m, M12, M21);
    double em = (double)ref::fabs(m - P.m12), e1 = (double)ref::fabs(M12 - P.M12) * (double)E.b, e2 = (double)ref::fabs(M21 - P.M21) * (double)E.b;
    J w = J().f("f", f).f("lat1", lat1).f("azi1", azi1).f("s12", s12);
    c.obs("selftest: REF m12 vs definition (end point displacement per unit rotation of azi1) [m]", em, w);
    c.obs("selftest: REF M12, M21 vs definition (separation of initially parallel geodesics), *b [m]", std::max(e1, e2), w);
    double amp = std::max(1.0, std::max(std::fabs((double)P.M12), std::fabs((double)P.M21)));
    em /= amp; e1 /= amp; e2 /= amp;
    if (!(std::max(em, std::max(e1, e2)) < 1e-9)) c.herr("oracle self-test failed: m12/M12/M21 vs finite-difference definitions differ by " + std::to_string(std::max(em, std::max(e1, e2))) + " m (f=" + std::to_string(f) + ")");
  }
}

int main(int argc, char** argv) {
  std::vector<Section> S;
  S.push_back({"selftest", 240, 2400, false, sec_selftest, 300});
  S.push_back({"ellarea", 300, 3000, false, sec_ellarea, 60});
  S.push_back({"directed", NDIRECTED / 6, NDIRECTED, false, sec_directed, 60});
  S.push_back({"random", 16000, 400000, true, sec_random, 60});
  S.push_back({"line", 3000, 60000, true, sec_line, 60});
  S.push_back({"laws", 40000, 800000, true, sec_laws, 60});
  S.push_back({"inverse", 8000, 160000, true, sec_inverse, 120});
  S.push_back({"inverse_free", 3000, 60000, true, sec_inverse_free, 120});
  S.push_back({"inverse_thin", 4000, 80000, true, sec_inverse_thin, 120});
  S.push_back({"polygon", 1200, 24000, true, sec_polygon, 300});
  return vh::run_sections(argc, argv, S);
}
