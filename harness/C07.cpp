// C07 -- Geocentric and LocalCartesian conversions.
// Monitors evaluated next to every library call:
//   oracle   : closed-form forward in binary128; Reverse judged by the forward image of its result;
//              least-|h| certificate (global minimum distance to the meridian ellipse, oracle/ref_cart.hpp);
//              author's nm error measure for the documented 7 nm claim (WGS84-like, |h| <= 5000 km)
//   law      : M-less and M overloads agree bit-exactly; wrong-size M vector untouched; sign symmetries;
//              LocalCartesian::Reset == fresh object
//   matrix   : M orthonormal, det = +1, columns = east/north/up (from the definition) at the returned position
//   rigidity : LocalCartesian origin -> 0, coordinates = [e n u]^T (r - r0), pairwise distances preserved,
//              Forward/Reverse mutually inverse, matrix = R0^T * ENU
//   sentinel : every output argument written; ranges |lat|<=90, |lon|<=180
#include <GeographicLib/Geocentric.hpp>
#include <GeographicLib/LocalCartesian.hpp>
#include <memory>
#include "harness/common.hpp"
#include "oracle/ref_cart.hpp"
#include "oracle/ref_exact.hpp"

using GeographicLib::Geocentric; using GeographicLib::LocalCartesian;
using vh::Ctx; using vh::J; using vh::Section; using ref::q128;
static const double EPS = std::numeric_limits<double>::epsilon();
static const double DMAX = std::numeric_limits<double>::max();
static const double FW = 1 / 298.257223563, AW = 6378137.0;

// ------------------------------------------------------------------ tolerance model (see checks/C07.py)
// "round-off" residuals are measured in units of eps * L, L = max(|r|, a, b) (positions) or eps (matrix entries)
static const double K_FWD = 4;        // Forward vs closed form
static const double K_REV = 8;        // forward image of Reverse's result vs the input point ...
static const double K_Q = 4;          // ... plus this many units in the last place of each returned double (lat, lon, h)
static const double K_H = 12;         // |h| vs least distance to the ellipsoid (far field alone costs max(1,b/a)/2 <= 5)
static const double K_ORTH = 6;       // M^T M - I, det M - 1 (two normalisations by hypot: 3 eps each in the worst case)
static const double K_ORTH_LOC = 8;    // same for LocalCartesian's matrix (product of two rotations)
static const double K_ENU = 6;        // M columns vs ENU frame at the returned (lat, lon)
static const double K_LOC = 8;        // LocalCartesian coordinates / distances / inverses (scale max(|r|,|r0|,a))
static const double NM_DOC = 7.0;     // documented bound [nm], WGS84, |h| <= 5000 km
static const double K_NM = 2;         // safety factor on the documented figure

// ------------------------------------------------------------------ ellipsoids
struct Ell { double a, f; };
static std::string shape_of(double f) {
  if (f == 0) return "sphere";
  if (std::fabs(f) <= 1e-6) return "nearsph";
  if (f > 0) return f <= 0.01 ? "obl-wgs" : f <= 0.2929 ? "obl-mod" : "obl-ext";   // e^2 > 1/2 beyond f = 0.2929
  return f >= -0.5 ? "pro-mod" : "pro-ext";
}
static std::vector<Ell> make_ladder() {
  std::vector<Ell> L;
  const double fs[] = {0, 1e-10, -1e-10, FW, 0.1, -0.1, 0.5, -0.5, 0.9, 0.99, -1, -9}, as[] = {1, 6.4e6, 1e10};
  for (double f : fs) for (double a : as) L.push_back({a, f});
  const Ell extra[] = {{AW, FW}, {6378388.0, 1 / 297.0}, {6377397.155, 1 / 299.1528128}, {AW, 1 / 150.0}, {AW, -1 / 150.0},
                       {6.4e6, 0.01}, {6.4e6, -0.01}, {1, 1e-170}, {6.4e6, -1e-170}, {1, 0.2929}, {2, 0.75}, {6.4e6, 1e-6}, {1, -1e-6}};
  for (const Ell& e : extra) L.push_back(e);
  return L;
}
static const std::vector<Ell> LADDER = make_ladder();
static std::vector<Ell> make_wgslike() {
  return {{AW, FW}, {6.4e6, FW}, {6378388.0, 1 / 297.0}, {6377397.155, 1 / 299.1528128}, {6378137.0, 1 / 298.257222101}, {6378206.4, 1 / 294.9786982}};
}
static const std::vector<Ell> WGSLIKE = make_wgslike();
static Ell pick_ell(vh::Rng& r) {
  if (r.coin(0.85)) return r.pick(LADDER);
  Ell e; e.a = r.coin(0.3) ? std::floor(r.logu(1, 1e10)) : r.logu(1, 1e10);
  switch (r.below(3)) {
  case 0: e.f = 1 - std::pow(10.0, r.uniform(-2, 0)); break;              // oblate, f in (0, 0.99]
  case 1: e.f = -std::min(9.0, r.logu(1e-3, 10)); break;                 // prolate, b/a up to 10
  default: e.f = r.sign() * r.logu(1e-12, 1e-2); break; }
  return e;
}

// ------------------------------------------------------------------ regime of Geocentric::IntReverse (label only)
// The predicates below mirror the branch conditions of src/Geocentric.cpp:52-148 in the same double arithmetic;
// they are used for class labels and reach counters only, never for a verdict.
struct Regime { std::string name; std::string base; };
static Regime regime(const Ell& E, double X, double Y, double Z, Ctx* c = nullptr) {
  Regime g; const double a = E.a, f = E.f, e2 = f * (2 - f), e2m = (1 - f) * (1 - f), e2a = std::fabs(e2), e4a = e2 * e2, maxrad = 2 * a / EPS;
  double R = std::hypot(X, Y), h = std::hypot(R, Z);
  if (h > maxrad) { g.base = "farfield"; g.name = !std::isfinite(h) ? "farfield/overflow" : "farfield"; return g; }
  if (e4a == 0) { g.base = "sphere"; g.name = h == 0 ? "sphere/centre" : f != 0 ? "sphere/e4a-underflow" : "sphere"; return g; }
  double p = (R / a) * (R / a), q = e2m * ((Z / a) * (Z / a)), r = (p + q - e4a) / 6;
  if (f < 0) std::swap(p, q);
  if (e4a * q == 0 && r <= 0) {
    g.base = "degenerate";
    bool src_nonzero = f < 0 ? R != 0 : Z != 0;       // the coordinate whose square underflowed
    g.name = (R == 0 && Z == 0) ? "degenerate/centre" : src_nonzero ? "degenerate/q-underflow" : f < 0 ? "degenerate/axis-segment" : "degenerate/disc";
    return g;
  }
  double S = e4a * p * q / 4, r2 = r * r, r3 = r * r2, disc = S * (2 * r3 + S), u = r;
  if (disc >= 0) {
    double T3 = S + r3; bool neg = T3 < 0; T3 += neg ? -std::sqrt(disc) : std::sqrt(disc); double T = std::cbrt(T3);
    u += T + (T != 0 ? r2 / T : 0);
    g.base = "disc>=0"; g.name = T == 0 ? "disc>=0/T=0" : u < 0 ? "disc>=0/u<0" : "disc>=0/u>=0";
    if (c) { if (neg) c->event("reach: disc>=0 with T3<0 (negative sqrt sign)"); if (disc == 0) c->event("reach: disc == 0 exactly"); }
  } else {
    double ang = std::atan2(std::sqrt(-disc), -(S + r3)); u += 2 * r * std::cos(ang / 3);
    g.base = "disc<0"; g.name = "disc<0";
  }
  double v = std::sqrt(u * u + e4a * q), uv = u < 0 ? e4a * q / (v - u) : u + v;
  if (c && e2a * (uv - q) / (2 * v) < 0) c->event("reach: w clamped to 0 (uv < q)");
  return g;
}

// ------------------------------------------------------------------ helpers
static inline q128 qmax(q128 a, q128 b) { return a > b ? a : b; }
static const bool DEBUG_ALL = std::getenv("C07_DEBUG") != nullptr;
// natural length scale of a position: max(|r|, a, b)  (b > a only for prolate ellipsoids)
static inline q128 lscale(const ref::CartEll<q128>& Q, q128 r) { return qmax(qmax(r, Q.a), Q.b); }
// displacement caused by moving each of the *returned* doubles (lat, lon, h) by one unit in the last place:
// what "to round-off" can mean at best for a result delivered as three doubles
static q128 quantum(const ref::CartEll<q128>& Q, double lat, double lon, double h) {
  q128 sp, cp; ref::sincosd<q128>((q128)lat, sp, cp);
  q128 w2 = cp * cp + ref::sq(Q.bb) * sp * sp, w = sqrtq(w2), N = Q.a / w, Mr = Q.a * ref::sq(Q.bb) / (w2 * w);
  q128 ulat = ref::ulp_d(lat) * ref::deg<q128>(), ulon = ref::ulp_d(lon) * ref::deg<q128>();
  return ulat * fabsq(Mr + h) + ulon * fabsq((N + h) * cp) + ref::ulp_d(h);
}
// inputs so close to the centre / axis / equatorial plane that the squares (R/a)^2, (Z/a)^2 formed by the library are
// sub-normal or underflow (kept under separate, narrow keys)
// One defect, one key: every Reverse-based monitor that fails inside this zone reports under ZONE_KEY (detail.monitor
// names the monitor); every matrix monitor that fails because hypot(X,Y) is sub-normal reports under matrix:C07/reverse/*/subnormal-R.
static const char* const ZONE_KEY = "oracle:C07/reverse/forward-image/subnormal-squares";
static std::string zkey(const std::string& general, bool uzone) { return uzone ? std::string(ZONE_KEY) : general; }
// key for a Reverse-based LocalCartesian monitor: zone key, strongly-prolate key (f < -1.5 and error within the explained
// (b/a)^2 amplification), or the monitor's own general key
static std::string lkey(const std::string& general, bool uzone, const Ell& E, double err, double tol) {
  if (uzone) return ZONE_KEY;
  if (E.f < -1.5 && err <= tol * (1 - E.f) * (1 - E.f) / 4) return "oracle:C07/reverse/forward-image/strongly-prolate";
  return general;
}
static bool underflow_zone(const Ell& E, double R, double Z) {
  return (R != 0 && R < 1e-140 * E.a) || (Z != 0 && std::fabs(Z) < 1e-140 * E.a);
}
static uint64_t ell_h(const Ell& E) { return vh::hmix(vh::hmix(7, E.a), E.f); }
static bool bits_eq(double a, double b) { return vh::same_bits(a, b); }

// matrix monitors.  e,n,u = expected columns (already expressed in the frame M maps into)
static void check_matrix(Ctx& c, const std::string& site, const std::string& cls, const std::string& shape, const std::vector<double>& M,
                         const q128* e, const q128* n, const q128* u, const J& wit, const std::string& keysfx = "", double korth = K_ORTH) {
  long double orth = 0;
  for (int i = 0; i < 3; ++i) for (int j = 0; j < 3; ++j) {
    long double s = 0; for (int k = 0; k < 3; ++k) s += (long double)M[3 * k + i] * (long double)M[3 * k + j];
    orth = std::max(orth, std::fabs(s - (i == j ? 1.0L : 0.0L)));
  }
  long double det = (long double)M[0] * ((long double)M[4] * M[8] - (long double)M[5] * M[7]) - (long double)M[1] * ((long double)M[3] * M[8] - (long double)M[5] * M[6]) +
                    (long double)M[2] * ((long double)M[3] * M[7] - (long double)M[4] * M[6]);
  double eo = (double)(orth / EPS), ed = (double)(std::fabs(det - 1) / EPS);
  q128 me = 0;
  for (int k = 0; k < 3; ++k) { me = qmax(me, fabsq(M[3 * k] - e[k])); me = qmax(me, fabsq(M[3 * k + 1] - n[k])); me = qmax(me, fabsq(M[3 * k + 2] - u[k])); }
  double ee = (double)(me / EPS);
  if (keysfx.empty()) { c.obs(site + " |M^T M - I| [eps]", eo, wit); c.obs(site + " |det M - 1| [eps]", ed, wit); c.obs(site + " |M - ENU| [eps] " + shape, ee, wit); }
  else c.obs(site + " |M^T M - I| [eps] " + keysfx, eo, wit);
  const std::string ksite = keysfx.empty() ? site : std::string("reverse");      // sub-normal R: Geocentric::IntReverse's X/R, Y/R whatever the caller
  if (!(eo <= korth)) c.viol("matrix:C07/" + ksite + "/not-orthonormal" + keysfx, cls, J(wit).f("err_eps", eo));
  if (!(ed <= korth)) c.viol("matrix:C07/" + ksite + "/det-not-plus-one" + keysfx, cls, J(wit).f("det_minus_1_eps", ed).f("det", (double)det));
  if (!(ee <= K_ENU)) c.viol("matrix:C07/" + ksite + "/not-ENU-at-position" + keysfx, cls, J(wit).f("err_eps", ee));
}

// ------------------------------------------------------------------ monitor: Geocentric::Reverse on one point
struct RevResult { double lat, lon, h; bool ok; };
static RevResult check_reverse(Ctx& c, const Ell& E, const Geocentric& G, double X, double Y, double Z, const std::string& sec, const std::string& gcls) {
  const std::string shape = shape_of(E.f);
  Regime g = regime(E, X, Y, Z, &c);
  ref::CartEll<q128> Q(E.a, E.f);
  const q128 Rq = hypotq(X, Y), rq = hypotq(Rq, Z), scale = lscale(Q, rq);
  const bool uzone = underflow_zone(E, (double)Rq, Z);
  ref::MinDist<q128> md = ref::cart_mindist<q128>(Q, Rq, (q128)Z);
  const bool singular = md.evo <= 1;                       // inside / on the evolute: several normals through the point
  std::string cls = sec + "/" + g.name + (g.base == "disc>=0" || g.base == "disc<0" ? (md.inside ? "/in" : "/out") : "") + "/" + shape;
  c.count(cls, vh::hmix(vh::hmix(vh::hmix(ell_h(E), X), Y), Z));
  c.event("reverse: generator " + gcls);
  if (singular) c.event("reverse: point inside/on the evolute (singular region)");
  J wit = J().f("a", E.a).f("f", E.f).f("X", X).f("Y", Y).f("Z", Z);
  if (c.want_sample(cls)) c.sample(cls, wit);
  RevResult o; o.ok = false;
  // ---- call, sentinels, overload agreement
  double lat = vh::sentinel(1), lon = vh::sentinel(2), h = vh::sentinel(3);
  G.Reverse(X, Y, Z, lat, lon, h);
  if (vh::is_sentinel(lat, 1) || vh::is_sentinel(lon, 2) || vh::is_sentinel(h, 3)) { c.viol("sentinel:C07/reverse/output-not-written", cls, wit); return o; }
  std::vector<double> M(9); for (int i = 0; i < 9; ++i) M[i] = vh::sentinel(10 + i);
  double lat2 = vh::sentinel(1), lon2 = vh::sentinel(2), h2 = vh::sentinel(3);
  G.Reverse(X, Y, Z, lat2, lon2, h2, M);
  if (!(bits_eq(lat, lat2) && bits_eq(lon, lon2) && bits_eq(h, h2)))
    c.viol("law:C07/reverse/M-overload-differs", cls, J(wit).f("lat", lat).f("lon", lon).f("h", h).f("latM", lat2).f("lonM", lon2).f("hM", h2));
  bool Mwritten = true; for (int i = 0; i < 9; ++i) if (vh::is_sentinel(M[i], 10 + i)) Mwritten = false;
  if (!Mwritten) c.viol("sentinel:C07/reverse/M-not-written", cls, wit);
  if (c.rng.coin(0.1)) {      // a vector of the wrong length must be left alone and must not change the result
    size_t n = c.rng.pick(std::vector<size_t>{0, 8, 10, 3}); std::vector<double> W(n, 123.25); double la = 0, lo = 0, hh = 0;
    G.Reverse(X, Y, Z, la, lo, hh, W);
    bool same = W.size() == n; for (double w : W) same = same && w == 123.25;
    if (!same || !bits_eq(la, lat) || !bits_eq(lo, lon) || !bits_eq(hh, h)) c.viol("law:C07/reverse/wrong-size-M-vector", cls, J(wit).u("size", n));
  }
  if (c.only) std::fprintf(stderr, "Reverse a=%.17g f=%.17g (%.17g,%.17g,%.17g) -> lat=%.17g lon=%.17g h=%.17g regime=%s evo=%s mind=%s inside=%d ncrit=%d\n",
                           E.a, E.f, X, Y, Z, lat, lon, h, g.name.c_str(), ref::qstr(md.evo).c_str(), ref::qstr(md.d).c_str(), (int)md.inside, md.ncrit);
  J w2 = J(wit).f("lat", lat).f("lon", lon).f("h", h).str("regime", g.name);
  // ---- ranges
  if (!(std::fabs(lat) <= 90)) { c.viol("range:C07/reverse/lat", cls, w2); return o; }
  if (!(std::fabs(lon) <= 180)) { c.viol("range:C07/reverse/lon", cls, w2); return o; }
  const bool overflow = rq > (q128)DMAX;                    // |r| itself is not representable
  if (std::isnan(h) || (std::isinf(h) && !(overflow && h > 0))) { c.viol("range:C07/reverse/h-not-finite", cls, w2); return o; }
  // ---- forward image of the result
  if (std::isinf(h)) {
    q128 U[3]; ref::cart_direction<q128>(lat, lon, U); q128 P[3] = {X / rq, Y / rq, Z / rq};
    double ed = (double)(ref::dist3c(U, P) / EPS);
    c.obs("reverse direction error when |r| overflows [eps]", ed, w2);
    if (!(ed <= K_REV)) c.viol("oracle:C07/reverse/forward-image/overflow-direction", cls, J(w2).f("err_eps", ed));
    c.event("reverse: h = +inf accepted because |r| > DBL_MAX");
  } else {
    q128 F[3], P[3] = {X, Y, Z}; ref::cart_forward<q128>(Q, lat, lon, h, F);
    const q128 qz = quantum(Q, lat, lon, h), dres = ref::dist3c(F, P);
    double er = (double)(qmax(dres - K_Q * qz, 0) / (EPS * scale));
    c.obs("reverse forward-image residual [eps*max(|r|,a,b)] " + (uzone ? std::string("subnormal-squares zone") : g.base + " " + shape), (double)(dres / (EPS * scale)), w2);
    c.obs("reverse forward-image residual beyond K_Q ulp of (lat,lon,h) [eps*max(|r|,a,b)] " + (uzone ? std::string("subnormal-squares zone") : shape), er, w2);
    c.obs("reverse forward-image: 1-ulp output quantum [eps*max(|r|,a,b)] " + shape, (double)(qz / (EPS * scale)), w2);
    // b/a > 2.5: the library's h = (1 - e2m/k1) * ... cancels with amplification ~ (b/a)^2; kept under its own key while the
    // residual stays within that explained amplification, under the general key beyond it
    const double e2m_ = (1 - E.f) * (1 - E.f); const bool sprol = E.f < -1.5 && !uzone && er <= K_REV * e2m_ / 4;
    if (!(er <= K_REV)) { c.viol(sprol ? std::string("oracle:C07/reverse/forward-image/strongly-prolate") : zkey("oracle:C07/reverse/forward-image", uzone), cls, J(w2).str("monitor", "forward-image").f("resid_eps", er).f("resid_m", (double)dres).f("quantum_m", (double)qz));
      if (DEBUG_ALL) std::fprintf(stderr, "DBG fwdimg %s a=%.17g f=%.17g X=%.17g Y=%.17g Z=%.17g lat=%.17g h=%.17g er=%.4g\n", cls.c_str(), E.a, E.f, X, Y, Z, lat, h, er); }
    // ---- least-height certificate
    q128 hexp = md.inside ? -md.d : md.d;
    double eh = (double)(fabsq(h - hexp) / (EPS * scale));
    if (!singular) {
      c.obs("reverse |h - (+-)least distance| [eps*max(|r|,a,b)] " + (uzone ? std::string("subnormal-squares zone") : g.base + " " + shape), eh, w2);
      const bool sprolh = E.f < -1.5 && !uzone && eh <= K_H * (1 - E.f) * (1 - E.f) / 4;      // same cancellation as above, seen through h
      if (!(eh <= K_H)) { c.viol(sprolh ? std::string("oracle:C07/reverse/forward-image/strongly-prolate") : zkey("cert:C07/reverse/least-height", uzone), cls, J(w2).str("monitor", "least-height").f("err_eps", eh).f("least_distance", (double)md.d).b("inside", md.inside));
        if (DEBUG_ALL) std::fprintf(stderr, "DBG leasth %s a=%.17g f=%.17g X=%.17g Y=%.17g Z=%.17g lat=%.17g h=%.17g eh=%.4g\n", cls.c_str(), E.a, E.f, X, Y, Z, lat, h, eh); }
    } else {
      if (!uzone) c.obs("reverse |h - (+-)least distance| inside singular region (informational) [eps*max(|r|,a,b)] " + shape, eh, w2);
      if (!(eh <= K_H)) { c.event(uzone ? "reverse: |h| not least inside the singular region, underflow zone (exempt)" : "reverse: |h| not least inside the singular region (exempt by the property)");
        if (DEBUG_ALL && !uzone) std::fprintf(stderr, "DBG singh %s a=%.17g f=%.17g X=%.17g Y=%.17g Z=%.17g lat=%.17g h=%.17g eh=%.4g\n", cls.c_str(), E.a, E.f, X, Y, Z, lat, h, eh); }
      else c.event("reverse: |h| least also inside the singular region");
    }
  }
  // ---- rotation matrix = ENU at the returned position
  if (Mwritten) { q128 e[3], n[3], u[3]; ref::cart_enu<q128>(Q, lat, lon, e, n, u);
    const bool subR = Rq != 0 && Rq < 4 * (q128)std::numeric_limits<double>::min();     // X/R, Y/R formed from sub-normal numbers
    check_matrix(c, "reverse", cls, shape, M, e, n, u, w2, subR ? "/subnormal-R" : ""); }
  // ---- sign symmetries (bit-exact by construction of the algorithm: only R = hypot(X,Y) and Z enter lat and h)
  if (c.rng.coin(0.25)) {
    double la, lo, hh;
    G.Reverse(-X, Y, Z, la, lo, hh);
    if (!(bits_eq(la, lat) && bits_eq(hh, h))) c.viol("law:C07/reverse/mirror-X", cls, J(w2).f("lat_m", la).f("h_m", hh));
    if (Z != 0) { G.Reverse(X, Y, -Z, la, lo, hh);
      if (!(bits_eq(la, -lat) && bits_eq(hh, h) && bits_eq(lo, lon))) c.viol("law:C07/reverse/mirror-Z", cls, J(w2).f("lat_m", la).f("lon_m", lo).f("h_m", hh)); }
  }
  o.lat = lat; o.lon = lon; o.h = h; o.ok = true; return o;
}

// ------------------------------------------------------------------ generators
static double gen_lat(vh::Rng& r, std::string& cls) {
  switch (r.below(10)) {
  case 0: cls = "pole"; return r.sign() * 90.0;
  case 1: cls = "nearpole"; return r.sign() * (r.coin() ? vh::ulps(90.0, -r.range(1, 4)) : 90 - r.logu(1e-14, 1e-3));
  case 2: cls = "equator"; return r.coin(0.3) ? r.sign() * 0.0 : r.sign() * (r.coin(0.1) ? r.logu(1e-300, 1e-30) : r.logu(1e-30, 1e-9));
  case 3: cls = "mid"; return r.sign() * 15.0 * r.range(1, 5);
  default: cls = "mid"; return r.uniform(-90, 90);
  }
}
static double gen_lon(vh::Rng& r) {
  switch (r.below(8)) {
  case 0: return vh::ulps(90.0 * r.range(-4, 4), r.range(-2, 2));
  case 1: return r.uniform(-720, 720);
  case 2: return r.sign() * r.logu(1e3, 1e15);
  case 3: return r.sign() * (r.coin(0.3) ? 0.0 : r.logu(1e-300, 1e-9));
  default: return r.uniform(-180, 180);
  }
}
static double gen_h(vh::Rng& r, const Ell& E, std::string& cls) {
  const double a = E.a, b = E.a * (1 - E.f); double h;
  switch (r.below(8)) {
  case 0: h = 0; break;
  case 1: case 2: h = r.sign() * r.logu(1e-9, 1e20); break;
  case 3: h = r.uniform(-5e6, 5e6) * (a / 6.4e6); break;
  case 4: { const double sp[] = {-a, -b, -a * (1 - E.f) * (1 - E.f), -b * (1 - E.f), -std::min(a, b) / 2, -a / 2}; h = vh::ulps(r.pick(sp), r.range(-2, 2)); break; }
  case 5: h = -a * r.u(); break;
  default: h = r.sign() * r.logu(1e-9 * a, 10 * a); break;
  }
  double s = std::max(a, b);
  cls = h == 0 ? "h0" : std::fabs(h) < 1e-3 * a ? "small" : h <= -0.5 * std::min(a, b) ? "deep" : std::fabs(h) <= s ? "geophys" : std::fabs(h) > 1e3 * s ? "huge" : "high";
  return h;
}
// spread a cylindrical radius R >= 0 over (X, Y)
static void spread(vh::Rng& r, double R, double& X, double& Y) {
  switch (r.below(10)) {
  case 0: X = R; Y = r.coin() ? 0.0 : -0.0; break;
  case 1: X = -R; Y = r.coin() ? 0.0 : -0.0; break;
  case 2: X = r.coin() ? 0.0 : -0.0; Y = r.sign() * R; break;
  default: { double l = r.uniform(-M_PI, M_PI); X = R * std::cos(l); Y = R * std::sin(l); } }
}

// random cartesian inputs
static void gen_cart(vh::Rng& r, const Ell& E, double& X, double& Y, double& Z, std::string& gcls) {
  const double a = E.a, f = E.f, b = a * (1 - f), e2a = std::fabs(f * (2 - f)), ex = a * e2a, ez = a * e2a / (1 - f), maxrad = 2 * a / EPS;
  double R;
  switch (r.below(20)) {
  case 0: case 1: case 2: case 3: case 4: case 5: {          // 40 decades, any direction
    double rr = r.logu(1e-20, 1e20), th;
    switch (r.below(4)) { case 0: th = r.logu(1e-18, 1) * (r.coin() ? 1 : -1) + (r.coin() ? 0 : M_PI); gcls = "40dec/near-axis"; break;
      case 1: th = M_PI / 2 + r.sign() * r.logu(1e-18, 1); gcls = "40dec/near-equatorial-plane"; break;
      default: th = std::acos(r.uniform(-1, 1)); gcls = "40dec/any-direction"; }
    R = std::fabs(rr * std::sin(th)); Z = rr * std::cos(th); break; }
  case 6: case 7: case 8: {                                    // around the ellipsoid: foot point + height along the normal
    double be = r.coin(0.2) ? r.sign() * r.logu(1e-12, 1) : r.uniform(-M_PI / 2, M_PI / 2), hh = r.coin(0.2) ? 0 : r.sign() * r.logu(1e-12, 10) * a;
    double nx = b * std::cos(be), nz = a * std::sin(be), nn = std::hypot(nx, nz);
    R = std::fabs(a * std::cos(be) + hh * nx / nn); Z = b * std::sin(be) + hh * nz / nn; gcls = "around-surface"; break; }
  case 9: case 10: case 11: {                                  // inside the box of the evolute
    double u1 = r.coin(0.3) ? r.logu(1e-20, 1) : r.u(), u2 = r.coin(0.5) ? r.logu(1e-20, 1) : r.u();
    R = ex * u1; Z = r.sign() * ez * u2; gcls = "evolute-box"; if (f == 0) { R = a * u1 * 1e-3; Z = r.sign() * a * u2 * 1e-3; } break; }
  case 12: case 13: case 14: case 15: {                        // on the evolute, perturbed
    double t = r.coin(0.3) ? r.logu(1e-9, 1.5) : r.coin(0.3) ? M_PI / 2 - r.logu(1e-9, 1.5) : r.uniform(0, M_PI / 2);
    double ct = std::cos(t), st = std::sin(t); R = ex * ct * ct * ct; Z = r.sign() * ez * st * st * st;
    if (r.coin(0.7)) { double d = r.sign() * r.logu(1e-16, 1e-1); if (r.coin()) R *= 1 + d; else Z *= 1 + d; gcls = "evolute-relative-perturbation"; }
    else { if (r.coin()) R = vh::ulps(R, r.range(-4, 4)); else Z = vh::ulps(Z, r.range(-4, 4)); gcls = "evolute-ulp-perturbation"; }
    R = std::fabs(R);
    if (f == 0) { R = a * r.logu(1e-30, 1e-3); Z = a * r.sign() * r.logu(1e-30, 1e-3); gcls = "near-centre"; } break; }
  case 16: {                                                   // singular disc / segment: exactly Z = +-0 (oblate) or R = 0 (prolate) and tiny offsets
    double u1 = r.coin(0.2) ? r.logu(1e-12, 1) : r.u() * 1.05, tiny = r.coin(0.4) ? 0.0 : r.logu(5e-324, 1e-9 * a);
    if (f >= 0) { R = ex * u1; Z = r.sign() * tiny; } else { R = tiny; Z = r.sign() * ez * u1; }
    if (f == 0) { R = r.coin() ? 0.0 : tiny; Z = r.sign() * (r.coin() ? 0.0 : tiny); }
    gcls = "singular-disc"; break; }
  case 17: { R = r.coin() ? 0.0 : r.logu(1e-20, 1e20); Z = R == 0 ? r.sign() * r.logu(1e-20, 1e20) : r.sign() * 0.0; gcls = "axis-or-plane"; break; }
  default: {                                                   // far field
    double rr = r.coin(0.3) ? maxrad * (1 + r.uniform(-8, 8) * EPS) : r.logu(maxrad / 10, 1e300), th = std::acos(r.uniform(-1, 1));
    if (r.coin(0.2)) th = r.coin() ? 0 : M_PI / 2;
    R = std::fabs(rr * std::sin(th)); Z = rr * std::cos(th); gcls = "farfield"; break; }
  }
  spread(r, R, X, Y);
}

// ------------------------------------------------------------------ section: random Reverse
static void sec_rev(Ctx& c, uint64_t) {
  Ell E = pick_ell(c.rng); Geocentric G(E.a, E.f);
  double X, Y, Z; std::string gcls; gen_cart(c.rng, E, X, Y, Z, gcls);
  check_reverse(c, E, G, X, Y, Z, "rev", gcls);
}

// ------------------------------------------------------------------ section: directed Reverse catalogue
static const int NITEM = 150;
static void sec_revdir(Ctx& c, uint64_t idx) {
  vh::Rng& r = c.rng;
  const Ell E = LADDER[idx % LADDER.size()]; const int item = (int)((idx / LADDER.size()) % NITEM);
  Geocentric G(E.a, E.f);
  const double a = E.a, f = E.f, b = a * (1 - f), e2a = std::fabs(f * (2 - f)), ex = a * e2a, ez = a * e2a / (1 - f), maxrad = 2 * a / EPS;
  const bool first = idx < LADDER.size() * (uint64_t)NITEM;   // first pass: unperturbed where it matters
  const int k = first ? 0 : r.range(-4, 4);
  double R = 0, X = 0, Y = 0, Z = 0; bool haveXY = false; std::string gcls;
  auto sgn0 = [&](int bit) { return (item >> bit) & 1 ? -0.0 : 0.0; };
  if (item < 8) { X = sgn0(0); Y = sgn0(1); Z = sgn0(2); haveXY = true; gcls = "dir/centre"; }
  else if (item < 40) {         // rotation axis, R = 0 exactly
    const double zs[] = {5e-324, 1e-300, 1e-160 * a, 1e-20, 1e-10 * a, 0.5 * ez, ez, 0.5 * b, b, 2 * b, 1e3 * a, maxrad, 1e20 * a, 1e300, DMAX, b + ez};
    int j = (item - 8) / 2; Z = zs[j]; if (j == 6 || j == 8 || j == 11) Z = vh::ulps(Z, k); if (item & 1) Z = -Z;
    X = sgn0(3); Y = sgn0(4); haveXY = true; gcls = "dir/axis"; }
  else if (item < 72) {         // equatorial plane, Z = +-0 exactly
    const double rs[] = {5e-324, 1e-300, 1e-160 * a, 1e-20, 1e-10 * a, 0.5 * ex, ex, 0.5 * (a + ex), a, 2 * a, 1e3 * a, maxrad, 1e20 * a, 1e300, DMAX, 0.999 * ex};
    int j = (item - 40) / 2; R = rs[j]; if (j == 6 || j == 8 || j == 11) R = vh::ulps(R, k); Z = (item & 1) ? -0.0 : 0.0; gcls = "dir/equatorial-plane"; }
  else if (item < 96) {         // inside the singular disc (oblate) / segment (prolate) with a tiny offset off it
    const double us[] = {1e-9, 0.3, 0.9, 1 - 1e-12}, ts[] = {5e-324, 1e-300, 1e-200, 1e-160 * a, 1e-100 * a, 1e-17 * a};
    int j = item - 72; double u1 = us[j % 4], t = ts[j / 4] * (r.coin() ? 1 : -1);
    if (f >= 0) { R = ex * u1; Z = t; } else { R = std::fabs(t); Z = r.sign() * ez * u1; }
    if (f == 0) { R = std::fabs(t); Z = ts[(j + 1) % 6]; }
    gcls = "dir/singular-disc-offset"; }
  else if (item < 128) {        // the evolute, located by the oracle, +-k ulp
    const double tt[] = {1e-8, 1e-3, 0.1, 0.5, M_PI / 4, 1.0, 1.4, M_PI / 2 - 1e-3};
    int j = item - 96; q128 t = tt[j % 8], ct = cosq(t), st = sinq(t);
    R = (double)((q128)ex * ct * ct * ct); Z = (double)((q128)ez * st * st * st);
    int kk = first ? (j / 8) - 1 : k;           // first pass: -1, 0, +1, +2 ulp
    if (j & 8) R = vh::ulps(R, kk); else Z = vh::ulps(Z, kk);
    if (j & 16) Z = -Z;
    if (f == 0) { R = a * tt[j % 8] * 1e-8; Z = a * 1e-12 * (j & 16 ? -1 : 1); }
    gcls = "dir/evolute+-ulp"; }
  else if (item < 140) {        // the surface of the ellipsoid +-k ulp
    const double lats[] = {0, 1e-8, 30, 45, 60, 89.999999, 90, -45, -90, 1e-300, 89.99999999999999, -30};
    q128 P[3]; ref::CartEll<q128> Q(a, f); ref::cart_forward<q128>(Q, lats[item - 128], 0.0, 0.0, P);
    R = vh::ulps((double)P[0], k); Z = vh::ulps((double)P[2], first ? 0 : r.range(-4, 4)); gcls = "dir/surface+-ulp"; }
  else if (item < 146) {        // overflow corner cases: finite X, Y, Z whose norms overflow
    const double t[6][3] = {{1.5e308, 1.5e308, 0}, {1.5e308, 1.5e308, 1e308}, {DMAX, DMAX, DMAX}, {1e308, 0, 1.7e308}, {-1.7e308, 1e300, -1.7e308}, {1e300, 1e300, 1e300}};
    X = t[item - 140][0]; Y = t[item - 140][1]; Z = t[item - 140][2]; haveXY = true; gcls = "dir/overflow"; }
  else {                        // exact r == 0 of the cubic (T == 0 branch) where representable, and sub-normal coordinates
    switch (item - 146) {
    case 0: if (f < 0) { R = a * e2a; Z = 0; } else { R = 0; Z = a * e2a / (1 - f); } gcls = "dir/cusp-exact"; break;
    case 1: if (f < 0) { R = 0; Z = a * e2a / (1 - f); } else { R = a * e2a; Z = 0; } gcls = "dir/cusp-exact"; break;
    case 2: X = 5e-324; Y = 5e-324; Z = 0; haveXY = true; gcls = "dir/subnormal"; break;
    default: X = 1e-310; Y = -2e-310; Z = 3e-310; haveXY = true; gcls = "dir/subnormal"; break;
    }
  }
  if (!haveXY) { if (first && (item & 1) == 0) { X = R; Y = 0; } else spread(r, R, X, Y); }
  check_reverse(c, E, G, X, Y, Z, "revdir", gcls);
}

// ------------------------------------------------------------------ section: Forward vs closed form, then Reverse of the image
static void sec_fwd(Ctx& c, uint64_t) {
  vh::Rng& r = c.rng; Ell E = pick_ell(r); Geocentric G(E.a, E.f); const std::string shape = shape_of(E.f);
  std::string lc, hc; double lat = gen_lat(r, lc), lon = gen_lon(r), h = gen_h(r, E, hc);
  std::string cls = "fwd/" + lc + "/" + hc + "/" + shape;
  c.count(cls, vh::hmix(vh::hmix(vh::hmix(ell_h(E), lat), lon), h));
  J wit = J().f("a", E.a).f("f", E.f).f("lat", lat).f("lon", lon).f("h", h);
  if (c.want_sample(cls)) c.sample(cls, wit);
  double X = vh::sentinel(1), Y = vh::sentinel(2), Z = vh::sentinel(3);
  G.Forward(lat, lon, h, X, Y, Z);
  if (vh::is_sentinel(X, 1) || vh::is_sentinel(Y, 2) || vh::is_sentinel(Z, 3)) { c.viol("sentinel:C07/forward/output-not-written", cls, wit); return; }
  std::vector<double> M(9); for (int i = 0; i < 9; ++i) M[i] = vh::sentinel(10 + i);
  double X2, Y2, Z2; G.Forward(lat, lon, h, X2, Y2, Z2, M);
  if (!(bits_eq(X, X2) && bits_eq(Y, Y2) && bits_eq(Z, Z2))) c.viol("law:C07/forward/M-overload-differs", cls, wit);
  bool Mw = true; for (int i = 0; i < 9; ++i) if (vh::is_sentinel(M[i], 10 + i)) Mw = false;
  if (!Mw) c.viol("sentinel:C07/forward/M-not-written", cls, wit);
  if (r.coin(0.1)) { size_t n = r.pick(std::vector<size_t>{0, 8, 10, 1}); std::vector<double> W(n, -7.5); double x3, y3, z3; G.Forward(lat, lon, h, x3, y3, z3, W);
    bool same = W.size() == n; for (double w : W) same = same && w == -7.5;
    if (!same || !bits_eq(x3, X) || !bits_eq(y3, Y) || !bits_eq(z3, Z)) c.viol("law:C07/forward/wrong-size-M-vector", cls, J(wit).u("size", n)); }
  ref::CartEll<q128> Q(E.a, E.f); q128 P[3]; ref::cart_forward<q128>(Q, lat, lon, h, P);
  q128 L[3] = {X, Y, Z}; const q128 scale = lscale(Q, ref::norm3(P)), fdisp = ref::dist3c(L, P);
  double er = (double)(fdisp / (EPS * scale));
  // 1 - e2 sin^2(lat) as formed by the library cancels when e2 -> 1: separate narrow key for f > 0.65 (1/(1-e2) > 8)
  const double amp = 1 / ((1 - E.f) * (1 - E.f));      // 1/(1-e2)
  const std::string fsfx = E.f > 0.65 && er <= K_FWD * (1 + amp / 2) ? "/oblate-e2-near-1" : "";
  J w2 = J(wit).f("X", X).f("Y", Y).f("Z", Z);
  if (c.only) std::fprintf(stderr, "Forward a=%.17g f=%.17g (%.17g,%.17g,%.17g) -> %.17g %.17g %.17g  ref %s %s %s  err %.3g eps\n", E.a, E.f, lat, lon, h, X, Y, Z,
                           ref::qstr(P[0]).c_str(), ref::qstr(P[1]).c_str(), ref::qstr(P[2]).c_str(), er);
  c.obs("forward vs closed form [eps*max(|r|,a,b)] " + (E.f > 0.65 ? std::string("f>0.65") : shape), er, w2);
  if (E.f > 0.65) c.obs("forward vs closed form, f>0.65: error * (1-e2) [eps*max(|r|,a,b)]", er / amp, w2);
  if (!(er <= K_FWD)) c.viol("oracle:C07/forward/closed-form" + fsfx, cls, J(w2).f("err_eps", er).str("refX", ref::qstr(P[0])).str("refY", ref::qstr(P[1])).str("refZ", ref::qstr(P[2])));
  if (Mw) { q128 e[3], n[3], u[3]; ref::cart_enu<q128>(Q, lat, lon, e, n, u); check_matrix(c, "forward", cls, shape, M, e, n, u, w2); }
  // laws: symmetric in latitude; periodic in longitude where lon+360 is exact
  { double x3, y3, z3; G.Forward(-lat, lon, h, x3, y3, z3);
    if (!(bits_eq(x3, X) && bits_eq(y3, Y) && bits_eq(z3, -Z))) c.viol("law:C07/forward/mirror-lat", cls, wit);
    double l2 = lon + 360; if (l2 - 360 == lon && std::fabs(lon) > 1e-3 && std::fabs(lon) < 1e15 && (l2 > 0) == (lon > 0)) { G.Forward(lat, l2, h, x3, y3, z3);
      if (!(x3 == X && y3 == Y && z3 == Z)) c.viol("law:C07/forward/period-lon", cls, wit); } }
  // the image goes through Reverse with all its monitors; in addition |h_rev| cannot exceed |h| of the known pre-image
  RevResult o = check_reverse(c, E, G, X, Y, Z, "rt", "forward-image");
  if (o.ok && std::isfinite(o.h)) {
    q128 Rq = hypotq(X, Y); ref::MinDist<q128> md = ref::cart_mindist<q128>(Q, Rq, (q128)Z, 0);
    double ex = (double)((fabsq((q128)o.h) - fabsq((q128)h) - fdisp) / (EPS * scale));     // fdisp: Forward's own displacement
    if (md.evo > 1 && !underflow_zone(E, (double)Rq, Z)) { c.obs("round trip |h_rev| - |h_in| - forward displacement (must be <= round-off) [eps*max(|r|,a,b)]", ex, w2);
      if (!(ex <= K_H)) c.viol("cert:C07/roundtrip/height-exceeds-known-preimage", cls, J(w2).f("h_rev", o.h).f("excess_eps", ex)); }
  }
}

// ------------------------------------------------------------------ section: the documented nm claim
static void sec_nm(Ctx& c, uint64_t) {
  vh::Rng& r = c.rng; const Ell E = r.pick(WGSLIKE); const Geocentric& G0 = Geocentric::WGS84(); Geocentric G1(E.a, E.f);
  const bool usestatic = E.a == AW && E.f == FW && r.coin(); const Geocentric& G = usestatic ? G0 : G1;
  std::string lc; double lat = gen_lat(r, lc), lon = r.coin(0.8) ? r.uniform(-180, 180) : gen_lon(r);
  double h; std::string hc;
  switch (r.below(5)) { case 0: h = r.sign() * r.logu(1e-6, 5e6); hc = "log"; break; case 1: h = r.uniform(-5e6, -1e6); hc = "deep"; break;
    case 2: h = r.uniform(-1e4, 1e4); hc = "terrain"; break; case 3: h = r.coin(0.5) ? 0.0 : r.sign() * 5e6; hc = "edge"; break; default: h = r.uniform(-5e6, 5e6); hc = "uniform"; }
  const bool libfwd = r.coin();
  std::string cls = std::string("nm/") + (libfwd ? "lib-roundtrip/" : "oracle-fed/") + lc + "/" + hc;
  c.count(cls, vh::hmix(vh::hmix(vh::hmix(ell_h(E), lat), lon), h));
  J wit = J().f("a", E.a).f("f", E.f).f("lat", lat).f("lon", lon).f("h", h).b("lib_forward", libfwd);
  if (c.want_sample(cls)) c.sample(cls, wit);
  ref::CartEll<q128> Q(E.a, E.f); q128 P[3]; ref::cart_forward<q128>(Q, lat, lon, h, P);
  double X, Y, Z;
  if (libfwd) G.Forward(lat, lon, h, X, Y, Z); else { X = (double)P[0]; Y = (double)P[1]; Z = (double)P[2]; }
  q128 In[3] = {X, Y, Z}; const q128 disp = ref::dist3c(In, P);          // how far the double input is from the exact image
  double lat1, lon1, h1; G.Reverse(X, Y, Z, lat1, lon1, h1);
  // author's measure: ground distance on the ellipsoid for (dlat, dlon) combined with dh
  q128 sp, cp; ref::sincosd<q128>((q128)lat, sp, cp);
  q128 w2 = cp * cp + ref::sq(Q.bb) * sp * sp, N = Q.a / sqrtq(w2), Mr = Q.a * ref::sq(Q.bb) / (w2 * sqrtq(w2));
  q128 dphi = ((q128)lat1 - (q128)lat) * ref::deg<q128>(), dlam = remainderq((q128)lon1 - (q128)lon, 360) * ref::deg<q128>();
  q128 ds = hypotq(Mr * dphi, N * cp * dlam), err = hypotq(ds, (q128)h1 - (q128)h);
  // error measure for h < 0 (err_in): forward image of the result
  q128 F[3]; ref::cart_forward<q128>(Q, lat1, lon1, h1, F); q128 errin = ref::dist3c(F, In);
  const double sc = E.a / AW, tol = K_NM * NM_DOC * sc + (double)(disp * 1e9), e_nm = (double)(err * 1e9), ein_nm = (double)(errin * 1e9);
  J w3 = J(wit).f("X", X).f("Y", Y).f("Z", Z).f("lat1", lat1).f("lon1", lon1).f("h1", h1).f("input_displacement_nm", (double)(disp * 1e9));
  if (c.only) std::fprintf(stderr, "nm: err=%.3f nm errin=%.3f nm disp=%.3f nm tol=%.3f\n", e_nm, ein_nm, (double)(disp * 1e9), tol);
  c.obs(std::string("nm claim: hypot(ds,dh) minus input displacement [nm] ") + (libfwd ? "lib-roundtrip" : "oracle-fed"), e_nm - (double)(disp * 1e9), w3);
  c.obs("nm claim: forward image of result vs input point [nm]", ein_nm, w3);
  c.obs("nm claim: Forward displacement from closed form [nm]", libfwd ? (double)(disp * 1e9) : 0.0, w3);
  if (!(e_nm <= tol)) c.viol("oracle:C07/nm-claim/roundtrip-error", cls, J(w3).f("err_nm", e_nm).f("tol_nm", tol));
  if (!(ein_nm <= K_NM * NM_DOC * sc)) c.viol("oracle:C07/nm-claim/forward-image", cls, J(w3).f("err_nm", ein_nm).f("tol_nm", K_NM * NM_DOC * sc));
}

// ------------------------------------------------------------------ section: LocalCartesian
static void mat_local_expect(const ref::LocalFrame<q128>& F0, const q128* e, const q128* n, const q128* u, q128* e2, q128* n2, q128* u2) {
  // express the ENU vectors at the point in the local frame of the origin: v_local = [e0 n0 u0]^T v
  const q128* src[3] = {e, n, u}; q128* dst[3] = {e2, n2, u2};
  for (int k = 0; k < 3; ++k) { dst[k][0] = ref::dot3(F0.e, src[k]); dst[k][1] = ref::dot3(F0.n, src[k]); dst[k][2] = ref::dot3(F0.u, src[k]); }
}
static void sec_local(Ctx& c, uint64_t idx) {
  vh::Rng& r = c.rng; Ell E = pick_ell(r); if (r.coin(0.3)) E = r.pick(WGSLIKE);
  std::string lc, hc0; double lat0 = gen_lat(r, lc), lon0 = gen_lon(r), h0;
  switch (r.below(5)) { case 0: h0 = 0; hc0 = "h0=0"; break; case 1: h0 = r.sign() * 1e7 * (E.a / 6.4e6); hc0 = "h0=+-1e7"; break;
    case 2: h0 = r.sign() * r.logu(1e-3, 1e3) * E.a; hc0 = "h0=far"; break; default: h0 = r.uniform(-1e4, 1e4) * (E.a / 6.4e6); hc0 = "h0=terrain"; }
  const bool dflt = idx % 97 == 0;         // the default-constructed object: WGS84 at (0,0,0)
  if (dflt) { E = {AW, FW}; lat0 = lon0 = h0 = 0; }
  const std::string shape = shape_of(E.f); Geocentric Gown(E.a, E.f); const Geocentric& G = dflt ? Geocentric::WGS84() : Gown; ref::CartEll<q128> Q(E.a, E.f);
  std::string cls = dflt ? std::string("local/default-constructed") : "local/" + lc + "/" + hc0 + "/" + shape;
  J wit = J().f("a", E.a).f("f", E.f).f("lat0", lat0).f("lon0", lon0).f("h0", h0).b("default_constructed", dflt);
  LocalCartesian LC0;                                                // default object (WGS84)
  // the earth argument is copied by the constructor: the Geocentric handed over is afterwards re-used for another ellipsoid and / or
  // destroyed (the object must hold its own copy; use-after-free is ASan's to report) -- added after seeded change C07-r5s1
  std::unique_ptr<Geocentric> Gtmp(new Geocentric(E.a, E.f));
  LocalCartesian LCe(lat0, lon0, h0, dflt ? G : *Gtmp);
  if (r.coin(0.7)) *Gtmp = Geocentric(E.a * 1.37, E.f < 0.5 ? 0.25 : 0.01);
  if (r.coin(0.7)) Gtmp.reset();
  const LocalCartesian& LC = dflt ? LC0 : LCe;
  c.count(cls, vh::hmix(vh::hmix(vh::hmix(ell_h(E), lat0), lon0), h0));
  if (c.want_sample(cls)) c.sample(cls, wit);
  // inspectors
  { q128 ln = remainderq((q128)lon0, 360); if (fabsq(ln) == 180) ln = copysignq(180, (q128)lon0);
    if (!(LC.LatitudeOrigin() == lat0 && LC.HeightOrigin() == h0 && (q128)LC.LongitudeOrigin() == ln && LC.EquatorialRadius() == E.a && LC.Flattening() == E.f))
      c.viol("law:C07/local/inspectors", cls, J(wit).f("lat_o", LC.LatitudeOrigin()).f("lon_o", LC.LongitudeOrigin()).f("h_o", LC.HeightOrigin())); }
  // the frame from its definition (oracle); geocentric positions from the library's own Geocentric (judged separately in
  // section fwd), so that what is judged here is LocalCartesian's rigid motion and nothing else
  ref::LocalFrame<q128> F0(Q, lat0, lon0, h0);
  double r0d[3]; G.Forward(lat0, lon0, h0, r0d[0], r0d[1], r0d[2]);
  for (int k = 0; k < 3; ++k) F0.r0[k] = r0d[k];
  const q128 r0n = ref::norm3(F0.r0);
  // the geocentric point LocalCartesian::IntReverse hands to Geocentric::IntReverse, mirrored in double from the library's own
  // origin and rotation (used only to decide whether that point lies in the sub-normal-squares zone, i.e. for the key)
  std::vector<double> R0(9); { double t0, t1, t2; G.Forward(lat0, lon0, h0, t0, t1, t2, R0); }
  auto recon_zone = [&](double x, double y, double z) {
    double xc = r0d[0] + R0[0] * x + R0[1] * y + R0[2] * z, yc = r0d[1] + R0[3] * x + R0[4] * y + R0[5] * z, zc = r0d[2] + R0[6] * x + R0[7] * y + R0[8] * z;
    return underflow_zone(E, std::hypot(xc, yc), zc); };
  // origin -> (0,0,0)
  { double x = vh::sentinel(1), y = vh::sentinel(2), z = vh::sentinel(3); LC.Forward(lat0, lon0, h0, x, y, z);
    double eo = (double)(hypotq(hypotq(x, y), z) / (EPS * lscale(Q, r0n)));
    c.obs("local: image of the origin [eps*max(|r0|,a,b)]", eo, wit);
    if (!(eo <= 1)) c.viol("rigid:C07/local/origin-not-zero", cls, J(wit).f("x", x).f("y", y).f("z", z)); }
  // cloud of 8 points: some close to the origin, some anywhere
  const int NP = 8; double la[NP], lo[NP], hh[NP], lx[NP][3]; q128 gq[NP][3]; q128 scl[NP];
  for (int i = 0; i < NP; ++i) {
    std::string t1, t2;
    if (i < 3) { double d = r.logu(1e-9, 1e-1); la[i] = std::max(-90.0, std::min(90.0, lat0 + r.uniform(-1, 1) * d)); lo[i] = lon0 + r.uniform(-1, 1) * d; hh[i] = h0 + r.uniform(-1, 1) * d * E.a; }
    else { la[i] = gen_lat(r, t1); lo[i] = gen_lon(r); hh[i] = gen_h(r, E, t2); if (std::fabs(hh[i]) > 1e6 * E.a) hh[i] = r.sign() * r.logu(1, 1e6) * E.a; }
    double gd[3]; G.Forward(la[i], lo[i], hh[i], gd[0], gd[1], gd[2]);
    for (int k = 0; k < 3; ++k) gq[i][k] = gd[k];
    scl[i] = lscale(Q, qmax(ref::norm3(gq[i]), r0n));
    bool uz = underflow_zone(E, std::hypot(gd[0], gd[1]), gd[2]);
    double x = vh::sentinel(1), y = vh::sentinel(2), z = vh::sentinel(3); std::vector<double> M(9, vh::sentinel(4));
    LC.Forward(la[i], lo[i], hh[i], x, y, z);
    double x2, y2, z2; LC.Forward(la[i], lo[i], hh[i], x2, y2, z2, M);
    J w = J(wit).f("lat", la[i]).f("lon", lo[i]).f("h", hh[i]).f("x", x).f("y", y).f("z", z);
    if (vh::is_sentinel(x, 1) || vh::is_sentinel(y, 2) || vh::is_sentinel(z, 3)) { c.viol("sentinel:C07/local/forward-output-not-written", cls, w); return; }
    if (!(bits_eq(x, x2) && bits_eq(y, y2) && bits_eq(z, z2))) c.viol("law:C07/local/forward-M-overload-differs", cls, w);
    lx[i][0] = x; lx[i][1] = y; lx[i][2] = z;
    uz = uz || recon_zone(x, y, z);
    q128 ex[3]; F0.to_local(gq[i], ex); q128 L[3] = {x, y, z};
    double er = (double)(ref::dist3c(L, ex) / (EPS * scl[i]));
    c.obs("local: Forward vs [e n u]^T (r - r0) [eps*max(|r|,|r0|,a,b)] " + shape, er, w);
    if (!(er <= K_LOC)) c.viol("rigid:C07/local/forward-not-rigid-motion", cls, J(w).f("err_eps", er).f("want_x", (double)ex[0]).f("want_y", (double)ex[1]).f("want_z", (double)ex[2]));
    // matrix: ENU at the point expressed in the local frame
    { q128 e[3], n[3], u[3], e2[3], n2[3], u2[3]; ref::cart_enu<q128>(Q, la[i], lo[i], e, n, u); mat_local_expect(F0, e, n, u, e2, n2, u2);
      bool Mw = true; for (double m : M) if (vh::is_sentinel(m, 4)) Mw = false;
      if (!Mw) c.viol("sentinel:C07/local/forward-M-not-written", cls, w); else check_matrix(c, "local-forward", cls, shape, M, e2, n2, u2, w, "", K_ORTH_LOC); }
    // Reverse o Forward: judged through the geocentric image of the result
    if (std::isfinite(x) && std::isfinite(y) && std::isfinite(z)) {
      double l1 = vh::sentinel(1), o1 = vh::sentinel(2), h1 = vh::sentinel(3); LC.Reverse(x, y, z, l1, o1, h1);
      std::vector<double> M2(9, vh::sentinel(4)); double l2, o2, h2; LC.Reverse(x, y, z, l2, o2, h2, M2);
      if (vh::is_sentinel(l1, 1) || vh::is_sentinel(o1, 2) || vh::is_sentinel(h1, 3)) { c.viol("sentinel:C07/local/reverse-output-not-written", cls, w); return; }
      if (!(bits_eq(l1, l2) && bits_eq(o1, o2) && bits_eq(h1, h2))) c.viol("law:C07/local/reverse-M-overload-differs", cls, w);
      if (!(std::fabs(l1) <= 90 && std::fabs(o1) <= 180)) c.viol("range:C07/local/reverse-lat-lon", cls, J(w).f("lat1", l1).f("lon1", o1));
      else if (std::isfinite(h1)) {
        q128 B[3]; ref::cart_forward<q128>(Q, l1, o1, h1, B);
        double eb = (double)(qmax(ref::dist3c(B, gq[i]) - K_Q * quantum(Q, l1, o1, h1), 0) / (EPS * scl[i]));
        c.obs("local: Reverse(Forward(p)) position error beyond K_Q ulp of (lat,lon,h) [eps*max(|r|,|r0|,a,b)] " + (uz ? std::string("subnormal-squares zone") : shape), eb, w);
        if (!(eb <= K_LOC + K_REV)) c.viol(lkey("rigid:C07/local/reverse-of-forward", uz, E, eb, K_LOC + K_REV), cls, J(w).str("monitor", "local/reverse-of-forward").f("lat1", l1).f("lon1", o1).f("h1", h1).f("err_eps", eb));
        q128 e[3], n[3], u[3], e2[3], n2[3], u2[3]; ref::cart_enu<q128>(Q, l1, o1, e, n, u); mat_local_expect(F0, e, n, u, e2, n2, u2);
        bool Mw = true; for (double m : M2) if (vh::is_sentinel(m, 4)) Mw = false;
        const double Rr = std::hypot(gd[0], gd[1]); const bool subR = Rr != 0 && Rr < 4 * std::numeric_limits<double>::min();
        if (!Mw) c.viol("sentinel:C07/local/reverse-M-not-written", cls, w); else check_matrix(c, "local-reverse", cls, shape, M2, e2, n2, u2, J(w).f("lat1", l1).f("lon1", o1), subR ? "/subnormal-R" : "", K_ORTH_LOC);
      }
    }
  }
  // pairwise distances are preserved
  for (int i = 0; i < NP; ++i) for (int j = i + 1; j < NP; ++j) {
    q128 A[3] = {lx[i][0], lx[i][1], lx[i][2]}, B[3] = {lx[j][0], lx[j][1], lx[j][2]};
    q128 dl = ref::dist3c(A, B), dg = ref::dist3c(gq[i], gq[j]);
    double ed = (double)(fabsq(dl - dg) / (EPS * qmax(scl[i], scl[j])));
    c.obs("local: pairwise distance local vs geocentric [eps*max(|r|,|r0|,a,b)]", ed, J(wit).i("i", i).i("j", j));
    if (!(ed <= K_LOC)) c.viol("rigid:C07/local/distance-not-preserved", cls, J(wit).f("lat_i", la[i]).f("lon_i", lo[i]).f("h_i", hh[i]).f("lat_j", la[j]).f("lon_j", lo[j]).f("h_j", hh[j]).f("d_local", (double)dl).f("d_geocentric", (double)dg).f("err_eps", ed));
  }
  // Reverse on local points incl. the axes: geocentric image must be r0 + x e0 + y n0 + z u0; then Forward o Reverse
  for (int i = 0; i < 6; ++i) {
    double d = r.sign() * r.logu(1e-6, 1e3) * (r.coin() ? 1.0 : E.a), x = 0, y = 0, z = 0;
    switch (i) { case 0: x = d; break; case 1: y = d; break; case 2: z = d; break; case 3: break;
      default: x = r.sign() * r.logu(1e-6, 1e2) * E.a; y = r.sign() * r.logu(1e-6, 1e2) * E.a; z = r.sign() * r.logu(1e-6, 1e2) * E.a; }
    double l1, o1, h1; LC.Reverse(x, y, z, l1, o1, h1);
    J w = J(wit).f("x", x).f("y", y).f("z", z).f("lat1", l1).f("lon1", o1).f("h1", h1);
    q128 xl[3] = {x, y, z}, want[3], got[3]; F0.to_geocentric(xl, want);
    q128 sc = lscale(Q, qmax(ref::norm3(want), r0n));
    const bool uz = underflow_zone(E, (double)hypotq(want[0], want[1]), (double)want[2]) || recon_zone(x, y, z);
    if (!(std::fabs(l1) <= 90 && std::fabs(o1) <= 180 && std::isfinite(h1))) { c.viol("range:C07/local/reverse-lat-lon", cls, w); continue; }
    ref::cart_forward<q128>(Q, l1, o1, h1, got);
    const q128 qz = K_Q * quantum(Q, l1, o1, h1);
    double er = (double)(qmax(ref::dist3c(got, want) - qz, 0) / (EPS * sc));
    c.obs(std::string("local: Reverse image vs r0 + x e + y n + z u beyond K_Q ulp of (lat,lon,h) [eps*max(|r|,|r0|,a,b)] ") + (uz ? "subnormal-squares zone" : i < 3 ? "axes" : "general"), er, w);
    if (!(er <= K_LOC + K_REV)) c.viol(lkey(i < 3 ? "rigid:C07/local/axes" : "rigid:C07/local/reverse-not-rigid-motion", uz, E, er, K_LOC + K_REV), cls, J(w).str("monitor", "local/reverse-image").f("err_eps", er));
    double x2, y2, z2; LC.Forward(l1, o1, h1, x2, y2, z2);
    // Forward's own deviation from the closed form at (l1,o1,h1) is not LocalCartesian's: measure it and allow for it
    double gl[3]; G.Forward(l1, o1, h1, gl[0], gl[1], gl[2]); q128 glq[3] = {gl[0], gl[1], gl[2]}; const q128 fd = ref::dist3c(glq, got);
    double ef = (double)(qmax(hypotq(hypotq(x2 - (q128)x, y2 - (q128)y), z2 - (q128)z) - qz - fd, 0) / (EPS * sc));
    c.obs(std::string("local: Forward(Reverse(x)) - x beyond K_Q ulp of (lat,lon,h) [eps*max(|r|,|r0|,a,b)]") + (uz ? " subnormal-squares zone" : ""), ef, w);
    if (!(ef <= 2 * K_LOC + K_REV)) c.viol(lkey("rigid:C07/local/forward-of-reverse", uz, E, ef, 2 * K_LOC + K_REV), cls, J(w).str("monitor", "local/forward-of-reverse").f("x2", x2).f("y2", y2).f("z2", z2).f("err_eps", ef));
  }
  // Reset to another origin == a fresh object (history independence), bit-exactly
  if (!dflt) {
    std::string t; double latn = gen_lat(r, t), lonn = gen_lon(r), hn = r.uniform(-1e3, 1e3);
    LocalCartesian A(lat0, lon0, h0, G); A.Reset(latn, lonn, hn); LocalCartesian B(latn, lonn, hn, G);
    double xa, ya, za, xb, yb, zb; A.Forward(la[4], lo[4], hh[4], xa, ya, za); B.Forward(la[4], lo[4], hh[4], xb, yb, zb);
    double l1, o1, h1, l2, o2, h2; A.Reverse(lx[1][0], lx[1][1], lx[1][2], l1, o1, h1); B.Reverse(lx[1][0], lx[1][1], lx[1][2], l2, o2, h2);
    if (!(bits_eq(xa, xb) && bits_eq(ya, yb) && bits_eq(za, zb) && bits_eq(l1, l2) && bits_eq(o1, o2) && bits_eq(h1, h2)))
      c.viol("law:C07/local/reset-differs-from-fresh-object", cls, J(wit).f("lat_n", latn).f("lon_n", lonn).f("h_n", hn));
  }
}

// ------------------------------------------------------------------ section: object histories of ONE LocalCartesian
// A random sequence of Reset calls (new origin; same lat/lon with another height; same origin again; lon +- 360 k; lat as -0/+0;
// only lat or only lon changed) on one object that was default-constructed, constructed from a Geocentric, or constructed with an
// origin, interleaved with Forward / Reverse / matrix calls and the inspectors.  After every step the object must be
// indistinguishable, bit for bit, from a FRESH object constructed directly with the arguments of the latest Reset, and must map
// its origin to (0,0,0).
static bool same_as_fresh(Ctx& c, const LocalCartesian& A, const LocalCartesian& F, const Ell& E, std::string& what) {
  vh::Rng& r = c.rng; std::string t1, t2;
  for (int k = 0; k < 2; ++k) {
    double la = gen_lat(r, t1), lo = gen_lon(r), hh = gen_h(r, E, t2); if (std::fabs(hh) > 1e6 * E.a) hh = r.sign() * r.logu(1, 1e6) * E.a;
    double xa, ya, za, xf, yf, zf; std::vector<double> Ma(9, 1.5), Mf(9, 1.5);
    if (k) { A.Forward(la, lo, hh, xa, ya, za, Ma); F.Forward(la, lo, hh, xf, yf, zf, Mf); } else { A.Forward(la, lo, hh, xa, ya, za); F.Forward(la, lo, hh, xf, yf, zf); }
    if (!(bits_eq(xa, xf) && bits_eq(ya, yf) && bits_eq(za, zf))) { what = "Forward"; return false; }
    for (int i = 0; i < 9; ++i) if (!bits_eq(Ma[i], Mf[i])) { what = "Forward matrix"; return false; }
    double x = r.sign() * r.logu(1e-6, 10) * E.a, y = r.sign() * r.logu(1e-6, 10) * E.a, z = r.coin(0.3) ? 0.0 : r.sign() * r.logu(1e-6, 10) * E.a;
    if (r.coin(0.2)) x = y = 0;
    double l1, o1, h1, l2, o2, h2;
    if (k) { A.Reverse(x, y, z, l1, o1, h1, Ma); F.Reverse(x, y, z, l2, o2, h2, Mf); } else { A.Reverse(x, y, z, l1, o1, h1); F.Reverse(x, y, z, l2, o2, h2); }
    if (!(bits_eq(l1, l2) && bits_eq(o1, o2) && bits_eq(h1, h2))) { what = "Reverse"; return false; }
    for (int i = 0; i < 9; ++i) if (!bits_eq(Ma[i], Mf[i])) { what = "Reverse matrix"; return false; }
  }
  return true;
}
static void sec_hist(Ctx& c, uint64_t) {
  vh::Rng& r = c.rng; Ell E = r.coin(0.4) ? r.pick(WGSLIKE) : pick_ell(r);
  const int ctor = (int)r.below(3);                    // 0 default (WGS84), 1 from a Geocentric, 2 with an origin
  if (ctor == 0) E = {AW, FW};
  Geocentric Gown(E.a, E.f); const Geocentric& G = ctor == 0 ? Geocentric::WGS84() : Gown;
  ref::CartEll<q128> Q(E.a, E.f);
  std::string t; double lat = 0, lon = 0, h = 0;       // arguments of the latest Reset / constructor = the current origin
  if (ctor == 2) { lat = gen_lat(r, t); lon = gen_lon(r); h = r.coin(0.3) ? 0.0 : r.uniform(-1e4, 1e7) * (E.a / 6.4e6); }
  std::unique_ptr<Geocentric> Gtmp(new Geocentric(G));     // constructor argument that does not outlive the construction unchanged (see sec_local)
  LocalCartesian Ad, Ag(*Gtmp), Ao(lat, lon, h, *Gtmp);
  if (r.coin(0.7)) *Gtmp = Geocentric(E.a * 0.61, E.f < 0.5 ? 0.3 : 0.02);
  if (r.coin(0.7)) Gtmp.reset();
  LocalCartesian& A = ctor == 0 ? Ad : ctor == 1 ? Ag : Ao;
  const char* cname = ctor == 0 ? "default-constructed" : ctor == 1 ? "constructed-from-Geocentric" : "constructed-with-origin";
  const int nops = r.range(4, 16); std::string log; uint64_t hsh = vh::hmix(vh::hmix(vh::hmix(ell_h(E), lat), lon), h);
  for (int op = 0; op <= nops; ++op) {
    std::string kind = "initial";
    if (op > 0) {
      switch (r.below(9)) {
      case 0: case 1: kind = "same-latlon-new-height"; h = r.coin(0.2) ? 0.0 : r.coin() ? h + r.sign() * r.logu(1e-6, 1e6) : r.uniform(-1e4, 1e7) * (E.a / 6.4e6); break;
      case 2: kind = "same-origin-again"; break;
      case 3: { kind = "lon-shifted-by-360k"; double l2 = lon + 360.0 * r.range(-3, 3); lon = l2; if (r.coin()) h = r.uniform(-1e4, 1e4); break; }
      case 4: kind = "lat-sign-of-zero-or-same-lat"; if (lat == 0) lat = -lat; lon = gen_lon(r); break;
      case 5: kind = "same-lon-new-lat"; lat = gen_lat(r, t); if (r.coin()) h = r.uniform(-1e4, 1e4); break;
      case 6: kind = "back-to-000"; lat = 0; lon = 0; h = r.coin() ? 0.0 : r.uniform(-1e4, 1e4); break;
      default: kind = "new-origin"; lat = gen_lat(r, t); lon = gen_lon(r); h = r.coin(0.3) ? 0.0 : r.uniform(-1e4, 1e7) * (E.a / 6.4e6); break;
      }
      if (r.coin(0.15)) { LocalCartesian B(A); B.Reset(gen_lat(r, t), gen_lon(r), 7.0); kind += "+copy-reset-elsewhere"; }   // a copy must not share state
      if (h == 0 && r.coin(0.3)) A.Reset(lat, lon); else A.Reset(lat, lon, h);      // h0 has a default argument
    }
    hsh = vh::hmix(vh::hmix(vh::hmix(hsh, lat), lon), h);
    if (log.size() < 400) log += (log.empty() ? "" : " | ") + kind + "(" + vh::jnum(lat) + "," + vh::jnum(lon) + "," + vh::jnum(h) + ")";
    const std::string cls = std::string("hist/") + cname + "/" + kind.substr(0, kind.find('+'));
    c.count(cls, hsh);
    J wit = J().f("a", E.a).f("f", E.f).str("object", cname).i("step", op).str("history", log).f("lat0", lat).f("lon0", lon).f("h0", h);
    if (c.want_sample(cls)) c.sample(cls, wit);
    LocalCartesian F(lat, lon, h, G);                  // the fresh object
    // inspectors
    { q128 ln = remainderq((q128)lon, 360); if (fabsq(ln) == 180) ln = copysignq(180, (q128)lon);
      if (!(bits_eq(A.LatitudeOrigin(), F.LatitudeOrigin()) && bits_eq(A.LongitudeOrigin(), F.LongitudeOrigin()) && bits_eq(A.HeightOrigin(), F.HeightOrigin()) &&
            A.LatitudeOrigin() == lat && (q128)A.LongitudeOrigin() == ln && A.HeightOrigin() == h && A.EquatorialRadius() == E.a && A.Flattening() == E.f))
        c.viol("history:C07/local/inspectors-after-reset", cls, J(wit).f("lat_o", A.LatitudeOrigin()).f("lon_o", A.LongitudeOrigin()).f("h_o", A.HeightOrigin())); }
    // origin -> (0,0,0); Reverse(0,0,0) -> origin (through its forward image)
    { double x, y, z; A.Forward(lat, lon, h, x, y, z); q128 r0[3]; ref::cart_forward<q128>(Q, lat, lon, h, r0); const q128 sc = lscale(Q, ref::norm3(r0));
      double eo = (double)(hypotq(hypotq(x, y), z) / (EPS * sc));
      c.obs("history: image of the current origin [eps*max(|r0|,a,b)]", eo, wit);
      if (!(eo <= 1)) c.viol("history:C07/local/origin-not-zero-after-reset", cls, J(wit).f("x", x).f("y", y).f("z", z));
      double l1, o1, h1; A.Reverse(0, 0, 0, l1, o1, h1);
      if (std::fabs(l1) <= 90 && std::fabs(o1) <= 180 && std::isfinite(h1)) { q128 b[3]; ref::cart_forward<q128>(Q, l1, o1, h1, b);
        double eb = (double)(qmax(ref::dist3c(b, r0) - K_Q * quantum(Q, l1, o1, h1), 0) / (EPS * sc));
        double r0d[3]; G.Forward(lat, lon, h, r0d[0], r0d[1], r0d[2]); const bool uz = underflow_zone(E, std::hypot(r0d[0], r0d[1]), r0d[2]);
        if (!uz) c.obs("history: Reverse(0,0,0) vs the current origin beyond K_Q ulp [eps*max(|r0|,a,b)]", eb, wit);
        if (!(eb <= K_LOC + K_REV)) c.viol(lkey("history:C07/local/reverse-of-zero-not-origin", uz, E, eb, K_LOC + K_REV), cls, J(wit).f("lat1", l1).f("lon1", o1).f("h1", h1).f("err_eps", eb)); } }
    // everything else: bit for bit the fresh object
    std::string what;
    if (!same_as_fresh(c, A, F, E, what)) c.viol("history:C07/local/reset-differs-from-fresh-object", cls, J(wit).str("differs_in", what));
  }
}

// ------------------------------------------------------------------ section: oracle self-validation (failures are harness errors)
static void sec_self(Ctx& c, uint64_t idx) {
  vh::Rng& r = c.rng; Ell E = pick_ell(r); ref::CartEll<q128> Q(E.a, E.f); ref::CartEll<long double> L(E.a, E.f);
  c.count("selftest/oracle", vh::hmix(ell_h(E), (uint64_t)idx), true);
  // (1) a point built as foot + h * normal (exact trigonometry) must have least distance |h| when h > 0,
  //     and the closed-form forward must reproduce the construction
  q128 be = r.uniform(-M_PI / 2, M_PI / 2), hq = r.logu(1e-6, 1e6) * E.a;
  q128 nx = Q.b * cosq(be), nz = Q.a * sinq(be), nn = hypotq(nx, nz), Rr = Q.a * cosq(be) + hq * nx / nn, Zz = Q.b * sinq(be) + hq * nz / nn;
  ref::MinDist<q128> md = ref::cart_mindist<q128>(Q, Rr, Zz);
  if (!(fabsq(md.d - hq) <= 1e-28Q * qmax(hq, Q.a)) || md.inside) c.herr("selftest: least distance of an exterior point differs from its construction height");
  { q128 X[3]; ref::cart_forward_sc<q128>(Q, nz / nn, nx / nn, 0, 1, hq, X);
    if (!(hypotq(X[0] - Rr, X[2] - Zz) <= 1e-30Q * qmax(hq, Q.a))) c.herr("selftest: closed-form forward differs from foot + h*normal"); }
  // (2) binary128 vs long double
  double X, Y, Z; std::string g; gen_cart(r, E, X, Y, Z, g);
  { q128 Rq = hypotq(X, Y); long double Rl = hypotl(X, Y);
    ref::MinDist<q128> a = ref::cart_mindist<q128>(Q, Rq, (q128)Z); ref::MinDist<long double> b = ref::cart_mindist<long double>(L, Rl, (long double)Z);
    q128 sc = qmax(hypotq(Rq, Z), Q.a);
    if (!(fabsq(a.d - (q128)b.d) <= 1e-16Q * sc)) c.herr("selftest: least distance differs between binary128 and long double: " + ref::qstr(a.d) + " vs " + ref::qstr(b.d));
    // (3) brute force: no sampled point of the ellipse is closer than the certified minimum
    const int NS = 4000; q128 best = -1;
    for (int i = 0; i <= NS; ++i) { q128 bq = -M_PIq / 2 + M_PIq * i / NS; q128 D = hypotq(Rq - Q.a * cosq(bq), (q128)Z - Q.b * sinq(bq)); if (best < 0 || D < best) best = D; }
    if (!(a.d <= best * (1 + 1e-25Q) + 1e-30Q * sc)) c.herr("selftest: brute-force scan found a closer point than the certified minimum");
    if (!(best - a.d <= (M_PIq / NS) * qmax(Q.a, Q.b) + 1e-30Q * sc)) c.herr("selftest: certified minimum far below the brute-force scan: a=" + vh::jnum(E.a) + " f=" + vh::jnum(E.f) + " X=" + vh::jnum(X) + " Y=" + vh::jnum(Y) + " Z=" + vh::jnum(Z) + " cert=" + ref::qstr(a.d) + " scan=" + ref::qstr(best)); }
  // (4) closed forms: sphere, rotation axis of an oblate ellipsoid, equatorial plane outside the disc
  { double t = r.logu(1e-10, 1e10) * E.a;
    if (E.f == 0) { ref::MinDist<q128> s = ref::cart_mindist<q128>(Q, (q128)std::fabs(X), (q128)Z); if (!(fabsq(s.d - fabsq(hypotq(X, Z) - Q.a)) <= 1e-30Q * qmax(hypotq(X, Z), Q.a))) c.herr("selftest: sphere distance"); }
    if (E.f > 0) { ref::MinDist<q128> s = ref::cart_mindist<q128>(Q, (q128)0, (q128)t); if (!(fabsq(s.d - fabsq(t - Q.b)) <= 1e-30Q * qmax((q128)t, Q.a))) c.herr("selftest: oblate axis distance"); }
    if (E.f < 0) { ref::MinDist<q128> s = ref::cart_mindist<q128>(Q, (q128)t, (q128)0); if (!(fabsq(s.d - fabsq(t - Q.a)) <= 1e-30Q * qmax((q128)t, Q.a))) c.herr("selftest: prolate equatorial distance"); } }
  // (5) ENU frame is right-handed orthonormal and u is the outward normal in both precisions
  { std::string t; double lat = gen_lat(r, t), lon = gen_lon(r); q128 e[3], n[3], u[3]; long double el[3], nl[3], ul[3];
    ref::cart_enu<q128>(Q, lat, lon, e, n, u); ref::cart_enu<long double>(L, lat, lon, el, nl, ul);
    q128 m = 0; for (int k = 0; k < 3; ++k) { m = qmax(m, fabsq(e[k] - el[k])); m = qmax(m, fabsq(n[k] - nl[k])); m = qmax(m, fabsq(u[k] - ul[k])); }
    if (!(m <= 1e-17Q)) c.herr("selftest: ENU frame differs between precisions");
    if (!(fabsq(ref::dot3(e, n)) <= 1e-30Q && fabsq(ref::dot3(e, u)) <= 1e-30Q && fabsq(ref::norm3(n) - 1) <= 1e-30Q && n[2] >= -1e-30Q)) c.herr("selftest: ENU frame not orthonormal / north not northward"); }
}

int main(int argc, char** argv) {
  std::vector<Section> S;
  const uint64_t ndir = LADDER.size() * (uint64_t)NITEM;
  S.push_back({"revdir", ndir, 12 * ndir, false, sec_revdir});
  S.push_back({"rev", 120000, 8000000, true, sec_rev});
  S.push_back({"fwd", 60000, 3000000, true, sec_fwd});
  S.push_back({"nm", 60000, 2000000, true, sec_nm});
  S.push_back({"local", 10000, 500000, true, sec_local});
  S.push_back({"hist", 12000, 400000, true, sec_hist});
  S.push_back({"self", 2000, 50000, true, sec_self});
  return vh::run_sections(argc, argv, S);
}
