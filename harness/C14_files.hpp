// Synthetic data files for the C14 harnesses: a small gravity model (.egm/.egm.cof), a small
// magnetic model (.wmm/.wmm.cof) and a small geoid raster (.pgm), written from the format
// descriptions read in GravityModel.cpp (ReadMetadata, ctor), MagneticModel.cpp (ReadMetadata,
// ctor), SphericalEngine.cpp (coeff::readcoeffs: int32 N, int32 M, then C column-major by order m
// (n = m..N), then S for m >= 1; little endian doubles) and Geoid.cpp (P5 header with
// "# Offset"/"# Scale" comments, width even, height odd, maxval 65535, big-endian 16-bit pixels).
// Only the harness uses these; values are arbitrary but physically plausible so that every code
// path of the evaluators (zonal subtraction, correction term, time interpolation, constant
// term) is exercised.
#pragma once
#include <cmath>
#include <cstdint>
#include <cstdio>
#include <cstdlib>
#include <cstring>
#include <string>
#include <vector>
#include <sys/stat.h>
#include <unistd.h>
#include <dirent.h>
#include "harness/common.hpp"

namespace c14f {

inline void put_i32(std::string& o, int32_t v) { o.append(reinterpret_cast<const char*>(&v), 4); }
inline void put_f64(std::string& o, double v) { o.append(reinterpret_cast<const char*>(&v), 8); }

// one coefficient block in readcoeffs layout.  scale0 = magnitude at degree 1.
// c00: value of C[0,0]; c20: if non-NaN value of C[2,0]
inline void put_coeffs(std::string& o, vh::Rng& r, int N, int M, double scale0, double c00,
                       double c20 = std::nan("")) {
  put_i32(o, N); put_i32(o, M);
  if (N < 0) return;
  // C
  for (int m = 0; m <= M; ++m)
    for (int n = m; n <= N; ++n) {
      double v = scale0 * (r.u() - 0.5) * 2 / ((n + 1.0) * (n + 1.0));
      if (n == 0) v = c00;
      if (n == 1) v = (m == 0 && scale0 < 1e-3) ? 0 : v;   // gravity models have no degree-1 terms
      if (n == 2 && m == 0 && !std::isnan(c20)) v = c20;
      put_f64(o, v);
    }
  for (int m = 1; m <= M; ++m)
    for (int n = m; n <= N; ++n) {
      double v = scale0 * (r.u() - 0.5) * 2 / ((n + 1.0) * (n + 1.0));
      put_f64(o, v);
    }
}

inline bool write_file(const std::string& path, const std::string& data) {
  FILE* f = std::fopen(path.c_str(), "wb");
  if (!f) return false;
  bool ok = std::fwrite(data.data(), 1, data.size(), f) == data.size();
  ok = (std::fclose(f) == 0) && ok;
  return ok;
}

struct FileSpec {
  int gN = 12, gM = 12;          // gravity degree/order
  int cN = 4, cM = 4;            // gravity correction degree/order (-1: absent)
  int mN = 10, mM = 10;          // magnetic
  int nmodels = 2, nconst = 1;
  bool mag_full = false, grav_schmidt = false;
  int gw = 72, gh = 37;          // geoid raster
  uint64_t seed = 1;
};

// writes <dir>/<name>.egm(.cof), <dir>/<name>.wmm(.cof), <dir>/<name>.pgm
inline bool write_all(const std::string& dir, const std::string& name, const FileSpec& fs) {
  vh::Rng r(vh::mix64(fs.seed ^ 0xc14f11e5ULL));
  bool ok = true;
  {  // ---------------- gravity
    std::string meta =
      "EGMF-1\n# synthetic gravity model for the C14 harness\n"
      "Name " + name + "\nDescription synthetic model, not physical\nReleaseDate 2026-10-01\n"
      "ModelRadius 6378136.3\nModelMass 3986004.415e8\nAngularVelocity 7292115e-11\n"
      "ReferenceRadius 6378137\nReferenceMass 3986004.418e8\nFlattening 1/298.257223563\n"
      "HeightOffset -0.41\nCorrectionMultiplier 0.5\n"
      "Normalization " + std::string(fs.grav_schmidt ? "schmidt" : "full") + "\nByteOrder little\nID SYNTHEGM\n";
    ok = write_file(dir + "/" + name + ".egm", meta) && ok;
    std::string cof = "SYNTHEGM";
    put_coeffs(cof, r, fs.gN, fs.gM, 3e-5, 0.0, -484.165e-6 * (fs.grav_schmidt ? std::sqrt(5.0) : 1.0));
    put_coeffs(cof, r, fs.cN, fs.cM, 0.3, 0.1);
    ok = write_file(dir + "/" + name + ".egm.cof", cof) && ok;
  }
  {  // ---------------- magnetic
    char buf[64];
    std::string meta =
      "WMMF-2\n# synthetic magnetic model for the C14 harness\n"
      "Name " + name + "\nDescription synthetic model, not physical\nReleaseDate 2026-10-01\n"
      "Radius 6371200\nType linear\nEpoch 2020\nDeltaEpoch 5\n";
    std::snprintf(buf, sizeof buf, "NumModels %d\nNumConstants %d\n", fs.nmodels, fs.nconst); meta += buf;
    meta += "MinTime 2015\nMaxTime 2035\nMinHeight -10000\nMaxHeight 850000\n"
            "Normalization " + std::string(fs.mag_full ? "full" : "schmidt") + "\nByteOrder little\nID SYNTHWMM\n";
    ok = write_file(dir + "/" + name + ".wmm", meta) && ok;
    std::string cof = "SYNTHWMM";
    for (int i = 0; i < fs.nmodels; ++i) put_coeffs(cof, r, fs.mN, fs.mM, 30000.0, 0.0);
    { int svN = fs.mN > 2 ? fs.mN - 2 : fs.mN, svM = fs.mM < svN ? fs.mM : svN;
      put_coeffs(cof, r, svN, svM, 80.0, 0.0); }   // secular variation (lower degree than the main field)
    if (fs.nconst) put_coeffs(cof, r, 1, 1, 20.0, 0.0);
    ok = write_file(dir + "/" + name + ".wmm.cof", cof) && ok;
  }
  {  // ---------------- geoid
    char buf[160];
    std::string pgm = "P5\n# Geoid file in PGM format for the GeographicLib::Geoid class\n"
      "# Description synthetic 5-degree geoid for the C14 harness\n# DateTime 2026-10-01 00:00:00\n"
      "# MaxBilinearError 1.0\n# RMSBilinearError 0.1\n# MaxCubicError 0.5\n# RMSCubicError 0.05\n"
      "# Offset -108\n# Scale 0.003\n";
    std::snprintf(buf, sizeof buf, "%d %d\n65535\n", fs.gw, fs.gh); pgm += buf;
    for (int iy = 0; iy < fs.gh; ++iy)
      for (int ix = 0; ix < fs.gw; ++ix) {
        double lat = 90.0 - 180.0 * iy / (fs.gh - 1), lon = 360.0 * ix / fs.gw;
        double h = 30 * std::sin(lat * 0.0349) * std::cos(lon * 0.0349 + 1) + 20 * std::cos(lat * 0.07) * std::sin(3 * lon * 0.01745)
                   + 3 * (r.u() - 0.5);
        if (iy == 0 || iy == fs.gh - 1) h = (iy == 0) ? 13.6 : -29.5;   // poles single-valued
        long p = std::lround((h + 108) / 0.003);
        if (p < 0) p = 0; if (p > 65535) p = 65535;
        pgm.push_back((char)((p >> 8) & 0xff)); pgm.push_back((char)(p & 0xff));
      }
    ok = write_file(dir + "/" + name + ".pgm", pgm) && ok;
  }
  return ok;
}

// process-wide scratch directory (removed at exit)
struct TmpDir {
  std::string path;
  TmpDir() {
    const char* base = std::getenv("TMPDIR");
    std::string t = std::string(base && *base ? base : "/tmp") + "/verif_c14_XXXXXX";
    std::vector<char> b(t.begin(), t.end()); b.push_back(0);
    if (mkdtemp(b.data())) path = b.data();
  }
  ~TmpDir() {
    if (path.empty()) return;
    if (DIR* d = opendir(path.c_str())) {
      while (dirent* e = readdir(d)) {
        if (e->d_name[0] == '.') continue;
        std::string p = path + "/" + e->d_name; unlink(p.c_str());
      }
      closedir(d);
    }
    rmdir(path.c_str());
  }
};

}  // namespace c14f
