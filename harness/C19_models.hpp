// C19, part 3 (included by C19.cpp): MagneticModel / MagneticCircle / GravityModel / GravityCircle loaded from
// synthetic files written by oracle/ref_modelfiles.hpp, judged against the field implied by the file's coefficients.
#pragma once

static ref::ScratchDir& scratch() { static ref::ScratchDir d("c19"); return d; }
static void rm_model(const std::string& name, const char* ext) {
  std::string b = scratch().path + "/" + name + ext; unlink(b.c_str()); unlink((b + ".cof").c_str());
}

// random coefficient set in file layout; zero00: the (0,0) coefficient must be 0 in both formats
static ref::CoefSet gen_set(vh::Rng& r, int N, int M, int style, double scale, bool zero00) {
  ref::CoefSet s = ref::CoefSet::zeros(N, M);
  if (N < 0) return s;
  auto mag = [&](int n) { return style == CS_FLAT ? scale : style == CS_ALT ? scale : scale / ((n + 1.0) * (n + 1.0)); };
  if (style == CS_SINGLE) {
    int n = r.range(N > 0 ? 1 : 0, N), m = r.range(0, std::min(n, M));
    if (m && r.coin()) s.s(n, m) = scale * r.sign(); else s.c(n, m) = scale * r.sign();
  } else
    for (int m = 0; m <= M; ++m) for (int n = m; n <= N; ++n) {
      s.c(n, m) = (style == CS_ALT ? (((n + m) & 1) ? -1.0 : 1.0) : r.uniform(-1, 1)) * mag(n);
      if (m) s.s(n, m) = (style == CS_ALT ? (((n + m) & 1) ? 1.0 : -1.0) : r.uniform(-1, 1)) * mag(n);
    }
  if (zero00) s.c(0, 0) = 0;
  return s;
}

struct DenseSet { int nmx = -1, mmx = -1; std::vector<Q> C, S; };
// documented truncation: degree <= Nmax (if >= 0), order <= Mmax (if >= 0; Mmax = Nmax if only Nmax is given)
static DenseSet dense_of(const ref::CoefSet& s, int Nmax, int Mmax, int D) {
  DenseSet d; d.C.assign((size_t)ref::tri(D, D) + 1, 0); d.S.assign(d.C.size(), 0);
  if (Nmax >= 0 && Mmax < 0) Mmax = Nmax;
  int N = s.N, M = s.M;
  if (Nmax >= 0) N = std::min(N, Nmax);
  if (Mmax >= 0) M = std::min(M, Mmax);
  if (N < 0 || M < 0) { d.nmx = d.mmx = -1; return d; }
  d.nmx = N; d.mmx = M;
  for (int n = 0; n <= N; ++n) for (int m = 0; m <= std::min(n, M); ++m) { d.C[ref::tri(n, m)] = s.c(n, m); if (m) d.S[ref::tri(n, m)] = s.s(n, m); }
  return d;
}

static int model_degree(Ctx& c, bool gravity) {
  double u = c.rng.u();
  if (!c.quick() && u < 0.003) return 360;
  if (u < (c.quick() ? 0.002 : 0.008)) return 200;
  if (u < 0.03) return 60;
  if (u < 0.2) return 20;
  static const int lo[] = {1, 2, 3, 4, 8, 12, 13, 6};
  int n = c.rng.pick(lo);
  return gravity ? std::max(n, 2) : n;
}

struct Vec3 { Q x = 0, y = 0, z = 0; };
static inline Q vmaxabs(const Vec3& a) { return fmaxq(fmaxq(fabsq(a.x), fabsq(a.y)), fabsq(a.z)); }

// ============================================================================ FieldComponents (pure function)
static void sec_fieldcomp(Ctx& c, uint64_t idx) {
  vh::Rng& r = c.rng;
  double B[3], Bt[3];
  int mode = (int)(idx % 6);
  for (int k = 0; k < 3; ++k) { B[k] = r.sign() * (mode == 1 ? r.logu(1e-3, 1e5) : r.uniform(0, 6e4)); Bt[k] = r.sign() * r.logu(1e-3, 500); }
  if (mode == 2) B[0] = r.sign() * 1e-9 * std::fabs(B[1]);                   // nearly due north
  if (mode == 3) { B[0] *= 1e-6; B[1] *= 1e-6; }                            // nearly vertical field (magnetic pole)
  if (mode == 4) B[2] = r.coin() ? 0.0 : B[2] * 1e-9;                       // horizontal field (magnetic equator)
  if (mode == 5) { B[1] = -std::fabs(B[1]); B[0] = r.coin() ? 0.0 : -0.0; } // due south: D = +-180
  static const char* mn[] = {"generic", "log-magnitudes", "nearly-north", "nearly-vertical", "horizontal", "due-south"};
  std::string cls = std::string("fieldcomponents/") + mn[mode];
  c.count(cls, vh::hmix(vh::hmix(vh::hmix(11, B[0]), B[1]), B[2]));
  J wit = J().f("Bx", B[0]).f("By", B[1]).f("Bz", B[2]).f("Bxt", Bt[0]).f("Byt", Bt[1]).f("Bzt", Bt[2]);
  if (c.want_sample(cls)) c.sample(cls, wit);
  double H, F, D, I, Ht, Ft, Dt, It, H2, F2, D2, I2;
  MagneticModel::FieldComponents(B[0], B[1], B[2], Bt[0], Bt[1], Bt[2], H, F, D, I, Ht, Ft, Dt, It);
  MagneticModel::FieldComponents(B[0], B[1], B[2], H2, F2, D2, I2);
  if (!(vh::same_bits(H, H2) && vh::same_bits(F, F2) && vh::same_bits(D, D2) && vh::same_bits(I, I2)))
    c.viol("law:C19/fieldcomponents/overloads-differ", cls, wit);
  // definitions: H = |(Bx,By)|, F = |B|, D = angle east of north, I = angle below horizontal; rates = d/dt along B + t Bt
  auto comp = [&](Q t, Q& h, Q& f, Q& d, Q& i) {
    Q bx = (Q)B[0] + t * Bt[0], by = (Q)B[1] + t * Bt[1], bz = (Q)B[2] + t * Bt[2];
    h = hypotq(bx, by); f = hypotq(h, bz); d = atan2q(bx, by) * (180 / M_PIq); i = atan2q(-bz, h) * (180 / M_PIq); };
  Q h0, f0, d0, i0; comp(0, h0, f0, d0, i0);
  Q bn = sqrtq((Q)B[0] * B[0] + (Q)B[1] * B[1] + (Q)B[2] * B[2]), btn = sqrtq((Q)Bt[0] * Bt[0] + (Q)Bt[1] * Bt[1] + (Q)Bt[2] * Bt[2]);
  if (h0 == 0 || f0 == 0) { c.event("fieldcomponents: H = 0 (conventions not documented, only finiteness checked)");
    if (!(std::isfinite(H) && std::isfinite(F) && std::isfinite(D) && std::isfinite(I) && std::isfinite(Ht) && std::isfinite(Ft) && std::isfinite(Dt) && std::isfinite(It)))
      c.viol("oracle:C19/fieldcomponents/nonfinite-at-H=0", cls, wit);
    return; }
  // rates by differentiating the definitions along B + t Bt
  Q bx = B[0], by = B[1], bz = B[2], bxt = Bt[0], byt = Bt[1], bzt = Bt[2], rad = 180 / M_PIq;
  Q rH = (bx * bxt + by * byt) / h0, rF = (bx * bxt + by * byt + bz * bzt) / f0, rD = (by * bxt - bx * byt) / (h0 * h0) * rad, rI = (bz * rH - h0 * bzt) / (f0 * f0) * rad;
  { // cross-check of these four formulas by a float128 central difference of the definitions (guards the harness, not the library)
    Q dt = (Q)1e-12 * h0 / btn; Q a[4], b[4]; comp(dt, a[0], a[1], a[2], a[3]); comp(-dt, b[0], b[1], b[2], b[3]);
    Q fd[4]; for (int k = 0; k < 4; ++k) { Q d = a[k] - b[k]; if (k == 2) d = remainderq(d, 360); fd[k] = d / (2 * dt); }
    Q an[4] = {rH, rF, rD, rI}, sc[4] = {btn, btn, btn / h0 * rad, btn / h0 * rad};
    for (int k = 0; k < 4; ++k) if (!(fabsq(fd[k] - an[k]) <= (Q)1e-7 * sc[k])) c.herr("FieldComponents reference rate formula " + std::to_string(k) + " disagrees with its finite difference: " + qs(an[k]) + " vs " + qs(fd[k])); }
  double e;
  e = dq(fabsq(H - h0) / h0) / EPS; c.obs("FieldComponents H rel err [eps]", e, wit); if (!(e <= 4)) c.viol("oracle:C19/fieldcomponents/H", cls, J(wit).f("got", H).str("want", qs(h0)));
  e = dq(fabsq(F - f0) / f0) / EPS; c.obs("FieldComponents F rel err [eps]", e, wit); if (!(e <= 4)) c.viol("oracle:C19/fieldcomponents/F", cls, J(wit).f("got", F).str("want", qs(f0)));
  // angles: absolute error in units of eps*180/pi (an angle near 0 has the relative accuracy of its tangent)
  e = dq(fabsq(remainderq((Q)D - d0, 360)) / fmaxq(fabsq(d0), (Q)1e-300)) / EPS; c.obs("FieldComponents D rel err [eps]", e, wit); if (!(e <= 8)) c.viol("oracle:C19/fieldcomponents/D", cls, J(wit).f("got", D).str("want", qs(d0)));
  e = i0 == 0 ? (I == 0 ? 0 : INF) : dq(fabsq((Q)I - i0) / fabsq(i0)) / EPS; c.obs("FieldComponents I rel err [eps]", e, wit); if (!(e <= 8)) c.viol("oracle:C19/fieldcomponents/I", cls, J(wit).f("got", I).str("want", qs(i0)));
  // rates: judged relative to the sum of the magnitudes of the products that make them up
  Q sH = (fabsq((Q)B[0] * Bt[0]) + fabsq((Q)B[1] * Bt[1])) / h0, sF = (h0 * sH + fabsq((Q)B[2] * Bt[2])) / f0;
  Q sD = (fabsq((Q)B[1] * Bt[0]) + fabsq((Q)B[0] * Bt[1])) / (h0 * h0) * (180 / M_PIq), sI = (fabsq((Q)B[2]) * sH + h0 * fabsq((Q)Bt[2])) / (f0 * f0) * (180 / M_PIq);
  auto jr = [&](const char* nm, double got, Q want, Q scale) { double ee = dq(fabsq((Q)got - want) / scale) / EPS; c.obs(std::string("FieldComponents ") + nm + " err [eps*sum|products|]", ee, wit);
    if (!(ee <= 8)) c.viol(std::string("oracle:C19/fieldcomponents/") + nm, cls, J(wit).f("got", got).str("want", qs(want))); };
  jr("Ht", Ht, rH, sH); jr("Ft", Ft, rF, sF); jr("Dt", Dt, rD, sD); jr("It", It, rI, sI);
  (void)bn;
}

// ============================================================================ magnetic models
struct MagRef {       // field of one coefficient set at one point: B = -a grad V  (nT) and its condition number
  Vec3 B; Q scale = 0, allow = 0; bool under = false;   // under: the library's internally scaled sum is in the subnormal range
};
static MagRef mag_set(const RefEval& R, const DenseSet& d, Q a) {
  MagRef m; if (d.nmx < 0) return m;
  AxisAllow al; ref::HarmResult o = R.sum(a, d.C, d.S, d.nmx, d.mmx, al);
  m.B.x = -a * o.gx; m.B.y = -a * o.gy; m.B.z = -a * o.gz; m.scale = a * o.gabs_n; m.allow = a * al.dG;
  m.under = scaled_underflow(o, a / R.g.r, &al);
  return m;
}

static void sec_magnetic(Ctx& c, uint64_t idx) {
  vh::Rng& r = c.rng;
  int N = model_degree(c, false);
  set_degree_factor(N);
  int NM = idx % 5 == 0 ? 1 : r.range(1, 4), NC = r.coin(0.4) ? 1 : 0;
  int normsel = (int)r.below(3) - 1;                 // -1 omitted (=> schmidt), 0 full, 1 schmidt
  ref::HarmNorm rn = normsel == 0 ? ref::HARM_FULL : ref::HARM_SCHMIDT;
  ref::WmmMeta mm;
  mm.version = NC || r.coin() ? 2 : 1; mm.num_models = NM; mm.num_constants = NC; mm.write_num_constants = NC || r.coin();
  mm.norm = normsel;
  mm.radius = r.coin(0.6) ? 6371200.0 : r.logu(1e5, 1e8);
  static const double dts[] = {5, 1, 2.5, 0.5, 10};
  mm.epoch = r.coin(0.7) ? 1900 + 5.0 * r.range(0, 25) : r.uniform(1, 3000);
  mm.delta_epoch = r.coin(0.7) ? r.pick(dts) : r.uniform(0.1, 20);
  mm.write_delta_epoch = NM > 1 || r.coin();
  if (!mm.write_delta_epoch) mm.delta_epoch = 1;       // documented default
  // a single-model file may carry a non-positive DeltaEpoch: the reader replaces it by 1 (irrelevant for the field: one epoch + rate);
  // and the signature line may carry text after the version (both paths shown as never executed by the reach monitor)
  double file_dt = mm.delta_epoch;
  if (NM == 1 && r.coin(0.3)) { mm.write_delta_epoch = true; file_dt = r.coin() ? 0.0 : -r.uniform(0.1, 10); mm.delta_epoch = 1; }
  if (r.coin(0.15)) mm.signature_suffix = r.coin() ? " synthetic" : "\ttrailing text 123";
  mm.min_time = mm.epoch; mm.max_time = mm.epoch + NM * mm.delta_epoch + 5; mm.min_height = -1e3; mm.max_height = 8.5e5;
  mm.id = "SYNW" + std::to_string(1000 + idx % 9000);
  int style = r.coin(0.6) ? CS_DECAY : (int)r.pick(std::vector<int>{CS_FLAT, CS_SINGLE, CS_ALT});
  std::vector<ref::CoefSet> sets;
  int Nmaxset = 0;
  for (int i = 0; i < NM + 1 + NC; ++i) {
    bool rate = i == NM, cons = i == NM + 1;
    int Ni = rate ? r.range(0, N) : cons ? (r.coin(0.5) ? N : r.range(0, N)) : (r.coin(0.6) ? N : r.range(1, N));
    if (r.coin(0.03) && (rate || cons)) Ni = -1;                                     // an empty set is a legal file
    int Mi = Ni < 0 ? -1 : (r.coin(0.7) ? Ni : r.range(0, Ni));
    sets.push_back(gen_set(r, Ni, Mi, style, rate ? 80.0 : cons ? 200.0 : 3e4, true));
    Nmaxset = std::max(Nmaxset, Ni);
  }
  int Nmax = -1, Mmax = -1, tmode = (int)r.below(6);
  if (tmode == 1) Nmax = r.range(0, N + 2);
  else if (tmode == 2) { Nmax = r.range(0, N + 2); Mmax = r.range(0, Nmax); }
  else if (tmode == 3) Mmax = r.range(0, N + 1);
  double ea = Constants::WGS84_a(), ef = Constants::WGS84_f();
  if (r.coin(0.3)) { ea = r.coin() ? 6371200.0 : r.logu(1e5, 1e8); static const double fl[] = {0, 0.1, -0.1, 0.3, -0.3, 1e-9}; ef = r.pick(fl); }
  std::string name = "mag" + std::to_string(idx);
  std::string cls0 = std::string("magnetic/") + (NM == 1 ? "single-epoch" : "multi-epoch") + (NC ? "+const" : "") + "/" + (rn == ref::HARM_FULL ? "full" : "schmidt") + "/" + nbucket(N) +
                     (tmode >= 1 && tmode <= 3 ? "/truncated" : "");
  J mw = J().i("N", N).i("NumModels", NM).i("NumConstants", NC).i("norm", normsel).f("radius", mm.radius).f("epoch", mm.epoch).f("delta_epoch", mm.delta_epoch)
             .i("Nmax", Nmax).i("Mmax", Mmax).f("earth_a", ea).f("earth_f", ef).str("coef_style", coefstyle_name[style]);
  { ref::WmmMeta mf = mm; mf.delta_epoch = file_dt; if (!ref::write_wmm(scratch().path, name, mf, sets)) { c.herr("cannot write synthetic magnetic model under " + scratch().path); return; } }
  if (false) { c.herr("cannot write synthetic magnetic model under " + scratch().path); return; }
  // documented error: Mmax > Nmax
  if (r.coin(0.05)) {
    bool threw = false;
    try { MagneticModel bad(name, scratch().path, Geocentric(ea, ef), 2, 5); } catch (const GeographicErr&) { threw = true; }
    c.count("magnetic/constructor/Mmax>Nmax-must-throw", idx, true);
    if (!threw) c.viol("oracle:C19/magnetic/Mmax>Nmax-accepted", cls0, mw);
  }
  std::unique_ptr<MagneticModel> M;
  try { M.reset(new MagneticModel(name, scratch().path, Geocentric(ea, ef), Nmax, Mmax)); }
  catch (const std::exception& e) { c.viol("oracle:C19/magnetic/well-formed-file-rejected", cls0, J(mw).str("what", e.what())); rm_model(name, ".wmm"); return; }
  rm_model(name, ".wmm");
  int D = std::max(Nmaxset, 0);
  std::vector<DenseSet> ds; int degmax = -1, ordmax = -1;
  for (auto& s : sets) { ds.push_back(dense_of(s, Nmax, Mmax, D)); degmax = std::max(degmax, ds.back().nmx); ordmax = std::max(ordmax, ds.back().mmx); }
  if (M->Degree() != degmax || M->Order() != ordmax)
    c.viol("oracle:C19/magnetic/degree-order-inspectors", cls0, J(mw).i("Degree", M->Degree()).i("Order", M->Order()).i("want_degree", degmax).i("want_order", ordmax));
  if (!(M->MinTime() == mm.min_time && M->MaxTime() == mm.max_time && M->MinHeight() == mm.min_height && M->MaxHeight() == mm.max_height && M->EquatorialRadius() == ea && M->Flattening() == ef))
    c.viol("oracle:C19/magnetic/metadata-inspectors", cls0, mw);

  int npts = N >= 200 ? 1 : N >= 60 ? 2 : 5;
  for (int ip = 0; ip < npts; ++ip) {
    // time: before the first epoch, on a knot, inside an interval, beyond the last epoch
    double span = NM * mm.delta_epoch, t; int tk = (int)r.below(5); std::string tcl;
    if (tk == 0) { t = mm.epoch - r.uniform(0, 30); tcl = "before-first-epoch"; }
    else if (tk == 1) { t = mm.epoch + r.range(0, NM) * mm.delta_epoch; tcl = "on-knot"; }
    else if (tk == 2) { t = mm.epoch + (NM - 1) * mm.delta_epoch + r.uniform(0, 40); tcl = "after-last-epoch"; }
    else { t = mm.epoch + r.uniform(0, span); tcl = "inside"; }
    static const double slat[] = {90, -90, 0, 45, -89.999999, 1e-10};
    double lat = r.coin(0.25) ? r.pick(slat) : r.uniform(-90, 90), lon = r.coin(0.15) ? r.pick(std::vector<double>{0, 180, -180, 90, -90, 360, 540}) : r.uniform(-180, 180);
    double h = r.coin(0.2) ? 0 : r.coin(0.7) ? r.uniform(-1e4, 1e6) : r.logu(1e3, 3e7);
    if (N >= 200) h = std::max(h, -1e3);
    Q tt = (Q)t - (Q)mm.epoch, dtq = mm.delta_epoch;
    int n = (int)std::max((Q)0, fminq(floorq(tt / dtq), (Q)(NM - 1)));
    // a knot computed in double may fall in either neighbouring interval: the field is continuous there, the rate is not
    Q frac = tt / dtq - roundq(tt / dtq); bool near_knot = fabsq(frac) < (Q)1e-9 && roundq(tt / dtq) >= 1 && roundq(tt / dtq) <= NM - 1 && fabsq(frac) > 0;
    bool interp = n + 1 < NM;
    Q tau = tt - n * dtq;
    ref::GeoFrame Fm = ref::geodetic_frame(ea, ef, lat, lon, h);
    RefEval R(dq(Fm.X), dq(Fm.Y), dq(Fm.Z), D, rn);
    // the frame is exact in float128; evaluate REF at the float128 point, not at its rounding to double
    R.g = ref::HarmPoint(Fm.X, Fm.Y, Fm.Z); R.L.compute(D, D, rn, R.g.t, R.g.u); R.axis = R.g.u < (Q)EPS15;
    if (R.axis) { R.g2 = R.g; R.g2.u = EPS15; R.L2.compute(D, D, rn, R.g2.t, R.g2.u); }
    MagRef A = mag_set(R, ds[n], mm.radius), Bn = mag_set(R, ds[n + 1], mm.radius), Cn = NC ? mag_set(R, ds[NM + 1], mm.radius) : MagRef();
    Vec3 Bv, Bt; Q sB, sBt, allow;
    if (interp) {
      Bt.x = (Bn.B.x - A.B.x) / dtq; Bt.y = (Bn.B.y - A.B.y) / dtq; Bt.z = (Bn.B.z - A.B.z) / dtq;
      sBt = (A.scale + Bn.scale) / dtq;
      sB = fabsq(1 - tau / dtq) * A.scale + fabsq(tau / dtq) * Bn.scale + A.scale + Cn.scale;
    } else { Bt = Bn.B; sBt = Bn.scale; sB = A.scale + fabsq(tau) * Bn.scale + Cn.scale; }
    allow = (interp ? (1 + fabsq(1 - tau / dtq)) * A.allow + (1 + fabsq(tau / dtq)) * Bn.allow : A.allow + (1 + fabsq(tau)) * Bn.allow) + Cn.allow;
    if (near_knot) {   // the library may have used the other neighbouring interval: same value (continuity), other rounding
      int kk = (int)roundq(tt / dtq); MagRef P1 = mag_set(R, ds[kk - 1], mm.radius), P2 = mag_set(R, ds[kk], mm.radius), P3 = mag_set(R, ds[kk + 1], mm.radius);
      sB += 2 * (P1.scale + P2.scale) + (kk + 1 < NM ? P3.scale * 2 : 0); allow += P1.allow + P2.allow + P3.allow; }
    // tau = (t - t0) - n dt carries the rounding eps |t - t0| (t itself is taken as exact): the field moves by that times the rate
    sB += fabsq(tt) * sBt;
    bool under = A.under || Bn.under || Cn.under;
    Bv.x = A.B.x + tau * Bt.x + Cn.B.x; Bv.y = A.B.y + tau * Bt.y + Cn.B.y; Bv.z = A.B.z + tau * Bt.z + Cn.B.z;
    if (c.only) std::fprintf(stderr, "t=%.17g n=%d interp=%d near_knot=%d tau=%s A.scale=%s Bn.scale=%s sB=%s allow=%s\n", t, n, (int)interp, (int)near_knot, qs(tau).c_str(), qs(A.scale).c_str(), qs(Bn.scale).c_str(), qs(sB).c_str(), qs(allow).c_str());
    Q Be, Bnn, Bu, Bte, Btn, Btu; ref::to_enu(Fm, Bv.x, Bv.y, Bv.z, Be, Bnn, Bu); ref::to_enu(Fm, Bt.x, Bt.y, Bt.z, Bte, Btn, Btu);
    std::string cls = cls0 + "/" + tcl;
    J wit = J(mw).f("t", t).f("lat", lat).f("lon", lon).f("h", h);
    c.count(cls, vh::hmix(vh::hmix(vh::hmix(vh::hmix(vh::hmix(21 + N, t), lat), lon), h), mm.radius));
    if (c.want_sample(cls)) c.sample(cls, wit);
    if (!(sB < (Q)1e290) || !(A.scale < (Q)1e290) || !(Bn.scale < (Q)1e290) || !(Cn.scale < (Q)1e290)) { c.event("magnetic: REF out of double range"); continue; }
    Q tolB = (Q)EPS * sB * K_M + allow + (Q)1e-300, tolBt = (Q)EPS * sBt * K_M + allow / fminq(dtq, 1) + (Q)1e-300;
    auto chk = [&](const char* what, const std::string& key, double gx, double gy, double gz, Q wx, Q wy, Q wz, Q tol) {
      double e = finite3(gx, gy, gz) ? dq(fmaxq(fmaxq(fabsq((Q)gx - wx), fabsq((Q)gy - wy)), fabsq((Q)gz - wz)) / tol) * K_M : INF;
      c.obs(std::string("magnetic ") + what + " err [eps*sum(n+2)|term|, weighted by |time weights|]" + (under ? " (internal scaling subnormal)" : ""), e, wit);
      if (c.only) std::fprintf(stderr, "%s %s: lib (%.17g,%.17g,%.17g) ref (%s,%s,%s) e=%g\n", cls.c_str(), what, gx, gy, gz, qs(wx).c_str(), qs(wy).c_str(), qs(wz).c_str(), e);
      if (!(e <= K_M)) c.viol(under ? KEY_UNDER : key, cls, J(wit).str("quantity", what).f("err_over_eps_scale", e).f("got_x", gx).f("got_y", gy).f("got_z", gz).str("want_x", qs(wx)).str("want_y", qs(wy)).str("want_z", qs(wz)));
    };
    double bx = vh::sentinel(1), by = vh::sentinel(2), bz = vh::sentinel(3), bxt = vh::sentinel(4), byt = vh::sentinel(5), bzt = vh::sentinel(6);
    (*M)(t, lat, lon, h, bx, by, bz, bxt, byt, bzt);
    chk("B(east,north,up)", "oracle:C19/magnetic/field", bx, by, bz, Be, Bnn, Bu, tolB);
    if (!near_knot) chk("dB/dt(east,north,up)", "oracle:C19/magnetic/rate", bxt, byt, bzt, Bte, Btn, Btu, tolBt);
    double cx, cy, cz; (*M)(t, lat, lon, h, cx, cy, cz);
    if (!(vh::same_bits(cx, bx) && vh::same_bits(cy, by) && vh::same_bits(cz, bz)) && finite3(bx, by, bz))
      c.viol("law:C19/magnetic/field-differs-with-rate-request", cls, J(wit).f("bx", bx).f("cx", cx));
    // geocentric interface at the library's own geocentric point
    { double X, Y, Z; Geocentric(ea, ef).Forward(lat, lon, h, X, Y, Z);
      double GX, GY, GZ, GXt, GYt, GZt; M->FieldGeocentric(t, X, Y, Z, GX, GY, GZ, GXt, GYt, GZt);
      // position differs from REF's by rounding only (covered by the (n+2) weights)
      chk("B(X,Y,Z) geocentric", "oracle:C19/magnetic/field-geocentric", GX, GY, GZ, Bv.x, Bv.y, Bv.z, tolB);
      if (!near_knot) chk("dB/dt(X,Y,Z) geocentric", "oracle:C19/magnetic/rate-geocentric", GXt, GYt, GZt, Bt.x, Bt.y, Bt.z, tolBt); }
    // ---- MagneticCircle at the same (t, lat, h): library vs library at several longitudes, and vs REF at lon
    if (ip < 2) {
      MagneticCircle mc = M->Circle(t, lat, h);
      double worst = 0, worstt = 0;
      for (int il = 0; il < 8; ++il) {
        double lo = il == 0 ? lon : il == 1 ? 0 : il == 2 ? 180 : il == 3 ? -90 : r.uniform(-180, 180);
        double ax, ay, az, axt, ayt, azt, dx, dy, dz, dxt, dyt, dzt, ex, ey, ez;
        mc(lo, ax, ay, az, axt, ayt, azt); (*M)(t, lat, lo, h, dx, dy, dz, dxt, dyt, dzt); mc(lo, ex, ey, ez);
        if (!(vh::same_bits(ex, ax) && vh::same_bits(ey, ay) && vh::same_bits(ez, az)) && finite3(ax, ay, az)) c.viol("law:C19/magneticcircle/field-differs-with-rate-request", cls, J(wit).f("lon", lo));
        c.count(std::string("magneticcircle/") + (NC ? "const/" : "") + nbucket(N), vh::hmix(vh::hmix(31, t), lo));
        if (il == 0) { chk("circle B(east,north,up)", "oracle:C19/magneticcircle/field", ax, ay, az, Be, Bnn, Bu, tolB); if (!near_knot) chk("circle dB/dt", "oracle:C19/magneticcircle/rate", axt, ayt, azt, Bte, Btn, Btu, tolBt);
          double GX, GY, GZ, GXt, GYt, GZt; mc.FieldGeocentric(lo, GX, GY, GZ, GXt, GYt, GZt); chk("circle B geocentric", "oracle:C19/magneticcircle/field-geocentric", GX, GY, GZ, Bv.x, Bv.y, Bv.z, tolB); }
        double e = std::max(std::max(std::fabs(ax - dx), std::fabs(ay - dy)), std::fabs(az - dz)) / dq(tolB) * K_M;
        double et = std::max(std::max(std::fabs(axt - dxt), std::fabs(ayt - dyt)), std::fabs(azt - dzt)) / dq(tolBt) * K_M;
        if (std::isnan(e)) e = INF; if (std::isnan(et)) et = INF;
        worst = std::max(worst, e); if (!near_knot) worstt = std::max(worstt, et);
      }
      c.obs(std::string("magnetic circle vs direct field [eps*scale]") + (under ? " (internal scaling subnormal)" : ""), worst, wit); c.obs(std::string("magnetic circle vs direct rate [eps*scale]") + (under ? " (internal scaling subnormal)" : ""), worstt, wit);
      if (!(worst <= 2 * K_M)) c.viol(under ? KEY_UNDER : "law:C19/magneticcircle/field-differs-from-direct", cls, J(wit).f("err_over_eps_scale", worst));
      if (!(worstt <= 2 * K_M)) c.viol(under ? KEY_UNDER : "law:C19/magneticcircle/rate-differs-from-direct", cls, J(wit).f("err_over_eps_scale", worstt));
      if (!(mc.Latitude() == lat && mc.Height() == h && mc.Time() == t && mc.Flattening() == ef)) c.viol("oracle:C19/magneticcircle/inspectors", cls, wit);
    }
  }
}
